(* ConvexLoopProofs.v -- C02-T1, whole-loop form, dense model: on a convex problem (P psd) with the never-failing
   fault oracle, PIQP_NUMERICS is unreachable and the iterative-refinement flag is never changed -- by a pass of the
   main loop, by main_loop (any fuel), and by API.solve.  Combines PDProofs.v (factorisation never fails on positive
   definite K_red) with the interior invariant of InteriorProofs.v (s, z, rho, delta stay > 0). *)
From PIQP Require Import Base Data Bounds PrecondDense KKTDense IPM API InteriorProofs.
From PIQP Require Import LinAlg LLTProofs KKTProofs PDProofs.
From PIQP Require InteriorExamples.
From PIQP.gen Require Import Consts.
From Coq Require Import Lia Lqa.
From RecordUpdate Require Import RecordSet.
Import RecordSetNotations.
Local Open Scope Qc_scope.

(* ================================================================ Part A : one pass, strengthened conclusion *)
Section PassC.
  Variable K : Consts.
  Variable S : Settings.
  Variable d : Data.
  Variable pc : Precond.
  Variable cp : F -> F.
  Local Notation nofault := (fun _ : nat => false).

  Theorem loop_pass_convex st o :
    wf_data d -> P_psd d -> 0 <= k_eps K -> kkt_shape d (st_kkt st) ->
    0 < i_rho (st_inf st) -> 0 < i_delta (st_inf st) ->
    iter_pos d (s (st_it st)) (s_lb (st_it st)) (s_ub (st_it st)) (z (st_it st)) (z_lb (st_it st)) (z_ub (st_it st)) ->
    loop_pass K S d pc nofault cp st = Ok o ->
    st_refine (outcome_state o) = st_refine st /\ kkt_shape d (st_kkt (outcome_state o)) /\
    match o with
    | Stop st' => i_status (st_inf st') <> NUMERICS
    | Continue st' => True
    end.
  Proof.
    intros Hd HP Heps Hsh Hrho Hdelta Hit H. cbv delta [loop_pass] in H. cbv beta in H.
    zeta1 H.
    apply bind_ok in H as ([res0 inf0a] & H0 & H). cbv beta iota in H.
    assert (Hreg0 : i_rho inf0a = i_rho (st_inf st) /\ i_delta inf0a = i_delta (st_inf st)).
    { unfold inf0 in H0. destruct (i_iter (st_inf st) =? 0)%Z.
      - eapply update_nr_residuals_reg; eassumption.
      - injection H0 as _ <-. split; reflexivity. }
    repeat zeta1 H.
    assert (Early : forall stat, stat <> NUMERICS ->
              st_refine (st1 <| st_inf := inf1 <| i_status := stat |> |>) = st_refine st /\
              kkt_shape d (st_kkt (st1 <| st_inf := inf1 <| i_status := stat |> |>)) /\
              i_status (st_inf (st1 <| st_inf := inf1 <| i_status := stat |> |>)) <> NUMERICS).
    { intros stat Hstat. unfold st1. destruct st, inf1. cbn. auto. }
    match type of H with (if ?c then _ else _) = _ => destruct c end.
    { injection H as <-. apply Early. discriminate. }
    repeat zeta1 H.
    match type of H with (if ?c then _ else _) = _ => destruct c end.
    { injection H as <-. apply Early. discriminate. }
    match type of H with (if ?c then _ else _) = _ => destruct c end.
    { injection H as <-. apply Early. discriminate. }
    clear Early.
    repeat zeta1 H.
    apply bind_ok in H as (inf3 & Hinf3 & H).
    repeat zeta1 H.
    apply bind_ok in H as (st4 & Hst4 & H).
    apply bind_ok in H as ([st5 ok] & Hfac & H). cbv beta iota in H.
    assert (R1 : i_rho inf1 = i_rho (st_inf st) /\ i_delta inf1 = i_delta (st_inf st)).
    { unfold inf1. destruct Hreg0 as [<- <-]. destruct inf0a. split; reflexivity. }
    assert (R3 : i_rho inf3 = i_rho inf1 /\ i_delta inf3 = i_delta inf1).
    { match type of Hinf3 with (if ?c then _ else _) = _ => destruct c end.
      - apply bind_ok in Hinf3 as (mu & _ & Hinf3). injection Hinf3 as <-. unfold inf2. destruct inf1. split; reflexivity.
      - injection Hinf3 as <-. unfold inf2. destruct inf1. split; reflexivity. }
    assert (R4 : i_rho inf4 = i_rho inf3 /\ i_delta inf4 = i_delta inf3).
    { unfold inf4. match goal with |- context [if ?c then _ else _] => destruct c end; destruct inf3; split; reflexivity. }
    match type of Hst4 with do_update_scalings d ?sx = _ => set (stX := sx) in * end.
    assert (X1 : st_kkt stX = st_kkt st) by (unfold stX, st1; destruct st; reflexivity).
    assert (X2 : st_inf stX = inf4) by (unfold stX, st1; destruct st; reflexivity).
    assert (X3 : st_refine stX = st_refine st) by (unfold stX, st1; destruct st; reflexivity).
    assert (X4 : s (st_it stX) = s (st_it st) /\ s_lb (st_it stX) = s_lb (st_it st) /\ s_ub (st_it stX) = s_ub (st_it st) /\
                 z (st_it stX) = (if sh_z then vaddc (k_eps K) (z (st_it st)) else z (st_it st)) /\
                 z_lb (st_it stX) = (if sh_lb then vaddc (k_eps K) (z_lb (st_it st)) else z_lb (st_it st)) /\
                 z_ub (st_it stX) = (if sh_ub then vaddc (k_eps K) (z_ub (st_it st)) else z_ub (st_it st))).
    { unfold stX, it3, it, st1. clear. destruct st as [it0 ? ? ? ? ?]. destruct it0. cbn. repeat split. }
    destruct X4 as (Y1 & Y2 & Y3 & Y4 & Y5 & Y6).
    destruct Hit as (Ls & Lz & Ps & Lslb & Lzlb & Plb & Lsub & Lzub & Pub).
    assert (HitX : iter_pos d (s (st_it stX)) (s_lb (st_it stX)) (s_ub (st_it stX)) (z (st_it stX)) (z_lb (st_it stX)) (z_ub (st_it stX))).
    { rewrite Y1, Y2, Y3, Y4, Y5, Y6.
      destruct (pos_shift sh_z (k_eps K) (z (st_it st)) (d_m d) Heps ltac:(lia) (fun l Hl => proj2 (Ps l Hl))) as [A1 A2].
      destruct (pos_shift sh_lb (k_eps K) (z_lb (st_it st)) (d_nlb d) Heps Lzlb (fun l Hl => proj2 (Plb l Hl))) as [B1 B2].
      destruct (pos_shift sh_ub (k_eps K) (z_ub (st_it st)) (d_nub d) Heps Lzub (fun l Hl => proj2 (Pub l Hl))) as [C1 C2].
      unfold iter_pos. repeat split; try assumption; try (apply Ps; assumption); try (apply Plb; assumption);
        try (apply Pub; assumption); try (apply A2; assumption); try (apply B2; assumption); try (apply C2; assumption).
      destruct sh_z; [rewrite LinAlg.vaddc_length|]; assumption. }
    assert (HshX : kkt_shape d (st_kkt stX)) by (rewrite X1; assumption).
    assert (HrhoX : 0 < i_rho (st_inf stX)).
    { rewrite X2. destruct R4 as [-> _]. destruct R3 as [-> _]. destruct R1 as [-> _]. assumption. }
    assert (HdeltaX : 0 < i_delta (st_inf stX)).
    { rewrite X2. destruct R4 as [_ ->]. destruct R3 as [_ ->]. destruct R1 as [_ ->]. assumption. }
    destruct (update_then_factorize_convex S d stX st4 Hd HP HshX HrhoX HdeltaX HitX Hst4)
      as (_ & _ & st5' & Hf' & Q1 & Q2 & Q3 & Q4).
    rewrite Hf' in Hfac. injection Hfac as <- <-. cbn [negb] in H. cbv iota in H.
    assert (Href : st_refine st5' = st_refine st) by (rewrite Q1; exact X3).
    clearbody stX. clear Hst4 Hf'.
    repeat zeta1 H.
    match type of H with (if ?c then _ else _) = _ => destruct c end.
    - repeat first [zeta1 H | bind1 H].
      injection H as <-. cbn [outcome_state]. rewrite <- Href. destruct st5'. cbn in Q4 |- *. auto.
    - repeat first [zeta1 H | bind1 H].
      injection H as <-. cbn [outcome_state]. rewrite <- Href. destruct st5'. cbn in Q4 |- *. auto.
  Qed.
End PassC.

(* ================================================================ Part B : the whole main loop *)
Lemma interior_iter_pos d it : ItPos it -> ItShape d it ->
  iter_pos d (s it) (s_lb it) (s_ub it) (z it) (z_lb it) (z_ub it).
Proof.
  intros (P1 & P2 & P3 & P4 & P5 & P6) (L1 & L2 & _ & L4 & L5 & _ & L7 & L8 & _).
  unfold iter_pos. repeat split; try nlia;
    try (apply vpos_nth; [assumption | nlia]).
Qed.

Section LoopC.
  Variable K : Consts.
  Variable S : Settings.
  Variable d : Data.
  Variable pc : Precond.
  Variable cp : F -> F.
  Local Notation nofault := (fun _ : nat => false).

  Hypothesis Hcp : cp_pos cp.
  Hypothesis Htau0 : 0 < tau S.
  Hypothesis Htau1 : tau S < 1.
  Hypothesis Hfine : 0 < reg_finetune_lower_limit S.
  Hypothesis Hepsabs : 0 < eps_abs S.
  Hypothesis Hkeps : 0 < k_eps K.
  Hypothesis Hretry : 0 < k_retry_mul K.
  Hypothesis Hreglim : 0 < k_reglim_mul K.
  Hypothesis HD : DataShape d.
  Hypothesis Hwf : wf_data d.
  Hypothesis Hpsd : P_psd d.

  (* interior state of a convex problem *)
  Definition ConvexInv (st : St) : Prop := Interior d st /\ kkt_shape d (st_kkt st).

  Theorem loop_pass_convex_inv st o :
    ConvexInv st -> loop_pass K S d pc nofault cp st = Ok o ->
    st_refine (outcome_state o) = st_refine st /\
    match o with
    | Continue st' => ConvexInv st'
    | Stop st' => i_status (st_inf st') <> NUMERICS
    end.
  Proof.
    intros [HI Hsh] E.
    pose proof (loop_invariant K S d pc nofault cp Hcp Htau0 Htau1 Hfine Hepsabs Hkeps Hretry Hreglim st o HD HI E) as HI'.
    destruct HI as [[HP (Hr & Hdl & _)] [HS _]].
    destruct (loop_pass_convex K S d pc cp st o Hwf Hpsd (Qclt_le_weak _ _ Hkeps) Hsh Hr Hdl
                (interior_iter_pos d _ HP HS) E) as (A & B & C).
    split; [exact A|]. destruct o as [st'|st']; cbn [outcome_state] in *; [split; assumption | exact C].
  Qed.

  (* any fuel: the loop never reports NUMERICS and never touches the refinement flag *)
  Theorem main_loop_convex fuel : forall st st',
    ConvexInv st -> main_loop K S d pc nofault cp fuel st = Ok st' ->
    i_status (st_inf st') <> NUMERICS /\ st_refine st' = st_refine st.
  Proof.
    induction fuel as [|f IH]; intros st st' HI E; cbn [main_loop] in E; [discriminate|].
    destruct (i_iter (st_inf st) <? max_iter S)%Z.
    - destruct (loop_pass K S d pc nofault cp st) as [o|] eqn:E0; cbn [bind] in E; [|discriminate].
      destruct (loop_pass_convex_inv st o HI E0) as [A B].
      destruct o as [st1|st1]; cbn [outcome_state] in A.
      + destruct (IH st1 st' B E) as [C1 C2]. split; [exact C1 | rewrite C2; exact A].
      + injection E as <-. split; assumption.
    - injection E as <-. destruct st as [? inf ? ? ? ?]. destruct inf. cbn. split; [discriminate | reflexivity].
  Qed.
End LoopC.

(* ================================================================ Part C : API.solve *)
Lemma init_factor_convex_explicit K S d fuel st : kkt_pd (st_kkt st) ->
  exists f, init_factor K S d (fun _ => false) (Datatypes.S fuel) st
            = Ok (st <| st_kkt := (st_kkt st) <| k_fact := Some f |> |> <| st_calls := Datatypes.S (st_calls st) |>, true).
Proof.
  intros H. destruct (do_factorize_pd S d st H) as [f Hf]. exists f. cbn [init_factor]. rewrite Hf. reflexivity.
Qed.

Lemma initial_point_keeps K S d cp st st' : initial_point K S d cp st = Ok st' ->
  st_kkt st' = st_kkt st /\ st_refine st' = st_refine st.
Proof.
  intros H. cbv delta [initial_point] in H. cbv beta in H.
  repeat first [zeta1 H | bind1 H].
  injection H as <-. destruct st. split; reflexivity.
Qed.

Lemma kkt_init_convex d rho delta junk k :
  wf_data d -> P_psd d -> 0 < rho -> 0 < delta ->
  kkt_init d rho delta junk = Ok k -> kkt_pd k /\ kkt_shape d k.
Proof.
  intros Hd HP Hrho Hdelta H. unfold kkt_init in H. cbv zeta in H.
  match type of H with update_kkt d ?kx = _ => set (k0 := kx) in * end.
  assert (Hwf0 : wf_scal d k0).
  { unfold wf_scal, k0. cbn. rewrite !app_length, !LinAlg.vconst_length. repeat split; lia. }
  assert (Hpos0 : pos_scal d k0).
  { unfold pos_scal, k0. cbn. split; [assumption|]. split; [|split].
    - intros l Hl. rewrite (nth_indep (vconst (d_m d) 1) 0 1) by (rewrite LinAlg.vconst_length; assumption).
      rewrite nth_vconst. split; reflexivity.
    - intros i Hi. rewrite app_nth1 by (rewrite LinAlg.vconst_length; assumption).
      rewrite (nth_indep (vconst (d_nlb d) 1) 0 1) by (rewrite LinAlg.vconst_length; assumption).
      rewrite nth_vconst. split; reflexivity.
    - intros i Hi. rewrite app_nth1 by (rewrite LinAlg.vconst_length; assumption).
      rewrite (nth_indep (vconst (d_nub d) 1) 0 1) by (rewrite LinAlg.vconst_length; assumption).
      rewrite nth_vconst. split; reflexivity. }
  assert (HATA0 : (0 < d_p d)%nat -> k_ATA k0 = compute_ATA d).
  { intros Hp. unfold k0. cbn [k_ATA]. destruct (Nat.ltb 0 (d_p d)) eqn:E; [reflexivity | apply Nat.ltb_ge in E; lia]. }
  assert (Hrho0 : 0 < k_rho k0) by exact Hrho.
  destruct (kmat_pd_when_convex d k0 k Hd Hwf0 HATA0 Hrho0 Hpos0 HP H) as (Lmat & Hwf & Hpd).
  split; [split; [assumption | rewrite Lmat; assumption]|].
  destruct (update_kkt_denotes_Kred d k0 k Hd Hwf0 HATA0 H) as (Ek & _).
  destruct (set_k_mat_proj k0 (k_mat k)) as (_ & _ & _ & _ & M5 & M6 & _ & M8 & M9 & M10 & _).
  rewrite <- Ek in M5, M6, M8, M9, M10. destruct Hwf0 as (_ & _ & W3 & W4 & W5 & W6).
  unfold kkt_shape. rewrite M5, M6, M8, M9, M10. exact (conj W3 (conj W4 (conj W5 (conj W6 HATA0)))).
Qed.

(* what the theorem needs to know about the solver object: convex, well-shaped (scaled) data and a KKT object
   of the right shape which, if never refreshed since setup/update, holds a positive definite matrix *)
Definition solver_convex (sv : Solver) : Prop :=
  wf_data (sv_data sv) /\ DataShape (sv_data sv) /\ P_psd (sv_data sv) /\
  kkt_shape (sv_data sv) (sv_kkt sv) /\
  (sv_kkt_init_state sv = true ->
     kkt_pd (sv_kkt sv) /\ KShape (sv_data sv) (sv_kkt sv) /\ KSign (sv_data sv) (sv_kkt sv)).

(* a solver object as setup leaves it *)
Lemma setup_state_convex junk (sv : Solver) :
  wf_data (sv_data sv) -> DataShape (sv_data sv) -> P_psd (sv_data sv) ->
  0 < rho_init (sv_set sv) -> 0 < delta_init (sv_set sv) ->
  kkt_init (sv_data sv) (rho_init (sv_set sv)) (delta_init (sv_set sv)) junk = Ok (sv_kkt sv) ->
  solver_convex sv.
Proof.
  intros Hd HD HP Hrho Hdelta Hk.
  destruct (kkt_init_convex _ _ _ _ _ Hd HP Hrho Hdelta Hk) as [Hpd Hsh].
  destruct (kkt_init_ok _ _ _ _ _ Hk) as [HKS HKG].
  unfold solver_convex. split; [assumption|]. split; [assumption|]. split; [assumption|]. split; [assumption|].
  intros _. exact (conj Hpd (conj HKS HKG)).
Qed.

Definition consts_ok (K : Consts) : Prop :=
  1 < k_shift K /\ 0 < k_half K /\ 0 < k_sinit K /\ 0 <= k_snorm K /\ 0 < k_eps K /\
  0 < k_retry_mul K /\ 0 < k_reglim_mul K.

Definition settings_ok (S : Settings) : Prop :=
  0 < rho_init S /\ 0 < delta_init S /\ 0 < reg_lower_limit S /\ 0 < reg_finetune_lower_limit S /\
  0 < eps_abs S /\ 0 < tau S /\ tau S < 1.

Lemma vpos_vconst1 n : vpos (vconst n 1).
Proof. apply vpos_vconst. reflexivity. Qed.

Lemma entry_iter_pos d o :
  iter_pos d (s (entry_iterate d o)) (s_lb (entry_iterate d o)) (s_ub (entry_iterate d o))
             (z (entry_iterate d o)) (z_lb (entry_iterate d o)) (z_ub (entry_iterate d o)).
Proof.
  assert (N : forall n l, (l < n)%nat -> 0 < nth l (vconst n 1) 0).
  { intros n l Hl. rewrite (nth_indep (vconst n 1) 0 1) by (rewrite LinAlg.vconst_length; assumption).
    rewrite nth_vconst. reflexivity. }
  unfold entry_iterate, iter_pos. cbn. rewrite !LinAlg.vconst_length.
  repeat split; try lia; apply N; assumption.
Qed.

Theorem solve_convex_never_numerics K junk cp_bits sv sv' status :
  consts_ok K -> settings_ok (sv_set sv) -> solver_convex sv ->
  solve K junk cp_bits (fun _ => false) sv = Ok (sv', status) ->
  status <> NUMERICS /\ sv_refine sv' = sv_refine sv.
Proof.
  intros (Hksh & Hhalf & Hsinit & Hsnorm & Hkeps & Hretry & Hreglim)
         (Hrho & Hdelta & Hreg & Hfine & Hepsabs & Htau0 & Htau1)
         (Hd & HD & HP & Hsh & Hinit) H.
  cbv delta [solve] in H. cbv beta in H. repeat zeta1 H.
  assert (I0 : InfPos inf0 /\ i_iter inf0 = 0%Z).
  { unfold inf0, S. destruct (sv_info sv). cbn. unfold InfPos. cbn. auto. }
  assert (P0 : ItPos it0 /\ SZShape d it0).
  { unfold it0, entry_iterate, ItPos, SZShape. cbn. rewrite !LinAlg.vconst_length.
    repeat split; try reflexivity; apply vpos_vconst1. }
  apply bind_ok in H as (st1 & Hst1 & H).
  assert (A1 : kkt_pd (st_kkt st1) /\ kkt_shape d (st_kkt st1) /\ KShape d (st_kkt st1) /\ KSign d (st_kkt st1) /\
               st_it st1 = it0 /\ st_inf st1 = inf0 /\ st_refine st1 = sv_refine sv).
  { destruct (sv_kkt_init_state sv) eqn:Eis.
    - injection Hst1 as <-. destruct (Hinit eq_refl) as (B1 & B2 & B3). unfold st0, it1. cbn. auto 10.
    - pose proof Hst1 as Hst1'.
      apply do_update_scalings_ok in Hst1'; [|unfold st0, it1; cbn; apply P0..].
      destruct Hst1' as (B1 & B2 & B3 & B4 & B5).
      unfold do_update_scalings in Hst1. apply bind_ok in Hst1 as (k1 & Hk1 & Hst1). injection Hst1 as <-.
      unfold st0, it1 in Hk1. cbn [st_kkt st_inf st_it set] in Hk1. cbn in Hk1.
      destruct I0 as [(J1 & J2 & J3) J4].
      destruct (kkt_update_scalings_pd _ _ _ _ _ _ _ _ _ _ _ Hd HP Hsh J1 J2 (entry_iter_pos d (sv_out sv)) Hk1) as [C1 C2].
      unfold st0, it1 in *. cbn in *. auto 10. }
  destruct A1 as (A1 & A2 & A3 & A4 & A5 & A6 & A7).
  apply bind_ok in H as ([st2 ok] & Hst2 & H). cbv beta iota in H.
  destruct (init_fuel S) as [|fuel0] eqn:Efuel; [discriminate|].
  destruct (init_factor_convex_explicit K S d fuel0 st1 A1) as [f Hf].
  rewrite Hf in Hst2. injection Hst2 as <- <-.
  zeta1 H. cbn [negb] in H. cbv iota in H.
  match type of Hf with _ = Ok (?sx, true) => set (st2 := sx) in * end.
  apply bind_ok in H as (st3 & Hst3 & H). apply bind_ok in H as (st4 & Hst4 & H).
  match type of Hst3 with initial_point _ _ _ _ ?sx = _ => set (stI := sx) in * end.
  destruct (init_factor_ok K S d (fun _ => false) Hretry Hreglim Hepsabs _ st1 st2 true Hf) as (B1 & B2 & B3 & B4 & B5);
    try assumption; try (rewrite A5; apply P0); try (rewrite A6; apply I0).
  assert (C1 : st_kkt stI = st_kkt st2 /\ st_refine stI = st_refine st1 /\ InfPos (st_inf stI) /\ i_iter (st_inf stI) = 0%Z).
  { unfold stI. destruct B3 as (D1 & D2 & D3). rewrite A6 in B5. destruct I0 as [_ J4]. rewrite J4 in B5.
    unfold st2 in *. destruct st1 as [? inf1 ? ? ? ?]. cbn in *. destruct inf1. cbn in *. unfold InfPos. cbn. repeat split; assumption. }
  destruct C1 as (C1 & C2 & C3 & C4).
  assert (HI3 : Interior d st3).
  { apply (initial_point_ok_interior K S d (round_cp cp_bits) (round_cp_sign cp_bits) Hksh Hhalf Hsinit Hsnorm HD stI st3);
      try assumption; rewrite C1; assumption. }
  destruct (initial_point_keeps K S d (round_cp cp_bits) stI st3 Hst3) as [E1 E2].
  assert (Hsh3 : kkt_shape d (st_kkt st3)).
  { rewrite E1, C1. unfold st2. destruct st1 as [? ? kk ? ? ?]. cbn in A2 |- *.
    destruct (set_k_fact_proj kk (Some f)) as (_ & _ & _ & _ & F5 & F6 & _ & F8 & F9 & F10 & _).
    unfold kkt_shape. rewrite F5, F6, F8, F9, F10. exact A2. }
  destruct (main_loop_convex K S d pc (round_cp cp_bits) (cp_sign_pos _ (round_cp_sign cp_bits))
              Htau0 Htau1 Hfine Hepsabs Hkeps Hretry Hreglim HD Hd HP _ st3 st4 (conj HI3 Hsh3) Hst4) as [G1 G2].
  unfold fin in H. apply bind_ok in H as (out & _ & H). injection H as <- <-.
  split; [exact G1|]. rewrite <- A7, <- C2, <- E2, <- G2. destruct sv. reflexivity.
Qed.

(* what setup leaves in the solver object *)
Lemma setup_fields K ident spc junk S n p m B sv :
  setup K ident spc junk S n p m B = Ok sv ->
  sv_set sv = S /\ sv_kkt_init_state sv = true /\ sv_refine sv = iterative_refinement_always_enabled S /\
  kkt_init (sv_data sv) (rho_init S) (delta_init S) junk = Ok (sv_kkt sv).
Proof.
  intros H. unfold setup in H. destruct (b_P B); [|discriminate]. destruct (b_c B); [|discriminate]. cbv zeta in H.
  repeat match type of H with context [let '(a, b) := ?e in _] => destruct e end.
  apply bind_ok in H as ([pc d] & _ & H). apply bind_ok in H as (k & Hk & H). injection H as <-. cbn. auto.
Qed.

(* solve right after setup: convexity and shapes are hypotheses on the (preconditioned) data stored in the object *)
Theorem solve_after_setup_never_numerics K ident spc junk cp_bits S n p m B sv sv' status :
  consts_ok K -> settings_ok S ->
  setup K ident spc junk S n p m B = Ok sv ->
  wf_data (sv_data sv) -> DataShape (sv_data sv) -> P_psd (sv_data sv) ->
  solve K junk cp_bits (fun _ => false) sv = Ok (sv', status) ->
  status <> NUMERICS /\ sv_refine sv' = iterative_refinement_always_enabled S.
Proof.
  intros HK HS Hset Hd HD HP Hsol. destruct (setup_fields _ _ _ _ _ _ _ _ _ _ Hset) as (E1 & E2 & E3 & E4).
  rewrite <- E3. apply (solve_convex_never_numerics K junk cp_bits sv sv' status HK); [rewrite E1; exact HS | | exact Hsol].
  destruct HS as (Hrho & Hdelta & _). apply (setup_state_convex junk); try assumption; rewrite E1; assumption.
Qed.

(* psd is preserved by the Ruiz change of variables  P' = c * D P D  (upper triangle, as PrecondProofs.is_transform states it) *)
Lemma P_psd_scaled (d0 d : Data) (c : F) (dl : Vec) :
  d_n d = d_n d0 -> 0 <= c ->
  (forall i j, (i <= j)%nat -> (j < d_n d0)%nat ->
     mentry (d_P d) i j = c * nth i dl 0 * nth j dl 0 * mentry (d_P d0) i j) ->
  P_psd d0 -> P_psd d.
Proof.
  intros Hn Hc HPu H0 x. unfold P_psd in *. rewrite Hn.
  assert (E : forall i j, (i < d_n d0)%nat -> (j < d_n d0)%nat ->
            fPsym d i j = c * nth i dl 0 * nth j dl 0 * fPsym d0 i j).
  { intros i j Hi Hj. unfold fPsym. destruct (Nat.leb_spec j i).
    - rewrite HPu by lia. ring.
    - rewrite HPu by lia. ring. }
  unfold quad_form.
  rewrite (sum_ext (d_n d0) _ (fun i => c * sum (d_n d0) (fun j => fPsym d0 i j * (nth i dl 0 * x i) * (nth j dl 0 * x j)))).
  2:{ intros i Hi. rewrite <- sum_scale_l. apply sum_ext. intros j Hj. rewrite (E i j Hi Hj). ring. }
  rewrite sum_scale_l. apply Qc_mul_nonneg; [assumption|]. exact (H0 (fun i => nth i dl 0 * x i)).
Qed.

(* ================================================================ Part E : no division by zero *)
Lemma bind_err {A B} (e : res A) (f : A -> res B) x :
  bind e f = Err x -> e = Err x \/ exists a, e = Ok a /\ f a = Err x.
Proof. destruct e as [a|e0]; cbn; [right; eauto | intros [= ->]; left; reflexivity]. Qed.

(* errors of pure index manipulation *)
Definition idx_err (e : err) : Prop := e = Index \/ e = Shape.
Lemma idx_err_not_dz e : idx_err e -> e <> DivZero.
Proof. intros [-> | ->]; discriminate. Qed.

Lemma get_err_kind {A} (v : list A) i e : get v i = Err e -> idx_err e.
Proof. unfold get. destruct (nth_error v i); [discriminate|]. intros [= <-]. left. reflexivity. Qed.

Lemma upd_err_kind {A} (v : list A) i x e : upd v i x = Err e -> idx_err e.
Proof.
  revert i. induction v as [|a v IH]; intros i H; [cbn in H; destruct i; injection H as <-; left; reflexivity|].
  destruct i; [discriminate|]. cbn [upd] in H. apply bind_err in H as [H | (r & _ & H)]; [eauto | discriminate].
Qed.

Lemma gather_err_kind {A} (v : list A) idx e : gather v idx = Err e -> idx_err e.
Proof.
  intros H. apply mapM_no_err_shape in H as (a & _ & H). eapply get_err_kind; eauto.
Qed.

Lemma scatter_with_err_kind {A B} (f : A -> B -> A) idx : forall (v : list A) (w : list B) e,
  scatter_with f v idx w = Err e -> idx_err e.
Proof.
  induction idx as [|j idx IH]; intros v w e H; [cbn in H; discriminate|].
  destruct w as [|x w]; [cbn in H; injection H as <-; right; reflexivity|]. cbn [scatter_with] in H.
  apply bind_err in H as [H | (a & _ & H)]; [eapply get_err_kind; eauto|].
  apply bind_err in H as [H | (v' & _ & H)]; [eapply upd_err_kind; eauto|]. eauto.
Qed.

Lemma swap_err_kind {A} (v : list A) i j e : swap v i j = Err e -> idx_err e.
Proof.
  unfold swap. intros H.
  apply bind_err in H as [H | (a & _ & H)]; [eapply get_err_kind; eauto|].
  apply bind_err in H as [H | (b & _ & H)]; [eapply get_err_kind; eauto|].
  apply bind_err in H as [H | (v1 & _ & H)]; [eapply upd_err_kind; eauto|]. eapply upd_err_kind; eauto.
Qed.

Lemma swap_loop_err_kind {A} ridx : forall (v : list A) i e, swap_loop v i ridx = Err e -> idx_err e.
Proof.
  induction ridx as [|j t IH]; intros v i e H; [destruct i; cbn in H; discriminate|].
  destruct i; [cbn in H; injection H as <-; right; reflexivity|]. cbn [swap_loop] in H.
  apply bind_err in H as [H | (v' & _ & H)]; [eapply swap_err_kind; eauto | eauto].
Qed.

Lemma restore_one_err_kind {A} (dflt : A) n v idx e : restore_one dflt n v idx = Err e -> idx_err e.
Proof.
  unfold restore_one. destruct (_ && _)%bool; [apply swap_loop_err_kind | intros [= <-]; right; reflexivity].
Qed.

Lemma unscale_and_restore_err_kind junk sv it e : unscale_and_restore junk sv it = Err e -> idx_err e.
Proof.
  unfold unscale_and_restore. cbv zeta. intros H.
  repeat (apply bind_err in H as [H | (? & _ & H)]; [eapply restore_one_err_kind; eauto|]). discriminate.
Qed.

Lemma update_nr_residuals_err_kind d pc K it inf e : update_nr_residuals d pc K it inf = Err e -> idx_err e.
Proof.
  unfold update_nr_residuals. cbv zeta. intros H.
  apply bind_err in H as [H | (? & _ & H)]; [eapply scatter_with_err_kind; eauto|].
  apply bind_err in H as [H | (? & _ & H)]; [eapply scatter_with_err_kind; eauto|].
  apply bind_err in H as [H | (? & _ & H)]; [eapply gather_err_kind; eauto|].
  apply bind_err in H as [H | (? & _ & H)]; [eapply gather_err_kind; eauto|]. discriminate.
Qed.

Lemma vinv_err_zero v e : vinv v = Err e -> exists x, In x v /\ x = 0.
Proof.
  intros H. apply mapM_no_err_shape in H as (a & Ha & H). exists a. split; [assumption|].
  unfold qinv in H. eapply qdiv_err; eauto.
Qed.

Lemma In_combine3 (a b c : Vec) t : In t (combine (combine a b) c) ->
  exists k, (k < length a)%nat /\ (k < length b)%nat /\ (k < length c)%nat /\ t = ((nth k a 0, nth k b 0), nth k c 0).
Proof.
  intros H. apply (In_nth _ _ ((0, 0), 0)) in H as (k & Hk & <-).
  rewrite !combine_length in Hk. exists k. repeat split; try nlia.
  rewrite nth_combine by (rewrite ?combine_length; nlia). rewrite nth_combine by nlia. reflexivity.
Qed.

Lemma box_diag_err_kind delta diag idx sc zinv s n e :
  length sc = n -> (forall k, (k < n)%nat -> nth k zinv 0 * nth k s 0 + delta <> 0) ->
  box_diag delta diag idx sc zinv s = Err e -> idx_err e.
Proof.
  intros Lsc Hnz H. unfold box_diag in H.
  apply bind_err in H as [H | (terms & _ & H)]; [|eapply scatter_with_err_kind; eauto].
  exfalso. apply mapM_no_err_shape in H as (t & Ht & H).
  apply In_combine3 in Ht as (k & K1 & K2 & K3 & ->). cbn [fst snd] in H.
  apply qdiv_err in H. apply (Hnz k); [nlia | exact H].
Qed.

(* update_kkt on positive scalings can only fail with an index error *)
Lemma update_kkt_err_kind d k0 e : wf_data d -> wf_scal d k0 -> pos_scal d k0 ->
  update_kkt d k0 = Err e -> idx_err e.
Proof.
  intros Hd (Ls & Lzinv & Lslb & Lzli & Lsub & Lzui) (Pd & Pz & Pl & Pu) H.
  destruct Hd as (_ & _ & _ & _ & _ & _ & Hlbs & Hubs & _).
  unfold update_kkt in H. cbv zeta in H.
  apply bind_err in H as [H | (w & _ & H)].
  { exfalso. destruct (Nat.ltb 0 (d_m d)); [|discriminate].
    apply vinv_err_zero in H as (x & Hx & Hx0).
    revert Hx0. apply (pos_den_list (k_delta k0) (k_z_inv k0) (k_s k0)); try assumption; [nlia|].
    intros l Hl. destruct (Pz l ltac:(nlia)). split; assumption. }
  apply bind_err in H as [H | (dinv & _ & H)].
  { exfalso. destruct (Nat.ltb 0 (d_p d)); [|discriminate]. unfold qinv in H. apply qdiv_err in H.
    exact (Qclt_neq0 _ Pd H). }
  apply bind_err in H as [H | (bd0 & _ & H)].
  { apply (box_diag_err_kind _ _ _ _ _ _ (d_nlb d)) in H; [assumption | apply head_length; assumption |].
    intros k Hk. destruct (Pl k Hk). apply Qclt_neq0. apply Qc_add_pos; [apply Qc_mul_pos|]; assumption. }
  apply bind_err in H as [H | (bd & _ & H)]; [|discriminate].
  apply (box_diag_err_kind _ _ _ _ _ _ (d_nub d)) in H; [assumption | apply head_length; assumption |].
  intros k Hk. destruct (Pu k Hk). apply Qclt_neq0. apply Qc_add_pos; [apply Qc_mul_pos|]; assumption.
Qed.

(* the state handed to update_kkt by kkt_update_scalings, for an interior iterate *)
Lemma kkt_update_scalings_k0 d kk rho delta s s_lb s_ub z z_lb z_ub :
  kkt_shape d kk -> 0 < rho -> 0 < delta -> iter_pos d s s_lb s_ub z z_lb z_ub ->
  exists k0, kkt_update_scalings d kk rho delta s s_lb s_ub z z_lb z_ub = update_kkt d k0 /\
             wf_scal d k0 /\ pos_scal d k0 /\ 0 < k_rho k0 /\ ((0 < d_p d)%nat -> k_ATA k0 = compute_ATA d).
Proof.
  intros (K1 & K2 & K3 & K4 & K5) Hrho Hdelta (Ls & Lz & Ps & Lslb & Lzlb & Plb & Lsub & Lzub & Pub).
  unfold kkt_update_scalings.
  destruct (vinv_exists z) as [zi Hzi].
  { intros x Hx. apply (In_nth _ _ 0) in Hx as (l & Hl & <-). apply Qclt_neq0. apply Ps. nlia. }
  destruct (vinv_exists (head (d_nlb d) z_lb)) as [zlbi Hzlbi].
  { intros x Hx. apply (In_nth _ _ 0) in Hx as (l & Hl & <-). rewrite head_length in Hl by assumption.
    rewrite nth_head by assumption. apply Qclt_neq0. apply Plb. assumption. }
  destruct (vinv_exists (head (d_nub d) z_ub)) as [zubi Hzubi].
  { intros x Hx. apply (In_nth _ _ 0) in Hx as (l & Hl & <-). rewrite head_length in Hl by assumption.
    rewrite nth_head by assumption. apply Qclt_neq0. apply Pub. assumption. }
  rewrite Hzi, Hzlbi, Hzubi. cbn [bind].
  apply vinv_ok in Hzi as [Lzi Nzi]. apply vinv_ok in Hzlbi as [Lzlbi Nzlbi]. apply vinv_ok in Hzubi as [Lzubi Nzubi].
  rewrite head_length in Lzlbi, Nzlbi by assumption. rewrite head_length in Lzubi, Nzubi by assumption.
  match goal with |- exists k0, update_kkt d ?kx = _ /\ _ => exists kx; set (k0 := kx) end.
  split; [reflexivity|].
  assert (E1 : k_rho k0 = rho) by (destruct kk; reflexivity).
  assert (E2 : k_delta k0 = delta) by (destruct kk; reflexivity).
  assert (E3 : k_s k0 = s) by (destruct kk; reflexivity).
  assert (E4 : k_s_lb k0 = set_head (head (d_nlb d) s_lb) (k_s_lb kk)) by (destruct kk; reflexivity).
  assert (E5 : k_s_ub k0 = set_head (head (d_nub d) s_ub) (k_s_ub kk)) by (destruct kk; reflexivity).
  assert (E6 : k_z_inv k0 = zi) by (destruct kk; reflexivity).
  assert (E7 : k_z_lb_inv k0 = set_head zlbi (k_z_lb_inv kk)) by (destruct kk; reflexivity).
  assert (E8 : k_z_ub_inv k0 = set_head zubi (k_z_ub_inv kk)) by (destruct kk; reflexivity).
  assert (E9 : k_ATA k0 = k_ATA kk) by (destruct kk; reflexivity).
  split.
  { unfold wf_scal. rewrite E3, E4, E5, E6, E7, E8.
    rewrite !PDProofs.set_head_length by (rewrite ?head_length by assumption; nlia). repeat split; nlia. }
  split.
  { unfold pos_scal. rewrite E2, E3, E4, E5, E6, E7, E8. split; [assumption|]. split; [|split].
    - intros l Hl. split; [apply Ps; assumption|].
      destruct (Nzi l ltac:(nlia)) as [_ ->]. apply Qc_inv_pos. apply Ps. assumption.
    - intros i Hi. rewrite !nth_set_head by (rewrite ?head_length by assumption; nlia).
      rewrite nth_head by assumption. split; [apply Plb; assumption|].
      destruct (Nzlbi i Hi) as [_ ->]. rewrite nth_head by assumption. apply Qc_inv_pos. apply Plb. assumption.
    - intros i Hi. rewrite !nth_set_head by (rewrite ?head_length by assumption; nlia).
      rewrite nth_head by assumption. split; [apply Pub; assumption|].
      destruct (Nzubi i Hi) as [_ ->]. rewrite nth_head by assumption. apply Qc_inv_pos. apply Pub. assumption. }
  split; [rewrite E1; assumption|]. intros Hp. rewrite E9. auto.
Qed.

Lemma kkt_update_scalings_err_kind d kk rho delta s s_lb s_ub z z_lb z_ub e :
  wf_data d -> kkt_shape d kk -> 0 < rho -> 0 < delta -> iter_pos d s s_lb s_ub z z_lb z_ub ->
  kkt_update_scalings d kk rho delta s s_lb s_ub z z_lb z_ub = Err e -> idx_err e.
Proof.
  intros Hd Hsh Hrho Hdelta Hit H.
  destruct (kkt_update_scalings_k0 d kk rho delta s s_lb s_ub z z_lb z_ub Hsh Hrho Hdelta Hit) as (k0 & E & W & P & _).
  rewrite E in H. eapply update_kkt_err_kind; eauto.
Qed.

(* after a refresh the state has positive scalings again (fields of k = fields of k0) *)
Lemma kkt_update_scalings_pos d kk rho delta s s_lb s_ub z z_lb z_ub k :
  wf_data d -> kkt_shape d kk -> 0 < rho -> 0 < delta -> iter_pos d s s_lb s_ub z z_lb z_ub ->
  kkt_update_scalings d kk rho delta s s_lb s_ub z z_lb z_ub = Ok k ->
  wf_scal d k /\ pos_scal d k.
Proof.
  intros Hd Hsh Hrho Hdelta Hit H.
  destruct (kkt_update_scalings_k0 d kk rho delta s s_lb s_ub z z_lb z_ub Hsh Hrho Hdelta Hit) as (k0 & E & W & P & _ & HATA).
  rewrite E in H. destruct (update_kkt_denotes_Kred d k0 k Hd W HATA H) as (Ek & _).
  destruct (set_k_mat_proj k0 (k_mat k)) as (M1 & M2 & M3 & M4 & M5 & M6 & M7 & M8 & M9 & M10 & M11).
  rewrite <- Ek in M3, M4, M5, M6, M7, M8, M9.
  unfold wf_scal, pos_scal. rewrite M3, M4, M5, M6, M7, M8, M9. split; assumption.
Qed.

(* all pivots stored in the factorisation held by the state are non-zero *)
Definition fact_pos (k : KKT) : Prop := forall f, k_fact k = Some f -> forall x, In x (f_D f) -> x <> 0.

Lemma llt_compute_pivots_nz rows f : wf_lower rows -> llt_compute rows = Ok (Some f) ->
  forall x, In x (f_D f) -> x <> 0.
Proof.
  intros Hwf Hc x Hx. destruct (llt_compute_factorisation rows f Hwf Hc) as (_ & LD & _ & Hpos & _).
  apply (In_nth _ _ 0) in Hx as (i & Hi & <-). apply Qclt_neq0. apply (Hpos i). nlia.
Qed.

Theorem regularize_and_factorize_pd_pos (S : Settings) d k refine :
  kkt_pd k -> exists f, regularize_and_factorize S d k refine false = Ok (k <| k_fact := Some f |>, true) /\
                        forall x, In x (f_D f) -> x <> 0.
Proof.
  intros [Hwf Hpd]. unfold regularize_and_factorize. cbv zeta.
  match goal with |- context [llt_compute ?rows] =>
    match rows with map _ (combine (seq 0 (length (k_mat k))) (k_mat k)) =>
      match rows with context [snd _ + ?r] => change rows with (reg_rows r (k_mat k)); set (rho_reg := r) end end end.
  assert (Hr : 0 <= rho_reg).
  { unfold rho_reg. destruct refine; [apply KKTProofs.qmax_ge_l | apply Qcle_refl]. }
  destruct (pd_implies_llt_success (reg_rows rho_reg (k_mat k)) (reg_rows_wf _ _ Hwf) (reg_rows_pd _ _ Hwf Hr Hpd)) as [f Hf].
  exists f. rewrite Hf. split; [reflexivity|]. exact (llt_compute_pivots_nz _ f (reg_rows_wf _ _ Hwf) Hf).
Qed.

Lemma do_factorize_pd_pos S d st : kkt_pd (st_kkt st) ->
  exists f, do_factorize S d (fun _ => false) st
            = Ok (st <| st_kkt := (st_kkt st) <| k_fact := Some f |> |> <| st_calls := Datatypes.S (st_calls st) |>, true) /\
            forall x, In x (f_D f) -> x <> 0.
Proof.
  intros H. unfold do_factorize. destruct (regularize_and_factorize_pd_pos S d (st_kkt st) (st_refine st) H) as (f & Hf & Hp).
  exists f. rewrite Hf. split; [reflexivity | exact Hp].
Qed.

Lemma llt_solve_total f b : (forall x, In x (f_D f) -> x <> 0) -> exists x, llt_solve f b = Ok x.
Proof.
  intros H. unfold llt_solve. destruct (vdiv_exists (fwd (f_L f) b []) (f_D f) H) as [y Hy]. rewrite Hy. eexists. reflexivity.
Qed.

Lemma solve_ldlt_total k b : (exists f, k_fact k = Some f) -> fact_pos k -> exists x, solve_ldlt k b = Ok x.
Proof.
  intros [f Hf] Hp. unfold solve_ldlt. rewrite Hf. apply llt_solve_total. exact (Hp f Hf).
Qed.

Lemma refine_loop_total S fuel : forall k rhs rn sol ec en,
  (exists f, k_fact k = Some f) -> fact_pos k -> exists r, refine_loop S fuel k rhs rn sol ec en = Ok r.
Proof.
  induction fuel as [|fuel IH]; intros k rhs rn sol ec en Hf Hp; [eexists; reflexivity|].
  cbn [refine_loop]. destruct (qleb en _); [eexists; reflexivity|].
  destruct (solve_ldlt_total k ec Hf Hp) as [corr ->]. cbn [bind].
  destruct (qeqb _ 0) eqn:Ez; [apply IH; assumption|].
  apply LinAlg.qeqb_neq in Ez. rewrite (LinAlg.qdiv_nz _ _ Ez). cbn [bind].
  destruct (qltb _ _); [destruct (qltb _ _); eexists; reflexivity | apply IH; assumption].
Qed.

(* kkt_solve (either refinement flag) on positive scalings with a factorisation in place can only fail with an index error *)
Lemma kkt_solve_err_kind S d k refine rx ry rz rzlb rzub rs rslb rsub e :
  wf_data d -> wf_scal d k -> pos_scal d k -> (exists f, k_fact k = Some f) -> fact_pos k ->
  kkt_solve S d k refine rx ry rz rzlb rzub rs rslb rsub = Err e -> idx_err e.
Proof.
  intros Hd (Ls & Lzinv & Lslb & Lzli & Lsub & Lzui) (Pd & Pz & Pl & Pu) Hf Hp H.
  unfold kkt_solve in H. cbv zeta in H.
  apply bind_err in H as [H | (dinv & _ & H)].
  { exfalso. unfold qinv in H. apply qdiv_err in H. exact (Qclt_neq0 _ Pd H). }
  apply bind_err in H as [H | (w & _ & H)].
  { exfalso. apply vinv_err_zero in H as (x & Hx & Hx0). revert Hx0.
    apply (pos_den_list (k_delta k) (k_s k) (k_z_inv k)); try assumption; [nlia|].
    intros l Hl. apply Pz. nlia. }
  apply bind_err in H as [H | (wlb & _ & H)].
  { exfalso. apply vinv_err_zero in H as (x & Hx & Hx0). revert Hx0.
    apply (pos_den_list (k_delta k) (head (d_nlb d) (k_s_lb k)) (head (d_nlb d) (k_z_lb_inv k))); try assumption;
      [rewrite !head_length by assumption; reflexivity|].
    intros l Hl. rewrite head_length in Hl by assumption. rewrite !nth_head by assumption. apply Pl. assumption. }
  apply bind_err in H as [H | (wub & _ & H)].
  { exfalso. apply vinv_err_zero in H as (x & Hx & Hx0). revert Hx0.
    apply (pos_den_list (k_delta k) (head (d_nub d) (k_s_ub k)) (head (d_nub d) (k_z_ub_inv k))); try assumption;
      [rewrite !head_length by assumption; reflexivity|].
    intros l Hl. rewrite head_length in Hl by assumption. rewrite !nth_head by assumption. apply Pu. assumption. }
  apply bind_err in H as [H | (r2 & _ & H)]; [eapply scatter_with_err_kind; eauto|].
  apply bind_err in H as [H | (rhs & _ & H)]; [eapply scatter_with_err_kind; eauto|].
  apply bind_err in H as [H | (sol0 & _ & H)].
  { exfalso. destruct (solve_ldlt_total k rhs Hf Hp) as [x Hx]. rewrite Hx in H. discriminate. }
  apply bind_err in H as [H | (sol & _ & H)].
  { exfalso. destruct (refine && _)%bool; [|discriminate]. cbv zeta in H.
    match type of H with refine_loop S ?fu k ?a ?b ?c ?dd ?ee = _ =>
      destruct (refine_loop_total S fu k a b c dd ee Hf Hp) as [r Hr]; rewrite Hr in H end. discriminate. }
  apply bind_err in H as [H | (xlb & _ & H)]; [eapply gather_err_kind; eauto|].
  apply bind_err in H as [H | (xub & _ & H)]; [eapply gather_err_kind; eauto|]. discriminate.
Qed.

Tactic Notation "bind_e" hyp(H) "as" ident(a) ident(Ha) := apply bind_err in H as [H | (a & Ha & H)].

Lemma bind_ok_red {A B} (a : A) (f : A -> res B) : bind (Ok a) f = f a.
Proof. reflexivity. Qed.

Lemma mu_of_total d it : (0 < nineq d)%nat -> exists mu, mu_of d it = Ok mu.
Proof.
  intros HN. unfold mu_of. eexists. apply LinAlg.qdiv_nz. apply Qclt_neq0. apply qofnat_pos. exact HN.
Qed.

Lemma wf_pos_set_fact d k f : wf_scal d k -> pos_scal d k ->
  wf_scal d (k <| k_fact := Some f |>) /\ pos_scal d (k <| k_fact := Some f |>).
Proof.
  intros W P. destruct (set_k_fact_proj k (Some f)) as (F1 & F2 & F3 & F4 & F5 & F6 & F7 & F8 & F9 & F10 & F11).
  unfold wf_scal, pos_scal. rewrite F3, F4, F5, F6, F7, F8, F9. split; assumption.
Qed.

Lemma boundary_shift_lengths K it :
  length (z (boundary_shift K it)) = length (z it) /\ length (z_lb (boundary_shift K it)) = length (z_lb it) /\
  length (z_ub (boundary_shift K it)) = length (z_ub it).
Proof.
  unfold boundary_shift. destruct it. cbn.
  destruct (lt_eps K z), (lt_eps K z_lb), (lt_eps K z_ub); rewrite ?map_length; repeat split; reflexivity.
Qed.

Section PassE.
  Variable K : Consts.
  Variable S : Settings.
  Variable d : Data.
  Variable pc : Precond.
  Variable cp : F -> F.
  Local Notation nofault := (fun _ : nat => false).

  Hypothesis Hkeps : 0 < k_eps K.
  Hypothesis HD : DataShape d.
  Hypothesis Hwf : wf_data d.
  Hypothesis Hpsd : P_psd d.

  (* a pass from an interior state of a convex problem can only fail with an index / shape error *)
  Theorem loop_pass_err_kind st e :
    ConvexInv d st -> loop_pass K S d pc nofault cp st = Err e -> idx_err e.
  Proof.
    intros [[[HPit (Hrho & Hdelta & Hreg)] [HSh [Hmu _]]] Hsh] H.
    cbv delta [loop_pass] in H. cbv beta in H. zeta1 H.
    bind_e H as p0 Ha.
    { unfold inf0 in H. destruct (i_iter (st_inf st) =? 0)%Z; [eapply update_nr_residuals_err_kind; eauto | discriminate]. }
    destruct p0 as [res0 inf0a]. cbv beta iota in H.
    assert (Hreg0 : i_rho inf0a = i_rho (st_inf st) /\ i_delta inf0a = i_delta (st_inf st) /\ i_mu inf0a = i_mu (st_inf st)).
    { unfold inf0 in Ha. destruct (i_iter (st_inf st) =? 0)%Z.
      - apply unr_keeps in Ha. destruct Ha as (A & B & _ & C). auto.
      - injection Ha as _ <-. auto. }
    repeat zeta1 H.
    match type of H with (if ?c then _ else _) = _ => destruct c end; [discriminate|].
    repeat zeta1 H.
    match type of H with (if ?c then _ else _) = _ => destruct c end; [discriminate|].
    match type of H with (if ?c then _ else _) = _ => destruct c end; [discriminate|].
    repeat zeta1 H.
    assert (Eit : it = st_it st) by (unfold it, st1; destruct st; reflexivity).
    assert (Eit3 : it3 = boundary_shift K (st_it st)) by (unfold it3; rewrite Eit; reflexivity).
    destruct (boundary_shift_keeps_positive K (st_it st) Hkeps HPit) as (HP3 & _ & _ & _ & S1 & S2 & S3).
    rewrite <- Eit3 in HP3, S1, S2, S3.
    assert (Lz3 : length (z it3) = length (z (st_it st)) /\ length (z_lb it3) = length (z_lb (st_it st)) /\
                  length (z_ub it3) = length (z_ub (st_it st))).
    { rewrite Eit3. apply boundary_shift_lengths. }
    destruct HSh as (I1 & I2 & I3 & I4 & I5 & I6 & I7 & I8 & I9). destruct Lz3 as (Lz3a & Lz3b & Lz3c).
    assert (SZ3 : SZShape d it3).
    { unfold SZShape. rewrite S1, S2, S3, Lz3a, Lz3b, Lz3c. auto 10. }
    (* boundary control: mu_of is only called when some multiplier block is non-empty *)
    bind_e H as inf3 Hinf3.
    { match type of H with (if ?c then _ else _) = _ => destruct c eqn:Esh end; [|discriminate].
      bind_e H as mu0 Hmu0; [|discriminate]. exfalso.
      assert (HN : (0 < nineq d)%nat).
      { unfold nineq. unfold sh_z, sh_lb, sh_ub, lt_eps in Esh. rewrite Eit in Esh.
        destruct (z (st_it st)) eqn:E1; [destruct (z_lb (st_it st)) eqn:E2; [destruct (z_ub (st_it st)) eqn:E3|]|];
          cbn in I2, I5, I8; try lia; try discriminate. }
      destruct (mu_of_total d it3 HN) as [mu Hmu']. rewrite Hmu' in H. discriminate. }
    repeat zeta1 H.
    assert (R1 : i_rho inf1 = i_rho (st_inf st) /\ i_delta inf1 = i_delta (st_inf st) /\ i_mu inf1 = i_mu (st_inf st)).
    { unfold inf1. destruct Hreg0 as (<- & <- & <-). destruct inf0a. auto. }
    assert (R3 : i_rho inf3 = i_rho inf1 /\ i_delta inf3 = i_delta inf1 /\ ((0 < nineq d)%nat -> 0 < i_mu inf3)).
    { match type of Hinf3 with (if ?c then _ else _) = _ => destruct c end.
      - apply bind_ok in Hinf3 as (mu & Hmu' & Hinf3). injection Hinf3 as <-. unfold inf2.
        split; [destruct inf1; reflexivity|]. split; [destruct inf1; reflexivity|].
        intros HN. replace (i_mu _) with mu by (destruct inf1; reflexivity).
        apply (mu_of_pos6 d it3 mu Hmu' HP3 SZ3 HN).
      - injection Hinf3 as <-. unfold inf2. split; [destruct inf1; reflexivity|]. split; [destruct inf1; reflexivity|].
        intros HN. replace (i_mu _) with (i_mu inf1) by (destruct inf1; reflexivity).
        destruct R1 as (_ & _ & ->). apply Hmu. exact HN. }
    assert (R4 : i_rho inf4 = i_rho inf3 /\ i_delta inf4 = i_delta inf3 /\ i_mu inf4 = i_mu inf3).
    { unfold inf4. match goal with |- context [if ?c then _ else _] => destruct c end; destruct inf3; auto. }
    match type of H with bind (do_update_scalings d ?sx) _ = _ => set (stX := sx) in * end.
    assert (X1 : st_kkt stX = st_kkt st) by (unfold stX, st1; destruct st; reflexivity).
    assert (X2 : st_inf stX = inf4) by (unfold stX, st1; destruct st; reflexivity).
    assert (X5 : st_it stX = it3) by (unfold stX, st1; destruct st; reflexivity).
    assert (HitX : iter_pos d (s it3) (s_lb it3) (s_ub it3) (z it3) (z_lb it3) (z_ub it3)).
    { destruct HP3 as (Q1 & Q2 & Q3 & Q4 & Q5 & Q6). destruct SZ3 as (T1 & T2 & T3 & T4 & T5 & T6).
      unfold iter_pos. repeat split; try nlia; apply vpos_nth; try assumption; nlia. }
    assert (HrhoX : 0 < i_rho inf4).
    { destruct R4 as (-> & _). destruct R3 as (-> & _). destruct R1 as (-> & _). assumption. }
    assert (HdeltaX : 0 < i_delta inf4).
    { destruct R4 as (_ & -> & _). destruct R3 as (_ & -> & _). destruct R1 as (_ & -> & _). assumption. }
    bind_e H as st4 Hst4.
    { unfold do_update_scalings in H. bind_e H as k4 Hk4; [|discriminate]. rewrite X1, X2, X5 in H.
      exact (kkt_update_scalings_err_kind _ _ _ _ _ _ _ _ _ _ e Hwf Hsh HrhoX HdeltaX HitX H). }
    assert (F4 : kkt_pd (st_kkt st4) /\ wf_scal d (st_kkt st4) /\ pos_scal d (st_kkt st4) /\
                 st_inf st4 = inf4 /\ st_it st4 = it3).
    { unfold do_update_scalings in Hst4. apply bind_ok in Hst4 as (k4 & Hk4 & Hst4). injection Hst4 as <-.
      rewrite X1, X2, X5 in Hk4.
      destruct (kkt_update_scalings_pd _ _ _ _ _ _ _ _ _ _ _ Hwf Hpsd Hsh HrhoX HdeltaX HitX Hk4) as [G1 _].
      destruct (kkt_update_scalings_pos _ _ _ _ _ _ _ _ _ _ _ Hwf Hsh HrhoX HdeltaX HitX Hk4) as [G2 G3].
      replace (st_kkt (stX <| st_kkt := k4 |>)) with k4 by (destruct stX; reflexivity).
      replace (st_inf (stX <| st_kkt := k4 |>)) with (st_inf stX) by (destruct stX; reflexivity).
      replace (st_it (stX <| st_kkt := k4 |>)) with (st_it stX) by (destruct stX; reflexivity). auto. }
    destruct F4 as (G1 & G2 & G3 & G4 & G5).
    destruct (do_factorize_pd_pos S d st4 G1) as (f & Hf & Hfp).
    rewrite Hf in H. rewrite bind_ok_red in H. cbv beta iota in H. change (negb true) with false in H. cbv iota in H.
    match type of Hf with _ = Ok (?sx, true) => set (st5 := sx) in * end.
    assert (Y1 : st_kkt st5 = (st_kkt st4) <| k_fact := Some f |>) by (unfold st5; destruct st4; reflexivity).
    assert (Y2 : st_inf st5 = inf4) by (unfold st5; rewrite <- G4; destruct st4; reflexivity).
    destruct (wf_pos_set_fact d (st_kkt st4) f G2 G3) as [W5 P5]. rewrite <- Y1 in W5, P5.
    assert (Hf5 : exists f0, k_fact (st_kkt st5) = Some f0).
    { exists f. rewrite Y1. destruct (st_kkt st4). reflexivity. }
    assert (Hp5 : fact_pos (st_kkt st5)).
    { intros f0 Hf0. rewrite Y1 in Hf0. replace (k_fact _) with (Some f) in Hf0 by (destruct (st_kkt st4); reflexivity).
      injection Hf0 as <-. exact Hfp. }
    clearbody st5 stX. clear Hf Hst4.
    repeat zeta1 H.
    assert (Ekk : kk = st_kkt st5) by reflexivity.
    assert (Mu6 : (0 < nineq d)%nat -> 0 < i_mu inf6).
    { intros HN. unfold inf6. rewrite Y2. replace (i_mu _) with (i_mu inf4) by (destruct inf4; reflexivity).
      destruct R4 as (_ & _ & ->). apply R3. exact HN. }
    match type of H with (if ?c then _ else _) = _ => destruct c eqn:EN end.
    - apply Nat.ltb_lt in EN.
      repeat zeta1 H.
      bind_e H as p Hp; [rewrite Ekk in H; eapply kkt_solve_err_kind; eauto|].
      bind_e H as sl1 Hsl1. { exfalso. destruct (step_lengths_spec it3 p HP3) as (u & v & Hs & _). rewrite Hs in H. discriminate. }
      destruct sl1 as [a_s0 a_z0]. cbv beta iota in H. repeat zeta1 H.
      bind_e H as sig1 Hsig1.
      { exfalso. apply qdiv_err in H. pose proof (Mu6 EN) as M1. pose proof (qofnat_pos _ EN) as M2.
        destruct (Qcmult_integral _ _ H) as [Z|Z];
          [rewrite Z in M1; exact (Qclt_not_eq _ _ M1 eq_refl) | rewrite Z in M2; exact (Qclt_not_eq _ _ M2 eq_refl)]. }
      repeat zeta1 H.
      bind_e H as c Hc; [rewrite Ekk in H; eapply kkt_solve_err_kind; eauto|].
      bind_e H as sl2 Hsl2. { exfalso. destruct (step_lengths_spec it3 c HP3) as (u & v & Hs & _). rewrite Hs in H. discriminate. }
      destruct sl2 as [b_s0 b_z0]. cbv beta iota in H. repeat zeta1 H.
      bind_e H as mu Hmu4. { exfalso. destruct (mu_of_total d it4 EN) as [mu Hmu']. rewrite Hmu' in H. discriminate. }
      bind_e H as rate0 Hrate0.
      { exfalso. apply qdiv_err in H. unfold mu_prev in H. pose proof (Mu6 EN) as M. rewrite H in M.
        exact (Qclt_not_eq _ _ M eq_refl). }
      repeat zeta1 H.
      bind_e H as ur Hur; [eapply update_nr_residuals_err_kind; eauto|].
      destruct ur. cbv beta iota in H. repeat zeta1 H. discriminate.
    - repeat zeta1 H.
      bind_e H as c Hc; [rewrite Ekk in H; eapply kkt_solve_err_kind; eauto|].
      repeat zeta1 H.
      bind_e H as ur Hur; [eapply update_nr_residuals_err_kind; eauto|].
      destruct ur. cbv beta iota in H. repeat zeta1 H. discriminate.
  Qed.
End PassE.

Section LoopE.
  Variable K : Consts.
  Variable S : Settings.
  Variable d : Data.
  Variable pc : Precond.
  Variable cp : F -> F.
  Local Notation nofault := (fun _ : nat => false).

  Hypothesis Hcp : cp_pos cp.
  Hypothesis Htau0 : 0 < tau S.
  Hypothesis Htau1 : tau S < 1.
  Hypothesis Hfine : 0 < reg_finetune_lower_limit S.
  Hypothesis Hepsabs : 0 < eps_abs S.
  Hypothesis Hkeps : 0 < k_eps K.
  Hypothesis Hretry : 0 < k_retry_mul K.
  Hypothesis Hreglim : 0 < k_reglim_mul K.
  Hypothesis HD : DataShape d.
  Hypothesis Hwf : wf_data d.
  Hypothesis Hpsd : P_psd d.

  Theorem main_loop_no_divzero fuel : forall st e,
    ConvexInv d st -> main_loop K S d pc nofault cp fuel st = Err e -> e <> DivZero.
  Proof.
    induction fuel as [|f IH]; intros st e HI E; cbn [main_loop] in E; [injection E as <-; discriminate|].
    destruct (i_iter (st_inf st) <? max_iter S)%Z; [|discriminate].
    destruct (loop_pass K S d pc nofault cp st) as [o|e0] eqn:E0; cbn [bind] in E.
    - destruct (loop_pass_convex_inv K S d pc cp Hcp Htau0 Htau1 Hfine Hepsabs Hkeps Hretry Hreglim HD Hwf Hpsd st o HI E0) as [_ B].
      destruct o as [st1|st1]; [exact (IH st1 e B E) | discriminate].
    - injection E as <-. apply idx_err_not_dz. eapply loop_pass_err_kind; eauto.
  Qed.
End LoopE.

Lemma init_factor_convex_explicit_pos K S d fuel st : kkt_pd (st_kkt st) ->
  exists f, init_factor K S d (fun _ => false) (Datatypes.S fuel) st
            = Ok (st <| st_kkt := (st_kkt st) <| k_fact := Some f |> |> <| st_calls := Datatypes.S (st_calls st) |>, true) /\
            forall x, In x (f_D f) -> x <> 0.
Proof.
  intros H. destruct (do_factorize_pd_pos S d st H) as (f & Hf & Hp). exists f. cbn [init_factor]. rewrite Hf.
  split; [reflexivity | exact Hp].
Qed.

Lemma kkt_init_pos d rho delta junk k : wf_data d -> 0 < delta ->
  kkt_init d rho delta junk = Ok k -> wf_scal d k /\ pos_scal d k.
Proof.
  intros Hd Hdelta H. unfold kkt_init in H. cbv zeta in H.
  match type of H with update_kkt d ?kx = _ => set (k0 := kx) in * end.
  assert (Hwf0 : wf_scal d k0).
  { unfold wf_scal, k0. cbn. rewrite !app_length, !LinAlg.vconst_length. repeat split; lia. }
  assert (Hpos0 : pos_scal d k0).
  { unfold pos_scal, k0. cbn. split; [assumption|]. split; [|split].
    - intros l Hl. rewrite (nth_indep (vconst (d_m d) 1) 0 1) by (rewrite LinAlg.vconst_length; assumption).
      rewrite nth_vconst. split; reflexivity.
    - intros i Hi. rewrite app_nth1 by (rewrite LinAlg.vconst_length; assumption).
      rewrite (nth_indep (vconst (d_nlb d) 1) 0 1) by (rewrite LinAlg.vconst_length; assumption).
      rewrite nth_vconst. split; reflexivity.
    - intros i Hi. rewrite app_nth1 by (rewrite LinAlg.vconst_length; assumption).
      rewrite (nth_indep (vconst (d_nub d) 1) 0 1) by (rewrite LinAlg.vconst_length; assumption).
      rewrite nth_vconst. split; reflexivity. }
  assert (HATA0 : (0 < d_p d)%nat -> k_ATA k0 = compute_ATA d).
  { intros Hp. unfold k0. cbn [k_ATA]. destruct (Nat.ltb 0 (d_p d)) eqn:E; [reflexivity | apply Nat.ltb_ge in E; lia]. }
  destruct (update_kkt_denotes_Kred d k0 k Hd Hwf0 HATA0 H) as (Ek & _).
  destruct (set_k_mat_proj k0 (k_mat k)) as (M1 & M2 & M3 & M4 & M5 & M6 & M7 & M8 & M9 & M10 & M11).
  rewrite <- Ek in M3, M4, M5, M6, M7, M8, M9.
  unfold wf_scal, pos_scal. rewrite M3, M4, M5, M6, M7, M8, M9. split; assumption.
Qed.

(* solver object for the no-DivZero theorem: as solver_convex, and a never-refreshed KKT object has positive scalings
   (true after setup: kkt_init puts 1 in every active slot) *)
Definition solver_convex_pos (sv : Solver) : Prop :=
  solver_convex sv /\
  (sv_kkt_init_state sv = true -> wf_scal (sv_data sv) (sv_kkt sv) /\ pos_scal (sv_data sv) (sv_kkt sv)).

Lemma setup_state_convex_pos junk (sv : Solver) :
  wf_data (sv_data sv) -> DataShape (sv_data sv) -> P_psd (sv_data sv) ->
  0 < rho_init (sv_set sv) -> 0 < delta_init (sv_set sv) ->
  kkt_init (sv_data sv) (rho_init (sv_set sv)) (delta_init (sv_set sv)) junk = Ok (sv_kkt sv) ->
  solver_convex_pos sv.
Proof.
  intros Hd HD HP Hrho Hdelta Hk. split; [apply (setup_state_convex junk); assumption|].
  intros _. exact (kkt_init_pos _ _ _ _ _ Hd Hdelta Hk).
Qed.

Lemma initial_point_err K S d cp st e : initial_point K S d cp st = Err e ->
  init_solve S d st = Err e \/ exists stp, init_solve S d st = Ok stp.
Proof.
  intros E. destruct (init_solve S d st) as [stp|e0] eqn:Es; [right; eauto|]. left.
  unfold init_solve in Es. revert E. cbv delta [initial_point]. cbv beta. intros E. cbv zeta in E.
  rewrite Es in E. cbn [bind] in E. injection E as <-. reflexivity.
Qed.

(* solve() never divides by zero on a convex problem (exact arithmetic, never-failing fault oracle):
   every Err result is an index/shape error or fuel exhaustion *)
Theorem solve_no_divzero_convex K junk cp_bits sv e :
  consts_ok K -> settings_ok (sv_set sv) -> solver_convex_pos sv ->
  solve K junk cp_bits (fun _ => false) sv = Err e -> e <> DivZero.
Proof.
  intros (Hksh & Hhalf & Hsinit & Hsnorm & Hkeps & Hretry & Hreglim)
         (Hrho & Hdelta & Hreg & Hfine & Hepsabs & Htau0 & Htau1)
         [(Hd & HD & HP & Hsh & Hinit) Hinitpos] H.
  cbv delta [solve] in H. cbv beta in H. repeat zeta1 H.
  assert (I0 : InfPos inf0 /\ i_iter inf0 = 0%Z).
  { unfold inf0, S. destruct (sv_info sv). cbn. unfold InfPos. cbn. auto. }
  assert (P0 : ItPos it0 /\ SZShape d it0).
  { unfold it0, entry_iterate, ItPos, SZShape. cbn. rewrite !LinAlg.vconst_length.
    repeat split; try reflexivity; apply vpos_vconst1. }
  assert (Est0 : st_kkt (st0 <| st_it := it1 |>) = sv_kkt sv /\ st_inf (st0 <| st_it := it1 |>) = inf0 /\
                 st_it (st0 <| st_it := it1 |>) = it0) by (unfold st0, it1; cbn; auto).
  destruct Est0 as (Z1 & Z2 & Z3). destruct I0 as [(J1 & J2 & J3) J4].
  bind_e H as st1 Hst1.
  { destruct (sv_kkt_init_state sv); [discriminate|].
    unfold do_update_scalings in H. bind_e H as k1 Hk1; [|discriminate]. rewrite Z1, Z2, Z3 in H.
    apply idx_err_not_dz.
    exact (kkt_update_scalings_err_kind _ _ _ _ _ _ _ _ _ _ e Hd Hsh J1 J2 (entry_iter_pos d (sv_out sv)) H). }
  assert (A : kkt_pd (st_kkt st1) /\ kkt_shape d (st_kkt st1) /\ KShape d (st_kkt st1) /\ KSign d (st_kkt st1) /\
              wf_scal d (st_kkt st1) /\ pos_scal d (st_kkt st1) /\ st_it st1 = it0 /\ st_inf st1 = inf0).
  { destruct (sv_kkt_init_state sv) eqn:Eis.
    - injection Hst1 as <-. destruct (Hinit eq_refl) as (B1 & B2 & B3). destruct (Hinitpos eq_refl) as (B4 & B5).
      rewrite Z1, Z2, Z3. auto 10.
    - pose proof Hst1 as Hst1'.
      apply do_update_scalings_ok in Hst1'; [|rewrite Z3; apply P0..].
      destruct Hst1' as (B1 & B2 & B3 & B4 & B5).
      unfold do_update_scalings in Hst1. apply bind_ok in Hst1 as (k1 & Hk1 & Hst1). injection Hst1 as <-.
      rewrite Z1, Z2, Z3 in Hk1.
      destruct (kkt_update_scalings_pd _ _ _ _ _ _ _ _ _ _ _ Hd HP Hsh J1 J2 (entry_iter_pos d (sv_out sv)) Hk1) as [C1 C2].
      destruct (kkt_update_scalings_pos _ _ _ _ _ _ _ _ _ _ _ Hd Hsh J1 J2 (entry_iter_pos d (sv_out sv)) Hk1) as [C3 C4].
      rewrite B3, B4 in *. unfold st0, it1 in *. cbn in *. auto 10. }
  destruct A as (A1 & A2 & A3 & A4 & A5 & A6 & A7 & A8).
  bind_e H as p2 Hst2.
  { destruct (init_fuel S) as [|fuel0]; [cbn in H; injection H as <-; discriminate|].
    destruct (init_factor_convex_explicit_pos K S d fuel0 st1 A1) as (f & Hf & _). rewrite Hf in H. discriminate. }
  destruct p2 as [st2 ok]. cbv beta iota in H.
  destruct (init_fuel S) as [|fuel0] eqn:Efuel; [discriminate|].
  destruct (init_factor_convex_explicit_pos K S d fuel0 st1 A1) as (f & Hf & Hfp).
  pose proof Hst2 as Hst2'. rewrite Hf in Hst2'. injection Hst2' as E2 E3. subst ok.
  zeta1 H. change (negb true) with false in H. cbv iota in H.
  destruct (init_factor_ok K S d (fun _ => false) Hretry Hreglim Hepsabs _ st1 st2 true Hst2) as (B1 & B2 & B3 & B4 & B5);
    try assumption; try (rewrite A7; apply P0); try (rewrite A8; repeat split; assumption).
  match type of H with bind (initial_point _ _ _ _ ?sx) _ = _ => set (stI := sx) in * end.
  assert (C : st_kkt stI = (st_kkt st1) <| k_fact := Some f |> /\ st_refine stI = st_refine st1 /\
              InfPos (st_inf stI) /\ i_iter (st_inf stI) = 0%Z).
  { unfold stI. rewrite <- E2. rewrite A8 in B5. rewrite J4 in B5. rewrite <- E2 in B5, B3.
    destruct st1 as [? inf1 ? ? ? ?]. cbn in *. destruct inf1. cbn in *. unfold InfPos. cbn. repeat split; try assumption; apply B3. }
  destruct C as (C1 & C2 & C3 & C4).
  destruct (wf_pos_set_fact d (st_kkt st1) f A5 A6) as [W5 P5]. rewrite <- C1 in W5, P5.
  assert (Hf5 : exists f0, k_fact (st_kkt stI) = Some f0).
  { exists f. rewrite C1. destruct (st_kkt st1). reflexivity. }
  assert (Hp5 : fact_pos (st_kkt stI)).
  { intros f0 Hf0. rewrite C1 in Hf0. replace (k_fact _) with (Some f) in Hf0 by (destruct (st_kkt st1); reflexivity).
    injection Hf0 as <-. exact Hfp. }
  assert (KS : KShape d (st_kkt stI) /\ KSign d (st_kkt stI)).
  { replace (st_kkt stI) with (st_kkt st2); [split; assumption|]. rewrite C1, <- E2. destruct st1. reflexivity. }
  destruct KS as [KS1 KS2].
  bind_e H as st3 Hst3.
  { pose proof H as Hip. apply initial_point_err in H as [H | [stp Hs]].
    - apply idx_err_not_dz. unfold init_solve in H. eapply kkt_solve_err_kind; eauto.
    - exfalso.
      destruct (initial_point_interior K S d (round_cp cp_bits) (round_cp_sign cp_bits) Hksh Hhalf Hsinit Hsnorm HD
                  stI stp KS1 KS2 C3 C4 Hs) as (st' & E' & _).
      rewrite E' in Hip. discriminate. }
  assert (HI3 : Interior d st3).
  { apply (initial_point_ok_interior K S d (round_cp cp_bits) (round_cp_sign cp_bits) Hksh Hhalf Hsinit Hsnorm HD stI st3);
      assumption. }
  destruct (initial_point_keeps K S d (round_cp cp_bits) stI st3 Hst3) as [E1' E2'].
  assert (Hsh3 : kkt_shape d (st_kkt st3)).
  { rewrite E1', C1.
    destruct (set_k_fact_proj (st_kkt st1) (Some f)) as (_ & _ & _ & _ & F5 & F6 & _ & F8 & F9 & F10 & _).
    unfold kkt_shape. rewrite F5, F6, F8, F9, F10. exact A2. }
  bind_e H as st4 Hst4.
  { exact (main_loop_no_divzero K S d pc (round_cp cp_bits) (cp_sign_pos _ (round_cp_sign cp_bits))
             Htau0 Htau1 Hfine Hepsabs Hkeps Hretry Hreglim HD Hd HP _ st3 e (conj HI3 Hsh3) H). }
  unfold fin in H. bind_e H as out Hout; [|discriminate].
  apply idx_err_not_dz. eapply unscale_and_restore_err_kind; eauto.
Qed.

(* ================================================================ Part D : a concrete run (instance of InteriorExamples.v:
   minimise x^2 + x  s.t.  x <= 1, -3 <= x; real constants of solver.hpp, 16-bit checkpoint rounding) *)
Lemma ex_consts_settings_ok : consts_ok consts /\ settings_ok InteriorExamples.ex_settings.
Proof. unfold consts_ok, settings_ok. repeat split; vm_compute; first [reflexivity | discriminate]. Qed.

Lemma ex_solve_eval :
  match InteriorExamples.ex_sv_res with
  | Ok sv => match solve consts 0 16 (fun _ => false) sv with Ok (_, st) => st | Err _ => NUMERICS end
  | Err _ => NUMERICS
  end = SOLVED.
Proof. vm_compute. reflexivity. Qed.

Lemma ex_data_ok :
  match InteriorExamples.ex_sv_res with
  | Ok sv => wf_data (sv_data sv) /\ DataShape (sv_data sv) /\ P_psd (sv_data sv)
  | Err _ => False
  end.
Proof.
  destruct InteriorExamples.ex_sv_res as [sv|] eqn:E; [|vm_compute in E; discriminate].
  vm_compute in E. injection E as <-. split; [|split].
  - unfold wf_data. cbn [sv_data d_n d_p d_m d_P d_AT d_GT d_nlb d_nub d_lb_idx d_ub_idx d_lb_scaling d_ub_scaling length].
    repeat split; try (repeat constructor); intros; lia.
  - constructor; cbn [sv_data d_n d_p d_m d_GT d_h d_lb_n d_ub d_nlb d_nub d_lb_idx d_ub_idx d_lb_scaling d_ub_scaling length]; lia.
  - unfold P_psd. cbn [sv_data d_n]. apply pos_def_semidef.
    apply (pos_def_ext 1 (Asym [[qofZ 2]])).
    + intros i j Hi Hj. destruct i; destruct j; try lia. apply Qc_is_canon. reflexivity.
    + destruct (llt_compute [[qofZ 2]]) as [[f|]|] eqn:Ef; try (vm_compute in Ef; discriminate).
      apply (llt_success_implies_pd [[qofZ 2]] f); [|exact Ef].
      intros i Hi. destruct i; [reflexivity | cbn in Hi; lia].
Qed.

Example ex_solve_convex :
  match InteriorExamples.ex_sv_res with
  | Ok sv =>
      consts_ok consts /\ settings_ok (sv_set sv) /\ solver_convex sv /\
      exists sv', solve consts 0 16 (fun _ => false) sv = Ok (sv', SOLVED) /\ sv_refine sv' = sv_refine sv
  | Err _ => False
  end.
Proof.
  pose proof ex_solve_eval as Hev. pose proof ex_data_ok as Hdat.
  destruct InteriorExamples.ex_sv_res as [sv|] eqn:E; [|contradiction].
  pose proof E as Eset. unfold InteriorExamples.ex_sv_res in Eset.
  destruct (setup_fields _ _ _ _ _ _ _ _ _ _ Eset) as (E1 & E2 & E3 & E4).
  destruct ex_consts_settings_ok as [HK HS]. destruct Hdat as (Hd & HD & HP).
  assert (Hconv : solver_convex sv).
  { apply (setup_state_convex 0); try assumption; try (rewrite E1; apply HS). rewrite E1; exact E4. }
  split; [exact HK|]. split; [rewrite E1; exact HS|]. split; [exact Hconv|].
  destruct (solve consts 0 16 (fun _ => false) sv) as [[sv' status]|] eqn:Es; [|discriminate].
  subst status. exists sv'. split; [reflexivity|].
  apply (solve_convex_never_numerics consts 0 16 sv sv' SOLVED HK); [rewrite E1; exact HS | exact Hconv | exact Es].
Qed.

Example ex_solver_convex_pos :
  match InteriorExamples.ex_sv_res with Ok sv => solver_convex_pos sv | Err _ => False end.
Proof.
  pose proof ex_data_ok as Hdat.
  destruct InteriorExamples.ex_sv_res as [sv|] eqn:E; [|contradiction].
  pose proof E as Eset. unfold InteriorExamples.ex_sv_res in Eset.
  destruct (setup_fields _ _ _ _ _ _ _ _ _ _ Eset) as (E1 & E2 & E3 & E4).
  destruct ex_consts_settings_ok as [HK HS]. destruct Hdat as (Hd & HD & HP).
  apply (setup_state_convex_pos 0); try assumption; try (rewrite E1; apply HS). rewrite E1; exact E4.
Qed.
