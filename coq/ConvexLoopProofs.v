(* ConvexLoopProofs.v -- C02-T1, whole-loop form, dense model: on a convex problem (P psd) with the never-failing
   fault oracle, PIQP_NUMERICS is unreachable and the iterative-refinement flag is never changed -- by a pass of the
   main loop, by main_loop (any fuel), and by API.solve.  Combines PDProofs.v (factorisation never fails on positive
   definite K_red) with the interior invariant of InteriorProofs.v (s, z, rho, delta stay > 0). *)
From PIQP Require Import Base Data Bounds PrecondDense KKTDense IPM API InteriorProofs.
From PIQP Require Import LinAlg LLTProofs KKTProofs PDProofs.
From PIQP Require InteriorExamples.
From PIQP.gen Require Import Consts.
From Coq Require Import Lia Lqa.
From RecordUpdate Require Import RecordSet.
Import RecordSetNotations.
Local Open Scope Qc_scope.

(* ================================================================ Part A : one pass, strengthened conclusion *)
Section PassC.
  Variable K : Consts.
  Variable S : Settings.
  Variable d : Data.
  Variable pc : Precond.
  Variable cp : F -> F.
  Local Notation nofault := (fun _ : nat => false).

  Theorem loop_pass_convex st o :
    wf_data d -> P_psd d -> 0 <= k_eps K -> kkt_shape d (st_kkt st) ->
    0 < i_rho (st_inf st) -> 0 < i_delta (st_inf st) ->
    iter_pos d (s (st_it st)) (s_lb (st_it st)) (s_ub (st_it st)) (z (st_it st)) (z_lb (st_it st)) (z_ub (st_it st)) ->
    loop_pass K S d pc nofault cp st = Ok o ->
    st_refine (outcome_state o) = st_refine st /\ kkt_shape d (st_kkt (outcome_state o)) /\
    match o with
    | Stop st' => i_status (st_inf st') <> NUMERICS
    | Continue st' => True
    end.
  Proof.
    intros Hd HP Heps Hsh Hrho Hdelta Hit H. cbv delta [loop_pass] in H. cbv beta in H.
    zeta1 H.
    apply bind_ok in H as ([res0 inf0a] & H0 & H). cbv beta iota in H.
    assert (Hreg0 : i_rho inf0a = i_rho (st_inf st) /\ i_delta inf0a = i_delta (st_inf st)).
    { unfold inf0 in H0. destruct (i_iter (st_inf st) =? 0)%Z.
      - eapply update_nr_residuals_reg; eassumption.
      - injection H0 as _ <-. split; reflexivity. }
    repeat zeta1 H.
    assert (Early : forall stat, stat <> NUMERICS ->
              st_refine (st1 <| st_inf := inf1 <| i_status := stat |> |>) = st_refine st /\
              kkt_shape d (st_kkt (st1 <| st_inf := inf1 <| i_status := stat |> |>)) /\
              i_status (st_inf (st1 <| st_inf := inf1 <| i_status := stat |> |>)) <> NUMERICS).
    { intros stat Hstat. unfold st1. destruct st, inf1. cbn. auto. }
    match type of H with (if ?c then _ else _) = _ => destruct c end.
    { injection H as <-. apply Early. discriminate. }
    repeat zeta1 H.
    match type of H with (if ?c then _ else _) = _ => destruct c end.
    { injection H as <-. apply Early. discriminate. }
    match type of H with (if ?c then _ else _) = _ => destruct c end.
    { injection H as <-. apply Early. discriminate. }
    clear Early.
    repeat zeta1 H.
    apply bind_ok in H as (inf3 & Hinf3 & H).
    repeat zeta1 H.
    apply bind_ok in H as (st4 & Hst4 & H).
    apply bind_ok in H as ([st5 ok] & Hfac & H). cbv beta iota in H.
    assert (R1 : i_rho inf1 = i_rho (st_inf st) /\ i_delta inf1 = i_delta (st_inf st)).
    { unfold inf1. destruct Hreg0 as [<- <-]. destruct inf0a. split; reflexivity. }
    assert (R3 : i_rho inf3 = i_rho inf1 /\ i_delta inf3 = i_delta inf1).
    { match type of Hinf3 with (if ?c then _ else _) = _ => destruct c end.
      - apply bind_ok in Hinf3 as (mu & _ & Hinf3). injection Hinf3 as <-. unfold inf2. destruct inf1. split; reflexivity.
      - injection Hinf3 as <-. unfold inf2. destruct inf1. split; reflexivity. }
    assert (R4 : i_rho inf4 = i_rho inf3 /\ i_delta inf4 = i_delta inf3).
    { unfold inf4. match goal with |- context [if ?c then _ else _] => destruct c end; destruct inf3; split; reflexivity. }
    match type of Hst4 with do_update_scalings d ?sx = _ => set (stX := sx) in * end.
    assert (X1 : st_kkt stX = st_kkt st) by (unfold stX, st1; destruct st; reflexivity).
    assert (X2 : st_inf stX = inf4) by (unfold stX, st1; destruct st; reflexivity).
    assert (X3 : st_refine stX = st_refine st) by (unfold stX, st1; destruct st; reflexivity).
    assert (X4 : s (st_it stX) = s (st_it st) /\ s_lb (st_it stX) = s_lb (st_it st) /\ s_ub (st_it stX) = s_ub (st_it st) /\
                 z (st_it stX) = (if sh_z then vaddc (k_eps K) (z (st_it st)) else z (st_it st)) /\
                 z_lb (st_it stX) = (if sh_lb then vaddc (k_eps K) (z_lb (st_it st)) else z_lb (st_it st)) /\
                 z_ub (st_it stX) = (if sh_ub then vaddc (k_eps K) (z_ub (st_it st)) else z_ub (st_it st))).
    { unfold stX, it3, it, st1. clear. destruct st as [it0 ? ? ? ? ?]. destruct it0. cbn. repeat split. }
    destruct X4 as (Y1 & Y2 & Y3 & Y4 & Y5 & Y6).
    destruct Hit as (Ls & Lz & Ps & Lslb & Lzlb & Plb & Lsub & Lzub & Pub).
    assert (HitX : iter_pos d (s (st_it stX)) (s_lb (st_it stX)) (s_ub (st_it stX)) (z (st_it stX)) (z_lb (st_it stX)) (z_ub (st_it stX))).
    { rewrite Y1, Y2, Y3, Y4, Y5, Y6.
      destruct (pos_shift sh_z (k_eps K) (z (st_it st)) (d_m d) Heps ltac:(lia) (fun l Hl => proj2 (Ps l Hl))) as [A1 A2].
      destruct (pos_shift sh_lb (k_eps K) (z_lb (st_it st)) (d_nlb d) Heps Lzlb (fun l Hl => proj2 (Plb l Hl))) as [B1 B2].
      destruct (pos_shift sh_ub (k_eps K) (z_ub (st_it st)) (d_nub d) Heps Lzub (fun l Hl => proj2 (Pub l Hl))) as [C1 C2].
      unfold iter_pos. repeat split; try assumption; try (apply Ps; assumption); try (apply Plb; assumption);
        try (apply Pub; assumption); try (apply A2; assumption); try (apply B2; assumption); try (apply C2; assumption).
      destruct sh_z; [rewrite LinAlg.vaddc_length|]; assumption. }
    assert (HshX : kkt_shape d (st_kkt stX)) by (rewrite X1; assumption).
    assert (HrhoX : 0 < i_rho (st_inf stX)).
    { rewrite X2. destruct R4 as [-> _]. destruct R3 as [-> _]. destruct R1 as [-> _]. assumption. }
    assert (HdeltaX : 0 < i_delta (st_inf stX)).
    { rewrite X2. destruct R4 as [_ ->]. destruct R3 as [_ ->]. destruct R1 as [_ ->]. assumption. }
    destruct (update_then_factorize_convex S d stX st4 Hd HP HshX HrhoX HdeltaX HitX Hst4)
      as (_ & _ & st5' & Hf' & Q1 & Q2 & Q3 & Q4).
    rewrite Hf' in Hfac. injection Hfac as <- <-. cbn [negb] in H. cbv iota in H.
    assert (Href : st_refine st5' = st_refine st) by (rewrite Q1; exact X3).
    clearbody stX. clear Hst4 Hf'.
    repeat zeta1 H.
    match type of H with (if ?c then _ else _) = _ => destruct c end.
    - repeat first [zeta1 H | bind1 H].
      injection H as <-. cbn [outcome_state]. rewrite <- Href. destruct st5'. cbn in Q4 |- *. auto.
    - repeat first [zeta1 H | bind1 H].
      injection H as <-. cbn [outcome_state]. rewrite <- Href. destruct st5'. cbn in Q4 |- *. auto.
  Qed.
End PassC.

(* ================================================================ Part B : the whole main loop *)
Lemma interior_iter_pos d it : ItPos it -> ItShape d it ->
  iter_pos d (s it) (s_lb it) (s_ub it) (z it) (z_lb it) (z_ub it).
Proof.
  intros (P1 & P2 & P3 & P4 & P5 & P6) (L1 & L2 & _ & L4 & L5 & _ & L7 & L8 & _).
  unfold iter_pos. repeat split; try nlia;
    try (apply vpos_nth; [assumption | nlia]).
Qed.

Section LoopC.
  Variable K : Consts.
  Variable S : Settings.
  Variable d : Data.
  Variable pc : Precond.
  Variable cp : F -> F.
  Local Notation nofault := (fun _ : nat => false).

  Hypothesis Hcp : cp_pos cp.
  Hypothesis Htau0 : 0 < tau S.
  Hypothesis Htau1 : tau S < 1.
  Hypothesis Hfine : 0 < reg_finetune_lower_limit S.
  Hypothesis Hepsabs : 0 < eps_abs S.
  Hypothesis Hkeps : 0 < k_eps K.
  Hypothesis Hretry : 0 < k_retry_mul K.
  Hypothesis Hreglim : 0 < k_reglim_mul K.
  Hypothesis HD : DataShape d.
  Hypothesis Hwf : wf_data d.
  Hypothesis Hpsd : P_psd d.

  (* interior state of a convex problem *)
  Definition ConvexInv (st : St) : Prop := Interior d st /\ kkt_shape d (st_kkt st).

  Theorem loop_pass_convex_inv st o :
    ConvexInv st -> loop_pass K S d pc nofault cp st = Ok o ->
    st_refine (outcome_state o) = st_refine st /\
    match o with
    | Continue st' => ConvexInv st'
    | Stop st' => i_status (st_inf st') <> NUMERICS
    end.
  Proof.
    intros [HI Hsh] E.
    pose proof (loop_invariant K S d pc nofault cp Hcp Htau0 Htau1 Hfine Hepsabs Hkeps Hretry Hreglim st o HD HI E) as HI'.
    destruct HI as [[HP (Hr & Hdl & _)] [HS _]].
    destruct (loop_pass_convex K S d pc cp st o Hwf Hpsd (Qclt_le_weak _ _ Hkeps) Hsh Hr Hdl
                (interior_iter_pos d _ HP HS) E) as (A & B & C).
    split; [exact A|]. destruct o as [st'|st']; cbn [outcome_state] in *; [split; assumption | exact C].
  Qed.

  (* any fuel: the loop never reports NUMERICS and never touches the refinement flag *)
  Theorem main_loop_convex fuel : forall st st',
    ConvexInv st -> main_loop K S d pc nofault cp fuel st = Ok st' ->
    i_status (st_inf st') <> NUMERICS /\ st_refine st' = st_refine st.
  Proof.
    induction fuel as [|f IH]; intros st st' HI E; cbn [main_loop] in E; [discriminate|].
    destruct (i_iter (st_inf st) <? max_iter S)%Z.
    - destruct (loop_pass K S d pc nofault cp st) as [o|] eqn:E0; cbn [bind] in E; [|discriminate].
      destruct (loop_pass_convex_inv st o HI E0) as [A B].
      destruct o as [st1|st1]; cbn [outcome_state] in A.
      + destruct (IH st1 st' B E) as [C1 C2]. split; [exact C1 | rewrite C2; exact A].
      + injection E as <-. split; assumption.
    - injection E as <-. destruct st as [? inf ? ? ? ?]. destruct inf. cbn. split; [discriminate | reflexivity].
  Qed.
End LoopC.

(* ================================================================ Part C : API.solve *)
Lemma init_factor_convex_explicit K S d fuel st : kkt_pd (st_kkt st) ->
  exists f, init_factor K S d (fun _ => false) (Datatypes.S fuel) st
            = Ok (st <| st_kkt := (st_kkt st) <| k_fact := Some f |> |> <| st_calls := Datatypes.S (st_calls st) |>, true).
Proof.
  intros H. destruct (do_factorize_pd S d st H) as [f Hf]. exists f. cbn [init_factor]. rewrite Hf. reflexivity.
Qed.

Lemma initial_point_keeps K S d cp st st' : initial_point K S d cp st = Ok st' ->
  st_kkt st' = st_kkt st /\ st_refine st' = st_refine st.
Proof.
  intros H. cbv delta [initial_point] in H. cbv beta in H.
  repeat first [zeta1 H | bind1 H].
  injection H as <-. destruct st. split; reflexivity.
Qed.

Lemma kkt_init_convex d rho delta junk k :
  wf_data d -> P_psd d -> 0 < rho -> 0 < delta ->
  kkt_init d rho delta junk = Ok k -> kkt_pd k /\ kkt_shape d k.
Proof.
  intros Hd HP Hrho Hdelta H. unfold kkt_init in H. cbv zeta in H.
  match type of H with update_kkt d ?kx = _ => set (k0 := kx) in * end.
  assert (Hwf0 : wf_scal d k0).
  { unfold wf_scal, k0. cbn. rewrite !app_length, !LinAlg.vconst_length. repeat split; lia. }
  assert (Hpos0 : pos_scal d k0).
  { unfold pos_scal, k0. cbn. split; [assumption|]. split; [|split].
    - intros l Hl. rewrite (nth_indep (vconst (d_m d) 1) 0 1) by (rewrite LinAlg.vconst_length; assumption).
      rewrite nth_vconst. split; reflexivity.
    - intros i Hi. rewrite app_nth1 by (rewrite LinAlg.vconst_length; assumption).
      rewrite (nth_indep (vconst (d_nlb d) 1) 0 1) by (rewrite LinAlg.vconst_length; assumption).
      rewrite nth_vconst. split; reflexivity.
    - intros i Hi. rewrite app_nth1 by (rewrite LinAlg.vconst_length; assumption).
      rewrite (nth_indep (vconst (d_nub d) 1) 0 1) by (rewrite LinAlg.vconst_length; assumption).
      rewrite nth_vconst. split; reflexivity. }
  assert (HATA0 : (0 < d_p d)%nat -> k_ATA k0 = compute_ATA d).
  { intros Hp. unfold k0. cbn [k_ATA]. destruct (Nat.ltb 0 (d_p d)) eqn:E; [reflexivity | apply Nat.ltb_ge in E; lia]. }
  assert (Hrho0 : 0 < k_rho k0) by exact Hrho.
  destruct (kmat_pd_when_convex d k0 k Hd Hwf0 HATA0 Hrho0 Hpos0 HP H) as (Lmat & Hwf & Hpd).
  split; [split; [assumption | rewrite Lmat; assumption]|].
  destruct (update_kkt_denotes_Kred d k0 k Hd Hwf0 HATA0 H) as (Ek & _).
  destruct (set_k_mat_proj k0 (k_mat k)) as (_ & _ & _ & _ & M5 & M6 & _ & M8 & M9 & M10 & _).
  rewrite <- Ek in M5, M6, M8, M9, M10. destruct Hwf0 as (_ & _ & W3 & W4 & W5 & W6).
  unfold kkt_shape. rewrite M5, M6, M8, M9, M10. exact (conj W3 (conj W4 (conj W5 (conj W6 HATA0)))).
Qed.

(* what the theorem needs to know about the solver object: convex, well-shaped (scaled) data and a KKT object
   of the right shape which, if never refreshed since setup/update, holds a positive definite matrix *)
Definition solver_convex (sv : Solver) : Prop :=
  wf_data (sv_data sv) /\ DataShape (sv_data sv) /\ P_psd (sv_data sv) /\
  kkt_shape (sv_data sv) (sv_kkt sv) /\
  (sv_kkt_init_state sv = true ->
     kkt_pd (sv_kkt sv) /\ KShape (sv_data sv) (sv_kkt sv) /\ KSign (sv_data sv) (sv_kkt sv)).

(* a solver object as setup leaves it *)
Lemma setup_state_convex junk (sv : Solver) :
  wf_data (sv_data sv) -> DataShape (sv_data sv) -> P_psd (sv_data sv) ->
  0 < rho_init (sv_set sv) -> 0 < delta_init (sv_set sv) ->
  kkt_init (sv_data sv) (rho_init (sv_set sv)) (delta_init (sv_set sv)) junk = Ok (sv_kkt sv) ->
  solver_convex sv.
Proof.
  intros Hd HD HP Hrho Hdelta Hk.
  destruct (kkt_init_convex _ _ _ _ _ Hd HP Hrho Hdelta Hk) as [Hpd Hsh].
  destruct (kkt_init_ok _ _ _ _ _ Hk) as [HKS HKG].
  unfold solver_convex. split; [assumption|]. split; [assumption|]. split; [assumption|]. split; [assumption|].
  intros _. exact (conj Hpd (conj HKS HKG)).
Qed.

Definition consts_ok (K : Consts) : Prop :=
  1 < k_shift K /\ 0 < k_half K /\ 0 < k_sinit K /\ 0 <= k_snorm K /\ 0 < k_eps K /\
  0 < k_retry_mul K /\ 0 < k_reglim_mul K.

Definition settings_ok (S : Settings) : Prop :=
  0 < rho_init S /\ 0 < delta_init S /\ 0 < reg_lower_limit S /\ 0 < reg_finetune_lower_limit S /\
  0 < eps_abs S /\ 0 < tau S /\ tau S < 1.

Lemma vpos_vconst1 n : vpos (vconst n 1).
Proof. apply vpos_vconst. reflexivity. Qed.

Lemma entry_iter_pos d o :
  iter_pos d (s (entry_iterate d o)) (s_lb (entry_iterate d o)) (s_ub (entry_iterate d o))
             (z (entry_iterate d o)) (z_lb (entry_iterate d o)) (z_ub (entry_iterate d o)).
Proof.
  assert (N : forall n l, (l < n)%nat -> 0 < nth l (vconst n 1) 0).
  { intros n l Hl. rewrite (nth_indep (vconst n 1) 0 1) by (rewrite LinAlg.vconst_length; assumption).
    rewrite nth_vconst. reflexivity. }
  unfold entry_iterate, iter_pos. cbn. rewrite !LinAlg.vconst_length.
  repeat split; try lia; apply N; assumption.
Qed.

Theorem solve_convex_never_numerics K junk cp_bits sv sv' status :
  consts_ok K -> settings_ok (sv_set sv) -> solver_convex sv ->
  solve K junk cp_bits (fun _ => false) sv = Ok (sv', status) ->
  status <> NUMERICS /\ sv_refine sv' = sv_refine sv.
Proof.
  intros (Hksh & Hhalf & Hsinit & Hsnorm & Hkeps & Hretry & Hreglim)
         (Hrho & Hdelta & Hreg & Hfine & Hepsabs & Htau0 & Htau1)
         (Hd & HD & HP & Hsh & Hinit) H.
  cbv delta [solve] in H. cbv beta in H. repeat zeta1 H.
  assert (I0 : InfPos inf0 /\ i_iter inf0 = 0%Z).
  { unfold inf0, S. destruct (sv_info sv). cbn. unfold InfPos. cbn. auto. }
  assert (P0 : ItPos it0 /\ SZShape d it0).
  { unfold it0, entry_iterate, ItPos, SZShape. cbn. rewrite !LinAlg.vconst_length.
    repeat split; try reflexivity; apply vpos_vconst1. }
  apply bind_ok in H as (st1 & Hst1 & H).
  assert (A1 : kkt_pd (st_kkt st1) /\ kkt_shape d (st_kkt st1) /\ KShape d (st_kkt st1) /\ KSign d (st_kkt st1) /\
               st_it st1 = it0 /\ st_inf st1 = inf0 /\ st_refine st1 = sv_refine sv).
  { destruct (sv_kkt_init_state sv) eqn:Eis.
    - injection Hst1 as <-. destruct (Hinit eq_refl) as (B1 & B2 & B3). unfold st0, it1. cbn. auto 10.
    - pose proof Hst1 as Hst1'.
      apply do_update_scalings_ok in Hst1'; [|unfold st0, it1; cbn; apply P0..].
      destruct Hst1' as (B1 & B2 & B3 & B4 & B5).
      unfold do_update_scalings in Hst1. apply bind_ok in Hst1 as (k1 & Hk1 & Hst1). injection Hst1 as <-.
      unfold st0, it1 in Hk1. cbn [st_kkt st_inf st_it set] in Hk1. cbn in Hk1.
      destruct I0 as [(J1 & J2 & J3) J4].
      destruct (kkt_update_scalings_pd _ _ _ _ _ _ _ _ _ _ _ Hd HP Hsh J1 J2 (entry_iter_pos d (sv_out sv)) Hk1) as [C1 C2].
      unfold st0, it1 in *. cbn in *. auto 10. }
  destruct A1 as (A1 & A2 & A3 & A4 & A5 & A6 & A7).
  apply bind_ok in H as ([st2 ok] & Hst2 & H). cbv beta iota in H.
  destruct (init_fuel S) as [|fuel0] eqn:Efuel; [discriminate|].
  destruct (init_factor_convex_explicit K S d fuel0 st1 A1) as [f Hf].
  rewrite Hf in Hst2. injection Hst2 as <- <-.
  zeta1 H. cbn [negb] in H. cbv iota in H.
  match type of Hf with _ = Ok (?sx, true) => set (st2 := sx) in * end.
  apply bind_ok in H as (st3 & Hst3 & H). apply bind_ok in H as (st4 & Hst4 & H).
  match type of Hst3 with initial_point _ _ _ _ ?sx = _ => set (stI := sx) in * end.
  destruct (init_factor_ok K S d (fun _ => false) Hretry Hreglim Hepsabs _ st1 st2 true Hf) as (B1 & B2 & B3 & B4 & B5);
    try assumption; try (rewrite A5; apply P0); try (rewrite A6; apply I0).
  assert (C1 : st_kkt stI = st_kkt st2 /\ st_refine stI = st_refine st1 /\ InfPos (st_inf stI) /\ i_iter (st_inf stI) = 0%Z).
  { unfold stI. destruct B3 as (D1 & D2 & D3). rewrite A6 in B5. destruct I0 as [_ J4]. rewrite J4 in B5.
    unfold st2 in *. destruct st1 as [? inf1 ? ? ? ?]. cbn in *. destruct inf1. cbn in *. unfold InfPos. cbn. repeat split; assumption. }
  destruct C1 as (C1 & C2 & C3 & C4).
  assert (HI3 : Interior d st3).
  { apply (initial_point_ok_interior K S d (round_cp cp_bits) (round_cp_sign cp_bits) Hksh Hhalf Hsinit Hsnorm HD stI st3);
      try assumption; rewrite C1; assumption. }
  destruct (initial_point_keeps K S d (round_cp cp_bits) stI st3 Hst3) as [E1 E2].
  assert (Hsh3 : kkt_shape d (st_kkt st3)).
  { rewrite E1, C1. unfold st2. destruct st1 as [? ? kk ? ? ?]. cbn in A2 |- *.
    destruct (set_k_fact_proj kk (Some f)) as (_ & _ & _ & _ & F5 & F6 & _ & F8 & F9 & F10 & _).
    unfold kkt_shape. rewrite F5, F6, F8, F9, F10. exact A2. }
  destruct (main_loop_convex K S d pc (round_cp cp_bits) (cp_sign_pos _ (round_cp_sign cp_bits))
              Htau0 Htau1 Hfine Hepsabs Hkeps Hretry Hreglim HD Hd HP _ st3 st4 (conj HI3 Hsh3) Hst4) as [G1 G2].
  unfold fin in H. apply bind_ok in H as (out & _ & H). injection H as <- <-.
  split; [exact G1|]. rewrite <- A7, <- C2, <- E2, <- G2. destruct sv. reflexivity.
Qed.

(* what setup leaves in the solver object *)
Lemma setup_fields K ident spc junk S n p m B sv :
  setup K ident spc junk S n p m B = Ok sv ->
  sv_set sv = S /\ sv_kkt_init_state sv = true /\ sv_refine sv = iterative_refinement_always_enabled S /\
  kkt_init (sv_data sv) (rho_init S) (delta_init S) junk = Ok (sv_kkt sv).
Proof.
  intros H. unfold setup in H. destruct (b_P B); [|discriminate]. destruct (b_c B); [|discriminate]. cbv zeta in H.
  repeat match type of H with context [let '(a, b) := ?e in _] => destruct e end.
  apply bind_ok in H as ([pc d] & _ & H). apply bind_ok in H as (k & Hk & H). injection H as <-. cbn. auto.
Qed.

(* solve right after setup: convexity and shapes are hypotheses on the (preconditioned) data stored in the object *)
Theorem solve_after_setup_never_numerics K ident spc junk cp_bits S n p m B sv sv' status :
  consts_ok K -> settings_ok S ->
  setup K ident spc junk S n p m B = Ok sv ->
  wf_data (sv_data sv) -> DataShape (sv_data sv) -> P_psd (sv_data sv) ->
  solve K junk cp_bits (fun _ => false) sv = Ok (sv', status) ->
  status <> NUMERICS /\ sv_refine sv' = iterative_refinement_always_enabled S.
Proof.
  intros HK HS Hset Hd HD HP Hsol. destruct (setup_fields _ _ _ _ _ _ _ _ _ _ Hset) as (E1 & E2 & E3 & E4).
  rewrite <- E3. apply (solve_convex_never_numerics K junk cp_bits sv sv' status HK); [rewrite E1; exact HS | | exact Hsol].
  destruct HS as (Hrho & Hdelta & _). apply (setup_state_convex junk); try assumption; rewrite E1; assumption.
Qed.

(* psd is preserved by the Ruiz change of variables  P' = c * D P D  (upper triangle, as PrecondProofs.is_transform states it) *)
Lemma P_psd_scaled (d0 d : Data) (c : F) (dl : Vec) :
  d_n d = d_n d0 -> 0 <= c ->
  (forall i j, (i <= j)%nat -> (j < d_n d0)%nat ->
     mentry (d_P d) i j = c * nth i dl 0 * nth j dl 0 * mentry (d_P d0) i j) ->
  P_psd d0 -> P_psd d.
Proof.
  intros Hn Hc HPu H0 x. unfold P_psd in *. rewrite Hn.
  assert (E : forall i j, (i < d_n d0)%nat -> (j < d_n d0)%nat ->
            fPsym d i j = c * nth i dl 0 * nth j dl 0 * fPsym d0 i j).
  { intros i j Hi Hj. unfold fPsym. destruct (Nat.leb_spec j i).
    - rewrite HPu by lia. ring.
    - rewrite HPu by lia. ring. }
  unfold quad_form.
  rewrite (sum_ext (d_n d0) _ (fun i => c * sum (d_n d0) (fun j => fPsym d0 i j * (nth i dl 0 * x i) * (nth j dl 0 * x j)))).
  2:{ intros i Hi. rewrite <- sum_scale_l. apply sum_ext. intros j Hj. rewrite (E i j Hi Hj). ring. }
  rewrite sum_scale_l. apply Qc_mul_nonneg; [assumption|]. exact (H0 (fun i => nth i dl 0 * x i)).
Qed.

(* ================================================================ Part D : a concrete run (instance of InteriorExamples.v:
   minimise x^2 + x  s.t.  x <= 1, -3 <= x; real constants of solver.hpp, 16-bit checkpoint rounding) *)
Lemma ex_consts_settings_ok : consts_ok consts /\ settings_ok InteriorExamples.ex_settings.
Proof. unfold consts_ok, settings_ok. repeat split; vm_compute; first [reflexivity | discriminate]. Qed.

Lemma ex_solve_eval :
  match InteriorExamples.ex_sv_res with
  | Ok sv => match solve consts 0 16 (fun _ => false) sv with Ok (_, st) => st | Err _ => NUMERICS end
  | Err _ => NUMERICS
  end = SOLVED.
Proof. vm_compute. reflexivity. Qed.

Lemma ex_data_ok :
  match InteriorExamples.ex_sv_res with
  | Ok sv => wf_data (sv_data sv) /\ DataShape (sv_data sv) /\ P_psd (sv_data sv)
  | Err _ => False
  end.
Proof.
  destruct InteriorExamples.ex_sv_res as [sv|] eqn:E; [|vm_compute in E; discriminate].
  vm_compute in E. injection E as <-. split; [|split].
  - unfold wf_data. cbn [sv_data d_n d_p d_m d_P d_AT d_GT d_nlb d_nub d_lb_idx d_ub_idx d_lb_scaling d_ub_scaling length].
    repeat split; try (repeat constructor); intros; lia.
  - constructor; cbn [sv_data d_n d_p d_m d_GT d_h d_lb_n d_ub d_nlb d_nub d_lb_idx d_ub_idx d_lb_scaling d_ub_scaling length]; lia.
  - unfold P_psd. cbn [sv_data d_n]. apply pos_def_semidef.
    apply (pos_def_ext 1 (Asym [[qofZ 2]])).
    + intros i j Hi Hj. destruct i; destruct j; try lia. apply Qc_is_canon. reflexivity.
    + destruct (llt_compute [[qofZ 2]]) as [[f|]|] eqn:Ef; try (vm_compute in Ef; discriminate).
      apply (llt_success_implies_pd [[qofZ 2]] f); [|exact Ef].
      intros i Hi. destruct i; [reflexivity | cbn in Hi; lia].
Qed.

Example ex_solve_convex :
  match InteriorExamples.ex_sv_res with
  | Ok sv =>
      consts_ok consts /\ settings_ok (sv_set sv) /\ solver_convex sv /\
      exists sv', solve consts 0 16 (fun _ => false) sv = Ok (sv', SOLVED) /\ sv_refine sv' = sv_refine sv
  | Err _ => False
  end.
Proof.
  pose proof ex_solve_eval as Hev. pose proof ex_data_ok as Hdat.
  destruct InteriorExamples.ex_sv_res as [sv|] eqn:E; [|contradiction].
  pose proof E as Eset. unfold InteriorExamples.ex_sv_res in Eset.
  destruct (setup_fields _ _ _ _ _ _ _ _ _ _ Eset) as (E1 & E2 & E3 & E4).
  destruct ex_consts_settings_ok as [HK HS]. destruct Hdat as (Hd & HD & HP).
  assert (Hconv : solver_convex sv).
  { apply (setup_state_convex 0); try assumption; try (rewrite E1; apply HS). rewrite E1; exact E4. }
  split; [exact HK|]. split; [rewrite E1; exact HS|]. split; [exact Hconv|].
  destruct (solve consts 0 16 (fun _ => false) sv) as [[sv' status]|] eqn:Es; [|discriminate].
  subst status. exists sv'. split; [reflexivity|].
  apply (solve_convex_never_numerics consts 0 16 sv sv' SOLVED HK); [rewrite E1; exact HS | exact Hconv | exact Es].
Qed.
