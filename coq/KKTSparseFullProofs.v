(* KKTSparseFullProofs.v -- C13 / T1b for the sparse KKT_FULL back end: what create_kkt_matrix, the index maps, the
   diagonal-last addressing and the in-place update loops of KKTSparseFull.v leave in the stored matrix.  All sizes, all
   well-formed patterns (P_utri possibly without stored diagonal entries / with empty columns). *)
From PIQP Require Import Base CSC C14LemmasProofs CSCProofs LinAlg KKTProofs KKTSparseFull.
Local Open Scope nat_scope.

(* ================================================================ generic loop lemmas *)
Lemma pred_chk_pos x : 0 < x -> pred_chk x = Ok (x - 1).
Proof. destruct x; [lia|]. intros _. simpl. now rewrite Nat.sub_0_r. Qed.

Lemma copy_seg_ok {V} (d0 : V) (dst : list V) doff (src : list V) soff len :
  soff + len <= length src -> doff + len <= length dst ->
  exists dst', copy_seg dst doff src soff len = Ok dst' /\ length dst' = length dst /\
    (forall i, i < len -> nth (doff + i) dst' d0 = nth (soff + i) src d0) /\
    (forall q, q < doff \/ doff + len <= q -> nth q dst' d0 = nth q dst d0).
Proof.
  intros Hs Hd. unfold copy_seg.
  destruct (for_range_ind (fun i (y : list V) => length y = length dst /\
              (forall i', i' < i -> nth (doff + i') y d0 = nth (soff + i') src d0) /\
              (forall q, q < doff \/ doff + len <= q -> nth q y d0 = nth q dst d0))
            0 len (fun i dst => do v <- get src (soff + i) ;; upd dst (doff + i) v) dst) as (y & E & L & H1 & H2); try lia.
  - split; auto. split; auto. intros; lia.
  - intros i y [_ Hi] (Ly & Hy1 & Hy2).
    rewrite (get_nth src (soff + i) d0) by lia. cbn [bind].
    rewrite upd_lset by lia. eexists; split; [reflexivity|]. split; [now rewrite lset_length|]. split.
    + intros i' Hi'. rewrite nth_lset by lia.
      destruct (Nat.eqb_spec (doff + i') (doff + i)) as [Eq|Ne].
      * replace i' with i by lia. reflexivity.
      * apply Hy1. lia.
    + intros q Hq. rewrite nth_lset by lia. destruct (Nat.eqb_spec q (doff + i)) as [?Hy|?Hn]; [lia|]. now apply Hy2.
  - exists y. auto.
Qed.

Lemma fill_map_ok (map : list nat) lo kk k0 :
  lo <= kk -> kk <= length map ->
  exists map', fill_map map lo kk k0 = Ok map' /\ length map' = length map /\
    (forall i, i < kk - lo -> nth (lo + i) map' 0 = k0 + i) /\
    (forall q, q < lo \/ kk <= q -> nth q map' 0 = nth q map 0).
Proof.
  intros Hle Hk. unfold fill_map.
  destruct (for_range_ind (fun k (st : nat * list nat) => fst st = k - lo /\ length (snd st) = length map /\
              (forall i, lo + i < k -> nth (lo + i) (snd st) 0 = k0 + i) /\
              (forall q, q < lo \/ kk <= q -> nth q (snd st) 0 = nth q map 0))
            lo kk (fun k '(i, map) => do map <- upd map k (k0 + i) ;; Ok (S i, map)) (0, map)) as ([i y] & E & Hi & L & H1 & H2); auto.
  - cbn [fst snd]. repeat split; auto; intros; lia.
  - intros k [i y] [Hk1 Hk2] (Hi & Ly & Hy1 & Hy2). cbn [fst snd] in *.
    rewrite upd_lset by lia. cbn [bind]. eexists; split; [reflexivity|]. cbn [fst snd].
    split; [lia|]. split; [now rewrite lset_length|]. split.
    + intros i' Hi'. rewrite nth_lset by lia. destruct (Nat.eqb_spec (lo + i') k) as [Eq|Ne].
      * subst i. lia.
      * apply Hy1. lia.
    + intros q Hq. rewrite nth_lset by lia. destruct (Nat.eqb_spec q k) as [?Hy|?Hn]; [lia|]. now apply Hy2.
  - rewrite E. cbn [bind]. exists y. cbn [fst snd] in *. split; auto. split; auto. split; auto.
    intros i' Hi'. apply H1. lia.
Qed.

(* prefix sums: every position below off C lies in exactly one column *)
Section Offsets.
Variables (off len : nat -> nat) (C : nat).
Hypothesis off_S : forall c, c < C -> off (S c) = off c + len c.

Lemma off_mono c c' : c <= c' -> c' <= C -> off c <= off c'.
Proof. intros H H'. induction H; auto. rewrite off_S by lia. specialize (IHle ltac:(lia)). lia. Qed.

Lemma off_lt c i c' : c < c' -> c' <= C -> i < len c -> off c + i < off c'.
Proof. intros H H' Hi. assert (off (S c) <= off c') by (apply off_mono; lia). rewrite off_S in H0 by lia. lia. Qed.

Lemma off_decomp q : off 0 <= q < off C -> exists c i, c < C /\ i < len c /\ q = off c + i.
Proof.
  induction C as [|C' IH] in off_S |- *; intros Hq; [lia|].
  destruct (Nat.lt_ge_cases q (off C')).
  - destruct IH as (c & i & Hc & Hi & E); [intros; apply off_S; lia | lia |]. exists c, i. repeat split; auto.
  - exists C', (q - off C'). rewrite off_S in Hq by lia. repeat split; lia.
Qed.

Lemma off_unique c i c' i' : c < C -> c' < C -> i < len c -> i' < len c' -> off c + i = off c' + i' -> c = c' /\ i = i'.
Proof.
  intros Hc Hc' Hi Hi' E.
  destruct (Nat.lt_trichotomy c c') as [L|[Eq|L]].
  - pose proof (off_lt c i c' L ltac:(lia) Hi). lia.
  - subst. split; auto; lia.
  - pose proof (off_lt c' i' c L ltac:(lia) Hi'). lia.
Qed.
End Offsets.

Lemma nondecb_of_steps l : (forall i, S i < length l -> nth i l 0 <= nth (S i) l 0) -> nondecb l = true.
Proof.
  induction l as [|a l IH]; intros H; auto.
  destruct l as [|b l]; auto. simpl. apply andb_true_iff. split.
  - apply Nat.leb_le. apply (H 0). simpl; lia.
  - apply IH. intros i Hi. apply (H (S i)). simpl in *; lia.
Qed.

(* qsum over a range, re-indexed from 0 *)
Lemma qsum_map_seq_shift (g : nat -> F) lo k : qsum (map g (seq lo k)) = qsum (map (fun i => g (lo + i)) (seq 0 k)).
Proof.
  induction k; [reflexivity|]. rewrite !qsum_map_seq_S, IHk. reflexivity.
Qed.

(* ================================================================ the pattern of the assembled matrix, as functions *)
Definition cp {V} (M : csc V) (j : nat) : nat := nth j (colptr M) 0.
Definition clen {V} (M : csc V) (j : nat) : nat := cp M (S j) - cp M j.
(* column j of P_utri is non-empty and its last stored entry is the diagonal *)
Definition has_diag (P : csc F) (j : nat) : bool := (0 <? clen P j) && (nth (cp P (S j) - 1) (rowind P) 0 =? j).

Definition wf_sdata (d : sdata) : Prop :=
  wf_csc (sd_P d) = true /\ nrows (sd_P d) = sd_n d /\ ncols (sd_P d) = sd_n d /\
  wf_csc (sd_AT d) = true /\ nrows (sd_AT d) = sd_n d /\ ncols (sd_AT d) = sd_p d /\
  wf_csc (sd_GT d) = true /\ nrows (sd_GT d) = sd_n d /\ ncols (sd_GT d) = sd_m d.

Section WfCp.
Context {V : Type}.
Variable M : csc V.
Hypothesis Hwf : wf_csc M = true.
Lemma cp_S j : j < ncols M -> cp M (S j) = cp M j + clen M j.
Proof. intros Hj. unfold clen, cp. pose proof (wf_col_range M Hwf j Hj). lia. Qed.
Lemma cp_0 : cp M 0 = 0.
Proof. apply (wf_cp0 M Hwf). Qed.
Lemma cp_last : cp M (ncols M) = nnz M.
Proof. apply (wf_cp_last M Hwf). Qed.
Lemma cp_le_nnz j : j <= ncols M -> cp M j <= nnz M.
Proof. intros Hj. rewrite <- cp_last. apply (off_mono (cp M) (clen M) (ncols M)); auto. intros; now apply cp_S. Qed.
Lemma cp_pos_lt j i : j < ncols M -> i < clen M j -> cp M j + i < nnz M.
Proof. intros Hj Hi. pose proof (cp_le_nnz (S j) ltac:(lia)). rewrite cp_S in H by auto. lia. Qed.
Lemma get_cp j : j <= ncols M -> get (colptr M) j = Ok (cp M j).
Proof. intros Hj. apply get_nth. rewrite (wf_cp_len M Hwf). lia. Qed.
Lemma pos_decomp k : k < nnz M -> exists j i, j < ncols M /\ i < clen M j /\ k = cp M j + i.
Proof.
  intros Hk. apply (off_decomp (cp M) (clen M) (ncols M)).
  - intros; now apply cp_S.
  - rewrite cp_0, cp_last. lia.
Qed.
Lemma vals_len : length (vals M) = nnz M.
Proof. apply (wf_vals_len M Hwf). Qed.
End WfCp.

Section Spec.
Variable d : sdata.
Let n := sd_n d. Let p := sd_p d. Let m := sd_m d.
Let P := sd_P d. Let AT := sd_AT d. Let GT := sd_GT d.
Let N := n + p + m.

Definition klen (c : nat) : nat :=
  if c <? n then (if has_diag P c then clen P c else S (clen P c))
  else if c <? n + p then S (clen AT (c - n)) else S (clen GT (c - n - p)).
Fixpoint koff (c : nat) : nat := match c with O => 0 | S c' => koff c' + klen c' end.
Definition krow (c i : nat) : nat :=
  if c <? n then (if i <? clen P c then nth (cp P c + i) (rowind P) 0 else c)
  else if c <? n + p then (if i <? clen AT (c - n) then nth (cp AT (c - n) + i) (rowind AT) 0 else c)
  else (if i <? clen GT (c - n - p) then nth (cp GT (c - n - p) + i) (rowind GT) 0 else c).
(* values right after create_kkt_matrix *)
Definition kval (rho delta : F) (c i : nat) : F :=
  (if c <? n then
     (if i <? clen P c then
        (if has_diag P c && (S i =? clen P c) then nth (cp P c + i) (vals P) 0 + rho else nth (cp P c + i) (vals P) 0)
      else rho)
   else if c <? n + p then (if i <? clen AT (c - n) then nth (cp AT (c - n) + i) (vals AT) 0 else - delta)
   else (if i <? clen GT (c - n - p) then nth (cp GT (c - n - p) + i) (vals GT) 0 else - (1) - delta))%Qc.

Lemma koff_S c : koff (S c) = koff c + klen c.
Proof. reflexivity. Qed.
Lemma klen_pos c : 0 < klen c.
Proof.
  unfold klen, has_diag. destruct (c <? n); [|destruct (c <? n + p); lia].
  destruct (0 <? clen P c) eqn:E; simpl; [|lia]. apply Nat.ltb_lt in E. destruct (_ =? c); lia.
Qed.
Lemma koff_mono c c' : c <= c' -> koff c <= koff c'.
Proof. intros H. apply (off_mono koff klen c'); auto. Qed.
Lemma koff_lt c i c' : c < c' -> i < klen c -> koff c + i < koff c'.
Proof. intros. apply (off_lt koff klen c'); auto. Qed.
Lemma koff_decomp C q : q < koff C -> exists c i, c < C /\ i < klen c /\ q = koff c + i.
Proof. intros. apply (off_decomp koff klen C); auto. simpl; lia. Qed.
Lemma koff_unique c i c' i' : i < klen c -> i' < klen c' -> koff c + i = koff c' + i' -> c = c' /\ i = i'.
Proof. intros. apply (off_unique koff klen (S (Nat.max c c'))); auto; lia. Qed.
Lemma clen_le_klen_P c : c < n -> clen P c <= klen c.
Proof. intros Hc. unfold klen. apply Nat.ltb_lt in Hc. rewrite Hc. destruct (has_diag P c); lia. Qed.

Lemma klen_P c : c < n -> klen c = if has_diag P c then clen P c else S (clen P c).
Proof. intros Hc. unfold klen. apply Nat.ltb_lt in Hc. now rewrite Hc. Qed.
Lemma klen_AT l : l < p -> klen (n + l) = S (clen AT l).
Proof.
  intros Hl. unfold klen. destruct (Nat.ltb_spec (n + l) n) as [?Hy|?Hn]; [lia|]. destruct (Nat.ltb_spec (n + l) (n + p)) as [?Hy|?Hn]; [|lia].
  now replace (n + l - n) with l by lia.
Qed.
Lemma klen_GT l : l < m -> klen (n + p + l) = S (clen GT l).
Proof.
  intros Hl. unfold klen. destruct (Nat.ltb_spec (n + p + l) n) as [?Hy|?Hn]; [lia|]. destruct (Nat.ltb_spec (n + p + l) (n + p)) as [?Hy|?Hn]; [lia|].
  now replace (n + p + l - n - p) with l by lia.
Qed.

(* the index part of the result: outer index, inner index, the three maps *)
Definition static_spec (kp ki p2k a2k g2k : list nat) : Prop :=
  length kp = S N /\ (forall c, c <= N -> nth c kp 0 = koff c) /\
  length ki = koff N /\ (forall c i, c < N -> i < klen c -> nth (koff c + i) ki 0 = krow c i) /\
  length p2k = nnz P /\ (forall j i, j < n -> i < clen P j -> nth (cp P j + i) p2k 0 = koff j + i) /\
  length a2k = nnz AT /\ (forall l i, l < p -> i < clen AT l -> nth (cp AT l + i) a2k 0 = koff (n + l) + i) /\
  length g2k = nnz GT /\ (forall l i, l < m -> i < clen GT l -> nth (cp GT l + i) g2k 0 = koff (n + p + l) + i).

Definition pdiag_spec (pdiag : Vec) : Prop :=
  length pdiag = n /\ forall j, j < n -> nth j pdiag 0%Qc = if has_diag P j then nth (cp P (S j) - 1) (vals P) 0%Qc else 0%Qc.

Definition kkt_spec (rho delta : F) (km : kktmat) : Prop :=
  nrows (km_K km) = N /\ ncols (km_K km) = N /\
  static_spec (colptr (km_K km)) (rowind (km_K km)) (km_P2K km) (km_AT2K km) (km_GT2K km) /\
  length (vals (km_K km)) = koff N /\
  (forall c i, c < N -> i < klen c -> nth (koff c + i) (vals (km_K km)) 0%Qc = kval rho delta c i) /\
  pdiag_spec (km_Pdiag km).
End Spec.

(* ================================================================ create_kkt_matrix meets its specification *)
Section Create.
Variable d : sdata.
Hypothesis Hwf : wf_sdata d.
Local Notation n := (sd_n d). Local Notation p := (sd_p d). Local Notation m := (sd_m d).
Local Notation P := (sd_P d). Local Notation AT := (sd_AT d). Local Notation GT := (sd_GT d).
Local Notation N := (sd_n d + sd_p d + sd_m d).
Local Notation koff := (koff d). Local Notation klen := (klen d).

Let HwP : wf_csc P = true. Proof. apply Hwf. Qed.
Let HwA : wf_csc AT = true. Proof. apply Hwf. Qed.
Let HwG : wf_csc GT = true. Proof. apply Hwf. Qed.
Let HcP : ncols P = n. Proof. apply Hwf. Qed.
Let HcA : ncols AT = p. Proof. apply Hwf. Qed.
Let HcG : ncols GT = m. Proof. apply Hwf. Qed.

(* what the counting branch of column j computes *)
Lemma count_branch j : j < n ->
  (if 0 <? cp P (S j) - cp P j then
     do q <- pred_chk (cp P (S j)) ;; do last <- get (rowind P) q ;;
     Ok (if last =? j then cp P (S j) - cp P j else S (cp P (S j) - cp P j))
   else Ok (S (cp P (S j) - cp P j))) = Ok (klen j).
Proof.
  intros Hj. rewrite klen_P by auto. unfold has_diag. fold (clen P j).
  destruct (Nat.ltb_spec 0 (clen P j)) as [Hpos|Hz]; cbn [andb]; [|reflexivity].
  assert (E : cp P (S j) = cp P j + clen P j) by (apply cp_S; auto; lia).
  rewrite pred_chk_pos by lia. cbn [bind].
  assert (cp P (S j) <= nnz P) by (apply cp_le_nnz; auto; lia).
  rewrite (get_nth (rowind P) _ 0) by (unfold nnz in *; lia). cbn [bind].
  destruct (_ =? j); reflexivity.
Qed.

Lemma count_P_ok kp0 : length kp0 = S N -> nth 0 kp0 0 = 0 ->
  exists kp, count_P P (0, 0, kp0) = Ok (koff n, n, kp) /\ length kp = S N /\ forall c, c <= n -> nth c kp 0 = koff c.
Proof.
  intros L0 H0. unfold count_P. rewrite HcP.
  destruct (for_range_ind (fun j (st : nat * nat * list nat) =>
              fst (fst st) = koff j /\ snd (fst st) = j /\ length (snd st) = S N /\ forall c, c <= j -> nth c (snd st) 0 = koff c)
      0 n (fun j '(nz, jk, kp) =>
        do lo <- get (colptr P) j ;; do hi <- get (colptr P) (S j) ;;
        let col_nnz := hi - lo in
        do col_nnz <- (if 0 <? col_nnz then
                         do q <- pred_chk hi ;; do last <- get (rowind P) q ;;
                         Ok (if last =? j then col_nnz else S col_nnz)
                       else Ok (S col_nnz)) ;;
        let nz := nz + col_nnz in
        do kp <- upd kp (S jk) nz ;;
        Ok (nz, S jk, kp)) (0, 0, kp0)) as ([[nz jk] kp] & E & H1 & H2 & H3 & H4); try lia.
  - cbn [fst snd]. repeat split; auto. intros c Hc. replace c with 0 by lia. auto.
  - intros j [[nz jk] kp] [_ Hj] (H1 & H2 & H3 & H4). cbn [fst snd] in *. subst nz jk.
    rewrite (get_cp P HwP j) by lia. rewrite (get_cp P HwP (S j)) by lia. cbn [bind]. cbv zeta.
    rewrite count_branch by auto. cbn [bind].
    rewrite upd_lset by lia. cbn [bind]. eexists; split; [reflexivity|]. cbn [fst snd].
    split; [reflexivity|]. split; [reflexivity|]. split; [now rewrite lset_length|].
    intros c Hc. rewrite nth_lset by lia. destruct (Nat.eqb_spec c (S j)) as [?Hy|?Hn]; [subst; reflexivity|]. apply H4. lia.
  - cbn [fst snd] in *. subst. exists kp. auto.
Qed.

(* the AT / GT counting loop, started at column c0 of the KKT matrix *)
Lemma count_rect_ok (M : csc F) c0 kp0 : wf_csc M = true -> c0 + ncols M <= N ->
  (forall l, l < ncols M -> klen (c0 + l) = S (clen M l)) ->
  length kp0 = S N -> (forall c, c <= c0 -> nth c kp0 0 = koff c) ->
  exists kp, count_rect M (koff c0, c0, kp0) = Ok (koff (c0 + ncols M), c0 + ncols M, kp) /\ length kp = S N /\
    forall c, c <= c0 + ncols M -> nth c kp 0 = koff c.
Proof.
  intros HwM Hc0 Hkl L0 H0. unfold count_rect.
  destruct (for_range_ind (fun j (st : nat * nat * list nat) =>
              fst (fst st) = koff (c0 + j) /\ snd (fst st) = c0 + j /\ length (snd st) = S N /\
              forall c, c <= c0 + j -> nth c (snd st) 0 = koff c)
      0 (ncols M) (fun j '(nz, jk, kp) =>
        do lo <- get (colptr M) j ;; do hi <- get (colptr M) (S j) ;;
        let nz := S (nz + (hi - lo)) in
        do kp <- upd kp (S jk) nz ;;
        Ok (nz, S jk, kp)) (koff c0, c0, kp0)) as ([[nz jk] kp] & E & H1 & H2 & H3 & H4); try lia.
  - cbn [fst snd]. rewrite Nat.add_0_r. repeat split; auto.
  - intros j [[nz jk] kp] [_ Hj] (H1 & H2 & H3 & H4). cbn [fst snd] in *. subst nz jk.
    rewrite (get_cp M HwM j) by lia. rewrite (get_cp M HwM (S j)) by lia. cbn [bind]. cbv zeta.
    rewrite upd_lset by lia. cbn [bind]. eexists; split; [reflexivity|]. cbn [fst snd].
    replace (c0 + S j) with (S (c0 + j)) by lia.
    assert (Ek : S (koff (c0 + j) + (cp M (S j) - cp M j)) = koff (S (c0 + j))).
    { rewrite koff_S, Hkl by auto. unfold clen. lia. }
    split; [exact Ek|]. split; [reflexivity|]. split; [now rewrite lset_length|].
    intros c Hc. rewrite nth_lset by lia. destruct (Nat.eqb_spec c (S (c0 + j))) as [?Hy|?Hn]; [subst; exact Ek|]. apply H4. lia.
  - cbn [fst snd] in *. subst. exists kp. auto.
Qed.

Lemma has_diag_true j : has_diag P j = true -> 0 < clen P j /\ nth (cp P (S j) - 1) (rowind P) 0 = j.
Proof. unfold has_diag. intros H. apply andb_true_iff in H as [H1 H2]. apply Nat.ltb_lt in H1. apply Nat.eqb_eq in H2. auto. Qed.

Definition filled (rho delta : F) (C : nat) (ki : list nat) (kx : Vec) : Prop :=
  forall c i, c < C -> i < klen c -> nth (koff c + i) ki 0 = krow d c i /\ nth (koff c + i) kx 0%Qc = kval d rho delta c i.

Lemma filled_preserved rho delta C ki kx ki' kx' :
  filled rho delta C ki kx ->
  (forall q, q < koff C -> nth q ki' 0 = nth q ki 0) -> (forall q, q < koff C -> nth q kx' 0%Qc = nth q kx 0%Qc) ->
  filled rho delta C ki' kx'.
Proof.
  intros H Hi Hx c i Hc Hl. assert (koff c + i < koff C) by (apply koff_lt; auto).
  rewrite Hi, Hx by auto. now apply H.
Qed.

Lemma fill_P_ok rho delta kp ki0 (kx0 : Vec) p2k0 :
  length kp = S N -> (forall c, c <= N -> nth c kp 0 = koff c) ->
  length ki0 = koff N -> length kx0 = koff N -> length p2k0 = nnz P ->
  exists ki kx p2k pdiag, fill_P P rho kp (0, ki0, kx0, p2k0, repeat 0%Qc n) = Ok (n, ki, kx, p2k, pdiag) /\
    length ki = koff N /\ length kx = koff N /\ filled rho delta n ki kx /\
    length p2k = nnz P /\ (forall j i, j < n -> i < clen P j -> nth (cp P j + i) p2k 0 = koff j + i) /\
    pdiag_spec d pdiag.
Proof.
  intros Lkp Hkp Lki Lkx Lp2k. unfold fill_P. rewrite HcP.
  destruct (for_range_ind (fun j (st : nat * list nat * Vec * list nat * Vec) =>
      let '(jk, ki, kx, p2k, pdiag) := st in
      jk = j /\ length ki = koff N /\ length kx = koff N /\ filled rho delta j ki kx /\
      length p2k = nnz P /\ (forall j' i, j' < j -> i < clen P j' -> nth (cp P j' + i) p2k 0 = koff j' + i) /\
      length pdiag = n /\
      (forall j', j' < j -> nth j' pdiag 0%Qc = if has_diag P j' then nth (cp P (S j') - 1) (vals P) 0%Qc else 0%Qc) /\
      (forall j', j <= j' -> nth j' pdiag 0%Qc = 0%Qc))
    0 n (fun j '(jk, ki, kx, p2k, pdiag) =>
      do k_kkt <- get kp jk ;;
      do lo <- get (colptr P) j ;; do hi <- get (colptr P) (S j) ;;
      let col_nnz := hi - lo in
      do ki <- copy_seg ki k_kkt (rowind P) lo col_nnz ;;
      do kx <- copy_seg kx k_kkt (vals P) lo col_nnz ;;
      do e <- get kp (S jk) ;;
      let kkt_col_nnz := e - k_kkt in
      do q <- pred_chk (k_kkt + kkt_col_nnz) ;;
      do '(ki, kx, pdiag) <-
        (if col_nnz <? kkt_col_nnz then
           do ki <- upd ki q jk ;; do kx <- upd kx q rho ;; Ok (ki, kx, pdiag)
         else
           do h1 <- pred_chk hi ;; do v <- get (vals P) h1 ;;
           do pdiag <- upd pdiag j v ;;
           do old <- get kx q ;; do kx <- upd kx q (old + rho)%Qc ;;
           Ok (ki, kx, pdiag)) ;;
      do p2k <- fill_map p2k lo hi k_kkt ;;
      Ok (S jk, ki, kx, p2k, pdiag)) (0, ki0, kx0, p2k0, repeat 0%Qc n))
    as ([[[[jk ki] kx] p2k] pdiag] & E & H1 & H2 & H3 & H4 & H5 & H6 & H7 & H8 & H9); try lia.
  - split; [reflexivity|]. split; [assumption|]. split; [assumption|]. split; [intros c i Hc; lia|]. split; [assumption|].
    split; [intros; lia|]. split; [apply repeat_length|]. split; [intros; lia|]. intros. apply nth_repeat.
  - intros j [[[[jk ki] kx] p2k] pdiag] [_ Hj] (H1 & H2 & H3 & H4 & H5 & H6 & H7 & H8 & H9). subst jk.
    assert (EcS : cp P (S j) = cp P j + clen P j) by (apply cp_S; auto; lia).
    assert (Hnz : cp P (S j) <= nnz P) by (apply cp_le_nnz; auto; lia).
    assert (HkS : koff j + klen j <= koff N) by (rewrite <- koff_S; apply koff_mono; lia).
    assert (Hcl : clen P j <= klen j) by (apply clen_le_klen_P; auto).
    pose proof (klen_pos d j) as Hkpos.
    rewrite (get_nth kp j 0) by lia. rewrite Hkp by lia. cbn [bind].
    rewrite (get_cp P HwP j) by lia. rewrite (get_cp P HwP (S j)) by lia. cbn [bind]. cbv zeta.
    fold (clen P j).
    destruct (copy_seg_ok 0 ki (koff j) (rowind P) (cp P j) (clen P j)) as (ki1 & Eki & Lki1 & Hki1 & Hki1'); [unfold nnz in *; lia | lia |].
    rewrite Eki. cbn [bind].
    destruct (copy_seg_ok (0%Qc : F) kx (koff j) (vals P) (cp P j) (clen P j)) as (kx1 & Ekx & Lkx1 & Hkx1 & Hkx1'); [rewrite (vals_len P HwP); lia | lia |].
    rewrite Ekx. cbn [bind].
    rewrite (get_nth kp (S j) 0) by lia. rewrite Hkp by lia. cbn [bind].
    replace (koff (S j) - koff j) with (klen j) by (rewrite koff_S; lia).
    rewrite pred_chk_pos by lia. cbn [bind].
    destruct (fill_map_ok p2k (cp P j) (cp P (S j)) (koff j)) as (p2k1 & Ep & Lp1 & Hp1 & Hp1'); [lia | lia |].
    assert (Hp2k : forall j' i, j' < S j -> i < clen P j' -> nth (cp P j' + i) p2k1 0 = koff j' + i).
    { intros j' i Hj' Hi. destruct (Nat.eq_dec j' j) as [->|Hne].
      - apply Hp1. lia.
      - rewrite Hp1'. apply H6; lia. left.
        apply (off_lt (cp P) (clen P) j); auto; try lia. intros; apply cp_S; auto; lia. }
    destruct (has_diag P j) eqn:Ehd.
    + (* the last stored entry is the diagonal *)
      destruct (has_diag_true j Ehd) as [Hpos Hlast].
      assert (Ekl : klen j = clen P j) by (rewrite klen_P, Ehd; auto).
      rewrite Ekl. rewrite Nat.ltb_irrefl.
      rewrite pred_chk_pos by lia. cbn [bind].
      rewrite (get_nth (vals P) _ 0%Qc) by (rewrite (vals_len P HwP); lia). cbn [bind].
      rewrite upd_lset by lia. cbn [bind].
      rewrite (get_nth kx1 _ 0%Qc) by lia. cbn [bind].
      rewrite upd_lset by lia. cbn [bind].
      rewrite Ep. cbn [bind]. eexists; split; [reflexivity|].
      split; [reflexivity|]. split; [lia|]. split; [rewrite lset_length; lia|]. split.
      * intros c i Hc Hi. destruct (Nat.eq_dec c j) as [->|Hne].
        -- rewrite Ekl in Hi. rewrite Hki1 by auto. rewrite nth_lset by lia. split.
           ++ unfold krow. destruct (Nat.ltb_spec j n) as [?Hy|?Hn]; [|lia]. destruct (Nat.ltb_spec i (clen P j)) as [?Hy|?Hn]; [reflexivity|lia].
           ++ unfold kval. destruct (Nat.ltb_spec j n) as [?Hy|?Hn]; [|lia]. destruct (Nat.ltb_spec i (clen P j)) as [?Hy|?Hn]; [|lia]. rewrite Ehd. cbn [andb].
              destruct (Nat.eqb_spec (koff j + i) (koff j + clen P j - 1)) as [Eq|Ne].
              ** destruct (Nat.eqb_spec (S i) (clen P j)) as [?Hy|?Hn]; [|lia].
                 replace (koff j + clen P j - 1) with (koff j + i) by lia. rewrite Hkx1 by auto. reflexivity.
              ** destruct (Nat.eqb_spec (S i) (clen P j)) as [?Hy|?Hn]; [lia|]. apply Hkx1; auto.
        -- assert (koff c + i < koff j) by (apply koff_lt; auto; lia).
           rewrite Hki1' by lia. rewrite nth_lset by lia. destruct (Nat.eqb_spec (koff c + i) (koff j + clen P j - 1)) as [?Hy|?Hn]; [lia|].
           rewrite Hkx1' by lia. apply H4; auto; lia.
      * split; [lia|]. split; [exact Hp2k|]. split; [now rewrite lset_length|]. split.
        -- intros j' Hj'. rewrite nth_lset by lia. destruct (Nat.eqb_spec j' j) as [->|Hne].
           ++ rewrite Ehd. reflexivity.
           ++ apply H8. lia.
        -- intros j' Hj'. rewrite nth_lset by lia. destruct (Nat.eqb_spec j' j) as [?Hy|?Hn]; [lia|]. apply H9. lia.
    + (* the diagonal entry is added *)
      assert (Ekl : klen j = S (clen P j)) by (rewrite klen_P, Ehd; auto).
      rewrite Ekl. destruct (Nat.ltb_spec (clen P j) (S (clen P j))) as [?Hy|?Hn]; [|lia].
      replace (koff j + S (clen P j) - 1) with (koff j + clen P j) by lia.
      rewrite Ekl in HkS.
      rewrite upd_lset by lia. cbn [bind]. rewrite upd_lset by lia. cbn [bind].
      rewrite Ep. cbn [bind]. eexists; split; [reflexivity|].
      split; [reflexivity|]. split; [rewrite lset_length; lia|]. split; [rewrite lset_length; lia|]. split.
      * intros c i Hc Hi. destruct (Nat.eq_dec c j) as [->|Hne].
        -- rewrite Ekl in Hi. rewrite !nth_lset by lia. split.
           ++ unfold krow. destruct (Nat.ltb_spec j n) as [?Hy|?Hn]; [|lia]. destruct (Nat.eqb_spec (koff j + i) (koff j + clen P j)) as [?Hy|?Hn].
              ** destruct (Nat.ltb_spec i (clen P j)) as [?Hy|?Hn]; [lia|reflexivity].
              ** destruct (Nat.ltb_spec i (clen P j)) as [?Hy|?Hn]; [|lia]. apply Hki1; auto.
           ++ unfold kval. destruct (Nat.ltb_spec j n) as [?Hy|?Hn]; [|lia]. rewrite Ehd. cbn [andb].
              destruct (Nat.eqb_spec (koff j + i) (koff j + clen P j)) as [?Hy|?Hn].
              ** destruct (Nat.ltb_spec i (clen P j)) as [?Hy|?Hn]; [lia|reflexivity].
              ** destruct (Nat.ltb_spec i (clen P j)) as [?Hy|?Hn]; [|lia]. apply Hkx1; auto.
        -- assert (koff c + i < koff j) by (apply koff_lt; auto; lia).
           rewrite !nth_lset by lia. destruct (Nat.eqb_spec (koff c + i) (koff j + clen P j)) as [?Hy|?Hn]; [lia|].
           rewrite Hki1', Hkx1' by lia. apply H4; auto; lia.
      * split; [lia|]. split; [exact Hp2k|]. split; [lia|]. split.
        -- intros j' Hj'. destruct (Nat.eq_dec j' j) as [->|Hne].
           ++ rewrite Ehd. apply H9. lia.
           ++ apply H8. lia.
        -- intros j' Hj'. apply H9. lia.
  - subst jk. exists ki, kx, p2k, pdiag. split; [exact E|]. split; [auto|]. split; [auto|]. split; [auto|]. split; [auto|]. split; [auto|].
    split; [auto|]. intros j Hj. apply H8. auto.
Qed.

Lemma fill_rect_ok rho delta (M : csc F) (dval : F) c0 kp ki0 (kx0 : Vec) m2k0 :
  wf_csc M = true -> c0 + ncols M <= N ->
  (forall l, l < ncols M -> klen (c0 + l) = S (clen M l)) ->
  (forall l i, l < ncols M -> krow d (c0 + l) i = if i <? clen M l then nth (cp M l + i) (rowind M) 0 else c0 + l) ->
  (forall l i, l < ncols M -> kval d rho delta (c0 + l) i = if i <? clen M l then nth (cp M l + i) (vals M) 0%Qc else dval) ->
  length kp = S N -> (forall c, c <= N -> nth c kp 0 = koff c) ->
  length ki0 = koff N -> length kx0 = koff N -> filled rho delta c0 ki0 kx0 -> length m2k0 = nnz M ->
  exists ki kx m2k, fill_rect M dval kp (c0, ki0, kx0, m2k0) = Ok (c0 + ncols M, ki, kx, m2k) /\
    length ki = koff N /\ length kx = koff N /\ filled rho delta (c0 + ncols M) ki kx /\
    (forall q, q < koff c0 -> nth q ki 0 = nth q ki0 0) /\
    length m2k = nnz M /\ (forall l i, l < ncols M -> i < clen M l -> nth (cp M l + i) m2k 0 = koff (c0 + l) + i).
Proof.
  intros HwM Hc0 Hkl Hkr Hkv Lkp Hkp Lki Lkx Hf0 Lm. unfold fill_rect.
  destruct (for_range_ind (fun j (st : nat * list nat * Vec * list nat) =>
      let '(jk, ki, kx, m2k) := st in
      jk = c0 + j /\ length ki = koff N /\ length kx = koff N /\ filled rho delta (c0 + j) ki kx /\
      (forall q, q < koff c0 -> nth q ki 0 = nth q ki0 0) /\
      length m2k = nnz M /\ (forall l i, l < j -> i < clen M l -> nth (cp M l + i) m2k 0 = koff (c0 + l) + i))
    0 (ncols M) (fun j '(jk, ki, kx, m2k) =>
      do k_kkt <- get kp jk ;;
      do lo <- get (colptr M) j ;; do hi <- get (colptr M) (S j) ;;
      let col_nnz := hi - lo in
      do ki <- copy_seg ki k_kkt (rowind M) lo col_nnz ;;
      do kx <- copy_seg kx k_kkt (vals M) lo col_nnz ;;
      do ki <- upd ki (k_kkt + col_nnz) jk ;;
      do kx <- upd kx (k_kkt + col_nnz) dval ;;
      do m2k <- fill_map m2k lo hi k_kkt ;;
      Ok (S jk, ki, kx, m2k)) (c0, ki0, kx0, m2k0))
    as ([[[jk ki] kx] m2k] & E & H1 & H2 & H3 & H4 & H5 & H6 & H7); try lia.
  - rewrite Nat.add_0_r. split; [reflexivity|]. split; [assumption|]. split; [assumption|]. split; [assumption|].
    split; [auto|]. split; [assumption|]. intros; lia.
  - intros j [[[jk ki] kx] m2k] [_ Hj] (H1 & H2 & H3 & H4 & H5 & H6 & H7). subst jk.
    assert (EcS : cp M (S j) = cp M j + clen M j) by (apply cp_S; auto).
    assert (Hnz : cp M (S j) <= nnz M) by (apply cp_le_nnz; auto; lia).
    assert (Ekl : klen (c0 + j) = S (clen M j)) by (apply Hkl; auto).
    assert (HkS : koff (c0 + j) + klen (c0 + j) <= koff N) by (rewrite <- koff_S; apply koff_mono; lia).
    rewrite Ekl in HkS.
    rewrite (get_nth kp (c0 + j) 0) by lia. rewrite Hkp by lia. cbn [bind].
    rewrite (get_cp M HwM j) by lia. rewrite (get_cp M HwM (S j)) by lia. cbn [bind]. cbv zeta.
    fold (clen M j).
    destruct (copy_seg_ok 0 ki (koff (c0 + j)) (rowind M) (cp M j) (clen M j)) as (ki1 & Eki & Lki1 & Hki1 & Hki1'); [unfold nnz in *; lia | lia |].
    rewrite Eki. cbn [bind].
    destruct (copy_seg_ok (0%Qc : F) kx (koff (c0 + j)) (vals M) (cp M j) (clen M j)) as (kx1 & Ekx & Lkx1 & Hkx1 & Hkx1'); [rewrite (vals_len M HwM); lia | lia |].
    rewrite Ekx. cbn [bind].
    rewrite upd_lset by lia. cbn [bind]. rewrite upd_lset by lia. cbn [bind].
    destruct (fill_map_ok m2k (cp M j) (cp M (S j)) (koff (c0 + j))) as (m2k1 & Ep & Lp1 & Hp1 & Hp1'); [lia | lia |].
    rewrite Ep. cbn [bind]. eexists; split; [reflexivity|].
    replace (c0 + S j) with (S (c0 + j)) by lia.
    split; [reflexivity|]. split; [rewrite lset_length; lia|]. split; [rewrite lset_length; lia|]. split.
    + intros c i Hc Hi. destruct (Nat.eq_dec c (c0 + j)) as [->|Hne].
      * rewrite Ekl in Hi. rewrite !nth_lset by lia. rewrite Hkr, Hkv by auto.
        destruct (Nat.eqb_spec (koff (c0 + j) + i) (koff (c0 + j) + clen M j)) as [?Hy|?Hn].
        -- destruct (Nat.ltb_spec i (clen M j)) as [?Hy|?Hn]; [lia|]. split; reflexivity.
        -- destruct (Nat.ltb_spec i (clen M j)) as [?Hy|?Hn]; [|lia]. split; [apply Hki1 | apply Hkx1]; auto.
      * assert (koff c + i < koff (c0 + j)) by (apply koff_lt; auto; lia).
        rewrite !nth_lset by lia. destruct (Nat.eqb_spec (koff c + i) (koff (c0 + j) + clen M j)) as [?Hy|?Hn]; [lia|].
        rewrite Hki1', Hkx1' by lia. apply H4; auto; lia.
    + split.
      * intros q Hq. assert (koff c0 <= koff (c0 + j)) by (apply koff_mono; lia).
        rewrite nth_lset by lia. destruct (Nat.eqb_spec q (koff (c0 + j) + clen M j)) as [?Hy|?Hn]; [lia|].
        rewrite Hki1' by lia. apply H5; auto.
      * split; [lia|]. intros l i Hl Hi. destruct (Nat.eq_dec l j) as [->|Hne].
        -- apply Hp1. lia.
        -- rewrite Hp1'. apply H7; lia. left.
           apply (off_lt (cp M) (clen M) j); auto; try lia. intros; apply cp_S; auto; lia.
  - subst jk. exists ki, kx, m2k. split; [exact E|]. auto 10.
Qed.

Lemma krow_AT l i : l < p -> krow d (n + l) i = if i <? clen AT l then nth (cp AT l + i) (rowind AT) 0 else n + l.
Proof.
  intros Hl. unfold krow. destruct (Nat.ltb_spec (n + l) n) as [?Hy|?Hn]; [lia|]. destruct (Nat.ltb_spec (n + l) (n + p)) as [?Hy|?Hn]; [|lia].
  now replace (n + l - n) with l by lia.
Qed.
Lemma krow_GT l i : l < m -> krow d (n + p + l) i = if i <? clen GT l then nth (cp GT l + i) (rowind GT) 0 else n + p + l.
Proof.
  intros Hl. unfold krow. destruct (Nat.ltb_spec (n + p + l) n) as [?Hy|?Hn]; [lia|]. destruct (Nat.ltb_spec (n + p + l) (n + p)) as [?Hy|?Hn]; [lia|].
  now replace (n + p + l - n - p) with l by lia.
Qed.
Lemma kval_AT rho delta l i : l < p ->
  kval d rho delta (n + l) i = if i <? clen AT l then nth (cp AT l + i) (vals AT) 0%Qc else (- delta)%Qc.
Proof.
  intros Hl. unfold kval. destruct (Nat.ltb_spec (n + l) n) as [?Hy|?Hn]; [lia|]. destruct (Nat.ltb_spec (n + l) (n + p)) as [?Hy|?Hn]; [|lia].
  now replace (n + l - n) with l by lia.
Qed.
Lemma kval_GT rho delta l i : l < m ->
  kval d rho delta (n + p + l) i = if i <? clen GT l then nth (cp GT l + i) (vals GT) 0%Qc else (- (1) - delta)%Qc.
Proof.
  intros Hl. unfold kval. destruct (Nat.ltb_spec (n + p + l) n) as [?Hy|?Hn]; [lia|]. destruct (Nat.ltb_spec (n + p + l) (n + p)) as [?Hy|?Hn]; [lia|].
  now replace (n + p + l - n - p) with l by lia.
Qed.

(* (a)/(b) core: create_kkt_matrix succeeds on every well-formed input and yields the matrix described by koff / krow / kval,
   whatever the freshly allocated index / value storage contains *)
Theorem create_kkt_spec fi fx rho delta :
  exists km, create_kkt_matrix_f fi fx d rho delta = Ok km /\ kkt_spec d rho delta km.
Proof.
  unfold create_kkt_matrix_f. cbv zeta.
  destruct (count_P_ok (repeat 0 (S N))) as (kp1 & E1 & L1 & H1); [apply repeat_length | reflexivity |].
  rewrite E1. cbn [bind].
  destruct (count_rect_ok AT n kp1) as (kp2 & E2 & L2 & H2); auto; try (rewrite HcA; lia).
  { intros l Hl. apply klen_AT. rewrite HcA in Hl. exact Hl. }
  rewrite HcA in *. rewrite E2. cbn [bind].
  destruct (count_rect_ok GT (n + p) kp2) as (kp & E3 & L3 & H3); auto; try (rewrite HcG; lia).
  { intros l Hl. apply klen_GT. rewrite HcG in Hl. exact Hl. }
  rewrite HcG in *. rewrite E3. cbn [bind].
  destruct (fill_P_ok rho delta kp (repeat fi (koff N)) (repeat fx (koff N)) (repeat fi (nnz P))) as (ki1 & kx1 & p2k & pdiag & E4 & Lki1 & Lkx1 & F1 & Lp & Hp & Hpd);
    auto; try apply repeat_length.
  unfold Vec in *. rewrite E4. cbn [bind].
  destruct (fill_rect_ok rho delta AT (- delta)%Qc n kp ki1 kx1 (repeat fi (nnz AT))) as (ki2 & kx2 & a2k & E5 & Lki2 & Lkx2 & F2 & _ & La & Ha);
    auto; try (rewrite HcA; lia); try apply repeat_length.
  { intros l Hl. apply klen_AT. rewrite HcA in Hl. exact Hl. }
  { intros l i Hl. apply krow_AT. rewrite HcA in Hl. exact Hl. }
  { intros l i Hl. apply kval_AT. rewrite HcA in Hl. exact Hl. }
  rewrite HcA in *. unfold Vec in *. rewrite E5. cbn [bind].
  destruct (fill_rect_ok rho delta GT (- (1) - delta)%Qc (n + p) kp ki2 kx2 (repeat fi (nnz GT))) as (ki & kx & g2k & E6 & Lki & Lkx & F3 & _ & Lg & Hg);
    auto; try (rewrite HcG; lia); try apply repeat_length.
  { intros l Hl. apply klen_GT. rewrite HcG in Hl. exact Hl. }
  { intros l i Hl. apply krow_GT. rewrite HcG in Hl. exact Hl. }
  { intros l i Hl. apply kval_GT. rewrite HcG in Hl. exact Hl. }
  rewrite HcG in *. unfold Vec in *. rewrite E6. cbn [bind].
  eexists. split; [reflexivity|]. unfold kkt_spec, static_spec. cbn [km_K km_P2K km_AT2K km_GT2K km_Pdiag nrows ncols colptr rowind vals].
  split; [reflexivity|]. split; [reflexivity|]. split.
  - split; [exact L3|]. split; [exact H3|]. split; [exact Lki|]. split; [intros c i Hc Hi; apply F3; auto|].
    split; [exact Lp|]. split; [exact Hp|]. split; [exact La|]. split; [exact Ha|]. split; [exact Lg|exact Hg].
  - split; [exact Lkx|]. split; [intros c i Hc Hi; apply F3; auto|exact Hpd].
Qed.
End Create.

(* ================================================================ (a): well-formedness, diagonal-last, the index maps *)
Definition diag_is_last {V} (A : csc V) : Prop :=
  forall j, j < ncols A -> cp A j < cp A (S j) /\ nth (cp A (S j) - 1) (rowind A) 0 = j.

(* position q of A lies in column j *)
Definition in_col {V} (A : csc V) (j q : nat) : Prop := cp A j <= q < cp A (S j).

Section Derived.
Variable d : sdata.
Hypothesis Hwf : wf_sdata d.
Local Notation n := (sd_n d). Local Notation p := (sd_p d). Local Notation m := (sd_m d).
Local Notation P := (sd_P d). Local Notation AT := (sd_AT d). Local Notation GT := (sd_GT d).
Local Notation N := (sd_n d + sd_p d + sd_m d).
Local Notation koff := (koff d). Local Notation klen := (klen d).

Let HwP : wf_csc P = true. Proof. apply Hwf. Qed.
Let HwA : wf_csc AT = true. Proof. apply Hwf. Qed.
Let HwG : wf_csc GT = true. Proof. apply Hwf. Qed.
Let HcP : ncols P = n. Proof. apply Hwf. Qed.
Let HcA : ncols AT = p. Proof. apply Hwf. Qed.
Let HcG : ncols GT = m. Proof. apply Hwf. Qed.
Let HrP : nrows P = n. Proof. apply Hwf. Qed.
Let HrA : nrows AT = n. Proof. apply Hwf. Qed.
Let HrG : nrows GT = n. Proof. apply Hwf. Qed.

(* rows of the assembled matrix *)
Lemma krow_lt c i : c < N -> i < klen c -> krow d c i < N.
Proof.
  intros Hc Hi. unfold krow.
  destruct (Nat.ltb_spec c n) as [?Hy|?Hn].
  - destruct (Nat.ltb_spec i (clen P c)) as [?Hy|?Hn]; [|lia].
    assert (nth (cp P c + i) (rowind P) 0 < nrows P) by (apply wf_rows; auto; apply cp_pos_lt; auto; lia). lia.
  - destruct (Nat.ltb_spec c (n + p)) as [?Hy|?Hn].
    + destruct (Nat.ltb_spec i (clen AT (c - n))) as [?Hy|?Hn]; [|lia].
      assert (nth (cp AT (c - n) + i) (rowind AT) 0 < nrows AT) by (apply wf_rows; auto; apply cp_pos_lt; auto; lia). lia.
    + destruct (Nat.ltb_spec i (clen GT (c - n - p))) as [?Hy|?Hn]; [|lia].
      assert (nth (cp GT (c - n - p) + i) (rowind GT) 0 < nrows GT) by (apply wf_rows; auto; apply cp_pos_lt; auto; lia). lia.
Qed.

Lemma krow_last c : c < N -> krow d c (klen c - 1) = c.
Proof.
  intros Hc. unfold krow, klen.
  destruct (Nat.ltb_spec c n) as [?Hy|?Hn].
  - destruct (has_diag P c) eqn:E.
    + destruct (has_diag_true d c E) as [Hpos Hl]. destruct (Nat.ltb_spec (clen P c - 1) (clen P c)) as [?Hy|?Hn]; [|lia].
      etransitivity; [|exact Hl]. f_equal. rewrite (cp_S P HwP c) by lia. lia.
    + destruct (Nat.ltb_spec (S (clen P c) - 1) (clen P c)) as [?Hy|?Hn]; [lia|reflexivity].
  - destruct (Nat.ltb_spec c (n + p)) as [?Hy|?Hn].
    + destruct (Nat.ltb_spec (S (clen AT (c - n)) - 1) (clen AT (c - n))) as [?Hy|?Hn]; [lia|reflexivity].
    + destruct (Nat.ltb_spec (S (clen GT (c - n - p)) - 1) (clen GT (c - n - p))) as [?Hy|?Hn]; [lia|reflexivity].
Qed.

Lemma krow_upper c i : upper_only P = true -> c < N -> i < klen c -> krow d c i <= c.
Proof.
  intros Hup Hc Hi. unfold krow.
  destruct (Nat.ltb_spec c n) as [?Hy|?Hn].
  - destruct (Nat.ltb_spec i (clen P c)) as [?Hy|?Hn]; [|lia].
    unfold upper_only in Hup. rewrite forallb_forall in Hup. specialize (Hup c). rewrite forallb_forall in Hup.
    apply Nat.leb_le. apply Hup. apply in_seq; lia. apply in_seq. fold (cp P c) (cp P (S c)). fold (clen P c). lia.
  - destruct (Nat.ltb_spec c (n + p)) as [?Hy|?Hn].
    + destruct (Nat.ltb_spec i (clen AT (c - n))) as [?Hy|?Hn]; [|lia].
      assert (nth (cp AT (c - n) + i) (rowind AT) 0 < nrows AT) by (apply wf_rows; auto; apply cp_pos_lt; auto; lia). lia.
    + destruct (Nat.ltb_spec i (clen GT (c - n - p))) as [?Hy|?Hn]; [|lia].
      assert (nth (cp GT (c - n - p) + i) (rowind GT) 0 < nrows GT) by (apply wf_rows; auto; apply cp_pos_lt; auto; lia). lia.
Qed.

Section Pattern.
Variables (kp ki p2k a2k g2k : list nat).
Hypothesis Hst : static_spec d kp ki p2k a2k g2k.
Variable kx : Vec.
Hypothesis Lkx : length kx = koff N.
Let K := mkcsc N N kp ki kx.

Let Lkp : length kp = S N. Proof. apply Hst. Qed.
Let Hkp : forall c, c <= N -> nth c kp 0 = koff c. Proof. apply Hst. Qed.
Let Lki : length ki = koff N. Proof. apply Hst. Qed.
Let Hki : forall c i, c < N -> i < klen c -> nth (koff c + i) ki 0 = krow d c i. Proof. apply Hst. Qed.

Lemma cpK c : c <= N -> cp K c = koff c.
Proof. intros. unfold cp, K. cbn [colptr]. now apply Hkp. Qed.

Lemma static_wf : wf_csc K = true.
Proof.
  unfold wf_csc, K. cbn [colptr ncols nrows rowind vals].
  rewrite !andb_true_iff. repeat split.
  - apply Nat.eqb_eq. exact Lkp.
  - apply Nat.eqb_eq. rewrite (nth_indep _ 1 0) by lia. now rewrite Hkp by lia.
  - apply nondecb_of_steps. intros i Hi. rewrite !Hkp by lia. apply koff_mono. lia.
  - apply Nat.eqb_eq. rewrite Hkp by lia. now rewrite Lki.
  - apply Nat.eqb_eq. now rewrite Lkx, Lki.
  - apply forallb_forall. intros r Hr. apply (In_nth _ _ 0) in Hr as (q & Hq & <-).
    rewrite Lki in Hq. destruct (koff_decomp d N q Hq) as (c & i & Hc & Hi & ->).
    rewrite Hki by auto. apply Nat.ltb_lt. now apply krow_lt.
Qed.

Lemma static_upper : upper_only P = true -> upper_only K = true.
Proof.
  intros Hup. unfold upper_only, K. cbn [colptr ncols rowind].
  apply forallb_forall. intros j Hj. apply in_seq in Hj.
  apply forallb_forall. intros q Hq. apply in_seq in Hq.
  rewrite !Hkp in Hq by lia. rewrite koff_S in Hq.
  apply Nat.leb_le. replace q with (koff j + (q - koff j)) by lia.
  rewrite Hki by lia. apply krow_upper; auto; lia.
Qed.

Lemma static_diag_is_last : diag_is_last K.
Proof.
  intros j Hj. unfold K in Hj. cbn [ncols] in Hj. rewrite !cpK by lia. rewrite koff_S.
  pose proof (klen_pos d j). split; [lia|].
  unfold K. cbn [rowind]. replace (koff j + klen j - 1) with (koff j + (klen j - 1)) by lia.
  rewrite Hki by lia. now apply krow_last.
Qed.

(* the three maps: in range, injective, pointing at an entry of the right column with the right row index *)
Lemma p2k_points j i : j < n -> i < clen P j ->
  let q := nth (cp P j + i) p2k 0 in
  q < nnz K /\ in_col K j q /\ nth q ki 0 = nth (cp P j + i) (rowind P) 0.
Proof.
  intros Hj Hi. destruct Hst as (_ & _ & _ & _ & _ & Hp & _). cbv zeta. rewrite Hp by auto.
  assert (Hi' : i < klen j) by (pose proof (clen_le_klen_P d j Hj); lia).
  unfold in_col. rewrite !cpK by lia. rewrite koff_S. unfold nnz, K. cbn [rowind]. rewrite Lki.
  split; [apply koff_lt; auto; lia|]. split; [lia|].
  rewrite Hki by (auto; lia). unfold krow.
  destruct (Nat.ltb_spec j n) as [?Hy|?Hn]; [|lia]. destruct (Nat.ltb_spec i (clen P j)) as [?Hy|?Hn]; [reflexivity|lia].
Qed.

Lemma a2k_points l i : l < p -> i < clen AT l ->
  let q := nth (cp AT l + i) a2k 0 in
  q < nnz K /\ in_col K (n + l) q /\ nth q ki 0 = nth (cp AT l + i) (rowind AT) 0.
Proof.
  intros Hl Hi. destruct Hst as (_ & _ & _ & _ & _ & _ & _ & Ha & _). cbv zeta. rewrite Ha by auto.
  assert (Hi' : i < klen (n + l)) by (rewrite klen_AT; auto; lia).
  unfold in_col. rewrite !cpK by lia. rewrite koff_S. unfold nnz, K. cbn [rowind]. rewrite Lki.
  split; [apply koff_lt; auto; lia|]. split; [lia|].
  rewrite Hki by (auto; lia). rewrite krow_AT by auto.
  destruct (Nat.ltb_spec i (clen AT l)) as [?Hy|?Hn]; [reflexivity|lia].
Qed.

Lemma g2k_points l i : l < m -> i < clen GT l ->
  let q := nth (cp GT l + i) g2k 0 in
  q < nnz K /\ in_col K (n + p + l) q /\ nth q ki 0 = nth (cp GT l + i) (rowind GT) 0.
Proof.
  intros Hl Hi. destruct Hst as (_ & _ & _ & _ & _ & _ & _ & _ & _ & Hg). cbv zeta. rewrite Hg by auto.
  assert (Hi' : i < klen (n + p + l)) by (rewrite klen_GT; auto; lia).
  unfold in_col. rewrite !cpK by lia. rewrite koff_S. unfold nnz, K. cbn [rowind]. rewrite Lki.
  split; [apply koff_lt; auto; lia|]. split; [lia|].
  rewrite Hki by (auto; lia). rewrite krow_GT by auto.
  destruct (Nat.ltb_spec i (clen GT l)) as [?Hy|?Hn]; [reflexivity|lia].
Qed.

Lemma p2k_inj k k' : k < nnz P -> k' < nnz P -> nth k p2k 0 = nth k' p2k 0 -> k = k'.
Proof.
  intros Hk Hk' E. destruct Hst as (_ & _ & _ & _ & _ & Hp & _).
  destruct (pos_decomp P HwP k Hk) as (j & i & Hj & Hi & ->). destruct (pos_decomp P HwP k' Hk') as (j' & i' & Hj' & Hi' & ->).
  rewrite HcP in *. rewrite !Hp in E by auto.
  apply koff_unique in E as [-> ->]; auto.
  - pose proof (clen_le_klen_P d j Hj); lia.
  - pose proof (clen_le_klen_P d j' Hj'); lia.
Qed.
Lemma a2k_inj k k' : k < nnz AT -> k' < nnz AT -> nth k a2k 0 = nth k' a2k 0 -> k = k'.
Proof.
  intros Hk Hk' E. destruct Hst as (_ & _ & _ & _ & _ & _ & _ & Ha & _).
  destruct (pos_decomp AT HwA k Hk) as (j & i & Hj & Hi & ->). destruct (pos_decomp AT HwA k' Hk') as (j' & i' & Hj' & Hi' & ->).
  rewrite HcA in *. rewrite !Ha in E by auto.
  apply koff_unique in E as [E1 ->]; try (rewrite klen_AT; auto; lia). replace j' with j by lia. reflexivity.
Qed.
Lemma g2k_inj k k' : k < nnz GT -> k' < nnz GT -> nth k g2k 0 = nth k' g2k 0 -> k = k'.
Proof.
  intros Hk Hk' E. destruct Hst as (_ & _ & _ & _ & _ & _ & _ & _ & _ & Hg).
  destruct (pos_decomp GT HwG k Hk) as (j & i & Hj & Hi & ->). destruct (pos_decomp GT HwG k' Hk') as (j' & i' & Hj' & Hi' & ->).
  rewrite HcG in *. rewrite !Hg in E by auto.
  apply koff_unique in E as [E1 ->]; try (rewrite klen_GT; auto; lia). replace j' with j by lia. reflexivity.
Qed.
End Pattern.
End Derived.

(* ================================================================ (b): what the stored matrix denotes *)
Lemma csc_get_local (A : csc F) r j :
  csc_get A r j = qsum (map (fun i => if nth (cp A j + i) (rowind A) 0 =? r then nth (cp A j + i) (vals A) 0%Qc else 0%Qc)
                            (seq 0 (clen A j))).
Proof. unfold csc_get. cbv zeta. fold (cp A j) (cp A (S j)). fold (clen A j). apply qsum_map_seq_shift. Qed.

(* no stored entry of column j has row index r *)
Lemma csc_get_zero (A : csc F) r j :
  (forall i, i < clen A j -> nth (cp A j + i) (rowind A) 0 <> r) -> csc_get A r j = 0%Qc.
Proof.
  intros H. rewrite csc_get_local. apply qsum_map_zero. intros i Hi. apply in_seq in Hi.
  destruct (Nat.eqb_spec (nth (cp A j + i) (rowind A) 0) r) as [?Hy|?Hn]; [|reflexivity]. exfalso. apply (H i); auto; lia.
Qed.

Section Denote.
Variable d : sdata.
Hypothesis Hwf : wf_sdata d.
Local Notation n := (sd_n d). Local Notation p := (sd_p d). Local Notation m := (sd_m d).
Local Notation P := (sd_P d). Local Notation AT := (sd_AT d). Local Notation GT := (sd_GT d).
Local Notation N := (sd_n d + sd_p d + sd_m d).
Local Notation koff := (koff d). Local Notation klen := (klen d).

Let HwP : wf_csc P = true. Proof. apply Hwf. Qed.
Let HwA : wf_csc AT = true. Proof. apply Hwf. Qed.
Let HwG : wf_csc GT = true. Proof. apply Hwf. Qed.
Let HcP : ncols P = n. Proof. apply Hwf. Qed.
Let HcA : ncols AT = p. Proof. apply Hwf. Qed.
Let HcG : ncols GT = m. Proof. apply Hwf. Qed.
Let HrP : nrows P = n. Proof. apply Hwf. Qed.
Let HrA : nrows AT = n. Proof. apply Hwf. Qed.
Let HrG : nrows GT = n. Proof. apply Hwf. Qed.

(* the value of a stored entry that is not the last one of its column: a datum *)
Definition offval (c i : nat) : F :=
  if c <? n then nth (cp P c + i) (vals P) 0%Qc
  else if c <? n + p then nth (cp AT (c - n) + i) (vals AT) 0%Qc
  else nth (cp GT (c - n - p) + i) (vals GT) 0%Qc.
(* the cached diagonal of P *)
Definition pdv (j : nat) : F := if has_diag P j then nth (cp P (S j) - 1) (vals P) 0%Qc else 0%Qc.

(* value storage in "diagonal form": the last entry of column c holds Dg c, every other entry holds the datum *)
Definition mat_form (Dg : nat -> F) (kx : Vec) : Prop :=
  length kx = koff N /\
  forall c i, c < N -> i < klen c -> nth (koff c + i) kx 0%Qc = if S i =? klen c then Dg c else offval c i.

Lemma mat_form_unique Dg kx kx' : mat_form Dg kx -> mat_form Dg kx' -> kx = kx'.
Proof.
  intros [L1 H1] [L2 H2]. apply (nth_ext _ _ (0%Qc : F) (0%Qc : F)); [congruence|].
  intros q Hq. rewrite L1 in Hq. destruct (koff_decomp d N q Hq) as (c & i & Hc & Hi & ->).
  rewrite H1, H2 by auto. reflexivity.
Qed.

(* the diagonal values create_kkt_matrix writes *)
Definition Dg_init (rho delta : F) (c : nat) : F :=
  (if c <? n then pdv c + rho else if c <? n + p then - delta else - (1) - delta)%Qc.

Lemma kval_mat_form rho delta kx : length kx = koff N ->
  (forall c i, c < N -> i < klen c -> nth (koff c + i) kx 0%Qc = kval d rho delta c i) -> mat_form (Dg_init rho delta) kx.
Proof.
  intros L H. split; [exact L|]. intros c i Hc Hi. rewrite H by auto.
  unfold kval, Dg_init, offval, pdv, klen in *.
  destruct (Nat.ltb_spec c n) as [?Hy|?Hn].
  - destruct (has_diag P c) eqn:E; cbn [andb].
    + destruct (Nat.ltb_spec i (clen P c)) as [?Hy|?Hn]; [|lia]. destruct (Nat.eqb_spec (S i) (clen P c)) as [?Hy|?Hn]; [|reflexivity].
      do 2 f_equal. rewrite (cp_S P HwP c) by lia. lia.
    + destruct (Nat.eqb_spec (S i) (S (clen P c))) as [?Hy|?Hn].
      * destruct (Nat.ltb_spec i (clen P c)) as [?Hy|?Hn]; [lia|]. fring.
      * destruct (Nat.ltb_spec i (clen P c)) as [?Hy|?Hn]; [reflexivity|lia].
  - destruct (Nat.ltb_spec c (n + p)) as [?Hy|?Hn].
    + destruct (Nat.eqb_spec (S i) (S (clen AT (c - n)))) as [?Hy|?Hn].
      * destruct (Nat.ltb_spec i (clen AT (c - n))) as [?Hy|?Hn]; [lia|reflexivity].
      * destruct (Nat.ltb_spec i (clen AT (c - n))) as [?Hy|?Hn]; [reflexivity|lia].
    + destruct (Nat.eqb_spec (S i) (S (clen GT (c - n - p)))) as [?Hy|?Hn].
      * destruct (Nat.ltb_spec i (clen GT (c - n - p))) as [?Hy|?Hn]; [lia|reflexivity].
      * destruct (Nat.ltb_spec i (clen GT (c - n - p))) as [?Hy|?Hn]; [reflexivity|lia].
Qed.

Section Get.
Variables (kp ki p2k a2k g2k : list nat).
Hypothesis Hst : static_spec d kp ki p2k a2k g2k.
Variable Dg : nat -> F.
Variable kx : Vec.
Hypothesis Hmf : mat_form Dg kx.
Let K := mkcsc N N kp ki kx.

Lemma get_K_local r c : c < N ->
  csc_get K r c = qsum (map (fun i => if krow d c i =? r then (if S i =? klen c then Dg c else offval c i) else 0%Qc) (seq 0 (klen c))).
Proof.
  intros Hc. rewrite csc_get_local. unfold clen. rewrite !(cpK d kp ki p2k a2k g2k Hst kx) by lia.
  rewrite koff_S. replace (koff c + klen c - koff c) with (klen c) by lia.
  apply qsum_map_ext. intros i Hi. apply in_seq in Hi. unfold K. cbn [rowind vals].
  destruct Hst as (_ & _ & _ & Hki & _). rewrite Hki by (auto; lia).
  destruct Hmf as [_ Hv]. rewrite Hv by (auto; lia). reflexivity.
Qed.

(* columns of the Hessian block *)
Lemma get_K_P r c : c < n ->
  csc_get K r c = (csc_get P r c + (if r =? c then Dg c - pdv c else 0))%Qc.
Proof.
  intros Hc. rewrite get_K_local by lia. rewrite (csc_get_local P). unfold pdv.
  rewrite klen_P by auto. destruct (has_diag P c) eqn:E.
  - destruct (has_diag_true d c E) as [Hpos Hl].
    destruct (clen P c) as [|L'] eqn:EL; [lia|].
    rewrite !qsum_map_seq_S. cbn [Nat.add].
    assert (Ecp : cp P (S c) - 1 = cp P c + L') by (rewrite (cp_S P HwP c) by lia; lia).
    rewrite Ecp in Hl. rewrite Hl, Ecp.
    rewrite Nat.eqb_refl.
    assert (Ekr : krow d c L' = c).
    { unfold krow. destruct (Nat.ltb_spec c n) as [?Hy|?Hn]; [|lia]. rewrite EL. destruct (Nat.ltb_spec L' (S L')) as [?Hy|?Hn]; [exact Hl|lia]. }
    rewrite Ekr. rewrite (Nat.eqb_sym r c).
    rewrite (qsum_map_ext _ (fun i => if nth (cp P c + i) (rowind P) 0 =? r then nth (cp P c + i) (vals P) 0%Qc else 0%Qc) (seq 0 L')).
    + destruct (c =? r); fring.
    + intros i Hi. apply in_seq in Hi. unfold krow, offval. destruct (Nat.ltb_spec c n) as [?Hy|?Hn]; [|lia]. rewrite EL.
      destruct (Nat.ltb_spec i (S L')) as [?Hy|?Hn]; [|lia]. destruct (Nat.eqb_spec (S i) (S L')) as [?Hy|?Hn]; [lia|reflexivity].
  - rewrite qsum_map_seq_S. cbn [Nat.add]. rewrite Nat.eqb_refl.
    assert (Ekr : krow d c (clen P c) = c).
    { unfold krow. destruct (Nat.ltb_spec c n) as [?Hy|?Hn]; [|lia]. destruct (Nat.ltb_spec (clen P c) (clen P c)) as [?Hy|?Hn]; [lia|reflexivity]. }
    rewrite Ekr. rewrite (Nat.eqb_sym r c).
    rewrite (qsum_map_ext _ (fun i => if nth (cp P c + i) (rowind P) 0 =? r then nth (cp P c + i) (vals P) 0%Qc else 0%Qc) (seq 0 (clen P c))).
    + destruct (c =? r); fring.
    + intros i Hi. apply in_seq in Hi. unfold krow, offval. destruct (Nat.ltb_spec c n) as [?Hy|?Hn]; [|lia].
      destruct (Nat.ltb_spec i (clen P c)) as [?Hy|?Hn]; [|lia]. destruct (Nat.eqb_spec (S i) (S (clen P c))) as [?Hy|?Hn]; [lia|reflexivity].
Qed.

Lemma get_K_AT r l : l < p ->
  csc_get K r (n + l) = (csc_get AT r l + (if r =? n + l then Dg (n + l) else 0))%Qc.
Proof.
  intros Hl. rewrite get_K_local by lia. rewrite (csc_get_local AT). rewrite klen_AT by auto.
  rewrite qsum_map_seq_S. cbn [Nat.add]. rewrite Nat.eqb_refl.
  rewrite krow_AT by auto. destruct (Nat.ltb_spec (clen AT l) (clen AT l)) as [?Hy|?Hn]; [lia|]. rewrite (Nat.eqb_sym r (n + l)).
  f_equal. apply qsum_map_ext. intros i Hi. apply in_seq in Hi.
  rewrite krow_AT by auto. destruct (Nat.ltb_spec i (clen AT l)) as [?Hy|?Hn]; [|lia].
  destruct (Nat.eqb_spec (S i) (S (clen AT l))) as [?Hy|?Hn]; [lia|].
  unfold offval. destruct (Nat.ltb_spec (n + l) n) as [?Hy|?Hn]; [lia|]. destruct (Nat.ltb_spec (n + l) (n + p)) as [?Hy|?Hn]; [|lia].
  now replace (n + l - n) with l by lia.
Qed.

Lemma get_K_GT r l : l < m ->
  csc_get K r (n + p + l) = (csc_get GT r l + (if r =? n + p + l then Dg (n + p + l) else 0))%Qc.
Proof.
  intros Hl. rewrite get_K_local by lia. rewrite (csc_get_local GT). rewrite klen_GT by auto.
  rewrite qsum_map_seq_S. cbn [Nat.add]. rewrite Nat.eqb_refl.
  rewrite krow_GT by auto. destruct (Nat.ltb_spec (clen GT l) (clen GT l)) as [?Hy|?Hn]; [lia|]. rewrite (Nat.eqb_sym r (n + p + l)).
  f_equal. apply qsum_map_ext. intros i Hi. apply in_seq in Hi.
  rewrite krow_GT by auto. destruct (Nat.ltb_spec i (clen GT l)) as [?Hy|?Hn]; [|lia].
  destruct (Nat.eqb_spec (S i) (S (clen GT l))) as [?Hy|?Hn]; [lia|].
  unfold offval. destruct (Nat.ltb_spec (n + p + l) n) as [?Hy|?Hn]; [lia|]. destruct (Nat.ltb_spec (n + p + l) (n + p)) as [?Hy|?Hn]; [lia|].
  now replace (n + p + l - n - p) with l by lia.
Qed.
End Get.
End Denote.

(* ================================================================ K_full in the L2 vocabulary of KKTProofs.v *)
(* K_full = [[P + rho I + box, A^T, G^T], [A, -delta I, 0], [G, 0, -(S Z^-1 + delta I)]]  (both triangles) *)
Definition Kfull (Y : L2sys) (i j : nat) : Qc :=
  (let n := y_n Y in let p := y_p Y in
   if i <? n then
     (if j <? n then y_Psym Y i j + (if i =? j then y_rho Y + a_bdiag Y i else 0)
      else if j <? n + p then y_AT Y i (j - n) else y_GT Y i (j - n - p))
   else if i <? n + p then
     (if j <? n then y_AT Y j (i - n) else if i =? j then - y_delta Y else 0)
   else
     (if j <? n then y_GT Y j (i - n - p)
      else if i =? j then - (y_s Y (i - n - p) * y_zinv Y (i - n - p) + y_delta Y) else 0))%Qc.

Lemma Kfull_sym Y i j : (forall a b, y_Psym Y a b = y_Psym Y b a) -> Kfull Y i j = Kfull Y j i.
Proof.
  intros HP. unfold Kfull. cbv zeta. rewrite (HP i j), (Nat.eqb_sym j i).
  destruct (Nat.ltb_spec i (y_n Y)) as [?Hy|?Hn], (Nat.ltb_spec j (y_n Y)) as [?Hy|?Hn],
           (Nat.ltb_spec i (y_n Y + y_p Y)) as [?Hy|?Hn], (Nat.ltb_spec j (y_n Y + y_p Y)) as [?Hy|?Hn],
           (Nat.eqb_spec i j) as [?Hy|?Hn]; subst; try reflexivity; try lia.
Qed.

(* the L2 system of sparse data and stored scalings; [nlb], [nub]: how many box constraints take part *)
Definition sys_sparse_gen (d : sdata) (nlb nub : nat) (c : scal) : L2sys :=
  {| y_n := sd_n d; y_p := sd_p d; y_m := sd_m d; y_nlb := nlb; y_nub := nub;
     y_Psym := (fun i j => if i <=? j then csc_get (sd_P d) i j else csc_get (sd_P d) j i);
     y_AT := csc_get (sd_AT d); y_GT := csc_get (sd_GT d);
     y_rho := sc_rho c; y_delta := sc_delta c; y_s := fv (sc_s c); y_zinv := fv (sc_z_inv c);
     y_lbidx := fidx (sd_lbidx d); y_ubidx := fidx (sd_ubidx d);
     y_lbs := fv (sd_lbs d); y_ubs := fv (sd_ubs d);
     y_slb := fv (sc_s_lb c); y_sub := fv (sc_s_ub c); y_zli := fv (sc_z_lb_inv c); y_zui := fv (sc_z_ub_inv c);
     y_rx := (fun _ => 0%Qc); y_ry := (fun _ => 0%Qc); y_rz := (fun _ => 0%Qc); y_rzlb := (fun _ => 0%Qc); y_rzub := (fun _ => 0%Qc);
     y_rs := (fun _ => 0%Qc); y_rslb := (fun _ => 0%Qc); y_rsub := (fun _ => 0%Qc) |}.
Definition sys_sparse (d : sdata) (c : scal) : L2sys := sys_sparse_gen d (sd_nlb d) (sd_nub d) c.

(* the diagonal of K_full as the update loops leave it in the last entry of each column *)
Definition Dg_of (d : sdata) (Y : L2sys) (col : nat) : F :=
  (if col <? sd_n d then pdv d col + y_rho Y + a_bdiag Y col
   else if col <? sd_n d + sd_p d then - y_delta Y
   else - y_s Y (col - sd_n d - sd_p d) * y_zinv Y (col - sd_n d - sd_p d) - y_delta Y)%Qc.

Section DenoteFull.
Variable d : sdata.
Hypothesis Hwf : wf_sdata d.
Local Notation n := (sd_n d). Local Notation p := (sd_p d). Local Notation m := (sd_m d).
Local Notation P := (sd_P d). Local Notation AT := (sd_AT d). Local Notation GT := (sd_GT d).
Local Notation N := (sd_n d + sd_p d + sd_m d).

Lemma rows_lt_n (M : csc F) l i : wf_csc M = true -> nrows M = n -> l < ncols M -> i < clen M l -> nth (cp M l + i) (rowind M) 0 < n.
Proof. intros Hw Hr Hl Hi. rewrite <- Hr. apply wf_rows; auto. apply cp_pos_lt; auto. Qed.

(* a stored matrix in diagonal form with the diagonal of Y denotes K_full(Y) *)
Theorem mat_form_denotes (Y : L2sys) kp ki p2k a2k g2k kx :
  y_n Y = n -> y_p Y = p ->
  y_Psym Y = (fun i j => if i <=? j then csc_get P i j else csc_get P j i) -> y_AT Y = csc_get AT -> y_GT Y = csc_get GT ->
  static_spec d kp ki p2k a2k g2k -> mat_form d (Dg_of d Y) kx ->
  forall i j, i <= j -> j < N -> csc_get (mkcsc N N kp ki kx) i j = Kfull Y i j.
Proof.
  intros En Ep EP EA EG Hst Hmf i j Hij Hj.
  destruct Hwf as (HwP & HrP & HcP & HwA & HrA & HcA & HwG & HrG & HcG).
  unfold Kfull. cbv zeta. rewrite En, Ep, EP, EA, EG.
  destruct (Nat.ltb_spec j n) as [?Hy|?Hn].
  - (* Hessian block *)
    destruct (Nat.ltb_spec i n) as [?Hy|?Hn]; [|lia].
    rewrite (get_K_P d Hwf kp ki p2k a2k g2k Hst (Dg_of d Y) kx Hmf) by auto.
    destruct (Nat.leb_spec i j) as [?Hy|?Hn]; [|lia]. f_equal.
    destruct (Nat.eqb_spec i j) as [->|?Hn]; [|reflexivity].
    unfold Dg_of. destruct (Nat.ltb_spec j n) as [?Hy|?Hn]; [|lia]. fring.
  - destruct (Nat.ltb_spec j (n + p)) as [?Hy|?Hn].
    + (* A^T block and the -delta diagonal *)
      replace j with (n + (j - n)) at 1 by lia.
      rewrite (get_K_AT d Hwf kp ki p2k a2k g2k Hst (Dg_of d Y) kx Hmf) by lia.
      replace (n + (j - n)) with j by lia.
      destruct (Nat.ltb_spec i n) as [?Hy|?Hn].
      * destruct (Nat.eqb_spec i j) as [?Hy|?Hn]; [lia|]. fring.
      * destruct (Nat.ltb_spec i (n + p)) as [?Hy|?Hn]; [|lia]. destruct (Nat.ltb_spec j n) as [?Hy|?Hn]; [lia|].
        rewrite csc_get_zero.
        -- destruct (Nat.eqb_spec i j) as [->|?Hn]; [|fring].
           unfold Dg_of. destruct (Nat.ltb_spec j n) as [?Hy|?Hn]; [lia|]. destruct (Nat.ltb_spec j (n + p)) as [?Hy|?Hn]; [|lia]. fring.
        -- intros k Hk. assert (nth (cp AT (j - n) + k) (rowind AT) 0 < n) by (apply rows_lt_n; auto; lia). lia.
    + (* G^T block and the -(s/z + delta) diagonal *)
      replace j with (n + p + (j - n - p)) at 1 by lia.
      rewrite (get_K_GT d Hwf kp ki p2k a2k g2k Hst (Dg_of d Y) kx Hmf) by lia.
      replace (n + p + (j - n - p)) with j by lia.
      destruct (Nat.ltb_spec i n) as [?Hy|?Hn].
      * destruct (Nat.eqb_spec i j) as [?Hy|?Hn]; [lia|]. fring.
      * destruct (Nat.ltb_spec j n) as [?Hy|?Hn]; [lia|].
        rewrite csc_get_zero.
        2:{ intros k Hk. assert (nth (cp GT (j - n - p) + k) (rowind GT) 0 < n) by (apply rows_lt_n; auto; lia). lia. }
        destruct (Nat.ltb_spec i (n + p)) as [?Hy|?Hn].
        -- destruct (Nat.eqb_spec i j) as [?Hy|?Hn]; [lia|]. fring.
        -- destruct (Nat.eqb_spec i j) as [->|?Hn]; [|fring].
           unfold Dg_of. destruct (Nat.ltb_spec j n) as [?Hy|?Hn]; [lia|]. destruct (Nat.ltb_spec j (n + p)) as [?Hy|?Hn]; [lia|]. fring.
Qed.

(* (b): create_kkt_matrix yields K_full with unit scalings and no box terms *)
Lemma Dg_init_eq rho delta col : col < N ->
  Dg_init d rho delta col = Dg_of d (sys_sparse_gen d 0 0 (unit_scal d rho delta)) col.
Proof.
  intros Hc. unfold Dg_init, Dg_of. cbn [sys_sparse_gen y_rho y_delta y_s y_zinv unit_scal sc_rho sc_delta sc_s sc_z_inv].
  destruct (Nat.ltb_spec col n) as [?Hy|?Hn].
  - unfold a_bdiag. cbn [y_nlb y_nub sys_sparse_gen sum]. fring.
  - destruct (Nat.ltb_spec col (n + p)) as [?Hy|?Hn]; [reflexivity|].
    unfold fv, vconst. rewrite !(nth_indep _ 0%Qc 1%Qc) by (rewrite repeat_length; lia). rewrite !nth_repeat. fring.
Qed.

Lemma mat_form_ext Dg Dg' kx : (forall c, c < N -> Dg c = Dg' c) -> mat_form d Dg kx -> mat_form d Dg' kx.
Proof. intros H [L Hv]. split; auto. intros c i Hc Hi. rewrite Hv by auto. now rewrite H. Qed.
End DenoteFull.

(* ================================================================ the in-place diagonal loops, for an abstract addressing *)
(* [dp col]: the position PKPt.outerIndexPtr()[ordering.inv(col) + 1] - 1 *)
Section Addr.
Variables (pinv kp : list nat) (N L : nat) (dp : nat -> nat).
Hypothesis Hdp : forall col, col < N -> dpos pinv kp col = Ok (dp col).
Hypothesis Hdp_lt : forall col, col < N -> dp col < L.
Hypothesis Hdp_inj : forall c c', c < N -> c' < N -> dp c = dp c' -> c = c'.

(* a loop that overwrites the diagonal entry of the columns lo..hi-1 with g col *)
Lemma diag_write_loop (body : nat -> Vec -> res Vec) (g : nat -> F) lo hi (kx0 : Vec) :
  lo <= hi -> hi <= N -> length kx0 = L ->
  (forall col kx, lo <= col < hi -> length kx = L -> body col kx = Ok (lset kx (dp col) (g col))) ->
  exists kx, for_range lo hi body kx0 = Ok kx /\ length kx = L /\
    (forall col, lo <= col < hi -> nth (dp col) kx 0%Qc = g col) /\
    (forall q, (forall col, lo <= col < hi -> dp col <> q) -> nth q kx 0%Qc = nth q kx0 0%Qc).
Proof.
  intros Hle Hhi L0 Hbody.
  destruct (for_range_ind (fun j (kx : Vec) => length kx = L /\
              (forall col, lo <= col < j -> nth (dp col) kx 0%Qc = g col) /\
              (forall q, (forall col, lo <= col < j -> dp col <> q) -> nth q kx 0%Qc = nth q kx0 0%Qc))
            lo hi body kx0) as (kx & E & H1 & H2 & H3); auto.
  - split; auto. split; [intros; lia|auto].
  - intros col kx Hc (Lk & Hk1 & Hk2). rewrite Hbody by auto. eexists; split; [reflexivity|].
    assert (dp col < length kx) by (rewrite Lk; apply Hdp_lt; lia).
    split; [now rewrite lset_length|]. split.
    + intros c' Hc'. rewrite nth_lset by auto. destruct (Nat.eqb_spec (dp c') (dp col)) as [Eq|Ne].
      * apply Hdp_inj in Eq; try lia. now subst.
      * apply Hk1. destruct (Nat.eq_dec c' col); [subst; congruence|lia].
    + intros q Hq. rewrite nth_lset by auto. destruct (Nat.eqb_spec q (dp col)) as [Eq|Ne].
      * exfalso. apply (Hq col); auto; lia.
      * apply Hk2. intros c' Hc'. apply Hq. lia.
  - exists kx. auto.
Qed.

Lemma cost_scalings_ok n (pdiag : Vec) rho (kx0 : Vec) : n <= N -> length pdiag = n -> length kx0 = L ->
  exists kx, cost_scalings pinv kp n pdiag rho kx0 = Ok kx /\ length kx = L /\
    (forall col, col < n -> nth (dp col) kx 0%Qc = (nth col pdiag 0 + rho)%Qc) /\
    (forall q, (forall col, col < n -> dp col <> q) -> nth q kx 0%Qc = nth q kx0 0%Qc).
Proof.
  intros Hn Lp L0. unfold cost_scalings.
  destruct (diag_write_loop (fun col kx => do q <- dpos pinv kp col ;; do pd <- get pdiag col ;; upd kx q (pd + rho)%Qc)
              (fun col => (nth col pdiag 0 + rho)%Qc) 0 n kx0) as (kx & E & Lk & H1 & H2); auto; try lia.
  - intros col kx Hc Lk. rewrite Hdp by lia. cbn [bind]. rewrite (get_nth pdiag col 0%Qc) by lia. cbn [bind].
    apply upd_lset. rewrite Lk. apply Hdp_lt. lia.
  - exists kx. split; auto. split; auto. split; [intros; apply H1; lia|]. intros q Hq. apply H2. intros; apply Hq; lia.
Qed.

Lemma equality_scalings_ok n p delta (kx0 : Vec) : n + p <= N -> length kx0 = L ->
  exists kx, equality_scalings pinv kp n p delta kx0 = Ok kx /\ length kx = L /\
    (forall col, n <= col < n + p -> nth (dp col) kx 0%Qc = (- delta)%Qc) /\
    (forall q, (forall col, n <= col < n + p -> dp col <> q) -> nth q kx 0%Qc = nth q kx0 0%Qc).
Proof.
  intros Hn L0. unfold equality_scalings.
  apply (diag_write_loop (fun col kx => do q <- dpos pinv kp col ;; upd kx q (- delta)%Qc) (fun _ => (- delta)%Qc)); auto; try lia.
  intros col kx Hc Lk. rewrite Hdp by lia. cbn [bind]. apply upd_lset. rewrite Lk. apply Hdp_lt. lia.
Qed.

Lemma inequality_scalings_ok n p m (s zinv : Vec) delta (kx0 : Vec) :
  n + p + m <= N -> length s = m -> length zinv = m -> length kx0 = L ->
  exists kx, inequality_scalings pinv kp n p m s zinv delta kx0 = Ok kx /\ length kx = L /\
    (forall col, n + p <= col < n + p + m ->
       nth (dp col) kx 0%Qc = (- nth (col - n - p) s 0 * nth (col - n - p) zinv 0 - delta)%Qc) /\
    (forall q, (forall col, n + p <= col < n + p + m -> dp col <> q) -> nth q kx 0%Qc = nth q kx0 0%Qc).
Proof.
  intros Hn Ls Lz L0. unfold inequality_scalings.
  destruct (for_range_ind (fun j (st : nat * Vec) => fst st = j - (n + p) /\ length (snd st) = L /\
              (forall col, n + p <= col < j -> nth (dp col) (snd st) 0%Qc = (- nth (col - n - p) s 0 * nth (col - n - p) zinv 0 - delta)%Qc) /\
              (forall q, (forall col, n + p <= col < j -> dp col <> q) -> nth q (snd st) 0%Qc = nth q kx0 0%Qc))
            (n + p) (n + p + m) (fun col '(k, kx) =>
      do q <- dpos pinv kp col ;;
      do sk <- get s k ;; do zk <- get zinv k ;;
      do kx <- upd kx q (- sk * zk - delta)%Qc ;;
      Ok (S k, kx)) (0, kx0)) as ([k kx] & E & H0 & H1 & H2 & H3); try lia.
  - cbn [fst snd]. split; [lia|]. split; auto. split; [intros; lia|auto].
  - intros col [k kx] Hc (Hk & Lk & Hk1 & Hk2). cbn [fst snd] in *. subst k.
    rewrite Hdp by lia. cbn [bind].
    rewrite (get_nth s _ 0%Qc) by lia. rewrite (get_nth zinv _ 0%Qc) by lia. cbn [bind].
    assert (dp col < length kx) by (rewrite Lk; apply Hdp_lt; lia).
    rewrite upd_lset by auto. cbn [bind]. eexists; split; [reflexivity|]. cbn [fst snd].
    split; [lia|]. split; [now rewrite lset_length|]. split.
    + intros c' Hc'. rewrite nth_lset by auto. destruct (Nat.eqb_spec (dp c') (dp col)) as [Eq|Ne].
      * apply Hdp_inj in Eq; try lia. subst. now replace (col - n - p) with (col - (n + p)) by lia.
      * apply Hk1. destruct (Nat.eq_dec c' col); [subst; congruence|lia].
    + intros q Hq. rewrite nth_lset by auto. destruct (Nat.eqb_spec q (dp col)) as [Eq|Ne].
      * exfalso. apply (Hq col); auto; lia.
      * apply Hk2. intros c' Hc'. apply Hq. lia.
  - unfold Vec, F in *. rewrite E. cbn [bind]. cbn [fst snd] in *. exists kx. auto.
Qed.

(* the accumulating box loop *)
Lemma box_scalings_ok n nb (idx : list nat) (sc zinv s : Vec) delta (kx0 : Vec) :
  n <= N -> nb <= length idx -> nb <= length sc -> nb <= length zinv -> nb <= length s ->
  (forall i, i < nb -> nth i idx 0 < n) ->
  (forall i, i < nb -> (nth i zinv 0 * nth i s 0 + delta)%Qc <> 0%Qc) ->
  length kx0 = L ->
  exists kx, box_scalings pinv kp nb idx sc zinv s delta kx0 = Ok kx /\ length kx = L /\
    (forall col, col < N -> nth (dp col) kx 0%Qc =
       (nth (dp col) kx0 0 + sum nb (fun i => if (nth i idx 0 =? col)%nat
                                               then nth i sc 0 * nth i sc 0 / (nth i zinv 0 * nth i s 0 + delta) else 0))%Qc) /\
    (forall q, (forall col, col < n -> dp col <> q) -> nth q kx 0%Qc = nth q kx0 0%Qc).
Proof.
  intros Hn Li Lsc Lz Ls Hidx Hnz L0. unfold box_scalings.
  destruct (for_range_ind (fun j (kx : Vec) => length kx = L /\
      (forall col, col < N -> nth (dp col) kx 0%Qc =
         (nth (dp col) kx0 0 + sum j (fun i => if (nth i idx 0 =? col)%nat
                                                then nth i sc 0 * nth i sc 0 / (nth i zinv 0 * nth i s 0 + delta) else 0))%Qc) /\
      (forall q, (forall col, col < n -> dp col <> q) -> nth q kx 0%Qc = nth q kx0 0%Qc))
    0 nb (fun i kx =>
      do col <- get idx i ;;
      do q <- dpos pinv kp col ;;
      do sci <- get sc i ;; do zi <- get zinv i ;; do si <- get s i ;;
      do t <- qdiv (sci * sci)%Qc (zi * si + delta)%Qc ;;
      do old <- get kx q ;;
      upd kx q (old + t)%Qc) kx0) as (kx & E & H1 & H2 & H3); try lia.
  - split; auto. split; [|auto]. intros col Hc. cbn [sum]. fring.
  - intros i kx [_ Hi] (Lk & Hk1 & Hk2).
    rewrite (get_nth idx i 0) by lia. cbn [bind].
    assert (Hcol : nth i idx 0 < N) by (specialize (Hidx i Hi); lia).
    rewrite Hdp by auto. cbn [bind].
    rewrite (get_nth sc i 0%Qc) by lia. rewrite (get_nth zinv i 0%Qc) by lia. rewrite (get_nth s i 0%Qc) by lia. cbn [bind].
    rewrite qdiv_nz by (apply Hnz; auto). cbn [bind].
    assert (dp (nth i idx 0) < length kx) by (rewrite Lk; apply Hdp_lt; auto).
    rewrite (get_nth kx _ 0%Qc) by auto. cbn [bind].
    rewrite upd_lset by auto. eexists; split; [reflexivity|].
    split; [now rewrite lset_length|]. split.
    + intros col Hc. rewrite nth_lset by auto. rewrite sum_S.
      destruct (Nat.eqb_spec (dp col) (dp (nth i idx 0))) as [Eq|Ne].
      * apply Hdp_inj in Eq; auto. subst col. rewrite Nat.eqb_refl. rewrite Hk1 by auto. fring.
      * destruct (Nat.eqb_spec (nth i idx 0) col) as [Eq'|Ne']; [subst; congruence|]. rewrite Hk1 by auto. fring.
    + intros q Hq. rewrite nth_lset by auto. destruct (Nat.eqb_spec q (dp (nth i idx 0))) as [Eq|Ne].
      * exfalso. apply (Hq (nth i idx 0)); auto.
      * apply Hk2; auto.
  - exists kx. auto.
Qed.
End Addr.

(* the diagonal the four update loops compute from the state *)
Definition box_sum (nb : nat) (idx : list nat) (sc zinv s : Vec) (delta : F) (col : nat) : F :=
  sum nb (fun i => if (nth i idx 0 =? col)%nat then nth i sc 0 * nth i sc 0 / (nth i zinv 0 * nth i s 0 + delta) else 0)%Qc.
Definition Dg_code (d : sdata) (k : skkt) (pdiag : Vec) (col : nat) : F :=
  (if col <? sd_n d then
     nth col pdiag 0 + fk_rho k
     + box_sum (sd_nlb d) (sd_lbidx d) (sd_lbs d) (fk_z_lb_inv k) (fk_s_lb k) (fk_delta k) col
     + box_sum (sd_nub d) (sd_ubidx d) (sd_ubs d) (fk_z_ub_inv k) (fk_s_ub k) (fk_delta k) col
   else if col <? sd_n d + sd_p d then - fk_delta k
   else - nth (col - sd_n d - sd_p d) (fk_s k) 0 * nth (col - sd_n d - sd_p d) (fk_z_inv k) 0 - fk_delta k)%Qc.

(* side conditions on data and scalings under which the loops run: sizes, box indices in range, non-zero denominators *)
Definition scal_ok (d : sdata) (c : scal) : Prop :=
  length (sc_s c) = sd_m d /\ length (sc_z_inv c) = sd_m d /\
  sd_nlb d <= length (sd_lbidx d) /\ sd_nlb d <= length (sd_lbs d) /\ sd_nlb d <= length (sc_s_lb c) /\ sd_nlb d <= length (sc_z_lb_inv c) /\
  sd_nub d <= length (sd_ubidx d) /\ sd_nub d <= length (sd_ubs d) /\ sd_nub d <= length (sc_s_ub c) /\ sd_nub d <= length (sc_z_ub_inv c) /\
  (forall i, i < sd_nlb d -> nth i (sd_lbidx d) 0 < sd_n d) /\ (forall i, i < sd_nub d -> nth i (sd_ubidx d) 0 < sd_n d) /\
  (forall i, i < sd_nlb d -> (nth i (sc_z_lb_inv c) 0 * nth i (sc_s_lb c) 0 + sc_delta c)%Qc <> 0%Qc) /\
  (forall i, i < sd_nub d -> (nth i (sc_z_ub_inv c) 0 * nth i (sc_s_ub c) 0 + sc_delta c)%Qc <> 0%Qc).

Section Refresh.
Variable d : sdata.
Variable k : skkt.
Variables (L : nat) (dp : nat -> nat).
Local Notation n := (sd_n d). Local Notation p := (sd_p d). Local Notation m := (sd_m d).
Local Notation N := (sd_n d + sd_p d + sd_m d).
Hypothesis Hdp : forall col, col < N -> dpos (fk_pinv k) (fk_kp k) col = Ok (dp col).
Hypothesis Hdp_lt : forall col, col < N -> dp col < L.
Hypothesis Hdp_inj : forall c c', c < N -> c' < N -> dp c = dp c' -> c = c'.
Hypothesis Hsc : scal_ok d (scal_of k).

Lemma box_both_ok (kx0 : Vec) : length kx0 = L ->
  exists kx, update_kkt_box_scalings d k kx0 = Ok kx /\ length kx = L /\
    (forall col, col < n -> nth (dp col) kx 0%Qc =
       (nth (dp col) kx0 0 + box_sum (sd_nlb d) (sd_lbidx d) (sd_lbs d) (fk_z_lb_inv k) (fk_s_lb k) (fk_delta k) col
                           + box_sum (sd_nub d) (sd_ubidx d) (sd_ubs d) (fk_z_ub_inv k) (fk_s_ub k) (fk_delta k) col)%Qc) /\
    (forall q, (forall col, col < n -> dp col <> q) -> nth q kx 0%Qc = nth q kx0 0%Qc).
Proof.
  intros L0. destruct Hsc as (_ & _ & A1 & A2 & A3 & A4 & B1 & B2 & B3 & B4 & I1 & I2 & Z1 & Z2).
  cbn [scal_of sc_s sc_z_inv sc_s_lb sc_z_lb_inv sc_s_ub sc_z_ub_inv sc_delta] in *.
  unfold update_kkt_box_scalings.
  destruct (box_scalings_ok (fk_pinv k) (fk_kp k) N L dp Hdp Hdp_lt Hdp_inj n (sd_nlb d) (sd_lbidx d) (sd_lbs d) (fk_z_lb_inv k) (fk_s_lb k) (fk_delta k) kx0)
    as (kx1 & E1 & L1 & H1 & H1'); auto; try lia.
  rewrite E1. cbn [bind].
  destruct (box_scalings_ok (fk_pinv k) (fk_kp k) N L dp Hdp Hdp_lt Hdp_inj n (sd_nub d) (sd_ubidx d) (sd_ubs d) (fk_z_ub_inv k) (fk_s_ub k) (fk_delta k) kx1)
    as (kx2 & E2 & L2 & H2 & H2'); auto; try lia.
  exists kx2. split; auto. split; auto. split.
  - intros col Hc. rewrite H2, H1 by lia. reflexivity.
  - intros q Hq. rewrite H2', H1' by auto. reflexivity.
Qed.

Theorem refresh_scalings_ok : length (fk_Pdiag k) = n -> length (fk_kx k) = L ->
  exists kx, refresh_scalings d k = Ok (set_kx k kx) /\ length kx = L /\
    (forall col, col < N -> nth (dp col) kx 0%Qc = Dg_code d k (fk_Pdiag k) col) /\
    (forall q, (forall col, col < N -> dp col <> q) -> nth q kx 0%Qc = nth q (fk_kx k) 0%Qc).
Proof.
  intros Lpd L0. pose proof Hsc as (S1 & S2 & _). cbn [scal_of sc_s sc_z_inv] in S1, S2.
  unfold refresh_scalings, update_kkt_cost_scalings, update_kkt_equality_scalings, update_kkt_inequality_scaling.
  destruct (cost_scalings_ok (fk_pinv k) (fk_kp k) N L dp Hdp Hdp_lt Hdp_inj n (fk_Pdiag k) (fk_rho k) (fk_kx k))
    as (kx1 & E1 & L1 & H1 & H1'); auto; try lia.
  rewrite E1. cbn [bind].
  destruct (equality_scalings_ok (fk_pinv k) (fk_kp k) N L dp Hdp Hdp_lt Hdp_inj n p (fk_delta k) kx1)
    as (kx2 & E2 & L2 & H2 & H2'); auto; try lia.
  rewrite E2. cbn [bind].
  destruct (inequality_scalings_ok (fk_pinv k) (fk_kp k) N L dp Hdp Hdp_lt Hdp_inj n p m (fk_s k) (fk_z_inv k) (fk_delta k) kx2)
    as (kx3 & E3 & L3 & H3 & H3'); auto; try lia.
  rewrite E3. cbn [bind].
  destruct (box_both_ok kx3 L3) as (kx4 & E4 & L4 & H4 & H4').
  rewrite E4. cbn [bind]. exists kx4. split; [reflexivity|]. split; [exact L4|]. split.
  - intros col Hc. unfold Dg_code.
    destruct (Nat.ltb_spec col n) as [?Hy|?Hn].
    + rewrite H4 by auto. rewrite H3', H2', H1 by (auto; intros c' Hc' Eq; apply Hdp_inj in Eq; lia). reflexivity.
    + rewrite H4' by (intros c' Hc' Eq; apply Hdp_inj in Eq; lia).
      destruct (Nat.ltb_spec col (n + p)) as [?Hy|?Hn].
      * rewrite H3', H2 by (auto; intros c' Hc' Eq; apply Hdp_inj in Eq; lia). reflexivity.
      * rewrite H3 by lia. reflexivity.
  - intros q Hq. rewrite H4', H3', H2', H1' by (intros c' Hc'; apply Hq; lia). reflexivity.
Qed.
End Refresh.

(* ================================================================ identity ordering: the canonical ("fresh") form of the state *)
Lemma box_sum_a_bdiag d c col :
  (box_sum (sd_nlb d) (sd_lbidx d) (sd_lbs d) (sc_z_lb_inv c) (sc_s_lb c) (sc_delta c) col
   + box_sum (sd_nub d) (sd_ubidx d) (sd_ubs d) (sc_z_ub_inv c) (sc_s_ub c) (sc_delta c) col)%Qc
  = a_bdiag (sys_sparse d c) col.
Proof.
  unfold a_bdiag, box_sum, a_wlb, a_wub, sys_sparse, sys_sparse_gen, fv, fidx.
  cbn [y_nlb y_nub y_lbidx y_ubidx y_lbs y_ubs y_slb y_sub y_zli y_zui y_delta].
  f_equal; apply sum_ext; intros i Hi; destruct (_ =? col); try reflexivity.
  - rewrite (Qcmult_comm (nth i (sc_z_lb_inv c) 0%Qc)). unfold Qcdiv. fring.
  - rewrite (Qcmult_comm (nth i (sc_z_ub_inv c) 0%Qc)). unfold Qcdiv. fring.
Qed.

Section Fresh.
Variable d : sdata.
Hypothesis Hwf : wf_sdata d.
Local Notation n := (sd_n d). Local Notation p := (sd_p d). Local Notation m := (sd_m d).
Local Notation P := (sd_P d). Local Notation AT := (sd_AT d). Local Notation GT := (sd_GT d).
Local Notation N := (sd_n d + sd_p d + sd_m d).
Local Notation koff := (koff d). Local Notation klen := (klen d).

Definition dp_id (col : nat) : nat := koff (S col) - 1.

Lemma dp_id_eq col : dp_id col = koff col + (klen col - 1).
Proof. unfold dp_id. rewrite koff_S. pose proof (klen_pos d col). lia. Qed.
Lemma dp_id_lt col : col < N -> dp_id col < koff N.
Proof. intros H. rewrite dp_id_eq. apply koff_lt; auto. pose proof (klen_pos d col). lia. Qed.
Lemma dp_id_inj c c' : dp_id c = dp_id c' -> c = c'.
Proof. rewrite !dp_id_eq. intros E. apply koff_unique in E as [E _]; auto; [pose proof (klen_pos d c) | pose proof (klen_pos d c')]; lia. Qed.
Lemma dpos_id kp col : length kp = S N -> (forall c, c <= N -> nth c kp 0 = koff c) -> col < N ->
  dpos (seq 0 N) kp col = Ok (dp_id col).
Proof.
  intros Lkp Hkp Hc. unfold dpos. rewrite (get_nth (seq 0 N) col 0) by (rewrite seq_length; auto). rewrite seq_nth by auto. cbn [bind Nat.add].
  rewrite (get_nth kp (S col) 0) by lia. cbn [bind]. rewrite Hkp by lia.
  apply pred_chk_pos. rewrite koff_S. pose proof (klen_pos d col). lia.
Qed.

(* a position is the last of its column or not *)
Lemma pos_cases q : q < koff N ->
  (exists col, col < N /\ q = dp_id col) \/
  ((forall col, col < N -> dp_id col <> q) /\ exists c i, c < N /\ i < klen c /\ S i <> klen c /\ q = koff c + i).
Proof.
  intros Hq. destruct (koff_decomp d N q Hq) as (c & i & Hc & Hi & ->).
  destruct (Nat.eq_dec (S i) (klen c)) as [E|Ne].
  - left. exists c. split; auto. rewrite dp_id_eq. lia.
  - right. split.
    + intros col Hcol E. rewrite dp_id_eq in E. apply koff_unique in E as [-> E]; auto; try lia. pose proof (klen_pos d col); lia.
    + exists c, i. auto.
Qed.

(* overwriting the last entry of every column of a matrix in diagonal form gives a matrix in diagonal form *)
Lemma mat_form_set_diag Dg0 Dg (kx0 kx : Vec) :
  mat_form d Dg0 kx0 -> length kx = koff N ->
  (forall col, col < N -> nth (dp_id col) kx 0%Qc = Dg col) ->
  (forall q, (forall col, col < N -> dp_id col <> q) -> nth q kx 0%Qc = nth q kx0 0%Qc) ->
  mat_form d Dg kx.
Proof.
  intros [L0 H0] Lk H1 H2. split; auto. intros c i Hc Hi.
  destruct (Nat.eqb_spec (S i) (klen c)) as [E|Ne].
  - replace (koff c + i) with (dp_id c) by (rewrite dp_id_eq; lia). now apply H1.
  - rewrite H2.
    + rewrite H0 by auto. destruct (Nat.eqb_spec (S i) (klen c)) as [?Hy|?Hn]; [lia|reflexivity].
    + intros col Hcol E. rewrite dp_id_eq in E. apply koff_unique in E as [-> E]; auto; try lia. pose proof (klen_pos d col); lia.
Qed.

(* the state as init (identity ordering) leaves it, up to the values and the scalings *)
Definition id_state (k : skkt) : Prop :=
  fk_pinv k = seq 0 N /\ fk_PKi k = seq 0 (koff N) /\
  static_spec d (fk_kp k) (fk_ki k) (fk_P2K k) (fk_AT2K k) (fk_GT2K k) /\ pdiag_spec d (fk_Pdiag k).

(* canonical form: diagonal form with the diagonal of K_full(data, scalings c) *)
Definition fresh_form (c : scal) (k : skkt) : Prop :=
  id_state k /\ scal_of k = c /\ mat_form d (Dg_of d (sys_sparse d c)) (fk_kx k).

Lemma Dg_code_eq k pdiag col : pdiag_spec d pdiag -> col < N ->
  Dg_code d k pdiag col = Dg_of d (sys_sparse d (scal_of k)) col.
Proof.
  intros [Lp Hp] Hc. unfold Dg_code, Dg_of.
  destruct (Nat.ltb_spec col n) as [?Hy|?Hn].
  - rewrite <- box_sum_a_bdiag. rewrite Hp by auto. unfold pdv. cbn [scal_of sc_z_lb_inv sc_s_lb sc_delta sc_z_ub_inv sc_s_ub sys_sparse sys_sparse_gen y_rho sc_rho]. fring.
  - destruct (Nat.ltb_spec col (n + p)) as [?Hy|?Hn]; reflexivity.
Qed.

(* the four update loops bring any identity-ordered state whose off-diagonal entries hold the data into canonical form *)
Lemma refresh_id k Dg0 : id_state k -> scal_ok d (scal_of k) -> mat_form d Dg0 (fk_kx k) ->
  exists kx, refresh_scalings d k = Ok (set_kx k kx) /\ fresh_form (scal_of k) (set_kx k kx).
Proof.
  intros (Epinv & Epki & Hst & Hpd) Hsc Hmf.
  pose proof Hst as (Lkp & Hkp & _). pose proof Hpd as [Lpd _]. pose proof Hmf as [Lkx _].
  destruct (refresh_scalings_ok d k (koff N) dp_id) as (kx & E & Lk & H1 & H2); auto.
  - intros col Hc. rewrite Epinv. apply dpos_id; auto.
  - intros; now apply dp_id_lt.
  - intros c c' _ _. apply dp_id_inj.
  - exists kx. split; auto. split; [|split].
    + destruct k. exact (conj Epinv (conj Epki (conj Hst Hpd))).
    + destruct k. reflexivity.
    + replace (fk_kx (set_kx k kx)) with kx by (destruct k; reflexivity).
      apply (mat_form_set_diag Dg0 _ (fk_kx k)); auto.
      intros col Hc. rewrite H1 by auto. now apply Dg_code_eq.
Qed.
End Fresh.

(* ================================================================ top-level statements: create / init / update_scalings *)
Section Top.
Variable d : sdata.
Hypothesis Hwf : wf_sdata d.
Local Notation n := (sd_n d). Local Notation p := (sd_p d). Local Notation m := (sd_m d).
Local Notation P := (sd_P d). Local Notation AT := (sd_AT d). Local Notation GT := (sd_GT d).
Local Notation N := (sd_n d + sd_p d + sd_m d).

Lemma csc_eta {V} (A : csc V) : A = mkcsc (nrows A) (ncols A) (colptr A) (rowind A) (vals A).
Proof. destruct A; reflexivity. Qed.

(* (a) *)
Theorem create_kkt_full_wf_thm rho delta :
  exists km, create_kkt_matrix d rho delta = Ok km /\
    let K := km_K km in
    nrows K = N /\ ncols K = N /\ wf_csc K = true /\ diag_is_last K /\ (upper_only P = true -> upper_only K = true) /\
    length (km_P2K km) = nnz P /\ length (km_AT2K km) = nnz AT /\ length (km_GT2K km) = nnz GT /\
    (forall j k, j < n -> in_col P j k ->
       let q := nth k (km_P2K km) 0 in q < nnz K /\ in_col K j q /\ nth q (rowind K) 0 = nth k (rowind P) 0) /\
    (forall l k, l < p -> in_col AT l k ->
       let q := nth k (km_AT2K km) 0 in q < nnz K /\ in_col K (n + l) q /\ nth q (rowind K) 0 = nth k (rowind AT) 0) /\
    (forall l k, l < m -> in_col GT l k ->
       let q := nth k (km_GT2K km) 0 in q < nnz K /\ in_col K (n + p + l) q /\ nth q (rowind K) 0 = nth k (rowind GT) 0) /\
    (forall k k', k < nnz P -> k' < nnz P -> nth k (km_P2K km) 0 = nth k' (km_P2K km) 0 -> k = k') /\
    (forall k k', k < nnz AT -> k' < nnz AT -> nth k (km_AT2K km) 0 = nth k' (km_AT2K km) 0 -> k = k') /\
    (forall k k', k < nnz GT -> k' < nnz GT -> nth k (km_GT2K km) 0 = nth k' (km_GT2K km) 0 -> k = k').
Proof.
  destruct (create_kkt_spec d Hwf 0 0%Qc rho delta) as (km & E & Hr & Hc & Hst & Lkx & Hv & Hpd).
  exists km. split; [exact E|]. cbv zeta.
  rewrite (csc_eta (km_K km)). rewrite Hr, Hc. cbn [nrows ncols colptr rowind vals].
  pose proof Hst as (_ & _ & _ & _ & Lp & _ & La & _ & Lg & _).
  split; [reflexivity|]. split; [reflexivity|].
  split; [apply (static_wf d Hwf _ _ _ _ _ Hst _ Lkx)|].
  split; [apply (static_diag_is_last d Hwf _ _ _ _ _ Hst _ Lkx)|].
  split; [apply (static_upper d Hwf _ _ _ _ _ Hst _ Lkx)|].
  split; [exact Lp|]. split; [exact La|]. split; [exact Lg|].
  split; [|split; [|split; [|split; [|split]]]].
  - intros j k Hj [Hk1 Hk2]. replace k with (cp P j + (k - cp P j)) by lia.
    apply (p2k_points d Hwf _ _ _ _ _ Hst _ Lkx); auto. unfold clen. lia.
  - intros l k Hl [Hk1 Hk2]. replace k with (cp AT l + (k - cp AT l)) by lia.
    apply (a2k_points d Hwf _ _ _ _ _ Hst _ Lkx); auto. unfold clen. lia.
  - intros l k Hl [Hk1 Hk2]. replace k with (cp GT l + (k - cp GT l)) by lia.
    apply (g2k_points d Hwf _ _ _ _ _ Hst _ Lkx); auto. unfold clen. lia.
  - apply (p2k_inj d Hwf _ _ _ _ _ Hst _ Lkx).
  - apply (a2k_inj d Hwf _ _ _ _ _ Hst _ Lkx).
  - apply (g2k_inj d Hwf _ _ _ _ _ Hst _ Lkx).
Qed.

(* (b) *)
Theorem create_kkt_full_denotes_thm rho delta km : create_kkt_matrix d rho delta = Ok km ->
  forall i j, i <= j -> j < N -> csc_get (km_K km) i j = Kfull (sys_sparse_gen d 0 0 (unit_scal d rho delta)) i j.
Proof.
  intros E0. destruct (create_kkt_spec d Hwf 0 0%Qc rho delta) as (km' & E & Hr & Hc & Hst & Lkx & Hv & Hpd).
  unfold create_kkt_matrix in E0. rewrite E in E0. injection E0 as <-.
  rewrite (csc_eta (km_K km')). rewrite Hr, Hc.
  apply (mat_form_denotes d Hwf _ _ _ (km_P2K km') (km_AT2K km') (km_GT2K km')); auto.
  apply (mat_form_ext d (Dg_init d rho delta)).
  - intros c Hc'. now apply Dg_init_eq.
  - apply kval_mat_form; auto.
Qed.

Lemma Dg_init_Dg_of rho delta col : col < N ->
  Dg_of d (sys_sparse d (unit_scal d rho delta)) col =
  (if col <? n then Dg_init d rho delta col + a_bdiag (sys_sparse d (unit_scal d rho delta)) col else Dg_init d rho delta col)%Qc.
Proof.
  intros Hc. unfold Dg_init, Dg_of. cbn [sys_sparse sys_sparse_gen y_rho y_delta y_s y_zinv unit_scal sc_rho sc_delta sc_s sc_z_inv].
  destruct (Nat.ltb_spec col n) as [?Hy|?Hn]; [reflexivity|].
  destruct (Nat.ltb_spec col (n + p)) as [?Hy|?Hn]; [reflexivity|].
  unfold fv, vconst. rewrite !(nth_indep _ 0%Qc 1%Qc) by (rewrite repeat_length; lia). rewrite !nth_repeat. fring.
Qed.

(* init with the identity ordering leaves the canonical form for unit scalings *)
Theorem init_fresh rho delta : scal_ok d (unit_scal d rho delta) ->
  exists k, init d rho delta None = Ok k /\ fresh_form d (unit_scal d rho delta) k.
Proof.
  intros Hsc. unfold init.
  destruct (create_kkt_spec d Hwf 0 0%Qc rho delta) as (km & E & Hr & Hc & Hst & Lkx & Hv & Hpd).
  unfold create_kkt_matrix. rewrite E. cbn [bind]. cbv zeta.
  set (k0 := mkskkt _ _ _ _ _ _ _ _ _ _ _ _ _ _ _ _ _).
  pose proof Hst as (Lkp & Hkp & Lki & _).
  assert (Hid : id_state d k0).
  { unfold id_state, k0. cbn [fk_pinv fk_PKi fk_kp fk_ki fk_P2K fk_AT2K fk_GT2K fk_Pdiag]. unfold fk_N, nnz. rewrite Lki. auto. }
  destruct (box_both_ok d k0 (koff d N) (dp_id d)) with (kx0 := fk_kx k0) as (kx & Eb & Lk & H1 & H2).
  - intros col Hcol. unfold k0. cbn [fk_pinv fk_kp]. unfold fk_N. apply dpos_id; auto.
  - intros; now apply dp_id_lt.
  - intros c c' _ _. apply dp_id_inj.
  - exact Hsc.
  - exact Lkx.
  - rewrite Eb. cbn [bind]. eexists; split; [reflexivity|]. split; [|split].
    + exact Hid.
    + reflexivity.
    + cbn [set_kx fk_kx]. apply (mat_form_set_diag d (Dg_init d rho delta) _ (vals (km_K km))); auto.
      * apply kval_mat_form; auto.
      * intros col Hcol. rewrite Dg_init_Dg_of by auto. destruct (Nat.ltb_spec col n) as [?Hy|?Hn].
        -- rewrite H1 by auto. rewrite <- box_sum_a_bdiag.
           destruct (kval_mat_form d Hwf rho delta (vals (km_K km)) Lkx Hv) as [_ Hm].
           change (fk_kx k0) with (vals (km_K km)). rewrite dp_id_eq. rewrite Hm by (auto; pose proof (klen_pos d col); lia).
           destruct (Nat.eqb_spec (S (klen d col - 1)) (klen d col)) as [?Hy|?Hn]; [|pose proof (klen_pos d col); lia].
           unfold k0. cbn [fk_z_lb_inv fk_s_lb fk_delta fk_z_ub_inv fk_s_ub unit_scal sc_z_lb_inv sc_s_lb sc_delta sc_z_ub_inv sc_s_ub]. fring.
        -- rewrite H2 by (intros c' Hc' Eq; apply dp_id_inj in Eq; lia).
           destruct (kval_mat_form d Hwf rho delta (vals (km_K km)) Lkx Hv) as [_ Hm].
           change (fk_kx k0) with (vals (km_K km)). rewrite dp_id_eq. rewrite Hm by (auto; pose proof (klen_pos d col); lia).
           destruct (Nat.eqb_spec (S (klen d col - 1)) (klen d col)) as [?Hy|?Hn]; [reflexivity|pose proof (klen_pos d col); lia].
      * intros q Hq. apply H2. intros c' Hc'. apply Hq. lia.
Qed.
End Top.

(* ================================================================ (c): update_scalings; what the canonical form denotes *)
Section Scalings.
Variable d : sdata.
Hypothesis Hwf : wf_sdata d.
Local Notation n := (sd_n d). Local Notation p := (sd_p d). Local Notation m := (sd_m d).
Local Notation N := (sd_n d + sd_p d + sd_m d).

Lemma id_state_set_scal k c : id_state d k -> id_state d (set_scal k c).
Proof. destruct k. exact (fun H => H). Qed.

(* apply_scalings on a canonical state gives the canonical state of the new scalings *)
Theorem apply_scalings_fresh c0 k c : fresh_form d c0 k -> scal_ok d c ->
  exists k', apply_scalings d k c = Ok k' /\ fresh_form d c k'.
Proof.
  intros (Hid & _ & Hmf) Hsc. unfold apply_scalings.
  assert (Esc : scal_of (set_scal k c) = c) by (destruct c; reflexivity).
  destruct (refresh_id d (set_scal k c) (Dg_of d (sys_sparse d c0))) as (kx & E & Hf).
  - now apply id_state_set_scal.
  - now rewrite Esc.
  - exact Hmf.
  - rewrite E. eexists; split; [reflexivity|]. now rewrite Esc in Hf.
Qed.

(* the scalings update_scalings stores *)
Definition new_scal (c0 : scal) (rho delta : F) (s s_lb s_ub zi zlbi zubi : Vec) : scal :=
  mkscal rho delta s (set_head (head (sd_nlb d) s_lb) (sc_s_lb c0)) (set_head (head (sd_nub d) s_ub) (sc_s_ub c0))
         zi (set_head zlbi (sc_z_lb_inv c0)) (set_head zubi (sc_z_ub_inv c0)).

Theorem update_scalings_fresh c0 k rho delta s s_lb s_ub z z_lb z_ub zi zlbi zubi :
  fresh_form d c0 k ->
  sd_nlb d <= length s_lb -> sd_nlb d <= length z_lb -> sd_nub d <= length s_ub -> sd_nub d <= length z_ub ->
  vinv z = Ok zi -> vinv (head (sd_nlb d) z_lb) = Ok zlbi -> vinv (head (sd_nub d) z_ub) = Ok zubi ->
  scal_ok d (new_scal c0 rho delta s s_lb s_ub zi zlbi zubi) ->
  exists k', update_scalings d k rho delta s s_lb s_ub z z_lb z_ub = Ok k' /\
             fresh_form d (new_scal c0 rho delta s s_lb s_ub zi zlbi zubi) k'.
Proof.
  intros Hf L1 L2 L3 L4 E1 E2 E3 Hsc. unfold update_scalings, chk_len.
  destruct (Nat.ltb_spec (length s_lb) (sd_nlb d)) as [?Hy|?Hn]; [lia|]. cbn [bind].
  destruct (Nat.ltb_spec (length z_lb) (sd_nlb d)) as [?Hy|?Hn]; [lia|]. cbn [bind].
  destruct (Nat.ltb_spec (length s_ub) (sd_nub d)) as [?Hy|?Hn]; [lia|]. cbn [bind].
  destruct (Nat.ltb_spec (length z_ub) (sd_nub d)) as [?Hy|?Hn]; [lia|]. cbn [bind].
  rewrite E1, E2, E3. cbn [bind].
  pose proof Hf as (_ & Esc & _). subst c0. apply (apply_scalings_fresh (scal_of k)); auto.
Qed.

(* the canonical form denotes K_full(data, scalings), is well formed, upper triangular, diagonal-last *)
Theorem fresh_form_denotes c k : fresh_form d c k ->
  wf_csc (fk_PKPt d k) = true /\ diag_is_last (fk_PKPt d k) /\ (upper_only (sd_P d) = true -> upper_only (fk_PKPt d k) = true) /\
  forall i j, i <= j -> j < N -> csc_get (fk_PKPt d k) i j = Kfull (sys_sparse d c) i j.
Proof.
  intros ((_ & _ & Hst & _) & _ & Hmf). pose proof Hmf as [Lkx _]. unfold fk_PKPt, fk_N.
  split; [apply (static_wf d Hwf _ _ _ _ _ Hst _ Lkx)|].
  split; [apply (static_diag_is_last d Hwf _ _ _ _ _ Hst _ Lkx)|].
  split; [apply (static_upper d Hwf _ _ _ _ _ Hst _ Lkx)|].
  apply (mat_form_denotes d Hwf _ _ _ (fk_P2K k) (fk_AT2K k) (fk_GT2K k)); auto.
Qed.
End Scalings.

(* ================================================================ (d): update_data *)
(* the value scatter loops, for an abstract composed map tgt = PKi o X_to_Ki *)
Section Scatter.
Variables (m2k pki : list nat) (L : nat) (tgt : nat -> nat) (cnt : nat).
Hypothesis Htgt : forall k, k < cnt -> k < length m2k /\ nth k m2k 0 < length pki /\ nth (nth k m2k 0) pki 0 = tgt k.
Hypothesis Htgt_lt : forall k, k < cnt -> tgt k < L.
Hypothesis Htgt_inj : forall k k', k < cnt -> k' < cnt -> tgt k = tgt k' -> k = k'.

Lemma get_tgt k : k < cnt -> (do q0 <- get m2k k ;; get pki q0) = Ok (tgt k).
Proof.
  intros Hk. destruct (Htgt k Hk) as (H1 & H2 & H3).
  rewrite (get_nth m2k k 0) by auto. cbn [bind]. rewrite (get_nth pki _ 0) by auto. now rewrite H3.
Qed.

Lemma scatter_vals_ok (src kx0 : Vec) : cnt <= length src -> length kx0 = L ->
  exists kx, scatter_vals m2k pki src cnt kx0 = Ok kx /\ length kx = L /\
    (forall k, k < cnt -> nth (tgt k) kx 0%Qc = nth k src 0%Qc) /\
    (forall q, (forall k, k < cnt -> tgt k <> q) -> nth q kx 0%Qc = nth q kx0 0%Qc).
Proof.
  intros Ls L0. unfold scatter_vals.
  destruct (for_range_ind (fun j (kx : Vec) => length kx = L /\
              (forall k, k < j -> nth (tgt k) kx 0%Qc = nth k src 0%Qc) /\
              (forall q, (forall k, k < j -> tgt k <> q) -> nth q kx 0%Qc = nth q kx0 0%Qc))
            0 cnt (fun k kx => do q0 <- get m2k k ;; do q <- get pki q0 ;; do v <- get src k ;; upd kx q v) kx0)
    as (kx & E & H1 & H2 & H3); try lia.
  - split; auto. split; [intros; lia|auto].
  - intros k kx [_ Hk] (Lk & Hk1 & Hk2). destruct (Htgt k Hk) as (T1 & T2 & T3).
    rewrite (get_nth m2k k 0) by auto. cbn [bind]. rewrite (get_nth pki _ 0) by auto. cbn [bind]. rewrite T3.
    rewrite (get_nth src k 0%Qc) by lia. cbn [bind].
    assert (tgt k < length kx) by (rewrite Lk; auto).
    rewrite upd_lset by auto. eexists; split; [reflexivity|]. split; [now rewrite lset_length|]. split.
    + intros k' Hk'. rewrite nth_lset by auto. destruct (Nat.eqb_spec (tgt k') (tgt k)) as [Eq|Ne].
      * apply Htgt_inj in Eq; try lia. now subst.
      * apply Hk1. destruct (Nat.eq_dec k' k); [subst; congruence|lia].
    + intros q Hq. rewrite nth_lset by auto. destruct (Nat.eqb_spec q (tgt k)) as [Eq|Ne].
      * exfalso. apply (Hq k); auto.
      * apply Hk2. intros k' Hk'. apply Hq. lia.
  - exists kx. auto.
Qed.
End Scatter.

(* a stored diagonal entry of P_utri can only be the last entry of its column (sorted row indices imply this) *)
Definition diag_only_last (P : csc F) : Prop :=
  forall j k, j < ncols P -> in_col P j k -> nth k (rowind P) 0 = j -> k = cp P (S j) - 1.

Section ScatterP.
Variable P : csc F.
Hypothesis HwP : wf_csc P = true.
Hypothesis Hdol : diag_only_last P.
Variables (p2k pki : list nat) (L : nat) (tgt : nat -> nat).
Local Notation cnt := (nnz P).
Hypothesis Htgt : forall k, k < cnt -> k < length p2k /\ nth k p2k 0 < length pki /\ nth (nth k p2k 0) pki 0 = tgt k.
Hypothesis Htgt_lt : forall k, k < cnt -> tgt k < L.
Hypothesis Htgt_inj : forall k k', k < cnt -> k' < cnt -> tgt k = tgt k' -> k = k'.

Lemma update_P_vals_ok (kx0 pdiag0 : Vec) : length kx0 = L -> length pdiag0 = ncols P ->
  exists kx pdiag, update_P_vals P p2k pki (kx0, pdiag0) = Ok (kx, pdiag) /\ length kx = L /\
    (forall k, k < cnt -> nth (tgt k) kx 0%Qc = nth k (vals P) 0%Qc) /\
    (forall q, (forall k, k < cnt -> tgt k <> q) -> nth q kx 0%Qc = nth q kx0 0%Qc) /\
    length pdiag = ncols P /\
    (forall j, j < ncols P -> nth j pdiag 0%Qc = if has_diag P j then nth (cp P (S j) - 1) (vals P) 0%Qc else nth j pdiag0 0%Qc).
Proof.
  intros L0 Lp0. unfold update_P_vals.
  pose (Inv := fun (b : nat) (st : Vec * Vec) =>
     length (fst st) = L /\
     (forall k, k < b -> nth (tgt k) (fst st) 0%Qc = nth k (vals P) 0%Qc) /\
     (forall q, (forall k, k < b -> tgt k <> q) -> nth q (fst st) 0%Qc = nth q kx0 0%Qc) /\
     length (snd st) = ncols P).
  destruct (for_range_ind (fun j (st : Vec * Vec) => Inv (cp P j) st /\
      (forall j', j' < j -> nth j' (snd st) 0%Qc = if has_diag P j' then nth (cp P (S j') - 1) (vals P) 0%Qc else nth j' pdiag0 0%Qc) /\
      (forall j', j <= j' -> nth j' (snd st) 0%Qc = nth j' pdiag0 0%Qc))
    0 (ncols P) (fun j st =>
      do lo <- get (colptr P) j ;; do kk <- get (colptr P) (S j) ;;
      for_range lo kk (fun k '(kx, pdiag) =>
        do q0 <- get p2k k ;; do q <- get pki q0 ;; do v <- get (vals P) k ;;
        do kx <- upd kx q v ;;
        do r <- get (rowind P) k ;;
        do pdiag <- (if j =? r then upd pdiag j v else Ok pdiag) ;;
        Ok (kx, pdiag)) st) (kx0, pdiag0)) as ([kx pdiag] & E & (I1 & I2 & I3 & I4) & H2 & H3); try lia.
  - unfold Inv. cbn [fst snd]. rewrite (cp_0 P HwP). repeat split; auto; intros; lia.
  - intros j [kx pdiag] [_ Hj] ((I1 & I2 & I3 & I4) & H2 & H3). cbn [fst snd] in *.
    rewrite (get_cp P HwP j) by lia. rewrite (get_cp P HwP (S j)) by lia. cbn [bind].
    assert (EcS : cp P (S j) = cp P j + clen P j) by (apply cp_S; auto).
    assert (Hnz : cp P (S j) <= nnz P) by (apply cp_le_nnz; auto; lia).
    destruct (for_range_ind (fun k (st : Vec * Vec) => Inv k st /\
        nth j (snd st) 0%Qc = (if has_diag P j && (k =? cp P (S j)) then nth (cp P (S j) - 1) (vals P) 0%Qc else nth j pdiag0 0%Qc) /\
        (forall j', j' <> j -> nth j' (snd st) 0%Qc = nth j' pdiag 0%Qc))
      (cp P j) (cp P (S j)) (fun k '(kx, pdiag) =>
        do q0 <- get p2k k ;; do q <- get pki q0 ;; do v <- get (vals P) k ;;
        do kx <- upd kx q v ;;
        do r <- get (rowind P) k ;;
        do pdiag <- (if j =? r then upd pdiag j v else Ok pdiag) ;;
        Ok (kx, pdiag)) (kx, pdiag)) as ([kx' pdiag'] & E' & (J1 & J2 & J3 & J4) & K2 & K3); try lia.
    + split; [unfold Inv; cbn [fst snd]; auto|]. cbn [fst snd]. split; [|auto].
      rewrite H3 by lia. unfold has_diag. destruct (Nat.ltb_spec 0 (clen P j)) as [?Hy|?Hn]; cbn [andb]; [|reflexivity].
      destruct (Nat.eqb_spec (cp P j) (cp P (S j))) as [?Hy|?Hn]; [lia|]. now rewrite andb_false_r.
    + intros k [kx1 pd1] Hk ((J1 & J2 & J3 & J4) & K2 & K3). cbn [fst snd] in *.
      assert (Hkc : k < nnz P) by lia. destruct (Htgt k Hkc) as (T1 & T2 & T3).
      rewrite (get_nth p2k k 0) by auto. cbn [bind]. rewrite (get_nth pki _ 0) by auto. cbn [bind]. rewrite T3.
      rewrite (get_nth (vals P) k 0%Qc) by (rewrite (vals_len P HwP); auto). cbn [bind].
      assert (tgt k < length kx1) by (rewrite J1; auto).
      rewrite upd_lset by auto. cbn [bind].
      rewrite (get_nth (rowind P) k 0) by (unfold nnz in Hkc; auto). cbn [bind].
      assert (Hkx : Inv (S k) (lset kx1 (tgt k) (nth k (vals P) 0%Qc), pd1) \/ True) by (right; auto).
      assert (HI : forall pd, length pd = ncols P -> Inv (S k) (lset kx1 (tgt k) (nth k (vals P) 0%Qc), pd)).
      { intros pd Lpd. unfold Inv. cbn [fst snd]. split; [now rewrite lset_length|]. split; [|split; auto].
        - intros k' Hk'. rewrite nth_lset by auto. destruct (Nat.eqb_spec (tgt k') (tgt k)) as [Eq|Ne].
          + apply Htgt_inj in Eq; try lia. now subst.
          + apply J2. destruct (Nat.eq_dec k' k); [subst; congruence|lia].
        - intros q Hq. rewrite nth_lset by auto. destruct (Nat.eqb_spec q (tgt k)) as [Eq|Ne].
          + exfalso. apply (Hq k); auto.
          + apply J3. intros k' Hk'. apply Hq. lia. }
      destruct (Nat.eqb_spec j (nth k (rowind P) 0)) as [Ej|Nj].
      * (* the diagonal entry: it is the last of the column *)
        assert (Ek : k = cp P (S j) - 1) by (apply Hdol; auto; unfold in_col; lia).
        assert (Hhd : has_diag P j = true).
        { unfold has_diag. apply andb_true_iff. split; [apply Nat.ltb_lt; lia|]. apply Nat.eqb_eq. rewrite <- Ek. auto. }
        rewrite upd_lset by lia. cbn [bind]. eexists; split; [reflexivity|]. cbn [fst snd].
        split; [apply HI; now rewrite lset_length|]. split.
        -- rewrite nth_lset by lia. rewrite Nat.eqb_refl. rewrite Hhd. cbn [andb].
           destruct (Nat.eqb_spec (S k) (cp P (S j))) as [?Hy|?Hn]; [|lia]. now rewrite <- Ek.
        -- intros j' Hj'. rewrite nth_lset by lia. destruct (Nat.eqb_spec j' j) as [?Hy|?Hn]; [congruence|]. now apply K3.
      * cbn [bind]. eexists; split; [reflexivity|]. cbn [fst snd].
        split; [apply HI; auto|]. split; [|auto].
        rewrite K2. destruct (Nat.eqb_spec k (cp P (S j))) as [?Hy|?Hn]; [lia|]. rewrite andb_false_r.
        destruct (Nat.eqb_spec (S k) (cp P (S j))) as [Es|Ns]; [|now rewrite andb_false_r].
        (* k is the last entry and it is not the diagonal *)
        unfold has_diag. replace (cp P (S j) - 1) with k by lia.
        destruct (Nat.eqb_spec (nth k (rowind P) 0) j) as [?Hy|?Hn]; [congruence|]. now rewrite andb_false_r.
    + unfold Vec in *. rewrite E'. eexists; split; [reflexivity|]. cbn [fst snd] in *.
      split; [unfold Inv; cbn [fst snd]; auto|]. split.
      * intros j' Hj'. destruct (Nat.eq_dec j' j) as [->|Hne].
        -- rewrite K2. rewrite Nat.eqb_refl. now rewrite andb_true_r.
        -- rewrite K3 by auto. apply H2. lia.
      * intros j' Hj'. rewrite K3 by lia. apply H3. lia.
  - cbn [fst snd] in *. rewrite (cp_last P HwP) in *. exists kx, pdiag. repeat split; auto.
Qed.
End ScatterP.

(* data with new values on the same pattern *)
Definition set_vals {V} (A : csc V) (vx : list V) : csc V := mkcsc (nrows A) (ncols A) (colptr A) (rowind A) vx.
Definition with_P (d : sdata) (px lbs ubs : Vec) : sdata :=
  mksdata (sd_n d) (sd_p d) (sd_m d) (set_vals (sd_P d) px) (sd_AT d) (sd_GT d) (sd_nlb d) (sd_nub d) (sd_lbidx d) (sd_ubidx d) lbs ubs.
Definition with_AT (d : sdata) (ax : Vec) : sdata :=
  mksdata (sd_n d) (sd_p d) (sd_m d) (sd_P d) (set_vals (sd_AT d) ax) (sd_GT d) (sd_nlb d) (sd_nub d) (sd_lbidx d) (sd_ubidx d) (sd_lbs d) (sd_ubs d).
Definition with_GT (d : sdata) (gx : Vec) : sdata :=
  mksdata (sd_n d) (sd_p d) (sd_m d) (sd_P d) (sd_AT d) (set_vals (sd_GT d) gx) (sd_nlb d) (sd_nub d) (sd_lbidx d) (sd_ubidx d) (sd_lbs d) (sd_ubs d).

Lemma wf_set_vals {V} (A : csc V) vx : wf_csc A = true -> length vx = nnz A -> wf_csc (set_vals A vx) = true.
Proof.
  unfold wf_csc, set_vals, nnz. cbn [colptr ncols nrows rowind vals]. rewrite !andb_true_iff.
  intros (((((H1 & H2) & H3) & H4) & H5) & H6) L. repeat split; auto. now apply Nat.eqb_eq.
Qed.

Lemma klen_with_P d px lbs ubs c : klen (with_P d px lbs ubs) c = klen d c. Proof. reflexivity. Qed.
Lemma klen_with_AT d ax c : klen (with_AT d ax) c = klen d c. Proof. reflexivity. Qed.
Lemma klen_with_GT d gx c : klen (with_GT d gx) c = klen d c. Proof. reflexivity. Qed.
Lemma koff_with_P d px lbs ubs c : koff (with_P d px lbs ubs) c = koff d c.
Proof. induction c; [reflexivity|]. cbn [koff]. now rewrite IHc, klen_with_P. Qed.
Lemma koff_with_AT d ax c : koff (with_AT d ax) c = koff d c.
Proof. induction c; [reflexivity|]. cbn [koff]. now rewrite IHc, klen_with_AT. Qed.
Lemma koff_with_GT d gx c : koff (with_GT d gx) c = koff d c.
Proof. induction c; [reflexivity|]. cbn [koff]. now rewrite IHc, klen_with_GT. Qed.

Lemma static_with_P d px lbs ubs kp ki p2k a2k g2k :
  static_spec d kp ki p2k a2k g2k -> static_spec (with_P d px lbs ubs) kp ki p2k a2k g2k.
Proof.
  unfold static_spec. cbn [with_P sd_n sd_p sd_m sd_P sd_AT sd_GT].
  setoid_rewrite koff_with_P. setoid_rewrite klen_with_P. exact (fun H => H).
Qed.
Lemma static_with_AT d ax kp ki p2k a2k g2k :
  static_spec d kp ki p2k a2k g2k -> static_spec (with_AT d ax) kp ki p2k a2k g2k.
Proof.
  unfold static_spec. cbn [with_AT sd_n sd_p sd_m sd_P sd_AT sd_GT].
  setoid_rewrite koff_with_AT. setoid_rewrite klen_with_AT. exact (fun H => H).
Qed.
Lemma static_with_GT d gx kp ki p2k a2k g2k :
  static_spec d kp ki p2k a2k g2k -> static_spec (with_GT d gx) kp ki p2k a2k g2k.
Proof.
  unfold static_spec. cbn [with_GT sd_n sd_p sd_m sd_P sd_AT sd_GT].
  setoid_rewrite koff_with_GT. setoid_rewrite klen_with_GT. exact (fun H => H).
Qed.

Lemma wf_with_P d px lbs ubs : wf_sdata d -> length px = nnz (sd_P d) -> wf_sdata (with_P d px lbs ubs).
Proof. intros (A1&A2&A3&A4&A5&A6&A7&A8&A9) L. unfold wf_sdata. cbn [with_P sd_n sd_p sd_m sd_P sd_AT sd_GT set_vals nrows ncols]. repeat split; auto. now apply wf_set_vals. Qed.
Lemma wf_with_AT d ax : wf_sdata d -> length ax = nnz (sd_AT d) -> wf_sdata (with_AT d ax).
Proof. intros (A1&A2&A3&A4&A5&A6&A7&A8&A9) L. unfold wf_sdata. cbn [with_AT sd_n sd_p sd_m sd_P sd_AT sd_GT set_vals nrows ncols]. repeat split; auto. now apply wf_set_vals. Qed.
Lemma wf_with_GT d gx : wf_sdata d -> length gx = nnz (sd_GT d) -> wf_sdata (with_GT d gx).
Proof. intros (A1&A2&A3&A4&A5&A6&A7&A8&A9) L. unfold wf_sdata. cbn [with_GT sd_n sd_p sd_m sd_P sd_AT sd_GT set_vals nrows ncols]. repeat split; auto. now apply wf_set_vals. Qed.

Lemma id_state_set_kx d k kx : id_state d k -> id_state d (set_kx k kx).
Proof. destruct k. exact (fun H => H). Qed.
Lemma scal_of_set_kx k kx : scal_of (set_kx k kx) = scal_of k.
Proof. destruct k. reflexivity. Qed.
Lemma fk_kx_set_kx k kx : fk_kx (set_kx k kx) = kx.
Proof. destruct k. reflexivity. Qed.
Lemma id_state_with_AT d ax k : id_state d k -> id_state (with_AT d ax) k.
Proof.
  intros (A & B & C & D). split; [exact A|]. split; [rewrite koff_with_AT; exact B|]. split; [now apply static_with_AT|exact D].
Qed.
Lemma id_state_with_GT d gx k : id_state d k -> id_state (with_GT d gx) k.
Proof.
  intros (A & B & C & D). split; [exact A|]. split; [rewrite koff_with_GT; exact B|]. split; [now apply static_with_GT|exact D].
Qed.

Section DataSteps.
Variable d : sdata.
Hypothesis Hwf : wf_sdata d.
Local Notation n := (sd_n d). Local Notation p := (sd_p d). Local Notation m := (sd_m d).
Local Notation P := (sd_P d). Local Notation AT := (sd_AT d). Local Notation GT := (sd_GT d).
Local Notation N := (sd_n d + sd_p d + sd_m d).
Local Notation koff := (koff d). Local Notation klen := (klen d).

Let HwP : wf_csc P = true. Proof. apply Hwf. Qed.
Let HwA : wf_csc AT = true. Proof. apply Hwf. Qed.
Let HwG : wf_csc GT = true. Proof. apply Hwf. Qed.
Let HcP : ncols P = n. Proof. apply Hwf. Qed.
Let HcA : ncols AT = p. Proof. apply Hwf. Qed.
Let HcG : ncols GT = m. Proof. apply Hwf. Qed.

Lemma nth_seq0 L q : q < L -> nth q (seq 0 L) 0 = q.
Proof. intros. now rewrite seq_nth. Qed.

(* a position that is not the last of its column and lies in the AT block is the image of an AT entry *)
Lemma nonlast_AT c i : n <= c < n + p -> i < klen c -> S i <> klen c -> i < clen AT (c - n).
Proof. intros Hc Hi Hn. replace c with (n + (c - n)) in Hi, Hn by lia. rewrite klen_AT in Hi, Hn by lia. lia. Qed.
Lemma nonlast_GT c i : n + p <= c < N -> i < klen c -> S i <> klen c -> i < clen GT (c - n - p).
Proof. intros Hc Hi Hn. replace c with (n + p + (c - n - p)) in Hi, Hn by lia. rewrite klen_GT in Hi, Hn by lia. lia. Qed.
Lemma nonlast_P c i : c < n -> i < klen c -> S i <> klen c -> i < clen P c.
Proof. intros Hc Hi Hn. rewrite klen_P in Hi, Hn by auto. destruct (has_diag P c); lia. Qed.

Theorem update_data_A_fresh c k ax : fresh_form d c k -> length ax = nnz AT ->
  exists k', update_data_A (with_AT d ax) k = Ok k' /\ fresh_form (with_AT d ax) c k'.
Proof.
  intros ((Epinv & Epki & Hst & Hpd) & Esc & Hmf) Lax. pose proof Hmf as [Lkx Hv].
  pose proof Hst as (_ & _ & _ & _ & _ & _ & La & Ha & _).
  unfold update_data_A. cbn [with_AT sd_AT set_vals vals nnz rowind]. rewrite Epki.
  destruct (scatter_vals_ok (fk_AT2K k) (seq 0 (koff N)) (koff N) (fun kk => nth kk (fk_AT2K k) 0) (length (rowind AT))) with (src := ax) (kx0 := fk_kx k)
    as (kx & E & Lk & H1 & H2); auto; try (unfold nnz in *; lia).
  - intros kk Hkk. destruct (pos_decomp AT HwA kk Hkk) as (l & i & Hl & Hi & ->). rewrite HcA in Hl.
    destruct (a2k_points d Hwf _ _ _ _ _ Hst _ Lkx l i Hl Hi) as (Q1 & _). unfold nnz in Q1. cbn [rowind] in Q1.
    destruct Hst as (_ & _ & Lki & _). rewrite Lki in Q1.
    split; [unfold nnz in *; lia|]. rewrite seq_length. split; [exact Q1|]. now apply nth_seq0.
  - intros kk Hkk. destruct (pos_decomp AT HwA kk Hkk) as (l & i & Hl & Hi & ->). rewrite HcA in Hl.
    destruct (a2k_points d Hwf _ _ _ _ _ Hst _ Lkx l i Hl Hi) as (Q1 & _). unfold nnz in Q1. cbn [rowind] in Q1.
    destruct Hst as (_ & _ & Lki & _). now rewrite Lki in Q1.
  - apply (a2k_inj d Hwf _ _ _ _ _ Hst _ Lkx).
  - change (nnz (set_vals AT ax)) with (length (rowind AT)). rewrite E. cbn [bind]. eexists; split; [reflexivity|]. split; [|split].
    + apply id_state_set_kx. apply id_state_with_AT. exact (conj Epinv (conj Epki (conj Hst Hpd))).
    + rewrite scal_of_set_kx. exact Esc.
    + rewrite fk_kx_set_kx.
      split; [rewrite koff_with_AT; exact Lk|]. intros c0 i Hc0 Hi. rewrite koff_with_AT, klen_with_AT in *.
      cbn [with_AT sd_n sd_p sd_m] in Hc0.
      destruct (Nat.eqb_spec (S i) (klen c0)) as [El|Nl].
      * (* last entry: untouched *)
        rewrite H2. { rewrite Hv by auto. destruct (Nat.eqb_spec (S i) (klen c0)) as [?Hy|?Hn]; [reflexivity|lia]. }
        intros kk Hkk Eq. destruct (pos_decomp AT HwA kk Hkk) as (l & i' & Hl & Hi' & ->). rewrite HcA in Hl.
        rewrite Ha in Eq by auto. apply koff_unique in Eq as [<- <-]; auto; rewrite klen_AT in * by auto; lia.
      * destruct (Nat.ltb_spec c0 n) as [?Hy|?Hn]; [|destruct (Nat.ltb_spec c0 (n + p)) as [?Hy|?Hn]].
        -- rewrite H2. { rewrite Hv by auto. destruct (Nat.eqb_spec (S i) (klen c0)) as [?Hy|?Hn]; [lia|].
                          unfold offval. cbn [with_AT sd_n sd_p sd_P]. destruct (Nat.ltb_spec c0 n) as [?Hy|?Hn]; [reflexivity|lia]. }
           intros kk Hkk Eq. destruct (pos_decomp AT HwA kk Hkk) as (l & i' & Hl & Hi' & ->). rewrite HcA in Hl.
           rewrite Ha in Eq by auto. apply koff_unique in Eq as [<- <-]; auto; try lia. rewrite klen_AT by auto; lia.
        -- pose proof (nonlast_AT c0 i ltac:(lia) Hi Nl) as Hi'.
           replace (koff c0 + i) with (nth (cp AT (c0 - n) + i) (fk_AT2K k) 0)
             by (rewrite Ha by (auto; lia); f_equal; f_equal; lia).
           rewrite H1 by (apply (cp_pos_lt AT HwA); auto; lia).
           unfold offval. cbn [with_AT sd_n sd_p sd_AT set_vals vals colptr cp].
           destruct (Nat.ltb_spec c0 n) as [?Hy|?Hn]; [lia|]. destruct (Nat.ltb_spec c0 (n + p)) as [?Hy|?Hn]; [reflexivity|lia].
        -- rewrite H2. { rewrite Hv by auto. destruct (Nat.eqb_spec (S i) (klen c0)) as [?Hy|?Hn]; [lia|].
                          unfold offval. cbn [with_AT sd_n sd_p sd_GT]. destruct (Nat.ltb_spec c0 n) as [?Hy|?Hn]; [lia|].
                          destruct (Nat.ltb_spec c0 (n + p)) as [?Hy|?Hn]; [lia|reflexivity]. }
           intros kk Hkk Eq. destruct (pos_decomp AT HwA kk Hkk) as (l & i' & Hl & Hi' & ->). rewrite HcA in Hl.
           rewrite Ha in Eq by auto. apply koff_unique in Eq as [<- <-]; auto; try lia. rewrite klen_AT by auto; lia.
Qed.

Theorem update_data_G_fresh c k gx : fresh_form d c k -> length gx = nnz GT ->
  exists k', update_data_G (with_GT d gx) k = Ok k' /\ fresh_form (with_GT d gx) c k'.
Proof.
  intros ((Epinv & Epki & Hst & Hpd) & Esc & Hmf) Lgx. pose proof Hmf as [Lkx Hv].
  pose proof Hst as (_ & _ & _ & _ & _ & _ & _ & _ & La & Ha).
  unfold update_data_G. cbn [with_GT sd_GT set_vals vals nnz rowind]. rewrite Epki.
  destruct (scatter_vals_ok (fk_GT2K k) (seq 0 (koff N)) (koff N) (fun kk => nth kk (fk_GT2K k) 0) (length (rowind GT))) with (src := gx) (kx0 := fk_kx k)
    as (kx & E & Lk & H1 & H2); auto; try (unfold nnz in *; lia).
  - intros kk Hkk. destruct (pos_decomp GT HwG kk Hkk) as (l & i & Hl & Hi & ->). rewrite HcG in Hl.
    destruct (g2k_points d Hwf _ _ _ _ _ Hst _ Lkx l i Hl Hi) as (Q1 & _). unfold nnz in Q1. cbn [rowind] in Q1.
    destruct Hst as (_ & _ & Lki & _). rewrite Lki in Q1.
    split; [unfold nnz in *; lia|]. rewrite seq_length. split; [exact Q1|]. now apply nth_seq0.
  - intros kk Hkk. destruct (pos_decomp GT HwG kk Hkk) as (l & i & Hl & Hi & ->). rewrite HcG in Hl.
    destruct (g2k_points d Hwf _ _ _ _ _ Hst _ Lkx l i Hl Hi) as (Q1 & _). unfold nnz in Q1. cbn [rowind] in Q1.
    destruct Hst as (_ & _ & Lki & _). now rewrite Lki in Q1.
  - apply (g2k_inj d Hwf _ _ _ _ _ Hst _ Lkx).
  - change (nnz (set_vals GT gx)) with (length (rowind GT)). rewrite E. cbn [bind]. eexists; split; [reflexivity|]. split; [|split].
    + apply id_state_set_kx. apply id_state_with_GT. exact (conj Epinv (conj Epki (conj Hst Hpd))).
    + rewrite scal_of_set_kx. exact Esc.
    + rewrite fk_kx_set_kx.
      split; [rewrite koff_with_GT; exact Lk|]. intros c0 i Hc0 Hi. rewrite koff_with_GT, klen_with_GT in *.
      cbn [with_GT sd_n sd_p sd_m] in Hc0.
      destruct (Nat.eqb_spec (S i) (klen c0)) as [El|Nl].
      * (* last entry: untouched *)
        rewrite H2. { rewrite Hv by auto. destruct (Nat.eqb_spec (S i) (klen c0)) as [?Hy|?Hn]; [reflexivity|lia]. }
        intros kk Hkk Eq. destruct (pos_decomp GT HwG kk Hkk) as (l & i' & Hl & Hi' & ->). rewrite HcG in Hl.
        rewrite Ha in Eq by auto. apply koff_unique in Eq as [<- <-]; auto; rewrite klen_GT in * by auto; lia.
      * destruct (Nat.ltb_spec c0 n) as [?Hy|?Hn]; [|destruct (Nat.ltb_spec c0 (n + p)) as [?Hy|?Hn]].
        -- rewrite H2. { rewrite Hv by auto. destruct (Nat.eqb_spec (S i) (klen c0)) as [?Hy|?Hn]; [lia|].
                          unfold offval. cbn [with_GT sd_n sd_p sd_P]. destruct (Nat.ltb_spec c0 n) as [?Hy|?Hn]; [reflexivity|lia]. }
           intros kk Hkk Eq. destruct (pos_decomp GT HwG kk Hkk) as (l & i' & Hl & Hi' & ->). rewrite HcG in Hl.
           rewrite Ha in Eq by auto. apply koff_unique in Eq as [<- <-]; auto; try lia. rewrite klen_GT by auto; lia.
        -- rewrite H2. { rewrite Hv by auto. destruct (Nat.eqb_spec (S i) (klen c0)) as [?Hy|?Hn]; [lia|].
                          unfold offval. cbn [with_GT sd_n sd_p sd_AT]. destruct (Nat.ltb_spec c0 n) as [?Hy|?Hn]; [lia|].
                          destruct (Nat.ltb_spec c0 (n + p)) as [?Hy|?Hn]; [reflexivity|lia]. }
           intros kk Hkk Eq. destruct (pos_decomp GT HwG kk Hkk) as (l & i' & Hl & Hi' & ->). rewrite HcG in Hl.
           rewrite Ha in Eq by auto. apply koff_unique in Eq as [<- <-]; auto; try lia. rewrite klen_GT by auto; lia.
        -- pose proof (nonlast_GT c0 i ltac:(lia) Hi Nl) as Hi'.
           replace (koff c0 + i) with (nth (cp GT (c0 - n - p) + i) (fk_GT2K k) 0)
             by (rewrite Ha by (auto; lia); f_equal; f_equal; lia).
           rewrite H1 by (apply (cp_pos_lt GT HwG); auto; lia).
           unfold offval. cbn [with_GT sd_n sd_p sd_GT set_vals vals colptr cp].
           destruct (Nat.ltb_spec c0 n) as [?Hy|?Hn]; [lia|]. destruct (Nat.ltb_spec c0 (n + p)) as [?Hy|?Hn]; [lia|reflexivity].
Qed.

Lemma id_state_with_P px lbs ubs k kx pdiag : id_state d k -> pdiag_spec (with_P d px lbs ubs) pdiag ->
  id_state (with_P d px lbs ubs) (set_kx_pdiag k kx pdiag).
Proof.
  intros (A & B & C & D) Hp. destruct k. cbn in *.
  split; [exact A|]. split; [rewrite koff_with_P; exact B|]. split; [now apply static_with_P|exact Hp].
Qed.

Theorem update_data_P_fresh c k px lbs ubs : diag_only_last P -> fresh_form d c k -> length px = nnz P ->
  scal_ok (with_P d px lbs ubs) c ->
  exists k', update_data_P (with_P d px lbs ubs) k = Ok k' /\ fresh_form (with_P d px lbs ubs) c k'.
Proof.
  intros Hdol ((Epinv & Epki & Hst & Hpd) & Esc & Hmf) Lpx Hsc. pose proof Hmf as [Lkx Hv].
  pose proof Hst as (Lkp & Hkp & Lki & _ & Lp & Hp & _). pose proof Hpd as [Lpd Hpd'].
  set (d1 := with_P d px lbs ubs).
  assert (HwP1 : wf_csc (set_vals P px) = true) by (apply wf_set_vals; auto).
  unfold update_data_P. change (sd_P d1) with (set_vals P px). rewrite Epki.
  destruct (update_P_vals_ok (set_vals P px) HwP1 Hdol (fk_P2K k) (seq 0 (koff N)) (koff N) (fun kk => nth kk (fk_P2K k) 0)) with (kx0 := fk_kx k) (pdiag0 := fk_Pdiag k)
    as (kx1 & pd1 & E1 & L1 & H1 & H1' & Lpd1 & Hpd1); auto.
  - intros kk Hkk. change (nnz (set_vals P px)) with (nnz P) in Hkk.
    destruct (pos_decomp P HwP kk Hkk) as (j & i & Hj & Hi & ->). rewrite HcP in Hj.
    destruct (p2k_points d Hwf _ _ _ _ _ Hst _ Lkx j i Hj Hi) as (Q1 & _). unfold nnz in Q1. cbn [rowind] in Q1. rewrite Lki in Q1.
    split; [unfold nnz in *; lia|]. rewrite seq_length. split; [exact Q1|]. now apply nth_seq0.
  - intros kk Hkk. change (nnz (set_vals P px)) with (nnz P) in Hkk.
    destruct (pos_decomp P HwP kk Hkk) as (j & i & Hj & Hi & ->). rewrite HcP in Hj.
    destruct (p2k_points d Hwf _ _ _ _ _ Hst _ Lkx j i Hj Hi) as (Q1 & _). unfold nnz in Q1. cbn [rowind] in Q1. now rewrite Lki in Q1.
  - apply (p2k_inj d Hwf _ _ _ _ _ Hst _ Lkx).
  - cbn [set_vals ncols]. rewrite HcP. exact Lpd.
  - unfold Vec in *. rewrite E1. cbn [bind]. cbv zeta.
    cbn [set_vals ncols vals] in Lpd1, Hpd1, H1. change (nnz (set_vals P px)) with (nnz P) in H1, H1'.
    assert (Hpd1s : pdiag_spec d1 pd1).
    { split; [rewrite Lpd1; exact HcP|]. intros j Hj. rewrite Hpd1 by (rewrite HcP; exact Hj).
      change (has_diag (sd_P d1) j) with (has_diag P j). change (has_diag (set_vals P px) j) with (has_diag P j).
      destruct (has_diag P j) eqn:Eh; [reflexivity|].
      rewrite Hpd' by auto. now rewrite Eh. }
    set (k1 := set_kx_pdiag k kx1 pd1).
    assert (Hid1 : id_state d1 k1) by (apply id_state_with_P; auto; exact (conj Epinv (conj Epki (conj Hst Hpd)))).
    assert (Esc1 : scal_of k1 = c) by (unfold k1; destruct k; exact Esc).
    assert (Ekx1 : fk_kx k1 = kx1) by (unfold k1; destruct k; reflexivity).
    assert (Epd1 : fk_Pdiag k1 = pd1) by (unfold k1; destruct k; reflexivity).
    assert (Hdp1 : forall col, col < N -> dpos (fk_pinv k1) (fk_kp k1) col = Ok (dp_id d col)).
    { intros col Hcol. replace (fk_pinv k1) with (seq 0 N) by (unfold k1; destruct k; symmetry; exact Epinv).
      replace (fk_kp k1) with (fk_kp k) by (unfold k1; destruct k; reflexivity). apply dpos_id; auto. }
    unfold update_kkt_cost_scalings. rewrite Ekx1, Epd1.
    destruct (cost_scalings_ok (fk_pinv k1) (fk_kp k1) N (koff N) (dp_id d) Hdp1 (fun col H => dp_id_lt d col H) (fun c c' _ _ => dp_id_inj d c c')
                n pd1 (fk_rho k1) kx1) as (kx2 & E2 & L2 & H2 & H2'); try lia; try (rewrite Lpd1; exact HcP); try exact L1.
    change (sd_n d1) with n. rewrite E2. cbn [bind].
    destruct (box_both_ok d1 k1 (koff N) (dp_id d) Hdp1 (fun col H => dp_id_lt d col H) (fun c c' _ _ => dp_id_inj d c c')) with (kx0 := kx2)
      as (kx3 & E3 & L3 & H3 & H3'); auto.
    { now rewrite Esc1. }
    change (sd_n d1) with n in H3, H3'.
    rewrite E3. cbn [bind]. eexists; split; [reflexivity|]. split; [|split].
    + now apply id_state_set_kx.
    + now rewrite scal_of_set_kx.
    + rewrite fk_kx_set_kx. split; [unfold d1; rewrite koff_with_P; exact L3|]. intros c0 i Hc0 Hi.
      unfold d1 in Hc0, Hi |- *. rewrite ?koff_with_P, ?klen_with_P in *. change (sd_n (with_P d px lbs ubs) + sd_p (with_P d px lbs ubs) + sd_m (with_P d px lbs ubs)) with N in Hc0. fold d1.
      assert (Hnd : forall kk, kk < nnz P -> forall col, col >= n -> col < N -> nth kk (fk_P2K k) 0 <> dp_id d col).
      { intros kk Hkk col Hc1 Hc2 Eq. destruct (pos_decomp P HwP kk Hkk) as (j & i' & Hj & Hi' & ->). rewrite HcP in Hj.
        rewrite Hp in Eq by auto. rewrite dp_id_eq in Eq. pose proof (clen_le_klen_P d j Hj). pose proof (klen_pos d col).
        apply koff_unique in Eq as [-> _]; auto; lia. }
      destruct (Nat.eqb_spec (S i) (klen c0)) as [El|Nl].
      * replace (koff c0 + i) with (dp_id d c0) by (rewrite dp_id_eq; lia).
        destruct (Nat.ltb_spec c0 n) as [?Hy|?Hn].
        -- rewrite H3 by auto. rewrite H2 by auto.
           transitivity (Dg_code d1 k1 pd1 c0).
           ++ unfold Dg_code. change (sd_n d1) with n. destruct (Nat.ltb_spec c0 n) as [?Hy|?Hn]; [reflexivity|lia].
           ++ rewrite (Dg_code_eq d1 k1 pd1 c0 Hpd1s Hc0), Esc1. reflexivity.
        -- rewrite H3' by (intros c' Hc' Eq; apply dp_id_inj in Eq; lia).
           rewrite H2' by (intros c' Hc' Eq; apply dp_id_inj in Eq; lia).
           rewrite H1' by (intros kk Hkk Eq; apply (Hnd kk Hkk c0); auto; lia).
           rewrite dp_id_eq. rewrite Hv by (auto; pose proof (klen_pos d c0); lia).
           destruct (Nat.eqb_spec (S (klen c0 - 1)) (klen c0)) as [?Hy|?Hn]; [|pose proof (klen_pos d c0); lia].
           unfold Dg_of. change (sd_n d1) with n. change (sd_p d1) with p.
           destruct (Nat.ltb_spec c0 n) as [?Hy|?Hn]; [lia|]. destruct (Nat.ltb_spec c0 (n + p)) as [?Hy|?Hn]; reflexivity.
      * assert (Hnl : forall col, col < N -> dp_id d col <> koff c0 + i).
        { intros col Hcol Eq. rewrite dp_id_eq in Eq. pose proof (klen_pos d col). apply koff_unique in Eq as [-> Eq]; auto; lia. }
        rewrite H3' by (intros c' Hc'; apply Hnl; lia). rewrite H2' by (intros c' Hc'; apply Hnl; lia).
        destruct (Nat.ltb_spec c0 n) as [?Hy|?Hn].
        -- pose proof (nonlast_P c0 i Hy Hi Nl) as Hi'.
           replace (koff c0 + i) with (nth (cp P c0 + i) (fk_P2K k) 0) by (now rewrite Hp by auto).
           rewrite H1 by (apply (cp_pos_lt P HwP); auto; lia).
           unfold offval. change (sd_n d1) with n. destruct (Nat.ltb_spec c0 n) as [?Hy|?Hn]; [reflexivity|lia].
        -- rewrite H1'.
           { rewrite Hv by auto. destruct (Nat.eqb_spec (S i) (klen c0)) as [?Hy|?Hn]; [lia|].
             unfold offval. change (sd_n d1) with n. change (sd_p d1) with p.
             destruct (Nat.ltb_spec c0 n) as [?Hy|?Hn]; [lia|]. destruct (Nat.ltb_spec c0 (n + p)) as [?Hy|?Hn]; reflexivity. }
           intros kk Hkk Eq. destruct (pos_decomp P HwP kk Hkk) as (j & i' & Hj & Hi' & ->). rewrite HcP in Hj.
           rewrite Hp in Eq by auto. pose proof (clen_le_klen_P d j Hj). apply koff_unique in Eq as [-> _]; auto; lia.
Qed.
End DataSteps.

(* ================================================================ uniqueness of the canonical form; "fresh" *)
Lemma list_nat_ext (l l' : list nat) : length l = length l' -> (forall i, i < length l -> nth i l 0 = nth i l' 0) -> l = l'.
Proof. intros. now apply (nth_ext l l' 0 0). Qed.

Lemma static_spec_unique d : wf_sdata d -> forall kp ki p2k a2k g2k kp' ki' p2k' a2k' g2k',
  static_spec d kp ki p2k a2k g2k -> static_spec d kp' ki' p2k' a2k' g2k' ->
  kp = kp' /\ ki = ki' /\ p2k = p2k' /\ a2k = a2k' /\ g2k = g2k'.
Proof.
  intros (HwP & _ & HcP & HwA & _ & HcA & HwG & _ & HcG) kp ki p2k a2k g2k kp' ki' p2k' a2k' g2k'
         (A1 & A2 & A3 & A4 & A5 & A6 & A7 & A8 & A9 & A10) (B1 & B2 & B3 & B4 & B5 & B6 & B7 & B8 & B9 & B10).
  split; [|split; [|split; [|split]]].
  - apply list_nat_ext; [congruence|]. intros i Hi. rewrite A2, B2 by lia. reflexivity.
  - apply list_nat_ext; [congruence|]. intros q Hq. rewrite A3 in Hq.
    destruct (koff_decomp d _ q Hq) as (c & i & Hc & Hi & ->). rewrite A4, B4 by auto. reflexivity.
  - apply list_nat_ext; [congruence|]. intros k Hk. rewrite A5 in Hk.
    destruct (pos_decomp _ HwP k Hk) as (j & i & Hj & Hi & ->). rewrite HcP in Hj. rewrite A6, B6 by auto. reflexivity.
  - apply list_nat_ext; [congruence|]. intros k Hk. rewrite A7 in Hk.
    destruct (pos_decomp _ HwA k Hk) as (j & i & Hj & Hi & ->). rewrite HcA in Hj. rewrite A8, B8 by auto. reflexivity.
  - apply list_nat_ext; [congruence|]. intros k Hk. rewrite A9 in Hk.
    destruct (pos_decomp _ HwG k Hk) as (j & i & Hj & Hi & ->). rewrite HcG in Hj. rewrite A10, B10 by auto. reflexivity.
Qed.

Theorem fresh_form_unique d c k k' : wf_sdata d -> fresh_form d c k -> fresh_form d c k' -> k = k'.
Proof.
  intros Hwf ((A1 & A2 & A3 & [A4 A5]) & A6 & A7) ((B1 & B2 & B3 & [B4 B5]) & B6 & B7).
  destruct (static_spec_unique d Hwf _ _ _ _ _ _ _ _ _ _ A3 B3) as (E1 & E2 & E3 & E4 & E5).
  pose proof (mat_form_unique d _ _ _ A7 B7) as E6.
  assert (E7 : fk_Pdiag k = fk_Pdiag k').
  { apply (nth_ext _ _ (0%Qc : F) (0%Qc : F)); [congruence|]. intros j Hj. rewrite A4 in Hj. rewrite A5, B5 by auto. reflexivity. }
  destruct k, k'. simpl in *.
  subst c. injection B6 as -> -> -> -> -> -> -> ->. subst. reflexivity.
Qed.

(* the state a new object reaches when it is given the scalings c right after init *)
Definition fresh (d : sdata) (c : scal) : res skkt :=
  do k0 <- init d (sc_rho c) (sc_delta c) None ;; apply_scalings d k0 c.

Theorem fresh_ok d c : wf_sdata d -> scal_ok d c -> scal_ok d (unit_scal d (sc_rho c) (sc_delta c)) ->
  exists k, fresh d c = Ok k /\ fresh_form d c k.
Proof.
  intros Hwf Hsc Hu. unfold fresh.
  destruct (init_fresh d Hwf (sc_rho c) (sc_delta c) Hu) as (k0 & E0 & F0). rewrite E0. cbn [bind].
  apply (apply_scalings_fresh d _ k0 c F0 Hsc).
Qed.

Lemma with_P_id d : with_P d (vals (sd_P d)) (sd_lbs d) (sd_ubs d) = d.
Proof. destruct d as [? ? ? [? ? ? ? ?] ? ? ? ? ? ? ? ?]. reflexivity. Qed.
Lemma with_AT_id d : with_AT d (vals (sd_AT d)) = d.
Proof. destruct d as [? ? ? ? [? ? ? ? ?] ? ? ? ? ? ? ?]. reflexivity. Qed.
Lemma with_GT_id d : with_GT d (vals (sd_GT d)) = d.
Proof. destruct d as [? ? ? ? ? [? ? ? ? ?] ? ? ? ? ? ?]. reflexivity. Qed.

(* new data on the pattern of d *)
Definition with_all (d : sdata) (px ax gx lbs ubs : Vec) : sdata := with_GT (with_AT (with_P d px lbs ubs) ax) gx.

(* the mask covers the changed blocks (a change of the box scalings is covered by the P bit) *)
Definition covers (mask : nat) (d : sdata) (px ax gx lbs ubs : Vec) : Prop :=
  (Nat.testbit mask 0 = false -> px = vals (sd_P d) /\ lbs = sd_lbs d /\ ubs = sd_ubs d) /\
  (Nat.testbit mask 1 = false -> ax = vals (sd_AT d)) /\
  (Nat.testbit mask 2 = false -> gx = vals (sd_GT d)).

(* (d) *)
Theorem update_data_full_fresh d c k mask px ax gx lbs ubs :
  wf_sdata d -> diag_only_last (sd_P d) -> fresh_form d c k ->
  length px = nnz (sd_P d) -> length ax = nnz (sd_AT d) -> length gx = nnz (sd_GT d) ->
  covers mask d px ax gx lbs ubs ->
  scal_ok (with_P d px lbs ubs) c ->
  exists k', update_data (with_all d px ax gx lbs ubs) k mask = Ok k' /\ fresh_form (with_all d px ax gx lbs ubs) c k'.
Proof.
  intros Hwf Hdol Hf Lp La Lg (C0 & C1 & C2) Hsc. unfold update_data, with_all.
  set (d1 := with_P d px lbs ubs). set (d2 := with_AT d1 ax). set (d3 := with_GT d2 gx).
  assert (Hwf1 : wf_sdata d1) by (apply wf_with_P; auto).
  assert (Hwf2 : wf_sdata d2) by (apply wf_with_AT; auto).
  (* P *)
  assert (S1 : exists k1, (if Nat.testbit mask 0 then update_data_P d3 k else Ok k) = Ok k1 /\ fresh_form d1 c k1).
  { destruct (Nat.testbit mask 0).
    - change (update_data_P d3 k) with (update_data_P d1 k). apply update_data_P_fresh; auto.
    - destruct (C0 eq_refl) as (-> & -> & ->). exists k. split; [reflexivity|]. unfold d1. rewrite with_P_id. exact Hf. }
  destruct S1 as (k1 & E1 & F1). rewrite E1. cbn [bind].
  assert (S2 : exists k2, (if Nat.testbit mask 1 then update_data_A d3 k1 else Ok k1) = Ok k2 /\ fresh_form d2 c k2).
  { destruct (Nat.testbit mask 1).
    - change (update_data_A d3 k1) with (update_data_A d2 k1). apply update_data_A_fresh; auto.
    - pose proof (C1 eq_refl) as ->. exists k1. split; [reflexivity|]. unfold d2. change (sd_AT d) with (sd_AT d1). rewrite with_AT_id. exact F1. }
  destruct S2 as (k2 & E2 & F2). rewrite E2. cbn [bind].
  assert (S3 : exists k3, (if Nat.testbit mask 2 then update_data_G d3 k2 else Ok k2) = Ok k3 /\ fresh_form d3 c k3).
  { destruct (Nat.testbit mask 2).
    - apply update_data_G_fresh; auto.
    - pose proof (C2 eq_refl) as ->. exists k2. split; [reflexivity|]. unfold d3. change (sd_GT d) with (sd_GT d2). rewrite with_GT_id. exact F2. }
  destruct S3 as (k3 & E3 & F3). rewrite E3. cbn [bind]. exists k3. auto.
Qed.

(* ... hence update_data(mask) on the stored matrix yields exactly the state of a fresh object on the new data with the same scalings *)
Corollary update_data_full_refresh_eq_fresh_thm d c k mask px ax gx lbs ubs :
  wf_sdata d -> diag_only_last (sd_P d) -> fresh d c = Ok k ->
  scal_ok d c -> scal_ok d (unit_scal d (sc_rho c) (sc_delta c)) ->
  length px = nnz (sd_P d) -> length ax = nnz (sd_AT d) -> length gx = nnz (sd_GT d) ->
  covers mask d px ax gx lbs ubs ->
  scal_ok (with_P d px lbs ubs) c -> scal_ok (with_P d px lbs ubs) (unit_scal d (sc_rho c) (sc_delta c)) ->
  update_data (with_all d px ax gx lbs ubs) k mask = fresh (with_all d px ax gx lbs ubs) c.
Proof.
  intros Hwf Hdol Ek Hsc Hu Lp La Lg Hcov Hsc' Hu'.
  destruct (fresh_ok d c Hwf Hsc Hu) as (k0 & E0 & F0). rewrite Ek in E0. injection E0 as <-.
  destruct (update_data_full_fresh d c k mask px ax gx lbs ubs) as (k' & E' & F'); auto.
  assert (Hwf' : wf_sdata (with_all d px ax gx lbs ubs)).
  { unfold with_all. apply wf_with_GT; [apply wf_with_AT; [apply wf_with_P|]|]; auto. }
  destruct (fresh_ok (with_all d px ax gx lbs ubs) c Hwf') as (k'' & E'' & F''); auto.
  rewrite E', E''. f_equal. now apply (fresh_form_unique (with_all d px ax gx lbs ubs) c).
Qed.

(* ================================================================ headline forms with positive scalings *)
From Coq Require Import Lqa.
Lemma Qc_inv_pos' (a : Qc) : (0 < a -> 0 < 1 / a)%Qc.
Proof.
  intros H. assert (E : (a * (1 / a) = 1)%Qc) by (field; apply Qclt_neq0; assumption).
  assert (E' : (this a * this (1 / a)%Qc == 1)%Q) by (rewrite <- this_mult, E; reflexivity).
  revert H E'. unfold Qclt. change (this 0%Qc) with 0%Q.
  generalize (this (1 / a)%Qc) (this a). intros b c H E'.
  destruct (Qlt_le_dec 0 b) as [Hb|Hb]; [exact Hb|]. exfalso. nra.
Qed.

(* the data-only part of scal_ok: box tables long enough, box indices are variable indices *)
Definition box_ok (d : sdata) : Prop :=
  sd_nlb d <= length (sd_lbidx d) /\ sd_nlb d <= length (sd_lbs d) /\
  sd_nub d <= length (sd_ubidx d) /\ sd_nub d <= length (sd_ubs d) /\
  (forall i, i < sd_nlb d -> nth i (sd_lbidx d) 0 < sd_n d) /\ (forall i, i < sd_nub d -> nth i (sd_ubidx d) 0 < sd_n d).

Lemma nth_set_head {A} (w v : list A) i dd : i < length w -> nth i (set_head w v) dd = nth i w dd.
Proof. intros. unfold set_head. now apply app_nth1. Qed.
Lemma set_head_len_ge {A} (w v : list A) : length w <= length (set_head w v).
Proof. unfold set_head. rewrite app_length. lia. Qed.

Lemma scal_ok_unit d rho delta : box_ok d -> (0 <= delta)%Qc -> scal_ok d (unit_scal d rho delta).
Proof.
  intros (A1 & A2 & B1 & B2 & I1 & I2) Hd. unfold scal_ok, unit_scal. cbn [sc_s sc_z_inv sc_s_lb sc_z_lb_inv sc_s_ub sc_z_ub_inv sc_delta].
  unfold vconst. rewrite !app_length, !repeat_length.
  assert (H1 : forall nb i, i < nb -> nth i (repeat 1%Qc nb ++ repeat 0%Qc (sd_n d - nb)) 0%Qc = 1%Qc).
  { intros nb i Hi. rewrite app_nth1 by (rewrite repeat_length; auto). rewrite (nth_indep _ 0%Qc 1%Qc) by (rewrite repeat_length; auto). apply nth_repeat. }
  repeat split; auto; try lia.
  - intros i Hi. rewrite !H1 by auto. apply Qc_den_pos; auto; reflexivity.
  - intros i Hi. rewrite !H1 by auto. apply Qc_den_pos; auto; reflexivity.
Qed.

Section Headline.
Variable d : sdata.
Hypothesis Hwf : wf_sdata d.
Hypothesis Hbox : box_ok d.
Local Notation N := (sd_n d + sd_p d + sd_m d).

(* init (identity ordering): the stored matrix denotes K_full with unit scalings, box terms included *)
Theorem init_full_denotes_thm rho delta : (0 <= delta)%Qc ->
  exists k, init d rho delta None = Ok k /\ fresh_form d (unit_scal d rho delta) k /\
    wf_csc (fk_PKPt d k) = true /\ diag_is_last (fk_PKPt d k) /\
    forall i j, i <= j -> j < N -> csc_get (fk_PKPt d k) i j = Kfull (sys_sparse d (unit_scal d rho delta)) i j.
Proof.
  intros Hd. destruct (init_fresh d Hwf rho delta (scal_ok_unit d rho delta Hbox Hd)) as (k & E & Hf).
  exists k. split; auto. split; auto. destruct (fresh_form_denotes d Hwf _ k Hf) as (W & D & _ & G). auto.
Qed.

(* (c): update_scalings with positive scalings on any canonical state (init, or any history of update_scalings / covering
   update_data): the stored matrix denotes K_full with the new rho, delta, s, 1/z and box terms *)
Theorem update_scalings_full_denotes_thm c0 k rho delta s s_lb s_ub z z_lb z_ub :
  fresh_form d c0 k ->
  length s = sd_m d -> length z = sd_m d ->
  sd_nlb d <= length s_lb -> sd_nlb d <= length z_lb -> sd_nub d <= length s_ub -> sd_nub d <= length z_ub ->
  (0 <= delta)%Qc ->
  (forall i, i < sd_m d -> (0 < nth i z 0)%Qc) ->
  (forall i, i < sd_nlb d -> (0 < nth i s_lb 0 /\ 0 < nth i z_lb 0)%Qc) ->
  (forall i, i < sd_nub d -> (0 < nth i s_ub 0 /\ 0 < nth i z_ub 0)%Qc) ->
  exists k' zi zlbi zubi,
    update_scalings d k rho delta s s_lb s_ub z z_lb z_ub = Ok k' /\
    vinv z = Ok zi /\ vinv (head (sd_nlb d) z_lb) = Ok zlbi /\ vinv (head (sd_nub d) z_ub) = Ok zubi /\
    fresh_form d (new_scal d c0 rho delta s s_lb s_ub zi zlbi zubi) k' /\
    fk_kp k' = fk_kp k /\ fk_ki k' = fk_ki k /\
    forall i j, i <= j -> j < N ->
      csc_get (fk_PKPt d k') i j = Kfull (sys_sparse d (new_scal d c0 rho delta s s_lb s_ub zi zlbi zubi)) i j.
Proof.
  intros Hf Ls Lz L1 L2 L3 L4 Hd Pz Plb Pub.
  assert (Hnz : forall (v : Vec) nb, nb <= length v -> (forall i, i < nb -> (0 < nth i v 0)%Qc) -> forall x, In x (head nb v) -> x <> 0%Qc).
  { intros v nb Lv Hp x Hx. apply (In_nth _ _ 0%Qc) in Hx as (i & Hi & <-). rewrite head_length in Hi by auto.
    rewrite nth_head by auto. apply Qclt_neq0. auto. }
  destruct (vinv_exists z) as (zi & Ezi).
  { intros x Hx. apply (In_nth _ _ 0%Qc) in Hx as (i & Hi & <-). apply Qclt_neq0. apply Pz. unfold Vec, F in *. lia. }
  destruct (vinv_exists (head (sd_nlb d) z_lb)) as (zlbi & Ezlbi); [apply Hnz; auto; intros; now apply Plb|].
  destruct (vinv_exists (head (sd_nub d) z_ub)) as (zubi & Ezubi); [apply Hnz; auto; intros; now apply Pub|].
  destruct (vinv_ok _ _ Ezi) as (Lzi & Hzi). destruct (vinv_ok _ _ Ezlbi) as (Lzlbi & Hzlbi). destruct (vinv_ok _ _ Ezubi) as (Lzubi & Hzubi).
  rewrite head_length in Lzlbi, Hzlbi by auto. rewrite head_length in Lzubi, Hzubi by auto.
  destruct Hbox as (A1 & A2 & B1 & B2 & I1 & I2).
  assert (Hsc : scal_ok d (new_scal d c0 rho delta s s_lb s_ub zi zlbi zubi)).
  { unfold scal_ok, new_scal. cbn [sc_s sc_z_inv sc_s_lb sc_z_lb_inv sc_s_ub sc_z_ub_inv sc_delta].
    assert (H1 := set_head_len_ge (head (sd_nlb d) s_lb) (sc_s_lb c0)). rewrite head_length in H1 by auto.
    assert (H2 := set_head_len_ge zlbi (sc_z_lb_inv c0)).
    assert (H3 := set_head_len_ge (head (sd_nub d) s_ub) (sc_s_ub c0)). rewrite head_length in H3 by auto.
    assert (H4 := set_head_len_ge zubi (sc_z_ub_inv c0)).
    unfold Vec, F in *.
    split; [auto|]. split; [lia|]. split; [auto|]. split; [auto|]. split; [lia|]. split; [lia|].
    split; [auto|]. split; [auto|]. split; [lia|]. split; [lia|]. split; [auto|]. split; [auto|]. split.
    - intros i Hi. rewrite !nth_set_head by (rewrite ?head_length; lia). rewrite nth_head by auto.
      destruct (Hzlbi i Hi) as [_ ->]. rewrite nth_head by auto. destruct (Plb i Hi). apply Qc_den_pos; auto. now apply Qc_inv_pos'.
    - intros i Hi. rewrite !nth_set_head by (rewrite ?head_length; lia). rewrite nth_head by auto.
      destruct (Hzubi i Hi) as [_ ->]. rewrite nth_head by auto. destruct (Pub i Hi). apply Qc_den_pos; auto. now apply Qc_inv_pos'. }
  destruct (update_scalings_fresh d c0 k rho delta s s_lb s_ub z z_lb z_ub zi zlbi zubi) as (k' & E & Hf'); auto.
  exists k', zi, zlbi, zubi. repeat (split; [assumption|]).
  pose proof Hf as ((_ & _ & St & _) & _). pose proof Hf' as ((_ & _ & St' & _) & _).
  destruct (static_spec_unique d Hwf _ _ _ _ _ _ _ _ _ _ St' St) as (E1 & E2 & _).
  split; [exact E1|]. split; [exact E2|]. apply (fresh_form_denotes d Hwf _ k' Hf').
Qed.
End Headline.

(* the freshly allocated storage plays no role *)
Theorem create_kkt_filler_free d fi fx rho delta : wf_sdata d ->
  create_kkt_matrix_f fi fx d rho delta = create_kkt_matrix d rho delta.
Proof.
  intros Hwf. destruct (create_kkt_spec d Hwf fi fx rho delta) as (km & E & Hr & Hc & Hst & Lkx & Hv & [Lpd Hpd]).
  unfold create_kkt_matrix. destruct (create_kkt_spec d Hwf 0 0%Qc rho delta) as (km' & E' & Hr' & Hc' & Hst' & Lkx' & Hv' & [Lpd' Hpd']).
  rewrite E, E'. f_equal.
  destruct (static_spec_unique d Hwf _ _ _ _ _ _ _ _ _ _ Hst Hst') as (E1 & E2 & E3 & E4 & E5).
  assert (E6 : vals (km_K km) = vals (km_K km')).
  { apply (nth_ext _ _ (0%Qc : F) (0%Qc : F)); [congruence|]. intros q Hq. rewrite Lkx in Hq.
    destruct (koff_decomp d _ q Hq) as (c & i & Hc0 & Hi & ->). rewrite Hv, Hv' by auto. reflexivity. }
  assert (E7 : km_Pdiag km = km_Pdiag km').
  { apply (nth_ext _ _ (0%Qc : F) (0%Qc : F)); [congruence|]. intros j Hj. rewrite Lpd in Hj. rewrite Hpd, Hpd' by auto. reflexivity. }
  destruct km as [[? ? ? ? ?] ? ? ? ?], km' as [[? ? ? ? ?] ? ? ? ?]. simpl in *. subst. reflexivity.
Qed.

(* decidable forms of the side conditions (used by the examples and by run-time checks) *)
Definition diag_only_lastb (P : csc F) : bool :=
  forallb (fun j => forallb (fun k => negb (nth k (rowind P) 0 =? j) || (S k =? cp P (S j))) (seq (cp P j) (clen P j))) (seq 0 (ncols P)).
Lemma diag_only_lastb_ok P : diag_only_lastb P = true -> diag_only_last P.
Proof.
  unfold diag_only_lastb. intros H j k Hj [Hk1 Hk2] Er. rewrite forallb_forall in H.
  specialize (H j ltac:(apply in_seq; lia)). rewrite forallb_forall in H.
  specialize (H k ltac:(apply in_seq; unfold clen; lia)).
  rewrite Er, Nat.eqb_refl in H. cbn [negb orb] in H. apply Nat.eqb_eq in H. lia.
Qed.

(* strictly increasing row indices in every column (what Eigen's compressed storage of an upper triangle provides) *)
Definition sorted_colsb (P : csc F) : bool :=
  forallb (fun j => forallb (fun k => (S k =? cp P (S j)) || (nth k (rowind P) 0 <? nth (S k) (rowind P) 0)) (seq (cp P j) (clen P j))) (seq 0 (ncols P)).
Lemma sorted_upper_diag_only_last P : wf_csc P = true -> sorted_colsb P = true -> upper_only P = true -> diag_only_last P.
Proof.
  intros Hw Hs Hu j k Hj [Hk1 Hk2] Er.
  unfold sorted_colsb in Hs. rewrite forallb_forall in Hs. specialize (Hs j ltac:(apply in_seq; lia)).
  rewrite forallb_forall in Hs. specialize (Hs k ltac:(apply in_seq; unfold clen; lia)).
  apply orb_true_iff in Hs as [Hs|Hs]; [apply Nat.eqb_eq in Hs; lia|]. apply Nat.ltb_lt in Hs.
  destruct (Nat.eq_dec (S k) (cp P (S j))) as [E|Ne]; [lia|]. exfalso.
  unfold upper_only in Hu. rewrite forallb_forall in Hu. specialize (Hu j ltac:(apply in_seq; lia)).
  rewrite forallb_forall in Hu. specialize (Hu (S k)). fold (cp P j) (cp P (S j)) in Hu.
  assert (In (S k) (seq (cp P j) (cp P (S j) - cp P j))) by (apply in_seq; lia).
  apply Hu in H. apply Nat.leb_le in H. lia.
Qed.

(* T2 for update_scalings: on a canonical state it yields exactly the state of a fresh object given the new scalings *)
Theorem update_scalings_full_refresh_eq_fresh_thm d c0 k rho delta s s_lb s_ub z z_lb z_ub zi zlbi zubi :
  wf_sdata d -> fresh_form d c0 k ->
  sd_nlb d <= length s_lb -> sd_nlb d <= length z_lb -> sd_nub d <= length s_ub -> sd_nub d <= length z_ub ->
  vinv z = Ok zi -> vinv (head (sd_nlb d) z_lb) = Ok zlbi -> vinv (head (sd_nub d) z_ub) = Ok zubi ->
  scal_ok d (new_scal d c0 rho delta s s_lb s_ub zi zlbi zubi) -> scal_ok d (unit_scal d rho delta) ->
  update_scalings d k rho delta s s_lb s_ub z z_lb z_ub = fresh d (new_scal d c0 rho delta s s_lb s_ub zi zlbi zubi).
Proof.
  intros Hwf Hf L1 L2 L3 L4 E1 E2 E3 Hsc Hu.
  destruct (update_scalings_fresh d c0 k rho delta s s_lb s_ub z z_lb z_ub zi zlbi zubi) as (k' & E & Hf'); auto.
  destruct (fresh_ok d (new_scal d c0 rho delta s s_lb s_ub zi zlbi zubi) Hwf Hsc Hu) as (k'' & E'' & Hf'').
  rewrite E, E''. f_equal. now apply (fresh_form_unique d (new_scal d c0 rho delta s s_lb s_ub zi zlbi zubi)).
Qed.

(* what the stored matrix denotes after update_data with a covering mask: K_full of the NEW data *)
Theorem update_data_full_denotes_thm d c k mask px ax gx lbs ubs :
  wf_sdata d -> diag_only_last (sd_P d) -> fresh_form d c k ->
  length px = nnz (sd_P d) -> length ax = nnz (sd_AT d) -> length gx = nnz (sd_GT d) ->
  covers mask d px ax gx lbs ubs -> scal_ok (with_P d px lbs ubs) c ->
  let d' := with_all d px ax gx lbs ubs in
  exists k', update_data d' k mask = Ok k' /\ fresh_form d' c k' /\
    wf_csc (fk_PKPt d' k') = true /\ diag_is_last (fk_PKPt d' k') /\
    forall i j, i <= j -> j < sd_n d + sd_p d + sd_m d -> csc_get (fk_PKPt d' k') i j = Kfull (sys_sparse d' c) i j.
Proof.
  intros Hwf Hdol Hf Lp La Lg Hcov Hsc. cbv zeta.
  destruct (update_data_full_fresh d c k mask px ax gx lbs ubs) as (k' & E' & F'); auto.
  assert (Hwf' : wf_sdata (with_all d px ax gx lbs ubs)).
  { unfold with_all. apply wf_with_GT; [apply wf_with_AT; [apply wf_with_P|]|]; auto. }
  exists k'. split; auto. split; auto.
  destruct (fresh_form_denotes _ Hwf' c k' F') as (W & D & _ & G). auto.
Qed.
