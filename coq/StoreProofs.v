(* StoreProofs.v -- C19 theorems about the store-passing API of Store.v.
   All of them hold by construction of a value-passing model (see the header of Store.v); the tie to the C++ code is
   harness/drv_alias.cpp. *)
From PIQP Require Import Base Data Bounds PrecondDense KKTDense IPM API Store.

Section Proofs.
Variable K : Consts.
Variable ident : bool.
Variable spc : bool.
Variable junk : F.
Variable cp_bits : Z.

Notation api_call := (api_call K ident spc junk cp_bits).
Notation run := (run K ident spc junk cp_bits).
Notation outputs := (outputs K ident spc junk cp_bits).
Notation final_store := (final_store K ident spc junk cp_bits).

(* ---- no call changes the store ---- *)
Lemma store_unchanged_call st sv c : fst (api_call st sv c) = st.
Proof. reflexivity. Qed.

Lemma store_unchanged st sv h : final_store st sv h = caller_writes st h.
Proof.
  unfold final_store. revert st sv. induction h as [|o t IH]; intros st sv; [reflexivity|].
  destruct o as [c|f]; cbn [Store.run caller_writes].
  - specialize (IH st (next_solver sv (snd (api_call st sv c)))).
    unfold Store.api_call in *. cbn [snd] in IH.
    destruct (Store.run K ident spc junk cp_bits st _ t) as [[s2 sv2] os]. exact IH.
  - apply IH.
Qed.

(* ---- a call reads only the buffers it is given ---- *)
Lemma read_mat_agree s1 s2 i : (forall k, i = Some k -> s1 k = s2 k) -> read_mat s1 i = read_mat s2 i.
Proof. intro H. destruct i as [k|]; [|reflexivity]. cbn. rewrite (H k eq_refl). reflexivity. Qed.
Lemma read_vec_agree s1 s2 i : (forall k, i = Some k -> s1 k = s2 k) -> read_vec s1 i = read_vec s2 i.
Proof. intro H. destruct i as [k|]; [|reflexivity]. cbn. rewrite (H k eq_refl). reflexivity. Qed.
Lemma read_ext_agree s1 s2 i : (forall k, i = Some k -> s1 k = s2 k) -> read_ext s1 i = read_ext s2 i.
Proof. intro H. destruct i as [k|]; [|reflexivity]. cbn. rewrite (H k eq_refl). reflexivity. Qed.

Lemma read_blocks_agree s1 s2 I : agree_on (ids_of I) s1 s2 -> read_blocks s1 I = read_blocks s2 I.
Proof.
  intro H. unfold read_blocks.
  assert (A : forall (x : option BufId), (forall k, x = Some k -> In k (ids_of I)) -> forall k, x = Some k -> s1 k = s2 k).
  { intros x Hx k E. apply H, (Hx k E). }
  unfold ids_of in A.
  rewrite (read_mat_agree s1 s2 (id_P I)) by (apply A; intros k ->; cbn; rewrite !in_app_iff; cbn; tauto).
  rewrite (read_vec_agree s1 s2 (id_c I)) by (apply A; intros k ->; cbn; rewrite !in_app_iff; cbn; tauto).
  rewrite (read_mat_agree s1 s2 (id_A I)) by (apply A; intros k ->; cbn; rewrite !in_app_iff; cbn; tauto).
  rewrite (read_vec_agree s1 s2 (id_b I)) by (apply A; intros k ->; cbn; rewrite !in_app_iff; cbn; tauto).
  rewrite (read_mat_agree s1 s2 (id_G I)) by (apply A; intros k ->; cbn; rewrite !in_app_iff; cbn; tauto).
  rewrite (read_ext_agree s1 s2 (id_h I)) by (apply A; intros k ->; cbn; rewrite !in_app_iff; cbn; tauto).
  rewrite (read_ext_agree s1 s2 (id_lb I)) by (apply A; intros k ->; cbn; rewrite !in_app_iff; cbn; tauto).
  rewrite (read_ext_agree s1 s2 (id_ub I)) by (apply A; intros k ->; cbn; rewrite !in_app_iff; cbn; tauto).
  reflexivity.
Qed.

Lemma api_call_agree s1 s2 sv c : agree_on (call_ids c) s1 s2 -> snd (api_call s1 sv c) = snd (api_call s2 sv c).
Proof.
  intro H. unfold Store.api_call. cbn [snd]. destruct c as [St n p m bi|bi reuse|fault]; cbn [call_blocks call_ids] in *.
  - rewrite (read_blocks_agree s1 s2 bi H). reflexivity.
  - rewrite (read_blocks_agree s1 s2 bi H). reflexivity.
  - reflexivity.
Qed.

(* ---- store independence over arbitrary histories ---- *)
Theorem store_independence s1 h1 s2 h2 :
  sim s1 h1 s2 h2 ->
  forall sv, outputs s1 sv h1 = outputs s2 sv h2 /\ snd (fst (run s1 sv h1)) = snd (fst (run s2 sv h2)).
Proof.
  unfold outputs. induction 1 as [s1 s2|f s1 h1 s2 h2 _ IH|f s1 h1 s2 h2 _ IH|c s1 h1 s2 h2 A _ IH]; intro sv.
  - split; reflexivity.
  - cbn [Store.run]. apply IH.
  - cbn [Store.run]. apply IH.
  - cbn [Store.run]. pose proof (api_call_agree s1 s2 sv c A) as E.
    unfold Store.api_call in *. cbn [snd] in E. rewrite E.
    set (o := bind (call_blocks s2 c) _).
    specialize (IH (next_solver sv o)).
    destruct (Store.run K ident spc junk cp_bits s1 (next_solver sv o) h1) as [[a1 b1] c1].
    destruct (Store.run K ident spc junk cp_bits s2 (next_solver sv o) h2) as [[a2 b2] c2].
    cbn in *. destruct IH as [-> ->]. split; reflexivity.
Qed.

(* ---- solve reads no caller memory at all ---- *)
Definition only_solves (h : list Op) : Prop :=
  Forall (fun o => match o with OCall (CSolve _) => True | OCall _ => False | OMutate _ => True end) h.

Lemma sim_only_solves h : only_solves h -> forall s1 s2, sim s1 h s2 (erase_mutations h).
Proof.
  induction 1 as [|o t Ho _ IH]; intros s1 s2; [constructor|].
  destruct o as [c|f]; cbn [erase_mutations].
  - destruct c; try contradiction. apply sim_call; [intros i []|apply IH].
  - apply sim_mut_l, IH.
Qed.

Theorem solves_ignore_store h : only_solves h ->
  forall s1 s2 sv, outputs s1 sv h = outputs s2 sv (erase_mutations h).
Proof. intros H s1 s2 sv. apply store_independence, sim_only_solves, H. Qed.

(* ---- the twin experiment of the harness, as a theorem about the model ----
   a step = the caller prepares the arguments (g), makes the call, and then does anything at all (scr) *)
Record Step := mkStep { prep : Store -> Store; call : Call; scribble : Store -> Store }.

(* g determines the content of the buffers in ids, whatever the store was before *)
Definition writes (g : Store -> Store) (ids : list BufId) : Prop := forall s s', agree_on ids (g s) (g s').

Fixpoint flatten (with_scribble : bool) (l : list Step) : list Op :=
  match l with
  | [] => []
  | st :: t => OMutate (prep st) :: OCall (call st) ::
               (if with_scribble then [OMutate (scribble st)] else []) ++ flatten with_scribble t
  end.

Lemma sim_twin l : Forall (fun st => writes (prep st) (call_ids (call st))) l ->
  forall s1 s2, sim s1 (flatten true l) s2 (flatten false l).
Proof.
  induction 1 as [|st t W _ IH]; intros s1 s2; [constructor|].
  cbn [flatten app]. apply sim_mut_l, sim_mut_r, sim_call; [apply W|]. apply sim_mut_l, IH.
Qed.

Theorem scribble_twin l : Forall (fun st => writes (prep st) (call_ids (call st))) l ->
  forall s1 s2 sv, outputs s1 sv (flatten true l) = outputs s2 sv (flatten false l).
Proof. intros W s1 s2 sv. apply store_independence, sim_twin, W. Qed.

End Proofs.
