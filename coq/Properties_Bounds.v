(* Properties_Bounds.v -- final statements about solver.hpp setup_lb_data / setup_ub_data /
   disable_inf_constraints / restore_box_dual (model: Bounds.v, proofs: BoundsProofs.v).
   Every statement is for ALL n and ALL inputs. *)
From PIQP Require Import Base Bounds BoundsProofs.
Local Open Scope nat_scope.

(* ---------- 1. setup_lb_data / setup_ub_data ---------- *)

Theorem Bounds_pack_lb_spec :
  forall (INF : F) (i : nat) (xs : list ext) (v : list F) (ix : list nat),
  pack_lb INF i xs = (v, ix) ->
  length v = length ix /\
  strict_inc ix /\
  (forall k, In k ix -> i <= k < i + length xs) /\
  (forall k, In k ix <-> (i <= k < i + length xs /\ ext_gt_neg_inf INF (nth (k - i) xs NInf) = true)) /\
  (forall j, j < length ix -> nth j v 0%Qc = Qcopp (ext_val (nth (nth j ix 0 - i) xs NInf))).
Proof. exact pack_lb_spec. Qed.
Print Assumptions Bounds_pack_lb_spec.

Theorem Bounds_pack_ub_spec :
  forall (INF : F) (i : nat) (xs : list ext) (v : list F) (ix : list nat),
  pack_ub INF i xs = (v, ix) ->
  length v = length ix /\
  strict_inc ix /\
  (forall k, In k ix -> i <= k < i + length xs) /\
  (forall k, In k ix <-> (i <= k < i + length xs /\ ext_lt_inf INF (nth (k - i) xs PInf) = true)) /\
  (forall j, j < length ix -> nth j v 0%Qc = ext_val (nth (nth j ix 0 - i) xs PInf)).
Proof. exact pack_ub_spec. Qed.
Print Assumptions Bounds_pack_ub_spec.

(* ---------- 2. restore_box_dual: index safety and scatter ---------- *)

Theorem Bounds_restore_one_ok :
  forall (A : Type) (dflt : A) (n : nat) (v : list A) (idx : list nat),
  strict_inc idx ->
  (forall j, j < length idx -> nth j idx 0 < n) ->
  length v = n ->
  exists r, restore_one dflt n v idx = Ok r /\
    length r = n /\
    (forall j, j < length idx -> nth_error r (nth j idx 0) = nth_error v j) /\
    (forall k, k < n -> ~ In k idx -> nth_error r k = Some dflt).
Proof. exact (@restore_one_ok). Qed.
Print Assumptions Bounds_restore_one_ok.

(* ---------- 3. pack, then restore: indexed by original variable ---------- *)

Theorem Bounds_restore_pack_roundtrip_lb :
  forall (A : Type) (INF : F) (xs : list ext) (v' : list F) (ix : list nat)
         (dflt : A) (v tl : list A),
  pack_lb INF 0 xs = (v', ix) ->
  length v = length ix ->
  length tl = length xs - length ix ->
  exists r, restore_one dflt (length xs) (v ++ tl) ix = Ok r /\
    length r = length xs /\
    (forall j, j < length ix -> nth_error r (nth j ix 0) = nth_error v j) /\
    (forall k, k < length xs -> ext_gt_neg_inf INF (nth k xs NInf) = true ->
        exists j, j < length ix /\ nth j ix 0 = k /\ nth_error r k = nth_error v j) /\
    (forall k, k < length xs -> ext_gt_neg_inf INF (nth k xs NInf) = false ->
        nth_error r k = Some dflt).
Proof. exact (@restore_pack_roundtrip_lb). Qed.
Print Assumptions Bounds_restore_pack_roundtrip_lb.

Theorem Bounds_restore_pack_roundtrip_ub :
  forall (A : Type) (INF : F) (xs : list ext) (v' : list F) (ix : list nat)
         (dflt : A) (v tl : list A),
  pack_ub INF 0 xs = (v', ix) ->
  length v = length ix ->
  length tl = length xs - length ix ->
  exists r, restore_one dflt (length xs) (v ++ tl) ix = Ok r /\
    length r = length xs /\
    (forall j, j < length ix -> nth_error r (nth j ix 0) = nth_error v j) /\
    (forall k, k < length xs -> ext_lt_inf INF (nth k xs PInf) = true ->
        exists j, j < length ix /\ nth j ix 0 = k /\ nth_error r k = nth_error v j) /\
    (forall k, k < length xs -> ext_lt_inf INF (nth k xs PInf) = false ->
        nth_error r k = Some dflt).
Proof. exact (@restore_pack_roundtrip_ub). Qed.
Print Assumptions Bounds_restore_pack_roundtrip_ub.

(* ---------- 4. disable_inf_constraints ---------- *)

Theorem Bounds_disable_inf_spec :
  forall (INF : F) (GT : Mat) (h : list ext) (GT' : Mat) (h' : Vec),
  disable_inf INF GT h = (GT', h') ->
  length GT = length h ->
  length GT' = length h /\
  length h' = length h /\
  forall i, i < length h ->
    length (nth i GT' []) = length (nth i GT []) /\
    (h_is_inf INF (nth i h NInf) = true ->
       nth i GT' [] = repeat 0%Qc (length (nth i GT [])) /\ nth i h' 0%Qc = 1%Qc) /\
    (h_is_inf INF (nth i h NInf) = false ->
       nth i GT' [] = nth i GT [] /\ nth i h' 0%Qc = ext_val (nth i h NInf)).
Proof. exact disable_inf_spec. Qed.
Print Assumptions Bounds_disable_inf_spec.

(* ---------- non-vacuity: concrete instances, n = 5, mixed finite/infinite pattern ---------- *)

Definition ex_INF : F := qofZ (10 ^ 30).
(* lower bounds: finite, -inf, finite, "-1e31" (treated as -inf), finite *)
Definition ex_lb : list ext :=
  [Fin (qofZ (-1)); NInf; Fin (qofZ 2); Fin (qofZ (- 10 ^ 31)); Fin (qmk 7 2)].
(* upper bounds: +inf, finite, "1e30" (not < INF: treated as +inf), finite, finite *)
Definition ex_ub : list ext :=
  [PInf; Fin (qofZ 3); Fin (qofZ (10 ^ 30)); Fin (qofZ (-4)); Fin (qmk 9 2)].

Example ex_pack_lb :
  (let '(v, ix) := pack_lb ex_INF 0 ex_lb in (map this v, ix))
  = ([1 # 1; (-2) # 1; (-7) # 2]%Q, [0; 2; 4]).
Proof. vm_compute. reflexivity. Qed.

Example ex_pack_ub :
  (let '(v, ix) := pack_ub ex_INF 0 ex_ub in (map this v, ix))
  = ([3 # 1; (-4) # 1; 9 # 2]%Q, [1; 3; 4]).
Proof. vm_compute. reflexivity. Qed.

(* hypotheses of Bounds_restore_one_ok are satisfiable *)
Example ex_strict_inc : strict_inc [0; 2; 4] /\ (forall j, j < length [0; 2; 4] -> nth j [0; 2; 4] 0 < 5).
Proof.
  split.
  - apply strict_inc_cons2; [lia|]. apply strict_inc_cons2; [lia|]. apply strict_inc_one.
  - intros j Hj. cbn in Hj. destruct j as [|[|[|j]]]; cbn; lia.
Qed.

(* the concrete scatter: packed multipliers 7,8,9 of variables 0,2,4; the garbage in the tail
   (100,101) is overwritten by the default 0 *)
Example ex_restore_nat :
  restore_one 0 5 [7; 8; 9; 100; 101] [0; 2; 4] = Ok [7; 0; 8; 0; 9].
Proof. vm_compute. reflexivity. Qed.

Example ex_restore_ub_nat :
  restore_one 0 5 [7; 8; 9; 100; 101] [1; 3; 4] = Ok [0; 7; 0; 8; 9].
Proof. vm_compute. reflexivity. Qed.

(* slacks: default +inf *)
Example ex_restore_ext :
  restore_one PInf 5 [Fin 1%Qc; Fin 1%Qc; Fin 1%Qc; NInf; NInf] [0; 2; 4]
  = Ok [Fin 1%Qc; PInf; Fin 1%Qc; PInf; Fin 1%Qc].
Proof. vm_compute. reflexivity. Qed.

(* all entries present / none present / index out of range is an error, not silently accepted *)
Example ex_restore_full : restore_one 0 3 [7; 8; 9] [0; 1; 2] = Ok [7; 8; 9].
Proof. vm_compute. reflexivity. Qed.
Example ex_restore_none : restore_one 0 3 [7; 8; 9] [] = Ok [0; 0; 0].
Proof. vm_compute. reflexivity. Qed.
Example ex_restore_oob : restore_one 0 3 [7; 8; 9] [0; 3] = Err Index.
Proof. vm_compute. reflexivity. Qed.

(* end to end with the index list computed by pack_lb on the mixed pattern *)
Example ex_roundtrip_lb :
  match restore_one 0%Qc 5 ([qofZ 7; qofZ 8; qofZ 9] ++ [qofZ 100; qofZ 101])
                    (snd (pack_lb ex_INF 0 ex_lb)) with
  | Ok r => map this r
  | Err _ => []
  end = [7 # 1; 0 # 1; 8 # 1; 0 # 1; 9 # 1]%Q.
Proof. vm_compute. reflexivity. Qed.

(* disable_inf_constraints: m = 3, n = 2; rows 1 (h = 2e30) and 2 (h = -inf) are disabled *)
Example ex_disable_inf :
  (let '(GT, h) := disable_inf ex_INF
        [[qofZ 1; qofZ 2]; [qofZ 3; qofZ 4]; [qofZ 5; qofZ 6]]
        [Fin (qofZ 5); Fin (qofZ (2 * 10 ^ 30)); NInf] in
   (map (map this) GT, map this h))
  = ([[1 # 1; 2 # 1]; [0 # 1; 0 # 1]; [0 # 1; 0 # 1]]%Q, [5 # 1; 1 # 1; 1 # 1]%Q).
Proof. vm_compute. reflexivity. Qed.
