(* KKTSparseNodupProofs.v -- the assembled KKT matrices of the four sparse modes repeat no row index inside a column
   (nodup_cols, the hypothesis of the sparse LDL^T correctness C14_ldl_sparse_correct), derived from the canonical-form
   predicates of the assembly theorems:  KKT_FULL from static_spec (rows of P_utri / AT / GT plus the appended diagonal),
   the eliminated modes from the strictly increasing columns of the modelled pattern (csc_of_cols). *)
From PIQP Require Import Base CSC C14LemmasProofs CSCProofs LDLValuesFinalProofs LinAlg KKTProofs
  KKTSparseFull KKTSparseFullProofs KKTSparseAll KKTSparseAllProofs KKTSparseEq KKTSparseIneq KKTSparseEqProofs KKTSparseIneqProofs.
From Coq Require Import Lia.
Local Open Scope nat_scope.

(* ---------- a matrix given by strictly increasing columns ---------- *)
Lemma oc_nodup {V} n (cols : nat -> list nat) (val : nat -> nat -> F) (kx : list V) :
  (forall j, j < n -> inc (cols j)) ->
  nodup_cols (mkcsc n n (colptr (csc_of_cols n cols val)) (rowind (csc_of_cols n cols val)) kx).
Proof.
  intros Hinc j p1 p2 Hj H1 H2 E. cbn [ncols colptr rowind] in *.
  set (M := csc_of_cols n cols val) in *.
  assert (C1 : nth j (colptr M) 0 = coff cols j) by (apply (ofcols_cp n cols val j); lia).
  assert (C2 : nth (S j) (colptr M) 0 = coff cols j + length (cols j)) by (rewrite <- coff_S; apply (ofcols_cp n cols val (S j)); lia).
  rewrite C1, C2 in *.
  replace p1 with (coff cols j + (p1 - coff cols j)) in E |- * by lia.
  replace p2 with (coff cols j + (p2 - coff cols j)) in E |- * by lia.
  unfold M in E. rewrite !(ofcols_row n cols val) in E by (auto; lia).
  apply (inc_inj (cols j)) in E; auto; lia.
Qed.

(* ---------- the eliminated modes ---------- *)
Lemma all_form_nodup d c k : all_form d c k -> nodup_cols (mkcsc (sd_n d) (sd_n d) (ak_kp k) (ak_ki k) (ak_kx k)).
Proof.
  intros ((ax & gx & _ & _ & _ & _ & _ & _ & _ & _ & Ekp & Eki & _) & _). cbv zeta in Ekp, Eki. rewrite Ekp, Eki.
  apply oc_nodup. intros j Hj. apply inc_filter_seq.
Qed.

Lemma eqF_nodup d X c k : elim_data_ok d (sd_GT d) -> eqF d X c k -> nodup_cols (mkcsc (sd_n d + sd_m d) (sd_n d + sd_m d) (ek_kp k) (ek_ki k) (ek_kx k)).
Proof.
  intros ((_ & _ & _ & WA & AR & AC & WG & GR & GC) & _ & _ & HsG) ((cx & _ & _ & _ & _ & _ & _ & _ & Ekp & Eki & _) & _). rewrite Ekp, Eki.
  apply oc_nodup. intros j Hj. apply (ecE_inc d (sd_AT d) (sd_GT d) (sd_p d) (sd_m d)); auto.
Qed.

Lemma ineqF_nodup d X c k : elim_data_ok d (sd_AT d) -> ineqF d X c k -> nodup_cols (mkcsc (sd_n d + sd_p d) (sd_n d + sd_p d) (ek_kp k) (ek_ki k) (ek_kx k)).
Proof.
  intros ((_ & _ & _ & WA & AR & AC & WG & GR & GC) & _ & _ & HsA) ((cx & _ & _ & _ & _ & _ & _ & _ & Ekp & Eki & _) & _). rewrite Ekp, Eki.
  apply oc_nodup. intros j Hj. apply (ecE_inc d (sd_GT d) (sd_AT d) (sd_m d) (sd_p d)); auto.
Qed.

(* ---------- KKT_FULL ---------- *)
Lemma rect_rows_inj (M : csc F) (l c i1 i2 : nat) :
  wf_csc M = true -> nodup_cols M -> l < ncols M -> nrows M <= c ->
  i1 < S (clen M l) -> i2 < S (clen M l) ->
  (if i1 <? clen M l then nth (cp M l + i1) (rowind M) 0 else c) = (if i2 <? clen M l then nth (cp M l + i2) (rowind M) 0 else c) -> i1 = i2.
Proof.
  intros Hw Hnd Hl Hc H1 H2 E. pose proof (wf_col_range M Hw l Hl) as [R1 R2]. unfold clen, cp in *.
  destruct (Nat.ltb_spec i1 (nth (S l) (colptr M) 0 - nth l (colptr M) 0)), (Nat.ltb_spec i2 (nth (S l) (colptr M) 0 - nth l (colptr M) 0)); try lia.
  - assert (Q := Hnd l (nth l (colptr M) 0 + i1) (nth l (colptr M) 0 + i2) Hl ltac:(lia) ltac:(lia) E). lia.
  - pose proof (wf_rows M Hw (nth l (colptr M) 0 + i1) ltac:(lia)). lia.
  - pose proof (wf_rows M Hw (nth l (colptr M) 0 + i2) ltac:(lia)). lia.
Qed.

Lemma krow_inj d j i1 i2 :
  wf_sdata d -> nodup_cols (sd_P d) -> nodup_cols (sd_AT d) -> nodup_cols (sd_GT d) -> diag_only_last (sd_P d) ->
  j < sd_n d + sd_p d + sd_m d -> i1 < klen d j -> i2 < klen d j -> krow d j i1 = krow d j i2 -> i1 = i2.
Proof.
  intros (WP & PR & PC & WA & AR & AC & WG & GR & GC) NP NA NG Hdol Hj H1 H2 E. unfold krow, klen in *.
  destruct (Nat.ltb_spec j (sd_n d)) as [Hjn|Hjn].
  - pose proof (wf_col_range (sd_P d) WP j ltac:(lia)) as [R1 R2].
    assert (Hcase : forall i, i < clen (sd_P d) j -> nth (cp (sd_P d) j + i) (rowind (sd_P d)) 0 = j -> has_diag (sd_P d) j = true).
    { intros i Hi Er. assert (Q := Hdol j (cp (sd_P d) j + i) ltac:(lia) ltac:(unfold in_col, clen, cp in *; lia) Er).
      unfold has_diag. rewrite <- Q, Er, Nat.eqb_refl, andb_true_r. apply Nat.ltb_lt. lia. }
    destruct (Nat.ltb_spec i1 (clen (sd_P d) j)), (Nat.ltb_spec i2 (clen (sd_P d) j)).
    + unfold clen, cp in *.
      assert (Hjc : j < ncols (sd_P d)) by (rewrite PC; exact Hjn).
      assert (Q := NP j (nth j (colptr (sd_P d)) 0 + i1) (nth j (colptr (sd_P d)) 0 + i2) Hjc ltac:(lia) ltac:(lia) E). lia.
    + rewrite (Hcase i1 H E) in H2. lia.
    + rewrite (Hcase i2 H0 (eq_sym E)) in H1. lia.
    + destruct (has_diag (sd_P d) j); lia.
  - destruct (Nat.ltb_spec j (sd_n d + sd_p d)) as [Hjp|Hjp].
    + apply (rect_rows_inj (sd_AT d) (j - sd_n d) j i1 i2); auto; lia.
    + apply (rect_rows_inj (sd_GT d) (j - sd_n d - sd_p d) j i1 i2); auto; lia.
Qed.

Lemma fresh_form_nodup d c k :
  wf_sdata d -> nodup_cols (sd_P d) -> nodup_cols (sd_AT d) -> nodup_cols (sd_GT d) -> diag_only_last (sd_P d) ->
  fresh_form d c k -> nodup_cols (fk_PKPt d k).
Proof.
  intros Hwf NP NA NG Hdol ((_ & _ & (Lkp & Hkp & Lki & Hki & _) & _) & _ & _) j p1 p2 Hj H1 H2 E.
  cbn [fk_PKPt ncols colptr rowind] in *. unfold fk_N in Hj.
  rewrite (Hkp j), (Hkp (S j)), koff_S in H1, H2 by lia.
  replace p1 with (koff d j + (p1 - koff d j)) in E |- * by lia.
  replace p2 with (koff d j + (p2 - koff d j)) in E |- * by lia.
  rewrite !Hki in E by lia. apply (krow_inj d j) in E; auto; lia.
Qed.

(* strictly increasing columns (what Eigen's compressed storage provides) repeat no row index *)
Lemma sorted_nodup (M : csc F) : wf_csc M = true -> sorted_colsb M = true -> nodup_cols M.
Proof.
  intros Hw Hs. unfold sorted_colsb in Hs. rewrite forallb_forall in Hs.
  assert (Hlt : forall j, j < ncols M -> forall a b, cp M j <= a -> a < b -> b < cp M (S j) -> nth a (rowind M) 0 < nth b (rowind M) 0).
  { intros j Hj a b Ha Hab Hb. specialize (Hs j ltac:(apply in_seq; lia)). rewrite forallb_forall in Hs.
    induction Hab as [|b Hab IH].
    - specialize (Hs a ltac:(apply in_seq; unfold clen; lia)). apply orb_true_iff in Hs as [Hs|Hs]; [apply Nat.eqb_eq in Hs; lia|now apply Nat.ltb_lt].
    - specialize (IH ltac:(lia)). specialize (Hs b ltac:(apply in_seq; unfold clen; lia)).
      apply orb_true_iff in Hs as [Hs|Hs]; [apply Nat.eqb_eq in Hs; lia|apply Nat.ltb_lt in Hs; lia]. }
  intros j p1 p2 Hj H1 H2 E. fold (cp M j) (cp M (S j)) in H1, H2.
  destruct (Nat.lt_trichotomy p1 p2) as [H|[H|H]]; [|exact H|].
  - specialize (Hlt j Hj p1 p2 ltac:(lia) H ltac:(lia)). lia.
  - specialize (Hlt j Hj p2 p1 ltac:(lia) H ltac:(lia)). lia.
Qed.

Lemma fresh_form_nodup_sorted d c k :
  wf_sdata d -> upper_only (sd_P d) = true ->
  sorted_colsb (sd_P d) = true -> sorted_colsb (sd_AT d) = true -> sorted_colsb (sd_GT d) = true ->
  fresh_form d c k -> nodup_cols (fk_PKPt d k).
Proof.
  intros Hwf Hup SP SA SG Hf. pose proof Hwf as (WP & _ & _ & WA & _ & _ & WG & _).
  apply (fresh_form_nodup d c k); auto using sorted_nodup, sorted_upper_diag_only_last.
Qed.
