(* PermuteGenProofs.v -- C14 T3 for ALL sizes: permute_sparse_symmetric_matrix (utils.hpp, model CSC.permute_sym).

   For every well-formed square upper-triangular CSC matrix A (row indices inside a column may be unsorted and may
   repeat) and every index map pinv with values below n, the kernel succeeds (no out-of-range access) and returns
   (C, AtoC) where C is a well-formed upper-triangular CSC matrix with as many stored entries as A, AtoC is a
   bijection from the stored positions of A onto the stored positions of C, and the entry stored at position k of A
   (row i, column j) is found at position AtoC[k] of C, in column max(pinv i, pinv j) with row index
   min(pinv i, pinv j) and the same value.  If pinv is injective, then for F-valued matrices
   csc_get C (min (pinv i) (pinv j)) (max (pinv i) (pinv j)) = csc_get A i j for all i <= j < n.
   Sortedness of the columns of C is NOT claimed here.

   Proof: the kernel is two stable counting sorts (by min, then by max); CountSortProofs.v has the arithmetic. *)
From PIQP Require Import Base CSC C14LemmasProofs CSCProofs TransposeProofs PermuteProofs CountSortProofs.
Require Import ZifyBool Permutation.
Local Open Scope nat_scope.

Lemma upper_only_le {V} (A : csc V) j k : upper_only A = true -> j < ncols A ->
  nth j (colptr A) 0 <= k < nth (S j) (colptr A) 0 -> nth k (rowind A) 0 <= j.
Proof.
  intros H Hj Hk. unfold upper_only in H. rewrite forallb_forall in H.
  assert (Hin : In j (seq 0 (ncols A))) by (apply in_seq; lia). specialize (H j Hin).
  rewrite forallb_forall in H.
  assert (Hin2 : In k (seq (nth j (colptr A) 0) (nth (S j) (colptr A) 0 - nth j (colptr A) 0))) by (apply in_seq; lia).
  specialize (H k Hin2). now apply Nat.leb_le.
Qed.

Lemma incr_ok w i : i < length w -> incr w i = Ok (lset w i (S (nth i w 0))).
Proof. intros H. unfold incr. rewrite (get_nth w i 0) by auto. cbn [bind]. now rewrite upd_lset. Qed.

(* run the next statement of a monadic block whose result is known *)
Ltac run E :=
  match goal with
  | |- exists r, bind ?X _ = Ok r /\ _ =>
      match type of E with _ = ?Y => replace X with Y by (symmetry; exact E) end; cbn [bind]
  end.

(* discharge the propositional premises of a lemma from the context (robust against the set of section
   hypotheses a lemma happens to depend on) *)
Ltac spec_props H :=
  repeat match type of H with
  | ?P -> _ => match type of P with Prop => let h := fresh in assert (h : P) by assumption; specialize (H h); clear h end
  end.

Section PermGen.
Context {V : Type}.
Variable d : V.
Variable A : csc V.
Variable pinv : list nat.
Hypothesis Hwf : wf_csc A = true.
Hypothesis Hsq : ncols A = nrows A.
Hypothesis Hup : upper_only A = true.
Hypothesis Hpl : length pinv = nrows A.
Hypothesis Hpr : forall i, i < nrows A -> nth i pinv 0 < nrows A.

Notation n := (nrows A).
Notation Ap := (colptr A).
Notation Ai := (rowind A).
Notation Ax := (vals A).
Notation N := (length (rowind A)).

Definition cj (k : nat) : nat := col_of Ap n k.
Definition pv (i : nat) : nat := nth i pinv 0.
Definition mn (k : nat) : nat := Nat.min (pv (nth k Ai 0)) (pv (cj k)).
Definition mx (k : nat) : nat := Nat.max (pv (nth k Ai 0)) (pv (cj k)).

Lemma Ap_len : length Ap = S n.
Proof. rewrite (wf_cp_len A Hwf). now rewrite Hsq. Qed.
Lemma Ap_mono j : j < n -> nth j Ap 0 <= nth (S j) Ap 0.
Proof. intros Hj. apply (wf_col_range A Hwf j). now rewrite Hsq. Qed.
Lemma Ap_0 : nth 0 Ap 0 = 0.
Proof. apply (wf_cp0 A Hwf). Qed.
Lemma Ap_n : nth n Ap 0 = N.
Proof. rewrite <- Hsq. apply (wf_cp_last A Hwf). Qed.
Lemma Ap_hi j : j < n -> nth (S j) Ap 0 <= N.
Proof. intros Hj. apply (wf_col_range A Hwf j). now rewrite Hsq. Qed.
Lemma Ax_len : length Ax = N.
Proof. apply (wf_vals_len A Hwf). Qed.

Lemma cj_in j k : j < n -> nth j Ap 0 <= k < nth (S j) Ap 0 -> cj k = j.
Proof. intros. unfold cj. apply col_of_in; auto. apply Ap_mono. Qed.
Lemma col_ex k : k < N -> exists j, j < n /\ nth j Ap 0 <= k < nth (S j) Ap 0.
Proof. intros Hk. apply col_exists. apply Ap_mono. rewrite Ap_0, Ap_n. lia. Qed.
Lemma Ai_le j k : j < n -> nth j Ap 0 <= k < nth (S j) Ap 0 -> nth k Ai 0 <= j.
Proof. intros Hj Hk. apply upper_only_le; auto. now rewrite Hsq. Qed.
Lemma mn_lt k : k < N -> mn k < n.
Proof.
  intros Hk. destruct (col_ex k Hk) as (j & Hj & Hr). unfold mn. rewrite (cj_in j k Hj Hr).
  pose proof (Hpr j Hj). unfold pv. lia.
Qed.
Lemma mx_lt k : k < N -> mx k < n.
Proof.
  intros Hk. destruct (col_ex k Hk) as (j & Hj & Hr). unfold mx. rewrite (cj_in j k Hj Hr).
  pose proof (Ai_le j k Hj Hr). pose proof (Hpr j Hj). pose proof (Hpr (nth k Ai 0) ltac:(lia)). unfold pv. lia.
Qed.
Lemma mn_le_mx k : mn k <= mx k.
Proof. unfold mn, mx. lia. Qed.

Notation start1 := (start mn N).
Notation pos1 := (pos mn N).

(* ---------- pass 1: count the entries of every row of C ---------- *)
Definition body1 (j k : nat) (w : list nat) : res (list nat) :=
  do i <- get Ai k ;;
  if (j <? i) then Ok w else
  do i2 <- get pinv i ;;
  incr w (if (i2 <? pv j) then i2 else pv j).

Lemma pass1 :
  exists w, for_range 0 n (fun j w =>
      do j2 <- get pinv j ;;
      do lo <- get Ap j ;; do hi <- get Ap (S j) ;;
      for_range lo hi (fun k w =>
        do i <- get Ai k ;;
        if (j <? i)%nat then Ok w else
        do i2 <- get pinv i ;;
        incr w (if (i2 <? j2)%nat then i2 else j2)) w) (repeat 0%nat n) = Ok w /\
    length w = n /\ forall r, r < n -> nth r w 0 = cntk mn N r.
Proof.
  match goal with |- exists w, for_range 0 n ?outer _ = _ /\ _ =>
    destruct (nested_ind n Ap (fun K (w : list nat) => length w = n /\ forall r, r < n -> nth r w 0 = cntk mn K r)
                outer body1 (repeat 0 n)) as (w & E & HI)
  end.
  - apply Ap_mono.
  - intros j st Hj. rewrite (get_nth pinv j 0) by lia. cbn [bind].
    rewrite (get_nth Ap j 0) by (rewrite Ap_len; lia). cbn [bind].
    rewrite (get_nth Ap (S j) 0) by (rewrite Ap_len; lia). cbn [bind]. reflexivity.
  - rewrite Ap_0. split. apply repeat_length. intros r Hr. unfold cntk. simpl. apply nth_repeat.
  - intros j K w Hj HK [Lw Hw].
    pose proof (Ap_hi j Hj) as Hhi. pose proof (Ai_le j K Hj HK) as Hle.
    unfold body1. rewrite (get_nth Ai K 0) by lia. cbn [bind].
    destruct (Nat.ltb_spec j (nth K Ai 0)); [lia|].
    rewrite (get_nth pinv _ 0) by lia. cbn [bind].
    assert (Em : (if nth (nth K Ai 0) pinv 0 <? pv j then nth (nth K Ai 0) pinv 0 else pv j) = mn K).
    { unfold mn. rewrite (cj_in j K Hj HK). unfold pv. destruct (Nat.ltb_spec (nth (nth K Ai 0) pinv 0) (nth j pinv 0)); lia. }
    rewrite Em. pose proof (mn_lt K ltac:(lia)) as Hm.
    rewrite incr_ok by lia. eexists; split; [reflexivity|]. split; [now rewrite lset_length|].
    intros r Hr. rewrite nth_lset by lia. rewrite cntk_S.
    destruct (Nat.eqb_spec r (mn K)) as [->|Hne].
    + rewrite Nat.eqb_refl. rewrite Hw by auto. lia.
    + destruct (Nat.eqb_spec (mn K) r); [congruence|]. rewrite Hw by auto. lia.
  - exists w. rewrite Ap_n in HI. auto.
Qed.

(* ---------- pass 2: bucket starts ---------- *)
Lemma pass2 (key : nat -> nat) (w : list nat) :
  length w = n -> (forall r, r < n -> nth r w 0 = cntk key N r) ->
  exists ctp w', for_range 0 n (fun i '(sum, ctp, w) =>
      do ctp <- upd ctp i sum ;;
      do wi <- get w i ;;
      do ci <- get ctp i ;;
      do w <- upd w i ci ;;
      Ok ((sum + wi)%nat, ctp, w)) (0%nat, repeat 0%nat (S n), w) = Ok (start key N n, ctp, w') /\
    length ctp = S n /\ length w' = n /\
    (forall r, r < n -> nth r ctp 0 = start key N r) /\ (forall r, r < n -> nth r w' 0 = start key N r).
Proof.
  intros Lw Hw.
  match goal with |- exists ctp w', for_range 0 n ?f ?s0 = _ /\ _ =>
    destruct (for_range_ind (fun i (s : nat * list nat * list nat) => let '(sum, ctp, w') := s in
                sum = start key N i /\ length ctp = S n /\ length w' = n /\
                (forall r, r < i -> nth r ctp 0 = start key N r) /\ (forall r, r < i -> nth r w' 0 = start key N r) /\
                (forall r, i <= r < n -> nth r w' 0 = cntk key N r)) 0 n f s0) as ([[sum ctp] w'] & E & HI)
  end.
  - lia.
  - split; [reflexivity|]. split; [apply repeat_length|]. split; auto. split; [intros; lia|]. split; [intros; lia|]. intros; apply Hw; lia.
  - intros i [[sum ctp] w'] Hi (Hs & Lc & Lw' & H1 & H2 & H3). cbv beta iota.
    rewrite upd_lset by lia. cbn [bind]. rewrite (get_nth w' i 0) by lia. cbn [bind].
    rewrite (get_nth (lset ctp i sum) i 0) by (rewrite lset_length; lia). cbn [bind].
    rewrite upd_lset by lia. cbn [bind]. eexists; split; [reflexivity|]. cbv beta iota.
    rewrite nth_lset_same by lia. rewrite !lset_length.
    split. { rewrite start_S, Hs, H3 by lia. reflexivity. }
    split; auto. split; auto. split; [|split].
    + intros r Hr. rewrite nth_lset by lia. destruct (Nat.eqb_spec r i); [subst; auto|apply H1; lia].
    + intros r Hr. rewrite nth_lset by lia. destruct (Nat.eqb_spec r i); [subst; auto|apply H2; lia].
    + intros r Hr. rewrite nth_lset_other by lia. apply H3; lia.
  - destruct HI as (Hs & Lc & Lw' & H1 & H2 & _). subst sum. exists ctp, w'. auto.
Qed.

(* the variant used for C: the counts sit in cp itself *)
Lemma pass5 (key : nat -> nat) (cp w : list nat) :
  length cp = S n -> length w = n -> (forall r, r < n -> nth r cp 0 = cntk key N r) ->
  exists cp' w', for_range 0 n (fun j '(sum2, cp, w) =>
      do tmp <- get cp j ;;
      do cp <- upd cp j sum2 ;;
      do w <- upd w j sum2 ;;
      Ok ((sum2 + tmp)%nat, cp, w)) (0%nat, cp, w) = Ok (start key N n, cp', w') /\
    length cp' = S n /\ length w' = n /\
    (forall r, r < n -> nth r cp' 0 = start key N r) /\ (forall r, r < n -> nth r w' 0 = start key N r).
Proof.
  intros Lc Lw Hc.
  match goal with |- exists cp' w', for_range 0 n ?f ?s0 = _ /\ _ =>
    destruct (for_range_ind (fun i (s : nat * list nat * list nat) => let '(sum, cp', w') := s in
                sum = start key N i /\ length cp' = S n /\ length w' = n /\
                (forall r, r < i -> nth r cp' 0 = start key N r) /\ (forall r, r < i -> nth r w' 0 = start key N r) /\
                (forall r, i <= r < n -> nth r cp' 0 = cntk key N r)) 0 n f s0) as ([[sum cp'] w'] & E & HI)
  end.
  - lia.
  - split; [reflexivity|]. split; auto. split; auto. split; [intros; lia|]. split; [intros; lia|]. intros; apply Hc; lia.
  - intros i [[sum cp'] w'] Hi (Hs & Lc' & Lw' & H1 & H2 & H3). cbv beta iota.
    rewrite (get_nth cp' i 0) by lia. cbn [bind]. rewrite upd_lset by lia. cbn [bind].
    rewrite upd_lset by lia. cbn [bind]. eexists; split; [reflexivity|]. cbv beta iota.
    rewrite !lset_length.
    split. { rewrite start_S, Hs, H3 by lia. reflexivity. }
    split; auto. split; auto. split; [|split].
    + intros r Hr. rewrite nth_lset by lia. destruct (Nat.eqb_spec r i); [subst; auto|apply H1; lia].
    + intros r Hr. rewrite nth_lset by lia. destruct (Nat.eqb_spec r i); [subst; auto|apply H2; lia].
    + intros r Hr. rewrite nth_lset_other by lia. apply H3; lia.
  - destruct HI as (Hs & Lc' & Lw' & H1 & H2 & _). subst sum. exists cp', w'. auto.
Qed.

(* ---------- pass 3: scatter into CT (sorted by min) ---------- *)
Definition body3 (j k : nat) (st : list nat * list nat * list V * list nat) : res (list nat * list nat * list V * list nat) :=
  let '(w, cti, ctx, ct2a) := st in
  do i <- get Ai k ;;
  if (j <? i)%nat then Ok (w, cti, ctx, ct2a) else
  do i2 <- get pinv i ;;
  let m := if (i2 <? pv j)%nat then i2 else pv j in
  do q <- get w m ;; do w <- upd w m (S q) ;;
  do cti <- upd cti q (if (pv j <? i2)%nat then i2 else pv j) ;;
  do v <- get Ax k ;;
  do ctx <- upd ctx q v ;;
  do ct2a <- upd ct2a q k ;;
  Ok (w, cti, ctx, ct2a).

Definition Inv3 (K : nat) (st : list nat * list nat * list V * list nat) : Prop :=
  let '(w, cti, ctx, ct2a) := st in
  length w = n /\ length cti = N /\ length ctx = N /\ length ct2a = N /\
  (forall r, r < n -> nth r w 0 = start1 r + cntk mn K r) /\
  (forall k, k < K -> nth (pos1 k) cti 0 = mx k /\ nth (pos1 k) ctx d = nth k Ax d /\ nth (pos1 k) ct2a 0 = k).

Lemma pass3 (w : list nat) :
  length w = n -> (forall r, r < n -> nth r w 0 = start1 r) ->
  exists st, for_range 0 n (fun j st =>
      do j2 <- get pinv j ;;
      do lo <- get Ap j ;; do kk <- get Ap (S j) ;;
      for_range lo kk (fun k '(w, cti, ctx, ct2a) =>
        do i <- get Ai k ;;
        if (j <? i)%nat then Ok (w, cti, ctx, ct2a) else
        do i2 <- get pinv i ;;
        let m := if (i2 <? j2)%nat then i2 else j2 in
        do q <- get w m ;; do w <- upd w m (S q) ;;
        do cti <- upd cti q (if (j2 <? i2)%nat then i2 else j2) ;;
        do v <- get Ax k ;;
        do ctx <- upd ctx q v ;;
        do ct2a <- upd ct2a q k ;;
        Ok (w, cti, ctx, ct2a)) st) (w, repeat 0%nat N, repeat d N, repeat 0%nat N) = Ok st /\ Inv3 N st.
Proof.
  intros Lw Hw.
  match goal with |- exists st, for_range 0 n ?outer ?s0 = _ /\ _ =>
    destruct (nested_ind n Ap Inv3 outer body3 s0) as (st & E & HI)
  end.
  - apply Ap_mono.
  - intros j st Hj. rewrite (get_nth pinv j 0) by lia. cbn [bind].
    rewrite (get_nth Ap j 0) by (rewrite Ap_len; lia). cbn [bind].
    rewrite (get_nth Ap (S j) 0) by (rewrite Ap_len; lia). cbn [bind]. reflexivity.
  - rewrite Ap_0. unfold Inv3. rewrite !repeat_length. repeat split; auto.
    + intros r Hr. rewrite Hw by auto. unfold cntk. simpl. lia.
    + lia.
    + lia.
    + lia.
  - intros j K [[[w0 cti] ctx] ct2a] Hj HK (Lw0 & Lci & Lcx & Lc2 & Hw0 & Hdone).
    pose proof (Ap_hi j Hj) as Hhi. pose proof (Ai_le j K Hj HK) as Hle.
    assert (HKN : K < N) by lia.
    unfold body3. rewrite (get_nth Ai K 0) by lia. cbn [bind].
    destruct (Nat.ltb_spec j (nth K Ai 0)); [lia|].
    rewrite (get_nth pinv _ 0) by lia. cbn [bind]. cbv zeta.
    assert (Em : (if nth (nth K Ai 0) pinv 0 <? pv j then nth (nth K Ai 0) pinv 0 else pv j) = mn K).
    { unfold mn. rewrite (cj_in j K Hj HK). unfold pv. destruct (Nat.ltb_spec (nth (nth K Ai 0) pinv 0) (nth j pinv 0)); lia. }
    assert (Ex : (if pv j <? nth (nth K Ai 0) pinv 0 then nth (nth K Ai 0) pinv 0 else pv j) = mx K).
    { unfold mx. rewrite (cj_in j K Hj HK). unfold pv. destruct (Nat.ltb_spec (nth j pinv 0) (nth (nth K Ai 0) pinv 0)); lia. }
    rewrite Em, Ex. pose proof (mn_lt K HKN) as Hm.
    rewrite (get_nth w0 (mn K) 0) by lia. cbn [bind].
    assert (Eq : nth (mn K) w0 0 = pos1 K) by (rewrite Hw0 by auto; reflexivity).
    rewrite Eq. pose proof (pos_lt mn N n mn_lt K HKN) as Hq.
    rewrite upd_lset by lia. cbn [bind]. rewrite upd_lset by lia. cbn [bind].
    rewrite (get_nth Ax K d) by (rewrite Ax_len; lia). cbn [bind].
    rewrite upd_lset by lia. cbn [bind]. rewrite upd_lset by lia. cbn [bind].
    eexists; split; [reflexivity|]. unfold Inv3. rewrite !lset_length.
    split; auto. split; auto. split; auto. split; auto. split.
    + intros r Hr. rewrite nth_lset by lia. rewrite cntk_S.
      destruct (Nat.eqb_spec r (mn K)) as [->|Hne].
      * rewrite Nat.eqb_refl. unfold pos. lia.
      * destruct (Nat.eqb_spec (mn K) r); [congruence|]. rewrite Hw0 by auto. lia.
    + intros k Hk. destruct (Nat.eq_dec k K) as [->|Hne].
      * rewrite !nth_lset_same by lia. auto.
      * assert (pos1 k <> pos1 K) by (apply pos_inj_lt; auto; lia).
        rewrite !nth_lset_other by lia. apply Hdone. lia.
  - exists st. rewrite Ap_n in HI. auto.
Qed.

(* ================= second half: CT -> C ================= *)
Section Second.
Variables (ctp cti : list nat) (ctx : list V) (ct2a : list nat).
Hypothesis Lctp : length ctp = S n.
Hypothesis Lcti : length cti = N.
Hypothesis Lctx : length ctx = N.
Hypothesis Lct2a : length ct2a = N.
Hypothesis Hctp : forall r, r <= n -> nth r ctp 0 = start1 r.
Hypothesis Hct : forall k, k < N -> nth (pos1 k) cti 0 = mx k /\ nth (pos1 k) ctx d = nth k Ax d /\ nth (pos1 k) ct2a 0 = k.

Definition key2 (q : nat) : nat := nth q cti 0.
Notation start2 := (start key2 N).
Notation pos2 := (pos key2 N).

Lemma key2_lt q : q < N -> key2 q < n.
Proof.
  intros Hq. destruct (pos_surj mn N n mn_lt q Hq) as (k & Hk & <-). unfold key2.
  destruct (Hct k Hk) as (-> & _). now apply mx_lt.
Qed.
Lemma ct2a_lt q : q < N -> nth q ct2a 0 < N.
Proof. intros Hq. destruct (pos_surj mn N n mn_lt q Hq) as (k & Hk & <-). destruct (Hct k Hk) as (_ & _ & ->). auto. Qed.
Lemma ct2a_inj q q' : q < N -> q' < N -> nth q ct2a 0 = nth q' ct2a 0 -> q = q'.
Proof.
  intros Hq Hq' E. destruct (pos_surj mn N n mn_lt q Hq) as (k & Hk & <-). destruct (pos_surj mn N n mn_lt q' Hq') as (k' & Hk' & <-).
  destruct (Hct k Hk) as (_ & _ & E1). destruct (Hct k' Hk') as (_ & _ & E2). congruence.
Qed.
Lemma ctp_mono j : j < n -> nth j ctp 0 <= nth (S j) ctp 0.
Proof. intros Hj. rewrite !Hctp by lia. apply start_le. lia. Qed.
Lemma ctp_0 : nth 0 ctp 0 = 0.
Proof. rewrite Hctp by lia. reflexivity. Qed.
Lemma ctp_n : nth n ctp 0 = N.
Proof. rewrite Hctp by lia. apply start_n. apply mn_lt. Qed.
Lemma ctp_hi j : j < n -> nth (S j) ctp 0 <= N.
Proof.
  intros Hj. rewrite Hctp by lia. pose proof (start_n mn N n mn_lt) as E.
  assert (start1 (S j) <= start1 n) by (apply start_le; lia). lia.
Qed.
(* the CT-column of the image of entry k is its min *)
Lemma ctcol_pos1 k : k < N -> col_of ctp n (pos1 k) = mn k.
Proof.
  intros Hk. apply col_of_in. apply ctp_mono. now apply mn_lt.
  pose proof (mn_lt k Hk). rewrite !Hctp by lia. apply pos_range. auto.
Qed.

(* ---------- pass 4 ---------- *)
Definition body4 (j k : nat) (cp : list nat) : res (list nat) := do i <- get cti k ;; incr cp i.

Lemma pass4 :
  exists cp, for_range 0 n (fun j cp =>
      do lo <- get ctp j ;; do hi <- get ctp (S j) ;;
      for_range lo hi (fun k cp => do i <- get cti k ;; incr cp i) cp) (repeat 0%nat (S n)) = Ok cp /\
    length cp = S n /\ forall r, r < n -> nth r cp 0 = cntk key2 N r.
Proof.
  match goal with |- context [for_range 0 n ?outer (repeat 0 (S n))] =>
    destruct (nested_ind n ctp (fun K (w : list nat) => length w = S n /\ forall r, r < n -> nth r w 0 = cntk key2 K r)
                outer body4 (repeat 0 (S n))) as (w & E & HI)
  end.
  - apply ctp_mono.
  - intros j st Hj. rewrite (get_nth ctp j 0) by lia. cbn [bind].
    rewrite (get_nth ctp (S j) 0) by lia. cbn [bind]. reflexivity.
  - rewrite ctp_0. split. apply repeat_length. intros r Hr. change (cntk key2 0 r) with 0. apply nth_repeat.
  - intros j K w Hj HK [Lw Hw]. pose proof (ctp_hi j Hj) as Hhi. assert (HKN : K < N) by lia.
    unfold body4. rewrite (get_nth cti K 0) by lia. cbn [bind]. fold (key2 K).
    pose proof (key2_lt K HKN) as Hm.
    rewrite incr_ok by lia. eexists; split; [reflexivity|]. split; [now rewrite lset_length|].
    intros r Hr. rewrite nth_lset by lia. rewrite cntk_S.
    destruct (Nat.eqb_spec r (key2 K)) as [->|Hne].
    + rewrite Nat.eqb_refl. rewrite Hw by auto. lia.
    + destruct (Nat.eqb_spec (key2 K) r); [congruence|]. rewrite Hw by auto. lia.
  - exists w. rewrite ctp_n in HI. auto.
Qed.

(* ---------- pass 6: scatter into C (sorted by max, stable => by (max, min)) ---------- *)
Definition body6 (j k : nat) (st : list nat * list nat * list V * list nat) : res (list nat * list nat * list V * list nat) :=
  let '(w, ci, cx, a2c) := st in
  do i <- get cti k ;;
  do q <- get w i ;; do w <- upd w i (S q) ;;
  do ci <- upd ci q j ;;
  do v <- get ctx k ;;
  do cx <- upd cx q v ;;
  do src <- get ct2a k ;;
  do a2c <- upd a2c src q ;;
  Ok (w, ci, cx, a2c).

Definition Inv6 (Q : nat) (st : list nat * list nat * list V * list nat) : Prop :=
  let '(w, ci, cx, a2c) := st in
  length w = n /\ length ci = N /\ length cx = N /\ length a2c = N /\
  (forall r, r < n -> nth r w 0 = start2 r + cntk key2 Q r) /\
  (forall q, q < Q -> nth (pos2 q) ci 0 = col_of ctp n q /\ nth (pos2 q) cx d = nth q ctx d /\ nth (nth q ct2a 0) a2c 0 = pos2 q).

Lemma pass6 (w : list nat) :
  length w = n -> (forall r, r < n -> nth r w 0 = start2 r) ->
  exists st, for_range 0 n (fun j st =>
      do lo <- get ctp j ;; do kk <- get ctp (S j) ;;
      for_range lo kk (fun k '(w, ci, cx, a2c) =>
        do i <- get cti k ;;
        do q <- get w i ;; do w <- upd w i (S q) ;;
        do ci <- upd ci q j ;;
        do v <- get ctx k ;;
        do cx <- upd cx q v ;;
        do src <- get ct2a k ;;
        do a2c <- upd a2c src q ;;
        Ok (w, ci, cx, a2c)) st) (w, repeat 0%nat N, repeat d N, repeat 0%nat N) = Ok st /\ Inv6 N st.
Proof.
  intros Lw Hw.
  match goal with |- exists st, for_range 0 n ?outer ?s0 = _ /\ _ =>
    destruct (nested_ind n ctp Inv6 outer body6 s0) as (st & E & HI)
  end.
  - apply ctp_mono.
  - intros j st Hj. rewrite (get_nth ctp j 0) by lia. cbn [bind].
    rewrite (get_nth ctp (S j) 0) by lia. cbn [bind]. reflexivity.
  - rewrite ctp_0. unfold Inv6. rewrite !repeat_length. repeat split; auto.
    + intros r Hr. rewrite Hw by auto. unfold cntk. simpl. lia.
    + lia.
    + lia.
    + lia.
  - intros j K [[[w0 ci] cx] a2c] Hj HK (Lw0 & Lci & Lcx & La & Hw0 & Hdone).
    pose proof (ctp_hi j Hj) as Hhi. assert (HKN : K < N) by lia.
    unfold body6. rewrite (get_nth cti K 0) by lia. cbn [bind]. fold (key2 K).
    pose proof (key2_lt K HKN) as Hm.
    rewrite (get_nth w0 (key2 K) 0) by lia. cbn [bind].
    assert (Eq : nth (key2 K) w0 0 = pos2 K) by (rewrite Hw0 by auto; reflexivity).
    rewrite Eq. pose proof (pos_lt key2 N n key2_lt K HKN) as Hq.
    rewrite upd_lset by lia. cbn [bind]. rewrite upd_lset by lia. cbn [bind].
    rewrite (get_nth ctx K d) by lia. cbn [bind].
    rewrite upd_lset by lia. cbn [bind].
    rewrite (get_nth ct2a K 0) by lia. cbn [bind].
    pose proof (ct2a_lt K HKN) as Hsrc.
    rewrite upd_lset by lia. cbn [bind].
    eexists; split; [reflexivity|]. unfold Inv6. rewrite !lset_length.
    split; auto. split; auto. split; auto. split; auto. split.
    + intros r Hr. rewrite nth_lset by lia. rewrite cntk_S.
      destruct (Nat.eqb_spec r (key2 K)) as [->|Hne].
      * rewrite Nat.eqb_refl. unfold pos. lia.
      * destruct (Nat.eqb_spec (key2 K) r); [congruence|]. rewrite Hw0 by auto. lia.
    + intros q Hq'. destruct (Nat.eq_dec q K) as [->|Hne].
      * rewrite !nth_lset_same by lia. split; auto. symmetry. apply col_of_in; auto. apply ctp_mono.
      * assert (pos2 q <> pos2 K) by (apply pos_inj_lt; auto; try lia; apply key2_lt).
        assert (nth q ct2a 0 <> nth K ct2a 0) by (intros Ec; apply ct2a_inj in Ec; lia).
        rewrite !nth_lset_other by lia. apply Hdone. lia.
  - exists st. rewrite ctp_n in HI. auto.
Qed.
End Second.

(* ================= the specification ================= *)
Definition permute_post (r : csc V * list nat) : Prop :=
  let C := fst r in let a2c := snd r in
  nrows C = n /\ ncols C = n /\ wf_csc C = true /\ upper_only C = true /\
  length (rowind C) = N /\ length a2c = N /\
  (forall k, k < N -> nth k a2c 0 < N) /\
  (forall k k', k < N -> k' < N -> nth k a2c 0 = nth k' a2c 0 -> k = k') /\
  (forall j k, j < n -> nth j Ap 0 <= k < nth (S j) Ap 0 ->
     let i2 := nth (nth k Ai 0) pinv 0 in let j2 := nth j pinv 0 in let q := nth k a2c 0 in
     nth (Nat.max i2 j2) (colptr C) 0 <= q < nth (S (Nat.max i2 j2)) (colptr C) 0 /\
     nth q (rowind C) 0 = Nat.min i2 j2 /\ nth q (vals C) d = nth k Ax d).

Theorem permute_sym_run : exists r, permute_sym d A pinv = Ok r /\ permute_post r.
Proof.
  unfold permute_sym.
  destruct pass1 as (w1 & E1 & Lw1 & Hw1). run E1.
  destruct (pass2 mn w1 Lw1 Hw1) as (ctp0 & w2 & E2 & Lctp0 & Lw2 & Hctp0 & Hw2). run E2.
  rewrite upd_lset by lia. cbn [bind].
  rewrite (start_n mn N n mn_lt).
  destruct (pass3 w2 Lw2 Hw2) as ([[[w3 cti] ctx] ct2a] & E3 & (Lw3 & Lcti & Lctx & Lct2a & Hw3 & Hct)). run E3.
  set (ctp := lset ctp0 n N) in *.
  assert (Lctp : length ctp = S n) by (unfold ctp; now rewrite lset_length).
  assert (Hctp : forall r, r <= n -> nth r ctp 0 = start1 r).
  { intros r Hr. unfold ctp. rewrite nth_lset by lia. destruct (Nat.eqb_spec r n).
    - subst r. symmetry. apply start_n. apply mn_lt.
    - apply Hctp0. lia. }
  pose proof (pass4 ctp cti ctx ct2a) as P4. spec_props P4. destruct P4 as (cp0 & E4 & Lcp0 & Hcp0). run E4.
  destruct (pass5 (key2 cti) cp0 w3 Lcp0 Lw3 Hcp0) as (cp1 & w4 & E5 & Lcp1 & Lw4 & Hcp1 & Hw4). run E5.
  rewrite upd_lset by lia. cbn [bind].
  pose proof (key2_lt cti ctx ct2a) as K2. spec_props K2.
  rewrite (start_n (key2 cti) N n K2).
  pose proof (pass6 ctp cti ctx ct2a) as P6. spec_props P6.
  destruct (P6 w4 Lw4 Hw4) as ([[[w5 ci] cx] a2c] & E6 & (Lw5 & Lci & Lcx & La & Hw5 & Hfin)). run E6.
  eexists; split; [reflexivity|].
  set (cp := lset cp1 n N).
  assert (Lcp : length cp = S n) by (unfold cp; now rewrite lset_length).
  assert (Hcp : forall r, r <= n -> nth r cp 0 = start (key2 cti) N r).
  { intros r Hr. unfold cp. rewrite nth_lset by lia. destruct (Nat.eqb_spec r n).
    - subst r. symmetry. apply start_n. exact K2.
    - apply Hcp1. lia. }
  (* where entry k of A ends up *)
  assert (Hk0 : forall k, k < N ->
     nth k a2c 0 = pos (key2 cti) N (pos1 k) /\ nth (nth k a2c 0) ci 0 = mn k /\ nth (nth k a2c 0) cx d = nth k Ax d /\
     key2 cti (pos1 k) = mx k /\ pos1 k < N).
  { intros k Hk. pose proof (pos_lt mn N n mn_lt k Hk) as Hq. destruct (Hct k Hk) as (C1 & C2 & C3).
    destruct (Hfin (pos1 k) Hq) as (F1 & F2 & F3). rewrite C3 in F3. rewrite F3.
    split; auto. split; [|split; [|split]]; auto.
    - rewrite F1. pose proof (ctcol_pos1 ctp cti ctx ct2a) as CP. spec_props CP. apply CP; auto.
    - rewrite F2. auto. }
  assert (Hsurj : forall q', q' < N -> exists k, k < N /\ nth k a2c 0 = q').
  { intros q' Hq'. destruct (pos_surj (key2 cti) N n K2 q' Hq') as (q & Hq & Eq).
    destruct (pos_surj mn N n mn_lt q Hq) as (k & Hk & Ek). exists k. split; auto.
    destruct (Hk0 k Hk) as (-> & _). now rewrite Ek. }
  assert (Hcpmono : forall j, j < n -> nth j cp 0 <= nth (S j) cp 0).
  { intros j Hj. rewrite !Hcp by lia. apply start_le. lia. }
  unfold permute_post. cbn [fst snd nrows ncols colptr rowind vals]. fold cp.
  split; auto. split; auto. split; [|split; [|split; [|split; [|split; [|split]]]]]; auto.
  - (* wf_csc C *)
    unfold wf_csc. cbn [nrows ncols colptr rowind vals]. rewrite !andb_true_iff. repeat split.
    + apply Nat.eqb_eq. auto.
    + apply Nat.eqb_eq. rewrite (nth_indep cp 1 0) by lia. rewrite Hcp by lia. reflexivity.
    + apply nondecb_of_mono. intros j Hj. apply Hcpmono. lia.
    + apply Nat.eqb_eq. rewrite Hcp by lia. rewrite (start_n _ N n K2). auto.
    + apply Nat.eqb_eq. lia.
    + apply forallb_forall. intros x Hx. destruct (In_nth ci x 0 Hx) as (q' & Hq' & <-).
      rewrite Lci in Hq'. destruct (Hsurj q' Hq') as (k & Hk & <-). destruct (Hk0 k Hk) as (_ & -> & _).
      apply Nat.ltb_lt. now apply mn_lt.
  - (* upper_only C *)
    unfold upper_only. cbn [nrows ncols colptr rowind vals]. apply forallb_forall. intros c Hc. apply in_seq in Hc.
    apply forallb_forall. intros q' Hq'. apply in_seq in Hq'. apply Nat.leb_le.
    assert (Hq'N : q' < N).
    { assert (nth (S c) cp 0 <= nth n cp 0) by (apply (P_le cp n Hcpmono); lia).
      rewrite (Hcp n) in H by lia. rewrite (start_n _ N n K2) in H. lia. }
    destruct (Hsurj q' Hq'N) as (k & Hk & Eq'). destruct (Hk0 k Hk) as (Ea & Eci & _ & Ekey & HqN).
    rewrite <- Eq', Eci.
    assert (key2 cti (pos1 k) = c).
    { apply (bucket_of_pos (key2 cti) N); auto. rewrite <- !Hcp by lia. rewrite <- Ea, Eq'. lia. }
    pose proof (mn_le_mx k). lia.
  - intros k Hk. destruct (Hk0 k Hk) as (-> & _ & _ & _ & HqN). apply (pos_lt _ N n K2); auto.
  - intros k k' Hk Hk' E. destruct (Hk0 k Hk) as (Ea & _ & _ & _ & HqN). destruct (Hk0 k' Hk') as (Ea' & _ & _ & _ & HqN').
    rewrite Ea, Ea' in E. apply (pos_inj _ N) in E; auto. apply (pos_inj mn N) in E; auto.
  - intros j k Hj Hkr. cbv zeta. pose proof (Ap_hi j Hj). assert (Hk : k < N) by lia.
    destruct (Hk0 k Hk) as (Ea & Eci & Ecx & Ekey & HqN).
    assert (Emx : Nat.max (nth (nth k Ai 0) pinv 0) (nth j pinv 0) = mx k) by (unfold mx, pv; now rewrite (cj_in j k Hj Hkr)).
    assert (Emn : Nat.min (nth (nth k Ai 0) pinv 0) (nth j pinv 0) = mn k) by (unfold mn, pv; now rewrite (cj_in j k Hj Hkr)).
    rewrite Emx, Emn. pose proof (mx_lt k Hk). split; [|split]; auto.
    rewrite !Hcp by lia. rewrite Ea, <- Ekey. apply pos_range; auto.
Qed.
End PermGen.

(* ================= with the ordering object: pinv = ordering.inv ================= *)
Theorem permute_sym_spec_ord {V} (d : V) (A : csc V) (P : list nat) :
  wf_csc A = true -> ncols A = nrows A -> upper_only A = true -> perm_wf P -> length P = nrows A ->
  exists o C a2c, ordering_init P = Ok o /\ oP o = P /\
    (forall i, i < nrows A -> nth (nth i P 0) (oPinv o) 0 = i) /\
    (forall i, i < nrows A -> nth i (oPinv o) 0 < nrows A /\ nth (nth i (oPinv o) 0) P 0 = i) /\
    permute_sym d A (oPinv o) = Ok (C, a2c) /\ permute_post d A (oPinv o) (C, a2c).
Proof.
  intros Hwf Hsq Hup HP HL.
  destruct (ordering_init_correct P HP) as (o & Eo & EP & Lo & H1 & H2). rewrite HL in *.
  destruct (permute_sym_run d A (oPinv o) Hwf Hsq Hup Lo) as ([C a2c] & E & Hpost).
  { intros i Hi. apply H2; auto. }
  exists o, C, a2c. auto 10.
Qed.

(* ================= entries of the permuted matrix (F-valued, injective pinv) ================= *)
Lemma window_true lo len q : lo <= q < lo + len -> (lo <=? q) && (q <? lo + len) = true.
Proof. intros H. destruct (Nat.leb_spec lo q), (Nat.ltb_spec q (lo + len)); auto; lia. Qed.
Lemma window_false lo len q : ~ (lo <= q < lo + len) -> (lo <=? q) && (q <? lo + len) = false.
Proof. intros H. destruct (Nat.leb_spec lo q), (Nat.ltb_spec q (lo + len)); auto; lia. Qed.

Section PermGet.
Variable d : F.
Variable A : csc F.
Variable pinv : list nat.
Hypothesis Hwf : wf_csc A = true.
Hypothesis Hsq : ncols A = nrows A.
Hypothesis Hup : upper_only A = true.
Hypothesis Hpl : length pinv = nrows A.
Hypothesis Hpr : forall i, i < nrows A -> nth i pinv 0 < nrows A.
Hypothesis Hinj : forall i j, i < nrows A -> j < nrows A -> nth i pinv 0 = nth j pinv 0 -> i = j.

Notation n := (nrows A).
Notation N := (length (rowind A)).

Theorem permute_sym_get :
  exists C a2c, permute_sym d A pinv = Ok (C, a2c) /\ permute_post d A pinv (C, a2c) /\
    forall i j, i <= j -> j < n ->
      csc_get C (Nat.min (nth i pinv 0) (nth j pinv 0)) (Nat.max (nth i pinv 0) (nth j pinv 0)) = csc_get A i j.
Proof.
  destruct (permute_sym_run d A pinv Hwf Hsq Hup Hpl Hpr) as ([C a2c] & E & Hpost).
  exists C, a2c. split; auto. split; auto. intros i j Hij Hj.
  destruct Hpost as (Hr & Hc & HwfC & HupC & LC & La & Hlt & Hinj2 & Hent). cbn [fst snd] in *.
  set (r := Nat.min (nth i pinv 0) (nth j pinv 0)). set (c := Nat.max (nth i pinv 0) (nth j pinv 0)).
  assert (Hcn : c < n). { pose proof (Hpr i ltac:(lia)). pose proof (Hpr j Hj). unfold c. lia. }
  assert (AM : forall j, j < n -> nth j (colptr A) 0 <= nth (S j) (colptr A) 0).
  { intros j0 Hj0. apply (wf_col_range A Hwf j0). lia. }
  assert (AH : nth (S j) (colptr A) 0 <= N) by (apply (wf_col_range A Hwf j); lia).
  assert (CM : forall j, j < n -> nth j (colptr C) 0 <= nth (S j) (colptr C) 0).
  { intros j0 Hj0. apply (wf_col_range C HwfC). lia. }
  assert (CH : nth (S c) (colptr C) 0 <= N). { rewrite <- LC. apply (wf_col_range C HwfC). lia. }
  pose proof (CM c Hcn) as CMc. pose proof (AM j Hj) as AMj.
  unfold csc_get.
  rewrite (qsum_window _ (nth c (colptr C) 0) _ N) by lia.
  rewrite (qsum_window _ (nth j (colptr A) 0) _ N) by lia.
  (* reindex the sum over the positions of C by AtoC *)
  assert (Hperm : Permutation (map (fun k => nth k a2c 0) (seq 0 N)) (seq 0 N)).
  { apply NoDup_Permutation_bis.
    - apply NoDup_map_inj_in; [|apply seq_NoDup]. intros a b Ha Hb. apply in_seq in Ha, Hb. apply Hinj2; lia.
    - rewrite map_length. lia.
    - intros y Hy. apply in_map_iff in Hy. destruct Hy as (k & <- & Hk). apply in_seq in Hk. apply in_seq.
      pose proof (Hlt k ltac:(lia)). lia. }
  rewrite <- (qsum_perm _ _ _ Hperm). rewrite map_map.
  apply qsum_map_ext. intros k Hk. apply in_seq in Hk. assert (HkN : k < N) by lia.
  destruct (col_exists (colptr A) n AM k) as (j0 & Hj0 & Hr0).
  { rewrite (wf_cp0 A Hwf). rewrite <- Hsq at 1. rewrite (wf_cp_last A Hwf). lia. }
  assert (Hle0 : nth k (rowind A) 0 <= j0) by (apply upper_only_le; auto; lia).
  destruct (Hent j0 k Hj0 Hr0) as (Hwin & Hci & Hcx). cbv zeta in Hwin, Hci, Hcx.
  pose proof (Hlt k HkN) as Hq.
  rewrite (nth_indep (vals C) d 0%Qc) in Hcx by (rewrite (wf_vals_len C HwfC); lia).
  rewrite (nth_indep (vals A) d 0%Qc) in Hcx by (rewrite (wf_vals_len A Hwf); lia).
  set (i0 := nth k (rowind A) 0) in *.
  assert (Hi0 : i0 < n) by lia.
  pose proof (Hpr i0 Hi0) as P1. pose proof (Hpr j0 Hj0) as P2. pose proof (Hpr i ltac:(lia)) as P3. pose proof (Hpr j Hj) as P4.
  set (c0 := Nat.max (nth i0 pinv 0) (nth j0 pinv 0)) in *.
  assert (Hc0 : c0 < n) by (unfold c0; lia).
  destruct (Nat.eq_dec j0 j) as [Ej|Nj].
  - subst j0. rewrite (window_true (nth j (colptr A) 0)) by lia.
    destruct (Nat.eqb_spec i0 i) as [Ei|Ni].
    + subst i. assert (Ec : c0 = c) by reflexivity. rewrite Ec in Hwin.
      assert (Er : Nat.min (nth i0 pinv 0) (nth j pinv 0) = r) by reflexivity. rewrite Er in Hci.
      rewrite (window_true (nth c (colptr C) 0)) by lia.
      rewrite Hci, Nat.eqb_refl. exact Hcx.
    + (* same column, another row: not the (r,c) entry of C *)
      destruct (Nat.eq_dec c0 c) as [Ec|Nc].
      * rewrite Ec in *. rewrite (window_true (nth c (colptr C) 0)) by lia. rewrite Hci.
        destruct (Nat.eqb_spec (Nat.min (nth i0 pinv 0) (nth j pinv 0)) r) as [Er|]; auto.
        exfalso. unfold c0, c in Ec. unfold r in Er.
        assert (nth i0 pinv 0 = nth i pinv 0) by lia. apply Ni. apply Hinj; auto; lia.
      * rewrite (window_false (nth c (colptr C) 0)); auto. intros Hw. apply Nc.
        apply (col_unique (colptr C) n CM c0 c (nth k a2c 0)); auto; lia.
  - rewrite (window_false (nth j (colptr A) 0)).
    2:{ intros Hw. apply Nj. apply (col_unique (colptr A) n AM j0 j k); auto; lia. }
    destruct (Nat.eq_dec c0 c) as [Ec|Nc].
    + rewrite Ec in *. rewrite (window_true (nth c (colptr C) 0)) by lia. rewrite Hci.
      destruct (Nat.eqb_spec (Nat.min (nth i0 pinv 0) (nth j0 pinv 0)) r) as [Er|]; auto.
      exfalso. unfold c0, c in Ec. unfold r in Er.
      assert (Hcase : (nth i0 pinv 0 = nth i pinv 0 /\ nth j0 pinv 0 = nth j pinv 0) \/
                      (nth i0 pinv 0 = nth j pinv 0 /\ nth j0 pinv 0 = nth i pinv 0)) by lia.
      destruct Hcase as [[E1 E2]|[E1 E2]].
      * apply Hinj in E2; auto.
      * apply Hinj in E1; auto. apply Hinj in E2; auto; lia.
    + rewrite (window_false (nth c (colptr C) 0)); auto. intros Hw. apply Nc.
      apply (col_unique (colptr C) n CM c0 c (nth k a2c 0)); auto; lia.
Qed.
End PermGet.
