(* ResidExample.v -- a concrete instance (n=2, p=1, m=1, one lower bound on x0, one upper bound on x1,
   non-unit scalings c=3, dx=(2,1/2), dy=4, dz=1/4, dlb=5, dub=1/3) showing that the hypotheses of the
   theorems of ResidProofs/ResidLoopProofs are satisfiable and that their conclusions are non-trivial. *)
From PIQP Require Import Base Data Bounds PrecondDense KKTDense IPM API ResidLemmas ResidSpec ResidProofs ResidLoopProofs.
From PIQP.gen Require Import Consts.
From RecordUpdate Require Import RecordSet.
Import RecordSetNotations.
Local Open Scope Qc_scope.

Definition q (a : Z) (b : positive) : F := qmk a b.
Definition tbl (l : list F) (i : nat) : F := nth i l 0.
Definition tbl2 (l : list (list F)) (i j : nat) : F := nth j (nth i l []) 0.

(* user problem:  P = [[2,1],[1,2]], c = (-4/5,-4), A = [1 1], b = 1, G = [1 -1], h = 2, x0 >= -1, x1 <= 3 *)
Definition exU : UserQP :=
  {| u_P := tbl2 [[q 2 1; q 1 1]; [q 77 1; q 2 1]];     (* the entry below the diagonal is never read *)
     u_c := tbl [q (-4) 5; q (-4) 1];
     u_A := tbl2 [[q 1 1; q 1 1]];
     u_b := tbl [q 1 1];
     u_G := tbl2 [[q 1 1; q (-1) 1]];
     u_h := tbl [q 2 1];
     u_lb := tbl [q (-1) 1; q 0 1];
     u_ub := tbl [q 0 1; q 3 1] |}.

Definition expc : Precond :=
  {| pc_ident := false; pc_n := 2; pc_p := 1; pc_m := 1; pc_nlb := 1; pc_nub := 1;
     pc_c := q 3 1; pc_delta := [q 2 1; q 1 2; q 4 1; q 1 4]; pc_delta_lb := [q 5 1; q 1 1]; pc_delta_ub := [q 1 3; q 1 1];
     pc_c_inv := q 1 3; pc_delta_inv := [q 1 2; q 2 1; q 1 4; q 4 1];
     pc_delta_lb_inv := [q 1 5; q 77 1]; pc_delta_ub_inv := [q 3 1; q 1 1] |}.

Definition exd : Data :=
  {| d_n := 2; d_p := 1; d_m := 1;
     d_P := [[q 24 1; q 0 1]; [q 3 1; q 3 2]];
     d_AT := [[q 8 1; q 2 1]];
     d_GT := [[q 1 2; q (-1) 8]];
     d_c := [q (-24) 5; q (-6) 1]; d_b := [q 4 1]; d_h := [q 1 2];
     d_lb_idx := [0%nat]; d_ub_idx := [1%nat];
     d_lb_scaling := [q 10 1; q 7 1]; d_ub_scaling := [q 1 6; q 9 1];
     d_lb_n := [q 5 1]; d_ub := [q 1 1] |}.

(* the scaled image of the KKT point x=(-1,2), y=1, z=0, z_lb=1/5, z_ub=0, s=5, s_lb=0, s_ub=1 *)
Definition exit_opt : Iterate :=
  {| x := [q (-1) 2; q 4 1]; y := [q 3 4]; z := [q 0 1]; z_lb := [q 3 25]; z_ub := [q 0 1];
     s := [q 5 4]; s_lb := [q 0 1]; s_ub := [q 1 3];
     zeta := []; lambda := []; nu := []; nu_lb := []; nu_ub := [] |}.
(* an arbitrary interior point *)
Definition exit_any : Iterate :=
  {| x := [q 1 3; q (-2) 7]; y := [q 5 3]; z := [q 2 9]; z_lb := [q 1 11]; z_ub := [q 4 1];
     s := [q 3 2]; s_lb := [q 1 8]; s_ub := [q 6 5];
     zeta := []; lambda := []; nu := []; nu_lb := []; nu_ub := [] |}.

Definition exinfo : Info := empty_info default_settings.
Definition exS : Settings := default_settings.

Definition veqb (a b : Vec) : bool :=
  Nat.eqb (length a) (length b) && forallb (fun pq => qeqb (fst pq) (snd pq)) (combine a b).

Ltac qc_eq := apply Qc_is_canon; vm_compute; reflexivity.
Ltac qc_lt := unfold Qclt; vm_compute; reflexivity.

Lemma ex_data_shape : data_shape exd.
Proof.
  split; try reflexivity; try (cbn; lia).
  - split; [reflexivity|]. repeat constructor.
  - split; [reflexivity|]. repeat constructor.
  - split; [reflexivity|]. repeat constructor.
  - repeat constructor.
  - repeat constructor.
Qed.
Lemma ex_pc_shape : pc_shape expc exd.
Proof. split; try reflexivity; cbn; lia. Qed.
Lemma ex_pc_inverse : pc_inverse expc exd.
Proof.
  split.
  - qc_eq.
  - intros i Hi. cbn in Hi. destruct i as [|[|[|[|i]]]]; try lia; qc_eq.
  - intros k Hk. cbn in Hk. destruct k as [|k]; try lia; qc_eq.
  - intros k Hk. cbn in Hk. destruct k as [|k]; try lia; qc_eq.
Qed.
Lemma ex_pc_positive : pc_positive expc exd.
Proof.
  split.
  - qc_lt.
  - intros i Hi. cbn in Hi. destruct i as [|[|[|[|i]]]]; try lia; qc_lt.
  - intros k Hk. cbn in Hk. destruct k as [|k]; try lia; qc_lt.
  - intros k Hk. cbn in Hk. destruct k as [|k]; try lia; qc_lt.
Qed.
Lemma ex_is_scaled : is_scaled_of expc exd exU.
Proof.
  split.
  - intros i j H1 H2. cbn in H2. destruct i as [|[|i]], j as [|[|j]]; try lia; qc_eq.
  - intros i Hi. cbn in Hi. destruct i as [|[|i]]; try lia; qc_eq.
  - intros i k Hi Hk. cbn in Hi, Hk. destruct i as [|[|i]], k as [|k]; try lia; qc_eq.
  - intros i k Hi Hk. cbn in Hi, Hk. destruct i as [|[|i]], k as [|k]; try lia; qc_eq.
  - intros k Hk. cbn in Hk. destruct k as [|k]; try lia; qc_eq.
  - intros k Hk. cbn in Hk. destruct k as [|k]; try lia; qc_eq.
  - intros k Hk. cbn in Hk. destruct k as [|k]; try lia; qc_eq.
  - intros k Hk. cbn in Hk. destruct k as [|k]; try lia; qc_eq.
  - intros k Hk. cbn in Hk. destruct k as [|k]; try lia; qc_eq.
  - intros k Hk. cbn in Hk. destruct k as [|k]; try lia; qc_eq.
Qed.
Lemma ex_lower_zero : lower_zero (d_n exd) (d_P exd).
Proof. intros i j H1 H2. cbn in H2. destruct i as [|[|i]], j as [|[|j]]; try lia; qc_eq. Qed.

Lemma ex_scaled_problem_proof : scaled_problem exU exd expc.
Proof.
  split. apply ex_data_shape. apply ex_pc_shape. apply ex_pc_inverse. apply ex_pc_positive. apply ex_is_scaled. apply ex_lower_zero.
Qed.
Lemma ex_it_shape_opt_proof : it_shape exd exit_opt.
Proof. split; reflexivity. Qed.
Lemma ex_it_shape_any_proof : it_shape exd exit_any.
Proof. split; reflexivity. Qed.

(* the stored P of the example is what API.upper_tri produces from a full symmetric matrix *)
Lemma ex_upper_tri_proof :
  veqb (concat (upper_tri [[q 24 1; q 3 1]; [q 3 1; q 3 2]])) (concat (d_P exd)) = true.
Proof. vm_compute. reflexivity. Qed.

(* at the arbitrary point: the code's numbers, and the same numbers recomputed from the user's data alone *)
Definition run_any := update_nr_residuals exd expc consts exit_any exinfo.
Lemma ex_run_any_proof :
  match run_any with
  | Ok (res, inf') =>
      veqb (unscale_dual_res expc (rx_nr res)) [q (-51553) 20790; q 367 378] &&
      veqb (tab 2 (fun i => - X_stat exU exd (unscale_point expc exit_any) i)) [q (-51553) 20790; q 367 378] &&
      qeqb (i_primal_obj inf') (X_pobj exU exd (unscale_point expc exit_any) (k_half consts)) &&
      negb (qeqb (i_primal_obj inf') 0) &&
      qltb 0 (primal_inf_nr expc res) && qltb 0 (dual_inf_nr expc res)
  | Err _ => false
  end = true.
Proof. vm_compute. reflexivity. Qed.

(* at the KKT point: all residuals vanish, the gap vanishes, the SOLVED test fires *)
Definition run_opt := update_nr_residuals exd expc consts exit_opt exinfo.
Lemma ex_run_opt_proof :
  match run_opt with
  | Ok (res, inf') =>
      qeqb (primal_inf_nr expc res) 0 && qeqb (dual_inf_nr expc res) 0 && qeqb (i_duality_gap inf') 0 &&
      solved_test exS (top_info expc res inf')
  | Err _ => false
  end = true.
Proof. vm_compute. reflexivity. Qed.

Lemma ex_half_proof : k_half consts = Q2Qc (1 # 2).
Proof. qc_eq. Qed.

(* a state on which loop_pass stops with SOLVED and satisfies every hypothesis of solved_certificate_pass *)
Definition ex_kkt : KKT :=
  {| k_rho := q 1 1; k_delta := q 1 1; k_s := []; k_s_lb := []; k_s_ub := []; k_z_inv := []; k_z_lb_inv := []; k_z_ub_inv := [];
     k_mat := []; k_ATA := []; k_fact := None |}.
Definition ex_st : St :=
  {| st_it := exit_opt; st_inf := exinfo; st_kkt := ex_kkt; st_refine := false;
     st_res := {| rx_nr := []; ry_nr := []; rz_nr := []; rz_lb_nr := []; rz_ub_nr := [] |}; st_calls := 0 |}.
Lemma ex_loop_pass_solved_proof :
  exists st', loop_pass consts exS exd expc (fun _ => false) (fun v => v) ex_st = Ok (Stop st') /\
              i_status (st_inf st') = SOLVED /\ i_iter (st_inf ex_st) = 0%Z.
Proof.
  destruct (loop_pass consts exS exd expc (fun _ => false) (fun v => v) ex_st) as [[st'|st']|e] eqn:E.
  - exfalso. revert E. vm_compute. discriminate.
  - exists st'. split; [reflexivity|]. split; [|reflexivity].
    assert (H : match loop_pass consts exS exd expc (fun _ => false) (fun v => v) ex_st with
                | Ok (Stop s0) => match i_status (st_inf s0) with SOLVED => true | _ => false end | _ => false end = true)
      by (vm_compute; reflexivity).
    rewrite E in H. destruct (i_status (st_inf st')); try discriminate H. reflexivity.
  - exfalso. revert E. vm_compute. discriminate.
Qed.

(* ---- the hypotheses are met by the output of the model's own setup() (Ruiz equilibration, 10 iterations,
        cost scaling on) for the same user problem given through the API ---- *)
Definition exB : Blocks :=
  {| b_P := Some [[q 400 1; q 10 1]; [q 10 1; q 1 4]]; b_c := Some [q 3 1; q (-2) 1];
     b_A := Some [[q 16 1]; [q 1 8]]; b_b := Some [q 5 1];
     b_G := Some [[q 1 64]; [q (-32) 1]]; b_h := Some [Fin (q 7 1)];
     b_lb := Some [Fin (q (-1) 1); NInf]; b_ub := Some [PInf; Fin (q 3 1)] |}.
Definition exU2 : UserQP :=
  {| u_P := tbl2 [[q 400 1; q 10 1]; [q 10 1; q 1 4]];
     u_c := tbl [q 3 1; q (-2) 1];
     u_A := tbl2 [[q 16 1; q 1 8]];
     u_b := tbl [q 5 1];
     u_G := tbl2 [[q 1 64; q (-32) 1]];
     u_h := tbl [q 7 1];
     u_lb := tbl [q (-1) 1; q 0 1];
     u_ub := tbl [q 0 1; q 3 1] |}.
#[local] Instance etaSettings : Settable _ := settable! mkSettings
  <rho_init; delta_init; eps_abs; eps_rel; check_duality_gap; eps_duality_gap_abs; eps_duality_gap_rel;
   reg_lower_limit; reg_finetune_lower_limit; reg_finetune_primal_update_threshold; reg_finetune_dual_update_threshold;
   max_iter; max_factor_retires; preconditioner_scale_cost; preconditioner_iter; tau;
   iterative_refinement_always_enabled; iterative_refinement_eps_abs; iterative_refinement_eps_rel;
   iterative_refinement_max_iter; iterative_refinement_min_improvement_rate;
   iterative_refinement_static_regularization_eps; iterative_refinement_static_regularization_rel>.
Definition exS_cost : Settings := default_settings <| preconditioner_scale_cost := true |>.

Definition ex_setup_dp : option (Data * Precond) :=
  match setup consts false false (q 0 1) exS_cost 2 1 1 exB with Ok sv => Some (sv_data sv, sv_pc sv) | Err _ => None end.
Definition exd2 : Data := Eval vm_compute in (match ex_setup_dp with Some (d, _) => d | None => exd end).
Definition expc2 : Precond := Eval vm_compute in (match ex_setup_dp with Some (_, pc) => pc | None => expc end).
Lemma ex_setup_link : forall sv, setup consts false false (q 0 1) exS_cost 2 1 1 exB = Ok sv -> sv_data sv = exd2 /\ sv_pc sv = expc2.
Proof. intros sv H. vm_compute in H. injection H as <-. split; vm_compute; reflexivity. Qed.
Lemma ex_scaled_problem2 : scaled_problem exU2 exd2 expc2.
Proof.
  split.
  - split; try reflexivity; try (cbn; lia).
    + split; [reflexivity|]. repeat constructor.
    + split; [reflexivity|]. repeat constructor.
    + split; [reflexivity|]. repeat constructor.
    + repeat constructor.
    + repeat constructor.
  - split; try reflexivity; cbn; lia.
  - split.
    + qc_eq.
    + intros i Hi. cbn in Hi. destruct i as [|[|[|[|i]]]]; try lia; qc_eq.
    + intros k Hk. cbn in Hk. destruct k as [|k]; try lia; qc_eq.
    + intros k Hk. cbn in Hk. destruct k as [|k]; try lia; qc_eq.
  - split.
    + qc_lt.
    + intros i Hi. cbn in Hi. destruct i as [|[|[|[|i]]]]; try lia; qc_lt.
    + intros k Hk. cbn in Hk. destruct k as [|k]; try lia; qc_lt.
    + intros k Hk. cbn in Hk. destruct k as [|k]; try lia; qc_lt.
  - split.
    + intros i j H1 H2. cbn in H2. destruct i as [|[|i]], j as [|[|j]]; try lia; qc_eq.
    + intros i Hi. cbn in Hi. destruct i as [|[|i]]; try lia; qc_eq.
    + intros i k Hi Hk. cbn in Hi, Hk. destruct i as [|[|i]], k as [|k]; try lia; qc_eq.
    + intros i k Hi Hk. cbn in Hi, Hk. destruct i as [|[|i]], k as [|k]; try lia; qc_eq.
    + intros k Hk. cbn in Hk. destruct k as [|k]; try lia; qc_eq.
    + intros k Hk. cbn in Hk. destruct k as [|k]; try lia; qc_eq.
    + intros k Hk. cbn in Hk. destruct k as [|k]; try lia; qc_eq.
    + intros k Hk. cbn in Hk. destruct k as [|k]; try lia; qc_eq.
    + intros k Hk. cbn in Hk. destruct k as [|k]; try lia; qc_eq.
    + intros k Hk. cbn in Hk. destruct k as [|k]; try lia; qc_eq.
  - intros i j H1 H2. cbn in H2. destruct i as [|[|i]], j as [|[|j]]; try lia; qc_eq.
Qed.
Lemma ex_setup_scaled_problem_proof :
  forall sv, setup consts false false (q 0 1) exS_cost 2 1 1 exB = Ok sv ->
  scaled_problem exU2 (sv_data sv) (sv_pc sv) /\
  negb (qeqb (pc_c (sv_pc sv)) 1) && negb (qeqb (el (pc_delta (sv_pc sv)) 0) 1) && negb (qeqb (el (pc_delta_lb (sv_pc sv)) 0) 1) = true.
Proof.
  intros sv H. destruct (ex_setup_link sv H) as [-> ->]. split; [apply ex_scaled_problem2 | vm_compute; reflexivity].
Qed.
Lemma ex_setup_ok_proof : exists sv, setup consts false false (q 0 1) exS_cost 2 1 1 exB = Ok sv.
Proof.
  destruct (setup consts false false (q 0 1) exS_cost 2 1 1 exB) as [sv|e] eqn:E; [exists sv; reflexivity|].
  exfalso. revert E. vm_compute. discriminate.
Qed.
