(* TransposeProofs.v -- C14 2b: transpose_no_allocation (utils.hpp) is the transpose, for every matrix and pattern,
   and it restores the outer index of C that it uses as scratch.  General (all sizes; rows unsorted/duplicated allowed). *)
From PIQP Require Import Base CSC C14LemmasProofs CSCProofs.
Local Open Scope nat_scope.

(* ---------- counting ---------- *)
Definition cnt (l : list nat) (i : nat) : nat := length (filter (Nat.eqb i) l).

Lemma firstn_S_nth {A} (l : list A) K d : K < length l -> firstn (S K) l = firstn K l ++ [nth K l d].
Proof.
  revert K; induction l; intros K H; simpl in H; [lia|].
  destruct K; simpl; auto. f_equal. apply IHl. lia.
Qed.
Lemma cnt_app l1 l2 i : cnt (l1 ++ l2) i = cnt l1 i + cnt l2 i.
Proof. unfold cnt. now rewrite filter_app, app_length. Qed.
Lemma cnt_firstn_S l K i : K < length l ->
  cnt (firstn (S K) l) i = cnt (firstn K l) i + (if i =? nth K l 0 then 1 else 0).
Proof.
  intros H. rewrite (firstn_S_nth l K 0 H), cnt_app. f_equal. unfold cnt. simpl. destruct (i =? nth K l 0); auto.
Qed.
Lemma cnt_firstn_le l K i : cnt (firstn K l) i <= cnt l i.
Proof. pose proof (cnt_app (firstn K l) (skipn K l) i) as H. rewrite firstn_skipn in H. lia. Qed.
Lemma cnt_firstn_lt l K : K < length l -> cnt (firstn K l) (nth K l 0) < cnt l (nth K l 0).
Proof.
  intros H. pose proof (cnt_app (firstn (S K) l) (skipn (S K) l) (nth K l 0)) as E. rewrite firstn_skipn in E.
  rewrite cnt_firstn_S in E by auto. rewrite Nat.eqb_refl in E. lia.
Qed.

(* ---------- the outer-index shift ---------- *)
Lemma shift_loop t : forall cp : list nat, t < length cp ->
  exists cp', foldM (fun cp j => do v <- get cp (j - 1) ;; upd cp j v) (rev (seq 1 t)) cp = Ok cp' /\
    length cp' = length cp /\
    forall j, nth j cp' 0 = if (1 <=? j) && (j <=? t) then nth (j - 1) cp 0 else nth j cp 0.
Proof.
  induction t; intros cp Ht.
  - exists cp. simpl. split; auto. split; auto. intros j. destruct j; reflexivity.
  - rewrite seq_S, rev_app_distr. simpl rev. simpl app. cbn [foldM].
    replace (S t - 0) with (S t) by lia. replace (1 + t) with (S t) by lia.
    replace (S t - 1) with t by lia.
    rewrite (get_nth cp t 0) by lia. cbn [bind]. rewrite upd_lset by lia. cbn [bind].
    destruct (IHt (lset cp (S t) (nth t cp 0))) as (cp' & E & L & H). { rewrite lset_length; lia. }
    exists cp'. split; auto. split. { rewrite L, lset_length; auto. }
    intros j. rewrite H.
    destruct (Nat.leb_spec 1 j), (Nat.leb_spec j t), (Nat.leb_spec j (S t)); simpl; try lia.
    + rewrite nth_lset_other by lia. auto.
    + rewrite nth_lset by lia. destruct (Nat.eqb_spec j (S t)); [subst; f_equal; lia|lia].
    + rewrite nth_lset_other by lia. auto.
    + rewrite nth_lset_other by lia. auto.
Qed.

Section Transpose.
Variable A C : csc F.
Hypothesis HwfA : wf_csc A = true.

Let m := nrows A.
Let nA := ncols A.
Let Ap := colptr A.
Let Ai := rowind A.
Let Ax := vals A.
Let cpC := colptr C.
Let N := length (rowind C).

(* C is allocated with the column counts of A^T *)
Hypothesis HC_len : length cpC = S m.
Hypothesis HC_0 : nth 0 cpC 0 = 0.
Hypothesis HC_cnt : forall i, i < m -> nth (S i) cpC 0 = nth i cpC 0 + cnt Ai i.
Hypothesis HC_last : nth m cpC 0 <= N.
Hypothesis HC_vals : length (vals C) = N.

Lemma cpC_mono i j : i <= j -> j <= m -> nth i cpC 0 <= nth j cpC 0.
Proof. intros Hij Hj. induction Hij; auto. rewrite HC_cnt by lia. specialize (IHHij ltac:(lia)). lia. Qed.

Definition gA (i k : nat) : F := if nth k Ai 0 =? i then nth k Ax 0%Qc else 0%Qc.
Definition gC (ci : list nat) (cx : list F) (j q : nat) : F := if nth q ci 0 =? j then nth q cx 0%Qc else 0%Qc.

(* what has been transferred when the outer loop is at column j0 and the inner loop at position K *)
Definition Rdone (j0 K i j : nat) : F :=
  if j <? j0 then csc_get A i j
  else if j =? j0 then qsum (map (gA i) (seq (nth j0 Ap 0) (K - nth j0 Ap 0)))
  else 0%Qc.

Definition Inv (j0 K : nat) (st : list nat * list nat * list F) : Prop :=
  let '(cp, ci, cx) := st in
  length cp = S m /\ length ci = N /\ length cx = N /\
  (forall i, i < m -> nth i cp 0 = nth i cpC 0 + cnt (firstn K Ai) i) /\
  nth m cp 0 = nth m cpC 0 /\
  (forall i j, i < m -> qsum (map (gC ci cx j) (seq (nth i cpC 0) (nth i cp 0 - nth i cpC 0))) = Rdone j0 K i j).

Definition tstep (j k : nat) (st : list nat * list nat * list F) : res (list nat * list nat * list F) :=
  let '(cp, ci, cx) := st in
  do i <- get Ai k ;; do q <- get cp i ;; do cp <- upd cp i (S q) ;; do ci <- upd ci q j ;;
  do v <- get Ax k ;; do cx <- upd cx q v ;; Ok (cp, ci, cx).

Lemma tstep_inv j0 K st : j0 < nA -> nth j0 Ap 0 <= K < nth (S j0) Ap 0 -> Inv j0 K st ->
  exists st', tstep j0 K st = Ok st' /\ Inv j0 (S K) st'.
Proof.
  intros Hj0 HK. destruct st as [[cp ci] cx]. intros (Lcp & Lci & Lcx & Hcp & Hm & Hsem).
  destruct (wf_col_range A HwfA j0 Hj0) as [Hle Hhi]. fold Ap Ai in Hle, Hhi.
  assert (HKl : K < length Ai) by lia.
  assert (Hi0 : nth K Ai 0 < m) by (apply wf_rows; auto).
  set (i0 := nth K Ai 0) in *.
  set (q := nth i0 cp 0).
  assert (Hq : q = nth i0 cpC 0 + cnt (firstn K Ai) i0) by (apply Hcp; auto).
  assert (Hq1 : q < nth (S i0) cpC 0).
  { rewrite HC_cnt by auto. rewrite Hq. unfold i0. apply Nat.add_lt_mono_l. apply cnt_firstn_lt; auto. }
  assert (HqN : q < N). { assert (nth (S i0) cpC 0 <= nth m cpC 0) by (apply cpC_mono; lia). lia. }
  unfold tstep. rewrite (get_nth Ai K 0) by auto. cbn [bind]. fold i0.
  rewrite (get_nth cp i0 0) by lia. cbn [bind]. fold q.
  rewrite upd_lset by lia. cbn [bind]. rewrite upd_lset by lia. cbn [bind].
  rewrite (get_nth (A:=F) Ax K 0%Qc) by (unfold Ax; rewrite wf_vals_len; auto). cbn [bind].
  rewrite upd_lset by lia. cbn [bind].
  eexists; split; [reflexivity|]. unfold Inv.
  split; [now rewrite lset_length|]. split; [now rewrite lset_length|]. split; [now rewrite lset_length|].
  split; [|split].
  - intros i Hi. rewrite cnt_firstn_S by auto. fold i0. rewrite nth_lset by lia.
    destruct (Nat.eqb_spec i i0); [subst i; lia|]. rewrite Hcp by auto. lia.
  - rewrite nth_lset_other by lia. auto.
  - intros i j Hi.
    assert (Hrange : forall i', i' < m -> nth i' cp 0 <= nth (S i') cpC 0).
    { intros i' Hi'. rewrite Hcp, HC_cnt by auto. apply Nat.add_le_mono_l. apply cnt_firstn_le. }
    destruct (Nat.eq_dec i i0) as [->|Hne].
    + (* the row that receives the entry *)
      rewrite nth_lset_same by lia. fold q.
      replace (S q - nth i0 cpC 0) with (S (q - nth i0 cpC 0)) by lia.
      rewrite qsum_map_seq_S. replace (nth i0 cpC 0 + (q - nth i0 cpC 0)) with q by lia.
      rewrite (qsum_map_ext (gC (lset ci q j0) (lset cx q (nth K Ax 0%Qc)) j) (gC ci cx j)).
      2:{ intros p Hp. apply in_seq in Hp. unfold gC. rewrite !nth_lset_other by lia. reflexivity. }
      rewrite Hsem by auto.
      unfold gC. rewrite !nth_lset_same by lia.
      unfold Rdone. destruct (Nat.ltb_spec j j0).
      * destruct (Nat.eqb_spec j0 j); [lia|]. fring.
      * destruct (Nat.eqb_spec j j0) as [->|Hjj].
        -- rewrite Nat.eqb_refl. replace (S K - nth j0 Ap 0) with (S (K - nth j0 Ap 0)) by lia.
           rewrite qsum_map_seq_S. replace (nth j0 Ap 0 + (K - nth j0 Ap 0)) with K by lia.
           unfold gA at 3. fold i0. rewrite Nat.eqb_refl. reflexivity.
        -- destruct (Nat.eqb_spec j0 j); [lia|]. fring.
    + rewrite nth_lset_other by lia.
      rewrite (qsum_map_ext (gC (lset ci q j0) (lset cx q (nth K Ax 0%Qc)) j) (gC ci cx j)).
      2:{ intros p Hp. apply in_seq in Hp. unfold gC.
          assert (p <> q).
          { destruct (Nat.lt_ge_cases i i0).
            - assert (nth (S i) cpC 0 <= nth i0 cpC 0) by (apply cpC_mono; lia). specialize (Hrange i Hi). lia.
            - assert (nth (S i0) cpC 0 <= nth i cpC 0) by (apply cpC_mono; lia). lia. }
          rewrite !nth_lset_other by lia. reflexivity. }
      rewrite Hsem by auto. unfold Rdone. destruct (j <? j0); auto. destruct (j =? j0); auto.
      replace (S K - nth j0 Ap 0) with (S (K - nth j0 Ap 0)) by lia.
      rewrite qsum_map_seq_S. replace (nth j0 Ap 0 + (K - nth j0 Ap 0)) with K by lia.
      unfold gA at 3. fold i0. destruct (Nat.eqb_spec i0 i); [congruence|]. fring.
Qed.

Lemma Inv_next_col j0 st : j0 < nA -> Inv j0 (nth (S j0) Ap 0) st -> Inv (S j0) (nth (S j0) Ap 0) st.
Proof.
  intros Hj0. destruct st as [[cp ci] cx]. intros (Lcp & Lci & Lcx & Hcp & Hm & Hsem).
  repeat (split; auto). intros i j Hi. rewrite Hsem by auto. unfold Rdone.
  destruct (Nat.ltb_spec j j0), (Nat.ltb_spec j (S j0)); try lia; auto.
  - destruct (Nat.eqb_spec j j0); [|lia]. subst j. reflexivity.
  - destruct (Nat.eqb_spec j j0); [lia|]. destruct (Nat.eqb_spec j (S j0)); auto.
    subst j. rewrite Nat.sub_diag. reflexivity.
Qed.

Theorem transpose_no_alloc_spec :
  exists C', transpose_no_alloc A C = Ok C' /\
    nrows C' = nrows C /\ ncols C' = ncols C /\
    colptr C' = colptr C /\                                  (* the abused outer index is restored *)
    (forall i j, i < nrows A -> csc_get C' j i = csc_get A i j).
Proof.
  unfold transpose_no_alloc. fold Ap Ai Ax m nA.
  assert (Hloop : exists st, for_range 0 nA (fun j st => do lo <- get Ap j ;; do kk <- get Ap (S j) ;; for_range lo kk (tstep j) st)
                     (colptr C, rowind C, vals C) = Ok st /\ Inv nA (length Ai) st).
  { destruct (for_range_ind (fun j st => Inv j (nth j Ap 0) st) 0 nA
        (fun j st => do lo <- get Ap j ;; do kk <- get Ap (S j) ;; for_range lo kk (tstep j) st)
        (colptr C, rowind C, vals C)) as (st & E & HI); try lia.
    - unfold Inv. fold cpC. unfold Ap. rewrite (wf_cp0 A HwfA). simpl firstn.
      repeat (split; auto).
      intros i j Hi. rewrite Nat.sub_diag. unfold Rdone. simpl. destruct (j =? 0); reflexivity.
    - intros j st [_ Hj] HI.
      unfold Ap. rewrite (get_nth (colptr A) j 0) by (rewrite wf_cp_len; auto; unfold nA in *; lia). cbn [bind].
      rewrite (get_nth (colptr A) (S j) 0) by (rewrite wf_cp_len; auto; unfold nA in *; lia). cbn [bind]. fold Ap.
      destruct (wf_col_range A HwfA j Hj) as [Hle Hhi]. fold Ap in Hle.
      destruct (for_range_ind (fun K st => Inv j K st) (nth j Ap 0) (nth (S j) Ap 0) (tstep j) st) as (st' & E' & HI'); auto.
      + intros K s HK HIK. apply tstep_inv; auto.
      + exists st'. split; auto. apply Inv_next_col; auto.
    - exists st. split; auto. unfold Ap, nA in HI. rewrite (wf_cp_last A HwfA) in HI. exact HI. }
  destruct Hloop as ([[cp ci] cx] & E & (Lcp & Lci & Lcx & Hcp & Hm & Hsem)).
  assert (Ebody : for_range 0 nA (fun j st => do lo <- get Ap j ;; do kk <- get Ap (S j) ;;
                 for_range lo kk (fun k '(cp, ci, cx) =>
                    do i <- get Ai k ;; do q <- get cp i ;; do cp <- upd cp i (S q) ;; do ci <- upd ci q j ;;
                    do v <- get Ax k ;; do cx <- upd cx q v ;; Ok (cp, ci, cx)) st) (colptr C, rowind C, vals C) = Ok (cp, ci, cx)).
  { exact E. }
  change Qc with F in *. rewrite Ebody. cbn [bind].
  rewrite firstn_all in Hcp.
  destruct (shift_loop (m - 1) cp) as (cp' & Es & Ls & Hs). { lia. }
  rewrite Es. cbn [bind]. rewrite upd_lset by lia. cbn [bind].
  eexists; split; [reflexivity|]. simpl.
  assert (Hfinal : forall i, i < m -> nth i cp 0 = nth (S i) cpC 0).
  { intros i Hi. rewrite Hcp, HC_cnt by auto. reflexivity. }
  assert (Hcol : lset cp' 0 0 = cpC).
  { apply (nth_ext _ _ 0 0). { rewrite lset_length. lia. }
    intros j Hj. rewrite lset_length, Ls, Lcp in Hj. rewrite nth_lset by lia.
    destruct (Nat.eqb_spec j 0); [subst; auto|]. rewrite Hs.
    destruct (Nat.leb_spec 1 j); [|lia]. destruct (Nat.leb_spec j (m - 1)); simpl.
    - rewrite Hfinal by lia. f_equal. lia.
    - replace j with m by lia. auto. }
  repeat (split; auto).
  intros i j Hi. fold m in Hi. unfold csc_get at 1. cbn [colptr rowind vals]. rewrite Hcol.
  specialize (Hsem i j Hi). rewrite Hfinal in Hsem by auto. unfold gC in Hsem. rewrite Hsem.
  unfold Rdone. destruct (Nat.ltb_spec j nA); auto.
  (* columns beyond the matrix: both sides are empty sums *)
  assert (Hov : nth (S j) (colptr A) 0 = 0) by (apply nth_overflow; rewrite wf_cp_len; auto; unfold nA in *; lia).
  assert (Hrhs : csc_get A i j = 0%Qc) by (unfold csc_get; rewrite Hov; reflexivity).
  rewrite Hrhs.
  destruct (Nat.eqb_spec j nA); auto.
  subst j. unfold Ap, nA. rewrite (wf_cp_last A HwfA). fold Ai. rewrite Nat.sub_diag. reflexivity.
Qed.
End Transpose.

(* ---------- the allocation made by Eigen's C = A.transpose() satisfies the hypotheses ---------- *)
Fixpoint nsum (l : list nat) : nat := match l with [] => 0 | a :: t => a + nsum t end.

Lemma cumsum_length l : forall acc, length (cumsum acc l) = S (length l).
Proof. induction l; intros; simpl; auto. Qed.
Lemma cumsum_0 l acc : nth 0 (cumsum acc l) 0 = acc.
Proof. destruct l; reflexivity. Qed.
Lemma cumsum_S l : forall acc i, i < length l -> nth (S i) (cumsum acc l) 0 = nth i (cumsum acc l) 0 + nth i l 0.
Proof.
  induction l; intros acc i Hi; simpl in Hi; [lia|].
  destruct i.
  - simpl. rewrite cumsum_0. reflexivity.
  - change (nth (S (S i)) (cumsum acc (a :: l)) 0) with (nth (S i) (cumsum (acc + a) l) 0).
    change (nth (S i) (cumsum acc (a :: l)) 0) with (nth i (cumsum (acc + a) l) 0).
    rewrite IHl by lia. reflexivity.
Qed.
Lemma cumsum_last l : forall acc, nth (length l) (cumsum acc l) 0 = acc + nsum l.
Proof. induction l; intros; simpl. lia. rewrite IHl. lia. Qed.

Lemma nsum_counts_cons a l m :
  nsum (map (cnt (a :: l)) (seq 0 m)) = nsum (map (cnt l) (seq 0 m)) + (if a <? m then 1 else 0).
Proof.
  induction m.
  - reflexivity.
  - rewrite seq_S, !map_app. simpl map.
    assert (Happ : forall l1 x, nsum (l1 ++ [x]) = nsum l1 + x) by (induction l1; intros; simpl; [lia|rewrite IHl1; lia]).
    rewrite !Happ, IHm. unfold cnt at 2. simpl filter.
    destruct (Nat.eqb_spec m a) as [->|Hne].
    + simpl length. fold (cnt l a). destruct (Nat.ltb_spec a a); [lia|]. destruct (Nat.ltb_spec a (S a)); [lia|lia].
    + fold (cnt l m). destruct (Nat.ltb_spec a m), (Nat.ltb_spec a (S m)); lia.
Qed.
Lemma nsum_app1 l1 x : nsum (l1 ++ [x]) = nsum l1 + x.
Proof. induction l1; simpl; [lia|rewrite IHl1; lia]. Qed.
Lemma nsum_counts_nil m : nsum (map (cnt []) (seq 0 m)) = 0.
Proof. induction m; [reflexivity|]. rewrite seq_S, map_app. cbn [map]. rewrite nsum_app1, IHm. reflexivity. Qed.
Lemma nsum_counts_le l m : nsum (map (cnt l) (seq 0 m)) <= length l.
Proof.
  induction l.
  - rewrite nsum_counts_nil. simpl; lia.
  - rewrite nsum_counts_cons. simpl length. destruct (a <? m); lia.
Qed.

Theorem transpose_after_alloc (A : csc F) (ci0 : list nat) (cx0 : list F) :
  wf_csc A = true -> length ci0 = length (rowind A) -> length cx0 = length (rowind A) ->
  exists C', transpose_no_alloc A (mkcsc (ncols A) (nrows A) (transpose_colptr A) ci0 cx0) = Ok C' /\
    nrows C' = ncols A /\ ncols C' = nrows A /\ colptr C' = transpose_colptr A /\
    (forall i j, i < nrows A -> csc_get C' j i = csc_get A i j).
Proof.
  intros Hwf H1 H2.
  assert (Hlen : length (count_rows (nrows A) (rowind A)) = nrows A) by (unfold count_rows; now rewrite map_length, seq_length).
  destruct (transpose_no_alloc_spec A (mkcsc (ncols A) (nrows A) (transpose_colptr A) ci0 cx0) Hwf) as (C' & E & R1 & R2 & R3 & R4); simpl.
  - unfold transpose_colptr. rewrite cumsum_length. now rewrite Hlen.
  - unfold transpose_colptr. apply cumsum_0.
  - intros i Hi. unfold transpose_colptr. rewrite cumsum_S by lia. f_equal.
    unfold count_rows, cnt. rewrite (nth_indep _ 0 (length (filter (Nat.eqb 0) (rowind A)))) by (rewrite map_length, seq_length; lia).
    rewrite (map_nth (fun i => length (filter (Nat.eqb i) (rowind A)))). rewrite seq_nth by lia. reflexivity.
  - unfold transpose_colptr. rewrite <- Hlen at 1. rewrite cumsum_last. simpl. rewrite H1. apply nsum_counts_le.
  - lia.
  - exists C'. auto.
Qed.
