(* ShapesProofs.v -- C11 (logic part): setup establishes, and every accepted update / solve preserves, the shape of every
   solver-owned array of the model (Shapes.v).  Reuses wf_data / wf_pc and their preservation lemmas of PrecondProofs.v. *)
From PIQP Require Import Base Data Bounds PrecondDense KKTDense IPM API LinAlg LLTProofs PrecondProofs Shapes.
From RecordUpdate Require Import RecordSet.
Import RecordSetNotations.
From Coq Require Import Lia.
Local Open Scope Qc_scope.

(* ================================================================== *)
(** * A. length bookkeeping                                             *)
(* ================================================================== *)

Lemma mapM_len {A B} (f : A -> res B) l r : mapM f l = Ok r -> length r = length l.
Proof. intro H. apply mapM_Forall2 in H. symmetry. eapply Forall2_len; eauto. Qed.

Lemma vinv_len a r : vinv a = Ok r -> length r = length a.
Proof. apply mapM_len. Qed.
Lemma vdiv_len a b r : vdiv a b = Ok r -> length r = Nat.min (length a) (length b).
Proof. intro H. apply mapM_len in H. rewrite combine_length in H. exact H. Qed.
Lemma gather_len {A} (v : list A) idx r : gather v idx = Ok r -> length r = length idx.
Proof. apply mapM_len. Qed.
Lemma scatter_len {A B} (f : A -> B -> A) idx v w v' : scatter_with f v idx w = Ok v' -> length v' = length v.
Proof. apply scatter_with_len. Qed.
Lemma set_head_len {A} (w v : list A) : length (set_head w v) = Nat.max (length w) (length v).
Proof. unfold set_head. rewrite app_length, skipn_length. lia. Qed.
Lemma mat_vec_len r (M : Mat) v : Forall (fun c : Vec => length c = r) M -> length (mat_vec r M v) = r.
Proof. apply mat_vec_length. Qed.

#[local] Hint Rewrite vadd_length vsub_length LinAlg.vmul_length vscale_length vneg_length vaddc_length vconst_length
  @map_length @app_length @firstn_length @skipn_length @repeat_length @seq_length @combine_length @rev_length
  matT_vec_length lower_sym_mul_length mrow_length @set_head_len : len.

Ltac vlia := unfold Vec, Mat, F in *; lia.
Ltac lens := unfold head, tail_from, segment, ext_of, vconst; autorewrite with len; try vlia.
Ltac lens_in H := unfold head, tail_from, segment, ext_of, vconst in H; autorewrite with len in H.
Ltac lensH := unfold head, tail_from, segment, ext_of, vconst in *; autorewrite with len in *; try vlia.

(* inversion of a successful monadic computation, one bind at a time *)
Ltac binv H :=
  repeat match type of H with
  | bind ?e _ = Ok _ => let E := fresh "E" in destruct e eqn:E; cbn [bind] in H; [|discriminate H]
  | (let '(_, _) := ?p in _) = Ok _ => destruct p
  end.

Lemma wf_mat_is_mat r c M : wf_mat r c M <-> is_mat r c M.
Proof. reflexivity. Qed.

Lemma wf_mat_mshape r c M : wf_mat r c M -> mshape M = repeat r c.
Proof.
  intros [L Fo]. subst c. unfold mshape. induction M as [|a t IH]; [reflexivity|].
  inversion Fo; subst. cbn. f_equal. apply IH. assumption.
Qed.

Definition lower_shape (n : nat) (rows : list Vec) : Prop := length rows = n /\ wf_lower rows.

Lemma lower_shape_mshape n rows : lower_shape n rows -> mshape rows = map S (seq 0 n).
Proof.
  intros [L W]. unfold mshape. apply (nth_ext _ _ (length (@nil F)) (S 0)).
  - rewrite !map_length, seq_length. exact L.
  - intros i Hi. rewrite map_length in Hi.
    rewrite (map_nth (@length F) rows [] i), (map_nth S (seq 0 n) 0%nat i).
    rewrite W by exact Hi. rewrite seq_nth by vlia. reflexivity.
Qed.

Lemma lower_rows_shape n g : lower_shape n (lower_rows n g).
Proof.
  split; [unfold lower_rows; rewrite map_length, seq_length; reflexivity|].
  intros i Hi. unfold lower_rows in *. rewrite map_length, seq_length in Hi.
  rewrite nth_map_seq by exact Hi. rewrite map_length, seq_length. reflexivity.
Qed.

(* ================================================================== *)
(** * B. well-formed solver objects                                     *)
(* ================================================================== *)

Record wf_kkt (d : Data) (k : KKT) : Prop := mk_wf_kkt {
  wk_s : length (k_s k) = d_m d;
  wk_s_lb : length (k_s_lb k) = d_n d;
  wk_s_ub : length (k_s_ub k) = d_n d;
  wk_z_inv : length (k_z_inv k) = d_m d;
  wk_z_lb_inv : length (k_z_lb_inv k) = d_n d;
  wk_z_ub_inv : length (k_z_ub_inv k) = d_n d;
  wk_mat : lower_shape (d_n d) (k_mat k);
  wk_ATA : if Nat.ltb 0 (d_p d) then lower_shape (d_n d) (k_ATA k) else k_ATA k = [];
  wk_fact : fact_fits (d_n d) (k_fact k)
}.

Record wf_out (n p m : nat) (o : ResultOut) : Prop := mk_wf_out {
  wo_x : length (o_x o) = n; wo_y : length (o_y o) = p; wo_z : length (o_z o) = m;
  wo_z_lb : length (o_z_lb o) = n; wo_z_ub : length (o_z_ub o) = n;
  wo_s : length (o_s o) = m; wo_s_lb : length (o_s_lb o) = n; wo_s_ub : length (o_s_ub o) = n;
  wo_zeta : length (o_zeta o) = n; wo_lambda : length (o_lambda o) = p; wo_nu : length (o_nu o) = m;
  wo_nu_lb : length (o_nu_lb o) = n; wo_nu_ub : length (o_nu_ub o) = n
}.

Record wf_solver (sv : Solver) : Prop := mk_wf_solver {
  ws_d : wf_data (sv_data sv);
  ws_pc : wf_pc (sv_pc sv) (sv_data sv);
  ws_nlb : pc_nlb (sv_pc sv) = d_nlb (sv_data sv);
  ws_nub : pc_nub (sv_pc sv) = d_nub (sv_data sv);
  ws_k : wf_kkt (sv_data sv) (sv_kkt sv);
  ws_o : wf_out (d_n (sv_data sv)) (d_p (sv_data sv)) (d_m (sv_data sv)) (sv_out sv)
}.

Definition dims (sv : Solver) : nat * nat * nat := (d_n (sv_data sv), d_p (sv_data sv), d_m (sv_data sv)).

(* a well-formed solver has the canonical shape of its dimensions, and its packed prefixes fit *)
Lemma wf_solver_shape sv : wf_solver sv ->
  shape_of sv = canon_shape (d_n (sv_data sv)) (d_p (sv_data sv)) (d_m (sv_data sv)) /\ fits sv.
Proof.
  intros [Wd [Wl (En & Ep & Em)] Nlb Nub Wk Wo]. split.
  - destruct Wd as [WP WA WG Wc Wb Wh _ _ Wls Wus _ _].
    destruct Wl as [L1 L2 L3 L4 L5 L6 _ _].
    destruct Wk as [K1 K2 K3 K4 K5 K6 K7 K8 _].
    destruct Wo as [O1 O2 O3 O4 O5 O6 O7 O8 O9 O10 O11 O12 O13].
    unfold shape_of, canon_shape.
    rewrite (wf_mat_mshape _ _ _ WP), (wf_mat_mshape _ _ _ WA), (wf_mat_mshape _ _ _ WG).
    rewrite (lower_shape_mshape _ _ K7).
    assert (EA : mshape (k_ATA (sv_kkt sv)) = if Nat.ltb 0 (d_p (sv_data sv)) then map S (seq 0 (d_n (sv_data sv))) else []).
    { destruct (Nat.ltb 0 (d_p (sv_data sv))); [apply lower_shape_mshape; assumption|rewrite K8; reflexivity]. }
    rewrite EA, Wc, Wb, Wh, Wls, Wus, L1, L2, L3, L4, L5, L6, K1, K2, K3, K4, K5, K6.
    rewrite O1, O2, O3, O4, O5, O6, O7, O8, O9, O10, O11, O12, O13, En, Ep, Em. reflexivity.
  - unfold fits. pose proof (wf_nlb_le _ Wd). pose proof (wf_nub_le _ Wd). destruct Wd, Wk. repeat split; assumption.
Qed.

(* ================================================================== *)
(** * C. bounds and blocks                                              *)
(* ================================================================== *)

Lemma incr_from_weaken l : forall lo lo' n, incr_from lo n l -> (lo' <= lo)%nat -> incr_from lo' n l.
Proof. destruct l as [|a r]; intros lo lo' n H L; [exact Logic.I|]. cbn in *. destruct H as (H1 & H2 & H3). repeat split; try lia. exact H3. Qed.

Lemma pack_lb_shape INF l : forall i v ix, pack_lb INF i l = (v, ix) ->
  length v = length ix /\ incr_from i (i + length l) ix.
Proof.
  induction l as [|e t IH]; intros i v ix H; cbn in H.
  - inversion H; subst. split; [reflexivity|exact Logic.I].
  - destruct (pack_lb INF (S i) t) as [v' ix'] eqn:E. specialize (IH _ _ _ E). destruct IH as [L In].
    replace (S i + length t)%nat with (i + length (e :: t))%nat in In by (cbn; lia).
    destruct (ext_gt_neg_inf INF e); inversion H; subst; cbn [incr_from].
    + split; [cbn; congruence|]. split; [lia|]. split; [cbn; lia|exact In].
    + split; [exact L|]. eapply incr_from_weaken; [exact In|lia].
Qed.

Lemma pack_ub_shape INF l : forall i v ix, pack_ub INF i l = (v, ix) ->
  length v = length ix /\ incr_from i (i + length l) ix.
Proof.
  induction l as [|e t IH]; intros i v ix H; cbn in H.
  - inversion H; subst. split; [reflexivity|exact Logic.I].
  - destruct (pack_ub INF (S i) t) as [v' ix'] eqn:E. specialize (IH _ _ _ E). destruct IH as [L In].
    replace (S i + length t)%nat with (i + length (e :: t))%nat in In by (cbn; lia).
    destruct (ext_lt_inf INF e); inversion H; subst; cbn [incr_from].
    + split; [cbn; congruence|]. split; [lia|]. split; [cbn; lia|exact In].
    + split; [exact L|]. eapply incr_from_weaken; [exact In|lia].
Qed.

Lemma wf_mat_upper_tri r c P : wf_mat r c P -> wf_mat r c (upper_tri P).
Proof.
  intros [L Fo]. unfold upper_tri. split.
  - rewrite map_length, combine_length, seq_length. lia.
  - apply Forall_forall. intros col Hc. apply in_map_iff in Hc. destruct Hc as ([j cj] & <- & Hin).
    cbn. rewrite map_length, combine_length, seq_length, Nat.min_id.
    apply in_combine_r in Hin. rewrite Forall_forall in Fo. apply Fo, Hin.
Qed.

Lemma wf_mat_mtranspose r (A : Mat) : wf_mat (length A) r (mtranspose r A).
Proof.
  unfold mtranspose. split; [rewrite map_length, seq_length; reflexivity|].
  apply Forall_forall. intros col Hc. apply in_map_iff in Hc. destruct Hc as (i & <- & _). apply map_length.
Qed.

Lemma disable_inf_shape INF r c (GT : Mat) (h : list ext) GT' hv :
  wf_mat r c GT -> length h = c -> disable_inf INF GT h = (GT', hv) -> wf_mat r c GT' /\ length hv = c.
Proof.
  intros [L Fo] Lh H. unfold disable_inf in H. inversion H; subst; clear H. split; [split|].
  - rewrite map_length, combine_length. vlia.
  - apply Forall_forall. intros col Hc. apply in_map_iff in Hc. destruct Hc as ([g e] & <- & Hin). cbn.
    apply in_combine_l in Hin. rewrite Forall_forall in Fo.
    destruct (h_is_inf INF e); [rewrite map_length|]; apply Fo, Hin.
  - rewrite map_length. vlia.
Qed.

(* ================================================================== *)
(** * D. preconditioner and KKT operations keep the shapes              *)
(* ================================================================== *)

Lemma wf_pc_set_counts pc d nlb nub : wf_pc pc d -> (nlb <= d_n d)%nat -> (nub <= d_n d)%nat ->
  wf_pc (pc <| pc_nlb := nlb |> <| pc_nub := nub |>) d.
Proof.
  intros [[L1 L2 L3 L4 L5 L6 _ _] (En & Ep & Em)] H1 H2. split; [|cbn; auto].
  constructor; cbn; try assumption; lia.
Qed.

Lemma scale_data_wf K sq pc d reuse sc it pc' d' :
  sane_consts K -> wf_data d -> wf_pc pc d ->
  scale_data K sq pc d reuse sc it = Ok (pc', d') ->
  wf_data d' /\ wf_pc pc' d' /\ pc_nlb pc' = d_nlb d' /\ pc_nub pc' = d_nub d' /\
  d_n d' = d_n d /\ d_p d' = d_p d /\ d_m d' = d_m d /\ d_lb_idx d' = d_lb_idx d /\ d_ub_idx d' = d_ub_idx d.
Proof.
  intros SK W WP H. pose proof (wf_nlb_le _ W) as Nlb. pose proof (wf_nub_le _ W) as Nub.
  unfold scale_data in H. destruct (pc_ident pc).
  - inversion H; subst; clear H. split; [exact W|]. split; [apply wf_pc_set_counts; assumption|]. cbn. auto 10.
  - destruct reuse.
    + rewrite scale_reuse_is_xform in H.
      destruct (xform _ _ _ _ _ _ _ _ _ _ d) as [d2|] eqn:X; cbn [bind] in H; [|discriminate].
      inversion H; subst; clear H.
      destruct WP as [WL (En & Ep & Em)]. pose proof WL as WL'. destruct WL' as [L1 L2 L3 L4 L5 L6 _ _].
      apply xform_wf with (m := pc_m pc) in X; auto; try lia.
      destruct X as (W2 & N2 & P2 & M2 & I1 & I2).
      assert (Enlb : d_nlb d' = d_nlb d) by (unfold d_nlb; congruence).
      assert (Enub : d_nub d' = d_nub d) by (unfold d_nub; congruence).
      split; [exact W2|]. split.
      { apply wf_pc_set_counts; [split; [exact WL|repeat split; congruence]|lia|lia]. }
      cbn. repeat split; congruence.
    + assert (DA : dims_agree pc d) by (destruct WP as [_ DA]; exact DA).
      pose proof (scale_establishes_inverse K sq SK pc d sc it pc' d' W DA H) as (_ & W2 & WP2 & E1 & E2 & I1 & I2).
      pose proof (scaled_data_is_transform K sq SK pc d sc it pc' d' W DA H) as [T _].
      destruct T as [Tn Tp Tm _ _ _ _ _ _ _ _ _ _ _]. auto 10.
Qed.

Lemma unscale_data_wf pc d d' :
  wf_data d -> wf_pc pc d -> pc_nlb pc = d_nlb d -> pc_nub pc = d_nub d ->
  unscale_data pc d = Ok d' ->
  wf_data d' /\ d_n d' = d_n d /\ d_p d' = d_p d /\ d_m d' = d_m d /\ d_lb_idx d' = d_lb_idx d /\ d_ub_idx d' = d_ub_idx d.
Proof.
  intros W [WL (En & Ep & Em)] Nlb Nub H. unfold unscale_data in H. destruct (pc_ident pc).
  - inversion H; subst. auto 10.
  - rewrite unscale_is_xform in H.
    rewrite Nlb, Nub in H.
    replace (firstn (d_nlb d) (d_lb_idx d)) with (d_lb_idx d) in H by (unfold d_nlb; rewrite firstn_all; reflexivity).
    replace (firstn (d_nub d) (d_ub_idx d)) with (d_ub_idx d) in H by (unfold d_nub; rewrite firstn_all; reflexivity).
    pose proof (wf_nlb_le _ W). pose proof (wf_nub_le _ W). destruct WL as [L1 L2 L3 L4 L5 L6 _ _].
    apply xform_wf with (m := pc_m pc) in H; auto; try lia.
    destruct H as (W2 & N2 & P2 & M2 & I1 & I2). split; [exact W2|]. repeat split; congruence.
Qed.

Lemma wf_kkt_dims d d' k : d_n d' = d_n d -> d_p d' = d_p d -> d_m d' = d_m d -> wf_kkt d k -> wf_kkt d' k.
Proof. intros En Ep Em [K1 K2 K3 K4 K5 K6 K7 K8 K9]. constructor; rewrite ?En, ?Ep, ?Em; assumption. Qed.

Lemma update_kkt_inv d k k' : update_kkt d k = Ok k' ->
  exists rows, lower_shape (d_n d) rows /\ k' = k <| k_mat := rows |>.
Proof.
  intro H. unfold update_kkt in H. binv H. inversion H; subst; clear H.
  eexists. split; [apply lower_rows_shape|reflexivity].
Qed.

Lemma update_kkt_wf d k k' : wf_kkt d k -> update_kkt d k = Ok k' -> wf_kkt d k'.
Proof.
  intros [K1 K2 K3 K4 K5 K6 K7 K8 K9] H. apply update_kkt_inv in H. destruct H as (rows & R & ->).
  constructor; cbn; assumption.
Qed.

Lemma kkt_init_wf d rho delta junk k : wf_data d -> kkt_init d rho delta junk = Ok k -> wf_kkt d k.
Proof.
  intros W H. pose proof (wf_nlb_le _ W). pose proof (wf_nub_le _ W). unfold kkt_init in H.
  apply update_kkt_inv in H. destruct H as (rows & R & ->).
  constructor; cbn; lens; try assumption.
  destruct (d_p d); [reflexivity|apply lower_rows_shape].
Qed.

Lemma kkt_update_data_wf d k oP oA oG k' : wf_kkt d k -> kkt_update_data d k oP oA oG = Ok k' -> wf_kkt d k'.
Proof.
  intros Wk H. unfold kkt_update_data in H.
  assert (W1 : wf_kkt d (if oA && Nat.ltb 0 (d_p d) then k <| k_ATA := compute_ATA d |> else k)).
  { destruct oA; cbn [andb]; [|exact Wk]. destruct (Nat.ltb 0 (d_p d)) eqn:E; [|exact Wk].
    destruct Wk as [K1 K2 K3 K4 K5 K6 K7 K8 K9]. constructor; try assumption.
    rewrite E. apply lower_rows_shape. }
  destruct (oP || oA || oG); [eapply update_kkt_wf; eassumption|inversion H; subst; exact W1].
Qed.

(* ================================================================== *)
(** * E. setup establishes, update preserves well-formedness            *)
(* ================================================================== *)

Definition same_dims (d d' : Data) : Prop := d_n d' = d_n d /\ d_p d' = d_p d /\ d_m d' = d_m d.
Lemma same_dims_refl d : same_dims d d. Proof. repeat split. Qed.
Lemma same_dims_trans a b c : same_dims a b -> same_dims b c -> same_dims a c.
Proof. intros (A1 & A2 & A3) (B1 & B2 & B3). repeat split; congruence. Qed.

(* head-zeta: name the first let of hypothesis H *)
Tactic Notation "hzeta" hyp(H) "as" ident(y) :=
  lazymatch type of H with
  | (let hz_binder := ?v in @?b hz_binder) = ?r => pose (y := v); change (b y = r) in H; cbv beta in H
  end.

Lemma wf_set_P d P : wf_data d -> wf_mat (d_n d) (d_n d) P -> wf_data (d <| d_P := P |>) /\ same_dims d (d <| d_P := P |>).
Proof. intros [] H. split; [constructor; assumption|repeat split]. Qed.
Lemma wf_set_AT d M : wf_data d -> wf_mat (d_n d) (d_p d) M -> wf_data (d <| d_AT := M |>) /\ same_dims d (d <| d_AT := M |>).
Proof. intros [] H. split; [constructor; assumption|repeat split]. Qed.
Lemma wf_set_GT d M : wf_data d -> wf_mat (d_n d) (d_m d) M -> wf_data (d <| d_GT := M |>) /\ same_dims d (d <| d_GT := M |>).
Proof. intros [] H. split; [constructor; assumption|repeat split]. Qed.
Lemma wf_set_c d v : wf_data d -> length v = d_n d -> wf_data (d <| d_c := v |>) /\ same_dims d (d <| d_c := v |>).
Proof. intros [] H. split; [constructor; assumption|repeat split]. Qed.
Lemma wf_set_b d v : wf_data d -> length v = d_p d -> wf_data (d <| d_b := v |>) /\ same_dims d (d <| d_b := v |>).
Proof. intros [] H. split; [constructor; assumption|repeat split]. Qed.
Lemma wf_set_GT_h d M v : wf_data d -> wf_mat (d_n d) (d_m d) M -> length v = d_m d ->
  wf_data (d <| d_GT := M |> <| d_h := v |>) /\ same_dims d (d <| d_GT := M |> <| d_h := v |>).
Proof. intros [] H1 H2. split; [constructor; assumption|repeat split]. Qed.
Lemma wf_set_lb d v ix : wf_data d -> length v = length ix -> incr_from 0 (d_n d) ix ->
  wf_data (d <| d_lb_n := v |> <| d_lb_idx := ix |>) /\ same_dims d (d <| d_lb_n := v |> <| d_lb_idx := ix |>).
Proof. intros [] H1 H2. split; [constructor; assumption|repeat split]. Qed.
Lemma wf_set_ub d v ix : wf_data d -> length v = length ix -> incr_from 0 (d_n d) ix ->
  wf_data (d <| d_ub := v |> <| d_ub_idx := ix |>) /\ same_dims d (d <| d_ub := v |> <| d_ub_idx := ix |>).
Proof. intros [] H1 H2. split; [constructor; assumption|repeat split]. Qed.

Lemma zero_out_wf n p m : wf_out n p m (zero_out n p m).
Proof. constructor; cbn; lens; reflexivity. Qed.

Theorem setup_wf K ident spc junk St n p m B sv :
  sane_consts K -> setup_blocks_ok n p m B -> setup K ident spc junk St n p m B = Ok sv ->
  wf_solver sv /\ d_n (sv_data sv) = n /\ d_p (sv_data sv) = p /\ d_m (sv_data sv) = m.
Proof.
  intros SK (BO & NA & Nb & NG & Nh) H. destruct BO as (BP & Bc & BA & Bb & BG & Bh & Blb & Bub).
  unfold setup in H.
  destruct (b_P B) as [P|]; [|discriminate]. destruct (b_c B) as [c|]; [|discriminate].
  cbn [opt_ok] in BP, Bc.
  set (A := match b_A B with Some A => A | None => repeat [] n end) in H.
  set (G := match b_G B with Some G => G | None => repeat [] n end) in H.
  set (AT := mtranspose p A) in H. set (GT0 := mtranspose m G) in H.
  destruct (match b_h B with Some h => _ | None => _ end) as [GT h] eqn:EGH.
  destruct (match b_lb B with Some l => _ | None => _ end) as [lbn lbi] eqn:Elb.
  destruct (match b_ub B with Some l => _ | None => _ end) as [ubv ubi] eqn:Eub.
  set (d0 := mkData n p m _ _ _ _ _ _ _ _ _ _ _ _) in H. set (pc0 := precond_init ident d0) in H.
  assert (LA : length A = n).
  { unfold A. destruct (b_A B) as [A0|]; [destruct BA as [L _]; exact L|apply repeat_length]. }
  assert (LG : length G = n).
  { unfold G. destruct (b_G B) as [G0|]; [destruct BG as [L _]; exact L|apply repeat_length]. }
  assert (WAT : wf_mat n p AT) by (unfold AT; rewrite <- LA; apply wf_mat_mtranspose).
  assert (WGT0 : wf_mat n m GT0) by (unfold GT0; rewrite <- LG; apply wf_mat_mtranspose).
  assert (WGh : wf_mat n m GT /\ length h = m).
  { destruct (b_h B) as [h0|].
    - eapply disable_inf_shape; [exact WGT0|exact Bh|exact EGH].
    - inversion EGH; subst. split; [exact WGT0|]. rewrite (Nh eq_refl). reflexivity. }
  assert (Wlb : length lbn = length lbi /\ incr_from 0 n lbi).
  { destruct (b_lb B) as [l|].
    - apply pack_lb_shape in Elb. cbn [opt_ok] in Blb. rewrite Blb in Elb. exact Elb.
    - inversion Elb; subst. split; [reflexivity|exact Logic.I]. }
  assert (Wub : length ubv = length ubi /\ incr_from 0 n ubi).
  { destruct (b_ub B) as [l|].
    - apply pack_ub_shape in Eub. cbn [opt_ok] in Bub. rewrite Bub in Eub. exact Eub.
    - inversion Eub; subst. split; [reflexivity|exact Logic.I]. }
  assert (Lb : length (match b_b B with Some b => b | None => [] end) = p).
  { destruct (b_b B) as [b0|]; [exact Bb|rewrite (Nb eq_refl); reflexivity]. }
  assert (W0 : wf_data d0).
  { destruct WGh, Wlb, Wub. unfold d0. constructor; cbn; try assumption.
    - apply wf_mat_upper_tri, BP.
    - apply vconst_length.
    - apply vconst_length. }
  destruct (pc_inverse_init ident d0 W0) as [_ WP0]. fold pc0 in WP0.
  binv H. injection H as <-. cbn.
  destruct (scale_data_wf _ _ _ _ _ _ _ _ _ SK W0 WP0 E) as (W1 & WP1 & N1 & N2 & En & Ep & Em & _ & _).
  split; [|unfold d0 in *; cbn in *; auto].
  constructor; cbn; try assumption.
  - eapply kkt_init_wf; eassumption.
  - replace (d_n d) with n by (unfold d0 in En; cbn in En; congruence).
    replace (d_p d) with p by (unfold d0 in Ep; cbn in Ep; congruence).
    replace (d_m d) with m by (unfold d0 in Em; cbn in Em; congruence).
    apply zero_out_wf.
Qed.

(* DenseSolver::update, block by block (the same term as API.update, with the eight conditional assignments named) *)
Section UpdateSteps.
Variable K : Consts.
Variable spc : bool.
Variable B : Blocks.
Definition stepP (d : Data) : Data := match b_P B with Some P => (d <| d_P := upper_tri P |>) | None => d end.
Definition stepA (p : nat) (d : Data) : Data := match b_A B with Some A => (d <| d_AT := mtranspose p A |>) | None => d end.
Definition stepG (m : nat) (d : Data) : Data := match b_G B with Some G => (d <| d_GT := mtranspose m G |>) | None => d end.
Definition stepc (d : Data) : Data := match b_c B with Some c => (d <| d_c := c |>) | None => d end.
Definition stepb (d : Data) : Data := match b_b B with Some b => (d <| d_b := b |>) | None => d end.
Definition steph (d : Data) : Data :=
  match b_h B with
  | Some h => let '(GT, hv) := disable_inf (k_inf K) (d_GT d) h in (d <| d_GT := GT |> <| d_h := hv |>)
  | None => d end.
Definition steplb (d : Data) : Data :=
  match b_lb B with
  | Some l => let '(v, ix) := pack_lb (k_inf K) 0 l in (d <| d_lb_n := v |> <| d_lb_idx := ix |>)
  | None => d end.
Definition stepub (d : Data) : Data :=
  match b_ub B with
  | Some l => let '(v, ix) := pack_ub (k_inf K) 0 l in (d <| d_ub := v |> <| d_ub_idx := ix |>)
  | None => d end.
Definition all_steps (d0 : Data) : Data := stepub (steplb (steph (stepb (stepc (stepG (d_m d0) (stepA (d_p d0) (stepP d0))))))).

Lemma update_unfold sv reuse :
  update K spc sv B reuse =
  (do d0 <- unscale_data (sv_pc sv) (sv_data sv) ;;
   do '(pc, d) <- scale_data K spc (sv_pc sv) (all_steps d0) reuse (preconditioner_scale_cost (sv_set sv)) (preconditioner_iter (sv_set sv)) ;;
   let oP := match b_P B with Some _ => true | None => false end in
   let oA := match b_A B with Some _ => true | None => false end in
   let oG := match b_G B with Some _ => true | None => false end in
   do k <- kkt_update_data d (sv_kkt sv) (oP || negb reuse) (oA || negb reuse) (oG || negb reuse) ;;
   Ok (sv <| sv_data := d |> <| sv_pc := pc |> <| sv_kkt := k |> <| sv_kkt_init_state := false |>)).
Proof. reflexivity. Qed.

Lemma all_steps_wf d0 : wf_data d0 -> blocks_ok (d_n d0) (d_p d0) (d_m d0) B ->
  wf_data (all_steps d0) /\ same_dims d0 (all_steps d0).
Proof.
  intros W (BP & Bc & BA & Bb & BG & Bh & Blb & Bub). unfold all_steps.
  assert (S1 : wf_data (stepP d0) /\ same_dims d0 (stepP d0)).
  { unfold stepP. destruct (b_P B) as [P|]; [|split; [exact W|apply same_dims_refl]].
    apply wf_set_P; [exact W|apply wf_mat_upper_tri, BP]. }
  destruct S1 as [W1 D1]. set (d1 := stepP d0) in *.
  assert (S2 : wf_data (stepA (d_p d0) d1) /\ same_dims d0 (stepA (d_p d0) d1)).
  { unfold stepA. destruct (b_A B) as [A|]; [|split; [exact W1|exact D1]].
    destruct D1 as (E1 & E2 & E3). destruct BA as [LA _].
    destruct (wf_set_AT d1 (mtranspose (d_p d0) A) W1) as [Wx Dx].
    { rewrite E1, E2, <- LA. apply wf_mat_mtranspose. }
    split; [exact Wx|eapply same_dims_trans; [|exact Dx]; repeat split; assumption]. }
  destruct S2 as [W2 D2]. set (d2 := stepA (d_p d0) d1) in *.
  assert (S3 : wf_data (stepG (d_m d0) d2) /\ same_dims d0 (stepG (d_m d0) d2)).
  { unfold stepG. destruct (b_G B) as [G|]; [|split; [exact W2|exact D2]].
    destruct D2 as (E1 & E2 & E3). destruct BG as [LG _].
    destruct (wf_set_GT d2 (mtranspose (d_m d0) G) W2) as [Wx Dx].
    { rewrite E1, E3, <- LG. apply wf_mat_mtranspose. }
    split; [exact Wx|eapply same_dims_trans; [|exact Dx]; repeat split; assumption]. }
  destruct S3 as [W3 D3]. set (d3 := stepG (d_m d0) d2) in *.
  assert (S4 : wf_data (stepc d3) /\ same_dims d0 (stepc d3)).
  { unfold stepc. destruct (b_c B) as [c|]; [|split; [exact W3|exact D3]].
    destruct D3 as (E1 & E2 & E3). destruct (wf_set_c d3 c W3) as [Wx Dx]; [cbn [opt_ok] in Bc; congruence|].
    split; [exact Wx|eapply same_dims_trans; [|exact Dx]; repeat split; assumption]. }
  destruct S4 as [W4 D4]. set (d4 := stepc d3) in *.
  assert (S5 : wf_data (stepb d4) /\ same_dims d0 (stepb d4)).
  { unfold stepb. destruct (b_b B) as [b|]; [|split; [exact W4|exact D4]].
    destruct D4 as (E1 & E2 & E3). destruct (wf_set_b d4 b W4) as [Wx Dx]; [cbn [opt_ok] in Bb; congruence|].
    split; [exact Wx|eapply same_dims_trans; [|exact Dx]; repeat split; assumption]. }
  destruct S5 as [W5 D5]. set (d5 := stepb d4) in *.
  assert (S6 : wf_data (steph d5) /\ same_dims d0 (steph d5)).
  { unfold steph. destruct (b_h B) as [h|]; [|split; [exact W5|exact D5]].
    destruct (disable_inf (k_inf K) (d_GT d5) h) as [GT hv] eqn:E.
    destruct D5 as (E1 & E2 & E3). cbn [opt_ok] in Bh.
    destruct (disable_inf_shape _ (d_n d5) (d_m d5) _ _ _ _ (wfd_GT _ W5) (eq_trans Bh (eq_sym E3)) E) as [WG Lh].
    destruct (wf_set_GT_h d5 GT hv W5 WG Lh) as [Wx Dx].
    split; [exact Wx|eapply same_dims_trans; [|exact Dx]; repeat split; assumption]. }
  destruct S6 as [W6 D6]. set (d6 := steph d5) in *.
  assert (S7 : wf_data (steplb d6) /\ same_dims d0 (steplb d6)).
  { unfold steplb. destruct (b_lb B) as [l|]; [|split; [exact W6|exact D6]].
    destruct (pack_lb (k_inf K) 0 l) as [v ix] eqn:E. apply pack_lb_shape in E. destruct E as [L In].
    destruct D6 as (E1 & E2 & E3). cbn [opt_ok] in Blb. cbn [plus] in In. rewrite Blb, <- E1 in In.
    destruct (wf_set_lb d6 v ix W6 L In) as [Wx Dx].
    split; [exact Wx|eapply same_dims_trans; [|exact Dx]; repeat split; assumption]. }
  destruct S7 as [W7 D7]. set (d7 := steplb d6) in *.
  unfold stepub. destruct (b_ub B) as [l|]; [|split; [exact W7|exact D7]].
  destruct (pack_ub (k_inf K) 0 l) as [v ix] eqn:E. apply pack_ub_shape in E. destruct E as [L In].
  destruct D7 as (E1 & E2 & E3). cbn [opt_ok] in Bub. cbn [plus] in In. rewrite Bub, <- E1 in In.
  destruct (wf_set_ub d7 v ix W7 L In) as [Wx Dx].
  split; [exact Wx|eapply same_dims_trans; [|exact Dx]; repeat split; assumption].
Qed.
End UpdateSteps.

Theorem update_wf K spc sv B reuse sv' :
  sane_consts K -> wf_solver sv ->
  blocks_ok (d_n (sv_data sv)) (d_p (sv_data sv)) (d_m (sv_data sv)) B ->
  update K spc sv B reuse = Ok sv' ->
  wf_solver sv' /\ same_dims (sv_data sv) (sv_data sv').
Proof.
  intros SK [Wd WP Nlb Nub Wk Wo] BO H. rewrite update_unfold in H.
  destruct (unscale_data (sv_pc sv) (sv_data sv)) as [d0|] eqn:EU; cbn [bind] in H; [|discriminate].
  destruct (unscale_data_wf _ _ _ Wd WP Nlb Nub EU) as (W0 & En0 & Ep0 & Em0 & _ & _).
  rewrite <- En0, <- Ep0, <- Em0 in BO.
  destruct (all_steps_wf K B d0 W0 BO) as [W8 (En8 & Ep8 & Em8)].
  destruct (scale_data K spc (sv_pc sv) (all_steps K B d0) reuse _ _) as [[pc d]|] eqn:ES; cbn [bind] in H; [|discriminate].
  assert (WP8 : wf_pc (sv_pc sv) (all_steps K B d0)).
  { destruct WP as [WL (A1 & A2 & A3)]. split; [exact WL|]. repeat split; congruence. }
  destruct (scale_data_wf _ _ _ _ _ _ _ _ _ SK W8 WP8 ES) as (W9 & WP9 & N1 & N2 & En & Ep & Em & _ & _).
  cbv zeta in H.
  destruct (kkt_update_data d (sv_kkt sv) _ _ _) as [k|] eqn:EK; cbn [bind] in H; [|discriminate].
  injection H as <-. cbn.
  assert (SD : same_dims (sv_data sv) d) by (repeat split; congruence).
  split; [|exact SD]. destruct SD as (S1 & S2 & S3).
  constructor; cbn; try assumption.
  - eapply kkt_update_data_wf; [|exact EK]. eapply wf_kkt_dims; [| | |exact Wk]; assumption.
  - rewrite S1, S2, S3. exact Wo.
Qed.

(* ================================================================== *)
(** * F. solve: the KKT operations                                      *)
(* ================================================================== *)

Tactic Notation "bstep" hyp(H) "as" simple_intropattern(x) ident(E) :=
  match type of H with bind ?e _ = Ok _ => destruct e as [x|] eqn:E; cbn [bind] in H; [|discriminate H] end.

Ltac lenfacts := repeat match goal with
  | H : vinv _ = Ok _ |- _ => apply vinv_len in H; lens_in H
  | H : vdiv _ _ = Ok _ |- _ => apply vdiv_len in H; lens_in H
  | H : gather _ _ = Ok _ |- _ => apply gather_len in H; lens_in H
  | H : scatter_with _ _ _ _ = Ok _ |- _ => apply scatter_len in H; lens_in H
  | H : qinv _ = Ok _ |- _ => clear H
  | H : qdiv _ _ = Ok _ |- _ => clear H
  end.

Lemma kkt_update_scalings_wf d k rho delta sv svlb svub zv zvlb zvub k' :
  wf_kkt d k -> (d_nlb d <= d_n d)%nat -> (d_nub d <= d_n d)%nat -> length sv = d_m d -> length zv = d_m d ->
  kkt_update_scalings d k rho delta sv svlb svub zv zvlb zvub = Ok k' -> wf_kkt d k'.
Proof.
  intros [K1 K2 K3 K4 K5 K6 K7 K8 K9] Nlb Nub Ls Lz H. unfold kkt_update_scalings in H.
  bstep H as zi Ez. bstep H as zlbi Ezlb. bstep H as zubi Ezub. lenfacts.
  eapply update_kkt_wf; [|exact H]. constructor; cbn; try assumption; lens.
Qed.

Lemma regularized_rows_shape n (g : nat -> nat -> F -> F) rows : lower_shape n rows ->
  lower_shape n (map (fun ir => map (fun jv => g (fst ir) (fst jv) (snd jv)) (combine (seq 0 (length (snd ir))) (snd ir)))
                     (combine (seq 0 (length rows)) rows)).
Proof.
  intros [L W]. split; [lens|].
  intros i Hi. autorewrite with len in Hi. rewrite Nat.min_id in Hi.
  rewrite (nth_map' _ _ i (0%nat, [])) by (autorewrite with len; vlia).
  unfold Vec in *. rewrite (nth_combine (seq 0 (length rows)) rows i 0%nat (@nil F)) by (autorewrite with len; vlia). cbn [fst snd].
  autorewrite with len. rewrite Nat.min_id. apply W, Hi.
Qed.

Lemma llt_compute_fits n rows f : lower_shape n rows -> llt_compute rows = Ok f -> fact_fits n f.
Proof.
  intros [L W] H. destruct f as [f|]; [|exact Logic.I].
  destruct (llt_compute_factorisation rows f W H) as (H1 & H2 & H3 & _).
  cbn. rewrite L in *. repeat split; try assumption. intros i Hi. apply H3. vlia.
Qed.

Lemma regularize_and_factorize_wf St d k refine fault k' ok :
  wf_kkt d k -> regularize_and_factorize St d k refine fault = Ok (k', ok) -> wf_kkt d k'.
Proof.
  intros Wk H. unfold regularize_and_factorize in H. destruct fault; [injection H as <- _; exact Wk|].
  bstep H as f Ef.
  assert (Ff : fact_fits (d_n d) f).
  { eapply llt_compute_fits; [|exact Ef].
    apply (regularized_rows_shape (d_n d) (fun i j v => if Nat.eqb j i then v + _ else v)). apply Wk. }
  destruct Wk as [K1 K2 K3 K4 K5 K6 K7 K8 K9].
  destruct f as [f|]; injection H as <- _; constructor; assumption.
Qed.

Lemma llt_solve_len n f b r : fact_fits n (Some f) -> length b = n -> llt_solve f b = Ok r -> length r = n.
Proof.
  intros (L1 & L2 & L3) Lb H. unfold llt_solve in H.
  assert (WL : wf_L (f_L f)) by (intros i Hi; apply L3; vlia).
  destruct (fwd_spec (f_L f) b WL ltac:(vlia) _ 0%nat [] eq_refl eq_refl ltac:(vlia)) as [Ly _].
  { intros i Hi. vlia. }
  cbn [skipn] in Ly. bstep H as y' Ey. injection H as <-.
  apply vdiv_len in Ey. destruct (bwd_spec (f_L f) WL y') as [Lx _]; vlia.
Qed.

Lemma solve_ldlt_len d k b r : wf_kkt d k -> length b = d_n d -> solve_ldlt k b = Ok r -> length r = d_n d.
Proof.
  intros Wk Lb H. unfold solve_ldlt in H. destruct (k_fact k) as [f|] eqn:E; [|discriminate].
  eapply llt_solve_len; [|exact Lb|exact H]. rewrite <- E. apply Wk.
Qed.

Lemma refine_loop_len St d k : wf_kkt d k -> forall fuel rhs rn sol ec en r,
  length rhs = d_n d -> length sol = d_n d -> length ec = d_n d ->
  refine_loop St fuel k rhs rn sol ec en = Ok r -> length r = d_n d.
Proof.
  intros Wk. induction fuel as [|fuel IH]; intros rhs rn sol ec en r Lr Ls Le H; cbn [refine_loop] in H.
  - injection H as <-. exact Ls.
  - destruct (qleb en _); [injection H as <-; exact Ls|].
    bstep H as corr Ec. apply (solve_ldlt_len d k _ _ Wk Le) in Ec.
    assert (Lk : length (k_mat k) = d_n d) by apply Wk.
    assert (Lref : length (vadd sol corr) = d_n d) by lens.
    assert (Lerr : length (vsub rhs (lower_sym_mul (k_mat k) (vadd sol corr))) = d_n d) by lens.
    destruct (qeqb _ 0); [eapply IH; [| | |exact H]; assumption|].
    bstep H as rate Er.
    destruct (qltb rate _); [destruct (qltb 1 rate); injection H as <-; assumption|].
    eapply IH; [| | |exact H]; assumption.
Qed.

Record wf_rhs (d : Data) (a b c clb cub e elb eub : Vec) : Prop := mk_wf_rhs {
  wr_x : length a = d_n d; wr_y : length b = d_p d; wr_z : length c = d_m d;
  wr_z_lb : length clb = d_nlb d; wr_z_ub : length cub = d_nub d;
  wr_s : length e = d_m d; wr_s_lb : length elb = d_nlb d; wr_s_ub : length eub = d_nub d
}.

Lemma kkt_solve_len St d k refine a b c clb cub e elb eub stp :
  wf_data d -> wf_kkt d k -> wf_rhs d a b c clb cub e elb eub ->
  kkt_solve St d k refine a b c clb cub e elb eub = Ok stp ->
  wf_rhs d (st_x stp) (st_y stp) (st_z stp) (st_z_lb stp) (st_z_ub stp) (st_s stp) (st_s_lb stp) (st_s_ub stp).
Proof.
  intros W Wk [R1 R2 R3 R4 R5 R6 R7 R8] H.
  pose proof (wf_nlb_le _ W) as Nlb. pose proof (wf_nub_le _ W) as Nub.
  pose proof Wk as [K1 K2 K3 K4 K5 K6 K7 K8 K9].
  destruct W as [[_ WP] [LA WA] [LG WG] Wc Wb Wh Wli Wui Wls Wus Wln Wu].
  assert (MA : forall v, length (mat_vec (d_n d) (d_AT d) v) = d_n d) by (intro; apply mat_vec_len, WA).
  assert (MG : forall v, length (mat_vec (d_n d) (d_GT d) v) = d_n d) by (intro; apply mat_vec_len, WG).
  unfold kkt_solve in H.
  bstep H as di Edi. bstep H as w Ew. bstep H as wlb Ewlb. bstep H as wub Ewub.
  bstep H as r2 Er2. bstep H as rhs Erhs. bstep H as sol0 Esol0. bstep H as sol Esol.
  bstep H as xlb Exlb. bstep H as xub Exub. injection H as <-. lenfacts.
  change (length (d_lb_idx d)) with (d_nlb d) in *. change (length (d_ub_idx d)) with (d_nub d) in *.
  assert (Lrhs : length rhs = d_n d) by (rewrite Erhs, Er2, ?MA, ?MG; vlia).
  apply (solve_ldlt_len d k _ _ Wk Lrhs) in Esol0.
  assert (Lsol : length sol = d_n d).
  { destruct (refine && _)%bool; [|injection Esol as <-; exact Esol0].
    eapply (refine_loop_len St d k Wk); [| | |exact Esol]; try assumption.
    destruct K7 as [Lk _]. lens. }
  assert (Lw : length w = d_m d) by (rewrite Ew, K1, K4; apply Nat.min_id).
  assert (Lwlb : length wlb = d_nlb d) by (rewrite Ewlb, K2, K5; vlia).
  assert (Lwub : length wub = d_nub d) by (rewrite Ewub, K3, K6; vlia).
  clear Ew Ewlb Ewub Er2 Erhs Esol Esol0.
  constructor; cbn [st_x st_y st_z st_z_lb st_z_ub st_s st_s_lb st_s_ub]; unfold head, tail_from, segment, ext_of, vconst; autorewrite with len;
   rewrite ?Lw, ?Lwlb, ?Lwub, ?K1, ?K2, ?K3, ?K4, ?K5, ?K6, ?R1, ?R2, ?R3, ?R4, ?R5, ?R6, ?R7, ?R8, ?Exlb, ?Exub, ?Lsol, ?Wls, ?Wus, ?LA, ?LG; rewrite ?Nat.min_id.
  all: rewrite ?(Nat.min_l _ _ Nlb), ?(Nat.min_l _ _ Nub), ?Nat.min_id; try reflexivity; vlia.
Qed.

(* ================================================================== *)
(** * G. solve: the interior-point iteration                            *)
(* ================================================================== *)

Ltac rw_lens := repeat match goal with H : length ?v = _ |- context [length ?v] => rewrite H end.
Ltac fin_len Nlb Nub :=
  unfold head, tail_from, segment, ext_of, vconst; autorewrite with len; rw_lens;
  rewrite ?(Nat.min_l _ _ Nlb), ?(Nat.min_l _ _ Nub), ?Nat.min_id; try reflexivity; try vlia.

Record wf_it (d : Data) (it : Iterate) : Prop := mk_wf_it {
  wi_x : length (x it) = d_n d; wi_y : length (y it) = d_p d; wi_z : length (z it) = d_m d;
  wi_z_lb : length (z_lb it) = d_nlb d; wi_z_ub : length (z_ub it) = d_nub d;
  wi_s : length (s it) = d_m d; wi_s_lb : length (s_lb it) = d_nlb d; wi_s_ub : length (s_ub it) = d_nub d;
  wi_zeta : length (zeta it) = d_n d; wi_lambda : length (lambda it) = d_p d; wi_nu : length (nu it) = d_m d;
  wi_nu_lb : length (nu_lb it) = d_nlb d; wi_nu_ub : length (nu_ub it) = d_nub d
}.

Record wf_res (d : Data) (r : Resid) : Prop := mk_wf_res {
  wr_rx : length (rx_nr r) = d_n d; wr_ry : length (ry_nr r) = d_p d; wr_rz : length (rz_nr r) = d_m d;
  wr_rz_lb : length (rz_lb_nr r) = d_nlb d; wr_rz_ub : length (rz_ub_nr r) = d_nub d
}.

Record wf_st (d : Data) (st : St) : Prop := mk_wf_st {
  wst_it : wf_it d (st_it st);
  wst_k : wf_kkt d (st_kkt st);
  wst_res : i_iter (st_inf st) = 0%Z \/ wf_res d (st_res st)
}.

Lemma wf_it_if d (c : bool) a b : wf_it d a -> wf_it d b -> wf_it d (if c then a else b).
Proof. destruct c; auto. Qed.

Lemma Psym_mul_len d v : wf_data d -> length (Psym_mul d v) = d_n d.
Proof.
  intros W. unfold Psym_mul. destruct (wfd_P _ W) as [_ WP].
  rewrite vadd_length, (mat_vec_len _ _ _ WP), map_length, seq_length. apply Nat.min_id.
Qed.

Lemma update_nr_residuals_len d pc K it inf r inf' :
  wf_data d -> wf_it d it -> update_nr_residuals d pc K it inf = Ok (r, inf') -> wf_res d r.
Proof.
  intros W [I1 I2 I3 I4 I5 I6 I7 I8 I9 I10 I11 I12 I13] H.
  pose proof (wf_nlb_le _ W) as Nlb. pose proof (wf_nub_le _ W) as Nub.
  pose proof (Psym_mul_len d (x it) W) as LP.
  destruct W as [[_ WP] [LA WA] [LG WG] Wc Wb Wh Wli Wui Wls Wus Wln Wu].
  assert (MA : forall v, length (mat_vec (d_n d) (d_AT d) v) = d_n d) by (intro; apply mat_vec_len, WA).
  assert (MG : forall v, length (mat_vec (d_n d) (d_GT d) v) = d_n d) by (intro; apply mat_vec_len, WG).
  unfold update_nr_residuals in H.
  bstep H as t1 Et1. bstep H as t2 Et2. bstep H as xlb Exlb. bstep H as xub Exub. injection H as <- _. lenfacts.
  change (length (d_lb_idx d)) with (d_nlb d) in *. change (length (d_ub_idx d)) with (d_nub d) in *.
  rewrite Et1, ?MA, ?MG, Nat.min_id in Et2. clear Et1.
  constructor; cbn [rx_nr ry_nr rz_nr rz_lb_nr rz_ub_nr]; fin_len Nlb Nub.
Qed.

Lemma entry_iterate_wf d o : (d_nlb d <= d_n d)%nat -> (d_nub d <= d_n d)%nat ->
  wf_out (d_n d) (d_p d) (d_m d) o -> wf_it d (entry_iterate d o).
Proof.
  intros Nlb Nub [O1 O2 O3 O4 O5 O6 O7 O8 O9 O10 O11 O12 O13]. unfold entry_iterate.
  constructor; cbn [x y z z_lb z_ub s s_lb s_ub zeta lambda nu nu_lb nu_ub]; fin_len Nlb Nub.
Qed.

Section SolveWf.
Variable K : Consts.
Variable St0 : Settings.
Variable d : Data.
Variable pc : Precond.
Variable fault : nat -> bool.
Variable cp : F -> F.
Hypothesis W : wf_data d.

Let Nlb : (d_nlb d <= d_n d)%nat := wf_nlb_le _ W.
Let Nub : (d_nub d <= d_n d)%nat := wf_nub_le _ W.

Lemma do_update_scalings_wf st st' : wf_st d st -> do_update_scalings d st = Ok st' -> wf_st d st'.
Proof.
  intros [[I1 I2 I3 I4 I5 I6 I7 I8 I9 I10 I11 I12 I13] Wk Wr] H. unfold do_update_scalings in H.
  bstep H as k Ek. injection H as <-.
  constructor; cbn; [constructor; assumption| |exact Wr].
  eapply kkt_update_scalings_wf; [exact Wk|exact Nlb|exact Nub| | |exact Ek]; assumption.
Qed.

Lemma do_factorize_wf st st' ok : wf_st d st -> do_factorize St0 d fault st = Ok (st', ok) -> wf_st d st'.
Proof.
  intros [Wi Wk Wr] H. unfold do_factorize in H.
  bstep H as [k o] Ek. injection H as <- _.
  constructor; cbn; [exact Wi| |exact Wr]. eapply regularize_and_factorize_wf; [exact Wk|exact Ek].
Qed.

Lemma wf_st_set_refine st b : wf_st d st -> wf_st d (st <| st_refine := b |>).
Proof. intros [Wi Wk Wr]. constructor; cbn; assumption. Qed.

(* changing info fields other than the iteration counter keeps the invariant; so does any change when the residuals are shaped *)
Lemma wf_st_set_inf st inf : wf_st d st -> (i_iter inf = i_iter (st_inf st) \/ wf_res d (st_res st)) -> wf_st d (st <| st_inf := inf |>).
Proof.
  intros [Wi Wk Wr] Hi. constructor; cbn; try assumption.
  destruct Hi as [E|R]; [rewrite E; exact Wr|right; exact R].
Qed.

Lemma bump_reg_iter inf : i_iter (bump_reg K St0 inf) = i_iter inf.
Proof. reflexivity. Qed.

Lemma init_factor_wf fuel : forall st st' ok, wf_st d st -> init_factor K St0 d fault fuel st = Ok (st', ok) -> wf_st d st'.
Proof.
  induction fuel as [|fuel IH]; intros st st' ok Wst H; cbn [init_factor] in H; [discriminate|].
  bstep H as [st1 ok1] E1. apply do_factorize_wf in E1; [|exact Wst].
  destruct ok1; [injection H as <- _; exact E1|].
  destruct (negb (st_refine st1)); [eapply IH; [|exact H]; apply wf_st_set_refine, E1|].
  destruct (Z.ltb _ _).
  - bstep H as st2 E2. eapply IH; [|exact H]. eapply do_update_scalings_wf; [|exact E2].
    apply wf_st_set_inf; [exact E1|left; reflexivity].
  - injection H as <- _. apply wf_st_set_inf; [exact E1|left; reflexivity].
Qed.

End SolveWf.

(* vector operations stay folded under cbn in this file *)
#[local] Arguments vadd : simpl never.
#[local] Arguments vsub : simpl never.
#[local] Arguments vmul : simpl never.
#[local] Arguments vscale : simpl never.
#[local] Arguments vneg : simpl never.
#[local] Arguments vaddc : simpl never.
#[local] Arguments vconst : simpl never.
#[local] Arguments head : simpl never.
#[local] Arguments tail_from : simpl never.
#[local] Arguments segment : simpl never.
#[local] Arguments set_head : simpl never.
#[local] Arguments mat_vec : simpl never.
#[local] Arguments matT_vec : simpl never.
#[local] Arguments Psym_mul : simpl never.

(* bind inversion without zeta (keeps the remaining lets of H folded) *)
Tactic Notation "lstep" hyp(H) "as" simple_intropattern(x) ident(E) :=
  match type of H with
  | bind ?e ?f = ?r =>
      destruct e as [x|] eqn:E;
      [ match type of H with bind (Ok ?a) _ = _ => change (f a = r) in H; cbv beta iota in H end
      | cbn [bind] in H; discriminate H ]
  end.

Definition out_st (o : Outcome) : St := match o with Continue st => st | Stop st => st end.

Ltac open_it Wn :=
  pose proof (wi_x _ _ Wn); pose proof (wi_y _ _ Wn); pose proof (wi_z _ _ Wn); pose proof (wi_z_lb _ _ Wn);
  pose proof (wi_z_ub _ _ Wn); pose proof (wi_s _ _ Wn); pose proof (wi_s_lb _ _ Wn); pose proof (wi_s_ub _ _ Wn);
  pose proof (wi_zeta _ _ Wn); pose proof (wi_lambda _ _ Wn); pose proof (wi_nu _ _ Wn); pose proof (wi_nu_lb _ _ Wn);
  pose proof (wi_nu_ub _ _ Wn).

Ltac split_ifs := repeat match goal with |- context [if ?c then _ else _] => destruct c end.

Lemma wf_it_cp d cp it : wf_it d it -> wf_it d (cp_iterate cp it).
Proof. intros [I1 I2 I3 I4 I5 I6 I7 I8 I9 I10 I11 I12 I13]. unfold cp_iterate. constructor; cbn; rewrite ?map_length; assumption. Qed.

Lemma wf_it_set_z3 d it a b c : wf_it d it -> length a = d_m d -> length b = d_nlb d -> length c = d_nub d ->
  wf_it d (it <| z := a |> <| z_lb := b |> <| z_ub := c |>).
Proof. intros [I1 I2 I3 I4 I5 I6 I7 I8 I9 I10 I11 I12 I13] A B C. constructor; cbn; assumption. Qed.
Lemma wf_it_set8 d it a1 a2 a3 a4 a5 a6 a7 a8 : wf_it d it ->
  length a1 = d_n d -> length a2 = d_p d -> length a3 = d_m d -> length a4 = d_nlb d -> length a5 = d_nub d ->
  length a6 = d_m d -> length a7 = d_nlb d -> length a8 = d_nub d ->
  wf_it d (it <| x := a1 |> <| y := a2 |> <| z := a3 |> <| z_lb := a4 |> <| z_ub := a5 |> <| s := a6 |> <| s_lb := a7 |> <| s_ub := a8 |>).
Proof. intros [I1 I2 I3 I4 I5 I6 I7 I8 I9 I10 I11 I12 I13] A1 A2 A3 A4 A5 A6 A7 A8. constructor; cbn; assumption. Qed.
Lemma wf_it_set6 d it a6 a7 a8 a3 a4 a5 : wf_it d it ->
  length a6 = d_m d -> length a7 = d_nlb d -> length a8 = d_nub d -> length a3 = d_m d -> length a4 = d_nlb d -> length a5 = d_nub d ->
  wf_it d (it <| s := a6 |> <| s_lb := a7 |> <| s_ub := a8 |> <| z := a3 |> <| z_lb := a4 |> <| z_ub := a5 |>).
Proof. intros [I1 I2 I3 I4 I5 I6 I7 I8 I9 I10 I11 I12 I13] A6 A7 A8 A3 A4 A5. constructor; cbn; assumption. Qed.
Lemma wf_it_set_xy d it a1 a2 : wf_it d it -> length a1 = d_n d -> length a2 = d_p d -> wf_it d (it <| x := a1 |> <| y := a2 |>).
Proof. intros [I1 I2 I3 I4 I5 I6 I7 I8 I9 I10 I11 I12 I13] A1 A2. constructor; cbn; assumption. Qed.
Lemma wf_it_set_zeta d it : wf_it d it -> wf_it d (it <| zeta := x it |>).
Proof. intros [I1 I2 I3 I4 I5 I6 I7 I8 I9 I10 I11 I12 I13]. constructor; cbn; assumption. Qed.
Lemma wf_it_set_lambda d it : wf_it d it -> wf_it d (it <| lambda := y it |>).
Proof. intros [I1 I2 I3 I4 I5 I6 I7 I8 I9 I10 I11 I12 I13]. constructor; cbn; assumption. Qed.
Lemma wf_it_set_prox d it : wf_it d it ->
  wf_it d (it <| lambda := y it |> <| nu := z it |> <| nu_lb := z_lb it |> <| nu_ub := z_ub it |>).
Proof. intros [I1 I2 I3 I4 I5 I6 I7 I8 I9 I10 I11 I12 I13]. constructor; cbn; assumption. Qed.
Lemma wf_it_set_centres d it : wf_it d it ->
  wf_it d (it <| zeta := x it |> <| lambda := y it |> <| nu := z it |> <| nu_lb := z_lb it |> <| nu_ub := z_ub it |>).
Proof. intros [I1 I2 I3 I4 I5 I6 I7 I8 I9 I10 I11 I12 I13]. constructor; cbn; assumption. Qed.

Lemma do_update_scalings_same d st st' : do_update_scalings d st = Ok st' ->
  st_it st' = st_it st /\ st_res st' = st_res st /\ st_inf st' = st_inf st /\ st_refine st' = st_refine st.
Proof. intro H. unfold do_update_scalings in H. bstep H as k Ek. injection H as <-. repeat split. Qed.
Lemma do_factorize_same St0 d fault st st' ok : do_factorize St0 d fault st = Ok (st', ok) ->
  st_it st' = st_it st /\ st_res st' = st_res st /\ st_inf st' = st_inf st /\ st_refine st' = st_refine st.
Proof. intro H. unfold do_factorize in H. bstep H as [k o] Ek. injection H as <- _. repeat split. Qed.

Tactic Notation "ifstep" hyp(H) "as" ident(C) :=
  match type of H with (if ?c then _ else _) = _ => destruct c eqn:C end.

Section LoopWf.
Variable K : Consts.
Variable St0 : Settings.
Variable d : Data.
Variable pc : Precond.
Variable fault : nat -> bool.
Variable cp : F -> F.
Hypothesis W : wf_data d.

Let Nlb : (d_nlb d <= d_n d)%nat := wf_nlb_le _ W.
Let Nub : (d_nub d <= d_n d)%nat := wf_nub_le _ W.

Lemma wf_st_inf_right st inf : wf_it d (st_it st) -> wf_kkt d (st_kkt st) -> wf_res d (st_res st) -> wf_st d (st <| st_inf := inf |>).
Proof. intros A B C. constructor; cbn; [exact A|exact B|right; exact C]. Qed.

Lemma loop_pass_wf st o : wf_st d st -> loop_pass K St0 d pc fault cp st = Ok o -> wf_st d (out_st o).
Proof.
  intros [Wi Wk Wr] H. cbv delta [loop_pass] in H. cbv beta in H.
  hzeta H as inf0. lstep H as [res0 inf0a] E0.
  assert (R0 : wf_res d res0).
  { destruct (i_iter inf0 =? 0)%Z eqn:Ez.
    - eapply update_nr_residuals_len; [exact W|exact Wi|exact E0].
    - injection E0 as <- _. destruct Wr as [Zr|R]; [|exact R]. unfold inf0 in Ez. rewrite Zr in Ez. discriminate Ez. }
  clear E0.
  hzeta H as inf1. hzeta H as st1.
  assert (W1 : wf_it d (st_it st1) /\ wf_kkt d (st_kkt st1) /\ wf_res d (st_res st1)) by (split; [exact Wi|split; [exact Wk|exact R0]]).
  destruct W1 as (W1i & W1k & W1r).
  ifstep H as C1; [injection H as <-; cbn [out_st]; apply wf_st_inf_right; assumption|].
  hzeta H as it. hzeta H as rx. hzeta H as ry. hzeta H as rz. hzeta H as rz_lb. hzeta H as rz_ub.
  ifstep H as C2; [injection H as <-; cbn [out_st]; apply wf_st_inf_right; assumption|].
  ifstep H as C3; [injection H as <-; cbn [out_st]; apply wf_st_inf_right; assumption|].
  hzeta H as inf2. hzeta H as lt_eps. hzeta H as sh_z. hzeta H as sh_lb. hzeta H as sh_ub. hzeta H as it3.
  assert (Wit : wf_it d it) by exact Wi. open_it Wit.
  destruct R0 as [Q1 Q2 Q3 Q4 Q5].
  assert (W3 : wf_it d it3).
  { unfold it3. apply wf_it_set_z3; [exact Wit| | |]; split_ifs; fin_len Nlb Nub. }
  open_it W3.
  lstep H as inf3 E3. clear E3. hzeta H as inf4.
  lstep H as st4 E4.
  assert (W4 : wf_st d st4).
  { eapply (do_update_scalings_wf d W); [|exact E4]. constructor; [exact W3|exact Wk|right; constructor; assumption]. }
  apply do_update_scalings_same in E4. destruct E4 as (S4i & S4r & _ & _).
  lstep H as [st5 ok] E5.
  assert (W5 : wf_st d st5) by (eapply do_factorize_wf; [exact W4|exact E5]).
  apply do_factorize_same in E5. destruct E5 as (S5i & S5r & _ & _).
  assert (R5 : wf_res d (st_res st5)) by (rewrite S5r, S4r; constructor; assumption).
  destruct W5 as [W5i W5k _].
  ifstep H as C4.
  { ifstep H as C5; [injection H as <-; cbn [out_st]; constructor; cbn; [exact W5i|exact W5k|right; exact R5]|].
    ifstep H as C6.
    - hzeta H as inf5. injection H as <-. cbn [out_st]. apply wf_st_inf_right; assumption.
    - injection H as <-. cbn [out_st]. apply wf_st_inf_right; assumption. }
  hzeta H as inf6. hzeta H as kk.
  assert (Wkk : wf_kkt d kk) by exact W5k.
  assert (Rx : length rx = d_n d) by (unfold rx; fin_len Nlb Nub).
  assert (Ry : length ry = d_p d) by (unfold ry; fin_len Nlb Nub).
  assert (Rz : length rz = d_m d) by (unfold rz; fin_len Nlb Nub).
  assert (Rzlb : length rz_lb = d_nlb d) by (unfold rz_lb; fin_len Nlb Nub).
  assert (Rzub : length rz_ub = d_nub d) by (unfold rz_ub; fin_len Nlb Nub).
  ifstep H as C7.
  - (* predictor / corrector *)
    hzeta H as rs. hzeta H as rs_lb. hzeta H as rs_ub.
    assert (Rs : length rs = d_m d) by (unfold rs; fin_len Nlb Nub).
    assert (Rslb : length rs_lb = d_nlb d) by (unfold rs_lb; fin_len Nlb Nub).
    assert (Rsub : length rs_ub = d_nub d) by (unfold rs_ub; fin_len Nlb Nub).
    lstep H as p Ep.
    apply (kkt_solve_len St0 d kk _ _ _ _ _ _ _ _ _ _ W Wkk) in Ep; [|constructor; assumption].
    destruct Ep as [P1 P2 P3 P4 P5 P6 P7 P8].
    lstep H as [a_s0 a_z0] Ea. clear Ea.
    hzeta H as a_s. hzeta H as a_z. hzeta H as sig0. lstep H as sig1 Esig. clear Esig.
    hzeta H as sig2. hzeta H as sigma. hzeta H as sm. hzeta H as rs'. hzeta H as rs_lb'. hzeta H as rs_ub'.
    assert (Rs' : length rs' = d_m d) by (unfold rs'; fin_len Nlb Nub).
    assert (Rslb' : length rs_lb' = d_nlb d) by (unfold rs_lb'; fin_len Nlb Nub).
    assert (Rsub' : length rs_ub' = d_nub d) by (unfold rs_ub'; fin_len Nlb Nub).
    lstep H as c Ec.
    apply (kkt_solve_len St0 d kk _ _ _ _ _ _ _ _ _ _ W Wkk) in Ec; [|constructor; assumption].
    destruct Ec as [C1' C2' C3' C4' C5' C6' C7' C8'].
    lstep H as [b_s0 b_z0] Eb. clear Eb.
    hzeta H as ps. hzeta H as ds_. hzeta H as it4. hzeta H as mu_prev.
    assert (W4i : wf_it d it4).
    { unfold it4. apply wf_it_cp. apply wf_it_set8; [exact W3| | | | | | | |]; fin_len Nlb Nub. }
    lstep H as mu Emu. clear Emu. lstep H as rate0 Erate. clear Erate.
    hzeta H as mu_rate. hzeta H as inf7.
    lstep H as [res1 inf8] E8.
    assert (R1 : wf_res d res1) by (eapply update_nr_residuals_len; [exact W|exact W4i|exact E8]). clear E8.
    hzeta H as good_d. hzeta H as it5. hzeta H as inf9. hzeta H as good_p. hzeta H as it6. hzeta H as inf10.
    injection H as <-. cbn [out_st].
    assert (W5it : wf_it d it5) by (unfold it5; apply wf_it_if; [apply wf_it_set_zeta|]; exact W4i).
    assert (W6it : wf_it d it6) by (unfold it6; apply wf_it_if; [apply wf_it_set_prox|]; exact W5it).
    constructor; cbn; [exact W6it|exact W5k|right; exact R1].
  - (* no inequalities: full Newton step *)
    lstep H as c Ec.
    apply (kkt_solve_len St0 d kk _ _ _ _ _ _ _ _ _ _ W Wkk) in Ec; [|constructor; try assumption; fin_len Nlb Nub].
    destruct Ec as [C1' C2' C3' C4' C5' C6' C7' C8'].
    hzeta H as it4. hzeta H as inf7.
    assert (W4i : wf_it d it4).
    { unfold it4. apply wf_it_cp. apply wf_it_set_xy; [exact W3| |]; fin_len Nlb Nub. }
    lstep H as [res1 inf8] E8.
    assert (R1 : wf_res d res1) by (eapply update_nr_residuals_len; [exact W|exact W4i|exact E8]). clear E8.
    hzeta H as good_d. hzeta H as it5. hzeta H as inf9. hzeta H as good_p. hzeta H as it6. hzeta H as inf10.
    injection H as <-. cbn [out_st].
    assert (W5it : wf_it d it5) by (unfold it5; apply wf_it_if; [apply wf_it_set_zeta|]; exact W4i).
    assert (W6it : wf_it d it6) by (unfold it6; apply wf_it_if; [apply wf_it_set_lambda|]; exact W5it).
    constructor; cbn; [exact W6it|exact W5k|right; exact R1].
Qed.
End LoopWf.

Section MainLoopWf.
Variable K : Consts.
Variable St0 : Settings.
Variable d : Data.
Variable pc : Precond.
Variable fault : nat -> bool.
Variable cp : F -> F.
Hypothesis W : wf_data d.

Let Nlb : (d_nlb d <= d_n d)%nat := wf_nlb_le _ W.
Let Nub : (d_nub d <= d_n d)%nat := wf_nub_le _ W.

(* the invariant over main_loop: any number of passes, any fault oracle, any exit *)
Lemma main_loop_wf fuel : forall st st', wf_st d st -> main_loop K St0 d pc fault cp fuel st = Ok st' -> wf_st d st'.
Proof.
  induction fuel as [|fuel IH]; intros st st' Wst H; cbn [main_loop] in H; [discriminate|].
  destruct (Z.ltb _ _).
  - bstep H as o Eo. pose proof (loop_pass_wf K St0 d pc fault cp W st o Wst Eo) as Wo.
    destruct o as [st2|st2]; cbn [out_st] in Wo; [eapply IH; eassumption|injection H as <-; exact Wo].
  - injection H as <-. destruct Wst as [A B C]. constructor; cbn; assumption.
Qed.

Lemma initial_point_wf st st' : wf_st d st -> initial_point K St0 d cp st = Ok st' -> wf_st d st'.
Proof.
  intros [Wi Wk Wr] H. cbv delta [initial_point] in H. cbv beta in H.
  hzeta H as kk. lstep H as stp Es.
  assert (Wkk : wf_kkt d kk) by exact Wk.
  pose proof W as [_ _ _ Wc Wb Wh _ _ _ _ Wln Wu].
  apply (kkt_solve_len St0 d kk _ _ _ _ _ _ _ _ _ _ W Wkk) in Es; [|constructor; try assumption; fin_len Nlb Nub].
  destruct Es as [P1 P2 P3 P4 P5 P6 P7 P8].
  hzeta H as it0.
  assert (W0 : wf_it d it0).
  { unfold it0. apply wf_it_cp. apply wf_it_set8; [exact Wi| | | | | | | |]; assumption. }
  open_it W0.
  lstep H as [it1 inf1] E1.
  assert (W1 : wf_it d it1 /\ i_iter inf1 = i_iter (st_inf st)).
  { ifstep E1 as C1; [|injection E1 as <- <-; split; [exact W0|reflexivity]].
    hzeta E1 as s_norm. hzeta E1 as it_a.
    assert (Wa : wf_it d it_a).
    { unfold it_a. apply wf_it_if; [|exact W0]. apply wf_it_set6; [exact W0| | | | | |]; fin_len Nlb Nub. }
    open_it Wa.
    hzeta E1 as shift. hzeta E1 as delta_s. hzeta E1 as delta_z. hzeta E1 as tmp_prod.
    lstep E1 as q_s Eq1. clear Eq1. lstep E1 as q_z Eq2. clear Eq2.
    hzeta E1 as dsb. hzeta E1 as dzb. hzeta E1 as it_b.
    lstep E1 as mu Emu. clear Emu. injection E1 as <- <-. split; [|reflexivity].
    unfold it_b. apply wf_it_set6; [exact Wa| | | | | |]; fin_len Nlb Nub. }
  destruct W1 as [W1 I1]. clear E1.
  hzeta H as it2. injection H as <-.
  constructor; cbn.
  - unfold it2. apply wf_it_set_centres, W1.
  - exact Wk.
  - rewrite I1. exact Wr.
Qed.

End MainLoopWf.

(* ================================================================== *)
(** * H. solve(): unscale_results, restore_box_dual, and the whole call  *)
(* ================================================================== *)

Lemma swap_loop_len {A} (ridx : list nat) : forall (v : list A) i r, swap_loop v i ridx = Ok r -> length r = length v.
Proof.
  induction ridx as [|j t IH]; intros v i r H; [destruct i; cbn in H; injection H as <-; reflexivity|].
  destruct i as [|i']; cbn [swap_loop] in H; [discriminate|].
  bstep H as v' Ev. apply IH in H. rewrite H. unfold swap in Ev.
  bstep Ev as a Ea. bstep Ev as b Eb. bstep Ev as v1 E1. apply upd_len in Ev. apply upd_len in E1. congruence.
Qed.

Lemma restore_one_len {A} (dflt : A) n v idx r : restore_one dflt n v idx = Ok r -> length r = n.
Proof.
  intro H. unfold restore_one in H. destruct (Nat.leb (length idx) n && Nat.eqb (length v) n)%bool eqn:C; [|discriminate].
  apply andb_prop in C. destruct C as [C1 C2]. apply Nat.leb_le in C1. apply Nat.eqb_eq in C2.
  apply swap_loop_len in H. rewrite H, app_length, firstn_length, repeat_length. lia.
Qed.

Lemma unscale_and_restore_wf junk sv it out :
  wf_pc (sv_pc sv) (sv_data sv) -> wf_it (sv_data sv) it ->
  unscale_and_restore junk sv it = Ok out ->
  wf_out (d_n (sv_data sv)) (d_p (sv_data sv)) (d_m (sv_data sv)) out.
Proof.
  intros [[L1 L2 L3 L4 L5 L6 _ _] (En & Ep & Em)] [I1 I2 I3 I4 I5 I6 I7 I8 I9 I10 I11 I12 I13] H.
  unfold unscale_and_restore in H.
  bstep H as zlb E1. bstep H as zub E2. bstep H as slb E3. bstep H as sub E4. bstep H as nulb E5. bstep H as nuub E6.
  injection H as <-.
  apply restore_one_len in E1, E2, E3, E4, E5, E6.
  constructor; cbn [o_x o_y o_z o_z_lb o_z_ub o_s o_s_lb o_s_ub o_zeta o_lambda o_nu o_nu_lb o_nu_ub]; try assumption;
    unfold unscale_primal, unscale_dual_eq, unscale_dual_ineq, unscale_slack_ineq, dx_, dy_, dz_, dzi_, head, segment, tail_from;
    autorewrite with len; rw_lens; rewrite ?En, ?Ep, ?Em; vlia.
Qed.

Lemma wf_solver_after sv k rf inf out calls :
  wf_solver sv -> wf_kkt (sv_data sv) k ->
  wf_out (d_n (sv_data sv)) (d_p (sv_data sv)) (d_m (sv_data sv)) out ->
  wf_solver (sv <| sv_kkt := k |> <| sv_kkt_init_state := false |> <| sv_refine := rf |> <| sv_info := inf |>
                <| sv_out := out |> <| sv_calls := calls |>).
Proof. intros [A B C D E G] Hk Ho. constructor; cbn; assumption. Qed.

Theorem solve_wf K junk cp_bits fault sv sv' status :
  wf_solver sv -> solve K junk cp_bits fault sv = Ok (sv', status) ->
  wf_solver sv' /\ sv_data sv' = sv_data sv /\ sv_pc sv' = sv_pc sv.
Proof.
  intros Ws H. pose proof Ws as [Wd Wp Hnlb Hnub Wk Wo].
  pose proof (wf_nlb_le _ Wd) as Nlb. pose proof (wf_nub_le _ Wd) as Nub.
  cbv delta [solve] in H. cbv beta in H.
  hzeta H as St0. hzeta H as d. hzeta H as pc. hzeta H as inf0. hzeta H as it0. hzeta H as st0. hzeta H as it1.
  assert (W0 : wf_st d st0).
  { constructor; [apply entry_iterate_wf; assumption|exact Wk|left; reflexivity]. }
  lstep H as st1 E1.
  assert (W1 : wf_st d st1).
  { destruct (sv_kkt_init_state sv); [injection E1 as <-; exact W0|].
    eapply (do_update_scalings_wf d Wd); [|exact E1]. exact W0. }
  clear E1.
  lstep H as [st2 ok] E2.
  pose proof (init_factor_wf K St0 d fault Wd _ _ _ _ W1 E2) as W2. clear E2.
  hzeta H as fin.
  assert (FIN : forall st it r, wf_kkt d (st_kkt st) -> wf_it d it -> fin st it = Ok r ->
                wf_solver (fst r) /\ sv_data (fst r) = sv_data sv /\ sv_pc (fst r) = sv_pc sv).
  { intros st it r Hk Hi Hf. unfold fin in Hf. bstep Hf as out Eo. injection Hf as <-. cbn [fst].
    apply unscale_and_restore_wf in Eo; [|exact Wp|exact Hi].
    split; [apply wf_solver_after; assumption|split; reflexivity]. }
  ifstep H as C.
  - apply (FIN st2 (st_it st2) (sv', status)); [apply W2|apply W2|exact H].
  - lstep H as st3 E3.
    assert (W3 : wf_st d st3).
    { eapply (initial_point_wf K St0 d _ Wd); [|exact E3].
      destruct W2 as [A B Cc]. constructor; cbn; assumption. }
    lstep H as st4 E4.
    pose proof (main_loop_wf K St0 d pc fault _ Wd _ _ _ W3 E4) as W4.
    apply (FIN st4 (st_it st4) (sv', status)); [apply W4|apply W4|exact H].
Qed.

(* ================================================================== *)
(** * I. shapes_invariant                                               *)
(* ================================================================== *)

Theorem setup_shape K ident spc junk St n p m B sv :
  sane_consts K -> setup_blocks_ok n p m B -> setup K ident spc junk St n p m B = Ok sv ->
  shape_of sv = canon_shape n p m /\ fits sv.
Proof.
  intros SK BO H. destruct (setup_wf _ _ _ _ _ _ _ _ _ _ SK BO H) as (Ws & <- & <- & <-). apply wf_solver_shape, Ws.
Qed.

Theorem update_shape K spc sv B reuse sv' :
  sane_consts K -> wf_solver sv -> blocks_ok (d_n (sv_data sv)) (d_p (sv_data sv)) (d_m (sv_data sv)) B ->
  update K spc sv B reuse = Ok sv' -> shape_of sv' = shape_of sv /\ fits sv' /\ wf_solver sv'.
Proof.
  intros SK Ws BO H. destruct (update_wf _ _ _ _ _ _ SK Ws BO H) as (Ws' & E1 & E2 & E3).
  destruct (wf_solver_shape _ Ws) as [S1 _]. destruct (wf_solver_shape _ Ws') as [S2 F2].
  rewrite S1, S2, E1, E2, E3. auto.
Qed.

Theorem solve_shape K junk cp_bits fault sv sv' status :
  wf_solver sv -> solve K junk cp_bits fault sv = Ok (sv', status) ->
  shape_of sv' = shape_of sv /\ fits sv' /\ wf_solver sv'.
Proof.
  intros Ws H. destruct (solve_wf _ _ _ _ _ _ _ Ws H) as (Ws' & E1 & _).
  destruct (wf_solver_shape _ Ws) as [S1 _]. destruct (wf_solver_shape _ Ws') as [S2 F2].
  rewrite S1, S2, E1. auto.
Qed.

(* all histories: after an accepted setup, every accepted sequence of update (any block subset, any reuse value, any
   change of the finite-bound pattern) and solve (any fault oracle, any exit status) leaves the shape where setup put it *)
Theorem shapes_invariant K ident spc junk cp_bits St n p m B sv0 :
  sane_consts K -> setup_blocks_ok n p m B -> setup K ident spc junk St n p m B = Ok sv0 ->
  forall h sv, Forall (sop_ok n p m) h -> run_sops K spc junk cp_bits sv0 h = Ok sv ->
  shape_of sv = shape_of sv0 /\ shape_of sv = canon_shape n p m /\ fits sv.
Proof.
  intros SK BO H0. destruct (setup_wf _ _ _ _ _ _ _ _ _ _ SK BO H0) as (Ws0 & En & Ep & Em).
  destruct (wf_solver_shape _ Ws0) as [S0 _]. rewrite En, Ep, Em in S0.
  assert (G : forall h sv1 sv, wf_solver sv1 -> d_n (sv_data sv1) = n -> d_p (sv_data sv1) = p -> d_m (sv_data sv1) = m ->
              Forall (sop_ok n p m) h -> run_sops K spc junk cp_bits sv1 h = Ok sv ->
              shape_of sv = canon_shape n p m /\ fits sv).
  { induction h as [|o t IH]; intros sv1 sv W1 E1 E2 E3 Fh H; cbn [run_sops] in H.
    - injection H as <-. destruct (wf_solver_shape _ W1) as [S F]. rewrite E1, E2, E3 in S. auto.
    - inversion Fh as [|? ? Ho Ft]; subst. bstep H as sv2 Es. destruct o as [Bu reuse|fl]; cbn [sop_step sop_ok] in *.
      + rewrite <- E1, <- E2, <- E3 in Ho. destruct (update_wf _ _ _ _ _ _ SK W1 Ho Es) as (W2 & D1 & D2 & D3).
        apply (IH sv2 sv W2); try assumption; congruence.
      + bstep Es as [sv3 stt] Ess. injection Es as <-.
        destruct (solve_wf _ _ _ _ _ _ _ W1 Ess) as (W2 & D & _).
        apply (IH sv3 sv W2); try assumption; rewrite D; assumption. }
  intros h sv Fh H. destruct (G h sv0 sv Ws0 En Ep Em Fh H) as [S F]. rewrite S, S0. auto.
Qed.
