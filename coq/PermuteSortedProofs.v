(* PermuteSortedProofs.v -- C14 T3, order of the result of permute_sparse_symmetric_matrix (model CSC.permute_sym), all sizes.
   The kernel is two STABLE counting sorts (by min(pinv i, pinv j), then by max): inside every column of the result the row
   indices are non-decreasing, for every admissible input; they are strictly increasing when pinv is injective and no column of
   the input stores a row index twice.  Consequences: if the input stores its diagonal, the LAST stored entry of every column of
   the result is the diagonal entry (what the KKT update code relies on: Kp[pinv c + 1] - 1), and the boolean check
   perm_addr_okb of KKTSparseFullPerm.v holds for every such pattern and every permutation. *)
From PIQP Require Import Base CSC C14LemmasProofs CSCProofs TransposeProofs PermuteProofs CountSortProofs PermuteGenProofs.
Require Import ZifyBool.
Local Open Scope nat_scope.

Definition cols_nondec {V} (C : csc V) : Prop :=
  forall c q1 q2, c < ncols C -> nth c (colptr C) 0 <= q1 -> q1 < q2 -> q2 < nth (S c) (colptr C) 0 ->
    nth q1 (rowind C) 0 <= nth q2 (rowind C) 0.
Definition cols_strict {V} (C : csc V) : Prop :=
  forall c q1 q2, c < ncols C -> nth c (colptr C) 0 <= q1 -> q1 < q2 -> q2 < nth (S c) (colptr C) 0 ->
    nth q1 (rowind C) 0 < nth q2 (rowind C) 0.
Definition nodup_cols_p {V} (A : csc V) : Prop :=
  forall j p1 p2, j < ncols A ->
    nth j (colptr A) 0 <= p1 < nth (S j) (colptr A) 0 -> nth j (colptr A) 0 <= p2 < nth (S j) (colptr A) 0 ->
    nth p1 (rowind A) 0 = nth p2 (rowind A) 0 -> p1 = p2.

(* ---------- order facts of the counting sort ---------- *)
Lemma filter_length_le {A} (f g : A -> bool) l : (forall x, In x l -> f x = true -> g x = true) ->
  length (filter f l) <= length (filter g l).
Proof.
  induction l; intros H; simpl; auto. destruct (f a) eqn:Ef.
  - rewrite (H a) by (auto; left; auto). simpl. apply le_n_S. apply IHl. intros; apply H; auto; right; auto.
  - destruct (g a); simpl; [apply le_S|]; apply IHl; intros; apply H; auto; right; auto.
Qed.
Lemma col_of_mono P n q1 q2 : q1 <= q2 -> col_of P n q1 <= col_of P n q2.
Proof.
  intros H. unfold col_of. apply filter_length_le. intros j _ Hj. apply Nat.leb_le in Hj. apply Nat.leb_le. lia.
Qed.
Lemma pos_mono_same key N u1 u2 : key u1 = key u2 -> u1 < u2 -> pos key N u1 < pos key N u2.
Proof.
  intros Ek H. unfold pos. rewrite Ek. pose proof (cntk_le key (S u1) u2 (key u2) H) as L.
  rewrite cntk_S in L. rewrite Ek, Nat.eqb_refl in L. lia.
Qed.
Lemma pos_lt_same key N u1 u2 : key u1 = key u2 -> pos key N u1 < pos key N u2 -> u1 < u2.
Proof.
  intros Ek Hp. destruct (Nat.lt_ge_cases u1 u2); auto. exfalso.
  unfold pos in Hp. rewrite Ek in Hp. pose proof (cntk_le key u2 u1 (key u2) H). lia.
Qed.

Section Sorted.
Context {V : Type}.
Variable d : V.
Variable A : csc V.
Variable pinv : list nat.
Hypothesis Hwf : wf_csc A = true.
Hypothesis Hsq : ncols A = nrows A.
Hypothesis Hup : upper_only A = true.
Hypothesis Hpl : length pinv = nrows A.
Hypothesis Hpr : forall i, i < nrows A -> nth i pinv 0 < nrows A.

Notation n := (nrows A).
Notation N := (length (rowind A)).
Notation mnA := (mn A pinv).
Notation mxA := (mx A pinv).

Theorem permute_sym_order :
  exists r, permute_sym d A pinv = Ok r /\ cols_nondec (fst r) /\
    ((forall i j, i < n -> j < n -> nth i pinv 0 = nth j pinv 0 -> i = j) -> nodup_cols_p A -> cols_strict (fst r)) /\
    (* stability: entries with the same target (row, column) keep their order *)
    (forall k1 k2, k1 < k2 -> k2 < N -> mnA k1 = mnA k2 -> mxA k1 = mxA k2 -> nth k1 (snd r) 0 < nth k2 (snd r) 0).
Proof.
  unfold permute_sym.
  pose proof (pass1 A pinv) as P1. spec_props P1. destruct P1 as (w1 & E1 & Lw1 & Hw1). run E1.
  pose proof (pass2 A pinv) as P2. spec_props P2.
  destruct (P2 mnA w1 Lw1 Hw1) as (ctp0 & w2 & E2 & Lctp0 & Lw2 & Hctp0 & Hw2). run E2.
  rewrite upd_lset by lia. cbn [bind].
  pose proof (mn_lt A pinv) as MN. spec_props MN.
  pose proof (mx_lt A pinv) as MX. spec_props MX.
  rewrite (start_n mnA N n MN).
  pose proof (pass3 d A pinv) as P3. spec_props P3.
  destruct (P3 w2 Lw2 Hw2) as ([[[w3 cti] ctx] ct2a] & E3 & (Lw3 & Lcti & Lctx & Lct2a & Hw3 & Hct)). run E3.
  set (ctp := lset ctp0 n N) in *.
  assert (Lctp : length ctp = S n) by (unfold ctp; now rewrite lset_length).
  assert (Hctp : forall r, r <= n -> nth r ctp 0 = start mnA N r).
  { intros r Hr. unfold ctp. rewrite nth_lset by lia. destruct (Nat.eqb_spec r n).
    - subst r. symmetry. apply start_n. exact MN.
    - apply Hctp0. lia. }
  pose proof (pass4 d A pinv) as P4. spec_props P4. specialize (P4 ctp cti ctx ct2a). spec_props P4.
  destruct P4 as (cp0 & E4 & Lcp0 & Hcp0). run E4.
  pose proof (pass5 A pinv) as P5. spec_props P5.
  destruct (P5 (key2 cti) cp0 w3 Lcp0 Lw3 Hcp0) as (cp1 & w4 & E5 & Lcp1 & Lw4 & Hcp1 & Hw4). run E5.
  rewrite upd_lset by lia. cbn [bind].
  pose proof (key2_lt d A pinv) as K2. spec_props K2. specialize (K2 cti ctx ct2a). spec_props K2.
  rewrite (start_n (key2 cti) N n K2).
  pose proof (pass6 d A pinv) as P6. spec_props P6. specialize (P6 ctp cti ctx ct2a). spec_props P6.
  destruct (P6 w4 Lw4 Hw4) as ([[[w5 ci] cx] a2c] & E6 & (Lw5 & Lci & Lcx & La & Hw5 & Hfin)). run E6.
  eexists; split; [reflexivity|]. cbn [fst snd].
  set (cp := lset cp1 n N).
  assert (Hcp : forall r, r <= n -> nth r cp 0 = start (key2 cti) N r).
  { intros r Hr. unfold cp. rewrite nth_lset by lia. destruct (Nat.eqb_spec r n).
    - subst r. symmetry. apply start_n. exact K2.
    - apply Hcp1. lia. }
  (* two positions of the same column of C come from two CT positions with the same key, in the same order *)
  assert (Hpair : forall c q1 q2, c < n -> nth c cp 0 <= q1 -> q1 < q2 -> q2 < nth (S c) cp 0 ->
            exists u1 u2, u1 < u2 /\ u2 < N /\ key2 cti u1 = c /\ key2 cti u2 = c /\
              nth q1 ci 0 = col_of ctp n u1 /\ nth q2 ci 0 = col_of ctp n u2).
  { intros c q1 q2 Hc H1 H12 H2.
    assert (HN : nth (S c) cp 0 <= N).
    { rewrite Hcp by lia. pose proof (start_n (key2 cti) N n K2) as Esn.
      assert (start (key2 cti) N (S c) <= start (key2 cti) N n) by (apply start_le; lia). lia. }
    destruct (pos_surj (key2 cti) N n K2 q1 ltac:(lia)) as (u1 & Hu1 & E1').
    destruct (pos_surj (key2 cti) N n K2 q2 ltac:(lia)) as (u2 & Hu2 & E2').
    assert (K1 : key2 cti u1 = c). { apply (bucket_of_pos (key2 cti) N); auto. rewrite <- !Hcp by lia. lia. }
    assert (K2' : key2 cti u2 = c). { apply (bucket_of_pos (key2 cti) N); auto. rewrite <- !Hcp by lia. lia. }
    exists u1, u2. split. { apply (pos_lt_same (key2 cti) N); [congruence|lia]. }
    split; auto. split; auto. split; auto.
    destruct (Hfin u1 Hu1) as (F1 & _). destruct (Hfin u2 Hu2) as (F2 & _). rewrite E1' in F1. rewrite E2' in F2. auto. }
  split; [|split].
  - intros c q1 q2 Hc H1 H12 H2. cbn [ncols colptr rowind] in *.
    destruct (Hpair c q1 q2 Hc H1 H12 H2) as (u1 & u2 & Hu & _ & _ & _ & -> & ->). apply col_of_mono. lia.
  - intros Hinj Hnd c q1 q2 Hc H1 H12 H2. cbn [ncols colptr rowind] in *.
    destruct (Hpair c q1 q2 Hc H1 H12 H2) as (u1 & u2 & Hu & Hu2 & K1 & K2' & R1 & R2).
    assert (Hle : nth q1 ci 0 <= nth q2 ci 0) by (rewrite R1, R2; apply col_of_mono; lia).
    destruct (Nat.eq_dec (nth q1 ci 0) (nth q2 ci 0)) as [Eq|]; [exfalso|lia].
    destruct (pos_surj mnA N n MN u1 ltac:(lia)) as (k1 & Hk1 & <-).
    destruct (pos_surj mnA N n MN u2 Hu2) as (k2 & Hk2 & <-).
    pose proof (ctcol_pos1 A pinv) as CP. spec_props CP. specialize (CP ctp cti ctx ct2a). spec_props CP.
    rewrite R1, R2, !CP in Eq by auto.
    destruct (Hct k1 Hk1) as (C1 & _). destruct (Hct k2 Hk2) as (C2 & _).
    unfold key2 in K1, K2'. rewrite C1 in K1. rewrite C2 in K2'.
    (* same (min, max): the same entry of A *)
    assert (k1 = k2); [|subst; lia].
    first [pose proof (col_ex A pinv) as CE | pose proof (col_ex A) as CE]. spec_props CE.
    destruct (CE k1 Hk1) as (j1 & Hj1 & Hr1). destruct (CE k2 Hk2) as (j2 & Hj2 & Hr2).
    first [pose proof (cj_in A pinv) as CJ | pose proof (cj_in A) as CJ]. spec_props CJ.
    first [pose proof (Ai_le A pinv) as AL | pose proof (Ai_le A) as AL]. spec_props AL.
    pose proof (AL j1 k1 Hj1 Hr1) as Hl1. pose proof (AL j2 k2 Hj2 Hr2) as Hl2.
    unfold mn, mx in Eq, K1, K2'. rewrite (CJ j1 k1 Hj1 Hr1) in *. rewrite (CJ j2 k2 Hj2 Hr2) in *. unfold pv in *.
    set (i1 := nth k1 (rowind A) 0) in *. set (i2 := nth k2 (rowind A) 0) in *.
    assert (Hcase : (nth i1 pinv 0 = nth i2 pinv 0 /\ nth j1 pinv 0 = nth j2 pinv 0) \/
                    (nth i1 pinv 0 = nth j2 pinv 0 /\ nth j1 pinv 0 = nth i2 pinv 0)) by lia.
    assert (Hij : i1 = i2 /\ j1 = j2).
    { destruct Hcase as [[Ea Eb]|[Ea Eb]].
      - apply Hinj in Ea; [|lia|lia]. apply Hinj in Eb; [|lia|lia]. auto.
      - apply Hinj in Ea; [|lia|lia]. apply Hinj in Eb; [|lia|lia]. lia. }
    destruct Hij as [Ei Ej]. subst j2. apply (Hnd j1); auto. lia.
  - intros k1 k2 H12 H2 Emn Emx.
    assert (Ha : forall k, k < N -> nth k a2c 0 = pos (key2 cti) N (pos mnA N k) /\ key2 cti (pos mnA N k) = mxA k).
    { intros k Hk. pose proof (pos_lt mnA N n MN k Hk) as Hq. destruct (Hct k Hk) as (C1 & _ & C3).
      destruct (Hfin _ Hq) as (_ & _ & F3). rewrite C3 in F3. split; auto. }
    destruct (Ha k1 ltac:(lia)) as [-> K1]. destruct (Ha k2 H2) as [-> K2'].
    apply pos_mono_same. congruence. apply pos_mono_same; auto.
Qed.
End Sorted.
