(* Properties_C13_eqineq.v -- C13 / T1b, T2 for the sparse KKT_EQ_ELIMINATED and KKT_INEQ_ELIMINATED back ends (models KKTSparseEq.v /
   KKTSparseIneq.v, tied to sparse::KKT<xrat, int, KKT_EQ_ELIMINATED | KKT_INEQ_ELIMINATED> by tools/kkteqineq_stage.py: K, raw PKPt,
   the three index maps, PKi, cached transpose, cached product, tmp_scatter).  Identity ordering, all sizes (n, p, m incl. 0), all
   patterns with strictly increasing columns (sorted_colsb: what Eigen's compressed storage provides).
   Vocabulary (KKTSparseEqProofs.v / KKTSparseIneqProofs.v):
     elim_data_ok d RT   wf_sdata d, P_utri upper triangular with strictly increasing columns, the border block RT (GT for EQ, AT for
                         INEQ) with strictly increasing columns;
     created_ok N P RT em entry   the matrix returned by create_kkt_matrix is N x N, wf_csc, upper triangular, has its diagonal stored
                         last in every column, the three maps have the sizes of their sources, are in range and injective, and
                         csc_get K i j = entry i j for all i <= j < N;
     eqS / ineqS d X k   static invariant of the state (everything but scalings and values; X = the cached transpose A resp. G):
                         valid cache, cached product on the product pattern (EQ: holding the exact sums A^T A), pattern of PKPt = the
                         bordered pattern, P_utri_to_Ki / AT_A_to_Ki | GT_G_to_Ki correct (map_ok), GT_to_Ki | AT_to_Ki = offsets
                         of the border columns, tmp_scatter zeroed, identity ordering;
     eqF / ineqF d X c k static invariant + scalings c + every stored value = the entry of the reduced operator;
     Keq / Kineq Y i j   the reduced operators over the L2 system of KKTProofs.v (a_SA, a_SG, a_bdiag, a_dinv), upper triangle:
                         Keq   = [[P + (rho + box) I + (1/delta) A^T A, G^T], [., -(S Z^-1 + delta I)]]
                         Kineq = [[P + (rho + box) I + G^T (S Z^-1 + delta I)^-1 G, A^T], [., -delta I]].
     covers_eq / covers_ineq mask d px ax gx lbs ubs   the mask covers the changed blocks: new A values => KKT_UPDATE_A (EQ), new G values
                         => KKT_UPDATE_G (INEQ), anything changed => mask <> 0; with_all d px ax gx lbs ubs = the data d with new values on
                         the same patterns;
     canon_cache XT X    X has the inner / outer indices of Eigen's transposition of XT (true after init, kept by every operation).
   Proved for both modes: create_kkt_matrix (well-formed, upper, diagonal last, maps in range and injective, entries), init leaves
   the canonical form for the unit scalings (box terms included), update_scalings from ANY state with the static invariant reaches
   the canonical form, the canonical form denotes Keq / Kineq, update_data(covering mask) on same-pattern new data keeps the static
   invariant for the NEW data and (mask <> 0) reaches its canonical form, and update_data(covering mask); update_scalings leaves
   exactly the stored matrix (outer index, inner index, values) of a fresh init on the new data followed by the same update_scalings.
   NOT proved: permuted orderings (init .. (Some perm)): compared by the stage only. *)
From PIQP Require Import Base CSC C14LemmasProofs LinAlg KKTProofs KKTSparseFull KKTSparseFullProofs KKTSparseAll KKTSparseAllProofs KKTSparseAllDataProofs
  KKTSparseEq KKTSparseIneq KKTSparseEqProofs KKTSparseIneqProofs.
Local Open Scope nat_scope.

(* ===== generic pieces: the merge walk with two sources and the assembly loops of create_kkt_matrix ===== *)
Theorem C13_eqineq_compute_maps2_ok : forall (n : nat) (kcols : nat -> list nat),
  (forall j, j < n -> inc (kcols j)) ->
  forall K : csc F, S n <= length (colptr K) -> (forall j, j <= n -> nth j (colptr K) 0 = coff kcols j) ->
  coff kcols n <= length (rowind K) ->
  (forall j t, j < n -> t < length (kcols j) -> nth (coff kcols j + t) (rowind K) 0 = nth t (kcols j) 0) ->
  forall P A : csc F, src_ok n kcols P -> src_ok n kcols A ->
  forall p0 a0 : list nat, length p0 = nnz P -> length a0 = nnz A ->
  exists p2k a2k, compute_maps2 n K P A (p0, a0) = Ok (p2k, a2k) /\ map_ok n kcols P p2k /\ map_ok n kcols A a2k.
Proof. exact compute_maps2_ok. Qed.
Print Assumptions C13_eqineq_compute_maps2_ok.

(* ===== KKT_EQ_ELIMINATED ===== *)
Theorem C13_eq_create : forall d : sdata, elim_data_ok d (sd_GT d) -> forall (rho : F) (delta : Qc), delta <> 0%Qc ->
  exists em, eq_create d rho delta = Ok em /\
    created_ok (sd_n d + sd_m d) (sd_P d) (sd_GT d) em (fun i j =>
      if j <? sd_n d then (csc_get (sd_P d) i j + (if i =? j then rho else 0) + 1 / delta * SAd d i j)%Qc
      else if i <? sd_n d then csc_get (sd_GT d) i (j - sd_n d) else if i =? j then (- (1) - delta)%Qc else 0%Qc) /\
    em_tmp em = repeat 0%Qc (sd_n d).
Proof. exact eq_create_thm. Qed.
Print Assumptions C13_eq_create.

Theorem C13_eq_init_static : forall d : sdata, elim_data_ok d (sd_GT d) -> forall (rho : F) (delta : Qc), delta <> 0%Qc ->
  scal_ok d (unit_scal d rho delta) ->
  exists k X, eq_init d rho delta None = Ok k /\ eqS d X k /\ ek_sc k = unit_scal d rho delta.
Proof. exact eq_init_static. Qed.
Print Assumptions C13_eq_init_static.

Theorem C13_eq_update_scalings_form : forall d : sdata, elim_data_ok d (sd_GT d) ->
  forall (X : csc F) (k : ekkt) (rho delta : F) (s s_lb s_ub z z_lb z_ub zi zlbi zubi : Vec),
  eqS d X k ->
  sd_nlb d <= length s_lb -> sd_nlb d <= length z_lb -> sd_nub d <= length s_ub -> sd_nub d <= length z_ub ->
  vinv z = Ok zi -> vinv (head (sd_nlb d) z_lb) = Ok zlbi -> vinv (head (sd_nub d) z_ub) = Ok zubi ->
  let c' := new_scal d (ek_sc k) rho delta s s_lb s_ub zi zlbi zubi in
  scal_ok d c' -> sc_delta c' <> 0%Qc ->
  exists k', eq_update_scalings d k rho delta s s_lb s_ub z z_lb z_ub = Ok k' /\ eqF d X c' k'.
Proof. exact eq_update_scalings_thm. Qed.
Print Assumptions C13_eq_update_scalings_form.

Theorem C13_eq_form_denotes : forall d : sdata, elim_data_ok d (sd_GT d) -> forall (X : csc F) (c : scal) (k : ekkt), eqF d X c k ->
  let K := mkcsc (sd_n d + sd_m d) (sd_n d + sd_m d) (ek_kp k) (ek_ki k) (ek_kx k) in
  wf_csc K = true /\ upper_only K = true /\ diag_is_last K /\
  forall i j, i <= j -> j < sd_n d + sd_m d -> csc_get K i j = Keq (sys_sparse d c) i j.
Proof. exact eq_form_denotes. Qed.
Print Assumptions C13_eq_form_denotes.

Theorem C13_eq_init_form : forall d : sdata, elim_data_ok d (sd_GT d) -> forall (rho : F) (delta : Qc), delta <> 0%Qc ->
  scal_ok d (unit_scal d rho delta) ->
  exists k X, eq_init d rho delta None = Ok k /\ eqF d X (unit_scal d rho delta) k /\ csc_transpose (sd_AT d) = Ok X.
Proof. exact eq_init_form. Qed.
Print Assumptions C13_eq_init_form.

Theorem C13_eq_update_data_form : forall (d : sdata) (Hok : elim_data_ok d (sd_GT d)) (X : csc F) (k : ekkt) (mask : nat) (px ax gx lbs ubs : Vec),
  eqS d X k -> length px = nnz (sd_P d) -> length ax = nnz (sd_AT d) -> length gx = nnz (sd_GT d) ->
  covers_eq mask d px ax gx lbs ubs ->
  let d' := with_all d px ax gx lbs ubs in
  (mask <> 0 -> scal_ok d' (ek_sc k) /\ sc_delta (ek_sc k) <> 0%Qc) ->
  exists k' X', eq_update_data d' k mask = Ok k' /\ eqS d' X' k' /\ ek_sc k' = ek_sc k /\
    rowind X' = rowind X /\ colptr X' = colptr X /\
    (mask <> 0 -> eqF d' X' (ek_sc k) k') /\ (mask = 0 -> k' = k).
Proof. exact eq_update_data_form. Qed.
Print Assumptions C13_eq_update_data_form.

Theorem C13_eq_update_data_eq_fresh : forall (d : sdata) (X : csc F) (k : ekkt) (mask : nat) (px ax gx lbs ubs : Vec)
    (rho0 delta0 rho delta : F) (s s_lb s_ub z z_lb z_ub zi zlbi zubi : Vec),
  elim_data_ok d (sd_GT d) -> eqS d X k -> canon_cache (sd_AT d) X ->
  length px = nnz (sd_P d) -> length ax = nnz (sd_AT d) -> length gx = nnz (sd_GT d) ->
  covers_eq mask d px ax gx lbs ubs ->
  let d' := with_all d px ax gx lbs ubs in
  (mask <> 0 -> scal_ok d' (ek_sc k) /\ sc_delta (ek_sc k) <> 0%Qc) ->
  delta0 <> 0%Qc -> scal_ok d' (unit_scal d' rho0 delta0) ->
  sd_nlb d <= length s_lb -> sd_nlb d <= length z_lb -> sd_nub d <= length s_ub -> sd_nub d <= length z_ub ->
  vinv z = Ok zi -> vinv (head (sd_nlb d) z_lb) = Ok zlbi -> vinv (head (sd_nub d) z_ub) = Ok zubi ->
  (forall c0, scal_ok d' (new_scal d' c0 rho delta s s_lb s_ub zi zlbi zubi)) -> delta <> 0%Qc ->
  exists k1 k2 k0 k3 X',
    eq_update_data d' k mask = Ok k1 /\ eq_update_scalings d' k1 rho delta s s_lb s_ub z z_lb z_ub = Ok k2 /\
    eq_init d' rho0 delta0 None = Ok k0 /\ eq_update_scalings d' k0 rho delta s s_lb s_ub z z_lb z_ub = Ok k3 /\
    eqF d' X' (new_scal d' (ek_sc k) rho delta s s_lb s_ub zi zlbi zubi) k2 /\ canon_cache (sd_AT d') X' /\
    ek_kp k2 = ek_kp k3 /\ ek_ki k2 = ek_ki k3 /\ ek_kx k2 = ek_kx k3.
Proof. exact eq_update_data_scalings_eq_fresh. Qed.
Print Assumptions C13_eq_update_data_eq_fresh.

(* ===== KKT_INEQ_ELIMINATED ===== *)
Theorem C13_ineq_create : forall d : sdata, elim_data_ok d (sd_AT d) -> forall (rho : F) (delta : Qc), (1 + delta)%Qc <> 0%Qc ->
  exists em, ineq_create d rho delta = Ok em /\
    created_ok (sd_n d + sd_p d) (sd_P d) (sd_AT d) em (fun i j =>
      if j <? sd_n d then (csc_get (sd_P d) i j + (if i =? j then rho else 0)
                           + sum_n (sd_m d) (fun l => (csc_get (sd_GT d) i l * csc_get (sd_GT d) j l)%Qc) * (1 / (1 + delta)))%Qc
      else if i <? sd_n d then csc_get (sd_AT d) i (j - sd_n d) else if i =? j then (- delta)%Qc else 0%Qc) /\
    em_tmp em = repeat 0%Qc (sd_n d).
Proof. exact ineq_create_thm. Qed.
Print Assumptions C13_ineq_create.

Theorem C13_ineq_init_static : forall d : sdata, elim_data_ok d (sd_AT d) -> forall (rho : F) (delta : Qc), (1 + delta)%Qc <> 0%Qc ->
  scal_ok d (unit_scal d rho delta) ->
  exists k X, ineq_init d rho delta None = Ok k /\ ineqS d X k /\ ek_sc k = unit_scal d rho delta.
Proof. exact ineq_init_static. Qed.
Print Assumptions C13_ineq_init_static.

Theorem C13_ineq_update_scalings_form : forall d : sdata, elim_data_ok d (sd_AT d) ->
  forall (X : csc F) (k : ekkt) (rho delta : F) (s s_lb s_ub z z_lb z_ub zi zlbi zubi : Vec),
  ineqS d X k ->
  sd_nlb d <= length s_lb -> sd_nlb d <= length z_lb -> sd_nub d <= length s_ub -> sd_nub d <= length z_ub ->
  vinv z = Ok zi -> vinv (head (sd_nlb d) z_lb) = Ok zlbi -> vinv (head (sd_nub d) z_ub) = Ok zubi ->
  let c' := new_scal d (ek_sc k) rho delta s s_lb s_ub zi zlbi zubi in
  scal_ok d c' -> ineq_wnz d c' ->
  exists k', ineq_update_scalings d k rho delta s s_lb s_ub z z_lb z_ub = Ok k' /\ ineqF d X c' k'.
Proof. exact ineq_update_scalings_thm. Qed.
Print Assumptions C13_ineq_update_scalings_form.

Theorem C13_ineq_form_denotes : forall d : sdata, elim_data_ok d (sd_AT d) -> forall (X : csc F) (c : scal) (k : ekkt), ineqF d X c k ->
  let K := mkcsc (sd_n d + sd_p d) (sd_n d + sd_p d) (ek_kp k) (ek_ki k) (ek_kx k) in
  wf_csc K = true /\ upper_only K = true /\ diag_is_last K /\
  forall i j, i <= j -> j < sd_n d + sd_p d -> csc_get K i j = Kineq (sys_sparse d c) i j.
Proof. exact ineq_form_denotes. Qed.
Print Assumptions C13_ineq_form_denotes.

Theorem C13_ineq_init_form : forall d : sdata, elim_data_ok d (sd_AT d) -> forall (rho : F) (delta : Qc), (1 + delta)%Qc <> 0%Qc ->
  scal_ok d (unit_scal d rho delta) ->
  exists k X, ineq_init d rho delta None = Ok k /\ ineqF d X (unit_scal d rho delta) k /\ csc_transpose (sd_GT d) = Ok X.
Proof. exact ineq_init_form. Qed.
Print Assumptions C13_ineq_init_form.

Theorem C13_ineq_update_data_form : forall (d : sdata) (X : csc F) (k : ekkt) (mask : nat) (px ax gx lbs ubs : Vec),
  elim_data_ok d (sd_AT d) -> ineqS d X k ->
  length px = nnz (sd_P d) -> length ax = nnz (sd_AT d) -> length gx = nnz (sd_GT d) ->
  covers_ineq mask d px ax gx lbs ubs ->
  let d' := with_all d px ax gx lbs ubs in
  (mask <> 0 -> scal_ok d' (ek_sc k) /\ ineq_wnz d' (ek_sc k)) ->
  exists k' X', ineq_update_data d' k mask = Ok k' /\ ineqS d' X' k' /\ ek_sc k' = ek_sc k /\
    rowind X' = rowind X /\ colptr X' = colptr X /\
    (mask <> 0 -> ineqF d' X' (ek_sc k) k') /\ (mask = 0 -> k' = k).
Proof. exact ineq_update_data_form. Qed.
Print Assumptions C13_ineq_update_data_form.

Theorem C13_ineq_update_data_eq_fresh : forall (d : sdata) (X : csc F) (k : ekkt) (mask : nat) (px ax gx lbs ubs : Vec)
    (rho0 delta0 rho delta : F) (s s_lb s_ub z z_lb z_ub zi zlbi zubi : Vec),
  elim_data_ok d (sd_AT d) -> ineqS d X k -> canon_cache (sd_GT d) X ->
  length px = nnz (sd_P d) -> length ax = nnz (sd_AT d) -> length gx = nnz (sd_GT d) ->
  covers_ineq mask d px ax gx lbs ubs ->
  let d' := with_all d px ax gx lbs ubs in
  (mask <> 0 -> scal_ok d' (ek_sc k) /\ ineq_wnz d' (ek_sc k)) ->
  (1 + delta0)%Qc <> 0%Qc -> scal_ok d' (unit_scal d' rho0 delta0) ->
  sd_nlb d <= length s_lb -> sd_nlb d <= length z_lb -> sd_nub d <= length s_ub -> sd_nub d <= length z_ub ->
  vinv z = Ok zi -> vinv (head (sd_nlb d) z_lb) = Ok zlbi -> vinv (head (sd_nub d) z_ub) = Ok zubi ->
  (forall c0, scal_ok d' (new_scal d' c0 rho delta s s_lb s_ub zi zlbi zubi)) ->
  (forall l, l < sd_m d -> (nth l s 0 * nth l zi 0 + delta)%Qc <> 0%Qc) ->
  exists k1 k2 k0 k3 X',
    ineq_update_data d' k mask = Ok k1 /\ ineq_update_scalings d' k1 rho delta s s_lb s_ub z z_lb z_ub = Ok k2 /\
    ineq_init d' rho0 delta0 None = Ok k0 /\ ineq_update_scalings d' k0 rho delta s s_lb s_ub z z_lb z_ub = Ok k3 /\
    ineqF d' X' (new_scal d' (ek_sc k) rho delta s s_lb s_ub zi zlbi zubi) k2 /\ canon_cache (sd_GT d') X' /\
    ek_kp k2 = ek_kp k3 /\ ek_ki k2 = ek_ki k3 /\ ek_kx k2 = ek_kx k3.
Proof. exact ineq_update_data_scalings_eq_fresh. Qed.
Print Assumptions C13_ineq_update_data_eq_fresh.

(* ===== non-vacuity: P 3x3 without stored (1,1), p = 1 (A = [1 0 2]), m = 1 (G = [0 5 0]), one lower and one upper bound ===== *)
Local Open Scope Qc_scope.
Definition exq_q (a : Z) : F := qofZ a.
Definition exq_d : sdata :=
  mksdata 3 1 1
    (mkcsc 3 3 [0; 1; 2; 4]%nat [0; 0; 1; 2]%nat [exq_q 4; exq_q 1; exq_q (-1); exq_q 3])
    (mkcsc 3 1 [0; 2]%nat [0; 2]%nat [exq_q 1; exq_q 2])
    (mkcsc 3 1 [0; 1]%nat [1]%nat [exq_q 5])
    1 1 [1; 0; 0]%nat [2; 0; 0]%nat [exq_q 2; exq_q 1; exq_q 1] [qmk 1 2; exq_q 1; exq_q 1].
Example exq_data_ok : elim_data_ok exq_d (sd_GT exq_d) /\ elim_data_ok exq_d (sd_AT exq_d).
Proof. unfold elim_data_ok, wf_sdata. repeat split; vm_compute; reflexivity. Qed.
(* EQ: the 4 x 4 matrix [[P + rho + A'A/delta, G'], [., -1 - delta]]: 8 stored entries, maps as the walk produces them *)
Example exq_eq_create : exists em, eq_create exq_d (exq_q 10) (exq_q 7) = Ok em /\
  colptr (em_K em) = [0; 1; 3; 6; 8]%nat /\ rowind (em_K em) = [0; 0; 1; 0; 1; 2; 1; 3]%nat /\
  em_P2K em = [0; 1; 4; 5]%nat /\ em_X2K em = [0; 3; 5]%nat /\ em_R2K em = [6]%nat /\ em_tmp em = [exq_q 0; exq_q 0; exq_q 0].
Proof. eexists. split. vm_compute. reflexivity. repeat split. Qed.
Example exq_eq_scalings : exists k k', eq_init exq_d (exq_q 10) (exq_q 7) None = Ok k /\
  eq_update_scalings exq_d k (exq_q 3) (qmk 1 2) [exq_q 2] [exq_q 3] [exq_q 5] [exq_q 4] [qmk 1 7] [exq_q 3] = Ok k' /\
  this (nth 7 (ek_kx k') 0) = (-1 # 1)%Q /\ map this (ek_tmp k') = [0 # 1; 0 # 1; 0 # 1]%Q.
Proof. eexists. eexists. split. vm_compute. reflexivity. split. vm_compute. reflexivity. split; vm_compute; reflexivity. Qed.
(* INEQ: the 4 x 4 matrix [[P + rho + G'G/(1 + delta), A'], [., -delta]] *)
Example exq_ineq_create : exists em, ineq_create exq_d (exq_q 10) (exq_q 7) = Ok em /\
  colptr (em_K em) = [0; 1; 3; 5; 8]%nat /\ rowind (em_K em) = [0; 0; 1; 1; 2; 0; 2; 3]%nat /\
  em_P2K em = [0; 1; 3; 4]%nat /\ em_X2K em = [2]%nat /\ em_R2K em = [5; 6]%nat /\ map this (vals (em_XX em)) = [25 # 8]%Q.
Proof. eexists. split. vm_compute. reflexivity. repeat split. Qed.
Example exq_ineq_scalings : exists k k', ineq_init exq_d (exq_q 10) (exq_q 7) None = Ok k /\
  ineq_update_scalings exq_d k (exq_q 3) (qmk 1 2) [exq_q 2] [exq_q 3] [exq_q 5] [exq_q 4] [qmk 1 7] [exq_q 3] = Ok k' /\
  this (nth 7 (ek_kx k') 0) = (-1 # 2)%Q /\ map this (vals (ek_XX k')) = [25 # 1]%Q /\ map this (ek_tmp k') = [0 # 1; 0 # 1; 0 # 1]%Q.
Proof. eexists. eexists. split. vm_compute. reflexivity. split. vm_compute. reflexivity. repeat split; vm_compute; reflexivity. Qed.
(* update_data with all blocks changed and the full mask, then update_scalings == fresh init on the new data, then update_scalings *)
Definition exq_d' : sdata :=
  with_all exq_d [exq_q 6; exq_q 2; exq_q 5; exq_q 9] [exq_q 3; exq_q (-1)] [exq_q 7] [exq_q 3; exq_q 1; exq_q 1] [exq_q 2; exq_q 1; exq_q 1].
Example exq_eq_data : exists k k1 k2 k0 k3, eq_init exq_d (exq_q 10) (exq_q 7) None = Ok k /\
  eq_update_data exq_d' k 7 = Ok k1 /\
  eq_update_scalings exq_d' k1 (exq_q 3) (qmk 1 2) [exq_q 2] [exq_q 3] [exq_q 5] [exq_q 4] [qmk 1 7] [exq_q 3] = Ok k2 /\
  eq_init exq_d' (exq_q 1) (exq_q 2) None = Ok k0 /\
  eq_update_scalings exq_d' k0 (exq_q 3) (qmk 1 2) [exq_q 2] [exq_q 3] [exq_q 5] [exq_q 4] [qmk 1 7] [exq_q 3] = Ok k3 /\
  ek_kp k2 = ek_kp k3 /\ ek_ki k2 = ek_ki k3 /\ map this (ek_kx k2) = map this (ek_kx k3).
Proof. do 5 eexists. split. vm_compute. reflexivity. split. vm_compute. reflexivity. split. vm_compute. reflexivity.
  split. vm_compute. reflexivity. split. vm_compute. reflexivity. repeat split. Qed.
Example exq_ineq_data : exists k k1 k2 k0 k3, ineq_init exq_d (exq_q 10) (exq_q 7) None = Ok k /\
  ineq_update_data exq_d' k 7 = Ok k1 /\
  ineq_update_scalings exq_d' k1 (exq_q 3) (qmk 1 2) [exq_q 2] [exq_q 3] [exq_q 5] [exq_q 4] [qmk 1 7] [exq_q 3] = Ok k2 /\
  ineq_init exq_d' (exq_q 1) (exq_q 2) None = Ok k0 /\
  ineq_update_scalings exq_d' k0 (exq_q 3) (qmk 1 2) [exq_q 2] [exq_q 3] [exq_q 5] [exq_q 4] [qmk 1 7] [exq_q 3] = Ok k3 /\
  ek_kp k2 = ek_kp k3 /\ ek_ki k2 = ek_ki k3 /\ map this (ek_kx k2) = map this (ek_kx k3).
Proof. do 5 eexists. split. vm_compute. reflexivity. split. vm_compute. reflexivity. split. vm_compute. reflexivity.
  split. vm_compute. reflexivity. split. vm_compute. reflexivity. repeat split. Qed.
