(* KKTSparseRefactorProofs.v -- a later regularize_and_factorize(false): the numeric phase of sparse/ldlt.hpp started from the
   state an EARLIER successful factorisation (or the symbolic phase) left in the LDL object -- stale flag / L_nnz / pattern /
   L_ind / L_vals / D contents, cleared y -- is as good as a fresh one: no zero pivot reported ==> solve_inplace solves
   K x = b, and the state can be reused again.  (The proof of LDLValuesFinalProofs.ldl_sparse_correct_general, replayed from the
   general invariant VInv 0 of LDLValuesGenProofs.v, which does not look at the stale contents.) *)
From PIQP Require Import Base CSC LDLSparse C14LemmasProofs PatternsProofs CSCProofs LDLSolveProofs LDLSparseProofs
  LDLSparseValuesProofs LDLSparseFinalProofs PermuteGenProofs LDLSymbolicGenProofs LDLFillGenProofs LDLNumericGenProofs
  LDLGenFinalProofs LDLValuesGenProofs LDLValuesFinalProofs LinAlg KKTSparseSolve KKTSparseSolveProofs.
Require Import ZifyBool.
From Coq Require Import Lia.
Local Open Scope nat_scope.

(* the LDL object can be handed to the numeric phase for the pattern of A: index part of the symbolic phase, work arrays of the
   right sizes, y cleared.  Depends on A only through its size and pattern. *)
Definition reusable (A : csc F) (st : ldl_i * ldl_v) : Prop :=
  let n := nrows A in
  exists lis, symbolic_i n (colptr A) (rowind A) = Ok lis /\
    i_etree (fst st) = i_etree lis /\ i_Lcols (fst st) = i_Lcols lis /\
    length (i_Lnnz (fst st)) = n /\ length (i_flag (fst st)) = n /\ length (i_pattern (fst st)) = n /\
    length (i_Lind (fst st)) = length (i_Lind lis) /\
    length (v_y (snd st)) = n /\ length (v_D (snd st)) = n /\ length (v_Lvals (snd st)) = length (i_Lind lis) /\
    (forall r, r < n -> nth r (v_y (snd st)) 0%Qc = 0%Qc).

Lemma reusable_pattern (A B : csc F) st : nrows B = nrows A -> colptr B = colptr A -> rowind B = rowind A -> reusable A st -> reusable B st.
Proof. intros E1 E2 E3. unfold reusable. now rewrite E1, E2, E3. Qed.

(* ---------- the numeric phase never changes etree / L_cols ---------- *)
Lemma num_elim_fields Lcols k t st st' : num_elim Lcols k t st = Ok st' ->
  i_etree (fst st') = i_etree (fst st) /\ i_Lcols (fst st') = i_Lcols (fst st).
Proof.
  destruct st as [li lv]. unfold num_elim. intros H. repeat binv H. inversion H; subst. cbn [fst i_etree i_Lcols]. auto.
Qed.

Lemma num_step_fields n Ap Ai Ax etree Lcols k st li' lv' z : num_step n Ap Ai Ax etree Lcols k st = Ok (li', lv', z) ->
  i_etree li' = i_etree (fst st) /\ i_Lcols li' = i_Lcols (fst st).
Proof.
  destruct st as [li lv]. unfold num_step. intros H. repeat binv H.
  match type of H with context [let '(_, _) := ?x in _] => destruct x as [[[top fl] pat] y] end.
  repeat binv H.
  match type of H with context [let '(_, _) := ?x in _] => destruct x as [li2 lv2] end.
  binv H. inversion H; subst. clear H.
  match goal with E : for_range _ _ (num_elim _ _) _ = Ok _ |- _ => rename E into EF end.
  unfold for_range in EF.
  apply (foldM_preserve (fun s => i_etree (fst s) = i_etree li /\ i_Lcols (fst s) = i_Lcols li)) in EF; auto.
  intros aa ss ss' _ Ha [P1 P2]. destruct (num_elim_fields _ _ _ _ _ Ha) as [Q1 Q2]. split; congruence.
Qed.

Lemma num_loop_fields n Ap Ai Ax etree Lcols ks : forall st r st', num_loop n Ap Ai Ax etree Lcols ks st = Ok (r, st') ->
  i_etree (fst st') = i_etree (fst st) /\ i_Lcols (fst st') = i_Lcols (fst st).
Proof.
  induction ks; intros st r st' H; cbn [num_loop] in H.
  - inversion H; subst. auto.
  - binv H. match type of H with context [let '(_, _) := ?x in _] => destruct x as [[li1 lv1] z] end.
    match goal with E : num_step _ _ _ _ _ _ _ _ = Ok _ |- _ => destruct (num_step_fields _ _ _ _ _ _ _ _ _ _ _ E) as [Q1 Q2] end.
    destruct z.
    + inversion H; subst. auto.
    + destruct (IHks _ _ _ H) as [R1 R2]. cbn [fst] in *. split; congruence.
Qed.

(* the symbolic phase leaves a reusable object *)
Lemma symbolic_reusable (A : csc F) st0 : wf_csc A = true -> ncols A = nrows A -> upper_only A = true ->
  kkt_symbolic A = Ok st0 -> reusable A st0.
Proof.
  intros Hwf Hsq Hup E. unfold kkt_symbolic, symbolic in E. binv E. inversion E; subst st0. clear E.
  match goal with E : symbolic_i _ _ _ = Ok ?l |- _ => rename E into Es; rename l into lis end.
  destruct (index_general A Hwf Hsq Hup) as (li & li' & Es' & _ & (S1 & S2 & S3 & S4 & _ & _ & _ & _ & S9 & S10) & _).
  rewrite Es in Es'. inversion Es'; subst li.
  exists lis. cbn [fst snd v_y v_D v_Lvals]. rewrite !repeat_length. split; [exact Es|]. repeat (split; auto).
  - rewrite S10. apply repeat_length.
  - intros r Hr. apply nth_repeat.
Qed.

Theorem refactor_solves (A : csc F) (st0 st : ldl_i * ldl_v) :
  wf_csc A = true -> ncols A = nrows A -> upper_only A = true -> nodup_cols A ->
  reusable A st0 -> numeric A st0 = Ok (nrows A, st) ->
  ldl_solves A st /\ reusable A st.
Proof.
  intros Hwf Hsq Hup Hnd Hre Hf. set (n := nrows A) in *.
  destruct Hre as (lis & Es & Eet & ELc & Lz0 & Lf0 & Lp0 & Li0 & Ly0 & LD0 & LV0 & Hy0).
  assert (P1 : length (colptr A) = S n) by (rewrite (wf_cp_len A Hwf); now rewrite Hsq).
  assert (P2 : forall j, j < n -> nth j (colptr A) 0 <= nth (S j) (colptr A) 0).
  { intros j Hj. apply (wf_col_range A Hwf j). now rewrite Hsq. }
  assert (P3 : forall j, j < n -> nth (S j) (colptr A) 0 <= length (rowind A)).
  { intros j Hj. apply (wf_col_range A Hwf j). now rewrite Hsq. }
  assert (P4 : forall j p, j < n -> nth j (colptr A) 0 <= p < nth (S j) (colptr A) 0 -> nth p (rowind A) 0 <= j).
  { intros j p Hj Hp. apply upper_only_le; auto. now rewrite Hsq. }
  set (lpA := lpf (has_entry (colptr A) (rowind A)) n) in *.
  assert (Plp : forall k i, i < k -> k < n ->
            lpA k i = has_entry (colptr A) (rowind A) i k || existsb (fun c => lpA i c && lpA k c) (seq 0 i)).
  { intros. now apply lpf_eq. }
  destruct (symbolic_i_spec n (colptr A) (rowind A) P1 P2 P3 P4 lpA Plp)
    as (lis' & Es' & S1 & S2 & S3 & S4 & S5 & S6 & S7 & S8 & S9 & S10 & S11).
  fold n in Es. rewrite Es in Es'. inversion Es'; subst lis'. clear Es'.
  assert (HAnd : forall j p1 p2, j < n -> nth j (colptr A) 0 <= p1 < nth (S j) (colptr A) 0 ->
            nth j (colptr A) 0 <= p2 < nth (S j) (colptr A) 0 -> nth p1 (rowind A) 0 = nth p2 (rowind A) 0 -> p1 = p2).
  { intros j p1 p2 Hj. apply Hnd. rewrite Hsq. exact Hj. }
  pose proof (wf_vals_len A Hwf) as HAx.
  assert (Ltot : length (i_Lind lis) = nth n (i_Lcols lis) 0) by (rewrite S9; apply repeat_length).
  destruct st0 as [li0 lv0]. cbn [fst snd] in *.
  assert (HV0 : VInv n (colptr A) (rowind A) (vals A) lpA (i_Lcols lis) 0 (li0, lv0)).
  { unfold VInv. split.
    { unfold NumInv. repeat (split; auto); try lia; intros; lia. }
    split; auto. split; auto. split; [lia|]. split; [exact Hy0|]. repeat split; intros; lia. }
  destruct (num_loop_val n (colptr A) (rowind A) (vals A) P1 P2 P3 P4 HAx HAnd lpA Plp (i_etree lis) (i_Lcols lis) S1 S5 S4 S8
              n 0 li0 lv0 eq_refl HV0) as (r & li2 & lv2 & EL & HVn).
  unfold numeric in Hf. cbn [fst] in Hf. fold n in Hf. rewrite Eet, ELc in Hf.
  change Qc with F in *. rewrite EL in Hf. cbn [bind] in Hf.
  destruct (num_loop_fields _ _ _ _ _ _ _ _ _ _ EL) as [Fet FLc]. cbn [fst] in Fet, FLc.
  assert (Hres : r = n /\ exists dinv, mapM qinv (v_D lv2) = Ok dinv /\ st = (li2, mkldlv (v_Lvals lv2) (v_D lv2) dinv (v_y lv2))).
  { destruct (Nat.eqb_spec r n) as [->|Hne].
    - destruct (mapM qinv (v_D lv2)) as [dinv|] eqn:Ed; cbn [bind] in Hf; [|discriminate]. inversion Hf; subst. split; auto. exists dinv. auto.
    - inversion Hf. congruence. }
  destruct Hres as (-> & dinv & Ed & ->).
  destruct (HVn eq_refl) as (HNum & Ly & LD & LV & Hyz & Hnz & HE1 & HE2).
  pose proof HNum as (Lz2 & Lf2 & Lp2 & Li2 & _ & HnzL & HindL).
  destruct (vinv_ok (v_D lv2) dinv Ed) as (Ldinv & Hdinv).
  set (lv := mkldlv (v_Lvals lv2) (v_D lv2) dinv (v_y lv2)).
  assert (ELcols : i_Lcols li2 = i_Lcols lis) by (rewrite FLc; exact ELc).
  assert (EEt : i_etree li2 = i_etree lis) by (rewrite Fet; exact Eet).
  (* reusable again *)
  assert (Hre' : reusable A (li2, lv)).
  { exists lis. unfold lv. cbn [fst snd v_y v_D v_Lvals]. fold n. split; [exact Es|].
    split; [congruence|]. split; [congruence|]. split; [exact Lz2|]. split; [exact Lf2|]. split; [exact Lp2|].
    split; [lia|]. split; [exact Ly|]. split; [exact LD|]. split; [lia|]. exact Hyz. }
  split; [|exact Hre'].
  (* unit lower structure *)
  destruct (index_general A Hwf Hsq Hup) as (lis' & lin & Es' & _ & HS & _). fold n in Es'. rewrite Es in Es'. inversion Es'; subst lis'.
  assert (HNP : num_post A lis li2).
  { unfold num_post. fold n. split; [exact EEt|]. split; [exact ELcols|]. split; [exact Lz2|]. split; [exact Li2|]. split.
    - intros i Hi. rewrite (HnzL i Hi). reflexivity.
    - intros i u Hi Hu. apply (HindL i u Hi). exact Hu. }
  assert (Hul : unit_lower_ok n (i_Lcols li2) (i_Lind li2) (v_Lvals lv) = true).
  { apply (unit_lower_general A Hwf Hsq Hup lis li2); auto. cbn [lv v_Lvals]. lia. }
  assert (LDinv : length (v_Dinv lv) = n) by (cbn [lv v_Dinv]; lia).
  assert (HDinv : forall i, i < n -> (nth i (v_D lv) 0 * nth i (v_Dinv lv) 0)%Qc = 1%Qc).
  { intros i Hi. cbn [lv v_D v_Dinv]. destruct (Hdinv i ltac:(lia)) as [Hn0 Hv]. rewrite Hv. field. exact Hn0. }
  assert (HLm : forall j c, c < n -> j <> c -> Lm_of n li2 lv j c = Lc (i_Lcols lis) li2 lv2 j c).
  { intros j c Hc Hne. unfold Lm_of. destruct (Nat.eqb_spec j c); [contradiction|].
    unfold csc_get, Lc, Lcur. cbn [colptr rowind vals]. rewrite ELcols. cbn [lv v_Lvals].
    rewrite S8 by auto. rewrite HnzL by auto.
    replace (nth c (i_Lcols lis) 0 + cntL lpA n c - nth c (i_Lcols lis) 0) with (cntL lpA n c) by lia. reflexivity. }
  assert (HDv : forall c, nth c (v_D lv) 0%Qc = Dv lv2 c) by (intros; reflexivity).
  assert (HP : forall i j, i <= j -> j < n ->
       sum_n (S i) (fun c => Lm_of n li2 lv j c * nth c (v_D lv) 0 * Lm_of n li2 lv i c)%Qc = csc_get A i j).
  { intros i j Hij Hj. cbn [sum_n]. unfold Lm_of at 4. rewrite Nat.eqb_refl.
    destruct (Nat.eq_dec i j) as [->|Hne].
    - unfold Lm_of at 3. rewrite Nat.eqb_refl. rewrite HDv. rewrite (HE2 j Hj).
      rewrite (sum_n_ext j _ (fun c => Lc (i_Lcols lis) li2 lv2 j c * Lc (i_Lcols lis) li2 lv2 j c * Dv lv2 c)%Qc).
      + unfold aent, csc_get. fring.
      + intros c Hc. rewrite !HLm by lia. rewrite HDv. fring.
    - rewrite (HLm j i) by lia. rewrite HDv.
      assert (G := HE1 j i Hj ltac:(lia)).
      rewrite (sum_n_ext i _ (fun c => Lc (i_Lcols lis) li2 lv2 i c * Lc (i_Lcols lis) li2 lv2 j c * Dv lv2 c)%Qc).
      + transitivity (sum_n i (fun c => Lc (i_Lcols lis) li2 lv2 i c * Lc (i_Lcols lis) li2 lv2 j c * Dv lv2 c)
                      + Lc (i_Lcols lis) li2 lv2 j i * Dv lv2 i)%Qc; [fring|]. rewrite G. unfold aent, csc_get. fring.
      + intros c Hc. rewrite !HLm by lia. rewrite HDv. fring. }
  intros b Hb. fold n in Hb.
  destruct (solve_inplace_correct n (i_Lcols li2) (i_Lind li2) (v_Lvals lv) Hul (v_Dinv lv) LDinv (v_D lv) HDinv b Hb)
    as (x & Ex & Lx & Hx).
  exists x. split; [exact Ex|]. split; auto. intros i Hi. rewrite <- (Hx i Hi).
  apply sum_n_ext. intros j Hj. f_equal.
  assert (Htr : forall p q, p <= q -> q < n -> LDLt n (i_Lcols li2) (i_Lind li2) (v_Lvals lv) (v_D lv) q p = csc_get A p q).
  { intros p q Hpq Hq. rewrite <- HP by auto. unfold LDLt.
    rewrite (sum_n_trunc n (S p)).
    - apply sum_n_ext. intros c Hc0. reflexivity.
    - lia.
    - intros c Hc1. unfold Lmat at 2. destruct (Nat.eqb_spec p c); [lia|].
      rewrite (lent_upper n _ _ _ Hul p c) by lia. fring. }
  unfold sym_get. destruct (Nat.leb_spec i j).
  - rewrite <- Htr by auto. unfold LDLt. apply sum_n_ext. intros; fring.
  - rewrite <- Htr by lia. reflexivity.
Qed.
