(* Properties_C10_unique.v -- C10-T1 piece (also the theorem behind C13 "all five back ends return identical fractions"):
   on convex problems the full, un-eliminated regularised Newton operator kkt_multiply (KKTDense.v, = KKT::multiply of
   dense/kkt.hpp; the sparse KKT::multiply is the same operator) is injective, so ANY procedure that returns, for the
   same data / scalings / right-hand side, a step whose image under the operator is the right-hand side (residual exactly
   zero -- what the C13 oracle checks on the real code for the four sparse formulations) returns the step of the dense
   kkt_solve.  Exact arithmetic (Qc), all sizes.  Statements only; proofs in UniqueProofs.v.
   Definitions: wf_step d v (block lengths n, p, m, n_lb, n_ub, m, n_lb, n_ub; UniqueProofs.v), wf_data / wf_scal /
   pos_scal / wf_rhs (KKTProofs.v), P_psd (PDProofs.v), pos_def (PDProofs.v). *)
From PIQP Require Import Base Data KKTDense LinAlg LLTProofs KKTProofs PDProofs UniqueProofs.
From RecordUpdate Require Import RecordSet.
Import RecordSetNotations.
Local Open Scope Qc_scope.

Theorem C10_full_system_solution_unique : forall (d : Data) (k : KKT) (v1 v2 r : Step),
  wf_data d -> wf_scal d k -> 0 < k_rho k -> pos_scal d k -> P_psd d ->
  wf_step d v1 -> wf_step d v2 ->
  kkt_multiply d k v1 = Ok r -> kkt_multiply d k v2 = Ok r ->
  v1 = v2.
Proof. exact full_system_solution_unique. Qed.
Print Assumptions C10_full_system_solution_unique.

Theorem C10_any_exact_backend_agrees_with_dense : forall (S : Settings) (d : Data) (k0 k : KKT) (f : Fact)
    (rx ry rz rzlb rzub rs rslb rsub : Vec) (step step' : Step),
  wf_data d -> wf_scal d k0 -> 0 < k_rho k0 -> pos_scal d k0 -> P_psd d ->
  ((0 < d_p d)%nat -> k_ATA k0 = compute_ATA d) ->
  update_kkt d k0 = Ok k ->
  llt_compute (k_mat k) = Ok (Some f) ->
  wf_rhs d rx ry rz rzlb rzub rs rslb rsub ->
  kkt_solve S d (k <| k_fact := Some f |>) false rx ry rz rzlb rzub rs rslb rsub = Ok step ->
  wf_step d step' ->
  kkt_multiply d (k <| k_fact := Some f |>) step'
  = Ok {| st_x := rx; st_y := ry; st_z := rz; st_z_lb := rzlb; st_z_ub := rzub;
          st_s := rs; st_s_lb := rslb; st_s_ub := rsub |} ->
  step' = step.
Proof. exact any_exact_backend_agrees_with_dense. Qed.
Print Assumptions C10_any_exact_backend_agrees_with_dense.

(* a positive definite matrix is injective (the linear-algebra core) *)
Theorem C10_pos_def_injective : forall (n : nat) (K : nat -> nat -> Qc) (x1 x2 : nat -> Qc),
  pos_def n K ->
  (forall i, (i < n)%nat -> sum n (fun j => K i j * x1 j) = sum n (fun j => K i j * x2 j)) ->
  forall i, (i < n)%nat -> x1 i = x2 i.
Proof. exact pos_def_injective. Qed.
Print Assumptions C10_pos_def_injective.

(* any solution of the full system satisfies the reduced system K_red dx = folded rhs (converse of C13-T1a(i)) *)
Theorem C10_full_solution_satisfies_reduced : forall (d : Data) (k : KKT),
  wf_data d -> wf_scal d k -> pos_scal d k ->
  forall v r : Step, wf_step d v -> kkt_multiply d k v = Ok r ->
  forall i, (i < d_n d)%nat ->
    sum (d_n d) (fun j => Kred_of d k i j * fv (st_x v) j) = a_rhs (sys_of_step d k r) i.
Proof. exact det_reduced. Qed.
Print Assumptions C10_full_solution_satisfies_reduced.

(* the step of the dense solve has the right block lengths *)
Theorem C10_kkt_solve_dense_wf_step : forall (S : Settings) (d : Data) (k0 k : KKT) (f : Fact)
    (rx ry rz rzlb rzub rs rslb rsub : Vec) (step : Step),
  wf_data d -> wf_scal d k0 -> ((0 < d_p d)%nat -> k_ATA k0 = compute_ATA d) ->
  update_kkt d k0 = Ok k -> llt_compute (k_mat k) = Ok (Some f) ->
  wf_rhs d rx ry rz rzlb rzub rs rslb rsub ->
  kkt_solve S d (k <| k_fact := Some f |>) false rx ry rz rzlb rzub rs rslb rsub = Ok step ->
  wf_step d step.
Proof. exact kkt_solve_dense_wf_step. Qed.
Print Assumptions C10_kkt_solve_dense_wf_step.

(* ---------------------------------------------------------------- non-vacuity: instance of KKTProofs.v (n = 2, p = 1, m = 1, one bound) *)
Example C10_ex_unique : forall S : Settings,
  wf_data ex_d /\ wf_scal ex_d ex_k0 /\ 0 < k_rho ex_k0 /\ pos_scal ex_d ex_k0 /\ P_psd ex_d /\
  exists k f step,
    update_kkt ex_d ex_k0 = Ok k /\ llt_compute (k_mat k) = Ok (Some f) /\
    ex_solve S (k <| k_fact := Some f |>) false = Ok step /\
    wf_step ex_d step /\
    kkt_multiply ex_d (k <| k_fact := Some f |>) step = Ok ex_rhs /\
    forall step', wf_step ex_d step' -> kkt_multiply ex_d (k <| k_fact := Some f |>) step' = Ok ex_rhs -> step' = step.
Proof. exact ex_unique. Qed.
Print Assumptions C10_ex_unique.

Example C10_ex_perturbed_image_differs : forall S : Settings,
  match update_kkt ex_d ex_k0 with
  | Ok k => match llt_compute (k_mat k) with
            | Ok (Some f) =>
                match ex_solve S (k <| k_fact := Some f |>) false with
                | Ok step =>
                    match kkt_multiply ex_d (k <| k_fact := Some f |>)
                            {| st_x := vaddc 1 (st_x step); st_y := st_y step; st_z := st_z step; st_z_lb := st_z_lb step;
                               st_z_ub := st_z_ub step; st_s := st_s step; st_s_lb := st_s_lb step; st_s_ub := st_s_ub step |} with
                    | Ok r => negb (step_eqb r ex_rhs)
                    | Err _ => false
                    end
                | Err _ => false
                end
            | _ => false
            end
  | Err _ => false
  end = true.
Proof. exact ex_perturbed_image_differs. Qed.
Print Assumptions C10_ex_perturbed_image_differs.
