(* Properties_C15_sparse.v -- C15 for the SPARSE Ruiz preconditioner: the Gallina transcription PrecondSparse.v of
   sparse/preconditioner.hpp (RuizEquilibration<T,I>::scale_data / unscale_data on CSC storage, with the scratch aliasing
   delta_iter = delta_inv, delta_iter_lb = delta_iter_cost = delta_lb_inv as in the code) computes, on the dense view
   [to_dense], exactly what the dense model PrecondDense.v computes (flag sparse_quirk := true).  Statements only;
   proofs in PrecondSparseProofs.v.  Definitions used (PrecondSparse.v / PrecondSparseProofs.v):
     to_dense d        sparse::Data -> Data: matrices by csc_get (mbuild), index lists / packed bounds cut to head(n_lb) / head(n_ub)
     dense_result      (pc, d) |-> (pc, to_dense d);   res_map f : map over the error monad (Err e is mapped to Err e)
     wf_spdata d       P_utri n x n, AT n x p, GT n x m are wf_csc (CSC.v) with NO ROW INDEX STORED TWICE IN A COLUMN (csc_nodupb);
                       P_utri upper_only; |c| = n, |b| = p, |h| = m; x_lb_idx, x_ub_idx, x_lb_scaling, x_ub_scaling, x_lb_n, x_ub
                       have length n; n_lb, n_ub <= n; head(n_lb) of x_lb_idx and head(n_ub) of x_ub_idx strictly increasing and < n
     wf_pc pc D        PrecondProofs.v: |delta| = |delta_inv| = n+p+m, the four box vectors have length n, n_lb, n_ub <= n, dims = D's
     sp_frame d d'     dims, n_lb, n_ub, x_lb_idx, x_ub_idx equal and P_utri / AT / GT have the same nrows, ncols, colptr, rowind
                       and number of stored values
   Hypotheses that are really needed: csc_nodupb (with a row index stored twice in a column the stored-value maxima the
   sparse loops compute are not the norms of the summed entries that csc_get / to_dense denote) and, for unscale_data, that the
   preconditioner's n_lb / n_ub are the data's (the dense Data keeps exactly the packed prefix of x_lb_n / x_ub).
   What is NOT stated here: the scale_X / unscale_X accessors are functions of the preconditioner record only and the sparse
   transcription uses the SAME record [Precond] and the same accessor definitions (PrecondDense.v, Section Unscale), so the
   accessor theorems of Properties_C15.v apply verbatim; the fill of never-written tails is compared only by the stage. *)
From PIQP Require Import Base Data CSC PrecondDense PrecondProofs PrecondSparse PrecondSparseProofs.
From PIQP.gen Require Import Consts.
From RecordUpdate Require Import RecordSet.
Import RecordSetNotations.
Local Open Scope Qc_scope.

(* MAIN: scale_data, BOTH branches (reuse_prev_scaling = false with the iteration loop for every max_iter, scale_cost on or
   off; reuse_prev_scaling = true), every well-formed sparse data, every previous preconditioner state of the right
   dimensions: the dense view of the sparse result -- scaled P/A/G, c, b, h, box scalings, packed bounds, and the WHOLE
   preconditioner state c, c_inv, delta, delta_lb, delta_ub, delta_inv, delta_lb_inv, delta_ub_inv, n_lb, n_ub -- and the error
   behaviour (Err e on both sides) equal the dense model run with sparse_quirk := true *)
Theorem C15_sparse_scale_eq_dense :
  forall (K : Consts) (pc : Precond) (d : spdata) (reuse sc : bool) (it : Z),
  wf_spdata d -> wf_pc pc (to_dense d) ->
  res_map dense_result (sp_scale_data K pc d reuse sc it) = ruiz_scale_data K true pc (to_dense d) reuse sc it.
Proof. exact sparse_scale_eq_dense. Qed.
Print Assumptions C15_sparse_scale_eq_dense.

(* the same against the model's entry point scale_data (RuizEquilibration is not the identity preconditioner) *)
Theorem C15_sparse_scale_eq_dense_entry :
  forall (K : Consts) (pc : Precond) (d : spdata) (reuse sc : bool) (it : Z),
  wf_spdata d -> wf_pc pc (to_dense d) -> pc_ident pc = false ->
  res_map dense_result (sp_scale_data K pc d reuse sc it) = scale_data K true pc (to_dense d) reuse sc it.
Proof. intros K pc d reuse sc it W WP H. unfold scale_data. rewrite H. now apply sparse_scale_eq_dense. Qed.
Print Assumptions C15_sparse_scale_eq_dense_entry.

(* the column-norm loops on CSC storage (P_utri: upper triangle, every stored entry feeds slot j and, off the diagonal,
   slot i; AT; GT) compute exactly the infinity norms of the columns of the KKT matrix the dense code computes, and the
   cost-scaling loop computes the column norms of the symmetric P *)
Theorem C15_sparse_norm_loops_eq_dense :
  forall d : spdata, wf_spdata d ->
  (exists it1 it2,
     sp_norm_P (sp_P d) (sp_n d) (vconst (sp_n d + sp_p d + sp_m d) 0) = Ok it1 /\
     sp_norm_rect (sp_AT d) (sp_p d) (sp_n d) it1 = Ok it2 /\
     sp_norm_rect (sp_GT d) (sp_m d) (sp_n d + sp_p d) it2 = Ok (dense_it0 (to_dense d))) /\
  sp_norm_P (sp_P d) (sp_n d) (vconst (sp_n d) 0) = Ok (dense_cost (csc_to_dense (sp_P d)) (sp_n d)).
Proof. intros d W. split; [now apply kkt_norms_dense|apply cost_norm_dense; apply W]. Qed.
Print Assumptions C15_sparse_norm_loops_eq_dense.

(* reuse_prev_scaling = true: every field of the result (scaled P/A/G, c, b, h, box scalings, packed bounds, the whole
   preconditioner state) and the error behaviour agree with the dense model, for either value of its flag *)
Theorem C15_sparse_scale_reuse_eq_dense :
  forall (K : Consts) (sq : bool) (pc : Precond) (d : spdata) (sc : bool) (it : Z),
  wf_spdata d -> wf_pc pc (to_dense d) ->
  res_map dense_result (sp_scale_data K pc d true sc it) = ruiz_scale_data K sq pc (to_dense d) true sc it.
Proof. exact sparse_scale_reuse_eq_dense. Qed.
Print Assumptions C15_sparse_scale_reuse_eq_dense.

(* unscale_data (the preconditioner's n_lb / n_ub are the data's, as scale_data leaves them) *)
Theorem C15_sparse_unscale_eq_dense :
  forall (pc : Precond) (d : spdata),
  wf_spdata d -> wf_pc pc (to_dense d) -> pc_nlb pc = sp_nlb d -> pc_nub pc = sp_nub d ->
  res_map to_dense (sp_unscale_data pc d) = ruiz_unscale_data pc (to_dense d).
Proof. exact sparse_unscale_eq_dense. Qed.
Print Assumptions C15_sparse_unscale_eq_dense.

(* both succeed, and the results are again well-formed sparse data *)
Theorem C15_sparse_reuse_unscale_ok :
  forall (K : Consts) (pc : Precond) (d : spdata) (sc : bool) (it : Z),
  wf_spdata d -> wf_pc pc (to_dense d) ->
  (exists d1, sp_scale_data K pc d true sc it = Ok (pc <| pc_nlb := sp_nlb d |> <| pc_nub := sp_nub d |>, d1) /\ wf_spdata d1) /\
  (pc_nlb pc = sp_nlb d -> pc_nub pc = sp_nub d -> exists d1, sp_unscale_data pc d = Ok d1 /\ wf_spdata d1).
Proof.
  intros K pc d sc it W WP. split.
  - destruct (sparse_reuse_explicit K pc d sc it W WP) as (d1 & E & W1 & _). eauto.
  - intros A B. destruct (sparse_unscale_explicit pc d W WP A B) as (d1 & E & W1 & _). eauto.
Qed.
Print Assumptions C15_sparse_reuse_unscale_ok.

(* chaining: the result of scale_data (either branch) is again well-formed sparse data with a matching preconditioner whose
   n_lb / n_ub are the data's, i.e. exactly the hypotheses of C15_sparse_unscale_eq_dense and of the next scale_data: the
   equalities hold along every history  (unscale_data; new values / patterns / bounds; scale_data)*  of well-formed data *)
Theorem C15_sparse_scale_wf :
  forall (K : Consts) (pc : Precond) (d : spdata) (reuse sc : bool) (it : Z) (pc' : Precond) (d' : spdata),
  wf_spdata d -> wf_pc pc (to_dense d) ->
  sp_scale_data K pc d reuse sc it = Ok (pc', d') ->
  wf_spdata d' /\ wf_pc pc' (to_dense d') /\ pc_nlb pc' = sp_nlb d' /\ pc_nub pc' = sp_nub d'.
Proof. exact sparse_scale_wf. Qed.
Print Assumptions C15_sparse_scale_wf.

(* the sparsity patterns (outer index, inner index, number of stored values), the dimensions and the index lists are
   never changed: ANY call that returns, both branches of scale_data incl. the iteration loop, no hypothesis on the data *)
Theorem C15_sparse_pattern_preserved :
  forall (K : Consts) (pc : Precond) (d : spdata) (reuse sc : bool) (it : Z) (pc' : Precond) (d' : spdata),
  sp_scale_data K pc d reuse sc it = Ok (pc', d') -> sp_frame d d'.
Proof. exact sparse_pattern_preserved. Qed.
Print Assumptions C15_sparse_pattern_preserved.

Theorem C15_sparse_unscale_pattern_preserved :
  forall (pc : Precond) (d d' : spdata), sp_unscale_data pc d = Ok d' -> sp_frame d d'.
Proof. exact sparse_unscale_pattern_preserved. Qed.
Print Assumptions C15_sparse_unscale_pattern_preserved.

(* transfer of the dense C15 theorems through the equality; first the reuse branch alone (no hypothesis on the constants) *)
Theorem C15_sparse_reuse_is_exact_change_of_variables :
  forall (K : Consts) (pc : Precond) (d : spdata) (sc : bool) (it : Z) (pc' : Precond) (d' : spdata),
  wf_spdata d -> wf_pc pc (to_dense d) ->
  sp_scale_data K pc d true sc it = Ok (pc', d') ->
  is_transform (pc_c pc') (pc_delta pc') (pc_delta_lb pc') (pc_delta_ub pc') (to_dense d) (to_dense d') /\
  bounds_transform (pc_delta pc') (pc_delta_lb pc') (pc_delta_ub pc') (to_dense d) (to_dense d').
Proof.
  intros K pc d sc it pc' d' W WP H.
  apply (scale_reuse_is_transform K true pc (to_dense d) sc it pc' (to_dense d') (wf_to_dense d W) WP).
  rewrite <- (sparse_scale_reuse_eq_dense K true pc d sc it W WP), H. reflexivity.
Qed.
Print Assumptions C15_sparse_reuse_is_exact_change_of_variables.

(* MAIN transfer: for BOTH branches the data scaled by the sparse code is the exact change of variables reported by the
   resulting preconditioner state (dense theorems C15_scaled_data_is_transform / C15_scale_reuse_is_transform through the equality) *)
Theorem C15_sparse_is_exact_change_of_variables :
  forall (K : Consts), sane_consts K ->
  forall (pc : Precond) (d : spdata) (reuse sc : bool) (it : Z) (pc' : Precond) (d' : spdata),
  wf_spdata d -> wf_pc pc (to_dense d) ->
  sp_scale_data K pc d reuse sc it = Ok (pc', d') ->
  is_transform (pc_c pc') (pc_delta pc') (pc_delta_lb pc') (pc_delta_ub pc') (to_dense d) (to_dense d') /\
  bounds_transform (pc_delta pc') (pc_delta_lb pc') (pc_delta_ub pc') (to_dense d) (to_dense d').
Proof.
  intros K SK pc d reuse sc it pc' d' W WP H.
  destruct (sparse_scale_ok_iff K pc d reuse sc it W WP) as [H1 _]. specialize (H1 _ _ H).
  destruct reuse.
  - exact (scale_reuse_is_transform K true pc (to_dense d) sc it pc' (to_dense d') (wf_to_dense d W) WP H1).
  - destruct WP as (WL & DA). exact (scaled_data_is_transform K true SK pc (to_dense d) sc it pc' (to_dense d') (wf_to_dense d W) DA H1).
Qed.
Print Assumptions C15_sparse_is_exact_change_of_variables.

(* a fresh sparse scale_data establishes the inverse invariant on ALL slots (so every scale_X / unscale_X pair are mutual
   inverses afterwards: C15_scale_unscale_pairs), whatever the previous state was; and it succeeds *)
Theorem C15_sparse_fresh_establishes_inverse :
  forall (K : Consts), sane_consts K ->
  forall (pc : Precond) (d : spdata) (sc : bool) (it : Z),
  wf_spdata d -> wf_pc pc (to_dense d) -> (sc = false \/ (1 <= sp_n d)%nat) ->
  exists pc' d', sp_scale_data K pc d false sc it = Ok (pc', d') /\ pc_inverse pc' /\ wf_pc pc' (to_dense d') /\
                 all_pairs_inverse pc'.
Proof.
  intros K SK pc d sc it W WP Hn. pose proof WP as (WL & DA).
  destruct (scale_fresh_ok K true SK pc (to_dense d) sc it (wf_to_dense d W) DA Hn) as (pc' & D' & E).
  destruct (sparse_scale_ok_iff K pc d false sc it W WP) as [_ H2]. destruct (H2 _ _ E) as (d' & Es & <-).
  destruct (scale_establishes_inverse K true SK pc (to_dense d) sc it pc' (to_dense d') (wf_to_dense d W) DA E) as (I & _ & WP' & _).
  exists pc', d'. split; auto. split; auto. split; auto. apply scale_unscale_pairs; auto. apply WP'.
Qed.
Print Assumptions C15_sparse_fresh_establishes_inverse.

(* ... and sparse unscale_data followed by sparse scale_data(reuse) restores the dense view of the data and the state *)
Theorem C15_sparse_unscale_scale_id :
  forall (K : Consts) (pc : Precond) (d : spdata) (sc : bool) (it : Z),
  wf_spdata d -> wf_pc pc (to_dense d) -> pc_inverse pc -> pc_nlb pc = sp_nlb d -> pc_nub pc = sp_nub d ->
  exists d0 d1, sp_unscale_data pc d = Ok d0 /\ sp_scale_data K pc d0 true sc it = Ok (pc, d1) /\
                to_dense d1 = to_dense d /\ sp_frame d d1.
Proof.
  intros K pc d sc it W WP I A B.
  destruct (sparse_unscale_explicit pc d W WP A B) as (d0 & E0 & W0 & F0 & H0).
  destruct (unscale_scale_id K true pc (to_dense d) sc it (wf_to_dense d W) WP I) as (D0 & U & _ & S).
  - now rewrite nlb_to_dense.
  - now rewrite nub_to_dense.
  - rewrite H0 in U. inversion U; subst D0.
    assert (WP0 : wf_pc pc (to_dense d0)).
    { destruct WP as (WL & a & b & c). destruct F0 as (f1 & f2 & f3 & _). split; auto. cbn in *. repeat split; congruence. }
    destruct (sparse_reuse_explicit K pc d0 sc it W0 WP0) as (d1 & E1 & W1 & F1 & H1).
    rewrite (H1 true) in S.
    assert (Epc : pc <| pc_nlb := sp_nlb d0 |> <| pc_nub := sp_nub d0 |> = pc) by congruence.
    assert (Ed : to_dense d1 = to_dense d) by congruence.
    exists d0, d1. split; auto. split.
    + rewrite E1. f_equal. f_equal. exact Epc.
    + split; auto. eapply sp_frame_trans; eauto.
Qed.
Print Assumptions C15_sparse_unscale_scale_id.

(* ---------- non-vacuity, and the fresh branch on concrete data ---------- *)
Definition ex_P : csc F := mkcsc 3 3 [0;1;3;5]%nat [0;0;1;0;2]%nat [qmk 4 1; qmk (-1) 2; qmk 30000 1; qmk 1 3; qmk 1 100000].
Definition ex_AT : csc F := mkcsc 3 1 [0;2]%nat [0;2]%nat [qmk 1 1; qmk (-7) 2].
Definition ex_GT : csc F := mkcsc 3 2 [0;1;3]%nat [1;0;2]%nat [qmk 5 1; qmk (-1) 4; qmk 9 1].
Definition ex_d : spdata :=
  mkspdata 3 1 2 ex_P ex_AT ex_GT [qmk 1 1; qmk (-2) 1; qmk 1 2] [qmk 3 1] [qmk 1 1; qmk 2 1]
           2 1 [0;2;0]%nat [1;0;0]%nat [qmk 1 1; qmk 1 1; qmk 1 1] [qmk 1 1; qmk 1 1; qmk 1 1]
           [qmk 1 1; qmk 5 2; 0] [qmk 4 1; 0; 0].
Definition ex_pc : Precond := sp_precond_init ex_d.

Example C15_sparse_ex_wf : wf_spdata ex_d /\ wf_pc ex_pc (to_dense ex_d).
Proof.
  split.
  - refine (mk_wf_spdata _ _ _ _ _ _ _ _ _ _ _ _ _ _ _ _ _ _); try (split; reflexivity); try reflexivity; cbn; try lia; repeat split; lia.
  - split; [split; cbn; lia|]. repeat split.
Qed.

(* the FRESH branch (3 iterations, scale_cost on, so the cost scratch in delta_lb_inv feeds the loop guard), then
   compared field by field as plain fractions (flat_result): on this instance the sparse result equals the dense model's (flag true) *)
Example C15_sparse_ex_fresh_eq_dense :
  res_map flat_result (res_map dense_result (sp_scale_data consts ex_pc ex_d false true 3))
    = res_map flat_result (ruiz_scale_data consts true ex_pc (to_dense ex_d) false true 3)
  /\ (exists r, sp_scale_data consts ex_pc ex_d false true 3 = Ok r)
  /\ res_map flat_result (res_map dense_result (sp_scale_data consts ex_pc ex_d false false 10))
    = res_map flat_result (ruiz_scale_data consts true ex_pc (to_dense ex_d) false false 10).
Proof. split; [vm_compute; reflexivity|]. split; [eexists; vm_compute; reflexivity|vm_compute; reflexivity]. Qed.
