(* JunkWFProofs.v -- C07: the shape invariant of the solver object (what makes the never-written tails unreadable)
   is established by setup() and preserved by update() and solve(), for dimension-correct arguments, both
   preconditioners, any settings. *)
From PIQP Require Import Base Data Bounds PrecondDense KKTDense IPM API InteriorProofs IPMControlProofs PrecondProofs
                         JunkProofs JunkShapeProofs JunkAPIProofs.
From Coq Require Import Lia.
From RecordUpdate Require Import RecordSet.
Import RecordSetNotations.
Local Open Scope Qc_scope.

(* ---- well-formed blocks give well-formed data ---- *)
Lemma incr_from_weaken l : forall lo lo' n, (lo' <= lo)%nat -> incr_from lo n l -> incr_from lo' n l.
Proof. destruct l as [|a t]; cbn; intros lo lo' n H H1; [exact I|]. destruct H1 as (A & B & C). repeat split; auto; lia. Qed.

Lemma pack_lb_wf INF xs : forall i,
  incr_from i (i + length xs) (snd (pack_lb INF i xs)) /\ length (fst (pack_lb INF i xs)) = length (snd (pack_lb INF i xs)).
Proof.
  induction xs as [|e t IH]; intros i; cbn [pack_lb]; [split; [exact I|reflexivity]|].
  specialize (IH (S i)). destruct (pack_lb INF (S i) t) as [v ix]. cbn [fst snd length] in *.
  replace (i + S (length t))%nat with (S i + length t)%nat by lia.
  destruct IH as [I1 I2]. destruct (ext_gt_neg_inf INF e); cbn [fst snd length incr_from].
  - split; [|lia]. repeat split; try lia. exact I1.
  - split; [|exact I2]. eapply incr_from_weaken; [|exact I1]. lia.
Qed.
Lemma pack_ub_wf INF xs : forall i,
  incr_from i (i + length xs) (snd (pack_ub INF i xs)) /\ length (fst (pack_ub INF i xs)) = length (snd (pack_ub INF i xs)).
Proof.
  induction xs as [|e t IH]; intros i; cbn [pack_ub]; [split; [exact I|reflexivity]|].
  specialize (IH (S i)). destruct (pack_ub INF (S i) t) as [v ix]. cbn [fst snd length] in *.
  replace (i + S (length t))%nat with (S i + length t)%nat by lia.
  destruct IH as [I1 I2]. destruct (ext_lt_inf INF e); cbn [fst snd length incr_from].
  - split; [|lia]. repeat split; try lia. exact I1.
  - split; [|exact I2]. eapply incr_from_weaken; [|exact I1]. lia.
Qed.

Lemma wf_mat_mtranspose r (M : Mat) : wf_mat (length M) r (mtranspose r M).
Proof.
  unfold wf_mat, mtranspose. split; [rewrite map_length, seq_length; reflexivity|].
  apply Forall_forall. intros col H. apply in_map_iff in H. destruct H as (i & <- & _). apply map_length.
Qed.

Lemma wf_mat_upper_tri n (P : Mat) : wf_mat n n P -> wf_mat n n (upper_tri P).
Proof.
  intros [L Fa]. unfold wf_mat, upper_tri. unfold Mat, Vec, F in *. split.
  - rewrite map_length, combine_length, seq_length. lia.
  - apply Forall_forall. intros col H. apply in_map_iff in H. destruct H as ([j c] & <- & H).
    apply in_combine_r in H. rewrite Forall_forall in Fa. specialize (Fa c H). cbn [snd fst].
    rewrite map_length, combine_length, seq_length. lia.
Qed.

Lemma wf_disable_inf INF n m GT h :
  wf_mat n m GT -> length h = m ->
  wf_mat n m (fst (disable_inf INF GT h)) /\ length (snd (disable_inf INF GT h)) = m.
Proof.
  intros [L Fa] Lh. unfold disable_inf. cbn [fst snd]. unfold Mat, Vec, F in *. split; [split|].
  - rewrite map_length, combine_length. lia.
  - apply Forall_forall. intros col H. apply in_map_iff in H. destruct H as ([c e] & <- & H).
    apply in_combine_l in H. rewrite Forall_forall in Fa. specialize (Fa c H). cbn [fst snd].
    destruct (h_is_inf INF e); [rewrite map_length|]; exact Fa.
  - rewrite map_length. exact Lh.
Qed.

(* dimension-correct arguments of setup() *)
Definition setup_blocks_ok (n p m : nat) (B : Blocks) : Prop :=
  (forall P, b_P B = Some P -> wf_mat n n P) /\ (forall c, b_c B = Some c -> length c = n) /\
  (forall A, b_A B = Some A -> length A = n) /\
  match b_b B with Some b => length b = p | None => p = 0%nat end /\
  (forall G, b_G B = Some G -> length G = n) /\
  match b_h B with Some h => length h = m | None => m = 0%nat end /\
  (forall l, b_lb B = Some l -> length l = n) /\ (forall l, b_ub B = Some l -> length l = n).

(* dimension-correct arguments of update() for a solver of dimensions n, p, m (absent blocks are kept) *)
Definition update_blocks_ok (n p m : nat) (B : Blocks) : Prop :=
  (forall P, b_P B = Some P -> wf_mat n n P) /\ (forall c, b_c B = Some c -> length c = n) /\
  (forall A, b_A B = Some A -> length A = n) /\ (forall b, b_b B = Some b -> length b = p) /\
  (forall G, b_G B = Some G -> length G = n) /\ (forall h, b_h B = Some h -> length h = m) /\
  (forall l, b_lb B = Some l -> length l = n) /\ (forall l, b_ub B = Some l -> length l = n).

(* ---- the invariant ---- *)
Definition WFsv (sv : Solver) : Prop :=
  let d := sv_data sv in let pc := sv_pc sv in let o := sv_out sv in
  wf_data d /\ wf_pc pc d /\ pc_inverse pc /\ pc_nlb pc = d_nlb d /\ pc_nub pc = d_nub d /\
  length (o_nu o) = d_m d /\ length (o_nu_lb o) = d_n d /\ length (o_nu_ub o) = d_n d /\
  (sv_kkt_init_state sv = true -> KShape d (sv_kkt sv)).

Lemma wf_data_shape d : wf_data d -> DataShape d.
Proof.
  intros W. pose proof (wf_nlb_le d W). pose proof (wf_nub_le d W). destruct W.
  constructor; try assumption; try lia. apply wfd_GT.
Qed.

Lemma WFsv_SolveShape sv : WFsv sv -> SolveShape sv.
Proof.
  intros (W & (WL & En & Ep & Em) & I & Nlb & Nub & O1 & O2 & O3 & HK).
  pose proof (wf_nlb_le _ W). pose proof (wf_nub_le _ W). destruct WL.
  split; [apply wf_data_shape; exact W|]. split; [unfold PcBox; repeat split; lia|].
  split; [unfold OutShape; repeat split; lia|exact HK].
Qed.

(* the invariant together with the dimensions fixed by the last setup() *)
Definition WFd (n p m : nat) (sv : Solver) : Prop :=
  WFsv sv /\ d_n (sv_data sv) = n /\ d_p (sv_data sv) = p /\ d_m (sv_data sv) = m.

Lemma wf_mat_repeat_nil_T r n : wf_mat n r (mtranspose r (repeat [] n)).
Proof. pose proof (wf_mat_mtranspose r (repeat [] n)) as H. rewrite repeat_length in H. exact H. Qed.

Lemma scale_data_wf K sq ident_pc pc d reuse sc it pc' d' :
  sane_consts K -> wf_data d -> wf_pc pc d -> pc_inverse pc ->
  pc_ident pc = ident_pc ->
  scale_data K sq pc d reuse sc it = Ok (pc', d') ->
  wf_data d' /\ wf_pc pc' d' /\ pc_inverse pc' /\ pc_nlb pc' = d_nlb d' /\ pc_nub pc' = d_nub d' /\
  d_n d' = d_n d /\ d_p d' = d_p d /\ d_m d' = d_m d.
Proof.
  intros SK W WP I _ E. unfold scale_data in E. destruct (pc_ident pc).
  - injection E as <- <-. pose proof (wf_nlb_le _ W). pose proof (wf_nub_le _ W).
    destruct WP as (WL & En & Ep & Em). destruct WL. destruct I.
    split; [exact W|]. split; [split; [constructor; cbn; auto; lia|cbn; auto]|].
    split; [constructor; cbn; assumption|]. cbn. auto.
  - destruct reuse.
    + destruct (scale_reuse_preserves K sq pc d sc it pc' d' W WP I E) as (A & B & C & D1 & D2).
      destruct (scale_reuse_is_transform K sq pc d sc it pc' d' W WP E) as (T & _). destruct T.
      auto 10.
    + assert (DA : dims_agree pc d) by apply WP.
      destruct (scale_establishes_inverse K sq SK pc d sc it pc' d' W DA E) as (A & B & C & D1 & D2 & _).
      destruct (scaled_data_is_transform K sq SK pc d sc it pc' d' W DA E) as (T & _). destruct T.
      auto 10.
Qed.

Theorem setup_wf K ident sq j S n p m B sv :
  sane_consts K -> setup_blocks_ok n p m B -> setup K ident sq j S n p m B = Ok sv -> WFd n p m sv.
Proof.
  intros SK (BP & Bc & BA & Bb & BG & Bh & Blb & Bub) E. unfold setup in E.
  destruct (b_P B) as [P|]; [|discriminate]. destruct (b_c B) as [c|]; [|discriminate].
  specialize (BP P eq_refl). specialize (Bc c eq_refl).
  set (A := match b_A B with Some A => A | None => repeat [] n end) in E.
  set (G := match b_G B with Some G => G | None => repeat [] n end) in E.
  assert (LA : length A = n) by (subst A; destruct (b_A B); [auto|apply repeat_length]).
  assert (LG : length G = n) by (subst G; destruct (b_G B); [auto|apply repeat_length]).
  pose proof (wf_mat_mtranspose p A) as WA. rewrite LA in WA.
  pose proof (wf_mat_mtranspose m G) as WG. rewrite LG in WG.
  cbv zeta in E.
  set (GTh := match b_h B with Some h => disable_inf (k_inf K) (mtranspose m G) h | None => (mtranspose m G, []) end) in E.
  assert (WGT : wf_mat n m (fst GTh) /\ length (snd GTh) = m).
  { subst GTh. destruct (b_h B) as [h|]; [apply wf_disable_inf; assumption|].
    cbn. subst m. split; [exact WG|reflexivity]. }
  destruct GTh as [GT h]. cbn [fst snd] in WGT. destruct WGT as [WGT Lh].
  set (lbp := match b_lb B with Some l => pack_lb (k_inf K) 0 l | None => ([], []) end) in E.
  assert (Wlb : incr_from 0 n (snd lbp) /\ length (fst lbp) = length (snd lbp)).
  { subst lbp. destruct (b_lb B) as [l|]; [|cbn; auto]. specialize (Blb l eq_refl).
    pose proof (pack_lb_wf (k_inf K) l 0) as H. cbn [Nat.add] in H. rewrite Blb in H. exact H. }
  destruct lbp as [lbn lbi]. cbn [fst snd] in Wlb. destruct Wlb as [Wlbi Llb].
  set (ubp := match b_ub B with Some l => pack_ub (k_inf K) 0 l | None => ([], []) end) in E.
  assert (Wub : incr_from 0 n (snd ubp) /\ length (fst ubp) = length (snd ubp)).
  { subst ubp. destruct (b_ub B) as [l|]; [|cbn; auto]. specialize (Bub l eq_refl).
    pose proof (pack_ub_wf (k_inf K) l 0) as H. cbn [Nat.add] in H. rewrite Bub in H. exact H. }
  destruct ubp as [ubv ubi]. cbn [fst snd] in Wub. destruct Wub as [Wubi Lub].
  match type of E with bind (scale_data K sq (precond_init ident ?d) _ _ _ _) _ = _ => set (d0 := d) in E end.
  assert (W0 : wf_data d0).
  { subst d0. constructor; cbn; try assumption; try apply vconst_length.
    - apply wf_mat_upper_tri. exact BP.
    - destruct (b_b B); [exact Bb|symmetry; exact Bb]. }
  destruct (pc_inverse_init ident d0 W0) as [I0 WP0].
  destruct (scale_data K sq (precond_init ident d0) d0 false _ _) as [[pc d]|] eqn:Es; cbn [bind] in E; [|discriminate].
  destruct (scale_data_wf K sq ident _ _ _ _ _ _ _ SK W0 WP0 I0 eq_refl Es) as (W & WP & I & N1 & N2 & Dn & Dp & Dm).
  destruct (kkt_init d (rho_init S) (delta_init S) j) as [k|] eqn:Ek; cbn [bind] in E; [|discriminate].
  injection E as <-. subst d0. cbn in Dn, Dp, Dm. split; [|cbn; auto]. unfold WFsv. cbn.
  split; [exact W|]. split; [exact WP|]. split; [exact I|]. split; [exact N1|]. split; [exact N2|].
  rewrite !vconst_length.
  split; [congruence|]. split; [congruence|]. split; [congruence|].
  intros _. apply (kkt_init_ok _ _ _ _ _ Ek).
Qed.

(* ---- update ---- *)
Definition WD (n p m : nat) (d : Data) : Prop := wf_data d /\ d_n d = n /\ d_p d = p /\ d_m d = m.

Definition rb_P (B : Blocks) (d : Data) := match b_P B with Some P => (d <| d_P := upper_tri P |>) | None => d end.
Definition rb_A (p : nat) (B : Blocks) (d : Data) := match b_A B with Some A => (d <| d_AT := mtranspose p A |>) | None => d end.
Definition rb_G (m : nat) (B : Blocks) (d : Data) := match b_G B with Some G => (d <| d_GT := mtranspose m G |>) | None => d end.
Definition rb_c (B : Blocks) (d : Data) := match b_c B with Some c => (d <| d_c := c |>) | None => d end.
Definition rb_b (B : Blocks) (d : Data) := match b_b B with Some b => (d <| d_b := b |>) | None => d end.
Definition rb_h (K : Consts) (B : Blocks) (d : Data) :=
  match b_h B with
  | Some h => let '(GT, hv) := disable_inf (k_inf K) (d_GT d) h in (d <| d_GT := GT |> <| d_h := hv |>)
  | None => d end.
Definition rb_lb (K : Consts) (B : Blocks) (d : Data) :=
  match b_lb B with
  | Some l => let '(v, ix) := pack_lb (k_inf K) 0 l in (d <| d_lb_n := v |> <| d_lb_idx := ix |>)
  | None => d end.
Definition rb_ub (K : Consts) (B : Blocks) (d : Data) :=
  match b_ub B with
  | Some l => let '(v, ix) := pack_ub (k_inf K) 0 l in (d <| d_ub := v |> <| d_ub_idx := ix |>)
  | None => d end.

Lemma replace_blocks_stages K d0 B :
  replace_blocks K d0 B =
  rb_ub K B (rb_lb K B (rb_h K B (rb_b B (rb_c B (rb_G (d_m d0) B (rb_A (d_p d0) B (rb_P B d0))))))).
Proof. reflexivity. Qed.

Section Stages.
Variables (K : Consts) (B : Blocks) (n p m : nat).
Hypothesis HB : update_blocks_ok n p m B.

Lemma rb_P_wf d : WD n p m d -> WD n p m (rb_P B d).
Proof.
  intros (W & N & P & M). unfold rb_P. destruct HB as (BP & _). destruct (b_P B) as [P0|]; [|unfold WD; auto].
  specialize (BP P0 eq_refl). split; [|auto]. destruct W. constructor; cbn; try assumption.
  rewrite N. apply wf_mat_upper_tri. exact BP.
Qed.
Lemma rb_A_wf d : WD n p m d -> WD n p m (rb_A p B d).
Proof.
  intros (W & N & P & M). unfold rb_A. destruct HB as (_ & _ & BA & _). destruct (b_A B) as [A|]; [|unfold WD; auto].
  specialize (BA A eq_refl). split; [|auto]. destruct W. constructor; cbn; try assumption.
  rewrite N, P, <- BA. apply wf_mat_mtranspose.
Qed.
Lemma rb_G_wf d : WD n p m d -> WD n p m (rb_G m B d).
Proof.
  intros (W & N & P & M). unfold rb_G. destruct HB as (_ & _ & _ & _ & BG & _). destruct (b_G B) as [G|]; [|unfold WD; auto].
  specialize (BG G eq_refl). split; [|auto]. destruct W. constructor; cbn; try assumption.
  rewrite N, M, <- BG. apply wf_mat_mtranspose.
Qed.
Lemma rb_c_wf d : WD n p m d -> WD n p m (rb_c B d).
Proof.
  intros (W & N & P & M). unfold rb_c. destruct HB as (_ & Bc & _). destruct (b_c B) as [c|]; [|unfold WD; auto].
  specialize (Bc c eq_refl). split; [|auto]. destruct W. constructor; cbn; try assumption. congruence.
Qed.
Lemma rb_b_wf d : WD n p m d -> WD n p m (rb_b B d).
Proof.
  intros (W & N & P & M). unfold rb_b. destruct HB as (_ & _ & _ & Bb & _). destruct (b_b B) as [b|]; [|unfold WD; auto].
  specialize (Bb b eq_refl). split; [|auto]. destruct W. constructor; cbn; try assumption. congruence.
Qed.
Lemma rb_h_wf d : WD n p m d -> WD n p m (rb_h K B d).
Proof.
  intros (W & N & P & M). unfold rb_h. destruct HB as (_ & _ & _ & _ & _ & Bh & _). destruct (b_h B) as [h|]; [|unfold WD; auto].
  specialize (Bh h eq_refl).
  pose proof (wf_disable_inf (k_inf K) (d_n d) (d_m d) (d_GT d) h (wfd_GT _ W) ltac:(congruence)) as [H1 H2].
  destruct (disable_inf (k_inf K) (d_GT d) h) as [GT hv]. cbn [fst snd] in H1, H2.
  split; [|auto]. destruct W. constructor; cbn; assumption.
Qed.
Lemma rb_lb_wf d : WD n p m d -> WD n p m (rb_lb K B d).
Proof.
  intros (W & N & P & M). unfold rb_lb. destruct HB as (_ & _ & _ & _ & _ & _ & Blb & _). destruct (b_lb B) as [l|]; [|unfold WD; auto].
  specialize (Blb l eq_refl).
  pose proof (pack_lb_wf (k_inf K) l 0) as [H1 H2]. cbn [Nat.add] in H1. rewrite Blb, <- N in H1.
  destruct (pack_lb (k_inf K) 0 l) as [v ix]. cbn [fst snd] in H1, H2.
  split; [|auto]. destruct W. constructor; cbn; assumption.
Qed.
Lemma rb_ub_wf d : WD n p m d -> WD n p m (rb_ub K B d).
Proof.
  intros (W & N & P & M). unfold rb_ub. destruct HB as (_ & _ & _ & _ & _ & _ & _ & Bub). destruct (b_ub B) as [l|]; [|unfold WD; auto].
  specialize (Bub l eq_refl).
  pose proof (pack_ub_wf (k_inf K) l 0) as [H1 H2]. cbn [Nat.add] in H1. rewrite Bub, <- N in H1.
  destruct (pack_ub (k_inf K) 0 l) as [v ix]. cbn [fst snd] in H1, H2.
  split; [|auto]. destruct W. constructor; cbn; assumption.
Qed.
End Stages.

Lemma replace_blocks_wf K d0 B :
  wf_data d0 -> update_blocks_ok (d_n d0) (d_p d0) (d_m d0) B -> WD (d_n d0) (d_p d0) (d_m d0) (replace_blocks K d0 B).
Proof.
  intros W HB. rewrite replace_blocks_stages.
  apply rb_ub_wf; [exact HB|]. apply rb_lb_wf; [exact HB|]. apply rb_h_wf; [exact HB|]. apply rb_b_wf; [exact HB|].
  apply rb_c_wf; [exact HB|]. apply rb_G_wf; [exact HB|]. apply rb_A_wf; [exact HB|]. apply rb_P_wf; [exact HB|].
  unfold WD. auto.
Qed.

Lemma ruiz_unscale_dims pc d d0 :
  ruiz_unscale_data pc d = Ok d0 -> d_n d0 = d_n d /\ d_p d0 = d_p d /\ d_m d0 = d_m d.
Proof.
  unfold ruiz_unscale_data. intros H.
  repeat match type of H with bind ?e _ = _ => destruct e; cbn [bind] in H; [|discriminate H] end.
  injection H as <-. cbn. auto.
Qed.

Theorem update_wf K sq n p m sv B reuse sv' :
  sane_consts K -> WFd n p m sv -> update_blocks_ok n p m B ->
  update K sq sv B reuse = Ok sv' -> WFd n p m sv'.
Proof.
  intros SK ((W & WP & I & Nlb & Nub & O1 & O2 & O3 & HK) & Hn & Hp & Hm) HB E. subst n p m.
  rewrite update_split in E. unfold update_data in E.
  assert (H0 : exists d0, unscale_data (sv_pc sv) (sv_data sv) = Ok d0 /\
                          WD (d_n (sv_data sv)) (d_p (sv_data sv)) (d_m (sv_data sv)) d0).
  { unfold unscale_data. destruct (pc_ident (sv_pc sv)).
    - eexists; split; [reflexivity|]. unfold WD. auto.
    - destruct (unscale_scale_id K sq _ _ false 0%Z W WP I Nlb Nub) as (d0 & E0 & W0 & _).
      exists d0. split; [exact E0|]. destruct (ruiz_unscale_dims _ _ _ E0) as (A1 & A2 & A3). unfold WD. auto. }
  destruct H0 as (d0 & E0 & W0 & N0 & P0 & M0). rewrite E0 in E. cbn [bind] in E.
  rewrite <- N0, <- P0, <- M0 in HB.
  destruct (replace_blocks_wf K d0 B W0 HB) as (W8 & N8 & P8 & M8).
  destruct (scale_data K sq (sv_pc sv) (replace_blocks K d0 B) reuse _ _) as [[pc' d']|] eqn:Es; cbn [bind] in E; [|discriminate].
  assert (WP8 : wf_pc (sv_pc sv) (replace_blocks K d0 B)).
  { destruct WP as (WL & En & Ep & Em). split; [exact WL|]. repeat split; congruence. }
  destruct (scale_data_wf K sq _ _ _ _ _ _ _ _ SK W8 WP8 I eq_refl Es) as (W' & WP' & I' & N1 & N2 & Dn & Dp & Dm).
  destruct (kkt_update_data d' (sv_kkt sv) _ _ _) as [k|]; cbn [bind] in E; [|discriminate].
  injection E as <-. split; [|cbn; repeat split; congruence]. unfold WFsv. cbn.
  split; [exact W'|]. split; [exact WP'|]. split; [exact I'|]. split; [exact N1|]. split; [exact N2|].
  split; [congruence|]. split; [congruence|]. split; [congruence|]. discriminate.
Qed.

(* ---- solve ---- *)
Lemma swap_loop_length {A} ridx : forall (v : list A) i r, swap_loop v i ridx = Ok r -> length r = length v.
Proof.
  induction ridx as [|j t IH]; intros v i r H.
  - destruct i; simpl in H; inversion H; reflexivity.
  - destruct i as [|i']; simpl in H; [discriminate|].
    destruct (swap v i' j) as [v'|] eqn:Es; cbn [bind] in H; [|discriminate].
    apply IH in H. rewrite H. unfold swap in Es.
    destruct (get v i'); cbn [bind] in Es; [|discriminate]. destruct (get v j); cbn [bind] in Es; [|discriminate].
    destruct (upd v i' a0) as [v1|] eqn:E1; cbn [bind] in Es; [|discriminate].
    apply upd_len in E1, Es. congruence.
Qed.

Lemma restore_one_length {A} (dflt : A) n v idx r : restore_one dflt n v idx = Ok r -> length r = n.
Proof.
  unfold restore_one. destruct (Nat.leb (length idx) n && Nat.eqb (length v) n)%bool eqn:C; [|discriminate].
  apply andb_prop in C. destruct C as [C1 C2]. apply Nat.leb_le in C1. apply Nat.eqb_eq in C2.
  intros H. apply swap_loop_length in H. rewrite H, app_length, firstn_length, repeat_length. lia.
Qed.

Lemma unscale_and_restore_lengths j sv it o :
  unscale_and_restore j sv it = Ok o ->
  o_nu o = unscale_dual_ineq (sv_pc sv) (nu it) /\ length (o_nu_lb o) = d_n (sv_data sv) /\ length (o_nu_ub o) = d_n (sv_data sv).
Proof.
  unfold unscale_and_restore. cbv zeta. intros H.
  do 4 (match type of H with bind ?e _ = _ => destruct e; cbn [bind] in H; [|discriminate] end).
  match type of H with bind ?e _ = _ => destruct e as [nulb|] eqn:E5; cbn [bind] in H; [|discriminate] end.
  match type of H with bind ?e _ = _ => destruct e as [nuub|] eqn:E6; cbn [bind] in H; [|discriminate] end.
  injection H as <-. cbn. apply restore_one_length in E5, E6. auto.
Qed.

Theorem solve_wf K n p m j cp_bits fault sv sv' stt :
  WFd n p m sv -> solve K j cp_bits fault sv = Ok (sv', stt) -> WFd n p m sv'.
Proof.
  intros (HW & Hn & Hp & Hm) E. pose proof (WFsv_SolveShape _ HW) as (HD & HP & HO & HKs).
  destruct HW as (W & WP & I & Nlb & Nub & O1 & O2 & O3 & HK).
  revert E. cbv delta [solve]. cbv beta zeta.
  set (S := sv_set sv) in *. set (d := sv_data sv) in *. set (pc := sv_pc sv) in *.
  match goal with |- bind ?e1 _ = _ -> _ => set (E1 := e1) end.
  pose proof (entry_iterate_shape d (sv_out sv) HO) as HI0.
  assert (U1 : forall st1, E1 = Ok st1 ->
            st_it st1 = entry_iterate d (sv_out sv) /\ KShape d (st_kkt st1) /\ i_iter (st_inf st1) = 0%Z).
  { subst E1. intros st1 E. destruct (sv_kkt_init_state sv).
    - injection E as <-. cbn. auto.
    - apply do_update_scalings_keeps in E. cbn in E. destruct E as (B1 & B2 & _ & B4).
      rewrite B1, B2. cbn. auto. }
  clearbody E1. destruct E1 as [st1|]; cbn [bind]; [|discriminate]. destruct (U1 st1 eq_refl) as (V1 & V2 & V3).
  destruct (init_factor K S d fault (init_fuel S) st1) as [[st2 ok]|] eqn:Est2; cbn [bind]; [|discriminate].
  destruct (init_factor_shape K S d fault _ _ _ _ Est2 ltac:(rewrite V1; exact HI0) V2) as (W1 & W2 & W3).
  assert (Fin : forall st it,
     ItShape d it ->
     (do out <- unscale_and_restore j sv it ;;
      Ok (sv <| sv_kkt := st_kkt st |> <| sv_kkt_init_state := false |> <| sv_refine := st_refine st |>
             <| sv_info := st_inf st |> <| sv_out := out |> <| sv_calls := st_calls st |>, i_status (st_inf st)))
      = Ok (sv', stt) -> WFd n p m sv').
  { intros st it HI H. destruct (unscale_and_restore j sv it) as [out|] eqn:Eo; cbn [bind] in H; [|discriminate].
    injection H as <- _. apply unscale_and_restore_lengths in Eo. destruct Eo as (L1 & L2 & L3).
    split; [|cbn; auto]. unfold WFsv. cbn. fold d pc.
    split; [exact W|]. split; [exact WP|]. split; [exact I|]. split; [exact Nlb|]. split; [exact Nub|].
    split; [|split; [exact L2|split; [exact L3|discriminate]]].
    rewrite L1. destruct HI as (_ & _ & I3 & _). destruct WP as (WL & En & Ep & Em). destruct WL.
    unfold unscale_dual_ineq, dz_, tail_from, vmul. rewrite vmap2_length, vscale_length, skipn_length, I3.
    fold pc. rewrite wfp_d. fold d in En, Ep, Em. lia. }
  destruct ok; cbn [negb]; cbv iota.
  - destruct (initial_point K S d (round_cp cp_bits) _) as [st3|] eqn:Est3; cbn [bind]; [|discriminate].
    pose proof (initial_point_shape K S d (round_cp cp_bits) HD _ _ Est3 W2) as X1.
    pose proof (initial_point_iter K S d (round_cp cp_bits) _ _ Est3) as X2. cbn in X2.
    destruct (main_loop K S d pc fault (round_cp cp_bits) (loop_fuel S) st3) as [st4|] eqn:Est4; cbn [bind]; [|discriminate].
    apply Fin.
    eapply (main_loop_shape K S d pc fault (round_cp cp_bits) HD); [|exact Est4].
    split; [exact X1|left]. rewrite X2, W3. exact V3.
  - apply Fin. rewrite W1, V1. exact HI0.
Qed.
