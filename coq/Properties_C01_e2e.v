(* Properties_C01_e2e.v -- C01 at full strength on the model of the dense API, and C04-T4:
   setup() establishes, every accepted update() preserves, ResidSpec.scaled_problem for the EFFECTIVE user problem;
   hence after setup and ANY accepted history of update / solve calls, a solve() that returns SOLVED returns vectors
   that satisfy the certificate of the effective user problem (= the user's current data on F7-free histories),
   for every fault oracle and every checkpoint precision.  Proofs: EndToEndProofs.v.
   Vocabulary (EndToEndProofs.v unless stated):
     upd_user K U B        the effective problem after a call with blocks B on top of the effective problem U
                           (P: upper triangle; a row of G with infinite h_k is the zero row with h_k = 1, i.e. the vacuous
                           constraint 0*x + s_k = 1, s_k >= 0; blocks not passed keep their EFFECTIVE value: F7 / F7b)
     eff_user K B          = upd_user K zero_user B, the effective problem of a setup() call;  eff_lbi / eff_ubi: the
                           indices pack_lb / pack_ub keep;  hist_user / hist_lbi / hist_ubi: folded along a history
     merge_blocks cur B    the blocks the user passed most recently;  hist_blocks: folded along a history
     F7_free K m cur B     G and h passed together, or neither, or h alone with every disabled row staying disabled,
                           or G alone with no row disabled;  hist_F7_free: every update of the history is
     e2e_inv U sv          wf_solver sv (ShapesProofs) /\ scaled_problem U (sv_data sv) (sv_pc sv) (ResidSpec) /\
                           box scalings 1 beyond the packed prefix /\ PrecondProofs.pc_inverse (sv_pc sv) /\
                           identity preconditioner state untouched
     rep U d0              the unscaled data d0 store U entry by entry;  transformed pc d0 d: PrecondProofs.is_transform
                           and bounds_transform with the scalings recorded in pc
     pack_out lbi ubi o    the unscaled point read off the RETURNED vectors (box vectors gathered at lbi / ubi)
     absent_bounds_ok      the box outputs are exactly 0 / +infinity at variables without a bound
     out_positive          every returned inequality / bound multiplier and slack is > 0
     run_sops, sop_ok, setup_blocks_ok, blocks_ok : Shapes.v;  sane_consts : PrecondProofs.v *)
From PIQP Require Import Base Data Bounds PrecondDense KKTDense IPM API.
From PIQP Require Import PrecondProofs Shapes ShapesProofs.
From PIQP Require Import ResidLemmas ResidSpec ResidProofs ResidLoopProofs EndToEndProofs.
Local Open Scope Qc_scope.

(* 2. setup(): Ruiz (ident = false; dense code spc = false, sparse-backend variant spc = true) and identity
      (ident = true) preconditioner *)
Theorem setup_establishes_scaled_problem :
  forall K ident spc junk S n p m B sv,
  sane_consts K -> setup_blocks_ok n p m B ->
  setup K ident spc junk S n p m B = Ok sv ->
  e2e_inv (eff_user K B) sv /\
  d_n (sv_data sv) = n /\ d_p (sv_data sv) = p /\ d_m (sv_data sv) = m /\
  d_lb_idx (sv_data sv) = eff_lbi K B /\ d_ub_idx (sv_data sv) = eff_ubi K B.
Proof. exact setup_establishes_scaled_problem_proof. Qed.
Print Assumptions setup_establishes_scaled_problem.

Theorem setup_scaled_problem :
  forall K ident spc junk S n p m B sv,
  sane_consts K -> setup_blocks_ok n p m B ->
  setup K ident spc junk S n p m B = Ok sv ->
  scaled_problem (eff_user K B) (sv_data sv) (sv_pc sv).
Proof. exact setup_scaled_problem_proof. Qed.
Print Assumptions setup_scaled_problem.

(* 1. which variables carry a bound in the effective problem: exactly the finite entries of the vector passed last *)
Theorem bound_indices_spec :
  forall K old B,
  (forall l, b_lb B = Some l -> forall i,
     In i (upd_lbi K old B) <-> ((i < length l)%nat /\ ext_gt_neg_inf (k_inf K) (nth i l NInf) = true)) /\
  (forall l, b_ub B = Some l -> forall i,
     In i (upd_ubi K old B) <-> ((i < length l)%nat /\ ext_lt_inf (k_inf K) (nth i l PInf) = true)) /\
  (b_lb B = None -> upd_lbi K old B = old) /\ (b_ub B = None -> upd_ubi K old B = old).
Proof. exact bound_indices_spec_proof. Qed.
Print Assumptions bound_indices_spec.

(* 3. update(), both reuse values; the last conjunct is the precise (F7-aware) form *)
Theorem update_preserves_scaled_problem :
  forall K spc U sv B reuse sv',
  sane_consts K -> e2e_inv U sv ->
  blocks_ok (d_n (sv_data sv)) (d_p (sv_data sv)) (d_m (sv_data sv)) B ->
  update K spc sv B reuse = Ok sv' ->
  e2e_inv (upd_user K U B) sv' /\
  same_dims (sv_data sv) (sv_data sv') /\
  d_lb_idx (sv_data sv') = upd_lbi K (d_lb_idx (sv_data sv)) B /\
  d_ub_idx (sv_data sv') = upd_ubi K (d_ub_idx (sv_data sv)) B /\
  exists d0, unscale_data (sv_pc sv) (sv_data sv) = Ok d0 /\ rep U d0 /\
             rep (upd_user K U B) (all_steps K B d0) /\ transformed (sv_pc sv') (all_steps K B d0) (sv_data sv').
Proof. exact update_preserves_scaled_problem_proof. Qed.
Print Assumptions update_preserves_scaled_problem.

(* 3, corollary: on an F7-free call the new state stores the user's current data *)
Theorem update_preserves_current_data :
  forall K spc cur sv B reuse sv',
  sane_consts K -> e2e_inv (eff_user K cur) sv ->
  blocks_ok (d_n (sv_data sv)) (d_p (sv_data sv)) (d_m (sv_data sv)) B ->
  F7_free K (d_m (sv_data sv)) cur B ->
  update K spc sv B reuse = Ok sv' ->
  e2e_inv (eff_user K (merge_blocks cur B)) sv'.
Proof. exact update_preserves_current_data_proof. Qed.
Print Assumptions update_preserves_current_data.

(* the invariant along any accepted history *)
Theorem history_keeps_scaled_problem :
  forall K spc junk cp_bits n p m,
  sane_consts K ->
  forall h U sv1 sv,
  e2e_inv U sv1 -> d_n (sv_data sv1) = n -> d_p (sv_data sv1) = p -> d_m (sv_data sv1) = m ->
  Forall (sop_ok n p m) h -> run_sops K spc junk cp_bits sv1 h = Ok sv ->
  e2e_inv (hist_user K U h) sv /\
  d_n (sv_data sv) = n /\ d_p (sv_data sv) = p /\ d_m (sv_data sv) = m /\
  d_lb_idx (sv_data sv) = hist_lbi K (d_lb_idx (sv_data sv1)) h /\
  d_ub_idx (sv_data sv) = hist_ubi K (d_ub_idx (sv_data sv1)) h.
Proof. exact history_invariant. Qed.
Print Assumptions history_keeps_scaled_problem.

(* 4. C01 / C04-T4: effective user problem, any history, any fault oracle, any cp_bits *)
Theorem solve_certifies_user_problem :
  forall K spc junk cp_bits ident S n p m B sv0 h sv fault sv',
  sane_consts K -> setup_blocks_ok n p m B ->
  setup K ident spc junk S n p m B = Ok sv0 ->
  Forall (sop_ok n p m) h -> run_sops K spc junk cp_bits sv0 h = Ok sv ->
  solve K junk cp_bits fault sv = Ok (sv', SOLVED) ->
  let U := hist_user K (eff_user K B) h in
  let lbi := hist_lbi K (eff_lbi K B) h in
  let ubi := hist_ubi K (eff_ubi K B) h in
  let d := sv_data sv in
  let X := pack_out lbi ubi (sv_out sv') in
  d_n d = n /\ d_p d = p /\ d_m d = m /\ d_lb_idx d = lbi /\ d_ub_idx d = ubi /\
  certificate U d (sv_set sv) (k_half K) X /\
  certificate_entrywise U d (sv_set sv) (k_half K) X /\
  absent_bounds_ok n lbi ubi (sv_out sv') /\
  i_primal_obj (sv_info sv') = X_pobj U d X (k_half K) /\
  i_dual_obj (sv_info sv') = X_dobj U d X (k_half K) /\
  i_primal_inf (sv_info sv') = X_primal_inf U d X /\
  i_dual_inf (sv_info sv') = X_dual_inf U d X /\
  i_duality_gap (sv_info sv') = qabs (X_pobj U d X (k_half K) - X_dobj U d X (k_half K)).
Proof. exact solve_certifies_user_problem_proof. Qed.
Print Assumptions solve_certifies_user_problem.

(* 4, corollary: the user's CURRENT data on histories without an F7 / F7b call *)
Theorem solve_certifies_current_data :
  forall K spc junk cp_bits ident S n p m B sv0 h sv fault sv',
  sane_consts K -> setup_blocks_ok n p m B ->
  setup K ident spc junk S n p m B = Ok sv0 ->
  Forall (sop_ok n p m) h -> hist_F7_free K m B h -> run_sops K spc junk cp_bits sv0 h = Ok sv ->
  solve K junk cp_bits fault sv = Ok (sv', SOLVED) ->
  let Bc := hist_blocks B h in
  let U := eff_user K Bc in
  let d := sv_data sv in
  let X := pack_out (eff_lbi K Bc) (eff_ubi K Bc) (sv_out sv') in
  d_n d = n /\ d_p d = p /\ d_m d = m /\ d_lb_idx d = eff_lbi K Bc /\ d_ub_idx d = eff_ubi K Bc /\
  certificate U d (sv_set sv) (k_half K) X /\
  certificate_entrywise U d (sv_set sv) (k_half K) X /\
  absent_bounds_ok n (eff_lbi K Bc) (eff_ubi K Bc) (sv_out sv').
Proof. exact solve_certifies_current_data_proof. Qed.
Print Assumptions solve_certifies_current_data.

(* signs (C08 + unscale_keeps_sign): all returned multipliers and slacks are strictly positive *)
Theorem solve_returns_positive :
  forall K spc junk cp_bits ident S n p m B sv0 h sv fault sv',
  sane_consts K -> consts_ok K -> setup_blocks_ok n p m B ->
  setup K ident spc junk S n p m B = Ok sv0 ->
  Forall (sop_ok n p m) h -> run_sops K spc junk cp_bits sv0 h = Ok sv ->
  settings_ok S ->
  solve K junk cp_bits fault sv = Ok (sv', SOLVED) ->
  out_positive (sv_data sv) (pack_out (hist_lbi K (eff_lbi K B) h) (hist_ubi K (eff_ubi K B) h) (sv_out sv')).
Proof. exact solve_returns_positive_proof. Qed.
Print Assumptions solve_returns_positive.

(* ---- non-vacuity: setup (one row disabled by h = +inf) -> update (G and h together, new upper bound, reuse) -> solve,
        Ruiz with cost scaling (c = 1/16, dx = 1/4, dlb = 4), constants regenerated from the sources ---- *)
Example ex_e2e_hypotheses :
  sane_consts e2e_K /\ consts_ok e2e_K /\ settings_ok e2e_S /\
  setup_blocks_ok 1 0 1 e2e_B0 /\ Forall (sop_ok 1 0 1) e2e_h /\ hist_F7_free e2e_K 1 e2e_B0 e2e_h.
Proof. exact ex_e2e_hypotheses_proof. Qed.
Example ex_e2e_run :
  exists sv0 sv sv',
    setup e2e_K false false 0 e2e_S 1 0 1 e2e_B0 = Ok sv0 /\
    run_sops e2e_K false 0 8 sv0 e2e_h = Ok sv /\
    solve e2e_K 0 8 (fun _ => false) sv = Ok (sv', SOLVED) /\
    pc_c (sv_pc sv) <> 1 /\ el (pc_delta (sv_pc sv)) 0 <> 1 /\ el (pc_delta_lb (sv_pc sv)) 0 <> 1 /\
    el (o_x (sv_out sv')) 0 <> 0.
Proof. exact ex_e2e_run_proof. Qed.
Example ex_e2e_certified :
  exists sv sv',
    solve e2e_K 0 8 (fun _ => false) sv = Ok (sv', SOLVED) /\
    let Bc := merge_blocks e2e_B0 e2e_B1 in
    let X := pack_out (eff_lbi e2e_K Bc) (eff_ubi e2e_K Bc) (sv_out sv') in
    certificate_entrywise (eff_user e2e_K Bc) (sv_data sv) e2e_S (k_half e2e_K) X /\
    absent_bounds_ok 1 (eff_lbi e2e_K Bc) (eff_ubi e2e_K Bc) (sv_out sv') /\
    out_positive (sv_data sv) X.
Proof. exact ex_e2e_certified_proof. Qed.
