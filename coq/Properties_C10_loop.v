(* Properties_C10_loop.v -- C10: one pass of the interior-point main loop (solver.hpp, model IPM.loop_pass) depends on the KKT back
   end only through the results of the KKT operations it calls.
   IPMGen.loop_pass_gen is the text of IPM.loop_pass abstracted over the solver state (getters g_xx, setters s_xx), the three KKT
   operations (op_us = update_scalings with the current rho / delta / iterate, op_fac = regularize_and_factorize incl. the call
   counter, op_solve = KKT::solve with the state's refinement flag) and the outcome constructors.
     (1) C10_loop_pass_gen_dense: instantiated with IPM.St and the dense operations of KKTDense.v it IS IPM.loop_pass (equality for
         all inputs, by computation) -- the generic text is pinned to the model the correspondence check runs;
     (2) C10_loop_pass_backend_independent: two instantiations (different state types allowed) started in related states give
         related results, provided the getters agree, the setters preserve the relation and the three KKT operations map related
         states to related results: op_us / op_fac to related states with the same success flag, op_solve to EQUAL steps
         (rel_res: both Ok and related, or both Err).  Refinement flag arbitrary (it is part of the state; op_solve reads it).
         C10_loop_pass_backend_equal: the special case of one state type and pointwise equal operations.
   NOT proved: (3) the discharge of the op_xx hypotheses for a solver state built on the four sparse KKT modes.  The solve part
   is C13_sparse_solve_eq_dense_{full,eq,ineq,all} (Properties_C10_backends.v: convex problem, positive scalings, both
   factorisations succeed, refinement off); missing are a sparse-backed solver state with its update_scalings / factorize
   operations related to kkt_update_scalings / regularize_and_factorize of KKTDense.v, and the agreement of the two success flags
   (dense LLT: all pivots positive; sparse LDL^T: no zero pivot -- equal on convex problems only via quasi-definiteness of the
   KKT matrix, which is not proved here). *)
From PIQP Require Import Base Data Bounds PrecondDense KKTDense IPM IPMGen IPMGenProofs.
From RecordUpdate Require Import RecordSet.
Import RecordSetNotations.

Theorem C10_loop_pass_gen_dense : forall (K : Consts) (S : Settings) (d : Data) (pc : Precond) (fault : nat -> bool) (cp : F -> F) (st : St),
  loop_pass_gen K S d pc cp St Outcome st_it st_inf st_refine st_res
    (fun st v => st <| st_it := v |>) (fun st v => st <| st_inf := v |>) (fun st v => st <| st_refine := v |>) (fun st v => st <| st_res := v |>)
    (do_update_scalings d) (do_factorize S d fault)
    (fun st rx ry rz rz_lb rz_ub rs rs_lb rs_ub => kkt_solve S d (st_kkt st) (st_refine st) rx ry rz rz_lb rz_ub rs rs_lb rs_ub)
    Continue Stop st
  = loop_pass K S d pc fault cp st.
Proof. intros. reflexivity. Qed.
Print Assumptions C10_loop_pass_gen_dense.

Theorem C10_loop_pass_backend_independent :
  forall (K : Consts) (S : Settings) (d : Data) (pc : Precond) (cp : F -> F)
    (ST1 OUT1 : Type) (g_it1 : ST1 -> Iterate) (g_inf1 : ST1 -> Info) (g_refine1 : ST1 -> bool) (g_res1 : ST1 -> Resid)
    (s_it1 : ST1 -> Iterate -> ST1) (s_inf1 : ST1 -> Info -> ST1) (s_refine1 : ST1 -> bool -> ST1) (s_res1 : ST1 -> Resid -> ST1)
    (op_us1 : ST1 -> res ST1) (op_fac1 : ST1 -> res (ST1 * bool))
    (op_solve1 : ST1 -> Vec -> Vec -> Vec -> Vec -> Vec -> Vec -> Vec -> Vec -> res Step) (o_continue1 o_stop1 : ST1 -> OUT1)
    (ST2 OUT2 : Type) (g_it2 : ST2 -> Iterate) (g_inf2 : ST2 -> Info) (g_refine2 : ST2 -> bool) (g_res2 : ST2 -> Resid)
    (s_it2 : ST2 -> Iterate -> ST2) (s_inf2 : ST2 -> Info -> ST2) (s_refine2 : ST2 -> bool -> ST2) (s_res2 : ST2 -> Resid -> ST2)
    (op_us2 : ST2 -> res ST2) (op_fac2 : ST2 -> res (ST2 * bool))
    (op_solve2 : ST2 -> Vec -> Vec -> Vec -> Vec -> Vec -> Vec -> Vec -> Vec -> res Step) (o_continue2 o_stop2 : ST2 -> OUT2)
    (R : ST1 -> ST2 -> Prop) (Ro : OUT1 -> OUT2 -> Prop),
  (forall a b, R a b -> g_it1 a = g_it2 b) -> (forall a b, R a b -> g_inf1 a = g_inf2 b) ->
  (forall a b, R a b -> g_refine1 a = g_refine2 b) -> (forall a b, R a b -> g_res1 a = g_res2 b) ->
  (forall a b v, R a b -> R (s_it1 a v) (s_it2 b v)) -> (forall a b v, R a b -> R (s_inf1 a v) (s_inf2 b v)) ->
  (forall a b v, R a b -> R (s_refine1 a v) (s_refine2 b v)) -> (forall a b v, R a b -> R (s_res1 a v) (s_res2 b v)) ->
  (forall a b, R a b -> rel_res R (op_us1 a) (op_us2 b)) ->
  (forall a b, R a b -> rel_res (fun p q => R (fst p) (fst q) /\ snd p = snd q) (op_fac1 a) (op_fac2 b)) ->
  (forall a b, R a b -> forall rx ry rz rzl rzu rs rsl rsu,
     rel_res eq (op_solve1 a rx ry rz rzl rzu rs rsl rsu) (op_solve2 b rx ry rz rzl rzu rs rsl rsu)) ->
  (forall a b, R a b -> Ro (o_continue1 a) (o_continue2 b)) -> (forall a b, R a b -> Ro (o_stop1 a) (o_stop2 b)) ->
  forall a b, R a b ->
    rel_res Ro
      (loop_pass_gen K S d pc cp ST1 OUT1 g_it1 g_inf1 g_refine1 g_res1 s_it1 s_inf1 s_refine1 s_res1 op_us1 op_fac1 op_solve1 o_continue1 o_stop1 a)
      (loop_pass_gen K S d pc cp ST2 OUT2 g_it2 g_inf2 g_refine2 g_res2 s_it2 s_inf2 s_refine2 s_res2 op_us2 op_fac2 op_solve2 o_continue2 o_stop2 b).
Proof. intros. eapply loop_pass_gen_sim; eauto. Qed.
Print Assumptions C10_loop_pass_backend_independent.

(* what rel_res says *)
Theorem C10_rel_res_spec : forall (A B : Type) (R : A -> B -> Prop) (x : res A) (y : res B),
  rel_res R x y <-> (exists a b, x = Ok a /\ y = Ok b /\ R a b) \/ (exists e1 e2, x = Err e1 /\ y = Err e2).
Proof.
  intros A B R x y. destruct x as [xa|xe], y as [yb|ye]; simpl; split; intros H.
  - left. eauto.
  - destruct H as [(p & q & E1 & E2 & H)|(e1 & e2 & E1 & _)]; [inversion E1; inversion E2; subst; auto|discriminate].
  - contradiction.
  - destruct H as [(p & q & _ & E2 & _)|(e1 & e2 & E1 & _)]; discriminate.
  - contradiction.
  - destruct H as [(p & q & E1 & _)|(e1 & e2 & _ & E2)]; discriminate.
  - right. eauto.
  - exact I.
Qed.
Print Assumptions C10_rel_res_spec.

(* one state type, operations that agree wherever they are defined identically: the pass returns the same outcome *)
Theorem C10_loop_pass_backend_equal :
  forall (K : Consts) (S : Settings) (d : Data) (pc : Precond) (cp : F -> F) (ST OUT : Type)
    (g_it : ST -> Iterate) (g_inf : ST -> Info) (g_refine : ST -> bool) (g_res : ST -> Resid)
    (s_it : ST -> Iterate -> ST) (s_inf : ST -> Info -> ST) (s_refine : ST -> bool -> ST) (s_res : ST -> Resid -> ST)
    (op_us1 op_us2 : ST -> res ST) (op_fac1 op_fac2 : ST -> res (ST * bool))
    (op_solve1 op_solve2 : ST -> Vec -> Vec -> Vec -> Vec -> Vec -> Vec -> Vec -> Vec -> res Step) (o_continue o_stop : ST -> OUT),
  (forall a, op_us1 a = op_us2 a) -> (forall a, op_fac1 a = op_fac2 a) ->
  (forall a rx ry rz rzl rzu rs rsl rsu, op_solve1 a rx ry rz rzl rzu rs rsl rsu = op_solve2 a rx ry rz rzl rzu rs rsl rsu) ->
  forall (a : ST) (o : OUT),
    loop_pass_gen K S d pc cp ST OUT g_it g_inf g_refine g_res s_it s_inf s_refine s_res op_us1 op_fac1 op_solve1 o_continue o_stop a = Ok o ->
    loop_pass_gen K S d pc cp ST OUT g_it g_inf g_refine g_res s_it s_inf s_refine s_res op_us2 op_fac2 op_solve2 o_continue o_stop a = Ok o.
Proof.
  intros K S d pc cp ST OUT g_it g_inf g_refine g_res s_it s_inf s_refine s_res u1 u2 f1 f2 v1 v2 oc os Hu Hf Hv a o H.
  assert (HS := loop_pass_gen_sim K S d pc cp ST OUT g_it g_inf g_refine g_res s_it s_inf s_refine s_res u1 f1 v1 oc os
                  ST OUT g_it g_inf g_refine g_res s_it s_inf s_refine s_res u2 f2 v2 oc os eq eq).
  specialize (HS ltac:(intros; subst; auto) ltac:(intros; subst; auto) ltac:(intros; subst; auto) ltac:(intros; subst; auto)
                 ltac:(intros; subst; auto) ltac:(intros; subst; auto) ltac:(intros; subst; auto) ltac:(intros; subst; auto)).
  specialize (HS ltac:(intros x y <-; rewrite <- Hu; destruct (u1 x); simpl; auto)
                 ltac:(intros x y <-; rewrite <- Hf; destruct (f1 x); simpl; auto)
                 ltac:(intros x y <- **; rewrite <- Hv; apply rel_refl_eq)
                 ltac:(intros; subst; auto) ltac:(intros; subst; auto) a a eq_refl).
  rewrite H in HS. simpl in HS.
  destruct (loop_pass_gen K S d pc cp ST OUT g_it g_inf g_refine g_res s_it s_inf s_refine s_res u2 f2 v2 oc os a); [now subst|contradiction].
Qed.
Print Assumptions C10_loop_pass_backend_equal.

(* non-vacuity of (2) with two DIFFERENT state types: the dense solver state paired with a counter of update_scalings calls
   (operations lifted to the pair) is related to the plain dense state by  a = fst b; hence the wrapped pass agrees with
   IPM.loop_pass for every input *)
Example C10_ex_wrapped_backend : forall (K : Consts) (S : Settings) (d : Data) (pc : Precond) (fault : nat -> bool) (cp : F -> F) (st : St) (n : nat),
  rel_res eq (loop_pass K S d pc fault cp st)
    (loop_pass_gen K S d pc cp (St * nat) Outcome (fun p => st_it (fst p)) (fun p => st_inf (fst p)) (fun p => st_refine (fst p)) (fun p => st_res (fst p))
       (fun p v => (fst p <| st_it := v |>, snd p)) (fun p v => (fst p <| st_inf := v |>, snd p))
       (fun p v => (fst p <| st_refine := v |>, snd p)) (fun p v => (fst p <| st_res := v |>, snd p))
       (fun p => do s <- do_update_scalings d (fst p) ;; Ok (s, Datatypes.S (snd p)))
       (fun p => do '(s, ok) <- do_factorize S d fault (fst p) ;; Ok ((s, snd p), ok))
       (fun p rx ry rz rz_lb rz_ub rs rs_lb rs_ub => kkt_solve S d (st_kkt (fst p)) (st_refine (fst p)) rx ry rz rz_lb rz_ub rs rs_lb rs_ub)
       (fun p => Continue (fst p)) (fun p => Stop (fst p)) (st, n)).
Proof.
  intros K S d pc fault cp st n. rewrite <- C10_loop_pass_gen_dense.
  apply (C10_loop_pass_backend_independent K S d pc cp _ _ _ _ _ _ _ _ _ _ _ _ _ _ _ _ _ _ _ _ _ _ _ _ _ _ _ _ _ _ (fun a b => a = fst b) eq);
    try (intros a [b m] E; simpl in *; subst; reflexivity); try (intros a [b m] v E; simpl in *; subst; reflexivity); try reflexivity.
  - intros a [b m] E. simpl in *. subst. destruct (do_update_scalings d b); simpl; auto.
  - intros a [b m] E. simpl in *. subst. destruct (do_factorize S d fault b) as [[s ok]|]; simpl; auto.
  - intros a [b m] E rx ry rz rzl rzu rs rsl rsu. simpl in *. subst. apply rel_refl_eq.
Qed.
