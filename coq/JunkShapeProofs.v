(* JunkShapeProofs.v -- C07, part D: the lengths of the iterate are an invariant of solve().
   Unlike InteriorProofs.loop_pass_inv this needs no positivity and no hypothesis on the settings: it is what makes
   the padding of the result vectors (the never-written tail beyond n_lb / n_ub) unreadable by restore_box_dual. *)
From PIQP Require Import Base Data Bounds PrecondDense KKTDense IPM InteriorProofs IPMControlProofs.
From Coq Require Import Lia.
From RecordUpdate Require Import RecordSet.
Import RecordSetNotations.
Local Open Scope Qc_scope.

Section Shape.
Variable K : Consts.
Variable S : Settings.
Variable d : Data.
Variable pc : Precond.
Variable fault : nat -> bool.
Variable cp : F -> F.
Hypothesis HD : DataShape d.

Definition Shaped' (st : St) : Prop :=
  ItShape d (st_it st) /\ (i_iter (st_inf st) = 0%Z \/ ResShape d (st_res st)).

Lemma leaf' (X : St) it res :
  st_it X = it -> st_res X = res -> ItShape d it -> ResShape d res -> Shaped' X.
Proof. intros <- <- H1 H2. split; [exact H1|right; exact H2]. Qed.

Lemma ItShape_SZ it : ItShape d it -> SZShape d it.
Proof. intros (I1 & I2 & I3 & I4 & I5 & I6 & I7 & I8 & I9). repeat split; assumption. Qed.

Lemma shift3_shape (b1 b2 b3 : bool) e it :
  ItShape d it ->
  ItShape d (it <| z := if b1 then vaddc e (z it) else z it |>
                <| z_lb := if b2 then vaddc e (z_lb it) else z_lb it |>
                <| z_ub := if b3 then vaddc e (z_ub it) else z_ub it |>).
Proof.
  unfold ItShape. cbn. intros (I1 & I2 & I3 & I4 & I5 & I6 & I7 & I8 & I9).
  rewrite !shift_block_length. repeat split; auto.
Qed.

Lemma cp_xy_shape it vx vy :
  ItShape d it -> ItShape d (cp_iterate cp (it <| x := vx |> <| y := vy |>)).
Proof. unfold ItShape, cp_iterate. cbn. rewrite !map_length. auto. Qed.

Lemma loop_pass_shape st :
  Shaped' st -> wp (loop_pass K S d pc fault cp st) (fun o => Shaped' (outcome_state o)).
Proof.
  intros [Ish HS3]. cbv delta [loop_pass]. cbv beta.
  wp_let inf0.
  wp_bind_as v0 E0. wp_pair v0 res0 inf0a.
  assert (R0 : ResShape d res0).
  { subst inf0. destruct (i_iter (st_inf st) =? 0)%Z eqn:Ei.
    - eapply unr_shape; eauto.
    - injection E0 as <- <-. destruct HS3 as [HS3|HS3]; [|exact HS3]. apply Z.eqb_neq in Ei. contradiction. }
  clear E0.
  wp_let inf1. clearbody inf1.
  wp_let st1.
  assert (S1it : st_it st1 = st_it st) by reflexivity.
  assert (S1res : st_res st1 = res0) by reflexivity.
  clearbody st1.
  wp_if C1.
  { wp_ret. apply (leaf' _ (st_it st) res0); auto. }
  wp_let it. assert (Eit : it = st_it st) by exact S1it. clearbody it. subst it.
  wp_let rx. clearbody rx.
  wp_let ry. clearbody ry.
  destruct R0 as (R1 & R2 & R3). pose proof Ish as (I1 & I2 & I3 & I4 & I5 & I6 & I7 & I8 & I9).
  wp_let rz. assert (Lrz : length rz = d_m d) by (subst rz; len_solve).
  clearbody rz.
  wp_let rz_lb. assert (Lrzlb : length rz_lb = d_nlb d) by (subst rz_lb; len_solve).
  clearbody rz_lb.
  wp_let rz_ub. assert (Lrzub : length rz_ub = d_nub d) by (subst rz_ub; len_solve).
  clearbody rz_ub.
  assert (R0 : ResShape d res0) by (repeat split; assumption).
  clear I1 I2 I3 I4 I5 I6 I7 I8 I9 R1 R2 R3.
  wp_if C2.
  { wp_ret. apply (leaf' _ (st_it st) res0); auto. }
  wp_if C3.
  { wp_ret. apply (leaf' _ (st_it st) res0); auto. }
  clear C1 C2 C3.
  wp_let inf2. clearbody inf2.
  wp_let lt_eps'. wp_let sh_z. wp_let sh_lb. wp_let sh_ub.
  wp_let it3.
  clearbody sh_z sh_lb sh_ub. clear lt_eps'.
  assert (I3' : ItShape d it3) by (apply shift3_shape; exact Ish).
  clearbody it3.
  wp_bind_as inf3 E3. clear E3.
  wp_let inf4. clearbody inf4.
  wp_bind_as st4 E4.
  apply do_update_scalings_keeps in E4. cbn [st_it st_inf st_res] in E4.
  destruct E4 as (S4it & S4inf & S4res & S4k).
  change (st_it (st1 <| st_it := it3 |> <| st_inf := inf4 |>)) with it3 in *.
  change (st_inf (st1 <| st_it := it3 |> <| st_inf := inf4 |>)) with inf4 in *.
  change (st_res (st1 <| st_it := it3 |> <| st_inf := inf4 |>)) with (st_res st1) in *.
  rewrite S1res in S4res.
  wp_bind_as v5 E5. wp_pair v5 st5 ok.
  apply do_factorize_keeps in E5. destruct E5 as (S5it & S5inf & S5res & S5k).
  rewrite S4it in S5it. rewrite S4res in S5res.
  assert (K5 : KShape d (st_kkt st5)) by auto.
  clear S4it S4inf S4res S4k S5k S5inf st4.
  wp_if Cok.
  { wp_if Cref.
    { wp_ret. apply (leaf' _ it3 res0); auto. }
    wp_if Cret.
    { wp_let inf5. wp_ret. apply (leaf' _ it3 res0); auto. }
    wp_ret. apply (leaf' _ it3 res0); auto. }
  wp_let inf6. clearbody inf6.
  wp_let kk. assert (Kkk : KShape d kk) by exact K5. clearbody kk.
  pose proof I3' as (I1 & I2 & I3 & I4 & I5 & I6 & I7 & I8 & I9).
  wp_if CN.
  - wp_let rs. assert (Lrs : length rs = d_m d) by (subst rs; len_solve).
    wp_let rs_lb. assert (Lrslb : length rs_lb = d_nlb d) by (subst rs_lb; len_solve).
    wp_let rs_ub. assert (Lrsub : length rs_ub = d_nub d) by (subst rs_ub; len_solve).
    clearbody rs rs_lb rs_ub.
    wp_bind_as p Ep.
    assert (Shp : StepShape d p) by (eapply kkt_solve_shape; eauto).
    clear Ep.
    wp_bind_as v1 Esl1. wp_pair v1 a_s0 a_z0. clear Esl1.
    wp_let a_s. wp_let a_z. wp_let sig0. clearbody sig0. clearbody a_s a_z.
    wp_bind_as sig1 Esig. clear Esig.
    wp_let sg2. wp_let sigma. wp_let sm. clearbody sm. clearbody sigma. clearbody sg2.
    destruct Shp as (C1 & C2 & C3 & C4 & C5 & C6).
    wp_let rs'. assert (Lrs' : length rs' = d_m d) by (subst rs'; len_solve).
    wp_let rs_lb'. assert (Lrslb' : length rs_lb' = d_nlb d) by (subst rs_lb'; len_solve).
    wp_let rs_ub'. assert (Lrsub' : length rs_ub' = d_nub d) by (subst rs_ub'; len_solve).
    clearbody rs' rs_lb' rs_ub'. clear Lrs Lrslb Lrsub C1 C2 C3 C4 C5 C6.
    wp_bind_as c Ec.
    assert (Shc : StepShape d c) by (eapply kkt_solve_shape; eauto).
    clear Ec.
    wp_bind_as v2 Esl2. wp_pair v2 b_s0 b_z0.
    wp_let ps. wp_let ds_. wp_let it4.
    assert (I4' : ItShape d it4) by exact (step_update_shape d cp it3 c ps ds_ I3' Shc).
    clearbody it4.
    wp_let mu_prev.
    wp_bind_as mu Emu. clear Emu.
    wp_bind_as rate0 Erate. clear Erate.
    wp_let mu_rate. clearbody mu_rate.
    wp_let inf7. clearbody inf7.
    wp_bind_as v3 Eunr. wp_pair v3 res1 inf8.
    assert (R1' : ResShape d res1) by (eapply unr_shape; eauto).
    clear Eunr.
    wp_let good_d. clearbody good_d.
    wp_let it5.
    destruct (it_zeta_facts d good_d it4 (x it4)) as (_ & I5' & _). cbv zeta in I5'. fold it5 in I5'.
    specialize (I5' I4'). clearbody it5.
    wp_let inf9. clearbody inf9.
    wp_let good_p. clearbody good_p.
    wp_let it6.
    destruct (it_nu_facts d good_p it5 (y it5)) as (_ & I6'). cbv zeta in I6'. fold it6 in I6'.
    specialize (I6' I5'). clearbody it6.
    wp_let inf10. clearbody inf10.
    wp_ret. apply (leaf' _ it6 res1); auto.
  - wp_bind_as c Ec. clear Ec.
    wp_let it4.
    assert (I4' : ItShape d it4) by (apply cp_xy_shape; exact I3').
    clearbody it4.
    wp_let inf7. clearbody inf7.
    wp_bind_as v3 Eunr. wp_pair v3 res1 inf8.
    assert (R1' : ResShape d res1) by (eapply unr_shape; eauto).
    clear Eunr.
    wp_let good_d. clearbody good_d.
    wp_let it5.
    destruct (it_zeta_facts d good_d it4 (x it4)) as (_ & I5' & _). cbv zeta in I5'. fold it5 in I5'.
    specialize (I5' I4'). clearbody it5.
    wp_let inf9. clearbody inf9.
    wp_let good_p. clearbody good_p.
    wp_let it6.
    destruct (it_lambda_facts d good_p it5 (y it5)) as (_ & I6'). cbv zeta in I6'. fold it6 in I6'.
    specialize (I6' I5'). clearbody it6.
    wp_let inf10. clearbody inf10.
    wp_ret. apply (leaf' _ it6 res1); auto.
Qed.

Lemma main_loop_shape fuel : forall st st',
  Shaped' st -> main_loop K S d pc fault cp fuel st = Ok st' -> ItShape d (st_it st').
Proof.
  induction fuel as [|f IH]; intros st st' HI E; cbn [main_loop] in E; [discriminate|].
  destruct (i_iter (st_inf st) <? max_iter S)%Z.
  - destruct (loop_pass K S d pc fault cp st) as [o|] eqn:E0; cbn [bind] in E; [|discriminate].
    pose proof (wp_elim _ _ _ (loop_pass_shape st HI) E0) as HI'.
    destruct o as [st1|st1]; cbn [outcome_state] in HI'.
    + eapply IH; eauto.
    + injection E as <-. apply HI'.
  - injection E as <-. cbn. apply HI.
Qed.

(* the initial factorisation loop keeps the iterate and the shape of the KKT object *)
Lemma init_factor_shape fuel : forall st st' ok,
  init_factor K S d fault fuel st = Ok (st', ok) -> ItShape d (st_it st) -> KShape d (st_kkt st) ->
  st_it st' = st_it st /\ KShape d (st_kkt st') /\ i_iter (st_inf st') = i_iter (st_inf st).
Proof.
  induction fuel as [|f IH]; intros st st' ok H HI HK; cbn [init_factor] in H; [discriminate|].
  destruct (do_factorize S d fault st) as [[st1 ok1]|] eqn:E; cbn [bind] in H; [|discriminate].
  apply do_factorize_keeps in E. destruct E as (A1 & A2 & A3 & A4). specialize (A4 HK).
  destruct ok1.
  - injection H as <- <-. rewrite A2. auto.
  - destruct (negb (st_refine st1)).
    + apply IH in H; cbn; try rewrite A1; auto.
      cbn in H. rewrite A1, A2 in H. exact H.
    + destruct (i_factor_retires (st_inf st1) <? max_factor_retires S)%Z.
      * destruct (do_update_scalings d (st1 <| st_inf := bump_reg K S (st_inf st1) |>)) as [st2|] eqn:E2;
          cbn [bind] in H; [|discriminate].
        apply do_update_scalings_keeps in E2. cbn in E2. destruct E2 as (B1 & B2 & B3 & B4).
        rewrite A1 in B4. specialize (B4 HI).
        apply IH in H; try rewrite B1; try rewrite A1; auto.
        rewrite B1, B2, A1 in H. destruct H as (D1 & D2 & D3).
        split; [exact D1|]. split; [exact D2|]. rewrite D3. unfold bump_reg. cbn. rewrite A2. reflexivity.
      * injection H as <- <-. cbn. rewrite A2. auto.
Qed.

(* the initial point has the problem's dimensions whatever the KKT solve returned *)
Lemma initial_point_shape st st' :
  initial_point K S d cp st = Ok st' -> KShape d (st_kkt st) -> ItShape d (st_it st').
Proof.
  intros E HK. revert E. cbv delta [initial_point]. cbv beta. intros E.
  destruct HD as [D1 D2 D3 D4 D5 D6].
  cbv zeta in E.
  match type of E with bind ?e _ = _ => destruct e as [stp|] eqn:Es; cbn [bind] in E; [|discriminate] end.
  assert (Shp : StepShape d stp).
  { eapply kkt_solve_shape; eauto; try apply vconst_length. }
  destruct Shp as (C1 & C2 & C3 & C4 & C5 & C6).
  match type of E with bind ?e _ = _ => destruct e as [[it1 inf1]|] eqn:E1; cbn [bind] in E; [|discriminate] end.
  injection E as <-. cbn [st_it].
  assert (H1 : SZShape d it1).
  { destruct (Nat.ltb 0 (nineq d)).
    - match type of E1 with context [if ?c then _ else _] => destruct c end.
      + repeat match type of E1 with bind ?e _ = _ => destruct e; cbn [bind] in E1; [|discriminate] end.
        injection E1 as <- _. unfold SZShape. cbn. rewrite !vaddc_length, !vconst_length. repeat split.
      + repeat match type of E1 with bind ?e _ = _ => destruct e; cbn [bind] in E1; [|discriminate] end.
        injection E1 as <- _. unfold SZShape, cp_iterate. cbn. rewrite !vaddc_length, !map_length. repeat split; assumption.
    - injection E1 as <- _. unfold SZShape, cp_iterate. cbn. rewrite !map_length. repeat split; assumption. }
  destruct H1 as (I1 & I2 & I4 & I5 & I7 & I8). unfold ItShape. cbn. repeat split; assumption.
Qed.

Lemma initial_point_iter st st' :
  initial_point K S d cp st = Ok st' -> i_iter (st_inf st') = i_iter (st_inf st).
Proof. intros E. apply initial_point_ctl in E. apply E. Qed.

End Shape.
