(* CertsPartial.v -- the heuristic half of property C03, STATED ONLY (no proof is known).
   "solve() never reports PRIMAL_INFEASIBLE / DUAL_INFEASIBLE for a problem that has an optimal solution":
   for every problem that carries a machine-checked optimality certificate (exact KKT point + exact PSD test, see
   CertsProofs.kkt_point_is_optimal_proof), every accepted setting and either preconditioner, the executable model of
   setup();solve() (API.v, exact arithmetic, no injected factorisation faults, checkpoint rounding off) does not end with
   an infeasibility verdict.  The detection rule (counter of rejected proximal updates, prox distance > 1e12, small
   regularised residual) is a heuristic: this statement is decided by exploration against the verified labels
   (tools/props/c03.py), not by proof.  It is a [Definition] of a [Prop]; nothing depends on it. *)
From PIQP Require Import Base Data API Certs.
From PIQP.gen Require Import Consts.
Local Open Scope Qc_scope.

Definition ext_lb (o : option F) : ext := match o with Some l => Fin l | None => NInf end.
Definition ext_ub (o : option F) : ext := match o with Some u => Fin u | None => PInf end.

(* the blocks handed to setup(): dense, column-major; P is passed with its full symmetric completion *)
Definition blocks_of (pb : QP) : Blocks :=
  let n := q_n pb in let p := q_p pb in let m := q_m pb in
  {| b_P := Some (mbuild n n (Ps pb));
     b_c := Some (map (ce pb) (seq 0 n));
     b_A := Some (mbuild p n (Ae pb));
     b_b := Some (map (be pb) (seq 0 p));
     b_G := Some (mbuild m n (Ge pb));
     b_h := Some (map (fun k => Fin (he pb k)) (seq 0 m));
     b_lb := Some (map (fun j => ext_lb (lbe pb j)) (seq 0 n));
     b_ub := Some (map (fun j => ext_ub (ube pb j)) (seq 0 n)) |}.

Definition model_verdict (S : Settings) (ident : bool) (pb : QP) (st : Status) : Prop :=
  exists junk sv sv',
    setup consts ident false junk S (q_n pb) (q_p pb) (q_m pb) (blocks_of pb) = Ok sv /\
    solve consts junk 0%Z (fun _ => false) sv = Ok (sv', st).

Definition has_optimality_certificate (pb : QP) : Prop :=
  exists x y z zl zu, is_kkt_point pb x y z zl zu = true /\ is_psd pb = true.

(* NOT PROVED.  Stated for the record; explored, not proved. *)
Definition no_false_infeasible_partial : Prop :=
  forall (S : Settings) (ident : bool) (pb : QP) (st : Status),
    verify_settings S = true -> has_optimality_certificate pb -> model_verdict S ident pb st ->
    st <> PRIMAL_INFEASIBLE /\ st <> DUAL_INFEASIBLE.
