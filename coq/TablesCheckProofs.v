(** Soundness of the table checker: what [chk_... t = true] means as a proposition. *)
From Coq Require Import String List ZArith Bool.
From PIQP Require Import TablesDef TablesCheck.
Import ListNotations.
Open Scope string_scope.

(* ------------------------------------------------------------------ basic list facts *)
Lemma memb_In : forall s l, memb s l = true <-> In s l.
Proof.
  induction l as [|x r IH]; simpl.
  - split; [discriminate | tauto].
  - destruct (String.eqb s x) eqn:E.
    + apply String.eqb_eq in E. subst. tauto.
    + apply String.eqb_neq in E. rewrite IH. split; [tauto|]. intros [H|H]; [congruence|exact H].
Qed.

Lemma nodupb_NoDup : forall l, nodupb l = true -> NoDup l.
Proof.
  induction l as [|x r IH]; simpl; intro H.
  - constructor.
  - apply andb_true_iff in H. destruct H as [H1 H2]. constructor.
    + intro Hin. apply memb_In in Hin. rewrite Hin in H1. discriminate.
    + auto.
Qed.

Lemma subsetb_incl : forall a b, subsetb a b = true -> forall x, In x a -> In x b.
Proof.
  unfold subsetb. intros a b H x Hx. rewrite forallb_forall in H. apply memb_In. auto.
Qed.

Lemma same_set_sound : forall a b, same_set a b = true -> SameNames a b.
Proof.
  unfold same_set, SameNames. intros a b H.
  repeat (apply andb_true_iff in H; destruct H as [H ?]).
  repeat split; auto using nodupb_NoDup; eauto using subsetb_incl.
Qed.

Lemma pair_memb_In : forall e c l, pair_memb e c l = true <-> In (e, c) l.
Proof.
  unfold pair_memb. intros e c l. rewrite existsb_exists. split.
  - intros [[a b] [Hin H]]. simpl in H. apply andb_true_iff in H. destruct H as [H1 H2].
    apply String.eqb_eq in H1. apply String.eqb_eq in H2. subst. exact Hin.
  - intro Hin. exists (e, c). split; [exact Hin|]. simpl. now rewrite !String.eqb_refl.
Qed.

Lemma NoDup_map_inj : forall (A B : Type) (f : A -> B) (l : list A),
  NoDup (map f l) -> forall x y, In x l -> In y l -> f x = f y -> x = y.
Proof.
  induction l as [|a r IH]; simpl; intros Hnd x y Hx Hy Hf; [contradiction|].
  inversion Hnd as [|? ? Hnotin Hnd']; subst.
  destruct Hx as [Hx|Hx]; destruct Hy as [Hy|Hy]; subst; auto.
  - exfalso. apply Hnotin. rewrite Hf. now apply in_map.
  - exfalso. apply Hnotin. rewrite <- Hf. now apply in_map.
Qed.

Lemma in_diag : forall e c l, In (e, c) (diag l) <-> e = c /\ In c l.
Proof.
  unfold diag. intros e c l. rewrite in_map_iff. split.
  - intros [f [Hf Hin]]. inversion Hf; subst. auto.
  - intros [-> Hin]. exists c. auto.
Qed.

Lemma map_fst_diag : forall l, map fst (diag l) = l.
Proof. unfold diag. intro l. rewrite map_map. simpl. apply map_id. Qed.

(* ------------------------------------------------------------------ wires *)
Lemma wires_ok_sound : forall exp ws, wires_ok exp ws = true -> Wired exp ws.
Proof.
  unfold wires_ok, Wired. intros exp ws H.
  apply andb_true_iff in H. destruct H as [Hall Hset].
  rewrite forallb_forall in Hall.
  apply same_set_sound in Hset. destruct Hset as [Hnd1 [Hnd2 Heq]].
  split.
  - intros w Hw. apply pair_memb_In. auto.
  - intros e c Hec.
    assert (He : In e (map w_ext ws)).
    { apply Heq. change e with (fst (e, c)). now apply in_map. }
    apply in_map_iff in He. destruct He as [w [Hwe Hw]].
    exists w. repeat split; auto.
    + assert (Hp : In (w_ext w, w_core w) exp) by (apply pair_memb_In; auto).
      rewrite Hwe in Hp.
      assert (Heqp : (e, w_core w) = (e, c)).
      { apply (NoDup_map_inj _ _ fst exp Hnd2); auto. }
      now inversion Heqp.
    + intros w' Hw' Hwe'. apply (NoDup_map_inj _ _ w_ext ws Hnd1); auto. congruence.
Qed.

Lemma wires_diag_sound : forall core ws, wires_diag core ws = true -> WiredDiag core ws.
Proof.
  unfold wires_diag, WiredDiag. intros core ws H. apply wires_ok_sound in H. destruct H as [H1 H2]. split.
  - intros w Hw. specialize (H1 w Hw). apply in_diag in H1. exact H1.
  - intros f Hf.
    destruct (H2 f f) as [w [Hw [He [Hc Hu]]]]; [apply in_diag; auto|].
    exists w. split; [auto|].
    intros w' [Hw' [He' _]]. symmetry. auto.
Qed.

(** consequence: a core field is never touched by two different assignments, whichever side one looks at *)
Lemma WiredDiag_once : forall core ws, WiredDiag core ws ->
  forall w1 w2, In w1 ws -> In w2 ws -> (w_ext w1 = w_ext w2 \/ w_core w1 = w_core w2) -> w1 = w2.
Proof.
  intros core ws [H1 H2] w1 w2 Hw1 Hw2 Hor.
  destruct (H1 w1 Hw1) as [E1 C1]. destruct (H1 w2 Hw2) as [E2 C2].
  assert (Hc : w_core w1 = w_core w2) by (destruct Hor; congruence).
  destruct (H2 (w_core w1) C1) as [w [_ Hu]].
  rewrite <- (Hu w1), <- (Hu w2); auto; repeat split; auto; congruence.
Qed.

Lemma conv_ok_sound : forall tyconv core ws, conv_ok tyconv core ws = true -> ConvAllowed tyconv core ws.
Proof.
  unfold conv_ok, ConvAllowed. intros tyconv core ws H w Hw.
  rewrite forallb_forall in H. specialize (H w Hw). rewrite existsb_exists in H.
  destruct H as [c [Hc H]]. apply andb_true_iff in H. destruct H as [Hn Hp].
  apply String.eqb_eq in Hn. apply pair_memb_In in Hp. eauto.
Qed.

Lemma status_text_ok_sound : forall ws, status_text_ok ws = true -> StatusText ws.
Proof.
  unfold status_text_ok, StatusText. intros ws H w Hw. rewrite forallb_forall in H. specialize (H w Hw).
  apply Bool.eqb_prop in H. rewrite <- !String.eqb_eq. rewrite H. tauto.
Qed.

(* ------------------------------------------------------------------ declarations, enums, defaults *)
Lemma decl_ok_sound : forall tymap core decl, decl_ok tymap core decl = true -> Declared tymap core decl.
Proof.
  unfold decl_ok, Declared. intros tymap core decl H. apply andb_true_iff in H. destruct H as [Hs Hall].
  split; [now apply same_set_sound|].
  intros c Hc. rewrite forallb_forall in Hall. specialize (Hall c Hc). rewrite existsb_exists in Hall.
  destruct Hall as [d [Hd H]]. apply andb_true_iff in H. destruct H as [Hn Hp].
  apply String.eqb_eq in Hn. apply pair_memb_In in Hp. eauto.
Qed.

Lemma enum_eq_sound : forall a b, enum_eq a b = true -> SameEnum a b.
Proof.
  unfold enum_eq, SameEnum. intros a b H. apply andb_true_iff in H. destruct H as [Hs Hall].
  apply same_set_sound in Hs. split; [exact Hs|].
  destruct Hs as [Hnda [Hndb Heq]]. rewrite forallb_forall in Hall.
  assert (Hfwd : forall x, In x a -> exists y, In y b /\ e_name y = e_name x /\ e_val y = e_val x).
  { intros x Hx. specialize (Hall x Hx). rewrite existsb_exists in Hall. destruct Hall as [y [Hy H]].
    apply andb_true_iff in H. destruct H as [Hn Hv]. apply String.eqb_eq in Hn. apply Z.eqb_eq in Hv. eauto. }
  intros n v. split.
  - intros [x [Hx [Hn Hv]]]. destruct (Hfwd x Hx) as [y [Hy [Hn' Hv']]]. exists y. repeat split; congruence.
  - intros [y [Hy [Hn Hv]]].
    assert (Hin : In n (map e_name a)). { apply Heq. rewrite <- Hn. now apply in_map. }
    apply in_map_iff in Hin. destruct Hin as [x [Hxn Hx]].
    destruct (Hfwd x Hx) as [y' [Hy' [Hn' Hv']]].
    assert (y' = y). { apply (NoDup_map_inj _ _ e_name b Hndb); auto. congruence. }
    subst y'. exists x. repeat split; congruence.
Qed.

Lemma dval_eqb_eq : forall a b, dval_eqb a b = true -> a = b /\ a <> DNone.
Proof.
  intros a0 b0. destruct a0 as [x|n d| | |s], b0 as [x'|n' d'| | |s']; simpl; intro H; try discriminate.
  - apply Bool.eqb_prop in H. subst. split; [reflexivity|discriminate].
  - apply andb_true_iff in H. destruct H as [H1 H2]. apply Z.eqb_eq in H1. apply Pos.eqb_eq in H2. subst.
    split; [reflexivity|discriminate].
  - split; [reflexivity|discriminate].
  - apply String.eqb_eq in H. subst. split; [reflexivity|discriminate].
Qed.

Lemma defaults_eq_sound : forall core docs, defaults_eq core docs = true -> SameDefaults core docs.
Proof.
  unfold defaults_eq, SameDefaults. intros core docs H. apply andb_true_iff in H. destruct H as [Hs Hall].
  split; [now apply same_set_sound|].
  intros c Hc. rewrite forallb_forall in Hall. specialize (Hall c Hc). rewrite existsb_exists in Hall.
  destruct Hall as [d [Hd H]]. apply andb_true_iff in H. destruct H as [Hn Hv].
  apply String.eqb_eq in Hn. apply dval_eqb_eq in Hv. destruct Hv as [Hv Hnn].
  exists d. repeat split; auto.
Qed.

(* ------------------------------------------------------------------ named sub-checks *)
Ltac split_and H :=
  repeat match type of H with
         | (_ && _)%bool = true => let H2 := fresh "H" in apply andb_true_iff in H; destruct H as [H H2]
         end.

Section Named.
Variable t : Tables.
Let S := names (core_settings t).
Let I := names (core_info t).
Let R := names (core_result t).

Lemma chk_core_nodup_sound : chk_core_nodup t = true ->
  NoDup S /\ NoDup I /\ NoDup R /\ NoDup (map e_name (core_status t)).
Proof. unfold chk_core_nodup. intro H. split_and H. split; [|split; [|split]]; now apply nodupb_NoDup. Qed.

Lemma chk_core_status_strings_sound : chk_core_status_strings t = true ->
  SameNames (map w_core (core_status_str t)) (map e_name (core_status t)) /\ NoDup (map w_ext (core_status_str t)).
Proof. unfold chk_core_status_strings. intro H. split_and H. split; [now apply same_set_sound | now apply nodupb_NoDup]. Qed.

Lemma chk_c_settings_decl_sound : chk_c_settings_decl t = true -> Declared c_types (core_settings t) (c_settings t).
Proof. apply decl_ok_sound. Qed.
Lemma chk_c_info_decl_sound : chk_c_info_decl t = true -> Declared c_types (core_info t) (c_info t).
Proof. apply decl_ok_sound. Qed.
Lemma chk_c_result_decl_sound : chk_c_result_decl t = true -> Declared c_types (core_result t) (c_result t).
Proof. apply decl_ok_sound. Qed.
Lemma chk_c_status_sound : chk_c_status t = true -> SameEnum (core_status t) (c_status t).
Proof. apply enum_eq_sound. Qed.
Lemma chk_c_result_out_sound : chk_c_result_out t = true -> WiredDiag (vec_fields (core_result t)) (c_result_out t).
Proof. apply wires_diag_sound. Qed.
Lemma chk_c_info_out_sound : chk_c_info_out t = true -> WiredDiag I (c_info_out t).
Proof. apply wires_diag_sound. Qed.
Lemma chk_c_settings_out_sound : chk_c_settings_out t = true -> WiredDiag S (c_settings_out t).
Proof. apply wires_diag_sound. Qed.
Lemma chk_c_settings_in_dense_sound : chk_c_settings_in_dense t = true -> WiredDiag S (c_settings_in_dense t).
Proof. apply wires_diag_sound. Qed.
Lemma chk_c_settings_in_sparse_sound : chk_c_settings_in_sparse t = true -> WiredDiag S (c_settings_in_sparse t).
Proof. apply wires_diag_sound. Qed.

(** T1 of C16 in one statement *)
Lemma c_tables_consistent_sound : c_tables_consistent t = true ->
  Declared c_types (core_settings t) (c_settings t) /\
  Declared c_types (core_info t) (c_info t) /\
  Declared c_types (core_result t) (c_result t) /\
  SameEnum (core_status t) (c_status t) /\
  WiredDiag (vec_fields (core_result t)) (c_result_out t) /\
  WiredDiag I (c_info_out t) /\
  WiredDiag S (c_settings_out t) /\
  WiredDiag S (c_settings_in_dense t) /\
  WiredDiag S (c_settings_in_sparse t).
Proof.
  unfold c_tables_consistent. intro H. split_and H.
  repeat match goal with |- _ /\ _ => split end;
    first [ (apply decl_ok_sound; assumption) | (apply enum_eq_sound; assumption) | (apply wires_diag_sound; assumption) ].
Qed.

Lemma chk_py_settings_sound : chk_py_settings t = true ->
  WiredDiag S (py_settings t) /\ ConvAllowed py_rw (core_settings t) (py_settings t).
Proof. unfold chk_py_settings. intro H. split_and H. split; [now apply wires_diag_sound | now apply conv_ok_sound]. Qed.
Lemma chk_py_info_sound : chk_py_info t = true -> WiredDiag I (py_info t).
Proof. apply wires_diag_sound. Qed.
Lemma chk_py_result_sound : chk_py_result t = true -> WiredDiag R (py_result t).
Proof. apply wires_diag_sound. Qed.
Lemma chk_py_status_sound : chk_py_status t = true -> WiredDiag (map e_name (core_status t)) (py_status t).
Proof. apply wires_diag_sound. Qed.
Lemma chk_pyi_settings_sound : chk_pyi_settings t = true -> Declared pyi_types (core_settings t) (pyi_settings t).
Proof. apply decl_ok_sound. Qed.
Lemma chk_pyi_info_sound : chk_pyi_info t = true -> Declared pyi_types (core_info t) (pyi_info t).
Proof. apply decl_ok_sound. Qed.
Lemma chk_pyi_result_sound : chk_pyi_result t = true -> Declared pyi_types (core_result t) (pyi_result t).
Proof. apply decl_ok_sound. Qed.
Lemma chk_pyi_status_sound : chk_pyi_status t = true ->
  SameEnum (core_status t) (pyi_status_class t) /\ SameEnum (core_status t) (pyi_status_members t) /\
  SameEnum (core_status t) (pyi_status_module t).
Proof. unfold chk_pyi_status. intro H. split_and H. split; [|split]; now apply enum_eq_sound. Qed.

Lemma chk_mex_fields_sound : chk_mex_fields t = true ->
  SameNames (mex_settings_fields t) S /\ SameNames (mex_info_fields t) (map fst (info_exp I)) /\ SameNames (mex_result_fields t) R.
Proof. unfold chk_mex_fields. intro H. split_and H. split; [|split]; now apply same_set_sound. Qed.
Lemma chk_mex_settings_out_sound : chk_mex_settings_out t = true -> WiredDiag S (mex_settings_out t).
Proof. apply wires_diag_sound. Qed.
Lemma chk_mex_settings_in_sound : chk_mex_settings_in t = true ->
  WiredDiag S (mex_settings_in t) /\ ConvAllowed mex_in_conv (core_settings t) (mex_settings_in t).
Proof. unfold chk_mex_settings_in. intro H. split_and H. split; [now apply wires_diag_sound | now apply conv_ok_sound]. Qed.
Lemma chk_mex_info_out_sound : chk_mex_info_out t = true ->
  Wired (info_exp I) (mex_info_out t) /\ ConvAllowed (struct_info_conv "") (core_info t) (mex_info_out t) /\ StatusText (mex_info_out t).
Proof.
  unfold chk_mex_info_out. intro H. split_and H.
  split; [|split]; [now apply wires_ok_sound | now apply conv_ok_sound | now apply status_text_ok_sound].
Qed.
Lemma chk_mex_result_out_sound : chk_mex_result_out t = true -> WiredDiag R (mex_result_out t).
Proof. apply wires_diag_sound. Qed.

Lemma chk_oct_settings_out_sound : chk_oct_settings_out t = true -> WiredDiag S (oct_settings_out t).
Proof. apply wires_diag_sound. Qed.
Lemma chk_oct_settings_in_sound : chk_oct_settings_in t = true ->
  WiredDiag S (oct_settings_in t) /\ ConvAllowed oct_in_conv (core_settings t) (oct_settings_in t).
Proof. unfold chk_oct_settings_in. intro H. split_and H. split; [now apply wires_diag_sound | now apply conv_ok_sound]. Qed.
Lemma chk_oct_info_out_sound : chk_oct_info_out t = true ->
  Wired (info_exp I) (oct_info_out t) /\ ConvAllowed (struct_info_conv "octave_value") (core_info t) (oct_info_out t) /\ StatusText (oct_info_out t).
Proof.
  unfold chk_oct_info_out. intro H. split_and H.
  split; [|split]; [now apply wires_ok_sound | now apply conv_ok_sound | now apply status_text_ok_sound].
Qed.
Lemma chk_oct_result_out_sound : chk_oct_result_out t = true -> WiredDiag R (oct_result_out t).
Proof. apply wires_diag_sound. Qed.

Lemma chk_doc_settings_sound : chk_doc_settings t = true -> SameDefaults (core_settings t) (doc_settings t).
Proof. apply defaults_eq_sound. Qed.
Lemma chk_doc_status_sound : chk_doc_status t = true -> SameEnum (core_status t) (doc_status t).
Proof. apply enum_eq_sound. Qed.

(** the grand conjunction implies every sub-check *)
Lemma tables_consistent_split : tables_consistent t = true ->
  tables_consistent_except_octave_in t = true /\ chk_oct_settings_in t = true.
Proof. unfold tables_consistent. intro H. now apply andb_true_iff in H. Qed.
End Named.
