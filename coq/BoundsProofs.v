(* BoundsProofs.v -- proofs about Bounds.v (solver.hpp: setup_lb_data, setup_ub_data,
   disable_inf_constraints, restore_box_dual).  Stdlib only, no axioms.
   All statements hold for every n and every input (no size bound). *)
From PIQP Require Import Base Bounds.
Local Open Scope nat_scope.

(* ------------------------------------------------------------------ *)
(* strictly increasing index lists                                     *)
(* ------------------------------------------------------------------ *)

Definition strict_inc (l : list nat) : Prop :=
  forall a b, a < b -> b < length l -> nth a l 0 < nth b l 0.

Lemma strict_inc_nil : strict_inc [].
Proof. intros a b Hab Hb. cbn in Hb. lia. Qed.

Lemma strict_inc_one : forall x, strict_inc [x].
Proof. intros x a b Hab Hb. cbn in Hb. lia. Qed.

Lemma strict_inc_cons : forall x l,
  (forall y, In y l -> x < y) -> strict_inc l -> strict_inc (x :: l).
Proof.
  intros x l Hx Hl a b Hab Hb.
  destruct b as [|b]; [lia|]. cbn in Hb.
  destruct a as [|a]; cbn [nth].
  - apply Hx. apply nth_In. lia.
  - apply Hl; lia.
Qed.

Lemma strict_inc_cons2 : forall x y l,
  x < y -> strict_inc (y :: l) -> strict_inc (x :: y :: l).
Proof.
  intros x y l Hxy Hl. apply strict_inc_cons; [|exact Hl].
  intros z [<-|Hz]; [exact Hxy|].
  destruct (In_nth l z 0 Hz) as (a & Ha & Hnth).
  assert (Hlt : nth 0 (y :: l) 0 < nth (S a) (y :: l) 0) by (apply Hl; cbn; lia).
  cbn in Hlt. lia.
Qed.

Lemma strict_inc_ge : forall l, strict_inc l ->
  forall j, j < length l -> j <= nth j l 0.
Proof.
  intros l Hinc j. induction j as [|j IHj]; intros Hj; [lia|].
  assert (Hlt : nth j l 0 < nth (S j) l 0) by (apply Hinc; lia).
  assert (Hge : j <= nth j l 0) by (apply IHj; lia).
  lia.
Qed.

Lemma strict_inc_length_le : forall l n, strict_inc l ->
  (forall j, j < length l -> nth j l 0 < n) -> length l <= n.
Proof.
  intros l n Hinc Hb.
  destruct (Nat.eq_dec (length l) 0) as [E|E]; [lia|].
  assert (Hge : length l - 1 <= nth (length l - 1) l 0) by (apply strict_inc_ge; [assumption|lia]).
  assert (Hlt : nth (length l - 1) l 0 < n) by (apply Hb; lia).
  lia.
Qed.

Lemma strict_inc_prefix : forall l x, strict_inc (l ++ [x]) -> strict_inc l.
Proof.
  intros l x H a b Hab Hb.
  specialize (H a b Hab). rewrite app_length in H. cbn [length] in H.
  rewrite !app_nth1 in H by lia. apply H. lia.
Qed.

Lemma strict_inc_last : forall l x, strict_inc (l ++ [x]) -> forall p, In p l -> p < x.
Proof.
  intros l x H p Hin.
  destruct (In_nth l p 0 Hin) as (a & Ha & Hp).
  specialize (H a (length l)). rewrite app_length in H. cbn [length] in H.
  rewrite app_nth1 in H by lia.
  rewrite app_nth2 in H by lia. rewrite Nat.sub_diag in H. cbn [nth] in H.
  subst p. apply H; lia.
Qed.

Lemma strict_inc_nth_inj : forall l a b, strict_inc l ->
  a < length l -> b < length l -> nth a l 0 = nth b l 0 -> a = b.
Proof.
  intros l a b Hinc Ha Hb E.
  destruct (Nat.lt_trichotomy a b) as [Hlt|[Heq|Hgt]]; [|exact Heq|].
  - specialize (Hinc a b Hlt Hb). lia.
  - specialize (Hinc b a Hgt Ha). lia.
Qed.

(* ------------------------------------------------------------------ *)
(* 1. setup_lb_data / setup_ub_data                                    *)
(* ------------------------------------------------------------------ *)

Section Pack.
Variable f : ext -> bool.
Variable g : ext -> F.
Variable dx : ext.   (* default for out-of-range [nth]; irrelevant inside the range *)

Fixpoint pack_gen (i : nat) (xs : list ext) : list F * list nat :=
  match xs with
  | [] => ([], [])
  | e :: t =>
      let '(v, ix) := pack_gen (S i) t in
      if f e then (g e :: v, i :: ix) else (v, ix)
  end.

Lemma pack_gen_spec : forall xs i v ix, pack_gen i xs = (v, ix) ->
  length v = length ix /\
  strict_inc ix /\
  (forall k, In k ix <-> (i <= k < i + length xs /\ f (nth (k - i) xs dx) = true)) /\
  (forall j, j < length ix -> nth j v 0%Qc = g (nth (nth j ix 0 - i) xs dx)).
Proof.
  induction xs as [|e t IH]; intros i v ix H; cbn in H.
  - inversion H; subst. split; [reflexivity|]. split; [exact strict_inc_nil|]. split.
    + intros k. cbn. split; [intros []|intros [Hr _]; lia].
    + intros j Hj. cbn in Hj. lia.
  - destruct (pack_gen (S i) t) as [v' ix'] eqn:E.
    destruct (IH _ _ _ E) as (Hl & Hinc & Hin & Hv).
    destruct (f e) eqn:Ef; inversion H; subst; clear H.
    + split; [cbn; lia|]. split; [|split].
      * apply strict_inc_cons; [|exact Hinc].
        intros y Hy. apply Hin in Hy. lia.
      * intros k. cbn [In length]. split.
        -- intros [<-|Hk].
           ++ split; [lia|]. rewrite Nat.sub_diag. cbn [nth]. exact Ef.
           ++ apply Hin in Hk. destruct Hk as [Hr Hf]. split; [lia|].
              replace (k - i) with (S (k - S i)) by lia. cbn [nth]. exact Hf.
        -- intros [Hr Hf]. destruct (Nat.eq_dec i k) as [Hik|Hik]; [left; exact Hik|right].
           apply Hin. split; [lia|].
           replace (k - i) with (S (k - S i)) in Hf by lia. cbn [nth] in Hf. exact Hf.
      * intros j Hj. cbn [length] in Hj. destruct j as [|j]; cbn [nth].
        -- rewrite Nat.sub_diag. reflexivity.
        -- rewrite Hv by lia.
           assert (Hy : In (nth j ix' 0) ix') by (apply nth_In; lia).
           apply Hin in Hy.
           replace (nth j ix' 0 - i) with (S (nth j ix' 0 - S i)) by lia. reflexivity.
    + split; [exact Hl|]. split; [exact Hinc|]. split.
      * intros k. split.
        -- intros Hk. apply Hin in Hk. destruct Hk as [Hr Hf]. cbn [length]. split; [lia|].
           replace (k - i) with (S (k - S i)) by lia. cbn [nth]. exact Hf.
        -- cbn [length]. intros [Hr Hf]. destruct (Nat.eq_dec i k) as [Hik|Hik].
           ++ subst k. rewrite Nat.sub_diag in Hf. cbn [nth] in Hf. congruence.
           ++ apply Hin. split; [lia|].
              replace (k - i) with (S (k - S i)) in Hf by lia. cbn [nth] in Hf. exact Hf.
      * intros j Hj. rewrite Hv by lia.
        assert (Hy : In (nth j ix 0) ix) by (apply nth_In; lia).
        apply Hin in Hy.
        replace (nth j ix 0 - i) with (S (nth j ix 0 - S i)) by lia. reflexivity.
Qed.

End Pack.

Lemma pack_lb_gen : forall INF xs i,
  pack_lb INF i xs = pack_gen (ext_gt_neg_inf INF) (fun e => Qcopp (ext_val e)) i xs.
Proof.
  intros INF xs. induction xs as [|e t IH]; intros i; cbn; [reflexivity|].
  rewrite IH. reflexivity.
Qed.

Lemma pack_ub_gen : forall INF xs i,
  pack_ub INF i xs = pack_gen (ext_lt_inf INF) ext_val i xs.
Proof.
  intros INF xs. induction xs as [|e t IH]; intros i; cbn; [reflexivity|].
  rewrite IH. reflexivity.
Qed.

Theorem pack_lb_spec : forall (INF : F) (i : nat) (xs : list ext) (v : list F) (ix : list nat),
  pack_lb INF i xs = (v, ix) ->
  length v = length ix /\
  strict_inc ix /\
  (forall k, In k ix -> i <= k < i + length xs) /\
  (forall k, In k ix <-> (i <= k < i + length xs /\ ext_gt_neg_inf INF (nth (k - i) xs NInf) = true)) /\
  (forall j, j < length ix -> nth j v 0%Qc = Qcopp (ext_val (nth (nth j ix 0 - i) xs NInf))).
Proof.
  intros INF i xs v ix H. rewrite pack_lb_gen in H.
  destruct (pack_gen_spec _ _ NInf _ _ _ _ H) as (Hl & Hinc & Hin & Hv).
  split; [exact Hl|]. split; [exact Hinc|]. split; [|split; [exact Hin|exact Hv]].
  intros k Hk. apply Hin in Hk. tauto.
Qed.

Theorem pack_ub_spec : forall (INF : F) (i : nat) (xs : list ext) (v : list F) (ix : list nat),
  pack_ub INF i xs = (v, ix) ->
  length v = length ix /\
  strict_inc ix /\
  (forall k, In k ix -> i <= k < i + length xs) /\
  (forall k, In k ix <-> (i <= k < i + length xs /\ ext_lt_inf INF (nth (k - i) xs PInf) = true)) /\
  (forall j, j < length ix -> nth j v 0%Qc = ext_val (nth (nth j ix 0 - i) xs PInf)).
Proof.
  intros INF i xs v ix H. rewrite pack_ub_gen in H.
  destruct (pack_gen_spec _ _ PInf _ _ _ _ H) as (Hl & Hinc & Hin & Hv).
  split; [exact Hl|]. split; [exact Hinc|]. split; [|split; [exact Hin|exact Hv]].
  intros k Hk. apply Hin in Hk. tauto.
Qed.

(* the packed index list is never longer than the bound vector *)
Lemma pack_idx_length_le : forall ix i n, strict_inc ix ->
  (forall k, In k ix -> i <= k < i + n) -> length ix <= n.
Proof.
  intros ix i n Hinc Hr.
  destruct (Nat.eq_dec (length ix) 0) as [E|E]; [lia|].
  assert (H0 : In (nth 0 ix 0) ix) by (apply nth_In; lia).
  assert (H1 : In (nth (length ix - 1) ix 0) ix) by (apply nth_In; lia).
  apply Hr in H0. apply Hr in H1.
  (* nth j ix >= nth 0 ix + j *)
  assert (Hstep : forall j, j < length ix -> nth 0 ix 0 + j <= nth j ix 0).
  { induction j as [|j IHj]; intros Hj; [lia|].
    assert (Hlt : nth j ix 0 < nth (S j) ix 0) by (apply Hinc; lia).
    assert (Hge : nth 0 ix 0 + j <= nth j ix 0) by (apply IHj; lia). lia. }
  specialize (Hstep (length ix - 1) ltac:(lia)). lia.
Qed.

(* ------------------------------------------------------------------ *)
(* 2. restore_box_dual                                                 *)
(* ------------------------------------------------------------------ *)

Section RestoreProofs.
Context {A : Type}.

Lemma get_ok : forall (v : list A) i, i < length v ->
  exists x, nth_error v i = Some x /\ get v i = Ok x.
Proof.
  intros v i Hi. unfold get.
  destruct (nth_error v i) as [x|] eqn:E.
  - exists x. split; reflexivity.
  - apply nth_error_None in E. lia.
Qed.

Lemma upd_ok : forall (v : list A) i x, i < length v ->
  exists r, upd v i x = Ok r /\ length r = length v /\
    nth_error r i = Some x /\
    (forall p, p <> i -> nth_error r p = nth_error v p).
Proof.
  induction v as [|a t IH]; intros i x Hi; cbn [length] in Hi; [lia|].
  destruct i as [|i].
  - exists (x :: t). cbn. split; [reflexivity|]. split; [reflexivity|]. split; [reflexivity|].
    intros [|p] Hp; [lia|reflexivity].
  - destruct (IH i x ltac:(lia)) as (r & Hr & Hl & Hn & Ho).
    exists (a :: r). cbn [upd]. rewrite Hr. cbn.
    split; [reflexivity|]. split; [lia|]. split; [exact Hn|].
    intros [|p] Hp; [reflexivity|]. cbn. apply Ho. lia.
Qed.

Lemma swap_ok : forall (v : list A) i j, i < length v -> j < length v ->
  exists r, swap v i j = Ok r /\ length r = length v /\
    nth_error r i = nth_error v j /\
    nth_error r j = nth_error v i /\
    (forall p, p <> i -> p <> j -> nth_error r p = nth_error v p).
Proof.
  intros v i j Hi Hj. unfold swap.
  destruct (get_ok v i Hi) as (a & Ha & Hga).
  destruct (get_ok v j Hj) as (b & Hb & Hgb).
  rewrite Hga, Hgb. cbn [bind].
  destruct (upd_ok v i b Hi) as (v1 & Hu1 & Hl1 & Hn1 & Ho1).
  rewrite Hu1. cbn [bind].
  destruct (upd_ok v1 j a ltac:(lia)) as (r & Hu2 & Hl2 & Hn2 & Ho2).
  exists r. split; [exact Hu2|]. split; [lia|]. split; [|split].
  - destruct (Nat.eq_dec i j) as [E|E].
    + subst j. rewrite Hn2. congruence.
    + rewrite Ho2 by exact E. rewrite Hn1. congruence.
  - rewrite Hn2. congruence.
  - intros p Hpi Hpj. rewrite Ho2 by exact Hpj. apply Ho1. exact Hpi.
Qed.

(* invariant of the downward swap loop, by induction on the index list from the right *)
Lemma swap_loop_inv : forall (d : A) (idx : list nat) (w : list A),
  strict_inc idx ->
  (forall j, j < length idx -> nth j idx 0 < length w) ->
  (forall p, length idx <= p -> In p idx -> nth_error w p = Some d) ->
  exists r, swap_loop w (length idx) (rev idx) = Ok r /\ length r = length w /\
    (forall j, j < length idx -> nth_error r (nth j idx 0) = nth_error w j) /\
    (forall p, ~ In p idx ->
        (p < length idx -> nth_error r p = Some d) /\
        (length idx <= p -> nth_error r p = nth_error w p)).
Proof.
  intros d idx. induction idx as [|x l IHl] using rev_ind; intros w Hinc Hb Hd.
  - exists w. cbn. split; [reflexivity|]. split; [reflexivity|]. split.
    + intros j Hj. lia.
    + intros p _. split; [lia|reflexivity].
  - rewrite rev_unit. rewrite app_length in *. cbn [length] in *.
    replace (length l + 1) with (S (length l)) in * by lia.
    cbn [swap_loop].
    assert (Hx : x < length w).
    { specialize (Hb (length l) ltac:(lia)).
      rewrite app_nth2 in Hb by lia. rewrite Nat.sub_diag in Hb. exact Hb. }
    assert (Hkx : length l <= x).
    { pose proof (strict_inc_ge _ Hinc (length l)) as Hge.
      rewrite app_length in Hge. cbn [length] in Hge. specialize (Hge ltac:(lia)).
      rewrite app_nth2 in Hge by lia. rewrite Nat.sub_diag in Hge. exact Hge. }
    pose proof (strict_inc_last _ _ Hinc) as Hlast.
    destruct (swap_ok w (length l) x ltac:(lia) Hx) as (w1 & Hs & Hl1 & H1k & H1x & H1o).
    rewrite Hs. cbn [bind].
    destruct (IHl w1) as (r & Hr & Hlr & Hrj & Hrp).
    + exact (strict_inc_prefix _ _ Hinc).
    + intros j Hj. rewrite Hl1. specialize (Hb j ltac:(lia)).
      rewrite app_nth1 in Hb by lia. exact Hb.
    + intros p Hp Hin. pose proof (Hlast p Hin) as Hpx.
      destruct (Nat.eq_dec p (length l)) as [E|E].
      * subst p. rewrite H1k. apply Hd; [lia|].
        apply in_or_app. right. left. reflexivity.
      * rewrite H1o by lia. apply Hd; [lia|].
        apply in_or_app. left. exact Hin.
    + exists r. split; [exact Hr|]. split; [lia|]. split.
      * intros j Hj. destruct (Nat.eq_dec j (length l)) as [E|E].
        -- subst j. rewrite app_nth2 by lia. rewrite Nat.sub_diag. cbn [nth].
           assert (Hnin : ~ In x l) by (intros Hin; apply Hlast in Hin; lia).
           destruct (Hrp x Hnin) as [_ Hge]. rewrite Hge by lia. exact H1x.
        -- rewrite app_nth1 by lia. rewrite Hrj by lia. apply H1o; lia.
      * intros p Hnin.
        assert (Hpx : p <> x).
        { intros E. apply Hnin. apply in_or_app. right. left. symmetry. exact E. }
        assert (Hnl : ~ In p l).
        { intros Hin. apply Hnin. apply in_or_app. left. exact Hin. }
        destruct (Hrp p Hnl) as [Hlt Hge]. split.
        -- intros Hp. destruct (Nat.eq_dec p (length l)) as [E|E].
           ++ subst p. rewrite Hge by lia. rewrite H1k. apply Hd; [lia|].
              apply in_or_app. right. left. reflexivity.
           ++ apply Hlt. lia.
        -- intros Hp. rewrite Hge by lia. apply H1o; lia.
Qed.

Lemma nth_error_firstn_lt : forall (v : list A) k j, j < k ->
  nth_error (firstn k v) j = nth_error v j.
Proof.
  induction v as [|a t IH]; intros k j Hj.
  - rewrite firstn_nil. reflexivity.
  - destruct k as [|k]; [lia|]. destruct j as [|j]; cbn; [reflexivity|].
    apply IH. lia.
Qed.

Theorem restore_one_ok : forall (dflt : A) (n : nat) (v : list A) (idx : list nat),
  strict_inc idx ->
  (forall j, j < length idx -> nth j idx 0 < n) ->
  length v = n ->
  exists r, restore_one dflt n v idx = Ok r /\
    length r = n /\
    (forall j, j < length idx -> nth_error r (nth j idx 0) = nth_error v j) /\
    (forall k, k < n -> ~ In k idx -> nth_error r k = Some dflt).
Proof.
  intros dflt n v idx Hinc Hb Hlen.
  pose proof (strict_inc_length_le _ _ Hinc Hb) as Hk.
  unfold restore_one.
  replace (Nat.leb (length idx) n) with true by (symmetry; apply Nat.leb_le; exact Hk).
  replace (Nat.eqb (length v) n) with true by (symmetry; apply Nat.eqb_eq; exact Hlen).
  cbn [andb].
  set (w := firstn (length idx) v ++ repeat dflt (n - length idx)).
  assert (Hfl : length (firstn (length idx) v) = length idx)
    by (apply firstn_length_le; lia).
  assert (Hw : length w = n).
  { unfold w. rewrite app_length, Hfl, repeat_length. lia. }
  assert (Htail : forall p, length idx <= p -> p < n -> nth_error w p = Some dflt).
  { intros p Hp Hpn. unfold w. rewrite nth_error_app2 by lia. rewrite Hfl.
    apply nth_error_repeat. lia. }
  destruct (swap_loop_inv dflt idx w Hinc) as (r & Hr & Hlr & Hrj & Hrp).
  - intros j Hj. rewrite Hw. apply Hb. exact Hj.
  - intros p Hp Hin. apply Htail; [exact Hp|].
    destruct (In_nth idx p 0 Hin) as (a & Ha & Hnth). subst p. apply Hb. exact Ha.
  - exists r. split; [exact Hr|]. split; [lia|]. split.
    + intros j Hj. rewrite Hrj by exact Hj. unfold w.
      rewrite nth_error_app1 by lia. apply nth_error_firstn_lt. exact Hj.
    + intros k Hkn Hnin. destruct (Hrp k Hnin) as [Hlt Hge].
      destruct (Nat.lt_ge_cases k (length idx)) as [Hc|Hc].
      * apply Hlt. exact Hc.
      * rewrite Hge by exact Hc. apply Htail; assumption.
Qed.

End RestoreProofs.

(* ------------------------------------------------------------------ *)
(* 3. pack followed by restore: results are indexed by original variable *)
(* ------------------------------------------------------------------ *)

Section Roundtrip.
Context {A : Type}.

(* generic: any index list produced with the pack specification *)
Lemma restore_after_pack : forall (fin : nat -> bool) (dflt : A) (n : nat)
    (ix : list nat) (v tl : list A),
  strict_inc ix ->
  (forall k, In k ix <-> (k < n /\ fin k = true)) ->
  length v = length ix ->
  length tl = n - length ix ->
  exists r, restore_one dflt n (v ++ tl) ix = Ok r /\
    length r = n /\
    (forall j, j < length ix -> nth_error r (nth j ix 0) = nth_error v j) /\
    (forall k, k < n -> fin k = true ->
        exists j, j < length ix /\ nth j ix 0 = k /\ nth_error r k = nth_error v j) /\
    (forall k, k < n -> fin k = false -> nth_error r k = Some dflt).
Proof.
  intros fin dflt n ix v tl Hinc Hin Hlv Hlt.
  assert (Hb : forall j, j < length ix -> nth j ix 0 < n).
  { intros j Hj. assert (Hy : In (nth j ix 0) ix) by (apply nth_In; exact Hj).
    apply Hin in Hy. tauto. }
  pose proof (strict_inc_length_le _ _ Hinc Hb) as Hk.
  destruct (restore_one_ok dflt n (v ++ tl) ix Hinc Hb) as (r & Hr & Hlr & Hrj & Hrd).
  { rewrite app_length. lia. }
  assert (Hrj' : forall j, j < length ix -> nth_error r (nth j ix 0) = nth_error v j).
  { intros j Hj. rewrite Hrj by exact Hj. apply nth_error_app1. lia. }
  exists r. split; [exact Hr|]. split; [exact Hlr|]. split; [exact Hrj'|]. split.
  - intros k Hkn Hf.
    assert (Hy : In k ix) by (apply Hin; split; assumption).
    destruct (In_nth ix k 0 Hy) as (j & Hj & Hnth).
    exists j. split; [exact Hj|]. split; [exact Hnth|].
    rewrite <- Hnth. apply Hrj'. exact Hj.
  - intros k Hkn Hf. apply Hrd; [exact Hkn|].
    intros Hy. apply Hin in Hy. destruct Hy as [_ Hy]. congruence.
Qed.

Theorem restore_pack_roundtrip_lb : forall (INF : F) (xs : list ext) (v' : list F) (ix : list nat)
    (dflt : A) (v tl : list A),
  pack_lb INF 0 xs = (v', ix) ->
  length v = length ix ->
  length tl = length xs - length ix ->
  exists r, restore_one dflt (length xs) (v ++ tl) ix = Ok r /\
    length r = length xs /\
    (forall j, j < length ix -> nth_error r (nth j ix 0) = nth_error v j) /\
    (forall k, k < length xs -> ext_gt_neg_inf INF (nth k xs NInf) = true ->
        exists j, j < length ix /\ nth j ix 0 = k /\ nth_error r k = nth_error v j) /\
    (forall k, k < length xs -> ext_gt_neg_inf INF (nth k xs NInf) = false ->
        nth_error r k = Some dflt).
Proof.
  intros INF xs v' ix dflt v tl Hp Hlv Hlt.
  destruct (pack_lb_spec _ _ _ _ _ Hp) as (_ & Hinc & _ & Hin & _).
  apply (restore_after_pack (fun k => ext_gt_neg_inf INF (nth k xs NInf))); try assumption.
  intros k. rewrite Hin. rewrite Nat.sub_0_r. cbn. split; intros [Hr Hf]; (split; [lia|exact Hf]).
Qed.

Theorem restore_pack_roundtrip_ub : forall (INF : F) (xs : list ext) (v' : list F) (ix : list nat)
    (dflt : A) (v tl : list A),
  pack_ub INF 0 xs = (v', ix) ->
  length v = length ix ->
  length tl = length xs - length ix ->
  exists r, restore_one dflt (length xs) (v ++ tl) ix = Ok r /\
    length r = length xs /\
    (forall j, j < length ix -> nth_error r (nth j ix 0) = nth_error v j) /\
    (forall k, k < length xs -> ext_lt_inf INF (nth k xs PInf) = true ->
        exists j, j < length ix /\ nth j ix 0 = k /\ nth_error r k = nth_error v j) /\
    (forall k, k < length xs -> ext_lt_inf INF (nth k xs PInf) = false ->
        nth_error r k = Some dflt).
Proof.
  intros INF xs v' ix dflt v tl Hp Hlv Hlt.
  destruct (pack_ub_spec _ _ _ _ _ Hp) as (_ & Hinc & _ & Hin & _).
  apply (restore_after_pack (fun k => ext_lt_inf INF (nth k xs PInf))); try assumption.
  intros k. rewrite Hin. rewrite Nat.sub_0_r. cbn. split; intros [Hr Hf]; (split; [lia|exact Hf]).
Qed.

End Roundtrip.

(* ------------------------------------------------------------------ *)
(* 4. disable_inf_constraints                                          *)
(* ------------------------------------------------------------------ *)

Lemma nth_map_lt : forall {X Y : Type} (G : X -> Y) (l : list X) (i : nat) (dx : X) (dy : Y),
  i < length l -> nth i (map G l) dy = G (nth i l dx).
Proof.
  intros X Y G l. induction l as [|a t IH]; intros i dx dy Hi; cbn [length] in Hi; [lia|].
  destruct i as [|i]; cbn; [reflexivity|]. apply IH. lia.
Qed.

Lemma nth_combine_lt : forall {X Y : Type} (a : list X) (b : list Y) (i : nat) (dx : X) (dy : Y),
  length a = length b -> i < length b ->
  nth i (combine a b) (dx, dy) = (nth i a dx, nth i b dy).
Proof.
  intros X Y a. induction a as [|x s IH]; intros b i dx dy Hl Hi; destruct b as [|y t];
    cbn [length] in *; try lia.
  destruct i as [|i]; cbn; [reflexivity|]. apply IH; lia.
Qed.

Lemma map_const_repeat : forall {X Y : Type} (c : Y) (l : list X),
  map (fun _ => c) l = repeat c (length l).
Proof.
  intros X Y c l. induction l as [|a t IH]; cbn; [reflexivity|]. rewrite IH. reflexivity.
Qed.

Theorem disable_inf_spec : forall (INF : F) (GT : Mat) (h : list ext) (GT' : Mat) (h' : Vec),
  disable_inf INF GT h = (GT', h') ->
  length GT = length h ->
  length GT' = length h /\
  length h' = length h /\
  forall i, i < length h ->
    length (nth i GT' []) = length (nth i GT []) /\
    (h_is_inf INF (nth i h NInf) = true ->
       nth i GT' [] = repeat 0%Qc (length (nth i GT [])) /\ nth i h' 0%Qc = 1%Qc) /\
    (h_is_inf INF (nth i h NInf) = false ->
       nth i GT' [] = nth i GT [] /\ nth i h' 0%Qc = ext_val (nth i h NInf)).
Proof.
  intros INF GT h GT' h' H Hl. unfold disable_inf in H. inversion H; subst; clear H.
  split; [rewrite map_length, combine_length; lia|].
  split; [apply map_length|].
  intros i Hi. unfold Mat, Vec, F in *.
  rewrite (nth_map_lt _ (combine GT h) i ([], NInf) [])
    by (rewrite combine_length; lia).
  rewrite (nth_combine_lt GT h i [] NInf Hl Hi). cbn [fst snd].
  rewrite (nth_map_lt _ h i NInf 0%Qc Hi).
  destruct (h_is_inf INF (nth i h NInf)) eqn:E.
  - split; [apply map_length|]. split.
    + intros _. split; [apply map_const_repeat|reflexivity].
    + intros C. discriminate C.
  - split; [reflexivity|]. split.
    + intros C. discriminate C.
    + intros _. split; reflexivity.
Qed.
