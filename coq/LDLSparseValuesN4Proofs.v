(* LDLSparseValuesN4Proofs.v -- the 64 patterns of size 4 for LDLSparseValuesProofs.v (separate file: it takes minutes) *)
From PIQP Require Import Base CSC LDLSparse C14LemmasProofs PatternsProofs LDLSparseProofs LDLSparseValuesProofs.
Local Open Scope nat_scope.
Lemma ldl_product_4 : forall bs, In bs (all_bools (length (pairs 4))) -> forall vs : list F,
     length vs = length (snd (pattern_of 4 (adj_of_bits 4 bs))) ->
     ldl_product_ok (mkcsc 4 4 (fst (pattern_of 4 (adj_of_bits 4 bs))) (snd (pattern_of 4 (adj_of_bits 4 bs))) vs).
Proof. intros bs Hbs. simpl in Hbs. all_cases Hbs. all: case_tac. Qed.
