(* LDLDenseNP.v -- include/piqp/dense/ldlt_no_pivot.hpp: in-place pivot-free LDL^T (lower storage), unblocked and
   blocked, and the solve of LDLTNoPivot (C14).

   A dense matrix is the list of its rows.  Eigen's block expressions are whole-array operations; they are
   modelled as such (segment reads/writes of rows), in the order of the statements of the code.  The strict
   upper triangle is carried along because the blocked variant uses it as scratch storage (A21_tmp). *)
From PIQP Require Import Base CSC.
Local Open Scope Qc_scope.

Definition DMat := list (list F).

Definition dget (m : DMat) (i j : nat) : res F := do r <- get m i ;; get r j.
Definition dsquare (size : nat) (m : DMat) : bool :=
  (length m =? size)%nat && forallb (fun r => (length r =? size)%nat) m.

Definition qdot (a b : list F) : F := fold_left (fun acc p => acc + fst p * snd p) (combine a b) 0.

(* ---------- unblocked ---------- *)
(* one iteration k of the loop; true = "x == 0, return k" *)
Definition unb_step (size k : nat) (m : DMat) : res (DMat * bool) :=
  do m1 <-
    (if (k =? 0)%nat then Ok m else
      do rowk <- get m k ;;
      do dg <- mapM (fun j => dget m j j) (seq 0 k) ;;
      let t := vmul dg (firstn k rowk) in                       (* temp.head(k) = D.head(k) * A10^T *)
      do akk <- get rowk k ;;
      do rowk' <- upd rowk k (akk - qdot (firstn k rowk) t) ;;  (* mat(k,k) -= A10 * temp.head(k) *)
      do m <- upd m k rowk' ;;
      (* A21 -= A20 * temp.head(k) *)
      for_range (S k) size (fun i m =>
        do r <- get m i ;; do a <- get r k ;; do r' <- upd r k (a - qdot (firstn k r) t) ;; upd m i r') m) ;;
  do x <- dget m1 k k ;;
  if qeqb x 0 then Ok (m1, true) else
  do m2 <- for_range (S k) size (fun i m =>                     (* A21 /= x *)
        do r <- get m i ;; do a <- get r k ;; do r' <- upd r k (a / x) ;; upd m i r') m1 ;;
  Ok (m2, false).

Fixpoint unb_loop (size : nat) (ks : list nat) (m : DMat) : res (DMat * option nat) :=
  match ks with
  | [] => Ok (m, None)                                          (* return -1 *)
  | k :: ks => do '(m, z) <- unb_step size k m ;; if z then Ok (m, Some k) else unb_loop size ks m
  end.

Definition unblocked (m : DMat) : res (DMat * option nat) :=
  let size := length m in
  if negb (dsquare size m) then Err Shape else unb_loop size (seq 0 size) m.

(* ---------- blocked ---------- *)
Definition block_size (size : nat) : nat :=
  let b := (size / 8)%nat in
  let b := ((b / 16) * 16)%nat in
  Nat.min (Nat.max b 8) 128.

Definition sub_block (r0 c0 nr nc : nat) (m : DMat) : DMat :=
  map (fun r => firstn nc (skipn c0 r)) (firstn nr (skipn r0 m)).
(* overwrite the block starting at (r0,c0) by b *)
Fixpoint set_rows (c0 : nat) (b : DMat) (rows : DMat) : DMat :=
  match b, rows with
  | br :: bt, r :: rt => set_segment c0 br r :: set_rows c0 bt rt
  | _, _ => rows
  end.
Definition set_block (r0 c0 : nat) (b : DMat) (m : DMat) : DMat :=
  firstn r0 m ++ set_rows c0 b (skipn r0 m).

(* x * U^{-1} for the unit upper U = L11^T:  x_c = a_c - sum_{j<c} x_j * L11[c][j] *)
Fixpoint solve_right_unit_upper (l11 : DMat) (c : nat) (a : list F) (acc : list F) : list F :=
  match l11, a with
  | lr :: lt, ac :: at_ => solve_right_unit_upper lt (S c) at_ (acc ++ [ac - qdot acc (firstn c lr)])
  | _, _ => acc
  end.

Definition blk_step (size k bs : nat) (m : DMat) : res (DMat * option nat) :=
  let rs := (size - k - bs)%nat in
  let a11 := sub_block k k bs bs m in
  do '(a11', ret) <- unblocked a11 ;;
  let m := set_block k k a11' m in
  match ret with
  | Some r => Ok (m, Some (k + r)%nat)
  | None =>
    if (rs =? 0)%nat then Ok (m, None) else
    do d11 <- mapM (fun j => dget a11' j j) (seq 0 bs) ;;
    (* A21 = A21 * (A11^T)^{-1} (unit upper, on the right);  A21 = A21 * D11^{-1} *)
    let a21 := sub_block (k + bs) k rs bs m in
    let a21 := map (fun a => solve_right_unit_upper a11' 0 a []) a21 in
    do a21 <- mapM (fun a => mapM (fun p => qdiv (fst p) (snd p)) (combine a d11)) a21 ;;
    let m := set_block (k + bs) k a21 m in
    (* A21_tmp (rows 0..rs-1, columns size-bs..size-1) = A21 * D11 *)
    let tmp := map (fun a => vmul a d11) (sub_block (k + bs) k rs bs m) in
    let m := set_block 0 (size - bs) tmp m in
    (* A22.triangularView<Lower>() -= A21_tmp * A21^T *)
    let tmp := sub_block 0 (size - bs) rs bs m in
    let a21 := sub_block (k + bs) k rs bs m in
    let a22 := sub_block (k + bs) (k + bs) rs rs m in
    let a22' := map (fun it => let '(i, (row, ti)) := it in
                   vsub (firstn (S i) row) (map (fun aj => qdot ti aj) (firstn (S i) a21)) ++ skipn (S i) row)
                 (combine (seq 0 rs) (combine a22 tmp)) in
    Ok (set_block (k + bs) (k + bs) a22' m, None)
  end.

Fixpoint blk_loop (fuel size blockSize k : nat) (m : DMat) : res (DMat * option nat) :=
  match fuel with
  | O => Err Fuel
  | S fuel =>
    if negb (k <? size)%nat then Ok (m, None) else
    let bs := Nat.min blockSize (size - k) in
    do '(m, ret) <- blk_step size k bs m ;;
    match ret with
    | Some r => Ok (m, Some r)
    | None => blk_loop fuel size blockSize (k + blockSize)%nat m
    end
  end.

Definition blocked (m : DMat) : res (DMat * option nat) :=
  let size := length m in
  if negb (dsquare size m) then Err Shape else
  if (size <? 32)%nat then unblocked m else
  blk_loop (S size) size (block_size size) 0%nat m.

(* ---------- solve: L z = b (unit lower), w = z / D, L^T x = w ---------- *)
Definition dense_lsolve (m : DMat) (b : list F) : res (list F) :=
  for_range 0 (length b) (fun i x =>
    do r <- get m i ;; do xi <- get x i ;; upd x i (xi - qdot (firstn i r) (firstn i x))) b.
Definition dense_dsolve (m : DMat) (b : list F) : res (list F) :=
  for_range 0 (length b) (fun i x => do d <- dget m i i ;; do xi <- get x i ;; do q <- qdiv xi d ;; upd x i q) b.
Definition dense_ltsolve (m : DMat) (b : list F) : res (list F) :=
  for_down (length b) (fun i x =>
    do xi <- get x i ;;
    let col := map (fun r => nth i r 0) (skipn (S i) m) in     (* L[j][i], j > i *)
    upd x i (xi - qdot col (skipn (S i) x))) b.
Definition dense_solve (m : DMat) (b : list F) : res (list F) :=
  do x <- dense_lsolve m b ;; do x <- dense_dsolve m x ;; dense_ltsolve m x.
