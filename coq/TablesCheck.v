(** Boolean consistency checker over the binding tables (C17, table part of C16) and the Prop-level
    meaning of every sub-check.  Definitions only; soundness is proved in TablesCheckProofs.v. *)
From Coq Require Import String List ZArith Bool.
From PIQP Require Import TablesDef.
Import ListNotations.
Open Scope string_scope.

(* ------------------------------------------------------------------ executable part *)
Fixpoint memb (s : string) (l : list string) : bool :=
  match l with [] => false | x :: r => if String.eqb s x then true else memb s r end.

Fixpoint nodupb (l : list string) : bool :=
  match l with [] => true | x :: r => negb (memb x r) && nodupb r end.

Definition subsetb (a b : list string) : bool := forallb (fun x => memb x b) a.

(** duplicate-free lists with the same elements *)
Definition same_set (a b : list string) : bool :=
  nodupb a && nodupb b && subsetb a b && subsetb b a.

Definition pair_memb (e c : string) (l : list (string * string)) : bool :=
  existsb (fun p => String.eqb (fst p) e && String.eqb (snd p) c) l.

Definition diag (l : list string) : list (string * string) := map (fun f => (f, f)) l.

Definition names (l : list cfield) : list string := map cf_name l.

(** [exp] lists the expected (binding name, core field) pairs; every wire is expected, every expected
    binding name is written exactly once *)
Definition wires_ok (exp : list (string * string)) (ws : list wire) : bool :=
  forallb (fun w => pair_memb (w_ext w) (w_core w) exp) ws &&
  same_set (map w_ext ws) (map fst exp).

Definition wires_diag (core : list string) (ws : list wire) : bool := wires_ok (diag core) ws.

(** every wire's conversion is allowed for the type of the core field it touches *)
Definition conv_ok (tyconv : list (string * string)) (core : list cfield) (ws : list wire) : bool :=
  forallb (fun w => existsb (fun c => String.eqb (cf_name c) (w_core w) && pair_memb (cf_type c) (w_conv w) tyconv) core) ws.

(** declared fields: same name set, each declared with a type that corresponds to the core type *)
Definition decl_ok (tymap : list (string * string)) (core decl : list cfield) : bool :=
  same_set (names decl) (names core) &&
  forallb (fun c => existsb (fun d => String.eqb (cf_name d) (cf_name c) && pair_memb (cf_type c) (cf_type d) tymap) decl) core.

Definition enum_eq (a b : list enumv) : bool :=
  same_set (map e_name a) (map e_name b) &&
  forallb (fun x => existsb (fun y => String.eqb (e_name y) (e_name x) && Z.eqb (e_val y) (e_val x)) b) a.

Definition dval_eqb (a b : dval) : bool :=
  match a, b with
  | DBool x, DBool y => Bool.eqb x y
  | DNum n d, DNum n' d' => Z.eqb n n' && Pos.eqb d d'
  | DEps2, DEps2 => true
  | DOther x, DOther y => String.eqb x y
  | _, _ => false        (* DNone (no initialiser) equals nothing *)
  end.

Definition defaults_eq (core docs : list cfield) : bool :=
  same_set (names docs) (names core) &&
  forallb (fun c => existsb (fun d => String.eqb (cf_name d) (cf_name c) && dval_eqb (cf_default c) (cf_default d)) docs) core.

(** in a Matlab/Octave info struct exactly the field "status" carries the text of the status *)
Definition status_text_ok (ws : list wire) : bool :=
  forallb (fun w => Bool.eqb (String.eqb (w_ext w) "status") (String.eqb (w_conv w) "status_to_string")) ws.

(* ------------------------------------------------------------------ fixed correspondence tables *)
Definition c_types : list (string * string) :=
  [("T", "piqp_float"); ("isize", "piqp_int"); ("bool", "piqp_int"); ("Status", "piqp_status");
   ("Vec<T>", "const piqp_float*"); ("Info<T>", "piqp_info")].

Definition pyi_types : list (string * string) :=
  [("T", "float"); ("isize", "int"); ("bool", "bool"); ("Status", "piqp.Status");
   ("Vec<T>", "numpy.ndarray[numpy.float64[m, 1]]"); ("Info<T>", "piqp.Info")].

Definition mex_in_conv : list (string * string) := [("T", "(double)"); ("isize", "(piqp::isize)"); ("bool", "(bool)")].
Definition oct_in_conv : list (string * string) := [("T", ".double_value()"); ("isize", ".int_value()"); ("bool", ".bool_value()")].
Definition py_rw : list (string * string) :=
  [("T", "def_readwrite"); ("isize", "def_readwrite"); ("bool", "def_readwrite")].
(** Matlab/Octave info: the enum is exposed twice, as text ("status") and as number ("status_val") *)
Definition struct_info_conv (num : string) : list (string * string) :=
  [("T", num); ("T", "(double)"); ("isize", num); ("isize", "(double)"); ("Status", num); ("Status", "(double)"); ("Status", "status_to_string")].

Definition info_exp (core : list string) : list (string * string) :=
  flat_map (fun f => if String.eqb f "status" then [("status", "status"); ("status_val", "status")] else [(f, f)]) core.

(** the result vectors are the core Result fields other than the nested info *)
Definition vec_fields (core : list cfield) : list string :=
  names (filter (fun c => negb (String.eqb (cf_type c) "Info<T>")) core).

(* ------------------------------------------------------------------ named sub-checks *)
Section Checks.
Variable t : Tables.

Let S := names (core_settings t).
Let I := names (core_info t).
Let R := names (core_result t).

(* core sanity *)
Definition chk_core_nodup : bool := nodupb S && nodupb I && nodupb R && nodupb (map e_name (core_status t)).
Definition chk_core_status_strings : bool :=
  same_set (map w_core (core_status_str t)) (map e_name (core_status t)) && nodupb (map w_ext (core_status_str t)).

(* C *)
Definition chk_c_settings_decl : bool := decl_ok c_types (core_settings t) (c_settings t).
Definition chk_c_info_decl : bool := decl_ok c_types (core_info t) (c_info t).
Definition chk_c_result_decl : bool := decl_ok c_types (core_result t) (c_result t).
Definition chk_c_status : bool := enum_eq (core_status t) (c_status t).
Definition chk_c_result_out : bool := wires_diag (vec_fields (core_result t)) (c_result_out t).
Definition chk_c_info_out : bool := wires_diag I (c_info_out t).
Definition chk_c_settings_out : bool := wires_diag S (c_settings_out t).
Definition chk_c_settings_in_dense : bool := wires_diag S (c_settings_in_dense t).
Definition chk_c_settings_in_sparse : bool := wires_diag S (c_settings_in_sparse t).

Definition c_tables_consistent : bool :=
  chk_core_nodup && chk_c_settings_decl && chk_c_info_decl && chk_c_result_decl && chk_c_status &&
  chk_c_result_out && chk_c_info_out && chk_c_settings_out && chk_c_settings_in_dense && chk_c_settings_in_sparse.

(* pybind11 and stub *)
Definition chk_py_settings : bool := wires_diag S (py_settings t) && conv_ok py_rw (core_settings t) (py_settings t).
Definition chk_py_info : bool := wires_diag I (py_info t).
Definition chk_py_result : bool := wires_diag R (py_result t).
Definition chk_py_status : bool := wires_diag (map e_name (core_status t)) (py_status t).
Definition chk_pyi_settings : bool := decl_ok pyi_types (core_settings t) (pyi_settings t).
Definition chk_pyi_info : bool := decl_ok pyi_types (core_info t) (pyi_info t).
Definition chk_pyi_result : bool := decl_ok pyi_types (core_result t) (pyi_result t).
Definition chk_pyi_status : bool :=
  enum_eq (core_status t) (pyi_status_class t) && enum_eq (core_status t) (pyi_status_members t) &&
  enum_eq (core_status t) (pyi_status_module t).

(* Matlab *)
Definition chk_mex_fields : bool :=
  same_set (mex_settings_fields t) S && same_set (mex_info_fields t) (map fst (info_exp I)) && same_set (mex_result_fields t) R.
Definition chk_mex_settings_out : bool := wires_diag S (mex_settings_out t).
Definition chk_mex_settings_in : bool := wires_diag S (mex_settings_in t) && conv_ok mex_in_conv (core_settings t) (mex_settings_in t).
Definition chk_mex_info_out : bool :=
  wires_ok (info_exp I) (mex_info_out t) && conv_ok (struct_info_conv "") (core_info t) (mex_info_out t) &&
  status_text_ok (mex_info_out t).
Definition chk_mex_result_out : bool := wires_diag R (mex_result_out t).

(* Octave *)
Definition chk_oct_settings_out : bool := wires_diag S (oct_settings_out t).
Definition chk_oct_settings_in : bool := wires_diag S (oct_settings_in t) && conv_ok oct_in_conv (core_settings t) (oct_settings_in t).
Definition chk_oct_info_out : bool :=
  wires_ok (info_exp I) (oct_info_out t) && conv_ok (struct_info_conv "octave_value") (core_info t) (oct_info_out t) &&
  status_text_ok (oct_info_out t).
Definition chk_oct_result_out : bool := wires_diag R (oct_result_out t).

(* documentation *)
Definition chk_doc_settings : bool := defaults_eq (core_settings t) (doc_settings t).
Definition chk_doc_status : bool := enum_eq (core_status t) (doc_status t).

(** everything except the Octave struct -> settings direction *)
Definition tables_consistent_except_octave_in : bool :=
  c_tables_consistent && chk_core_status_strings &&
  chk_py_settings && chk_py_info && chk_py_result && chk_py_status &&
  chk_pyi_settings && chk_pyi_info && chk_pyi_result && chk_pyi_status &&
  chk_mex_fields && chk_mex_settings_out && chk_mex_settings_in && chk_mex_info_out && chk_mex_result_out &&
  chk_oct_settings_out && chk_oct_info_out && chk_oct_result_out &&
  chk_doc_settings && chk_doc_status.

Definition tables_consistent : bool := tables_consistent_except_octave_in && chk_oct_settings_in.
End Checks.

(* ------------------------------------------------------------------ what the checks mean *)

(** [ws] connects exactly the expected pairs: every wire is an expected pair, and every expected binding
    name [e] (paired with core field [c]) is written by exactly one wire, which reads/writes [c]. *)
Definition Wired (exp : list (string * string)) (ws : list wire) : Prop :=
  (forall w, In w ws -> In (w_ext w, w_core w) exp) /\
  (forall e c, In (e, c) exp ->
     exists w, In w ws /\ w_ext w = e /\ w_core w = c /\ forall w', In w' ws -> w_ext w' = e -> w' = w).

(** like-named wiring: each field of [core] occurs in exactly one assignment, which connects the binding-side
    field of the same name with it; there is no other assignment. *)
Definition WiredDiag (core : list string) (ws : list wire) : Prop :=
  (forall w, In w ws -> w_ext w = w_core w /\ In (w_core w) core) /\
  (forall f, In f core -> exists! w, In w ws /\ w_ext w = f /\ w_core w = f).

Definition SameNames (a b : list string) : Prop :=
  NoDup a /\ NoDup b /\ forall x, In x a <-> In x b.

Definition ConvAllowed (tyconv : list (string * string)) (core : list cfield) (ws : list wire) : Prop :=
  forall w, In w ws -> exists c, In c core /\ cf_name c = w_core w /\ In (cf_type c, w_conv w) tyconv.

Definition Declared (tymap : list (string * string)) (core decl : list cfield) : Prop :=
  SameNames (names decl) (names core) /\
  forall c, In c core -> exists d, In d decl /\ cf_name d = cf_name c /\ In (cf_type c, cf_type d) tymap.

Definition SameEnum (a b : list enumv) : Prop :=
  SameNames (map e_name a) (map e_name b) /\
  forall n v, (exists x, In x a /\ e_name x = n /\ e_val x = v) <-> (exists y, In y b /\ e_name y = n /\ e_val y = v).

Definition SameDefaults (core docs : list cfield) : Prop :=
  SameNames (names docs) (names core) /\
  forall c, In c core -> exists d, In d docs /\ cf_name d = cf_name c /\ cf_default d = cf_default c /\ cf_default c <> DNone.

Definition StatusText (ws : list wire) : Prop :=
  forall w, In w ws -> (w_ext w = "status" <-> w_conv w = "status_to_string").
