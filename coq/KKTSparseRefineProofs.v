(* KKTSparseRefineProofs.v -- theorems about coq/KKTSparseRefine.v (iterative refinement of the sparse KKT solve path,
   include/piqp/sparse/kkt.hpp).  No axioms.

   Part A  kkt_solve_with (ldl_solve st) is kkt_solve (the refinement model extends KKTSparseSolve.v conservatively)
   Part B  the refinement loop: monotone residual (under 1 <= min_improvement_rate, shown necessary), tolerance exit,
           fuel bound on the number of LDL^T solves, max_iter <= 0 / refine = false = the plain solve
   Part C  regularize_kkt / unregularize_kkt: restoration of the stored values, no-op when reg <= rho, delta, values written
   Part D  evaluated examples (non-vacuity) *)
From PIQP Require Import Base CSC LDLSparse KKTSparseFull KKTSparseAll KKTSparseEq KKTSparseIneq KKTSparseSolve KKTSparseRefine LinAlg C14LemmasProofs SparseUpdateP.
From Coq Require Import Lia.
Local Open Scope Qc_scope.
Local Set Warnings "-unused-intro-pattern".


(* ================================================================ Part A *)
Theorem solve_with_plain md d c o st r : kkt_solve_with (ldl_solve st) md d c o r = kkt_solve md d c o st r.
Proof. reflexivity. Qed.

(* ================================================================ Part B : the loop *)
Lemma qmax_ge_l a b : a <= qmax a b.
Proof.
  unfold qmax. destruct (qltb a b) eqn:E.
  - apply qltb_lt in E. apply Qclt_le_weak. assumption.
  - apply Qcle_refl.
Qed.

Lemma fold_qmax_abs_ge l : forall acc, acc <= fold_left (fun acc x => qmax acc (qabs x)) l acc.
Proof.
  induction l as [|x l IH]; intros acc; cbn [fold_left].
  - apply Qcle_refl.
  - eapply Qcle_trans; [apply (qmax_ge_l acc (qabs x)) | apply IH].
Qed.

Lemma norm_inf_nonneg a : 0 <= norm_inf a.
Proof. unfold norm_inf. apply fold_qmax_abs_ge. Qed.

Lemma rate_ge_1 en en2 : 0 <= en2 -> en2 <> 0 -> 1 <= en / en2 -> en2 <= en.
Proof.
  intros H0 Hnz H1.
  assert (E : en = (en / en2) * en2) by (field; assumption).
  rewrite E. rewrite <- (Qcmult_1_l en2) at 1. apply Qcmult_le_compat_r; assumption.
Qed.

Lemma rate_gt_1 en en2 : 0 <= en2 -> en2 <> 0 -> 1 < en / en2 -> en2 < en.
Proof.
  intros H0 Hnz H1.
  assert (Hpos : 0 < en2).
  { destruct (Qcle_lt_or_eq _ _ H0) as [H|H]; [exact H | exfalso; apply Hnz; symmetry; exact H]. }
  assert (E : en = (en / en2) * en2) by (field; assumption).
  rewrite E. rewrite <- (Qcmult_1_l en2) at 1. apply Qcmult_lt_compat_r; assumption.
Qed.

Section Loop.
  Variable rs : rset.
  Variable K : csc F.
  Variable st : ldl_i * ldl_v.
  Variable rhs : Vec.
  Variable rhs_norm : F.

  Let tol := rs_eps_abs rs + rs_eps_rel rs * rhs_norm.

  (* ---- T : the residual never increases, provided 1 <= min_improvement_rate ---- *)
  Theorem refine_monotone_loop : 1 <= rs_min_rate rs ->
    forall fuel sol err_corr error_norm r,
    error_norm = kres_norm K rhs sol ->
    refine_loop rs K st rhs rhs_norm fuel sol err_corr error_norm = Ok r ->
    kres_norm K rhs r <= error_norm.
  Proof.
    intros Hrate. induction fuel as [|fuel IH]; intros sol ec en r Hen H.
    - cbn in H. injection H as <-. rewrite Hen. apply Qcle_refl.
    - cbn [refine_loop] in H.
      destruct (qleb en _) eqn:Estop.
      { injection H as <-. rewrite Hen. apply Qcle_refl. }
      apply bind_ok in H as (corr & Hcorr & H).
      set (ref_sol := vadd sol corr) in *.
      set (err2 := kresid K rhs ref_sol) in *.
      assert (Hen2 : norm_inf err2 = kres_norm K rhs ref_sol) by reflexivity.
      destruct (qeqb (norm_inf err2) 0) eqn:Ez.
      + apply qeqb_eq in Ez. apply IH in H; [|assumption].
        eapply Qcle_trans; [exact H|]. rewrite Ez, Hen. apply norm_inf_nonneg.
      + apply qeqb_neq in Ez.
        apply bind_ok in H as (rate & Hrate' & H). apply qdiv_ok in Hrate' as [_ ->].
        destruct (qltb (en / norm_inf err2) _) eqn:Elt.
        * destruct (qltb 1 (en / norm_inf err2)) eqn:E1.
          -- injection H as <-. rewrite <- Hen2. apply qltb_lt in E1.
             apply rate_ge_1; [apply norm_inf_nonneg | assumption | apply Qclt_le_weak; assumption].
          -- injection H as <-. rewrite Hen. apply Qcle_refl.
        * apply qltb_ge in Elt. apply IH in H; [|assumption].
          eapply Qcle_trans; [exact H|].
          apply rate_ge_1; [apply norm_inf_nonneg | assumption | eapply Qcle_trans; eassumption].
  Qed.

  (* ---- T : a loop that ends by the tolerance test returns a solution within the tolerance ---- *)
  Theorem refine_tol_loop :
    forall fuel sol err_corr error_norm r,
    error_norm = kres_norm K rhs sol ->
    refine_stop rs K st rhs rhs_norm fuel sol err_corr error_norm = Ok StopTol ->
    refine_loop rs K st rhs rhs_norm fuel sol err_corr error_norm = Ok r ->
    kres_norm K rhs r <= rs_eps_abs rs + rs_eps_rel rs * rhs_norm.
  Proof.
    induction fuel as [|fuel IH]; intros sol ec en r Hen Hs H.
    - cbn in Hs. discriminate.
    - cbn [refine_loop] in H. cbn [refine_stop] in Hs.
      destruct (qleb en _) eqn:Estop.
      { injection H as <-. rewrite <- Hen. apply qleb_le. exact Estop. }
      apply bind_ok in H as (corr & Hcorr & H). rewrite Hcorr in Hs. cbn [bind] in Hs.
      set (ref_sol := vadd sol corr) in *.
      set (err2 := kresid K rhs ref_sol) in *.
      assert (Hen2 : norm_inf err2 = kres_norm K rhs ref_sol) by reflexivity.
      destruct (qeqb (norm_inf err2) 0) eqn:Ez.
      + eapply IH; eassumption.
      + apply bind_ok in H as (rate & Hrate' & H). rewrite Hrate' in Hs. cbn [bind] in Hs.
        destruct (qltb rate _) eqn:Elt; [discriminate|].
        eapply IH; eassumption.
  Qed.

  (* ---- T : the control-flow observers are defined exactly when the loop is, and the fuel bounds the solves ---- *)
  Theorem refine_solves_bound :
    forall fuel sol err_corr error_norm k,
    refine_solves rs K st rhs rhs_norm fuel sol err_corr error_norm = Ok k -> (k <= fuel)%nat.
  Proof.
    induction fuel as [|fuel IH]; intros sol ec en k H.
    - cbn in H. injection H as <-. lia.
    - cbn [refine_solves] in H.
      destruct (qleb en _). { injection H as <-. lia. }
      apply bind_ok in H as (corr & Hcorr & H).
      destruct (qeqb _ 0).
      + apply bind_ok in H as (k' & Hk & H). injection H as <-. apply IH in Hk. lia.
      + apply bind_ok in H as (rate & _ & H).
        destruct (qltb rate _). { injection H as <-. lia. }
        apply bind_ok in H as (k' & Hk & H). injection H as <-. apply IH in Hk. lia.
  Qed.

  Theorem refine_loop_solves :
    forall fuel sol err_corr error_norm r,
    refine_loop rs K st rhs rhs_norm fuel sol err_corr error_norm = Ok r ->
    exists k how, refine_solves rs K st rhs rhs_norm fuel sol err_corr error_norm = Ok k /\ (k <= fuel)%nat /\
                  refine_stop rs K st rhs rhs_norm fuel sol err_corr error_norm = Ok how.
  Proof.
    induction fuel as [|fuel IH]; intros sol ec en r H.
    - exists 0%nat, StopFuel. cbn. repeat split; auto.
    - cbn [refine_loop] in H. cbn [refine_solves refine_stop].
      destruct (qleb en _). { exists 0%nat, StopTol. repeat split; auto. lia. }
      apply bind_ok in H as (corr & Hcorr & H). rewrite Hcorr. cbn [bind].
      destruct (qeqb _ 0).
      + apply IH in H as (k & how & Hk & Hle & Hh). rewrite Hk. cbn [bind]. exists (S k), how. repeat split; auto. lia.
      + apply bind_ok in H as (rate & Hr & H). rewrite Hr. cbn [bind].
        destruct (qltb rate _). { exists 1%nat, StopRate. repeat split; auto. lia. }
        apply IH in H as (k & how & Hk & Hle & Hh). rewrite Hk. cbn [bind]. exists (S k), how. repeat split; auto. lia.
  Qed.

  (* an exact first solve (zero residual) with a non-negative tolerance: the loop returns it without any further solve *)
  Theorem refine_loop_exact_noop fuel sol err_corr :
    kres_norm K rhs sol = 0 -> 0 <= rs_eps_abs rs + rs_eps_rel rs * rhs_norm ->
    refine_loop rs K st rhs rhs_norm fuel sol err_corr (kres_norm K rhs sol) = Ok sol /\
    refine_solves rs K st rhs rhs_norm fuel sol err_corr (kres_norm K rhs sol) = Ok 0%nat.
  Proof.
    intros Hz Ht. destruct fuel as [|fuel]; [split; reflexivity|].
    cbn [refine_loop refine_solves]. rewrite Hz.
    apply qleb_le in Ht. rewrite Ht. split; reflexivity.
  Qed.
End Loop.

(* ---- the refinement stage of solve ---- *)
Theorem refined_solve_monotone rs refine K st rhs_perm sol0 sol :
  1 <= rs_min_rate rs ->
  ldl_solve st rhs_perm = Ok sol0 ->
  refined_solve rs refine K st rhs_perm = Ok sol ->
  kres_norm K rhs_perm sol <= kres_norm K rhs_perm sol0.
Proof.
  intros Hrate H0 H. unfold refined_solve in H. rewrite H0 in H. cbn [bind] in H.
  destruct (refine && _)%bool.
  - apply bind_ok in H as (_ & _ & H). apply bind_ok in H as (_ & _ & H).
    eapply refine_monotone_loop in H; [exact H | exact Hrate | reflexivity].
  - injection H as <-. apply Qcle_refl.
Qed.

(* refinement off, or max_iter <= 0: the plain LDL^T solve, no further solves *)
Theorem refined_solve_off rs refine K st rhs_perm :
  refine = false \/ (rs_max_iter rs <= 0)%Z ->
  refined_solve rs refine K st rhs_perm = ldl_solve st rhs_perm.
Proof.
  intros H. unfold refined_solve.
  assert (E : (refine && (0 <? rs_max_iter rs)%Z)%bool = false).
  { destruct H as [-> | H]; [reflexivity|]. apply andb_false_iff. right. apply Z.ltb_ge. exact H. }
  rewrite E. destruct (ldl_solve st rhs_perm); reflexivity.
Qed.

Theorem kkt_solve_r_off rs refine md d c o K st r :
  refine = false \/ (rs_max_iter rs <= 0)%Z ->
  kkt_solve_r rs refine md d c o K st r = kkt_solve md d c o st r.
Proof.
  intros H. unfold kkt_solve_r. rewrite <- solve_with_plain.
  unfold kkt_solve_with.
  repeat (match goal with |- bind ?x _ = bind ?x _ =>
            let v := fresh "v" in destruct x as [v|]; [cbn [bind]; try (destruct v as [[? ?] ?]); try (destruct v as [? ?]) | reflexivity] end).
  rewrite (refined_solve_off rs refine K st _ H). reflexivity.
Qed.

(* the whole refined solve performs 1 + k LDL^T solves with k <= max_iter *)
Theorem refined_solve_fuel rs K st rhs_perm sol :
  refined_solve rs true K st rhs_perm = Ok sol -> (0 < rs_max_iter rs)%Z ->
  exists sol0 k, ldl_solve st rhs_perm = Ok sol0 /\
    refine_solves rs K st rhs_perm (norm_inf rhs_perm) (Z.to_nat (rs_max_iter rs)) sol0 (kresid K rhs_perm sol0) (norm_inf (kresid K rhs_perm sol0)) = Ok k /\
    (Z.of_nat k <= rs_max_iter rs)%Z.
Proof.
  intros H Hpos. unfold refined_solve in H. apply bind_ok in H as (sol0 & H0 & H).
  apply Z.ltb_lt in Hpos. rewrite Hpos in H. cbn [andb] in H.
  apply bind_ok in H as (_ & _ & H). apply bind_ok in H as (_ & _ & H).
  apply refine_loop_solves in H as (k & how & Hk & Hle & _).
  exists sol0, k. repeat split; auto. apply Z.ltb_lt in Hpos. lia.
Qed.

(* tolerance exit at the level of refined_solve *)
Theorem refined_solve_tol rs K st rhs_perm sol0 sol :
  ldl_solve st rhs_perm = Ok sol0 ->
  refined_solve rs true K st rhs_perm = Ok sol -> (0 < rs_max_iter rs)%Z ->
  refine_stop rs K st rhs_perm (norm_inf rhs_perm) (Z.to_nat (rs_max_iter rs)) sol0 (kresid K rhs_perm sol0) (norm_inf (kresid K rhs_perm sol0)) = Ok StopTol ->
  kres_norm K rhs_perm sol <= rs_eps_abs rs + rs_eps_rel rs * norm_inf rhs_perm.
Proof.
  intros H0 H Hpos Hs. unfold refined_solve in H. rewrite H0 in H. cbn [bind] in H.
  apply Z.ltb_lt in Hpos. rewrite Hpos in H. cbn [andb] in H.
  apply bind_ok in H as (_ & _ & H). apply bind_ok in H as (_ & _ & H).
  eapply refine_tol_loop; [| exact Hs | exact H]. reflexivity.
Qed.

(* exact factorisation (zero residual of the first solve), non-negative tolerance: refinement returns the first solve *)
Theorem refined_solve_exact_noop rs refine K st rhs_perm sol0 :
  ldl_solve st rhs_perm = Ok sol0 -> length sol0 = length rhs_perm -> nrows K = length rhs_perm -> ncols K = length rhs_perm ->
  kres_norm K rhs_perm sol0 = 0 -> 0 <= rs_eps_abs rs + rs_eps_rel rs * norm_inf rhs_perm ->
  refined_solve rs refine K st rhs_perm = Ok sol0.
Proof.
  intros H0 Hl Hr Hc Hz Ht. unfold refined_solve. rewrite H0. cbn [bind].
  destruct (refine && _)%bool; [|reflexivity].
  unfold chk_eq. rewrite Hl, Hr, Hc, Nat.eqb_refl. cbn [bind andb].
  apply (refine_loop_exact_noop rs K st rhs_perm (norm_inf rhs_perm) _ sol0 (kresid K rhs_perm sol0) Hz Ht).
Qed.

(* ---- solve = condensation ; linear solve ; recovery.  The two halves of kkt_solve_with as functions of their own ---- *)
(* everything up to ordering.perm: (delta_inv, rhs_z_bar, rhs, rhs_perm) *)
Definition kkt_rhs_perm (md : kmode) (d : sdata) (c : scal) (o : ordering) (r : step8) : res (F * Vec * Vec * Vec) :=
  let n := sd_n d in let p := sd_p d in let m := sd_m d in
  let N := mode_N md d in
  let delta := sc_delta c in
  do _ <- chk_eq n (t_x r) ;; do _ <- chk_eq p (t_y r) ;; do _ <- chk_eq m (t_z r) ;; do _ <- chk_eq m (t_s r) ;;
  do _ <- chk_eq m (sc_s c) ;; do _ <- chk_eq m (sc_z_inv c) ;;
  do zbar <- tab m (fun i => do a <- get (t_z r) i ;; do zi <- get (sc_z_inv c) i ;; do b <- get (t_s r) i ;; Ok (a - zi * b)) ;;
  do '(dinv, zbar, rhs) <-
    match md with
    | MFull => Ok (0, zbar, t_x r ++ t_y r ++ zbar)
    | MEq =>
      do dinv <- qdiv 1 delta ;;
      do hd <- tab n (fun i => do a <- get (t_x r) i ;; do b <- get (spmv (sd_AT d) (t_y r)) i ;; Ok (a + dinv * b)) ;;
      Ok (dinv, zbar, hd ++ zbar)
    | MIneq =>
      do zbar <- div_w m (sc_s c) (sc_z_inv c) delta zbar ;;
      do hd <- tab n (fun i => do a <- get (t_x r) i ;; do b <- get (spmv (sd_GT d) zbar) i ;; Ok (a + b)) ;;
      Ok (0, zbar, hd ++ t_y r)
    | MAll =>
      do dinv <- qdiv 1 delta ;;
      do zbar <- div_w m (sc_s c) (sc_z_inv c) delta zbar ;;
      do hd <- tab n (fun i => do a <- get (t_x r) i ;; do b <- get (spmv (sd_GT d) zbar) i ;;
                               do e <- get (spmv (sd_AT d) (t_y r)) i ;; Ok (a + b + dinv * e)) ;;
      Ok (dinv, zbar, hd)
    end ;;
  do rhs <- fold_box (sd_nlb d) (sd_lbidx d) (sd_lbs d) (t_zlb r) (t_slb r) (sc_z_lb_inv c) (sc_s_lb c) delta true rhs ;;
  do rhs <- fold_box (sd_nub d) (sd_ubidx d) (sd_ubs d) (t_zub r) (t_sub r) (sc_z_ub_inv c) (sc_s_ub c) delta false rhs ;;
  do rhs_perm <- ord_perm o (repeat 0 N) rhs ;;
  Ok (dinv, zbar, rhs, rhs_perm).

(* everything from ordering.permt on *)
Definition kkt_recover (md : kmode) (d : sdata) (c : scal) (o : ordering) (r : step8) (dinv : F) (zbar rhs sol_perm : Vec) : res step8 :=
  let n := sd_n d in let p := sd_p d in let m := sd_m d in
  let delta := sc_delta c in
  do sol <- ord_permt o rhs sol_perm ;;
  let dx := head n sol in
  do '(dy, dz) <-
    match md with
    | MFull => Ok (segment n p sol, tail_from (n + p) sol)
    | MEq =>
      do dy <- tab p (fun l => do a <- get (spmtv (sd_AT d) dx) l ;; do b <- get (t_y r) l ;; Ok (dinv * a - dinv * b)) ;;
      Ok (dy, tail_from n sol)
    | MIneq =>
      do g <- div_w m (sc_s c) (sc_z_inv c) delta (spmtv (sd_GT d) dx) ;;
      do dz <- tab m (fun l => do a <- get g l ;; do b <- get zbar l ;; Ok (a - b)) ;;
      Ok (tail_from n sol, dz)
    | MAll =>
      do dy <- tab p (fun l => do a <- get (spmtv (sd_AT d) dx) l ;; do b <- get (t_y r) l ;; Ok (dinv * a - dinv * b)) ;;
      do g <- div_w m (sc_s c) (sc_z_inv c) delta (spmtv (sd_GT d) dx) ;;
      do dz <- tab m (fun l => do a <- get g l ;; do b <- get zbar l ;; Ok (a - b)) ;;
      Ok (dy, dz)
    end ;;
  do dzlb <- rec_box (sd_nlb d) (sd_lbidx d) (sd_lbs d) (t_zlb r) (t_slb r) (sc_z_lb_inv c) (sc_s_lb c) delta true dx ;;
  do dzub <- rec_box (sd_nub d) (sd_ubidx d) (sd_ubs d) (t_zub r) (t_sub r) (sc_z_ub_inv c) (sc_s_ub c) delta false dx ;;
  do ds <- rec_slack m (sc_s c) (sc_z_inv c) (t_s r) dz ;;
  do dslb <- rec_slack (sd_nlb d) (sc_s_lb c) (sc_z_lb_inv c) (t_slb r) dzlb ;;
  do dsub <- rec_slack (sd_nub d) (sc_s_ub c) (sc_z_ub_inv c) (t_sub r) dzub ;;
  Ok (mkstep8 dx dy dz dzlb dzub ds dslb dsub).

Theorem solve_with_split lin md d c o r :
  kkt_solve_with lin md d c o r =
  (do '(dinv, zbar, rhs, rp) <- kkt_rhs_perm md d c o r ;; do sp <- lin rp ;; kkt_recover md d c o r dinv zbar rhs sp).
Proof.
  unfold kkt_solve_with, kkt_rhs_perm. cbv zeta.
  repeat (match goal with |- bind ?x _ = _ =>
            let v := fresh "v" in destruct x as [v|]; [cbn [bind]; try (destruct v as [[? ?] ?]) | reflexivity] end).
  reflexivity.
Qed.

(* the plain solve of KKTSparseSolve.v in the same form *)
Corollary kkt_solve_split md d c o st r :
  kkt_solve md d c o st r =
  (do '(dinv, zbar, rhs, rp) <- kkt_rhs_perm md d c o r ;; do sp <- ldl_solve st rp ;; kkt_recover md d c o r dinv zbar rhs sp).
Proof. rewrite <- solve_with_plain. apply solve_with_split. Qed.

(* ---- T : what KKT::solve(.., iterative_refinement) returns: the recovery applied to a permuted solution whose residual
        w.r.t. the UNregularised permuted matrix is not larger than that of the first LDL^T solve ---- *)
Theorem kkt_solve_r_spec rs refine md d c o K st r v :
  kkt_solve_r rs refine md d c o K st r = Ok v ->
  exists dinv zbar rhs rp sol0 sol,
    kkt_rhs_perm md d c o r = Ok (dinv, zbar, rhs, rp) /\
    ldl_solve st rp = Ok sol0 /\
    refined_solve rs refine K st rp = Ok sol /\
    kkt_recover md d c o r dinv zbar rhs sol = Ok v /\
    (1 <= rs_min_rate rs -> kres_norm K rp sol <= kres_norm K rp sol0).
Proof.
  intros H. unfold kkt_solve_r in H. rewrite solve_with_split in H.
  apply bind_ok in H as ([[[dinv zbar] rhs] rp] & H1 & H). apply bind_ok in H as (sol & H2 & H).
  assert (H0 : exists sol0, ldl_solve st rp = Ok sol0).
  { unfold refined_solve in H2. destruct (ldl_solve st rp) as [s0|]; [eauto | discriminate]. }
  destruct H0 as (sol0 & H0).
  exists dinv, zbar, rhs, rp, sol0, sol. split; [exact H1|]. split; [exact H0|]. split; [exact H2|]. split; [exact H|].
  intros Hrate. eapply refined_solve_monotone; eassumption.
Qed.

(* ================================================================ Part C : regularize_kkt / unregularize_kkt *)

Lemma foldM_pres_inv {A S} (P : S -> Prop) (f : S -> A -> res S) l :
  (forall s a s', In a l -> P s -> f s a = Ok s' -> P s') -> forall s s', P s -> foldM f l s = Ok s' -> P s'.
Proof.
  induction l as [|a l IH]; intros Hstep s s' Hs H; cbn [foldM] in H.
  - injection H as <-. exact Hs.
  - apply bind_ok in H as (s1 & H1 & H). eapply IH; [| | exact H].
    + intros. eapply Hstep; eauto. right. assumption.
    + eapply Hstep; eauto. left. reflexivity.
Qed.

Lemma foldM_seq_inv {S} (I : nat -> S -> Prop) (f : nat -> S -> res S) k : forall lo s s',
  I lo s ->
  (forall i s s', (lo <= i < lo + k)%nat -> I i s -> f i s = Ok s' -> I (Datatypes.S i) s') ->
  foldM (fun s i => f i s) (seq lo k) s = Ok s' -> I (lo + k)%nat s'.
Proof.
  induction k as [|k IH]; intros lo s s' H0 Hstep H; cbn [seq foldM] in H.
  - injection H as <-. rewrite Nat.add_0_r. exact H0.
  - apply bind_ok in H as (s1 & H1 & H).
    replace (lo + Datatypes.S k)%nat with (Datatypes.S lo + k)%nat by lia.
    eapply IH; [| | exact H].
    + eapply Hstep; [| exact H0 | exact H1]. lia.
    + intros. eapply Hstep; eauto. lia.
Qed.

Lemma for_range_inv {S} (I : nat -> S -> Prop) lo hi (f : nat -> S -> res S) s s' :
  (lo <= hi)%nat -> I lo s ->
  (forall i s s', (lo <= i < hi)%nat -> I i s -> f i s = Ok s' -> I (Datatypes.S i) s') ->
  for_range lo hi f s = Ok s' -> I hi s'.
Proof.
  intros Hle H0 Hstep H. unfold for_range in H.
  replace hi with (lo + (hi - lo))%nat by lia.
  eapply foldM_seq_inv; [exact H0 | | exact H]. intros. eapply Hstep; eauto. lia.
Qed.

Lemma for_range_pres {S} (P : S -> Prop) lo hi (f : nat -> S -> res S) s s' :
  P s -> (forall i s s', (lo <= i < hi)%nat -> P s -> f i s = Ok s' -> P s') ->
  for_range lo hi f s = Ok s' -> P s'.
Proof.
  intros H0 Hstep H. unfold for_range in H.
  eapply foldM_pres_inv; [| exact H0 | exact H].
  intros s0 a s1 Hin. apply in_seq in Hin. apply Hstep. lia.
Qed.

Lemma pred_chk_ok e q : pred_chk e = Ok q -> e = Datatypes.S q.
Proof. destruct e; cbn; [discriminate|]. intros [= <-]. reflexivity. Qed.

Lemma set_vals_id (K : csc F) : set_vals K (vals K) = K.
Proof. destruct K; reflexivity. Qed.
Lemma set_vals_set (K : csc F) a b : set_vals (set_vals K a) b = set_vals K b.
Proof. reflexivity. Qed.

Section Diag.
  Variable N : nat.
  Variable kp : list nat.
  Hypothesis Hkp : length kp = Datatypes.S N.

  (* position of the last stored entry of column c: PKPt.outerIndexPtr()[c + 1] - 1 *)
  Definition dq (c : nat) : nat := (nth (Datatypes.S c) kp 0 - 1)%nat.

  Definition addr_ok (len : nat) : Prop := forall c, (c < N)%nat -> (1 <= nth (Datatypes.S c) kp 0)%nat /\ (dq c < len)%nat.

  Lemma hit_dec_gen j : forall M, (exists c, (c < M)%nat /\ j = dq c) \/ (forall c, (c < M)%nat -> j <> dq c).
  Proof.
    induction M as [|M IH].
    - right. intros; lia.
    - destruct IH as [(c0 & Hc & E) | Hn].
      + left. exists c0. split; [lia | exact E].
      + destruct (Nat.eq_dec j (dq M)) as [E|E].
        * left. exists M. split; [lia | exact E].
        * right. intros c0 Hc. destruct (Nat.eq_dec c0 M) as [->|]; [exact E | apply Hn; lia].
  Qed.
  Lemma hit_dec j : (exists c, (c < N)%nat /\ j = dq c) \/ (forall c, (c < N)%nat -> j <> dq c).
  Proof. apply hit_dec_gen. Qed.

  (* save: kd(c) = kx(dq c); the run certifies the addressing *)
  Lemma save_diag_spec kx kd0 kd : save_diag kp N kx kd0 = Ok kd ->
    length kd = length kd0 /\ (N <= length kd)%nat /\ addr_ok (length kx) /\
    forall c, (c < N)%nat -> nth c kd 0 = nth (dq c) kx 0.
  Proof.
    intros H. unfold save_diag in H.
    apply (for_range_inv (fun i (s : Vec) => length s = length kd0 /\ (i <= length s)%nat /\
             forall c, (c < i)%nat -> (1 <= nth (Datatypes.S c) kp 0)%nat /\ (dq c < length kx)%nat /\ nth c s 0 = nth (dq c) kx 0)) in H.
    - destruct H as (H1 & H2 & H3). split; [exact H1|]. split; [exact H2|]. split.
      + intros c0 Hc. destruct (H3 c0 Hc) as (A & B & _). split; assumption.
      + intros c0 Hc. apply H3. exact Hc.
    - lia.
    - split; [reflexivity|]. split; [lia|]. intros; lia.
    - intros i s s' Hi (L & Li & Hc) Hf.
      apply bind_ok in Hf as (e & He & Hf). apply bind_ok in Hf as (q & Hq & Hf). apply bind_ok in Hf as (v & Hv & Hf).
      apply get_ok in He as [_ He]. apply pred_chk_ok in Hq. apply get_ok in Hv as [Hvl Hv]. apply upd_ok in Hf as (Hil & Hl' & Hn).
      assert (Eq : dq i = q). { unfold dq. rewrite (He 0%nat), Hq. lia. }
      split; [congruence|]. split; [lia|].
      intros c0 Hc'. rewrite Hn. destruct (Nat.eqb_spec c0 i) as [->|Hne].
      + rewrite Eq. split; [rewrite (He 0%nat); lia|]. split; [assumption | symmetry; apply Hv].
      + apply Hc. lia.
  Qed.

  (* shift: only positions dq c (c < N) are touched, lengths kept *)
  Lemma shift_diag_frame pinv lo hi sh neg kx kx' : shift_diag pinv kp lo hi sh neg kx = Ok kx' ->
    length kx' = length kx /\ forall j, (forall c, (c < N)%nat -> j <> dq c) -> nth j kx' 0 = nth j kx 0.
  Proof.
    intros H. unfold shift_diag in H.
    apply (for_range_pres (fun s : Vec => length s = length kx /\ forall j, (forall c, (c < N)%nat -> j <> dq c) -> nth j s 0 = nth j kx 0)) in H; auto.
    intros i s s' _ (L & Hfr) Hf.
    apply bind_ok in Hf as (q & Hq & Hf). apply bind_ok in Hf as (old & _ & Hf). apply upd_ok in Hf as (_ & Hl' & Hn).
    unfold dpos in Hq. apply bind_ok in Hq as (c & Hc & Hq). apply bind_ok in Hq as (e & He & Hq).
    apply get_ok in He as [Hel He]. apply pred_chk_ok in Hq.
    assert (HcN : (c < N)%nat) by lia.
    assert (Eq : dq c = q). { unfold dq. rewrite (He 0%nat), Hq. lia. }
    split; [congruence|]. intros j Hj. rewrite Hn.
    destruct (Nat.eqb_spec j q) as [->|_]; [exfalso; apply (Hj c HcN); symmetry; exact Eq | apply Hfr; exact Hj].
  Qed.

  (* restore on any value array that agrees with kx off the diagonal positions gives kx back *)
  Lemma restore_diag_spec kx kd kx2 : addr_ok (length kx) -> (N <= length kd)%nat ->
    (forall c, (c < N)%nat -> nth c kd 0 = nth (dq c) kx 0) ->
    length kx2 = length kx -> (forall j, (forall c, (c < N)%nat -> j <> dq c) -> nth j kx2 0 = nth j kx 0) ->
    restore_diag kp N kd kx2 = Ok kx.
  Proof.
    intros Ha Hkd Hsv L2 Hfr. unfold restore_diag.
    destruct (for_range_ind (fun i (s : Vec) => length s = length kx /\
                (forall c, (c < i)%nat -> nth (dq c) s 0 = nth (dq c) kx 0) /\
                (forall j, (forall c, (c < N)%nat -> j <> dq c) -> nth j s 0 = nth j kx 0)) 0 N
              (fun col kx0 => do e <- get kp (Datatypes.S col) ;; do q <- pred_chk e ;; do v <- get kd col ;; upd kx0 q v) kx2) as (s' & E & (L & Hd & Hf)).
    - lia.
    - split; [exact L2|]. split; [intros; lia | exact Hfr].
    - intros i s Hi (L & Hd & Hf).
      destruct (Ha i) as [H1 Hq]; [lia|].
      rewrite (get_nth kp (Datatypes.S i) 0%nat) by lia. cbn [bind].
      destruct (nth (Datatypes.S i) kp 0%nat) as [|e'] eqn:Ee; [lia|]. cbn [pred_chk bind].
      rewrite (get_nth kd i 0) by lia. cbn [bind].
      assert (Eq : dq i = e'). { unfold dq. rewrite Ee. lia. }
      rewrite upd_lset by (rewrite L, <- Eq; exact Hq).
      eexists. split; [reflexivity|]. rewrite lset_length. split; [exact L|]. split.
      + intros c Hc. rewrite nth_lset by (rewrite L, <- Eq; exact Hq).
        destruct (Nat.eqb_spec (dq c) e') as [E1|E1].
        * rewrite Hsv by lia. rewrite Eq, E1. reflexivity.
        * apply Hd. destruct (Nat.eq_dec c i) as [->|]; [congruence | lia].
      + intros j Hj. rewrite nth_lset by (rewrite L, <- Eq; exact Hq).
        destruct (Nat.eqb_spec j e') as [E1|E1]; [exfalso; apply (Hj i); [lia | congruence] | apply Hf; exact Hj].
    - etransitivity; [exact E|]. f_equal. apply (nth_ext _ _ 0 0); [exact L|].
      intros j _. destruct (hit_dec j) as [(c & Hc & ->) | Hn]; [apply Hd; exact Hc | apply Hf; exact Hn].
  Qed.
End Diag.

(* ---- T : unregularize_kkt undoes regularize_kkt on the stored values, for EVERY ordering and addressing on which the
        regularisation runs without an index error: the only structural fact used is that the outer index has N + 1 entries *)
Theorem unregularize_restores n N pinv rho delta reg K kd0 Kr kd :
  length (colptr K) = Datatypes.S N ->
  kkt_regularize n N pinv rho delta reg K kd0 = Ok (Kr, kd) ->
  kkt_unregularize N Kr kd = Ok K.
Proof.
  intros Hkp H. unfold kkt_regularize in H.
  apply bind_ok in H as (kd1 & Hsave & H). apply bind_ok in H as (kx1 & Hs1 & H). apply bind_ok in H as (kx2 & Hs2 & H).
  injection H as <- <-.
  destruct (save_diag_spec N (colptr K) Hkp (vals K) kd0 kd1 Hsave) as (_ & HN & Ha & Hsv).
  destruct (shift_diag_frame N (colptr K) Hkp _ _ _ _ _ _ _ Hs1) as (L1 & F1).
  destruct (shift_diag_frame N (colptr K) Hkp _ _ _ _ _ _ _ Hs2) as (L2 & F2).
  unfold kkt_unregularize. cbn [colptr vals set_vals].
  rewrite (restore_diag_spec N (colptr K) Hkp (vals K) kd1 kx2 Ha HN Hsv).
  - cbn [bind]. rewrite set_vals_set, set_vals_id. reflexivity.
  - exact (eq_trans L2 L1).
  - intros j Hj. exact (eq_trans (F2 j Hj) (F1 j Hj)).
Qed.

(* ---- T : regularize_and_factorize(refine) leaves PKPt as it found it ---- *)
Theorem factorize_r_restores rs refine md d c o K st ok st' K' :
  length (colptr K) = Datatypes.S (mode_N md d) ->
  kkt_factorize_r rs refine md d c o K st = Ok (ok, st', K') -> K' = K.
Proof.
  intros Hkp H. unfold kkt_factorize_r in H. destruct refine.
  - cbv zeta in H. apply bind_ok in H as (reg & _ & H). apply bind_ok in H as ([Kr kd] & Hreg & H).
    apply bind_ok in H as ([r st1] & _ & H). apply bind_ok in H as (K1 & Hun & H). injection H as _ _ <-.
    rewrite (unregularize_restores _ _ _ _ _ _ _ _ _ _ Hkp Hreg) in Hun. injection Hun as <-. reflexivity.
  - apply bind_ok in H as ([ok1 st1] & _ & H). injection H as _ _ <-. reflexivity.
Qed.

Theorem factorize_r_false rs md d c o K st :
  kkt_factorize_r rs false md d c o K st = (do '(ok, st') <- kkt_factorize K st ;; Ok (ok, st', K)).
Proof. reflexivity. Qed.

(* ---- reg <= rho and reg <= delta: the regularisation is the identity and the factorisation is the plain one ---- *)
Lemma qmax0_nonpos x : x <= 0 -> qmax 0 x = 0.
Proof. intros H. unfold qmax. destruct (qltb 0 x) eqn:E; [|reflexivity]. apply qltb_lt in E. exfalso. exact (Qclt_not_le _ _ E H). Qed.

Lemma upd_same {A} (l : list A) i d : (i < length l)%nat -> upd l i (nth i l d) = Ok l.
Proof.
  revert i. induction l as [|a l IH]; intros i H; [cbn in H; lia|].
  destruct i; [reflexivity|]. cbn [upd nth]. rewrite IH by (cbn in H; lia). reflexivity.
Qed.

Lemma shift_diag_zero pinv kp lo hi neg kx kx' : shift_diag pinv kp lo hi 0 neg kx = Ok kx' -> kx' = kx.
Proof.
  intros H. unfold shift_diag in H.
  apply (for_range_pres (fun s : Vec => s = kx)) in H; auto.
  intros i s s' _ -> Hf.
  apply bind_ok in Hf as (q & _ & Hf). apply bind_ok in Hf as (old & Ho & Hf). apply get_ok in Ho as [Hl Ho].
  pose proof (Ho 0) as Ho0. pose proof (upd_same kx q 0 Hl) as U. unfold Vec, F in *.
  assert (E : (if neg then old - 0 else old + 0) = nth q kx 0). { rewrite Ho0. destruct neg; ring. }
  rewrite E in Hf. rewrite U in Hf. injection Hf as <-. reflexivity.
Qed.

Theorem regularize_noop n N pinv rho delta reg K kd0 Kr kd :
  reg <= rho -> reg <= delta ->
  kkt_regularize n N pinv rho delta reg K kd0 = Ok (Kr, kd) -> Kr = K.
Proof.
  intros Hr Hd H. unfold kkt_regularize in H.
  apply bind_ok in H as (kd1 & _ & H).
  assert (E1 : qmax 0 (reg - rho) = 0).
  { apply qmax0_nonpos. unfold Qcminus. rewrite <- (Qcplus_opp_r rho). apply Qcplus_le_compat; [exact Hr | apply Qcle_refl]. }
  assert (E2 : qmax 0 (reg - delta) = 0).
  { apply qmax0_nonpos. unfold Qcminus. rewrite <- (Qcplus_opp_r delta). apply Qcplus_le_compat; [exact Hd | apply Qcle_refl]. }
  rewrite E1, E2 in H.
  apply bind_ok in H as (kx1 & Hs1 & H). apply bind_ok in H as (kx2 & Hs2 & H). injection H as <- _.
  apply shift_diag_zero in Hs1. subst kx1. apply shift_diag_zero in Hs2. subst kx2. apply set_vals_id.
Qed.

Theorem factorize_r_noop rs md d c o K st reg ok st' K' :
  length (colptr K) = Datatypes.S (mode_N md d) ->
  kkt_reg rs d c = Ok reg -> reg <= sc_rho c -> reg <= sc_delta c ->
  kkt_factorize_r rs true md d c o K st = Ok (ok, st', K') ->
  kkt_factorize K st = Ok (ok, st') /\ K' = K.
Proof.
  intros Hkp Hreg Hr Hd H. split; [| eapply factorize_r_restores; eassumption].
  unfold kkt_factorize_r in H. cbv zeta in H. rewrite Hreg in H. cbn [bind] in H.
  apply bind_ok in H as ([Kr kd] & Hrg & H).
  apply (regularize_noop _ _ _ _ _ _ _ _ _ _ Hr Hd) in Hrg. subst Kr.
  apply bind_ok in H as ([r st1] & Hnum & H). apply bind_ok in H as (K1 & _ & H). injection H as <- <- _.
  unfold kkt_factorize. rewrite Hnum. reflexivity.
Qed.

(* ---- T : the values regularize_kkt writes, when the diagonal addressing is one-to-one (every column of PKPt stores its
        diagonal entry last -- what init establishes -- and ordering.inv is a permutation of [0, N)) ---- *)
Section RegVals.
  Variables (N : nat) (kp pinv : list nat).
  Hypothesis Hkp : length kp = Datatypes.S N.
  Hypothesis Hrange : forall a, (a < N)%nat -> (nth a pinv 0 < N)%nat.
  Hypothesis Hinj_p : forall a b, (a < N)%nat -> (b < N)%nat -> nth a pinv 0%nat = nth b pinv 0%nat -> a = b.
  Hypothesis Hinj_q : forall a b, (a < N)%nat -> (b < N)%nat -> dq kp a = dq kp b -> a = b.

  Let Q (col : nat) : nat := dq kp (nth col pinv 0%nat).

  Lemma Q_inj a b : (a < N)%nat -> (b < N)%nat -> Q a = Q b -> a = b.
  Proof. intros Ha Hb E. apply Hinj_p; [exact Ha | exact Hb |]. apply Hinj_q; [apply Hrange; exact Ha | apply Hrange; exact Hb | exact E]. Qed.

  Lemma shift_diag_vals lo hi sh neg (kx kx' : list Qc) : (lo <= hi)%nat -> (hi <= N)%nat ->
    shift_diag pinv kp lo hi sh neg kx = Ok kx' ->
    forall col, (col < N)%nat ->
      nth (Q col) kx' 0 = nth (Q col) kx 0 + (if ((lo <=? col) && (col <? hi))%nat then (if neg then - sh else sh) else 0).
  Proof.
    intros Hle HhN H. unfold shift_diag in H.
    apply (for_range_inv (fun i (s : list Qc) => length s = length kx /\ forall col, (col < N)%nat ->
             nth (Q col) s 0 = nth (Q col) kx 0 + (if ((lo <=? col) && (col <? i))%nat then (if neg then - sh else sh) else 0))) in H.
    - apply H.
    - exact Hle.
    - split; [reflexivity|]. intros col Hc.
      assert (E : ((lo <=? col) && (col <? lo))%nat = false).
      { destruct (Nat.leb_spec lo col); destruct (Nat.ltb_spec col lo); cbn; auto; lia. }
      rewrite E. ring.
    - intros i s s' Hi (L & Hv) Hf.
      apply bind_ok in Hf as (q & Hq & Hf). apply bind_ok in Hf as (old & Ho & Hf).
      apply get_ok in Ho as [_ Ho]. apply upd_ok in Hf as (Hql & Hl' & Hn).
      unfold dpos in Hq. apply bind_ok in Hq as (c0 & Hc0 & Hq). apply bind_ok in Hq as (e & He & Hq).
      apply get_ok in Hc0 as [_ Hc0]. apply get_ok in He as [_ He]. apply pred_chk_ok in Hq.
      assert (Eq : Q i = q). { unfold Q, dq. rewrite (Hc0 0%nat), (He 0%nat), Hq. lia. }
      split; [exact (eq_trans Hl' L)|]. intros col Hc. rewrite Hn.
      destruct (Nat.eqb_spec (Q col) q) as [E1|E1].
      + assert (col = i) by (apply Q_inj; [exact Hc | lia | congruence]). subst col.
        assert (E2 : ((lo <=? i) && (i <? Datatypes.S i))%nat = true).
        { destruct (Nat.leb_spec lo i); destruct (Nat.ltb_spec i (Datatypes.S i)); cbn; auto; lia. }
        rewrite E2. rewrite <- (Ho 0), <- Eq, (Hv i Hc).
        assert (E3 : ((lo <=? i) && (i <? i))%nat = false).
        { destruct (Nat.leb_spec lo i); destruct (Nat.ltb_spec i i); cbn; auto; lia. }
        rewrite E3. destruct neg; ring.
      + rewrite (Hv col Hc).
        assert (Hne : col <> i) by (intros ->; apply E1; exact Eq).
        assert (E2 : (col <? Datatypes.S i)%nat = (col <? i)%nat).
        { destruct (Nat.ltb_spec col (Datatypes.S i)); destruct (Nat.ltb_spec col i); auto; lia. }
        rewrite E2. reflexivity.
  Qed.
End RegVals.

Theorem regularize_values n N pinv rho delta reg K kd0 Kr kd :
  length (colptr K) = Datatypes.S N -> (n <= N)%nat ->
  (forall a, (a < N)%nat -> (nth a pinv 0 < N)%nat) ->
  (forall a b, (a < N)%nat -> (b < N)%nat -> nth a pinv 0%nat = nth b pinv 0%nat -> a = b) ->
  (forall a b, (a < N)%nat -> (b < N)%nat -> dq (colptr K) a = dq (colptr K) b -> a = b) ->
  kkt_regularize n N pinv rho delta reg K kd0 = Ok (Kr, kd) ->
  nrows Kr = nrows K /\ ncols Kr = ncols K /\ colptr Kr = colptr K /\ rowind Kr = rowind K /\ length (vals Kr) = length (vals K) /\
  (forall col, (col < N)%nat ->
     nth (dq (colptr K) (nth col pinv 0%nat)) (vals Kr) 0 =
     nth (dq (colptr K) (nth col pinv 0%nat)) (vals K) 0 + (if (col <? n)%nat then qmax 0 (reg - rho) else - qmax 0 (reg - delta))) /\
  (forall j, (forall c, (c < N)%nat -> j <> dq (colptr K) c) -> nth j (vals Kr) 0 = nth j (vals K) 0).
Proof.
  intros Hkp HnN Hrange Hip Hiq H. unfold kkt_regularize in H.
  apply bind_ok in H as (kd1 & _ & H). apply bind_ok in H as (kx1 & Hs1 & H). apply bind_ok in H as (kx2 & Hs2 & H).
  injection H as <- _. cbn [nrows ncols colptr rowind vals set_vals].
  destruct (shift_diag_frame N (colptr K) Hkp _ _ _ _ _ _ _ Hs1) as (L1 & F1).
  destruct (shift_diag_frame N (colptr K) Hkp _ _ _ _ _ _ _ Hs2) as (L2 & F2).
  pose proof (shift_diag_vals N (colptr K) pinv Hkp Hrange Hip Hiq 0 n _ false _ _ (Nat.le_0_l n) HnN Hs1) as V1.
  pose proof (shift_diag_vals N (colptr K) pinv Hkp Hrange Hip Hiq n N _ true _ _ HnN (Nat.le_refl N) Hs2) as V2.
  split; [reflexivity|]. split; [reflexivity|]. split; [reflexivity|]. split; [reflexivity|]. split; [exact (eq_trans L2 L1)|]. split.
  - intros col Hc. pose proof (V2 col Hc) as W2. pose proof (V1 col Hc) as W1. unfold Vec, F in *. rewrite W2, W1. cbn [Nat.leb andb].
    destruct (Nat.ltb_spec col n) as [Hlt|Hge].
    + assert (E : ((n <=? col) && (col <? N))%nat = false) by (destruct (Nat.leb_spec n col); cbn; auto; lia).
      rewrite E. ring.
    + assert (E : ((n <=? col) && (col <? N))%nat = true).
      { destruct (Nat.leb_spec n col); destruct (Nat.ltb_spec col N); cbn; auto; lia. }
      rewrite E. ring.
  - intros j Hj. exact (eq_trans (F2 j Hj) (F1 j Hj)).
Qed.

(* ================================================================ Part D : evaluated instances (non-vacuity) *)
(* KKT_FULL, n = 1, p = 1, m = 0, no bounds, identity ordering:  P = [2], A = [1], rho = delta = 1/1024,
   PKPt = [[2 + rho, 1], [. , -delta]] (upper triangle stored).  static_regularization_rel = 0, eps_abs = 1e-6, eps_rel = 0. *)
Definition exq (a b : Z) : F := Q2Qc (Qmake a (Z.to_pos b)).
Definition ex_rho := exq 1 1024.
Definition ex_delta := exq 1 1024.
Definition ex_d : sdata :=
  mksdata 1 1 0 (mkcsc 1 1 [0;1]%nat [0]%nat [exq 2 1]) (mkcsc 1 1 [0;1]%nat [0]%nat [exq 1 1]) (mkcsc 1 0 [0]%nat [] [])
          0 0 [0]%nat [0]%nat [exq 1 1] [exq 1 1].
Definition ex_c : scal := mkscal ex_rho ex_delta [] [] [] [] [] [].
Definition ex_o : ordering := mkord [0;1]%nat [0;1]%nat.
Definition ex_K : csc F := mkcsc 2 2 [0;1;3]%nat [0;0;1]%nat [exq 2 1 + ex_rho; exq 1 1; - ex_delta].
Definition ex_rs (reg rate : F) (mi : Z) : rset := mkrset reg 0 (exq 1 1000000) 0 mi rate.

(* symbolic + regularised factorisation, first solve, refined solve and the observers, on the permuted right-hand side rp;
   result: (factor flag, PKPt restored, refined = first solution, residual strictly smaller, residual strictly larger,
            the first candidate is strictly worse than the first solution, number of extra solves, how the loop ended) *)
Definition ex_chain (rs : rset) (rp : Vec) : res (bool * bool * bool * bool * bool * bool * nat * rstop) :=
  do st0 <- kkt_symbolic ex_K ;;
  do '(ok, st, K') <- kkt_factorize_r rs true MFull ex_d ex_c ex_o ex_K st0 ;;
  do sol0 <- ldl_solve st rp ;;
  do sol <- refined_solve rs true ex_K st rp ;;
  do k <- refine_solves rs ex_K st rp (norm_inf rp) (Z.to_nat (rs_max_iter rs)) sol0 (kresid ex_K rp sol0) (norm_inf (kresid ex_K rp sol0)) ;;
  do how <- refine_stop rs ex_K st rp (norm_inf rp) (Z.to_nat (rs_max_iter rs)) sol0 (kresid ex_K rp sol0) (norm_inf (kresid ex_K rp sol0)) ;;
  do c1 <- ldl_solve st (kresid ex_K rp sol0) ;;
  Ok (ok, csc_eqb K' ex_K, vec_eqb sol sol0,
      qltb (kres_norm ex_K rp sol) (kres_norm ex_K rp sol0), qltb (kres_norm ex_K rp sol0) (kres_norm ex_K rp sol),
      qltb (kres_norm ex_K rp sol0) (kres_norm ex_K rp (vadd sol0 c1)), k, how).

(* reg = 1/4 > rho, delta; valid settings (min rate 5, max_iter 10): 8 extra solves, the loop ends by the tolerance test and the
   residual of the unregularised system strictly improves; the matrix is restored *)
Example ex_refine_improves :
  ex_chain (ex_rs (exq 1 4) (exq 5 1) 10) [exq 1 1; exq 1 1] = Ok (true, true, false, true, false, false, 8%nat, StopTol).
Proof. vm_compute. reflexivity. Qed.

(* reg = 4, a right-hand side for which the first refinement step is strictly WORSE: with min_improvement_rate = 5 (or 1) the
   candidate is rejected (the first solution is returned after one extra solve); the code path "improvement_rate > 1" decides *)
Example ex_refine_rejects_worse :
  ex_chain (ex_rs (exq 4 1) (exq 5 1) 10) [exq (-7) 4; exq 3 4] = Ok (true, true, true, false, false, true, 1%nat, StopRate) /\
  ex_chain (ex_rs (exq 4 1) (exq 1 1) 10) [exq (-7) 4; exq 3 4] = Ok (true, true, true, false, false, true, 1%nat, StopRate).
Proof. split; vm_compute; reflexivity. Qed.

(* the hypothesis 1 <= min_improvement_rate of refine_monotone is necessary: with the (invalid) rate 1/2 the same instance
   returns a solution whose residual is strictly larger than that of the first solve *)
Example ex_refine_needs_rate :
  ex_chain (ex_rs (exq 4 1) (exq 1 2) 3) [exq (-7) 4; exq 3 4] = Ok (true, true, false, false, true, true, 3%nat, StopFuel).
Proof. vm_compute. reflexivity. Qed.

(* the same facts as an existential statement about the model functions *)
Theorem ex_refine_improves_exists : exists st0 st sol0 sol,
  kkt_symbolic ex_K = Ok st0 /\
  kkt_factorize_r (ex_rs (exq 1 4) (exq 5 1) 10) true MFull ex_d ex_c ex_o ex_K st0 = Ok (true, st, ex_K) /\
  ldl_solve st [exq 1 1; exq 1 1] = Ok sol0 /\
  refined_solve (ex_rs (exq 1 4) (exq 5 1) 10) true ex_K st [exq 1 1; exq 1 1] = Ok sol /\
  kres_norm ex_K [exq 1 1; exq 1 1] sol < kres_norm ex_K [exq 1 1; exq 1 1] sol0.
Proof.
  pose proof ex_refine_improves as H. unfold ex_chain in H.
  apply bind_ok in H as (st0 & H0 & H). apply bind_ok in H as ([[ok st] K'] & H1 & H).
  apply bind_ok in H as (sol0 & H2 & H). apply bind_ok in H as (sol & H3 & H).
  apply bind_ok in H as (k & _ & H). apply bind_ok in H as (how & _ & H). apply bind_ok in H as (c1 & _ & H).
  injection H as Eok EK _ Elt _ _ _ _.
  exists st0, st, sol0, sol. split; [exact H0|]. split.
  - assert (EK' : K' = ex_K).
    { eapply factorize_r_restores; [|exact H1]. reflexivity. }
    rewrite H1, Eok, EK'. reflexivity.
  - split; [exact H2|]. split; [exact H3|]. apply qltb_lt. exact Elt.
Qed.

(* the hypotheses of regularize_values hold on the instance, and the values it predicts are the computed ones *)
Example ex_regularize_values :
  length (colptr ex_K) = 3%nat /\ (1 <= 2)%nat /\
  (forall a, (a < 2)%nat -> (nth a (oPinv ex_o) 0 < 2)%nat) /\
  (forall a b, (a < 2)%nat -> (b < 2)%nat -> nth a (oPinv ex_o) 0%nat = nth b (oPinv ex_o) 0%nat -> a = b) /\
  (forall a b, (a < 2)%nat -> (b < 2)%nat -> dq (colptr ex_K) a = dq (colptr ex_K) b -> a = b) /\
  exists kd, kkt_regularize 1 2 (oPinv ex_o) ex_rho ex_delta (exq 1 4) ex_K [0; 0] =
             Ok (set_vals ex_K [exq 2 1 + ex_rho + (exq 1 4 - ex_rho); exq 1 1; - ex_delta - (exq 1 4 - ex_delta)], kd).
Proof.
  split; [reflexivity|]. split; [lia|]. split.
  { intros [|[|a]] Ha; cbn; lia. }
  split.
  { intros [|[|a]] [|[|b]] Ha Hb; cbn; intros; try lia; reflexivity. }
  split.
  { intros [|[|a]] [|[|b]] Ha Hb; cbn; intros; try lia; reflexivity. }
  eexists. vm_compute. reflexivity.
Qed.
