(* PrecondSparse.v -- sparse/preconditioner.hpp : RuizEquilibration<T, I> (scale_data with both branches, unscale_data),
   transcribed on the CSC representation of CSC.v (P_utri, AT, GT are [csc F]; pre_mult_diagonal / post_mult_diagonal are the
   transcriptions of sparse/utils.hpp that live in CSC.v).

   Executable Gallina.  Every access to a CSC array and every read-modify-write of delta_iter inside the column loops goes
   through get/upd (Err Index when out of range), so a run that returns Ok performed no out-of-bounds access in those loops.

   What is transcribed how:
   * the preconditioner object is the record [Precond] of PrecondDense.v (the two classes have the same members).  As in the
     code, delta_iter / delta_iter_lb / delta_iter_ub ARE the members delta_inv / delta_lb_inv / delta_ub_inv (scratch
     aliasing): the loop state is just (preconditioner, data); delta_iter_cost IS delta_lb_inv, so the loop guard of the
     next iteration reads the cost scratch, and delta_iter_lb / delta_iter_ub are NOT zeroed before the loop (the sparse code
     only has delta_iter.setZero()).  Nothing of this is a flag here.
   * the three InnerIterator loop nests that compute the column norms of the KKT matrix from P_utri (upper triangle: every
     stored entry (i,j) updates slot j and, when i != j, slot i), AT and GT; the second P_utri loop nest of the cost scaling:
     [sp_norm_P], [sp_norm_rect] -- loop by loop, entry by entry.
   * pre_mult_diagonal / post_mult_diagonal: CSC.v.   data.P_utri *= gamma : every stored value v becomes v * gamma.
   * the statements that are textually the same in dense/preconditioner.hpp and sparse/preconditioner.hpp (bound loops,
     limit_scaling, sqrt().inverse(), the box-scaling updates, delta *= delta_iter, gamma, the final inversions, "scale
     bounds") are transcribed by the same helper terms as in PrecondDense.v (scatter_max, mul_gather, set_head, vmul,
     sqrt_inv, limit_scaling, ruiz_continue), applied to the packed heads head(n_lb) / head(n_ub).
   * sparse::Data keeps x_lb_idx, x_ub_idx, x_lb_n, x_ub at full length n with explicit n_lb / n_ub ([spdata]); only the
     heads are read or written, exactly as in the code.  delta_iter.tail(m) is [tail_from (n + p)] (the vector has n+p+m
     entries by init()). *)
From PIQP Require Import Base Data CSC PrecondDense.
From RecordUpdate Require Import RecordSet.
Import RecordSetNotations.
Local Open Scope Qc_scope.

(* sparse::Data<T, I> *)
Record spdata := mkspdata {
  sp_n : nat; sp_p : nat; sp_m : nat;
  sp_P : csc F;                        (* P_utri : n x n, upper triangle *)
  sp_AT : csc F;                       (* n x p *)
  sp_GT : csc F;                       (* n x m *)
  sp_c : Vec; sp_b : Vec; sp_h : Vec;
  sp_nlb : nat; sp_nub : nat;
  sp_lb_idx : list nat; sp_ub_idx : list nat;     (* length n; head(n_lb) / head(n_ub) meaningful *)
  sp_lb_scaling : Vec; sp_ub_scaling : Vec;       (* length n *)
  sp_lb_n : Vec; sp_ub : Vec                      (* length n; head(n_lb) / head(n_ub) meaningful *)
}.
#[export] Instance etaSpdata : Settable _ := settable! mkspdata
  <sp_n; sp_p; sp_m; sp_P; sp_AT; sp_GT; sp_c; sp_b; sp_h; sp_nlb; sp_nub; sp_lb_idx; sp_ub_idx;
   sp_lb_scaling; sp_ub_scaling; sp_lb_n; sp_ub>.

(* same pattern, new values *)
Definition csc_with_vals (A : csc F) (vx : list F) : csc F := mkcsc (nrows A) (ncols A) (colptr A) (rowind A) vx.
(* A *= g  (Eigen: every stored coefficient v becomes v * g) *)
Definition csc_scale (A : csc F) (g : F) : csc F := csc_with_vals A (map (fun v => v * g) (vals A)).

(* for (j = 0; j < n; j++) for (InnerIterator it(P_utri, j); it; ++it) {
     i_row = it.index();  d(j) = max(d(j), |it.value()|);  if (i_row != j) d(i_row) = max(d(i_row), |it.value()|); } *)
Definition sp_norm_P (P : csc F) (n : nat) (dv : Vec) : res Vec :=
  for_range 0 n (fun j dv =>
    do lo <- get (colptr P) j ;; do hi <- get (colptr P) (S j) ;;
    for_range lo hi (fun k dv =>
      do i_row <- get (rowind P) k ;; do v <- get (vals P) k ;;
      do a <- get dv j ;; do dv <- upd dv j (qmax a (qabs v)) ;;
      if (i_row =? j)%nat then Ok dv else
      do b <- get dv i_row ;; upd dv i_row (qmax b (qabs v))) dv) dv.

(* for (j = 0; j < cols; j++) for (InnerIterator it(MT, j); it; ++it) {
     i_row = it.index();  d(i_row) = max(d(i_row), |it.value()|);  d(off + j) = max(d(off + j), |it.value()|); } *)
Definition sp_norm_rect (M : csc F) (cols off : nat) (dv : Vec) : res Vec :=
  for_range 0 cols (fun j dv =>
    do lo <- get (colptr M) j ;; do hi <- get (colptr M) (S j) ;;
    for_range lo hi (fun k dv =>
      do i_row <- get (rowind M) k ;; do v <- get (vals M) k ;;
      do a <- get dv i_row ;; do dv <- upd dv i_row (qmax a (qabs v)) ;;
      do b <- get dv (off + j)%nat ;; upd dv (off + j)%nat (qmax b (qabs v))) dv) dv.

Section SpRuiz.
Variable K : Consts.

(* the body of the for loop of scale_data (fresh branch); the state is (preconditioner, data) *)
Definition sp_ruiz_iter (scale_cost : bool) (st : Precond * spdata) : res (Precond * spdata) :=
  let pc := fst st in let d := snd st in
  let n := pc_n pc in let p := pc_p pc in let m := pc_m pc in
  let nlb := pc_nlb pc in let nub := pc_nub pc in
  let lb_idx := head nlb (sp_lb_idx d) in let ub_idx := head nub (sp_ub_idx d) in
  (* delta_iter.setZero() *)
  let it := vconst (length (pc_delta_inv pc)) 0 in
  (* column norms of [P AT GT; A 0 0; G 0 0] *)
  do it <- sp_norm_P (sp_P d) n it ;;
  do it <- sp_norm_rect (sp_AT d) p n it ;;
  do it <- sp_norm_rect (sp_GT d) m (n + p) it ;;
  do it <- scatter_max it lb_idx (head nlb (sp_lb_scaling d)) ;;
  let it_lb := set_head (head nlb (sp_lb_scaling d)) (pc_delta_lb_inv pc) in
  do it <- scatter_max it ub_idx (head nub (sp_ub_scaling d)) ;;
  let it_ub := set_head (head nub (sp_ub_scaling d)) (pc_delta_ub_inv pc) in
  (* limit_scaling; sqrt().inverse() *)
  do it1 <- sqrt_inv (map (limit_scaling K) it) ;;
  do it_lb1 <- sqrt_inv (map (limit_scaling K) it_lb) ;;
  do it_ub1 <- sqrt_inv (map (limit_scaling K) it_ub) ;;
  let sx := head n it1 in let sy := segment n p it1 in let sz := tail_from (n + p) it1 in
  (* scale cost *)
  do P1 <- pre_mult_diagonal (sp_P d) sx ;;
  do P2 <- post_mult_diagonal P1 sx ;;
  let c1 := vmul (sp_c d) sx in
  (* scale AT and GT *)
  do AT1 <- pre_mult_diagonal (sp_AT d) sx ;;
  do AT2 <- post_mult_diagonal AT1 sy ;;
  do GT1 <- pre_mult_diagonal (sp_GT d) sx ;;
  do GT2 <- post_mult_diagonal GT1 sz ;;
  (* scale box scalings *)
  let lbs0 := set_head (vmul (head nlb (sp_lb_scaling d)) (head nlb it_lb1)) (sp_lb_scaling d) in
  do lbs1 <- mul_gather lbs0 it1 lb_idx ;;
  let ubs0 := set_head (vmul (head nub (sp_ub_scaling d)) (head nub it_ub1)) (sp_ub_scaling d) in
  do ubs1 <- mul_gather ubs0 it1 ub_idx ;;
  let delta1 := vmul (pc_delta pc) it1 in
  let dlb1 := set_head (vmul (head nlb (pc_delta_lb pc)) (head nlb it_lb1)) (pc_delta_lb pc) in
  let dub1 := set_head (vmul (head nub (pc_delta_ub pc)) (head nub it_ub1)) (pc_delta_ub pc) in
  do '(P3, c2, cc, lb_scratch) <-
     (if scale_cost then
        (* Vec<T>& delta_iter_cost = delta_lb_inv;  delta_iter_cost.setZero(); *)
        let ic := vconst (length it_lb1) 0 in
        do ic <- sp_norm_P P2 n ic ;;
        do g1 <- qdiv (vsum ic) (qofnat n) ;;
        let g2 := limit_scaling K g1 in
        let g3 := limit_scaling K (qmax g2 (norm_inf c1)) in
        do g <- qinv g3 ;;
        Ok (csc_scale P2 g, vscale g c1, pc_c pc * g, ic)
      else Ok (P2, c1, pc_c pc, it_lb1)) ;;
  Ok (pc <| pc_c := cc |> <| pc_delta := delta1 |> <| pc_delta_lb := dlb1 |> <| pc_delta_ub := dub1 |>
         <| pc_delta_inv := it1 |> <| pc_delta_lb_inv := lb_scratch |> <| pc_delta_ub_inv := it_ub1 |>,
      d <| sp_P := P3 |> <| sp_c := c2 |> <| sp_AT := AT2 |> <| sp_GT := GT2 |>
        <| sp_lb_scaling := lbs1 |> <| sp_ub_scaling := ubs1 |>).

(* for (i = 0; i < max_iter && max(|1 - delta_iter|, |1 - delta_iter_lb.head(n_lb)|, |1 - delta_iter_ub.head(n_ub)|) > eps; i++) *)
Fixpoint sp_ruiz_loop (fuel : nat) (scale_cost : bool) (st : Precond * spdata) : res (Precond * spdata) :=
  match fuel with
  | O => Ok st
  | S f =>
      let pc := fst st in
      if ruiz_continue K (pc_nlb pc) (pc_nub pc) (pc_delta_inv pc) (pc_delta_lb_inv pc) (pc_delta_ub_inv pc)
      then do st' <- sp_ruiz_iter scale_cost st ;; sp_ruiz_loop f scale_cost st'
      else Ok st
  end.

(* "scale bounds": the common tail of scale_data *)
Definition sp_scale_bounds (pc : Precond) (d : spdata) : spdata :=
  let n := pc_n pc in let p := pc_p pc in let nlb := pc_nlb pc in let nub := pc_nub pc in
  d <| sp_b := vmul (sp_b d) (segment n p (pc_delta pc)) |>
    <| sp_h := vmul (sp_h d) (tail_from (n + p) (pc_delta pc)) |>
    <| sp_lb_n := set_head (vmul (head nlb (sp_lb_n d)) (head nlb (pc_delta_lb pc))) (sp_lb_n d) |>
    <| sp_ub := set_head (vmul (head nub (sp_ub d)) (head nub (pc_delta_ub pc))) (sp_ub d) |>.

(* the block shared by the reuse branch of scale_data (s = delta, cs = c, lb/ub = delta_lb/delta_ub) and unscale_data
   (s = delta_inv, cs = c_inv, lb/ub = delta_lb_inv/delta_ub_inv): same statements, same order *)
Definition sp_apply_scaling (pc : Precond) (cs : F) (s s_lb s_ub : Vec) (d : spdata) : res spdata :=
  let n := pc_n pc in let p := pc_p pc in let nlb := pc_nlb pc in let nub := pc_nub pc in
  let sx := head n s in let sy := segment n p s in let sz := tail_from (n + p) s in
  let P0 := csc_scale (sp_P d) cs in
  do P1 <- pre_mult_diagonal P0 sx ;;
  do P2 <- post_mult_diagonal P1 sx ;;
  let c1 := vmul (sp_c d) (vscale cs sx) in
  do AT1 <- pre_mult_diagonal (sp_AT d) sx ;;
  do AT2 <- post_mult_diagonal AT1 sy ;;
  do GT1 <- pre_mult_diagonal (sp_GT d) sx ;;
  do GT2 <- post_mult_diagonal GT1 sz ;;
  let lbs0 := set_head (vmul (head nlb (sp_lb_scaling d)) (head nlb s_lb)) (sp_lb_scaling d) in
  do lbs1 <- mul_gather lbs0 s (head nlb (sp_lb_idx d)) ;;
  let ubs0 := set_head (vmul (head nub (sp_ub_scaling d)) (head nub s_ub)) (sp_ub_scaling d) in
  do ubs1 <- mul_gather ubs0 s (head nub (sp_ub_idx d)) ;;
  Ok (d <| sp_P := P2 |> <| sp_c := c1 |> <| sp_AT := AT2 |> <| sp_GT := GT2 |>
        <| sp_lb_scaling := lbs1 |> <| sp_ub_scaling := ubs1 |>).

Definition sp_scale_data (pc0 : Precond) (d : spdata) (reuse scale_cost : bool) (max_it : Z) : res (Precond * spdata) :=
  (* n_lb = data.n_lb; n_ub = data.n_ub; *)
  let pc := pc0 <| pc_nlb := sp_nlb d |> <| pc_nub := sp_nub d |> in
  if reuse then
    do d1 <- sp_apply_scaling pc (pc_c pc) (pc_delta pc) (pc_delta_lb pc) (pc_delta_ub pc) d ;;
    Ok (pc, sp_scale_bounds pc d1)
  else
    (* c = 1; delta.setConstant(1); delta_lb.setConstant(1); delta_ub.setConstant(1); delta_iter.setZero(); *)
    let pc1 := pc <| pc_c := 1 |> <| pc_delta := vconst (length (pc_delta pc)) 1 |>
                  <| pc_delta_lb := vconst (length (pc_delta_lb pc)) 1 |>
                  <| pc_delta_ub := vconst (length (pc_delta_ub pc)) 1 |>
                  <| pc_delta_inv := vconst (length (pc_delta_inv pc)) 0 |> in
    do st <- sp_ruiz_loop (Z.to_nat max_it) scale_cost (pc1, d) ;;
    let pc2 := fst st in
    do ci <- qinv (pc_c pc2) ;;
    do di <- vinv (pc_delta pc2) ;;
    do dlbi <- vinv (pc_delta_lb pc2) ;;
    do dubi <- vinv (pc_delta_ub pc2) ;;
    let pc3 := pc2 <| pc_c_inv := ci |> <| pc_delta_inv := di |> <| pc_delta_lb_inv := dlbi |> <| pc_delta_ub_inv := dubi |> in
    Ok (pc3, sp_scale_bounds pc3 (snd st)).

End SpRuiz.

Definition sp_unscale_bounds (pc : Precond) (d : spdata) : spdata :=
  let n := pc_n pc in let p := pc_p pc in let nlb := pc_nlb pc in let nub := pc_nub pc in
  d <| sp_b := vmul (sp_b d) (segment n p (pc_delta_inv pc)) |>
    <| sp_h := vmul (sp_h d) (tail_from (n + p) (pc_delta_inv pc)) |>
    <| sp_lb_n := set_head (vmul (head nlb (sp_lb_n d)) (head nlb (pc_delta_lb_inv pc))) (sp_lb_n d) |>
    <| sp_ub := set_head (vmul (head nub (sp_ub d)) (head nub (pc_delta_ub_inv pc))) (sp_ub d) |>.

Definition sp_unscale_data (pc : Precond) (d : spdata) : res spdata :=
  do d1 <- sp_apply_scaling pc (pc_c_inv pc) (pc_delta_inv pc) (pc_delta_lb_inv pc) (pc_delta_ub_inv pc) d ;;
  Ok (sp_unscale_bounds pc d1).

(* RuizEquilibration::init *)
Definition sp_precond_init (d : spdata) : Precond :=
  let n := sp_n d in let p := sp_p d in let m := sp_m d in
  {| pc_ident := false; pc_n := n; pc_p := p; pc_m := m; pc_nlb := sp_nlb d; pc_nub := sp_nub d;
     pc_c := 1; pc_delta := vconst (n + p + m) 1; pc_delta_lb := vconst n 1; pc_delta_ub := vconst n 1;
     pc_c_inv := 1; pc_delta_inv := vconst (n + p + m) 1; pc_delta_lb_inv := vconst n 1; pc_delta_ub_inv := vconst n 1 |}.

(* ---------- the dense view ---------- *)
Definition csc_to_dense (A : csc F) : Mat := mbuild (nrows A) (ncols A) (csc_get A).
Definition to_dense (d : spdata) : Data :=
  {| d_n := sp_n d; d_p := sp_p d; d_m := sp_m d;
     d_P := csc_to_dense (sp_P d); d_AT := csc_to_dense (sp_AT d); d_GT := csc_to_dense (sp_GT d);
     d_c := sp_c d; d_b := sp_b d; d_h := sp_h d;
     d_lb_idx := head (sp_nlb d) (sp_lb_idx d); d_ub_idx := head (sp_nub d) (sp_ub_idx d);
     d_lb_scaling := sp_lb_scaling d; d_ub_scaling := sp_ub_scaling d;
     d_lb_n := head (sp_nlb d) (sp_lb_n d); d_ub := head (sp_nub d) (sp_ub d) |}.
