(* PrecondProofs.v -- proofs about PrecondDense.v (dense Ruiz equilibration), property C15.
   Exact arithmetic (Qc); sqrtF is the concrete power-of-two square root of Base.v.
   Stdlib (+ RecordUpdate notations) only, no axioms.
   Contents:  A scalar facts, B list/vector/matrix facts, C wf_data / wf_pc / pc_inverse and the scale_X family,
     T4 scale_X / unscale_X pairs (scale_unscale_pairs),
     T2 unscale_data <-> scale_data(reuse) (unscale_scale_id, scale_unscale_id; both via the generic [xform]),
     T1 fresh branch: ruiz_iter_inv / ruiz_iter_preserves / ruiz_iter_ok, loop lemmas,
        scale_establishes_inverse, scale_fresh_ok,
     T3 scaled_data_is_transform (fresh; invariant rz_inv over ruiz_loop), scale_reuse_is_transform,
     T5 pc_reach / history_preserves_inverse / history_pairs_inverse / rescale_step,
     sparse quirk: every result is for both values of the flag [sparse_quirk] of PrecondDense.v (variable sq);
        sparse_quirk_only_changes_iteration_count (ruiz_iter_quirk_step, ruiz_loop_quirk). *)
From PIQP Require Import Base Data PrecondDense.
From RecordUpdate Require Import RecordSet.
Import RecordSetNotations.
From Coq Require Import Lia.
Local Open Scope Qc_scope.

(* ================================================================== *)
(** * A. scalar facts                                                   *)
(* ================================================================== *)

Lemma qeqb_true_iff a b : qeqb a b = true <-> a = b.
Proof.
  unfold qeqb. rewrite Qeq_bool_iff. split; intro H.
  - apply Qc_is_canon; exact H.
  - subst; reflexivity.
Qed.

Lemma qeqb_false_iff a b : qeqb a b = false <-> a <> b.
Proof.
  rewrite <- qeqb_true_iff. destruct (qeqb a b); split; congruence.
Qed.

Lemma qltb_true_iff a b : qltb a b = true <-> a < b.
Proof.
  unfold qltb, Qclt. rewrite negb_true_iff.
  destruct (Qle_bool (this b) (this a)) eqn:E.
  - apply Qle_bool_iff in E. split; [discriminate|]. intro H. exfalso. eapply Qlt_not_le; eauto.
  - split; [intros _|reflexivity]. apply Qnot_le_lt. intro H. apply Qle_bool_iff in H. congruence.
Qed.

Lemma qltb_false_iff a b : qltb a b = false <-> b <= a.
Proof.
  split; intro H.
  - apply Qcnot_lt_le. intro L. apply qltb_true_iff in L. congruence.
  - destruct (qltb a b) eqn:E; [|reflexivity]. apply qltb_true_iff in E.
    exfalso. eapply Qcle_not_lt; eauto.
Qed.

Lemma Qc_pos_neq0 x : 0 < x -> x <> 0.
Proof. intros H E. subst. eapply Qclt_not_eq; eauto. Qed.

Lemma Qc_0_lt_1 : (0:Qc) < 1.
Proof. reflexivity. Qed.

Lemma Qcmult_pos a b : 0 < a -> 0 < b -> 0 < a * b.
Proof.
  intros Ha Hb. rewrite <- (Qcmult_0_l b). apply Qcmult_lt_compat_r; assumption.
Qed.

Lemma Qcinv_pos a : 0 < a -> 0 < / a.
Proof.
  intros Ha. destruct (Qclt_le_dec 0 (/ a)) as [H|H]; [exact H|exfalso].
  assert (E : / a * a = 1) by (apply Qcmult_inv_l, Qc_pos_neq0, Ha).
  assert (L : / a * a <= 0 * a) by (apply Qcmult_le_compat_r; [exact H|apply Qclt_le_weak, Ha]).
  rewrite E, Qcmult_0_l in L. eapply Qcle_not_lt; [exact L|apply Qc_0_lt_1].
Qed.

Lemma Qcdiv1_pos a : 0 < a -> 0 < 1 / a.
Proof. intro H. unfold Qcdiv. rewrite Qcmult_1_l. apply Qcinv_pos, H. Qed.

Lemma Qc_mul_div1 a : a <> 0 -> a * (1 / a) = 1.
Proof. intro H. unfold Qcdiv. rewrite Qcmult_1_l. apply Qcmult_inv_r, H. Qed.

Lemma qdiv_ok a b : b <> 0 -> qdiv a b = Ok (a / b).
Proof. intro H. unfold qdiv. apply qeqb_false_iff in H. rewrite H. reflexivity. Qed.

Lemma qinv_ok b : b <> 0 -> qinv b = Ok (1 / b).
Proof. apply qdiv_ok. Qed.

Lemma qdiv_inv a b r : qdiv a b = Ok r -> b <> 0 /\ r = a / b.
Proof.
  unfold qdiv. destruct (qeqb b 0) eqn:E; [discriminate|]. intro H; inversion H.
  split; [apply qeqb_false_iff, E|reflexivity].
Qed.

Lemma qinv_inv b r : qinv b = Ok r -> b <> 0 /\ r = 1 / b.
Proof. apply qdiv_inv. Qed.

Lemma Q2Qc_pos q : (0 < q)%Q -> 0 < Q2Qc q.
Proof.
  intro H. unfold Qclt. simpl this. rewrite Qred_correct. exact H.
Qed.

Lemma pow2Z_pos k : 0 < pow2Z k.
Proof.
  destruct k; simpl.
  - apply Qc_0_lt_1.
  - unfold qofZ. apply Q2Qc_pos. unfold Qlt; simpl. rewrite Z.mul_1_r.
    change (Z.pow_pos 2 p) with (2 ^ Z.pos p)%Z. apply Z.pow_pos_nonneg; lia.
  - apply Q2Qc_pos. reflexivity.
Qed.

Lemma sqrtF_pos x : 0 < x -> exists r, sqrtF x = Ok r /\ 0 < r.
Proof.
  intro H. unfold sqrtF.
  assert (E1 : qeqb x 0 = false) by (apply qeqb_false_iff, Qc_pos_neq0, H).
  assert (E2 : qltb x 0 = false) by (apply qltb_false_iff, Qclt_le_weak, H).
  rewrite E1, E2. eexists; split; [reflexivity|apply pow2Z_pos].
Qed.

Lemma qofnat_neq0 n : (1 <= n)%nat -> qofnat n <> 0.
Proof.
  intros H E. unfold qofnat, qofZ in E. apply Q2Qc_eq_iff in E.
  unfold Qeq in E; simpl in E. lia.
Qed.

(* [ring]/[field] need the carrier to be syntactically Qc *)
Ltac qring := unfold mentry; change F with Qc; ring.
Ltac qfield := change F with Qc in *; field.
Ltac qlia := change F with Qc in *; lia.
(* reduce record projections only *)
Ltac psimpl := cbn [rz_d rz_pc rz_it rz_it_lb rz_it_ub d_n d_p d_m d_P d_AT d_GT d_c d_b d_h d_lb_idx d_ub_idx
  d_lb_scaling d_ub_scaling d_lb_n d_ub pc_ident pc_n pc_p pc_m pc_nlb pc_nub pc_c pc_delta pc_delta_lb pc_delta_ub
  pc_c_inv pc_delta_inv pc_delta_lb_inv pc_delta_ub_inv].


(* a * b = 1 cancellation helpers *)
Lemma mul_cancel_r a b x : a * b = 1 -> x * a * b = x.
Proof. intro H. rewrite <- Qcmult_assoc, H. qring. Qed.

(* ================================================================== *)
(** * B. list / vector / matrix facts                                   *)
(* ================================================================== *)

Lemma nth_firstn' {A} (l : list A) k i d : nth i (firstn k l) d = if Nat.ltb i k then nth i l d else d.
Proof.
  revert k i; induction l as [|a l IH]; intros [|k] [|i]; simpl; try reflexivity.
  - destruct (Nat.ltb _ _); reflexivity.
  - rewrite IH. reflexivity.
Qed.

Lemma nth_skipn' {A} (l : list A) k i d : nth i (skipn k l) d = nth (k + i) l d.
Proof.
  revert l; induction k as [|k IH]; intros [|a l]; simpl; try reflexivity.
  - destruct i; reflexivity.
  - apply IH.
Qed.

Lemma nth_segment {A} (l : list A) s k i d :
  nth i (segment s k l) d = if Nat.ltb i k then nth (s + i) l d else d.
Proof. unfold segment. rewrite nth_firstn', nth_skipn'. reflexivity. Qed.

Lemma length_segment {A} (l : list A) s k : (s + k <= length l)%nat -> length (segment s k l) = k.
Proof. intro H. unfold segment. rewrite firstn_length, skipn_length. lia. Qed.

Lemma length_head {A} (l : list A) k : (k <= length l)%nat -> length (head k l) = k.
Proof. intro H. unfold head. rewrite firstn_length. lia. Qed.

Lemma length_tail_from {A} (l : list A) k : length (tail_from k l) = (length l - k)%nat.
Proof. unfold tail_from. apply skipn_length. Qed.

Lemma nth_set_head {A} (w v : list A) i d :
  nth i (set_head w v) d = if Nat.ltb i (length w) then nth i w d else nth i v d.
Proof.
  unfold set_head. destruct (Nat.ltb i (length w)) eqn:E.
  - apply Nat.ltb_lt in E. apply app_nth1, E.
  - apply Nat.ltb_ge in E. rewrite app_nth2 by exact E. rewrite nth_skipn'. f_equal. lia.
Qed.

Lemma length_set_head {A} (w v : list A) : (length w <= length v)%nat -> length (set_head w v) = length v.
Proof. intro H. unfold set_head. rewrite app_length, skipn_length. lia. Qed.

Lemma length_vmul (a b : Vec) : length (vmul a b) = Nat.min (length a) (length b).
Proof. unfold vmul, vmap2. rewrite map_length, combine_length. reflexivity. Qed.

Lemma nth_vmul (a b : Vec) i : nth i (vmul a b) 0 = nth i a 0 * nth i b 0.
Proof.
  revert b i; induction a as [|x a IH]; intros b i.
  - destruct i; simpl; qring.
  - destruct b as [|y b]; destruct i as [|i]; simpl; try qring. apply IH.
Qed.

Lemma length_vscale k (a : Vec) : length (vscale k a) = length a.
Proof. apply map_length. Qed.

Lemma nth_vscale k (a : Vec) i : nth i (vscale k a) 0 = k * nth i a 0.
Proof.
  revert i; induction a as [|x a IH]; intros [|i]; simpl; try qring. apply IH.
Qed.

Lemma nth_vconst n k i d : (i < n)%nat -> nth i (vconst n k) d = k.
Proof.
  unfold vconst. revert i; induction n as [|n IH]; intros [|i] H; simpl; try lia; auto. apply IH; lia.
Qed.

Lemma length_vconst n k : length (vconst n k) = n.
Proof. apply repeat_length. Qed.

Lemma vec_ext (a b : Vec) :
  length a = length b -> (forall i, (i < length a)%nat -> nth i a 0 = nth i b 0) -> a = b.
Proof. intros L H. apply (nth_ext a b 0 0 L H). Qed.

(* (a .* b) .* c = a when b .* c = 1 on the support of a *)
Lemma vmul_vmul_cancel (a b c : Vec) :
  (length a <= length b)%nat -> (length a <= length c)%nat ->
  (forall i, (i < length a)%nat -> nth i b 0 * nth i c 0 = 1) ->
  vmul (vmul a b) c = a.
Proof.
  intros Lb Lc H. apply vec_ext.
  - rewrite !length_vmul. lia.
  - intros i Hi. rewrite !length_vmul in Hi. rewrite !nth_vmul.
    apply mul_cancel_r, H. lia.
Qed.

(* ---- Forall2 / mapM ---- *)
Lemma Forall2_len {A B} (R : A -> B -> Prop) l l' : Forall2 R l l' -> length l = length l'.
Proof. induction 1; simpl; congruence. Qed.

Lemma Forall2_nth' {A B} (R : A -> B -> Prop) l l' da db :
  Forall2 R l l' -> forall i, (i < length l)%nat -> R (nth i l da) (nth i l' db).
Proof.
  induction 1; intros [|i] Hi; simpl in *; try lia; auto. apply IHForall2. lia.
Qed.

Lemma mapM_Forall2 {A B} (f : A -> res B) l l' :
  mapM f l = Ok l' -> Forall2 (fun a b => f a = Ok b) l l'.
Proof.
  revert l'; induction l as [|a l IH]; simpl; intros l' H.
  - inversion H; constructor.
  - destruct (f a) eqn:Ea; simpl in H; [|discriminate].
    destruct (mapM f l) eqn:El; simpl in H; [|discriminate].
    inversion H; subst. constructor; auto.
Qed.

Lemma mapM_total {A B} (f : A -> res B) l :
  (forall a, In a l -> exists b, f a = Ok b) -> exists l', mapM f l = Ok l'.
Proof.
  induction l as [|a l IH]; simpl; intro H.
  - eexists; reflexivity.
  - destruct (H a (or_introl eq_refl)) as [b Hb]. rewrite Hb; simpl.
    destruct IH as [l' Hl']; [intros; apply H; right; assumption|].
    rewrite Hl'; simpl. eexists; reflexivity.
Qed.

(* ---- get / upd / gather / scatter ---- *)
Lemma get_ok {A} (v : list A) i d : (i < length v)%nat -> get v i = Ok (nth i v d).
Proof.
  intro H. unfold get. destruct (nth_error v i) eqn:E.
  - f_equal. symmetry. apply nth_error_nth, E.
  - apply nth_error_None in E. lia.
Qed.

Lemma get_inv {A} (v : list A) i x d : get v i = Ok x -> (i < length v)%nat /\ x = nth i v d.
Proof.
  unfold get. destruct (nth_error v i) eqn:E; [|discriminate]. intro H; inversion H; subst.
  split; [apply nth_error_Some; congruence|symmetry; apply nth_error_nth, E].
Qed.

Lemma upd_ok {A} (v : list A) i x : (i < length v)%nat -> exists v', upd v i x = Ok v' /\ length v' = length v.
Proof.
  revert i; induction v as [|a v IH]; intros [|i] H; simpl in *; try lia.
  - eexists; split; reflexivity.
  - destruct (IH i) as [v' [E L]]; [lia|]. rewrite E; simpl. eexists; split; [reflexivity|simpl; congruence].
Qed.

Lemma upd_len {A} (v : list A) i x v' : upd v i x = Ok v' -> length v' = length v.
Proof.
  revert i v'; induction v as [|a v IH]; intros [|i] v' H; simpl in *; try discriminate.
  - inversion H; reflexivity.
  - destruct (upd v i x) eqn:E; simpl in H; [|discriminate]. inversion H; subst; simpl.
    f_equal. eapply IH; eauto.
Qed.

Lemma scatter_with_len {A B} (f : A -> B -> A) idx : forall v w v',
  scatter_with f v idx w = Ok v' -> length v' = length v.
Proof.
  induction idx as [|i idx IH]; intros v w v' H; simpl in H.
  - inversion H; reflexivity.
  - destruct w as [|x w]; [discriminate|].
    destruct (get v i) eqn:Eg; simpl in H; [|discriminate].
    destruct (upd v i (f a x)) eqn:Eu; simpl in H; [|discriminate].
    apply IH in H. apply upd_len in Eu. congruence.
Qed.

Lemma scatter_with_ok {A B} (f : A -> B -> A) idx : forall v w,
  Forall (fun i => (i < length v)%nat) idx -> (length idx <= length w)%nat ->
  exists v', scatter_with f v idx w = Ok v'.
Proof.
  induction idx as [|i idx IH]; intros v w HF HL; simpl.
  - eexists; reflexivity.
  - destruct w as [|x w]; simpl in HL; [lia|].
    inversion HF as [|? ? Hi HF']; subst.
    destruct v as [|a0 v0] eqn:Ev; [simpl in Hi; lia|]. rewrite <- Ev in *.
    rewrite (get_ok v i a0 Hi); simpl.
    destruct (upd_ok v i (f (nth i v a0) x) Hi) as [v1 [E1 L1]]. rewrite E1; simpl.
    apply IH; [|lia]. rewrite L1; assumption.
Qed.

Lemma gather_spec {A} (v : list A) idx g d :
  gather v idx = Ok g ->
  length g = length idx /\
  forall k, (k < length idx)%nat -> (nth k idx 0%nat < length v)%nat /\ nth k g d = nth (nth k idx 0%nat) v d.
Proof.
  intro H. apply mapM_Forall2 in H. split.
  - symmetry. eapply Forall2_len; eauto.
  - intros k Hk. pose proof (Forall2_nth' _ _ _ 0%nat d H k Hk) as E. simpl in E.
    apply (get_inv _ _ _ d) in E. destruct E; split; assumption.
Qed.

Lemma gather_ok {A} (v : list A) idx :
  Forall (fun i => (i < length v)%nat) idx -> exists g, gather v idx = Ok g.
Proof.
  intro H. apply mapM_total. intros i Hi. rewrite Forall_forall in H.
  destruct v as [|a v'] eqn:E; [specialize (H i Hi); simpl in H; lia|]. rewrite <- E in *.
  exists (nth i v a). apply get_ok. apply H, Hi.
Qed.

(* mul_gather: w(k) *= v(idx k) for k < |idx| *)
Lemma mul_gather_spec (w v : Vec) idx (r : Vec) :
  mul_gather w v idx = Ok r -> (length idx <= length w)%nat ->
  length r = length w /\
  forall k, nth k r 0 = if Nat.ltb k (length idx) then nth k w 0 * nth (nth k idx 0%nat) v 0 else nth k w 0.
Proof.
  unfold mul_gather. destruct (gather v idx) as [g|] eqn:E; simpl; [|discriminate].
  intros H L; inversion H; subst; clear H.
  destruct (gather_spec v idx g 0 E) as [Lg Hg].
  assert (Lh : length (vmul (head (length idx) w) g) = length idx).
  { rewrite length_vmul, length_head by exact L. qlia. }
  split.
  - apply length_set_head. qlia.
  - intro k. rewrite nth_set_head, Lh. destruct (Nat.ltb k (length idx)) eqn:Ek; [|reflexivity].
    apply Nat.ltb_lt in Ek. rewrite nth_vmul. unfold head. rewrite nth_firstn'.
    apply Nat.ltb_lt in Ek. rewrite Ek. apply Nat.ltb_lt in Ek.
    destruct (Hg k Ek) as [_ ->]. reflexivity.
Qed.

Lemma mul_gather_ok (w v : Vec) idx :
  Forall (fun i => (i < length v)%nat) idx -> exists r, mul_gather w v idx = Ok r.
Proof.
  intro H. unfold mul_gather. destruct (gather_ok v idx H) as [g ->]. simpl. eexists; reflexivity.
Qed.

(* ---- matrices ---- *)
Lemma nth_combine {A B} (a : list A) (b : list B) i da db :
  (i < length a)%nat -> (i < length b)%nat -> nth i (combine a b) (da, db) = (nth i a da, nth i b db).
Proof.
  revert b i; induction a as [|x a IH]; intros [|y b] [|i] Ha Hb; simpl in *; try lia; auto.
  apply IH; lia.
Qed.

Lemma nth_map' {A B} (f : A -> B) l i da db : (i < length l)%nat -> nth i (map f l) db = f (nth i l da).
Proof.
  intro H. rewrite (nth_indep _ db (f da)) by (rewrite map_length; exact H). apply map_nth.
Qed.

Lemma nth_overflow' {A} (l : list A) i d : (length l <= i)%nat -> nth i l d = d.
Proof. apply nth_overflow. Qed.

Lemma mentry_col_overflow M i j : (length M <= j)%nat -> mentry M i j = 0.
Proof. intro H. unfold mentry. rewrite (nth_overflow M) by exact H. destruct i; reflexivity. Qed.

Lemma mentry_row_overflow M i j : (length (nth j M []) <= i)%nat -> mentry M i j = 0.
Proof. intro H. unfold mentry. apply nth_overflow, H. Qed.

(* mscale *)
Lemma length_mscale k M : length (mscale k M) = length M.
Proof. apply map_length. Qed.

Lemma col_mscale k M j : nth j (mscale k M) [] = vscale k (nth j M []).
Proof.
  unfold mscale. destruct (Nat.lt_ge_cases j (length M)) as [H|H].
  - apply nth_map', H.
  - rewrite !nth_overflow; [reflexivity|exact H|rewrite map_length; exact H].
Qed.

Lemma mentry_mscale k M i j : mentry (mscale k M) i j = k * mentry M i j.
Proof. unfold mentry. rewrite col_mscale. apply nth_vscale. Qed.

(* mscale_rc *)
Lemma length_mscale_rc dr dc M : length (mscale_rc dr dc M) = Nat.min (length M) (length dc).
Proof. unfold mscale_rc. rewrite map_length, combine_length. reflexivity. Qed.

Lemma col_mscale_rc dr dc M j : (j < length M)%nat -> (j < length dc)%nat ->
  nth j (mscale_rc dr dc M) [] = vscale (nth j dc 0) (vmul dr (nth j M [])).
Proof.
  intros H1 H2. unfold mscale_rc.
  rewrite (nth_map' _ _ _ (([]:Vec), (0:F))) by (rewrite combine_length; lia).
  rewrite nth_combine by assumption. reflexivity.
Qed.

Lemma mentry_mscale_rc dr dc M i j :
  mentry (mscale_rc dr dc M) i j = nth j dc 0 * (nth i dr 0 * mentry M i j).
Proof.
  destruct (Nat.lt_ge_cases j (length M)) as [H1|H1].
  - destruct (Nat.lt_ge_cases j (length dc)) as [H2|H2].
    + unfold mentry. rewrite col_mscale_rc by assumption. rewrite nth_vscale, nth_vmul. reflexivity.
    + rewrite mentry_col_overflow by (rewrite length_mscale_rc; lia).
      rewrite (nth_overflow dc) by exact H2. qring.
  - rewrite mentry_col_overflow by (rewrite length_mscale_rc; lia).
    rewrite (mentry_col_overflow M) by exact H1. qring.
Qed.

(* scale_P_utri *)
Lemma length_scale_P_utri s P : length (scale_P_utri s P) = length P.
Proof. unfold scale_P_utri. rewrite map_length, combine_length, seq_length. lia. Qed.

Lemma col_scale_P_utri s P j : (j < length P)%nat ->
  nth j (scale_P_utri s P) [] =
  map (fun ie => if Nat.leb (fst ie) j then snd ie * nth j s 0 * nth (fst ie) s 0 else snd ie)
      (combine (seq 0 (length (nth j P []))) (nth j P [])).
Proof.
  intro H. unfold scale_P_utri.
  rewrite (nth_map' _ _ _ (0%nat, ([]:Vec))) by (rewrite combine_length, seq_length; lia).
  rewrite nth_combine by (rewrite ?seq_length; exact H).
  rewrite seq_nth by exact H. reflexivity.
Qed.

Lemma length_col_scale_P_utri s P j : length (nth j (scale_P_utri s P) []) = length (nth j P []).
Proof.
  destruct (Nat.lt_ge_cases j (length P)) as [H|H].
  - rewrite col_scale_P_utri by exact H. rewrite map_length, combine_length, seq_length. lia.
  - rewrite !nth_overflow; [reflexivity|exact H|rewrite length_scale_P_utri; exact H].
Qed.

Lemma mentry_scale_P_utri s P i j :
  mentry (scale_P_utri s P) i j =
  if Nat.leb i j then mentry P i j * nth j s 0 * nth i s 0 else mentry P i j.
Proof.
  destruct (Nat.lt_ge_cases j (length P)) as [H1|H1].
  - destruct (Nat.lt_ge_cases i (length (nth j P []))) as [H2|H2].
    + unfold mentry. rewrite col_scale_P_utri by exact H1.
      rewrite (nth_map' _ _ _ (0%nat, (0:F))) by (rewrite combine_length, seq_length; lia).
      rewrite nth_combine by (rewrite ?seq_length; exact H2).
      rewrite seq_nth by exact H2. reflexivity.
    + rewrite mentry_row_overflow by (rewrite length_col_scale_P_utri; exact H2).
      rewrite (mentry_row_overflow P) by exact H2. destruct (Nat.leb i j); qring.
  - rewrite mentry_col_overflow by (rewrite length_scale_P_utri; exact H1).
    rewrite (mentry_col_overflow P) by exact H1. destruct (Nat.leb i j); qring.
Qed.

(* matrix extensionality *)
Lemma mat_ext (M M' : Mat) :
  length M = length M' ->
  (forall j, (j < length M)%nat -> length (nth j M []) = length (nth j M' [])) ->
  (forall i j, (j < length M)%nat -> (i < length (nth j M []))%nat -> mentry M i j = mentry M' i j) -> M = M'.
Proof.
  intros L C E. apply (nth_ext M M' [] [] L). intros j Hj.
  apply vec_ext; [apply C, Hj|]. intros i Hi. apply (E i j Hj Hi).
Qed.

(* ================================================================== *)
(** * C. well-formedness, the inverse invariant, the scale_* family     *)
(* ================================================================== *)

(* r x c matrix: c columns of length r *)
Definition wf_mat (r c : nat) (M : Mat) : Prop := length M = c /\ Forall (fun col : Vec => length col = r) M.

(* strictly increasing, all entries in [lo, n) *)
Fixpoint incr_from (lo n : nat) (l : list nat) : Prop :=
  match l with
  | [] => True
  | a :: t => (lo <= a)%nat /\ (a < n)%nat /\ incr_from (S a) n t
  end.

Record wf_data (d : Data) : Prop := mk_wf_data {
  wfd_P   : wf_mat (d_n d) (d_n d) (d_P d);
  wfd_AT  : wf_mat (d_n d) (d_p d) (d_AT d);
  wfd_GT  : wf_mat (d_n d) (d_m d) (d_GT d);
  wfd_c   : length (d_c d) = d_n d;
  wfd_b   : length (d_b d) = d_p d;
  wfd_h   : length (d_h d) = d_m d;
  wfd_lbi : incr_from 0 (d_n d) (d_lb_idx d);
  wfd_ubi : incr_from 0 (d_n d) (d_ub_idx d);
  wfd_lbs : length (d_lb_scaling d) = d_n d;
  wfd_ubs : length (d_ub_scaling d) = d_n d;
  wfd_lbn : length (d_lb_n d) = d_nlb d;
  wfd_ub  : length (d_ub d) = d_nub d
}.

Record wf_pc_len (pc : Precond) : Prop := mk_wf_pc_len {
  wfp_d    : length (pc_delta pc) = (pc_n pc + pc_p pc + pc_m pc)%nat;
  wfp_di   : length (pc_delta_inv pc) = (pc_n pc + pc_p pc + pc_m pc)%nat;
  wfp_lb   : length (pc_delta_lb pc) = pc_n pc;
  wfp_lbi  : length (pc_delta_lb_inv pc) = pc_n pc;
  wfp_ub   : length (pc_delta_ub pc) = pc_n pc;
  wfp_ubi  : length (pc_delta_ub_inv pc) = pc_n pc;
  wfp_nlb  : (pc_nlb pc <= pc_n pc)%nat;
  wfp_nub  : (pc_nub pc <= pc_n pc)%nat
}.

Definition wf_pc (pc : Precond) (d : Data) : Prop :=
  wf_pc_len pc /\ pc_n pc = d_n d /\ pc_p pc = d_p d /\ pc_m pc = d_m d.

(* the invariant: stored inverses are inverses, on ALL slots; all scalings positive *)
Record pc_inverse (pc : Precond) : Prop := mk_pc_inverse {
  pi_c      : pc_c pc * pc_c_inv pc = 1;
  pi_c_pos  : 0 < pc_c pc;
  pi_d      : forall i, (i < pc_n pc + pc_p pc + pc_m pc)%nat -> nth i (pc_delta pc) 0 * nth i (pc_delta_inv pc) 0 = 1;
  pi_d_pos  : forall i, (i < pc_n pc + pc_p pc + pc_m pc)%nat -> 0 < nth i (pc_delta pc) 0;
  pi_lb     : forall i, (i < pc_n pc)%nat -> nth i (pc_delta_lb pc) 0 * nth i (pc_delta_lb_inv pc) 0 = 1;
  pi_lb_pos : forall i, (i < pc_n pc)%nat -> 0 < nth i (pc_delta_lb pc) 0;
  pi_ub     : forall i, (i < pc_n pc)%nat -> nth i (pc_delta_ub pc) 0 * nth i (pc_delta_ub_inv pc) 0 = 1;
  pi_ub_pos : forall i, (i < pc_n pc)%nat -> 0 < nth i (pc_delta_ub pc) 0
}.

Lemma incr_from_bound l : forall lo n, incr_from lo n l -> (lo <= n)%nat -> (length l + lo <= n)%nat.
Proof.
  induction l as [|a t IH]; simpl; intros lo n H L; [exact L|].
  destruct H as (H1 & H2 & H3). specialize (IH (S a) n H3). lia.
Qed.

Lemma incr_from_Forall l : forall lo n, incr_from lo n l -> Forall (fun i => (i < n)%nat) l.
Proof.
  induction l as [|a t IH]; simpl; intros lo n H; constructor.
  - tauto.
  - eapply IH. apply H.
Qed.

Lemma wf_nlb_le d : wf_data d -> (d_nlb d <= d_n d)%nat.
Proof. intro W. pose proof (incr_from_bound _ _ _ (wfd_lbi d W)). unfold d_nlb. lia. Qed.
Lemma wf_nub_le d : wf_data d -> (d_nub d <= d_n d)%nat.
Proof. intro W. pose proof (incr_from_bound _ _ _ (wfd_ubi d W)). unfold d_nub. lia. Qed.

Lemma wf_mat_col r c M j : wf_mat r c M -> (j < c)%nat -> length (nth j M []) = r.
Proof.
  intros [L F] H. rewrite Forall_forall in F. apply F. apply nth_In. lia.
Qed.

(* ---- the scale_* family of dense/preconditioner.hpp (the unscale_* family is in PrecondDense.v) ---- *)
Section Scale.
Variable pc : Precond.
Let n := pc_n pc. Let p := pc_p pc. Let nlb := pc_nlb pc. Let nub := pc_nub pc.
Definition scale_cost (v : F) : F := pc_c pc * v.
Definition scale_primal (x : Vec) : Vec := vmul x (dxi_ pc).
Definition scale_dual_eq (y : Vec) : Vec := vmul (vscale (pc_c pc) y) (dyi_ pc).
Definition scale_dual_ineq (z : Vec) : Vec := vmul (vscale (pc_c pc) z) (dzi_ pc).
Definition scale_dual_lb (z : Vec) : Vec := vmul (vscale (pc_c pc) z) (head nlb (pc_delta_lb_inv pc)).
Definition scale_dual_ub (z : Vec) : Vec := vmul (vscale (pc_c pc) z) (head nub (pc_delta_ub_inv pc)).
Definition scale_slack_ineq (s : Vec) : Vec := vmul s (dz_ pc).
Definition scale_slack_lb (s : Vec) : Vec := vmul s (head nlb (pc_delta_lb pc)).
Definition scale_slack_ub (s : Vec) : Vec := vmul s (head nub (pc_delta_ub pc)).
Definition scale_primal_res_eq (r : Vec) : Vec := vmul r (dy_ pc).
Definition scale_primal_res_ineq (r : Vec) : Vec := vmul r (dz_ pc).
Definition scale_primal_res_lb (r : Vec) : Vec := vmul r (head nlb (pc_delta_lb pc)).
Definition scale_primal_res_ub (r : Vec) : Vec := vmul r (head nub (pc_delta_ub pc)).
Definition scale_dual_res (r : Vec) : Vec := vmul (vscale (pc_c pc) r) (dx_ pc).
End Scale.

(* ================================================================== *)
(** * T4. every scale_X / unscale_X pair are mutual inverses            *)
(* ================================================================== *)

(* two vectors of length L whose entries are pairwise inverse *)
Definition inv_pair (L : nat) (a b : Vec) : Prop :=
  length a = L /\ length b = L /\ forall i, (i < L)%nat -> nth i a 0 * nth i b 0 = 1.

Lemma inv_pair_sym L a b : inv_pair L a b -> inv_pair L b a.
Proof. intros (H1 & H2 & H3). repeat split; auto. intros i Hi. rewrite Qcmult_comm. auto. Qed.

Lemma pair_plain L (a b x : Vec) : inv_pair L a b -> length x = L -> vmul (vmul x a) b = x.
Proof.
  intros (H1 & H2 & H3) Hx. apply vmul_vmul_cancel; try qlia. intros i Hi. apply H3. qlia.
Qed.

Lemma pair_cost L k k' (a b x : Vec) :
  k * k' = 1 -> inv_pair L a b -> length x = L ->
  vmul (vscale k (vmul (vscale k' x) a)) b = x.
Proof.
  intros Hk (H1 & H2 & H3) Hx. apply vec_ext.
  - rewrite !length_vmul, !length_vscale, !length_vmul, !length_vscale. qlia.
  - intros i Hi. rewrite !length_vmul, !length_vscale, !length_vmul, !length_vscale in Hi.
    rewrite nth_vmul, nth_vscale, nth_vmul, nth_vscale.
    assert (E : nth i a 0 * nth i b 0 = 1) by (apply H3; qlia).
    transitivity ((k * k') * (nth i a 0 * nth i b 0) * nth i x 0); [qring|].
    rewrite Hk, E. qring.
Qed.

Section Pairs.
Variable pc : Precond.
Hypothesis W : wf_pc_len pc.
Hypothesis I : pc_inverse pc.

Lemma pair_x : inv_pair (pc_n pc) (dx_ pc) (dxi_ pc).
Proof.
  destruct W, I. unfold dx_, dxi_. repeat split; try (apply length_head; lia).
  intros i Hi. unfold head. rewrite !nth_firstn'. apply Nat.ltb_lt in Hi. rewrite Hi.
  apply Nat.ltb_lt in Hi. apply pi_d0. lia.
Qed.

Lemma pair_y : inv_pair (pc_p pc) (dy_ pc) (dyi_ pc).
Proof.
  destruct W, I. unfold dy_, dyi_. repeat split; try (apply length_segment; lia).
  intros i Hi. rewrite !nth_segment. apply Nat.ltb_lt in Hi. rewrite Hi.
  apply Nat.ltb_lt in Hi. apply pi_d0. lia.
Qed.

Lemma pair_z : inv_pair (pc_m pc) (dz_ pc) (dzi_ pc).
Proof.
  destruct W, I. unfold dz_, dzi_. repeat split; try (rewrite length_tail_from; lia).
  intros i Hi. unfold tail_from. rewrite !nth_skipn'. apply pi_d0. lia.
Qed.

Lemma pair_lb : inv_pair (pc_nlb pc) (head (pc_nlb pc) (pc_delta_lb pc)) (head (pc_nlb pc) (pc_delta_lb_inv pc)).
Proof.
  destruct W, I. repeat split; try (apply length_head; lia).
  intros i Hi. unfold head. rewrite !nth_firstn'. apply Nat.ltb_lt in Hi. rewrite Hi.
  apply Nat.ltb_lt in Hi. apply pi_lb0. lia.
Qed.

Lemma pair_ub : inv_pair (pc_nub pc) (head (pc_nub pc) (pc_delta_ub pc)) (head (pc_nub pc) (pc_delta_ub_inv pc)).
Proof.
  destruct W, I. repeat split; try (apply length_head; lia).
  intros i Hi. unfold head. rewrite !nth_firstn'. apply Nat.ltb_lt in Hi. rewrite Hi.
  apply Nat.ltb_lt in Hi. apply pi_ub0. lia.
Qed.

Lemma c_cinv : pc_c pc * pc_c_inv pc = 1. Proof. apply I. Qed.
Lemma cinv_c : pc_c_inv pc * pc_c pc = 1. Proof. rewrite Qcmult_comm. apply I. Qed.

Lemma cost_pair v : scale_cost pc (unscale_cost pc v) = v /\ unscale_cost pc (scale_cost pc v) = v.
Proof.
  unfold scale_cost, unscale_cost. split.
  - rewrite Qcmult_assoc, c_cinv. qring.
  - rewrite Qcmult_assoc, cinv_c. qring.
Qed.

Ltac pair_tac := first
  [ eapply pair_plain; [|eassumption]; first [apply pair_x|apply pair_y|apply pair_z|apply pair_lb|apply pair_ub]
  | eapply pair_plain; [|eassumption]; apply inv_pair_sym; first [apply pair_x|apply pair_y|apply pair_z|apply pair_lb|apply pair_ub]
  | eapply pair_cost; [| |eassumption]; [first [apply c_cinv|apply cinv_c]|];
    first [apply pair_x|apply pair_y|apply pair_z|apply pair_lb|apply pair_ub]
  | eapply pair_cost; [| |eassumption]; [first [apply c_cinv|apply cinv_c]|]; apply inv_pair_sym;
    first [apply pair_x|apply pair_y|apply pair_z|apply pair_lb|apply pair_ub] ].

Lemma primal_pair x : length x = pc_n pc ->
  scale_primal pc (unscale_primal pc x) = x /\ unscale_primal pc (scale_primal pc x) = x.
Proof. intro H. unfold scale_primal, unscale_primal. split; pair_tac. Qed.

Lemma dual_eq_pair y : length y = pc_p pc ->
  scale_dual_eq pc (unscale_dual_eq pc y) = y /\ unscale_dual_eq pc (scale_dual_eq pc y) = y.
Proof. intro H. unfold scale_dual_eq, unscale_dual_eq. split; pair_tac. Qed.

Lemma dual_ineq_pair z : length z = pc_m pc ->
  scale_dual_ineq pc (unscale_dual_ineq pc z) = z /\ unscale_dual_ineq pc (scale_dual_ineq pc z) = z.
Proof. intro H. unfold scale_dual_ineq, unscale_dual_ineq. split; pair_tac. Qed.

Lemma dual_lb_pair z : length z = pc_nlb pc ->
  scale_dual_lb pc (unscale_dual_lb pc z) = z /\ unscale_dual_lb pc (scale_dual_lb pc z) = z.
Proof. intro H. unfold scale_dual_lb, unscale_dual_lb. split; pair_tac. Qed.

Lemma dual_ub_pair z : length z = pc_nub pc ->
  scale_dual_ub pc (unscale_dual_ub pc z) = z /\ unscale_dual_ub pc (scale_dual_ub pc z) = z.
Proof. intro H. unfold scale_dual_ub, unscale_dual_ub. split; pair_tac. Qed.

Lemma slack_ineq_pair s : length s = pc_m pc ->
  scale_slack_ineq pc (unscale_slack_ineq pc s) = s /\ unscale_slack_ineq pc (scale_slack_ineq pc s) = s.
Proof. intro H. unfold scale_slack_ineq, unscale_slack_ineq. split; pair_tac. Qed.

Lemma slack_lb_pair s : length s = pc_nlb pc ->
  scale_slack_lb pc (unscale_slack_lb pc s) = s /\ unscale_slack_lb pc (scale_slack_lb pc s) = s.
Proof. intro H. unfold scale_slack_lb, unscale_slack_lb. split; pair_tac. Qed.

Lemma slack_ub_pair s : length s = pc_nub pc ->
  scale_slack_ub pc (unscale_slack_ub pc s) = s /\ unscale_slack_ub pc (scale_slack_ub pc s) = s.
Proof. intro H. unfold scale_slack_ub, unscale_slack_ub. split; pair_tac. Qed.

Lemma primal_res_eq_pair r : length r = pc_p pc ->
  scale_primal_res_eq pc (unscale_primal_res_eq pc r) = r /\ unscale_primal_res_eq pc (scale_primal_res_eq pc r) = r.
Proof. intro H. unfold scale_primal_res_eq, unscale_primal_res_eq. split; pair_tac. Qed.

Lemma primal_res_ineq_pair r : length r = pc_m pc ->
  scale_primal_res_ineq pc (unscale_primal_res_ineq pc r) = r /\ unscale_primal_res_ineq pc (scale_primal_res_ineq pc r) = r.
Proof. intro H. unfold scale_primal_res_ineq, unscale_primal_res_ineq. split; pair_tac. Qed.

Lemma primal_res_lb_pair r : length r = pc_nlb pc ->
  scale_primal_res_lb pc (unscale_primal_res_lb pc r) = r /\ unscale_primal_res_lb pc (scale_primal_res_lb pc r) = r.
Proof. intro H. unfold scale_primal_res_lb, unscale_primal_res_lb. split; pair_tac. Qed.

Lemma primal_res_ub_pair r : length r = pc_nub pc ->
  scale_primal_res_ub pc (unscale_primal_res_ub pc r) = r /\ unscale_primal_res_ub pc (scale_primal_res_ub pc r) = r.
Proof. intro H. unfold scale_primal_res_ub, unscale_primal_res_ub. split; pair_tac. Qed.

Lemma dual_res_pair r : length r = pc_n pc ->
  scale_dual_res pc (unscale_dual_res pc r) = r /\ unscale_dual_res pc (scale_dual_res pc r) = r.
Proof. intro H. unfold scale_dual_res, unscale_dual_res. split; pair_tac. Qed.

End Pairs.

(* ================================================================== *)
(** * T2. unscale_data and scale_data(reuse) are mutual inverses        *)
(* ================================================================== *)

(* the common shape of unscale_data and of the reuse branch of scale_data:
   transform the data by (k, s, slb, sub) *)
Definition xform (n p nlb nub : nat) (k : F) (s slb sub : Vec) (idx_lb idx_ub : list nat) (d : Data) : res Data :=
  let sx := head n s in let sy := segment n p s in let sz := tail_from (n + p) s in
  let P1 := scale_P_utri sx (mscale k (d_P d)) in
  let c1 := vmul (d_c d) (vscale k sx) in
  let AT1 := mscale_rc sx sy (d_AT d) in
  let GT1 := mscale_rc sx sz (d_GT d) in
  let lbs0 := set_head (vmul (head nlb (d_lb_scaling d)) (head nlb slb)) (d_lb_scaling d) in
  do lbs1 <- mul_gather lbs0 s idx_lb ;;
  let ubs0 := set_head (vmul (head nub (d_ub_scaling d)) (head nub sub)) (d_ub_scaling d) in
  do ubs1 <- mul_gather ubs0 s idx_ub ;;
  Ok (mkData (d_n d) (d_p d) (d_m d) P1 AT1 GT1 c1 (vmul (d_b d) sy) (vmul (d_h d) sz)
             (d_lb_idx d) (d_ub_idx d) lbs1 ubs1
             (vmul (d_lb_n d) (head nlb slb)) (vmul (d_ub d) (head nub sub))).

Lemma unscale_is_xform pc d :
  ruiz_unscale_data pc d =
  xform (pc_n pc) (pc_p pc) (pc_nlb pc) (pc_nub pc) (pc_c_inv pc) (pc_delta_inv pc)
        (pc_delta_lb_inv pc) (pc_delta_ub_inv pc)
        (firstn (pc_nlb pc) (d_lb_idx d)) (firstn (pc_nub pc) (d_ub_idx d)) d.
Proof.
  unfold ruiz_unscale_data, xform. destruct d; cbn.
  destruct (mul_gather _ _ _); cbn; [|reflexivity].
  destruct (mul_gather _ _ _); cbn; reflexivity.
Qed.

Lemma scale_reuse_is_xform K sq pc d sc it :
  ruiz_scale_data K sq pc d true sc it =
  do d' <- xform (pc_n pc) (pc_p pc) (d_nlb d) (d_nub d) (pc_c pc) (pc_delta pc)
                 (pc_delta_lb pc) (pc_delta_ub pc) (d_lb_idx d) (d_ub_idx d) d ;;
  Ok (pc <| pc_nlb := d_nlb d |> <| pc_nub := d_nub d |>, d').
Proof.
  unfold ruiz_scale_data, xform, scale_bounds. destruct d, pc; cbn.
  destruct (mul_gather _ _ _); cbn; [|reflexivity].
  destruct (mul_gather _ _ _); cbn; reflexivity.
Qed.

(* box-scaling update: w(k) := sl(k) * s(idx k) * w(k) for k < nlb *)
Lemma box_scaling_step (w sl s : Vec) idx nlb (r : Vec) :
  mul_gather (set_head (vmul (head nlb w) (head nlb sl)) w) s idx = Ok r ->
  length idx = nlb -> (nlb <= length w)%nat -> (nlb <= length sl)%nat ->
  length r = length w /\
  forall k, nth k r 0 = if Nat.ltb k nlb then nth k sl 0 * nth (nth k idx 0%nat) s 0 * nth k w 0 else nth k w 0.
Proof.
  intros H Li Lw Ls.
  assert (Lh : length (vmul (head nlb w) (head nlb sl)) = nlb).
  { rewrite length_vmul, !length_head by assumption. lia. }
  assert (L0 : length (set_head (vmul (head nlb w) (head nlb sl)) w) = length w).
  { apply length_set_head. lia. }
  apply mul_gather_spec in H; [|lia]. destruct H as [Lr Hr]. split; [congruence|].
  intro k. rewrite Hr, Li, nth_set_head, Lh. destruct (Nat.ltb k nlb) eqn:E; [|reflexivity].
  rewrite nth_vmul. unfold head. rewrite !nth_firstn', E. qring.
Qed.

Lemma nth_head (v : Vec) n i : (i < n)%nat -> nth i (head n v) 0 = nth i v 0.
Proof. intro H. unfold head. rewrite nth_firstn'. apply Nat.ltb_lt in H. rewrite H. reflexivity. Qed.

Lemma inv_pair_split n p m (s s' : Vec) :
  length s = (n + p + m)%nat -> length s' = (n + p + m)%nat ->
  (forall i, (i < n + p + m)%nat -> nth i s 0 * nth i s' 0 = 1) ->
  inv_pair n (head n s) (head n s') /\
  inv_pair p (segment n p s) (segment n p s') /\
  inv_pair m (tail_from (n + p) s) (tail_from (n + p) s').
Proof.
  intros L L' H. repeat split; try (apply length_head; lia); try (apply length_segment; lia);
    try (rewrite length_tail_from; lia).
  - intros i Hi. rewrite !nth_head by exact Hi. apply H; lia.
  - intros i Hi. rewrite !nth_segment. apply Nat.ltb_lt in Hi. rewrite Hi. apply Nat.ltb_lt in Hi. apply H; lia.
  - intros i Hi. unfold tail_from. rewrite !nth_skipn'. apply H; lia.
Qed.

Lemma P_roundtrip n k k' (sx sx' : Vec) P :
  wf_mat n n P -> k * k' = 1 -> inv_pair n sx sx' ->
  scale_P_utri sx' (mscale k' (scale_P_utri sx (mscale k P))) = P.
Proof.
  intros [L F] Hk (L1 & L2 & H). apply mat_ext.
  - rewrite !length_scale_P_utri, !length_mscale, !length_scale_P_utri, !length_mscale. reflexivity.
  - intros j _. rewrite length_col_scale_P_utri, col_mscale, length_vscale,
      length_col_scale_P_utri, col_mscale, length_vscale. reflexivity.
  - intros i j Hj Hi.
    rewrite length_scale_P_utri, length_mscale, length_scale_P_utri, length_mscale in Hj.
    rewrite length_col_scale_P_utri, col_mscale, length_vscale,
      length_col_scale_P_utri, col_mscale, length_vscale in Hi.
    rewrite Forall_forall in F. rewrite (F (nth j P [])) in Hi by (apply nth_In; exact Hj).
    rewrite mentry_scale_P_utri, mentry_mscale, mentry_scale_P_utri, mentry_mscale.
    destruct (Nat.leb i j).
    + assert (Ei : nth i sx 0 * nth i sx' 0 = 1) by (apply H; exact Hi).
      assert (Ej : nth j sx 0 * nth j sx' 0 = 1) by (apply H; lia).
      transitivity ((k * k') * (nth i sx 0 * nth i sx' 0) * (nth j sx 0 * nth j sx' 0) * mentry P i j); [qring|].
      rewrite Hk, Ei, Ej. qring.
    + transitivity ((k * k') * mentry P i j); [qring|]. rewrite Hk. qring.
Qed.

Lemma rc_roundtrip r c (dr dr' dc dc' : Vec) M :
  wf_mat r c M -> inv_pair r dr dr' -> inv_pair c dc dc' ->
  mscale_rc dr' dc' (mscale_rc dr dc M) = M.
Proof.
  intros [L F] (R1 & R2 & HR) (C1 & C2 & HC). rewrite Forall_forall in F. apply mat_ext.
  - rewrite !length_mscale_rc. lia.
  - intros j Hj. rewrite !length_mscale_rc in Hj.
    rewrite col_mscale_rc by (rewrite ?length_mscale_rc; lia).
    rewrite col_mscale_rc by lia.
    rewrite !length_vscale, !length_vmul, !length_vscale, !length_vmul.
    rewrite (F (nth j M [])) by (apply nth_In; lia). lia.
  - intros i j Hj Hi. rewrite !length_mscale_rc in Hj.
    rewrite col_mscale_rc in Hi by (rewrite ?length_mscale_rc; lia).
    rewrite col_mscale_rc in Hi by lia.
    rewrite !length_vscale, !length_vmul, !length_vscale, !length_vmul in Hi.
    rewrite !mentry_mscale_rc.
    assert (Ei : nth i dr 0 * nth i dr' 0 = 1) by (apply HR; lia).
    assert (Ej : nth j dc 0 * nth j dc' 0 = 1) by (apply HC; lia).
    transitivity ((nth i dr 0 * nth i dr' 0) * (nth j dc 0 * nth j dc' 0) * mentry M i j); [qring|].
    rewrite Ei, Ej. qring.
Qed.

Lemma box_roundtrip (w sl sl' s s' : Vec) idx nlb N (r1 r2 : Vec) :
  mul_gather (set_head (vmul (head nlb w) (head nlb sl)) w) s idx = Ok r1 ->
  mul_gather (set_head (vmul (head nlb r1) (head nlb sl')) r1) s' idx = Ok r2 ->
  length idx = nlb -> (nlb <= length w)%nat -> (nlb <= length sl)%nat -> (nlb <= length sl')%nat ->
  Forall (fun i => (i < N)%nat) idx ->
  (forall i, (i < N)%nat -> nth i s 0 * nth i s' 0 = 1) ->
  (forall i, (i < nlb)%nat -> nth i sl 0 * nth i sl' 0 = 1) ->
  r2 = w.
Proof.
  intros H1 H2 Li Lw Ll Ll' FI Hs Hl.
  apply box_scaling_step in H1; try assumption. destruct H1 as [L1 N1].
  apply box_scaling_step in H2; try assumption; [|lia]. destruct H2 as [L2 N2].
  apply vec_ext; [congruence|]. intros i _. rewrite N2, N1.
  destruct (Nat.ltb i nlb) eqn:E; [|reflexivity]. apply Nat.ltb_lt in E.
  assert (Ei : nth i sl 0 * nth i sl' 0 = 1) by (apply Hl; exact E).
  assert (Ej : nth (nth i idx 0%nat) s 0 * nth (nth i idx 0%nat) s' 0 = 1).
  { apply Hs. rewrite Forall_forall in FI. apply FI, nth_In. lia. }
  transitivity ((nth i sl 0 * nth i sl' 0) * (nth (nth i idx 0%nat) s 0 * nth (nth i idx 0%nat) s' 0) * nth i w 0); [qring|].
  rewrite Ei, Ej. qring.
Qed.

Lemma xform_ok n p m nlb nub k (s slb sub : Vec) d :
  length s = (n + p + m)%nat ->
  wf_data d -> d_n d = n -> d_nlb d = nlb -> d_nub d = nub ->
  exists d1, xform n p nlb nub k s slb sub (d_lb_idx d) (d_ub_idx d) d = Ok d1.
Proof.
  intros Ls W En Elb Eub. unfold xform.
  destruct (mul_gather_ok (set_head (vmul (head nlb (d_lb_scaling d)) (head nlb slb)) (d_lb_scaling d)) s (d_lb_idx d)) as [r1 E1].
  { eapply Forall_impl; [|apply (incr_from_Forall _ _ _ (wfd_lbi d W))]. cbn; intros; lia. }
  destruct (mul_gather_ok (set_head (vmul (head nub (d_ub_scaling d)) (head nub sub)) (d_ub_scaling d)) s (d_ub_idx d)) as [r2 E2].
  { eapply Forall_impl; [|apply (incr_from_Forall _ _ _ (wfd_ubi d W))]. cbn; intros; lia. }
  rewrite E1; cbn. rewrite E2; cbn. eexists; reflexivity.
Qed.

Lemma wf_mat_scale_P_utri sx kk r c M : wf_mat r c M -> wf_mat r c (scale_P_utri sx (mscale kk M)).
Proof.
  intros [L F]. split.
  - rewrite length_scale_P_utri, length_mscale. exact L.
  - apply Forall_forall. intros col Hc. apply (In_nth _ _ []) in Hc. destruct Hc as (j & Hj & <-).
    rewrite length_scale_P_utri, length_mscale in Hj.
    rewrite length_col_scale_P_utri, col_mscale, length_vscale.
    rewrite Forall_forall in F. apply F, nth_In, Hj.
Qed.

Lemma wf_mat_mscale_rc dr dc r c M :
  wf_mat r c M -> length dr = r -> length dc = c -> wf_mat r c (mscale_rc dr dc M).
Proof.
  intros [L F] Lr Lc. split.
  - rewrite length_mscale_rc. lia.
  - apply Forall_forall. intros col Hc. apply (In_nth _ _ []) in Hc. destruct Hc as (j & Hj & <-).
    rewrite length_mscale_rc in Hj. rewrite col_mscale_rc by lia.
    rewrite length_vscale, length_vmul. rewrite Forall_forall in F.
    rewrite (F (nth j M [])) by (apply nth_In; lia). lia.
Qed.

Lemma xform_wf n p m nlb nub k (s slb sub : Vec) d d1 :
  length s = (n + p + m)%nat -> (nlb <= length slb)%nat -> (nub <= length sub)%nat ->
  wf_data d -> d_n d = n -> d_p d = p -> d_m d = m -> d_nlb d = nlb -> d_nub d = nub ->
  xform n p nlb nub k s slb sub (d_lb_idx d) (d_ub_idx d) d = Ok d1 ->
  wf_data d1 /\ d_n d1 = n /\ d_p d1 = p /\ d_m d1 = m /\ d_lb_idx d1 = d_lb_idx d /\ d_ub_idx d1 = d_ub_idx d.
Proof.
  intros Ls Llb Lub W En Ep Em Elb Eub H. unfold xform in H.
  destruct (mul_gather _ s (d_lb_idx d)) as [r1|] eqn:E1; cbn in H; [|discriminate].
  destruct (mul_gather _ s (d_ub_idx d)) as [r2|] eqn:E2; cbn in H; [|discriminate].
  inversion H; subst d1; clear H. cbn.
  pose proof (wf_nlb_le d W) as Nlb. pose proof (wf_nub_le d W) as Nub.
  destruct W. unfold d_nlb, d_nub in *.
  apply box_scaling_step in E1; try lia. apply box_scaling_step in E2; try lia.
  assert (Lsx : length (head n s) = n) by (apply length_head; lia).
  assert (Lsy : length (segment n p s) = p) by (apply length_segment; lia).
  assert (Lsz : length (tail_from (n + p) s) = m) by (rewrite length_tail_from; lia).
  split; [|cbn; repeat split; assumption]. constructor; cbn; try assumption.
  - rewrite En in *. apply wf_mat_scale_P_utri; assumption.
  - rewrite En, Ep in *. apply wf_mat_mscale_rc; assumption.
  - rewrite En, Em in *. apply wf_mat_mscale_rc; assumption.
  - rewrite length_vmul, length_vscale. qlia.
  - rewrite length_vmul. qlia.
  - rewrite length_vmul. qlia.
  - destruct E1; qlia.
  - destruct E2; qlia.
  - rewrite length_vmul, length_head by lia. qlia.
  - rewrite length_vmul, length_head by lia. qlia.
Qed.

Section Xform.
Variables (n p m nlb nub : nat).
Variables (k k' : F) (s s' slb slb' sub sub' : Vec).
Hypothesis Hk : k * k' = 1.
Hypothesis Ls : length s = (n + p + m)%nat.
Hypothesis Ls' : length s' = (n + p + m)%nat.
Hypothesis Hs : forall i, (i < n + p + m)%nat -> nth i s 0 * nth i s' 0 = 1.
Hypothesis Llb : (nlb <= length slb)%nat.
Hypothesis Llb' : (nlb <= length slb')%nat.
Hypothesis Hlb : forall i, (i < nlb)%nat -> nth i slb 0 * nth i slb' 0 = 1.
Hypothesis Lub : (nub <= length sub)%nat.
Hypothesis Lub' : (nub <= length sub')%nat.
Hypothesis Hub : forall i, (i < nub)%nat -> nth i sub 0 * nth i sub' 0 = 1.

Lemma xform_xform_id d d1 :
  wf_data d -> d_n d = n -> d_p d = p -> d_m d = m -> d_nlb d = nlb -> d_nub d = nub ->
  xform n p nlb nub k s slb sub (d_lb_idx d) (d_ub_idx d) d = Ok d1 ->
  xform n p nlb nub k' s' slb' sub' (d_lb_idx d) (d_ub_idx d) d1 = Ok d.
Proof.
  intros W En Ep Em Elb Eub H. unfold xform in H.
  destruct (mul_gather _ s (d_lb_idx d)) as [r1|] eqn:E1; cbn in H; [|discriminate].
  destruct (mul_gather _ s (d_ub_idx d)) as [r2|] eqn:E2; cbn in H; [|discriminate].
  inversion H; subst d1; clear H.
  pose proof (wf_nlb_le d W) as Nlb. pose proof (wf_nub_le d W) as Nub.
  pose proof (incr_from_Forall _ _ _ (wfd_lbi d W)) as Flb.
  pose proof (incr_from_Forall _ _ _ (wfd_ubi d W)) as Fub.
  destruct W. unfold d_nlb, d_nub in *.
  destruct d as [dn dp dm P AT GT c b h lbi ubi lbs ubs lbn ub]; cbn in *. rewrite En, Ep, Em in *.
  destruct (inv_pair_split n p m s s' Ls Ls' Hs) as (PX & PY & PZ).
  unfold xform; cbn.
  destruct (mul_gather_ok (set_head (vmul (head nlb r1) (head nlb slb')) r1) s' lbi) as [r1' E1'].
  { eapply Forall_impl; [|exact Flb]. cbn; intros; lia. }
  destruct (mul_gather_ok (set_head (vmul (head nub r2) (head nub sub')) r2) s' ubi) as [r2' E2'].
  { eapply Forall_impl; [|exact Fub]. cbn; intros; lia. }
  rewrite E1'; cbn. rewrite E2'; cbn.
  assert (R1 : r1' = lbs).
  { eapply (box_roundtrip lbs slb slb' s s' lbi nlb (n + p + m)%nat r1 r1'); eauto; try lia.
    eapply Forall_impl; [|exact Flb]. cbn; intros; lia. }
  assert (R2 : r2' = ubs).
  { eapply (box_roundtrip ubs sub sub' s s' ubi nub (n + p + m)%nat r2 r2'); eauto; try lia.
    eapply Forall_impl; [|exact Fub]. cbn; intros; lia. }
  subst r1' r2'.
  f_equal. f_equal.
  - eapply P_roundtrip; eauto.
  - eapply rc_roundtrip; eauto.
  - eapply rc_roundtrip; eauto.
  - destruct PX as (X1 & X2 & X3). apply vmul_vmul_cancel; rewrite ?length_vscale; try qlia.
    intros i Hi. rewrite !nth_vscale.
    assert (Ei : nth i (head n s) 0 * nth i (head n s') 0 = 1) by (apply X3; qlia).
    transitivity ((k * k') * (nth i (head n s) 0 * nth i (head n s') 0)); [qring|]. rewrite Hk, Ei. qring.
  - eapply pair_plain; eauto.
  - eapply pair_plain; eauto.
  - apply vmul_vmul_cancel; rewrite ?length_head by lia; try qlia.
    intros i Hi. rewrite !nth_head by qlia. apply Hlb. qlia.
  - apply vmul_vmul_cancel; rewrite ?length_head by lia; try qlia.
    intros i Hi. rewrite !nth_head by qlia. apply Hub. qlia.
Qed.

End Xform.

Lemma Qcmult_comm1 a b : a * b = 1 -> b * a = 1.
Proof. intro H. rewrite Qcmult_comm. exact H. Qed.

(* T2a: unscale_data followed by scale_data(reuse) restores the data (ALL fields, including the strict lower
   triangle of P -- it is multiplied by c_inv and then by c only -- and the whole box-scaling vectors) *)
Theorem unscale_scale_id K sq pc d sc it :
  wf_data d -> wf_pc pc d -> pc_inverse pc -> pc_nlb pc = d_nlb d -> pc_nub pc = d_nub d ->
  exists d0, ruiz_unscale_data pc d = Ok d0 /\ wf_data d0 /\
             ruiz_scale_data K sq pc d0 true sc it = Ok (pc, d).
Proof.
  intros W (WL & En & Ep & Em) I Elb Eub.
  pose proof (wf_nlb_le d W) as Nlb. pose proof (wf_nub_le d W) as Nub.
  destruct WL, I.
  rewrite unscale_is_xform.
  rewrite Elb, Eub. unfold d_nlb at 2, d_nub at 2. rewrite !firstn_all.
  assert (HD : forall i, (i < pc_n pc + pc_p pc + pc_m pc)%nat ->
               nth i (pc_delta_inv pc) 0 * nth i (pc_delta pc) 0 = 1)
    by (intros; apply Qcmult_comm1; auto).
  assert (HL : forall i, (i < d_nlb d)%nat -> nth i (pc_delta_lb_inv pc) 0 * nth i (pc_delta_lb pc) 0 = 1)
    by (intros; apply Qcmult_comm1; apply pi_lb0; lia).
  assert (HU : forall i, (i < d_nub d)%nat -> nth i (pc_delta_ub_inv pc) 0 * nth i (pc_delta_ub pc) 0 = 1)
    by (intros; apply Qcmult_comm1; apply pi_ub0; lia).
  destruct (xform_ok (pc_n pc) (pc_p pc) (pc_m pc) (d_nlb d) (d_nub d) (pc_c_inv pc) (pc_delta_inv pc)
              (pc_delta_lb_inv pc) (pc_delta_ub_inv pc) d wfp_di0 W (eq_sym En) eq_refl eq_refl) as [d0 E0].
  exists d0. split; [exact E0|].
  destruct (xform_wf (pc_n pc) (pc_p pc) (pc_m pc) (d_nlb d) (d_nub d) (pc_c_inv pc) (pc_delta_inv pc)
              (pc_delta_lb_inv pc) (pc_delta_ub_inv pc) d d0 wfp_di0 ltac:(lia) ltac:(lia)
              W (eq_sym En) (eq_sym Ep) (eq_sym Em) eq_refl eq_refl E0)
    as (W0 & N0 & P0 & M0 & I1 & I2).
  split; [exact W0|].
  rewrite scale_reuse_is_xform.
  assert (Nl : d_nlb d0 = d_nlb d) by (unfold d_nlb; congruence).
  assert (Nu : d_nub d0 = d_nub d) by (unfold d_nub; congruence).
  rewrite Nl, Nu, I1, I2.
  rewrite (xform_xform_id (pc_n pc) (pc_p pc) (pc_m pc) (d_nlb d) (d_nub d) (pc_c_inv pc) (pc_c pc)
             (pc_delta_inv pc) (pc_delta pc) (pc_delta_lb_inv pc) (pc_delta_lb pc)
             (pc_delta_ub_inv pc) (pc_delta_ub pc)
             (Qcmult_comm1 _ _ pi_c0) wfp_di0 wfp_d0 HD ltac:(lia) ltac:(lia) HL ltac:(lia) ltac:(lia) HU
             d d0 W (eq_sym En) (eq_sym Ep) (eq_sym Em) eq_refl eq_refl E0).
  cbn. rewrite <- Elb, <- Eub. destruct pc; reflexivity.
Qed.

(* T2b: scale_data(reuse) followed by unscale_data restores the data *)
Theorem scale_unscale_id K sq pc d sc it :
  wf_data d -> wf_pc pc d -> pc_inverse pc ->
  exists d', ruiz_scale_data K sq pc d true sc it = Ok (pc <| pc_nlb := d_nlb d |> <| pc_nub := d_nub d |>, d') /\
             wf_data d' /\
             ruiz_unscale_data (pc <| pc_nlb := d_nlb d |> <| pc_nub := d_nub d |>) d' = Ok d.
Proof.
  intros W (WL & En & Ep & Em) I.
  pose proof (wf_nlb_le d W) as Nlb. pose proof (wf_nub_le d W) as Nub.
  destruct WL, I.
  rewrite scale_reuse_is_xform.
  assert (HL : forall i, (i < d_nlb d)%nat -> nth i (pc_delta_lb pc) 0 * nth i (pc_delta_lb_inv pc) 0 = 1)
    by (intros; apply pi_lb0; lia).
  assert (HU : forall i, (i < d_nub d)%nat -> nth i (pc_delta_ub pc) 0 * nth i (pc_delta_ub_inv pc) 0 = 1)
    by (intros; apply pi_ub0; lia).
  destruct (xform_ok (pc_n pc) (pc_p pc) (pc_m pc) (d_nlb d) (d_nub d) (pc_c pc) (pc_delta pc)
              (pc_delta_lb pc) (pc_delta_ub pc) d wfp_d0 W (eq_sym En) eq_refl eq_refl) as [d' E0].
  exists d'. rewrite E0. split; [reflexivity|].
  destruct (xform_wf (pc_n pc) (pc_p pc) (pc_m pc) (d_nlb d) (d_nub d) (pc_c pc) (pc_delta pc)
              (pc_delta_lb pc) (pc_delta_ub pc) d d' wfp_d0 ltac:(lia) ltac:(lia)
              W (eq_sym En) (eq_sym Ep) (eq_sym Em) eq_refl eq_refl E0)
    as (W0 & N0 & P0 & M0 & I1 & I2).
  split; [exact W0|].
  rewrite unscale_is_xform. cbn. rewrite I1, I2. unfold d_nlb at 2, d_nub at 2. rewrite !firstn_all.
  apply (xform_xform_id (pc_n pc) (pc_p pc) (pc_m pc) (d_nlb d) (d_nub d) (pc_c pc) (pc_c_inv pc)
             (pc_delta pc) (pc_delta_inv pc) (pc_delta_lb pc) (pc_delta_lb_inv pc)
             (pc_delta_ub pc) (pc_delta_ub_inv pc)
             pi_c0 wfp_d0 wfp_di0 pi_d0 ltac:(lia) ltac:(lia) HL ltac:(lia) ltac:(lia) HU
             d d' W (eq_sym En) (eq_sym Ep) (eq_sym Em) eq_refl eq_refl E0).
Qed.

(* ================================================================== *)
(** * T1/T3. the fresh branch of scale_data: one Ruiz iteration          *)
(* ================================================================== *)

Section Fresh.
Variable K : Consts.
Variable sq : bool.   (* sparse_quirk of PrecondDense.v: every result below holds for both values *)
Definition sane_consts : Prop := 0 < k_min_scaling K /\ k_min_scaling K <= 1 /\ 1 <= k_max_scaling K.
Hypothesis SK : sane_consts.

Lemma limit_scaling_pos x : 0 < limit_scaling K x.
Proof.
  destruct SK as (H0 & H1 & H2). unfold limit_scaling.
  destruct (qltb x (k_min_scaling K)) eqn:E1; [apply Qc_0_lt_1|].
  apply qltb_false_iff in E1.
  destruct (qltb (k_max_scaling K) x) eqn:E2.
  - eapply Qclt_le_trans; [apply Qc_0_lt_1|exact H2].
  - eapply Qclt_le_trans; [exact H0|exact E1].
Qed.

Lemma sqrt_inv_elem x y : (do r <- sqrtF x ;; qinv r) = Ok y -> 0 < y.
Proof.
  destruct (sqrtF x) as [r|] eqn:E; cbn; [|discriminate]. intro H.
  apply qinv_inv in H. destruct H as [Hr ->]. apply Qcdiv1_pos.
  unfold sqrtF in E. destruct (qeqb x 0); [inversion E; subst; congruence|].
  destruct (qltb x 0); [discriminate|]. inversion E. apply pow2Z_pos.
Qed.

Lemma sqrt_inv_spec v w : sqrt_inv v = Ok w ->
  length w = length v /\ forall i, (i < length v)%nat -> 0 < nth i w 0.
Proof.
  intro H. apply mapM_Forall2 in H. split.
  - symmetry. eapply Forall2_len; eauto.
  - intros i Hi. pose proof (Forall2_nth' _ _ _ 0 0 H i Hi) as E. cbn in E.
    eapply sqrt_inv_elem; eauto.
Qed.

Lemma sqrt_inv_ok v : (forall x, In x v -> 0 < x) -> exists w, sqrt_inv v = Ok w.
Proof.
  intro H. apply mapM_total. intros x Hx. destruct (sqrtF_pos x (H x Hx)) as (r & -> & Hr). cbn.
  rewrite qinv_ok by (apply Qc_pos_neq0, Hr). eexists; reflexivity.
Qed.

Lemma sqrt_inv_limit_ok v : exists w, sqrt_inv (map (limit_scaling K) v) = Ok w.
Proof.
  apply sqrt_inv_ok. intros x Hx. apply in_map_iff in Hx. destruct Hx as (y & <- & _). apply limit_scaling_pos.
Qed.

(* explicit form of one iteration *)
Lemma ruiz_iter_inv sc st st' :
  ruiz_iter K sq sc st = Ok st' ->
  let d := rz_d st in let pc := rz_pc st in
  let n := d_n d in let p := d_p d in let nlb := d_nlb d in let nub := d_nub d in
  exists (it_x2 it1 it_lb1 it_ub1 lbs1 ubs1 : Vec) (g : F) (P2 : Mat) (c2 it_lb_out : Vec),
    length it_x2 = n /\
    sqrt_inv (map (limit_scaling K) (it_x2 ++ map norm_inf (d_AT d) ++ map norm_inf (d_GT d))) = Ok it1 /\
    sqrt_inv (map (limit_scaling K) (set_head (head nlb (d_lb_scaling d)) (rz_it_lb st))) = Ok it_lb1 /\
    sqrt_inv (map (limit_scaling K) (set_head (head nub (d_ub_scaling d)) (rz_it_ub st))) = Ok it_ub1 /\
    mul_gather (set_head (vmul (head nlb (d_lb_scaling d)) (head nlb it_lb1)) (d_lb_scaling d)) it1 (d_lb_idx d) = Ok lbs1 /\
    mul_gather (set_head (vmul (head nub (d_ub_scaling d)) (head nub it_ub1)) (d_ub_scaling d)) it1 (d_ub_idx d) = Ok ubs1 /\
    0 < g /\
    let sx := head n it1 in
    let P1 := scale_P_utri sx (d_P d) in
    let c1 := vmul (d_c d) sx in
    length P2 = length P1 /\ (forall j, length (nth j P2 []) = length (nth j P1 [])) /\
    (forall i j, mentry P2 i j = g * mentry P1 i j) /\
    length c2 = length c1 /\ (forall i, nth i c2 0 = g * nth i c1 0) /\
    (* the only place where the sparse quirk enters: what the next loop guard will read as delta_iter_lb *)
    it_lb_out = (if sq && sc then map (fun k => qmax (P_col_head_norm P1 k) (P_row_tail_norm P1 k)) (seq 0 n)
                 else it_lb1) /\
    st' = {| rz_d := mkData (d_n d) (d_p d) (d_m d) P2
                       (mscale_rc sx (segment n p it1) (d_AT d))
                       (mscale_rc sx (tail_from (n + p) it1) (d_GT d))
                       c2 (d_b d) (d_h d) (d_lb_idx d) (d_ub_idx d) lbs1 ubs1 (d_lb_n d) (d_ub d);
             rz_pc := mkPrecond (pc_ident pc) (pc_n pc) (pc_p pc) (pc_m pc) (pc_nlb pc) (pc_nub pc)
                       (pc_c pc * g) (vmul (pc_delta pc) it1)
                       (set_head (vmul (head nlb (pc_delta_lb pc)) (head nlb it_lb1)) (pc_delta_lb pc))
                       (set_head (vmul (head nub (pc_delta_ub pc)) (head nub it_ub1)) (pc_delta_ub pc))
                       (pc_c_inv pc) (pc_delta_inv pc) (pc_delta_lb_inv pc) (pc_delta_ub_inv pc);
             rz_it := it1; rz_it_lb := it_lb_out; rz_it_ub := it_ub1 |}.
Proof.
  intro H. unfold ruiz_iter in H. cbv zeta in H.
  destruct (scatter_max _ (d_lb_idx (rz_d st)) _) as [it_x1|] eqn:E1; cbn [bind] in H; [|discriminate].
  destruct (scatter_max _ (d_ub_idx (rz_d st)) _) as [it_x2|] eqn:E2; cbn [bind] in H; [|discriminate].
  destruct (sqrt_inv (map (limit_scaling K) (it_x2 ++ _))) as [it1|] eqn:E3; cbn [bind] in H; [|discriminate].
  destruct (sqrt_inv _) as [it_lb1|] eqn:E4 in H; cbn [bind] in H; [|discriminate].
  destruct (sqrt_inv _) as [it_ub1|] eqn:E5 in H; cbn [bind] in H; [|discriminate].
  destruct (mul_gather _ it1 (d_lb_idx (rz_d st))) as [lbs1|] eqn:E6; cbn [bind] in H; [|discriminate].
  destruct (mul_gather _ it1 (d_ub_idx (rz_d st))) as [ubs1|] eqn:E7; cbn [bind] in H; [|discriminate].
  cbv zeta.
  assert (Lx : length it_x2 = d_n (rz_d st)).
  { apply scatter_with_len in E2. apply scatter_with_len in E1. rewrite E2, E1, map_length, seq_length. reflexivity. }
  destruct sc.
  - destruct (qdiv _ (qofnat _)) as [g1|] eqn:E8; cbn [bind] in H; [|discriminate].
    destruct (qinv _) as [g|] eqn:E9; cbn [bind] in H; [|discriminate].
    exists it_x2, it1, it_lb1, it_ub1, lbs1, ubs1, g.
    exists (mscale g (scale_P_utri (head (d_n (rz_d st)) it1) (d_P (rz_d st)))).
    exists (vscale g (vmul (d_c (rz_d st)) (head (d_n (rz_d st)) it1))).
    exists (if sq && true
            then map (fun k => qmax (P_col_head_norm (scale_P_utri (head (d_n (rz_d st)) it1) (d_P (rz_d st))) k)
                                    (P_row_tail_norm (scale_P_utri (head (d_n (rz_d st)) it1) (d_P (rz_d st))) k))
                     (seq 0 (d_n (rz_d st)))
            else it_lb1).
    repeat (split; [eassumption|]).
    split. { apply qinv_inv in E9. destruct E9 as [_ ->]. apply Qcdiv1_pos, limit_scaling_pos. }
    split; [apply length_mscale|]. split; [intro j; rewrite col_mscale; apply length_vscale|].
    split; [intros; apply mentry_mscale|]. split; [apply length_vscale|]. split; [intros; apply nth_vscale|].
    split; [reflexivity|].
    inversion H. destruct (rz_d st), (rz_pc st); reflexivity.
  - cbn [bind] in H.
    exists it_x2, it1, it_lb1, it_ub1, lbs1, ubs1, 1.
    exists (scale_P_utri (head (d_n (rz_d st)) it1) (d_P (rz_d st))).
    exists (vmul (d_c (rz_d st)) (head (d_n (rz_d st)) it1)).
    exists it_lb1.
    repeat (split; [eassumption|]).
    split; [apply Qc_0_lt_1|].
    split; [reflexivity|]. split; [reflexivity|]. split; [intros; qring|]. split; [reflexivity|].
    split; [intros; qring|].
    split; [rewrite andb_false_r; reflexivity|].
    inversion H. rewrite andb_false_r. destruct (rz_d st), (rz_pc st); cbn. rewrite Qcmult_1_r. reflexivity.
Qed.


(* ---- invariants of the equilibration loop ---- *)
Record pc_pos (pc : Precond) : Prop := mk_pc_pos {
  pp_c  : 0 < pc_c pc;
  pp_d  : forall i, (i < pc_n pc + pc_p pc + pc_m pc)%nat -> 0 < nth i (pc_delta pc) 0;
  pp_lb : forall i, (i < pc_n pc)%nat -> 0 < nth i (pc_delta_lb pc) 0;
  pp_ub : forall i, (i < pc_n pc)%nat -> 0 < nth i (pc_delta_ub pc) 0
}.

(* d is d0 transformed by the cost scaling c, the KKT scaling dl (length n+p+m) and the box scalings dlb, dub
   (bounds b, h, lb_n, ub are treated separately: they are scaled once, after the loop) *)
Record is_transform (c : F) (dl dlb dub : Vec) (d0 d : Data) : Prop := mk_is_transform {
  tr_n   : d_n d = d_n d0;
  tr_p   : d_p d = d_p d0;
  tr_m   : d_m d = d_m d0;
  tr_lbi : d_lb_idx d = d_lb_idx d0;
  tr_ubi : d_ub_idx d = d_ub_idx d0;
  tr_P_up : forall i j, (i <= j)%nat -> (j < d_n d0)%nat ->
            mentry (d_P d) i j = c * nth i dl 0 * nth j dl 0 * mentry (d_P d0) i j;
  tr_P_lo : forall i j, (j < i)%nat -> (i < d_n d0)%nat ->
            mentry (d_P d) i j = c * mentry (d_P d0) i j;
  tr_c   : forall i, (i < d_n d0)%nat -> nth i (d_c d) 0 = c * nth i dl 0 * nth i (d_c d0) 0;
  tr_AT  : forall i j, (i < d_n d0)%nat -> (j < d_p d0)%nat ->
           mentry (d_AT d) i j = nth i dl 0 * nth (d_n d0 + j) dl 0 * mentry (d_AT d0) i j;
  tr_GT  : forall i j, (i < d_n d0)%nat -> (j < d_m d0)%nat ->
           mentry (d_GT d) i j = nth i dl 0 * nth (d_n d0 + d_p d0 + j) dl 0 * mentry (d_GT d0) i j;
  tr_lbs : forall k, (k < d_nlb d0)%nat ->
           nth k (d_lb_scaling d) 0 = nth k dlb 0 * nth (nth k (d_lb_idx d0) 0%nat) dl 0 * nth k (d_lb_scaling d0) 0;
  tr_lbs_tail : forall k, (d_nlb d0 <= k)%nat -> nth k (d_lb_scaling d) 0 = nth k (d_lb_scaling d0) 0;
  tr_ubs : forall k, (k < d_nub d0)%nat ->
           nth k (d_ub_scaling d) 0 = nth k dub 0 * nth (nth k (d_ub_idx d0) 0%nat) dl 0 * nth k (d_ub_scaling d0) 0;
  tr_ubs_tail : forall k, (d_nub d0 <= k)%nat -> nth k (d_ub_scaling d) 0 = nth k (d_ub_scaling d0) 0
}.

(* the bounds: b, h (scaled by the y / z part of dl) and the packed box bounds (scaled by dlb / dub) *)
Definition bounds_transform (dl dlb dub : Vec) (d0 d : Data) : Prop :=
  (forall j, (j < d_p d0)%nat -> nth j (d_b d) 0 = nth (d_n d0 + j) dl 0 * nth j (d_b d0) 0) /\
  (forall j, (j < d_m d0)%nat -> nth j (d_h d) 0 = nth (d_n d0 + d_p d0 + j) dl 0 * nth j (d_h d0) 0) /\
  (forall k, (k < d_nlb d0)%nat -> nth k (d_lb_n d) 0 = nth k dlb 0 * nth k (d_lb_n d0) 0) /\
  (forall k, (k < d_nub d0)%nat -> nth k (d_ub d) 0 = nth k dub 0 * nth k (d_ub d0) 0).

Record rz_inv (d0 : Data) (st : ruiz_st) : Prop := mk_rz_inv {
  ri_wfd : wf_data (rz_d st);
  ri_n   : pc_n (rz_pc st) = d_n (rz_d st);
  ri_p   : pc_p (rz_pc st) = d_p (rz_d st);
  ri_m   : pc_m (rz_pc st) = d_m (rz_d st);
  ri_Ld  : length (pc_delta (rz_pc st)) = (pc_n (rz_pc st) + pc_p (rz_pc st) + pc_m (rz_pc st))%nat;
  ri_Llb : length (pc_delta_lb (rz_pc st)) = pc_n (rz_pc st);
  ri_Lub : length (pc_delta_ub (rz_pc st)) = pc_n (rz_pc st);
  ri_pos : pc_pos (rz_pc st);
  ri_tr  : is_transform (pc_c (rz_pc st)) (pc_delta (rz_pc st)) (pc_delta_lb (rz_pc st)) (pc_delta_ub (rz_pc st))
                        d0 (rz_d st);
  ri_b   : d_b (rz_d st) = d_b d0;
  ri_h   : d_h (rz_d st) = d_h d0;
  ri_lbn : d_lb_n (rz_d st) = d_lb_n d0;
  ri_ub  : d_ub (rz_d st) = d_ub d0;
  ri_nlb : pc_nlb (rz_pc st) = d_nlb d0;
  ri_nub : pc_nub (rz_pc st) = d_nub d0
}.

Lemma wf_mat_same_shape r c (M M' : Mat) :
  wf_mat r c M -> length M' = length M -> (forall j, length (nth j M' []) = length (nth j M [])) -> wf_mat r c M'.
Proof.
  intros [L F] L' C. split; [congruence|]. apply Forall_forall. intros col Hc.
  apply (In_nth _ _ []) in Hc. destruct Hc as (j & Hj & <-). rewrite C.
  rewrite Forall_forall in F. apply F, nth_In. rewrite <- L'. exact Hj.
Qed.

Lemma length_set_head_ge {A} (w v : list A) : (length w <= length (set_head w v))%nat.
Proof. unfold set_head. rewrite app_length. lia. Qed.

(* head-update of a box scaling vector *)
Lemma nth_box_update (dv it : Vec) nlb k :
  (nlb <= length dv)%nat -> (nlb <= length it)%nat ->
  nth k (set_head (vmul (head nlb dv) (head nlb it)) dv) 0 =
  if Nat.ltb k nlb then nth k dv 0 * nth k it 0 else nth k dv 0.
Proof.
  intros L1 L2. rewrite nth_set_head, length_vmul, !length_head by assumption.
  rewrite Nat.min_id. destruct (Nat.ltb k nlb) eqn:E; [|reflexivity].
  rewrite nth_vmul. unfold head. rewrite !nth_firstn', E. reflexivity.
Qed.

Lemma length_box_update (dv it : Vec) nlb :
  (nlb <= length dv)%nat -> length (set_head (vmul (head nlb dv) (head nlb it)) dv) = length dv.
Proof.
  intro L. apply length_set_head. rewrite length_vmul, length_head by assumption. lia.
Qed.

Lemma ruiz_iter_preserves d0 sc st st' :
  rz_inv d0 st -> ruiz_iter K sq sc st = Ok st' -> rz_inv d0 st'.
Proof.
  intros [W En Ep Em Ld Llb Lub PP T Hb Hh Hlbn Hub Hnlb Hnub] H.
  apply ruiz_iter_inv in H. cbv zeta in H.
  destruct H as (it_x2 & it1 & it_lb1 & it_ub1 & lbs1 & ubs1 & g & P2 & c2 &
                 it_lb_out & Lx & S1 & S2 & S3 & G1 & G2 & Hg & LP & CP & EP & Lc & Ec & _ & ->).
  pose proof (wf_nlb_le _ W) as Nlb. pose proof (wf_nub_le _ W) as Nub.
  pose proof (incr_from_Forall _ _ _ (wfd_lbi _ W)) as Flb.
  pose proof (incr_from_Forall _ _ _ (wfd_ubi _ W)) as Fub.
  destruct W as [WP WA WG Wc Wb Wh Wli Wui Wls Wus Wln Wu].
  destruct PP as [Pc Pd Plb Pub].
  set (d := rz_d st) in *. set (pc := rz_pc st) in *.
  apply sqrt_inv_spec in S1. destruct S1 as [L1 Pos1].
  apply sqrt_inv_spec in S2. destruct S2 as [L2 Pos2].
  apply sqrt_inv_spec in S3. destruct S3 as [L3 Pos3].
  rewrite map_length in *.
  assert (Lit1 : length it1 = (d_n d + d_p d + d_m d)%nat).
  { rewrite L1, !app_length, !map_length, Lx. destruct WA as [-> _]. destruct WG as [-> _]. lia. }
  assert (Llb1 : (d_nlb d <= length it_lb1)%nat).
  { rewrite L2. etransitivity; [|apply length_set_head_ge]. rewrite length_head; lia. }
  assert (Lub1 : (d_nub d <= length it_ub1)%nat).
  { rewrite L3. etransitivity; [|apply length_set_head_ge]. rewrite length_head; lia. }
  assert (Lsx : length (head (d_n d) it1) = d_n d) by (apply length_head; lia).
  assert (Lsy : length (segment (d_n d) (d_p d) it1) = d_p d) by (apply length_segment; lia).
  assert (Lsz : length (tail_from (d_n d + d_p d) it1) = d_m d) by (rewrite length_tail_from; lia).
  apply box_scaling_step in G1; try lia; [|reflexivity]. destruct G1 as [Ll1 Nl1].
  apply box_scaling_step in G2; try lia; [|reflexivity]. destruct G2 as [Lu1 Nu1].
  destruct T as [Tn Tp Tm Tli Tui TPu TPl Tc TA TG Tl Tlt Tu Tut].
  assert (Enlb : d_nlb d = d_nlb d0) by (unfold d_nlb; congruence).
  assert (Enub : d_nub d = d_nub d0) by (unfold d_nub; congruence).
  constructor; unfold d_nlb, d_nub; psimpl; fold (d_nlb d) (d_nub d) (d_nlb d0) (d_nub d0); try assumption.
  - (* wf_data *)
    constructor; unfold d_nlb, d_nub; psimpl; fold (d_nlb d) (d_nub d) (d_nlb d0) (d_nub d0); try assumption.
    + eapply wf_mat_same_shape; [exact WP| |].
      * rewrite LP. apply length_scale_P_utri.
      * intro j. rewrite CP. apply length_col_scale_P_utri.
    + apply wf_mat_mscale_rc; assumption.
    + apply wf_mat_mscale_rc; assumption.
    + rewrite Lc, length_vmul. qlia.
    + qlia.
    + qlia.
  - rewrite length_vmul. qlia.
  - rewrite length_box_update by lia. assumption.
  - rewrite length_box_update by lia. assumption.
  - (* positivity *)
    constructor; psimpl.
    + apply Qcmult_pos; assumption.
    + intros i Hi. rewrite nth_vmul. apply Qcmult_pos; [apply Pd, Hi|apply Pos1; qlia].
    + intros i Hi. rewrite nth_box_update by lia. destruct (Nat.ltb i (d_nlb d)) eqn:E; [|apply Plb, Hi].
      apply Nat.ltb_lt in E. apply Qcmult_pos; [apply Plb, Hi|apply Pos2; qlia].
    + intros i Hi. rewrite nth_box_update by lia. destruct (Nat.ltb i (d_nub d)) eqn:E; [|apply Pub, Hi].
      apply Nat.ltb_lt in E. apply Qcmult_pos; [apply Pub, Hi|apply Pos3; qlia].
  - (* transformation *)
    constructor; unfold d_nlb, d_nub; psimpl; fold (d_nlb d) (d_nub d) (d_nlb d0) (d_nub d0); try assumption.
    + intros i j Hij Hj. rewrite EP, mentry_scale_P_utri.
      apply Nat.leb_le in Hij. rewrite Hij. apply Nat.leb_le in Hij.
      rewrite !nth_head by lia. rewrite !nth_vmul, (TPu i j Hij Hj). qring.
    + intros i j Hij Hi. rewrite EP, mentry_scale_P_utri.
      assert (E : Nat.leb i j = false) by (apply Nat.leb_gt; lia). rewrite E.
      rewrite (TPl i j Hij Hi). qring.
    + intros i Hi. rewrite Ec, nth_vmul, nth_head by lia. rewrite nth_vmul, (Tc i Hi). qring.
    + intros i j Hi Hj. rewrite mentry_mscale_rc, nth_head by lia.
      rewrite nth_segment. assert (E : Nat.ltb j (d_p d) = true) by (apply Nat.ltb_lt; lia). rewrite E.
      rewrite !nth_vmul, (TA i j Hi Hj), Tn. qring.
    + intros i j Hi Hj. rewrite mentry_mscale_rc, nth_head by lia.
      unfold tail_from. rewrite nth_skipn'.
      rewrite !nth_vmul, (TG i j Hi Hj), Tn, Tp. qring.
    + intros k Hk. rewrite Nl1. assert (E : Nat.ltb k (d_nlb d) = true) by (apply Nat.ltb_lt; lia). rewrite E.
      rewrite nth_box_update by qlia. rewrite E. rewrite nth_vmul, (Tl k Hk), Tli. qring.
    + intros k Hk. rewrite Nl1. assert (E : Nat.ltb k (d_nlb d) = false) by (apply Nat.ltb_ge; lia). rewrite E.
      apply Tlt, Hk.
    + intros k Hk. rewrite Nu1. assert (E : Nat.ltb k (d_nub d) = true) by (apply Nat.ltb_lt; lia). rewrite E.
      rewrite nth_box_update by qlia. rewrite E. rewrite nth_vmul, (Tu k Hk), Tui. qring.
    + intros k Hk. rewrite Nu1. assert (E : Nat.ltb k (d_nub d) = false) by (apply Nat.ltb_ge; lia). rewrite E.
      apply Tut, Hk.
Qed.


Lemma ruiz_loop_preserves d0 sc fuel : forall st st',
  rz_inv d0 st -> ruiz_loop K sq fuel sc st = Ok st' -> rz_inv d0 st'.
Proof.
  induction fuel as [|f IH]; intros st st' I H; cbn in H.
  - inversion H; subst; exact I.
  - destruct (ruiz_continue _ _ _ _ _ _).
    + destruct (ruiz_iter K sq sc st) as [st1|] eqn:E; cbn in H; [|discriminate].
      eapply IH; [|exact H]. eapply ruiz_iter_preserves; eauto.
    + inversion H; subst; exact I.
Qed.

(* progress: an iteration never fails (no division by zero, no index error), provided n >= 1 when the cost is scaled *)
Lemma ruiz_iter_ok d0 sc st :
  rz_inv d0 st -> (sc = false \/ (1 <= d_n d0)%nat) -> exists st', ruiz_iter K sq sc st = Ok st'.
Proof.
  intros [W En Ep Em Ld Llb Lub PP T Hb Hh Hlbn Hub Hnlb Hnub] Hn.
  pose proof (wf_nlb_le _ W) as Nlb. pose proof (wf_nub_le _ W) as Nub.
  pose proof (incr_from_Forall _ _ _ (wfd_lbi _ W)) as Flb.
  pose proof (incr_from_Forall _ _ _ (wfd_ubi _ W)) as Fub.
  destruct W as [WP WA WG Wc Wb Wh Wli Wui Wls Wus Wln Wu].
  unfold ruiz_iter. cbv zeta.
  set (d := rz_d st) in *.
  match goal with |- context [scatter_max ?v (d_lb_idx d) ?w] =>
    destruct (scatter_with_ok qmax (d_lb_idx d) v w) as [it_x1 E1] end.
  { rewrite map_length, seq_length. exact Flb. }
  { rewrite length_head; unfold d_nlb in *; lia. }
  unfold scatter_max at 1. rewrite E1; cbn [bind].
  pose proof (scatter_with_len _ _ _ _ _ E1) as L1. rewrite map_length, seq_length in L1.
  match goal with |- context [scatter_max it_x1 (d_ub_idx d) ?w] =>
    destruct (scatter_with_ok qmax (d_ub_idx d) it_x1 w) as [it_x2 E2] end.
  { rewrite L1. exact Fub. }
  { rewrite length_head; unfold d_nub in *; lia. }
  unfold scatter_max at 1. rewrite E2; cbn [bind].
  pose proof (scatter_with_len _ _ _ _ _ E2) as L2. rewrite L1 in L2.
  match goal with |- context [sqrt_inv (map (limit_scaling K) ?v)] =>
    destruct (sqrt_inv_limit_ok v) as [it1 E3]; rewrite E3; cbn [bind] end.
  match goal with |- context [sqrt_inv (map (limit_scaling K) ?v)] =>
    destruct (sqrt_inv_limit_ok v) as [it_lb1 E4]; rewrite E4; cbn [bind] end.
  match goal with |- context [sqrt_inv (map (limit_scaling K) ?v)] =>
    destruct (sqrt_inv_limit_ok v) as [it_ub1 E5]; rewrite E5; cbn [bind] end.
  apply sqrt_inv_spec in E3. destruct E3 as [L3 _].
  rewrite map_length, !app_length, !map_length, L2 in L3.
  match goal with |- context [mul_gather ?w it1 (d_lb_idx d)] =>
    destruct (mul_gather_ok w it1 (d_lb_idx d)) as [lbs1 E6] end.
  { eapply Forall_impl; [|exact Flb]. cbn; intros; lia. }
  rewrite E6; cbn [bind].
  match goal with |- context [mul_gather ?w it1 (d_ub_idx d)] =>
    destruct (mul_gather_ok w it1 (d_ub_idx d)) as [ubs1 E7] end.
  { eapply Forall_impl; [|exact Fub]. cbn; intros; lia. }
  rewrite E7; cbn [bind].
  destruct sc.
  - rewrite qdiv_ok; cbn [bind].
    + rewrite qinv_ok by (apply Qc_pos_neq0, limit_scaling_pos). cbn [bind]. eexists; reflexivity.
    + apply qofnat_neq0. destruct Hn as [Hn|Hn]; [discriminate|]. destruct T. fold d. lia.
  - cbn [bind]. eexists; reflexivity.
Qed.

Lemma ruiz_loop_ok d0 sc fuel : forall st,
  rz_inv d0 st -> (sc = false \/ (1 <= d_n d0)%nat) -> exists st', ruiz_loop K sq fuel sc st = Ok st'.
Proof.
  induction fuel as [|f IH]; intros st I Hn; cbn.
  - eexists; reflexivity.
  - destruct (ruiz_continue _ _ _ _ _ _); [|eexists; reflexivity].
    destruct (ruiz_iter_ok d0 sc st I Hn) as [st1 E]. rewrite E; cbn.
    apply IH; [|exact Hn]. eapply ruiz_iter_preserves; eauto.
Qed.


(* ---- vinv ---- *)
Lemma vinv_spec (v w : Vec) : vinv v = Ok w ->
  length w = length v /\ forall i, (i < length v)%nat -> nth i v 0 * nth i w 0 = 1.
Proof.
  intro H. apply mapM_Forall2 in H. split.
  - symmetry. eapply Forall2_len; eauto.
  - intros i Hi. pose proof (Forall2_nth' _ v w (0:F) (0:F) H i Hi) as E. cbn in E.
    apply qinv_inv in E. destruct E as [Hn ->]. apply Qc_mul_div1, Hn.
Qed.

Lemma vinv_ok (v : Vec) : (forall i, (i < length v)%nat -> 0 < nth i v 0) -> exists w, vinv v = Ok w.
Proof.
  intro H. apply mapM_total. intros x Hx. apply (In_nth _ _ 0) in Hx. destruct Hx as (i & Hi & <-).
  rewrite qinv_ok by (apply Qc_pos_neq0, H, Hi). eexists; reflexivity.
Qed.

(* the state with which the fresh branch enters the loop *)
Definition pc_fresh (pc0 : Precond) (d : Data) : Precond :=
  mkPrecond (pc_ident pc0) (pc_n pc0) (pc_p pc0) (pc_m pc0) (d_nlb d) (d_nub d)
            1 (vconst (pc_n pc0 + pc_p pc0 + pc_m pc0) 1) (vconst (pc_n pc0) 1) (vconst (pc_n pc0) 1)
            (pc_c_inv pc0) (pc_delta_inv pc0) (pc_delta_lb_inv pc0) (pc_delta_ub_inv pc0).
Definition st_fresh (pc0 : Precond) (d : Data) : ruiz_st :=
  mkRz d (pc_fresh pc0 d) (vconst (pc_n pc0 + pc_p pc0 + pc_m pc0) 0)
       (if sq then pc_delta_lb_inv pc0 else vconst (pc_n pc0) 0)
       (if sq then pc_delta_ub_inv pc0 else vconst (pc_n pc0) 0).

Definition dims_agree (pc : Precond) (d : Data) : Prop :=
  pc_n pc = d_n d /\ pc_p pc = d_p d /\ pc_m pc = d_m d.

(* explicit form of the result of the fresh branch *)
Lemma scale_fresh_inv pc0 d sc it pc' d' :
  ruiz_scale_data K sq pc0 d false sc it = Ok (pc', d') ->
  exists st ci di dlbi dubi,
    ruiz_loop K sq (Z.to_nat it) sc (st_fresh pc0 d) = Ok st /\
    qinv (pc_c (rz_pc st)) = Ok ci /\ vinv (pc_delta (rz_pc st)) = Ok di /\
    vinv (pc_delta_lb (rz_pc st)) = Ok dlbi /\ vinv (pc_delta_ub (rz_pc st)) = Ok dubi /\
    let pc2 := rz_pc st in let d2 := rz_d st in
    pc' = mkPrecond (pc_ident pc2) (pc_n pc2) (pc_p pc2) (pc_m pc2) (pc_nlb pc2) (pc_nub pc2)
                    (pc_c pc2) (pc_delta pc2) (pc_delta_lb pc2) (pc_delta_ub pc2) ci di dlbi dubi /\
    d' = mkData (d_n d2) (d_p d2) (d_m d2) (d_P d2) (d_AT d2) (d_GT d2) (d_c d2)
                (vmul (d_b d2) (segment (pc_n pc2) (pc_p pc2) (pc_delta pc2)))
                (vmul (d_h d2) (tail_from (pc_n pc2 + pc_p pc2) (pc_delta pc2)))
                (d_lb_idx d2) (d_ub_idx d2) (d_lb_scaling d2) (d_ub_scaling d2)
                (vmul (d_lb_n d2) (head (pc_nlb pc2) (pc_delta_lb pc2)))
                (vmul (d_ub d2) (head (pc_nub pc2) (pc_delta_ub pc2))).
Proof.
  unfold ruiz_scale_data. cbv zeta.
  replace (mkRz d _ _ _ _) with (st_fresh pc0 d) by (unfold st_fresh, pc_fresh; destruct pc0; reflexivity).
  destruct (ruiz_loop K sq (Z.to_nat it) sc (st_fresh pc0 d)) as [st|] eqn:E; cbn [bind]; [|discriminate].
  destruct (qinv _) as [ci|] eqn:E1; cbn [bind]; [|discriminate].
  destruct (vinv (pc_delta _)) as [di|] eqn:E2; cbn [bind]; [|discriminate].
  destruct (vinv (pc_delta_lb _)) as [dlbi|] eqn:E3; cbn [bind]; [|discriminate].
  destruct (vinv (pc_delta_ub _)) as [dubi|] eqn:E4; cbn [bind]; [|discriminate].
  intro H. exists st, ci, di, dlbi, dubi. repeat (split; [assumption || reflexivity|]).
  inversion H. unfold scale_bounds. destruct (rz_pc st), (rz_d st). cbn. split; reflexivity.
Qed.

Lemma nth_In_Forall (idx : list nat) n k : Forall (fun i => (i < n)%nat) idx -> (k < length idx)%nat -> (nth k idx 0 < n)%nat.
Proof. intros F H. rewrite Forall_forall in F. apply F, nth_In, H. Qed.

Lemma is_transform_id N n (d : Data) :
  wf_data d -> n = d_n d -> N = (d_n d + d_p d + d_m d)%nat ->
  is_transform 1 (vconst N 1) (vconst n 1) (vconst n 1) d d.
Proof.
  intros W -> ->.
  pose proof (wf_nlb_le _ W) as Nlb. pose proof (wf_nub_le _ W) as Nub.
  pose proof (incr_from_Forall _ _ _ (wfd_lbi _ W)) as Flb.
  pose proof (incr_from_Forall _ _ _ (wfd_ubi _ W)) as Fub.
  constructor; try reflexivity; intros.
  - rewrite !nth_vconst by lia. qring.
  - qring.
  - rewrite !nth_vconst by lia. qring.
  - rewrite !nth_vconst by lia. qring.
  - rewrite !nth_vconst by lia. qring.
  - pose proof (nth_In_Forall _ _ k Flb ltac:(assumption)). rewrite !nth_vconst by (unfold d_nlb in *; lia). qring.
  - pose proof (nth_In_Forall _ _ k Fub ltac:(assumption)). rewrite !nth_vconst by (unfold d_nub in *; lia). qring.
Qed.

Lemma rz_inv_fresh pc0 d : wf_data d -> dims_agree pc0 d -> rz_inv d (st_fresh pc0 d).
Proof.
  intros W (En & Ep & Em). constructor; cbn; try assumption; try reflexivity;
    try (rewrite length_vconst; reflexivity).
  - constructor; cbn; intros; try (rewrite nth_vconst by assumption); apply Qc_0_lt_1.
  - apply is_transform_id; [exact W|congruence|congruence].
Qed.

(** ** T1: the fresh branch establishes the inverse invariant (on all slots) and well-formed outputs *)
Theorem scale_establishes_inverse pc0 d0 sc it pc' d' :
  wf_data d0 -> dims_agree pc0 d0 ->
  ruiz_scale_data K sq pc0 d0 false sc it = Ok (pc', d') ->
  pc_inverse pc' /\ wf_data d' /\ wf_pc pc' d' /\
  pc_nlb pc' = d_nlb d' /\ pc_nub pc' = d_nub d' /\
  d_lb_idx d' = d_lb_idx d0 /\ d_ub_idx d' = d_ub_idx d0.
Proof.
  intros W DA H. apply scale_fresh_inv in H.
  destruct H as (st & ci & di & dlbi & dubi & HL & Hc & Hd & Hlb & Hub & -> & ->).
  pose proof (ruiz_loop_preserves d0 sc _ _ _ (rz_inv_fresh pc0 d0 W DA) HL) as I.
  destruct I as [W2 En Ep Em Ld Llb Lub [Pc Pd Plb Pub] T Hb Hh Hlbn Hubb Hnlb Hnub].
  apply qinv_inv in Hc. destruct Hc as [Hc0 ->].
  apply vinv_spec in Hd. destruct Hd as [Ldi Hd].
  apply vinv_spec in Hlb. destruct Hlb as [Llbi Hlb].
  apply vinv_spec in Hub. destruct Hub as [Lubi Hub].
  pose proof (wf_nlb_le _ W2) as Nlb. pose proof (wf_nub_le _ W2) as Nub.
  destruct T as [Tn Tp Tm Tli Tui _ _ _ _ _ _ _ _ _].
  assert (Enlb : d_nlb (rz_d st) = d_nlb d0) by (unfold d_nlb; congruence).
  assert (Enub : d_nub (rz_d st) = d_nub d0) by (unfold d_nub; congruence).
  split; [|split; [|split]].
  - constructor; cbn; auto.
    + apply Qc_mul_div1, Hc0.
    + intros i Hi. apply Hd. lia.
    + intros i Hi. apply Hlb. lia.
    + intros i Hi. apply Hub. lia.
  - destruct W2. constructor; unfold d_nlb, d_nub; cbn; fold (d_nlb (rz_d st)) (d_nub (rz_d st)); try assumption.
    + rewrite length_vmul, length_segment by lia. lia.
    + rewrite length_vmul, length_tail_from. lia.
    + rewrite length_vmul, length_head by lia. lia.
    + rewrite length_vmul, length_head by lia. lia.
  - split; [|cbn; auto]. constructor; cbn; try lia.
  - cbn. unfold d_nlb, d_nub; cbn. fold (d_nlb (rz_d st)) (d_nub (rz_d st)). repeat split; congruence.
Qed.

(** ** T1 (progress): the fresh branch returns Ok -- no division by zero, no index/shape error *)
Theorem scale_fresh_ok pc0 d0 sc it :
  wf_data d0 -> dims_agree pc0 d0 -> (sc = false \/ (1 <= d_n d0)%nat) ->
  exists pc' d', ruiz_scale_data K sq pc0 d0 false sc it = Ok (pc', d').
Proof.
  intros W DA Hn.
  destruct (ruiz_loop_ok d0 sc (Z.to_nat it) _ (rz_inv_fresh pc0 d0 W DA) Hn) as [st HL].
  pose proof (ruiz_loop_preserves d0 sc _ _ _ (rz_inv_fresh pc0 d0 W DA) HL) as I.
  destruct I as [W2 En Ep Em Ld Llb Lub [Pc Pd Plb Pub] T Hb Hh Hlbn Hubb Hnlb Hnub].
  unfold ruiz_scale_data. cbv zeta.
  replace (mkRz d0 _ _ _ _) with (st_fresh pc0 d0) by (unfold st_fresh, pc_fresh; destruct pc0; reflexivity).
  rewrite HL; cbn [bind].
  rewrite qinv_ok by (apply Qc_pos_neq0, Pc). cbn [bind].
  destruct (vinv_ok (pc_delta (rz_pc st))) as [di ->]; [intros; apply Pd; lia|]. cbn [bind].
  destruct (vinv_ok (pc_delta_lb (rz_pc st))) as [dlbi ->]; [intros; apply Plb; lia|]. cbn [bind].
  destruct (vinv_ok (pc_delta_ub (rz_pc st))) as [dubi ->]; [intros; apply Pub; lia|]. cbn [bind].
  eexists; eexists; reflexivity.
Qed.

(** ** T3: the freshly scaled data are the original data transformed by the scalings stored in pc' *)
Theorem scaled_data_is_transform pc0 d0 sc it pc' d' :
  wf_data d0 -> dims_agree pc0 d0 ->
  ruiz_scale_data K sq pc0 d0 false sc it = Ok (pc', d') ->
  is_transform (pc_c pc') (pc_delta pc') (pc_delta_lb pc') (pc_delta_ub pc') d0 d' /\
  bounds_transform (pc_delta pc') (pc_delta_lb pc') (pc_delta_ub pc') d0 d'.
Proof.
  intros W DA H. apply scale_fresh_inv in H.
  destruct H as (st & ci & di & dlbi & dubi & HL & Hc & Hd & Hlb & Hub & -> & ->).
  pose proof (ruiz_loop_preserves d0 sc _ _ _ (rz_inv_fresh pc0 d0 W DA) HL) as I.
  destruct I as [W2 En Ep Em Ld Llb Lub PP T Hb Hh Hlbn Hubb Hnlb Hnub].
  unfold bounds_transform. cbn. split; [|split; [|split; [|split]]].
  - destruct T. constructor; cbn; assumption.
  - intros j Hj. destruct T. rewrite nth_vmul, nth_segment, Hb.
    assert (E : Nat.ltb j (pc_p (rz_pc st)) = true) by (apply Nat.ltb_lt; lia). rewrite E.
    rewrite En, tr_n0. qring.
  - intros j Hj. destruct T. rewrite nth_vmul, Hh. unfold tail_from. rewrite nth_skipn'.
    rewrite En, Ep, tr_n0, tr_p0. qring.
  - intros k Hk. rewrite nth_vmul, nth_head by lia. rewrite Hlbn. qring.
  - intros k Hk. rewrite nth_vmul, nth_head by lia. rewrite Hubb. qring.
Qed.


(* ---- the sparse quirk influences nothing but the loop guard ---- *)

Lemma mapM_app {A B} (f : A -> res B) (a b : list A) r :
  mapM f (a ++ b) = Ok r -> exists ra rb, mapM f a = Ok ra /\ mapM f b = Ok rb /\ r = ra ++ rb.
Proof.
  revert r; induction a as [|x a IH]; cbn; intros r H.
  - exists [], r. repeat split; assumption.
  - destruct (f x) as [y|]; cbn in *; [|discriminate].
    destruct (mapM f (a ++ b)) as [r'|] eqn:E; cbn in H; [|discriminate]. inversion H; subst r.
    destruct (IH r' eq_refl) as (ra & rb & Ha & Hb & ->). rewrite Ha; cbn.
    exists (y :: ra), rb. repeat split; assumption.
Qed.

(* the head of delta_iter_lb after sqrt/inverse depends only on the head before *)
Lemma head_sqrt_inv_set_head (w v r : Vec) :
  sqrt_inv (map (limit_scaling K) (set_head w v)) = Ok r ->
  exists ra, sqrt_inv (map (limit_scaling K) w) = Ok ra /\ head (length w) r = ra.
Proof.
  unfold set_head. rewrite map_app. intro H. apply mapM_app in H.
  destruct H as (ra & rb & Ha & _ & ->). exists ra. split; [exact Ha|].
  pose proof (Forall2_len _ _ _ (mapM_Forall2 _ _ _ Ha)) as L. rewrite map_length in L.
  unfold head. rewrite L, firstn_app, Nat.sub_diag, firstn_all. cbn. apply app_nil_r.
Qed.

Lemma head_sqrt_inv_indep (w v v' r r' : Vec) k :
  length w = k ->
  sqrt_inv (map (limit_scaling K) (set_head w v)) = Ok r ->
  sqrt_inv (map (limit_scaling K) (set_head w v')) = Ok r' ->
  head k r' = head k r.
Proof.
  intros <- H H'. apply head_sqrt_inv_set_head in H. apply head_sqrt_inv_set_head in H'.
  destruct H as (ra & Ha & ->). destruct H' as (ra' & Ha' & ->). congruence.
Qed.

(* two loop states are equivalent when they carry the same data and the same accumulated scalings
   (the scratch vectors delta_iter, delta_iter_lb, delta_iter_ub may differ) *)
Definition st_eqv (a b : ruiz_st) : Prop := rz_d a = rz_d b /\ rz_pc a = rz_pc b.

(* one iteration, with or without the quirk, from equivalent states: equivalent results *)
Lemma ruiz_iter_quirk_step d0 sc st1 st2 st1' :
  rz_inv d0 st1 -> st_eqv st1 st2 -> ruiz_iter K sq sc st1 = Ok st1' ->
  exists st2', ruiz_iter K false sc st2 = Ok st2' /\ st_eqv st1' st2'.
Proof.
  intros I [Ed Ep] H. destruct st1 as [d pc it a b], st2 as [d2 pc2 it2 a2 b2]; cbn in Ed, Ep; subst d2 pc2.
  destruct I as [W _ _ _ _ _ _ _ _ _ _ _ _ _ _]. cbn in W.
  pose proof (wf_nlb_le _ W) as Nlb. pose proof (wf_nub_le _ W) as Nub.
  assert (Ll : length (head (d_nlb d) (d_lb_scaling d)) = d_nlb d) by (apply length_head; rewrite (wfd_lbs _ W); exact Nlb).
  assert (Lu : length (head (d_nub d) (d_ub_scaling d)) = d_nub d) by (apply length_head; rewrite (wfd_ubs _ W); exact Nub).
  unfold ruiz_iter in *. cbv zeta in *. cbn [rz_d rz_pc rz_it rz_it_lb rz_it_ub] in *.
  destruct (scatter_max _ (d_lb_idx d) _) as [it_x1|]; cbn [bind] in *; [|discriminate].
  destruct (scatter_max _ (d_ub_idx d) _) as [it_x2|]; cbn [bind] in *; [|discriminate].
  destruct (sqrt_inv (map (limit_scaling K) (it_x2 ++ _))) as [it1|]; cbn [bind] in *; [|discriminate].
  destruct (sqrt_inv (map (limit_scaling K) (set_head _ a))) as [r|] eqn:E4; cbn [bind] in H; [|discriminate].
  destruct (sqrt_inv (map (limit_scaling K) (set_head _ b))) as [u|] eqn:E5; cbn [bind] in H; [|discriminate].
  destruct (sqrt_inv_limit_ok (set_head (head (d_nlb d) (d_lb_scaling d)) a2)) as [r2 E4'].
  destruct (sqrt_inv_limit_ok (set_head (head (d_nub d) (d_ub_scaling d)) b2)) as [u2 E5'].
  rewrite E4'; cbn [bind]. rewrite E5'; cbn [bind].
  rewrite (head_sqrt_inv_indep _ _ _ _ _ _ Ll E4 E4').
  rewrite (head_sqrt_inv_indep _ _ _ _ _ _ Lu E5 E5').
  destruct (mul_gather _ it1 (d_lb_idx d)) as [lbs1|]; cbn [bind] in *; [|discriminate].
  destruct (mul_gather _ it1 (d_ub_idx d)) as [ubs1|]; cbn [bind] in *; [|discriminate].
  destruct sc.
  - destruct (qdiv _ (qofnat _)) as [g1|]; cbn [bind] in *; [|discriminate].
    destruct (qinv _) as [g|]; cbn [bind] in *; [|discriminate].
    inversion H; subst st1'. eexists; split; [reflexivity|]. split; reflexivity.
  - cbn [bind] in *. inversion H; subst st1'. eexists; split; [reflexivity|]. split; reflexivity.
Qed.

(* k iterations of the DENSE step, without looking at the guard *)
Fixpoint ruiz_iterate (sc : bool) (k : nat) (st : ruiz_st) : res ruiz_st :=
  match k with
  | O => Ok st
  | S k' => do st' <- ruiz_iter K false sc st ;; ruiz_iterate sc k' st'
  end.

Lemma rz_inv_eqv d0 st1 st2 : st_eqv st1 st2 -> rz_inv d0 st1 -> rz_inv d0 st2.
Proof. intros [Ed Ep] I. destruct I. constructor; rewrite <- ?Ed, <- ?Ep; assumption. Qed.

Lemma ruiz_loop_quirk d0 sc fuel : forall st1 st2 st1',
  rz_inv d0 st1 -> st_eqv st1 st2 -> ruiz_loop K sq fuel sc st1 = Ok st1' ->
  exists k st2', (k <= fuel)%nat /\ ruiz_iterate sc k st2 = Ok st2' /\ st_eqv st1' st2'.
Proof.
  induction fuel as [|f IH]; intros st1 st2 st1' I E H; cbn in H.
  - inversion H; subst. exists 0%nat, st2. repeat split; auto; apply E.
  - destruct (ruiz_continue _ _ _ _ _ _).
    + destruct (ruiz_iter K sq sc st1) as [st1a|] eqn:E1; cbn in H; [|discriminate].
      destruct (ruiz_iter_quirk_step d0 sc st1 st2 st1a I E E1) as (st2a & E2 & Ea).
      destruct (IH st1a st2a st1' (ruiz_iter_preserves d0 sc st1 st1a I E1) Ea H) as (k & st2' & Hk & Hi & He).
      exists (S k), st2'. split; [lia|]. split; [|exact He]. cbn. rewrite E2. exact Hi.
    + inversion H; subst. exists 0%nat, st2. repeat split; auto with arith; apply E.
Qed.

(* the part of the fresh branch after the loop *)
Definition ruiz_finish (st : ruiz_st) : res (Precond * Data) :=
  let pc2 := rz_pc st in
  do ci <- qinv (pc_c pc2) ;;
  do di <- vinv (pc_delta pc2) ;;
  do dlbi <- vinv (pc_delta_lb pc2) ;;
  do dubi <- vinv (pc_delta_ub pc2) ;;
  let pc3 := pc2 <| pc_c_inv := ci |> <| pc_delta_inv := di |> <| pc_delta_lb_inv := dlbi |> <| pc_delta_ub_inv := dubi |> in
  Ok (pc3, scale_bounds pc3 (rz_d st)).

Lemma ruiz_finish_eqv st1 st2 : st_eqv st1 st2 -> ruiz_finish st1 = ruiz_finish st2.
Proof. intros [Ed Ep]. unfold ruiz_finish. rewrite Ed, Ep. reflexivity. Qed.

Lemma scale_fresh_is_loop_finish pc0 d sc it :
  ruiz_scale_data K sq pc0 d false sc it =
  do st <- ruiz_loop K sq (Z.to_nat it) sc (st_fresh pc0 d) ;; ruiz_finish st.
Proof.
  unfold ruiz_scale_data. cbv zeta.
  replace (mkRz d _ _ _ _) with (st_fresh pc0 d) by (unfold st_fresh, pc_fresh; destruct pc0; reflexivity).
  reflexivity.
Qed.

End Fresh.

(** ** the sparse quirk only changes the iteration count: whatever the flag, the result of a fresh scale_data is the
       result of the DENSE iteration run for exactly k <= max_it iterations (k chosen by the respective loop guard)
       followed by the common final part; in particular pc_inverse / is_transform hold regardless *)
Theorem sparse_quirk_only_changes_iteration_count K sq pc0 d sc it pc' d' :
  sane_consts K -> wf_data d -> dims_agree pc0 d ->
  ruiz_scale_data K sq pc0 d false sc it = Ok (pc', d') ->
  exists k st, (k <= Z.to_nat it)%nat /\
               ruiz_iterate K sc k (st_fresh false pc0 d) = Ok st /\ ruiz_finish st = Ok (pc', d').
Proof.
  intros SK W DA H. rewrite scale_fresh_is_loop_finish in H.
  destruct (ruiz_loop K sq (Z.to_nat it) sc (st_fresh sq pc0 d)) as [st1|] eqn:E; cbn [bind] in H; [|discriminate].
  assert (Eq : st_eqv (st_fresh sq pc0 d) (st_fresh false pc0 d)) by (split; reflexivity).
  destruct (ruiz_loop_quirk K sq SK d sc _ _ _ _ (rz_inv_fresh sq pc0 d W DA) Eq E) as (k & st2 & Hk & Hi & He).
  exists k, st2. split; [exact Hk|]. split; [exact Hi|]. rewrite <- (ruiz_finish_eqv _ _ He). exact H.
Qed.


(* ================================================================== *)
(** * T5. any history of re-scalings preserves the inverse invariant    *)
(* ================================================================== *)
(* NOTE (pre-fix model): before the fix "Ruiz preconditioners must invert the whole bound-scaling vectors"
   the fresh branch rewrote only the first n_lb / n_ub slots of delta_lb_inv / delta_ub_inv, which had been
   used as scratch.  The faithful model of that code REFUTED this section: preconditioner_iter = 0 leaves the
   tail of delta_lb_inv at 0; if n_lb then grows from 1 to 2 and scale_data is called with reuse = true,
   delta_lb(1) * delta_lb_inv(1) = 1 * 0, and unscale_slack_lb multiplies the new slot by 0. *)

Lemma pc_inverse_init ident d : wf_data d -> pc_inverse (precond_init ident d) /\ wf_pc (precond_init ident d) d.
Proof.
  intro W. pose proof (wf_nlb_le _ W). pose proof (wf_nub_le _ W). split.
  - constructor; cbn; intros; try (rewrite !nth_vconst by assumption); try apply Qc_0_lt_1;
      apply Qc_is_canon; reflexivity.
  - split; [|cbn; auto]. constructor; cbn; rewrite ?length_vconst; auto.
Qed.

Lemma scale_reuse_preserves K sq pc d sc it pc' d' :
  wf_data d -> wf_pc pc d -> pc_inverse pc ->
  ruiz_scale_data K sq pc d true sc it = Ok (pc', d') ->
  pc_inverse pc' /\ wf_pc pc' d' /\ wf_data d' /\ pc_nlb pc' = d_nlb d' /\ pc_nub pc' = d_nub d'.
Proof.
  intros W WP I H.
  destruct (scale_unscale_id K sq pc d sc it W WP I) as (d1 & E & W1 & _).
  rewrite E in H. inversion H; subst pc' d'; clear H.
  rewrite scale_reuse_is_xform in E.
  destruct (xform _ _ _ _ _ _ _ _ _ _ d) as [d2|] eqn:X; cbn in E; [|discriminate].
  inversion E; subst d2; clear E.
  destruct WP as (WL & En & Ep & Em). destruct WL.
  pose proof (wf_nlb_le _ W). pose proof (wf_nub_le _ W).
  apply xform_wf with (m := pc_m pc) in X; auto; try lia.
  destruct X as (_ & N1 & P1 & M1 & I1 & I2).
  split; [|split; [|split; [exact W1|]]].
  - destruct I. constructor; cbn; assumption.
  - split; [|cbn; repeat split; congruence]. constructor; cbn; try assumption; lia.
  - cbn. unfold d_nlb, d_nub. split; congruence.
Qed.

Section History.
Variable K : Consts.
Hypothesis SK : sane_consts K.

(* the preconditioner states reachable by: init, then any number of scale_data calls (fresh or reuse, any
   scale_cost, any iteration count, dense code or sparse quirk) on ARBITRARY well-formed data of the same dimensions -- in particular on
   data obtained by unscale_data followed by a change of the finite-bound index lists (growth included). *)
Inductive pc_reach : Precond -> Prop :=
| reach_init ident d : wf_data d -> pc_reach (precond_init ident d)
| reach_scale pc d sq reuse sc it pc' d' :
    pc_reach pc -> wf_data d -> dims_agree pc d ->
    ruiz_scale_data K sq pc d reuse sc it = Ok (pc', d') -> pc_reach pc'.

Theorem history_preserves_inverse pc : pc_reach pc -> pc_inverse pc /\ wf_pc_len pc.
Proof.
  induction 1 as [ident d W|pc d sq reuse sc it pc' d' R [I WL] W DA H].
  - destruct (pc_inverse_init ident d W) as [I [WL _]]. split; assumption.
  - destruct reuse.
    + destruct (scale_reuse_preserves K sq pc d sc it pc' d' W (conj WL DA) I H) as (I' & [WL' _] & _).
      split; assumption.
    + destruct (scale_establishes_inverse K sq SK pc d sc it pc' d' W DA H) as (I' & _ & [WL' _] & _).
      split; assumption.
Qed.

End History.

(* all fourteen scale_X / unscale_X pairs at once *)
Definition all_pairs_inverse (pc : Precond) : Prop :=
  (forall v, scale_cost pc (unscale_cost pc v) = v /\ unscale_cost pc (scale_cost pc v) = v) /\
  (forall x, length x = pc_n pc ->
     scale_primal pc (unscale_primal pc x) = x /\ unscale_primal pc (scale_primal pc x) = x) /\
  (forall y, length y = pc_p pc ->
     scale_dual_eq pc (unscale_dual_eq pc y) = y /\ unscale_dual_eq pc (scale_dual_eq pc y) = y) /\
  (forall z, length z = pc_m pc ->
     scale_dual_ineq pc (unscale_dual_ineq pc z) = z /\ unscale_dual_ineq pc (scale_dual_ineq pc z) = z) /\
  (forall z, length z = pc_nlb pc ->
     scale_dual_lb pc (unscale_dual_lb pc z) = z /\ unscale_dual_lb pc (scale_dual_lb pc z) = z) /\
  (forall z, length z = pc_nub pc ->
     scale_dual_ub pc (unscale_dual_ub pc z) = z /\ unscale_dual_ub pc (scale_dual_ub pc z) = z) /\
  (forall s, length s = pc_m pc ->
     scale_slack_ineq pc (unscale_slack_ineq pc s) = s /\ unscale_slack_ineq pc (scale_slack_ineq pc s) = s) /\
  (forall s, length s = pc_nlb pc ->
     scale_slack_lb pc (unscale_slack_lb pc s) = s /\ unscale_slack_lb pc (scale_slack_lb pc s) = s) /\
  (forall s, length s = pc_nub pc ->
     scale_slack_ub pc (unscale_slack_ub pc s) = s /\ unscale_slack_ub pc (scale_slack_ub pc s) = s) /\
  (forall r, length r = pc_p pc ->
     scale_primal_res_eq pc (unscale_primal_res_eq pc r) = r /\ unscale_primal_res_eq pc (scale_primal_res_eq pc r) = r) /\
  (forall r, length r = pc_m pc ->
     scale_primal_res_ineq pc (unscale_primal_res_ineq pc r) = r /\ unscale_primal_res_ineq pc (scale_primal_res_ineq pc r) = r) /\
  (forall r, length r = pc_nlb pc ->
     scale_primal_res_lb pc (unscale_primal_res_lb pc r) = r /\ unscale_primal_res_lb pc (scale_primal_res_lb pc r) = r) /\
  (forall r, length r = pc_nub pc ->
     scale_primal_res_ub pc (unscale_primal_res_ub pc r) = r /\ unscale_primal_res_ub pc (scale_primal_res_ub pc r) = r) /\
  (forall r, length r = pc_n pc ->
     scale_dual_res pc (unscale_dual_res pc r) = r /\ unscale_dual_res pc (scale_dual_res pc r) = r).

(** ** T4 *)
Theorem scale_unscale_pairs pc : wf_pc_len pc -> pc_inverse pc -> all_pairs_inverse pc.
Proof.
  intros W I. unfold all_pairs_inverse.
  repeat split; intros;
    first [ apply cost_pair | apply primal_pair | apply dual_eq_pair | apply dual_ineq_pair
          | apply dual_lb_pair | apply dual_ub_pair | apply slack_ineq_pair | apply slack_lb_pair
          | apply slack_ub_pair | apply primal_res_eq_pair | apply primal_res_ineq_pair
          | apply primal_res_lb_pair | apply primal_res_ub_pair | apply dual_res_pair ]; assumption.
Qed.

(** ** T5 (positive): after ANY history every scale_X / unscale_X pair is still mutually inverse on the
       currently active indices *)
Theorem history_pairs_inverse K pc : sane_consts K -> pc_reach K pc -> all_pairs_inverse pc.
Proof.
  intros SK R. destruct (history_preserves_inverse K SK pc R). apply scale_unscale_pairs; assumption.
Qed.

(** ** T3 for the reuse branch: the re-scaled data are the input data transformed by the stored scalings *)
Theorem scale_reuse_is_transform K sq pc d sc it pc' d' :
  wf_data d -> wf_pc pc d ->
  ruiz_scale_data K sq pc d true sc it = Ok (pc', d') ->
  is_transform (pc_c pc') (pc_delta pc') (pc_delta_lb pc') (pc_delta_ub pc') d d' /\
  bounds_transform (pc_delta pc') (pc_delta_lb pc') (pc_delta_ub pc') d d'.
Proof.
  intros W (WL & En & Ep & Em) H. rewrite scale_reuse_is_xform in H.
  destruct (xform _ _ _ _ _ _ _ _ _ _ d) as [d2|] eqn:X; cbn in H; [|discriminate].
  inversion H; subst pc' d2; clear H. cbn [pc_c pc_delta pc_delta_lb pc_delta_ub set].
  unfold xform in X.
  destruct (mul_gather _ (pc_delta pc) (d_lb_idx d)) as [r1|] eqn:E1; cbn in X; [|discriminate].
  destruct (mul_gather _ (pc_delta pc) (d_ub_idx d)) as [r2|] eqn:E2; cbn in X; [|discriminate].
  inversion X; subst d'; clear X.
  pose proof (wf_nlb_le _ W) as Nlb. pose proof (wf_nub_le _ W) as Nub.
  destruct WL. destruct W.
  apply box_scaling_step in E1; try lia; [|reflexivity]. destruct E1 as [_ N1].
  apply box_scaling_step in E2; try lia; [|reflexivity]. destruct E2 as [_ N2].
  split.
  - constructor; psimpl; try reflexivity.
    + intros i j Hij Hj. rewrite mentry_scale_P_utri, mentry_mscale.
      apply Nat.leb_le in Hij. rewrite Hij. apply Nat.leb_le in Hij. rewrite !nth_head by lia. qring.
    + intros i j Hij Hi. rewrite mentry_scale_P_utri, mentry_mscale.
      assert (E : Nat.leb i j = false) by (apply Nat.leb_gt; lia). rewrite E. reflexivity.
    + intros i Hi. rewrite nth_vmul, nth_vscale, nth_head by lia. qring.
    + intros i j Hi Hj. rewrite mentry_mscale_rc, nth_head by lia. rewrite nth_segment.
      assert (E : Nat.ltb j (pc_p pc) = true) by (apply Nat.ltb_lt; lia). rewrite E. rewrite En. qring.
    + intros i j Hi Hj. rewrite mentry_mscale_rc, nth_head by lia. unfold tail_from. rewrite nth_skipn'.
      rewrite En, Ep. qring.
    + intros k Hk. rewrite N1. apply Nat.ltb_lt in Hk. rewrite Hk. reflexivity.
    + intros k Hk. rewrite N1. apply Nat.ltb_ge in Hk. rewrite Hk. reflexivity.
    + intros k Hk. rewrite N2. apply Nat.ltb_lt in Hk. rewrite Hk. reflexivity.
    + intros k Hk. rewrite N2. apply Nat.ltb_ge in Hk. rewrite Hk. reflexivity.
  - unfold bounds_transform; cbn. repeat split.
    + intros j Hj. rewrite nth_vmul, nth_segment.
      assert (E : Nat.ltb j (pc_p pc) = true) by (apply Nat.ltb_lt; lia). rewrite E. rewrite En. qring.
    + intros j Hj. rewrite nth_vmul. unfold tail_from. rewrite nth_skipn'. rewrite En, Ep. qring.
    + intros k Hk. rewrite nth_vmul, nth_head by lia. qring.
    + intros k Hk. rewrite nth_vmul, nth_head by lia. qring.
Qed.

(** ** one step of a history at the level of the data:
       unscale_data restores data from which scale_data(reuse) gives back the current state; and re-scaling
       ANY well-formed data d1 of the same dimensions (any bound pattern, larger or smaller), with or without
       reuse, succeeds and yields again a state satisfying the invariant, whose data are d1 transformed by the
       scalings stored in the new preconditioner state. *)
Theorem rescale_step K pc d :
  sane_consts K ->
  wf_data d -> wf_pc pc d -> pc_inverse pc -> pc_nlb pc = d_nlb d -> pc_nub pc = d_nub d ->
  exists d0, ruiz_unscale_data pc d = Ok d0 /\ wf_data d0 /\
   (forall sq sc it, ruiz_scale_data K sq pc d0 true sc it = Ok (pc, d)) /\
   forall d1 sq reuse sc it, wf_data d1 -> dims_agree pc d1 ->
     (reuse = true \/ sc = false \/ (1 <= d_n d1)%nat) ->
     exists pc' d', ruiz_scale_data K sq pc d1 reuse sc it = Ok (pc', d') /\
       pc_inverse pc' /\ wf_data d' /\ wf_pc pc' d' /\ pc_nlb pc' = d_nlb d' /\ pc_nub pc' = d_nub d' /\
       is_transform (pc_c pc') (pc_delta pc') (pc_delta_lb pc') (pc_delta_ub pc') d1 d' /\
       bounds_transform (pc_delta pc') (pc_delta_lb pc') (pc_delta_ub pc') d1 d'.
Proof.
  intros SK W WP I Elb Eub.
  destruct (unscale_scale_id K false pc d false 0%Z W WP I Elb Eub) as (d0 & E0 & W0 & _).
  exists d0. split; [exact E0|]. split; [exact W0|]. split.
  - intros sq sc it. destruct (unscale_scale_id K sq pc d sc it W WP I Elb Eub) as (d0' & E0' & _ & R).
    rewrite E0 in E0'. inversion E0'; subst d0'. exact R.
  - intros d1 sq reuse sc it W1 DA Hn. destruct reuse.
    + assert (WP1 : wf_pc pc d1) by (split; [apply WP|exact DA]).
      destruct (scale_unscale_id K sq pc d1 sc it W1 WP1 I) as (d' & E & _ & _).
      eexists; exists d'. split; [exact E|].
      destruct (scale_reuse_preserves K sq pc d1 sc it _ d' W1 WP1 I E) as (A & B & C & D1 & D2).
      destruct (scale_reuse_is_transform K sq pc d1 sc it _ d' W1 WP1 E) as (T1 & T2).
      exact (conj A (conj C (conj B (conj D1 (conj D2 (conj T1 T2)))))).
    + destruct (scale_fresh_ok K sq SK pc d1 sc it W1 DA) as (pc' & d' & E).
      { destruct Hn as [Hn|Hn]; [discriminate|exact Hn]. }
      exists pc', d'. split; [exact E|].
      destruct (scale_establishes_inverse K sq SK pc d1 sc it pc' d' W1 DA E) as (A & B & C & D1 & D2 & _).
      destruct (scaled_data_is_transform K sq SK pc d1 sc it pc' d' W1 DA E) as (T1 & T2).
      exact (conj A (conj B (conj C (conj D1 (conj D2 (conj T1 T2)))))).
Qed.

(* the IdentityPreconditioner wrappers *)
Theorem identity_precond_roundtrip K sq pc d reuse sc it :
  pc_ident pc = true ->
  scale_data K sq pc d reuse sc it = Ok (pc <| pc_nlb := d_nlb d |> <| pc_nub := d_nub d |>, d) /\ unscale_data pc d = Ok d.
Proof. intro H. unfold scale_data, unscale_data. rewrite H. split; reflexivity. Qed.
