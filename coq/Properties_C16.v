(** C16 -- the C API is a faithful projection of the C++ solver.
    T1 (tables) is in Properties_C16T.v; this file holds T2 (the Eigen maps of the caller's arrays: row-major dense, CSC,
    NULL <-> nullopt) and T3 (any sequence of C calls = the corresponding C++ calls followed by the projection).
    The C++ solver is ABSTRACT: every statement is for all [S : cxx_solver V SV] (state types, Settings<T>{}, setup /
    update / solve / result of both solver classes) and all meanings [cast] of the C casts.  The field copies are the
    assignment lists REGENERATED from piqp.cpp (gen_tables); their wiring facts come from Properties_C16T.v. *)
From Coq Require Import String List Arith.
From PIQP Require Import TablesDef TablesCheck CAPI CAPIProofs Properties_C16T.
From PIQP.gen Require Import Tables.
Import ListNotations.
Open Scope string_scope.
Open Scope nat_scope.
Open Scope list_scope.

(* ------------------------------------------------------------------ T2: maps *)
(** rowmajor_map_spec: element (i,j) of Eigen::Map<Matrix<T,Dynamic,Dynamic,RowMajor>>(data, r, c), represented as column
    lists, is data[i*c+j] -- every shape (non-square, 0 rows, 0 columns), no assumption on the array *)
Theorem c16_rowmajor_map_spec : forall (V : Type) (d : V) r c (data : list V) i j, i < r -> j < c ->
  nth i (nth j (rowmajor_to_cols d r c data) []) d = nth (i * c + j) data d.
Proof. exact rowmajor_map_spec. Qed.
Print Assumptions c16_rowmajor_map_spec.

Theorem c16_rowmajor_shape : forall (V : Type) (d : V) r c (data : list V),
  length (rowmajor_to_cols d r c data) = c /\ Forall (fun col => length col = r) (rowmajor_to_cols d r c data).
Proof. exact rowmajor_shape. Qed.
Print Assumptions c16_rowmajor_shape.

(** round trips: the map loses nothing and every r x c matrix is the image of exactly one array of r*c elements *)
Theorem c16_rowmajor_roundtrip : forall (V : Type) (d : V) r c (data : list V), length data = r * c ->
  cols_to_rowmajor d r (rowmajor_to_cols d r c data) = data.
Proof. exact rowmajor_roundtrip. Qed.
Print Assumptions c16_rowmajor_roundtrip.

Theorem c16_rowmajor_roundtrip_inv : forall (V : Type) (d : V) r c (M : list (list V)), mat_shape r c M ->
  rowmajor_to_cols d r c (cols_to_rowmajor d r M) = M /\ length (cols_to_rowmajor d r M) = r * c.
Proof. exact rowmajor_roundtrip_inv_full. Qed.
Print Assumptions c16_rowmajor_roundtrip_inv.

(** the transposes stored by setup (AT, GT) have the caller's rows as columns *)
Theorem c16_rowmajor_transpose_is_rows : forall (V : Type) (d : V) r c (data : list V), r * c <= length data ->
  transpose_cols d r (rowmajor_to_cols d r c data) = chunks r c data.
Proof. exact rowmajor_transpose_is_rows. Qed.
Print Assumptions c16_rowmajor_transpose_is_rows.

Theorem c16_utri_spec : forall (V : Type) (d z : V) (cols : list (list V)) i j, j < length cols -> i < length (nth j cols []) ->
  nth i (nth j (utri z cols) []) d = if i <=? j then nth i (nth j cols []) d else z.
Proof. exact utri_spec. Qed.
Print Assumptions c16_utri_spec.

(** CSC: every stored entry k of column j is element (i[k], j) with value x[k]; everything else is zero *)
Theorem c16_csc_get_entry : forall (V : Type) (z : V) (M : csc V) j k, csc_wf M -> j < csc_n M ->
  nth j (csc_p M) 0 <= k < nth (S j) (csc_p M) 0 ->
  csc_get z M (nth k (csc_i M) 0) j = nth k (csc_x M) z /\ nth k (csc_i M) 0 < csc_m M.
Proof. exact csc_get_entry. Qed.
Print Assumptions c16_csc_get_entry.

Theorem c16_csc_get_absent : forall (V : Type) (z : V) (M : csc V) i j, csc_wf M -> j < csc_n M ->
  (forall k, nth j (csc_p M) 0 <= k < nth (S j) (csc_p M) 0 -> nth k (csc_i M) 0 <> i) ->
  csc_get z M i j = z.
Proof. exact csc_get_absent. Qed.
Print Assumptions c16_csc_get_absent.

Theorem c16_csc_to_cols_spec : forall (V : Type) (z : V) (M : csc V) i j, i < csc_m M -> j < csc_n M ->
  nth i (nth j (csc_to_cols z M) []) z = csc_get z M i j.
Proof. exact csc_to_cols_spec. Qed.
Print Assumptions c16_csc_to_cols_spec.

(** the column-by-column encoding (zeros dropped) denotes the matrix it was made from *)
Theorem c16_csc_of_cols_get : forall (V : Type) (z : V) (isz : V -> bool), (forall v, isz v = true -> v = z) ->
  forall m (cols : list (list V)) i j, j < length cols -> length (nth j cols []) = m -> i < m ->
  csc_get z (csc_of_cols isz m cols) i j = nth i (nth j cols []) z.
Proof. exact csc_of_cols_get. Qed.
Print Assumptions c16_csc_of_cols_get.

(** NULL <-> nullopt *)
Theorem c16_opt_of_ptr_spec : forall (A : Type), @opt_of_ptr A PNull = None /\ forall a : A, opt_of_ptr (PTo a) = Some a.
Proof. exact opt_of_ptr_spec. Qed.
Print Assumptions c16_opt_of_ptr_spec.

(** piqp_setup_dense: P (n x n) and c are mapped unconditionally; A (p x n), b, G (m x n), h, x_lb, x_ub are nullopt
    exactly when the pointer is NULL, and otherwise the row-major / vector map with the dimensions of the data struct *)
Theorem c16_dense_setup_args : forall (V : Type) (d : V) (D : c_data V (list V)) a, dense_setup_args d D = Some a ->
  (exists Pa, cd_P D = PTo Pa /\ xs_P a = rowmajor_to_cols d (cd_n D) (cd_n D) Pa) /\
  (exists ca, cd_c D = PTo ca /\ xs_c a = firstn (cd_n D) ca) /\
  ((cd_A D = PNull /\ xs_A a = None) \/ (exists x, cd_A D = PTo x /\ xs_A a = Some (rowmajor_to_cols d (cd_p D) (cd_n D) x))) /\
  ((cd_b D = PNull /\ xs_b a = None) \/ (exists x, cd_b D = PTo x /\ xs_b a = Some (firstn (cd_p D) x))) /\
  ((cd_G D = PNull /\ xs_G a = None) \/ (exists x, cd_G D = PTo x /\ xs_G a = Some (rowmajor_to_cols d (cd_m D) (cd_n D) x))) /\
  ((cd_h D = PNull /\ xs_h a = None) \/ (exists x, cd_h D = PTo x /\ xs_h a = Some (firstn (cd_m D) x))) /\
  ((cd_lb D = PNull /\ xs_lb a = None) \/ (exists x, cd_lb D = PTo x /\ xs_lb a = Some (firstn (cd_n D) x))) /\
  ((cd_ub D = PNull /\ xs_ub a = None) \/ (exists x, cd_ub D = PTo x /\ xs_ub a = Some (firstn (cd_n D) x))).
Proof. exact dense_setup_args_spec. Qed.
Print Assumptions c16_dense_setup_args.

Theorem c16_dense_update_args : forall (V : Type) (d : V) n p m P c A b G h lb ub_ a,
  dense_update_args d n p m P c A b G h lb ub_ = Some a ->
  ((P = PNull /\ xu_P a = None) \/ (exists x, P = PTo x /\ xu_P a = Some (rowmajor_to_cols d n n x))) /\
  ((c = PNull /\ xu_c a = None) \/ (exists x, c = PTo x /\ xu_c a = Some (firstn n x))) /\
  ((A = PNull /\ xu_A a = None) \/ (exists x, A = PTo x /\ xu_A a = Some (rowmajor_to_cols d p n x))) /\
  ((b = PNull /\ xu_b a = None) \/ (exists x, b = PTo x /\ xu_b a = Some (firstn p x))) /\
  ((G = PNull /\ xu_G a = None) \/ (exists x, G = PTo x /\ xu_G a = Some (rowmajor_to_cols d m n x))) /\
  ((h = PNull /\ xu_h a = None) \/ (exists x, h = PTo x /\ xu_h a = Some (firstn m x))) /\
  ((lb = PNull /\ xu_lb a = None) \/ (exists x, lb = PTo x /\ xu_lb a = Some (firstn n x))) /\
  ((ub_ = PNull /\ xu_ub a = None) \/ (exists x, ub_ = PTo x /\ xu_ub a = Some (firstn n x))).
Proof. exact dense_update_args_spec. Qed.
Print Assumptions c16_dense_update_args.

Theorem c16_sparse_setup_args : forall (V : Type) (D : c_data V (smat V)) a, sparse_setup_args D = Some a ->
  cd_P D = PTo (xs_P a) /\
  (exists ca, cd_c D = PTo ca /\ xs_c a = firstn (cd_n D) ca) /\
  xs_A a = opt_of_ptr (cd_A D) /\ xs_G a = opt_of_ptr (cd_G D) /\
  ((cd_b D = PNull /\ xs_b a = None) \/ (exists x, cd_b D = PTo x /\ xs_b a = Some (firstn (cd_p D) x))) /\
  ((cd_h D = PNull /\ xs_h a = None) \/ (exists x, cd_h D = PTo x /\ xs_h a = Some (firstn (cd_m D) x))) /\
  ((cd_lb D = PNull /\ xs_lb a = None) \/ (exists x, cd_lb D = PTo x /\ xs_lb a = Some (firstn (cd_n D) x))) /\
  ((cd_ub D = PNull /\ xs_ub a = None) \/ (exists x, cd_ub D = PTo x /\ xs_ub a = Some (firstn (cd_n D) x))).
Proof. exact sparse_setup_args_spec. Qed.
Print Assumptions c16_sparse_setup_args.

(* ------------------------------------------------------------------ the regenerated tables are wired *)
Theorem c16_gen_tables_wired : tables_wired gen_tables.
Proof.
  exact (conj c16_update_result_vectors (conj c16_update_result_info (conj c16_set_default_settings
          (conj c16_update_settings_dense c16_update_settings_sparse)))).
Qed.
Print Assumptions c16_gen_tables_wired.

(* ------------------------------------------------------------------ field copies *)
(** piqp_update_result on a fresh piqp_result: the C pointer f addresses the C++ vector f for exactly the vector fields
    of piqp::Result, the C info field f holds the cast of the C++ Info field f for exactly the fields of piqp::Info *)
Theorem c16_update_result_is_projection : forall (V SV : Type) (cast : string -> SV -> SV) (S : cxx_solver V SV)
    (r : xresult V SV) (w : Cwork S) f,
  (forall g, w_ptr w g = None) -> (forall g, w_info w g = None) ->
  w_ptr (c_update_result cast gen_tables r w) f = proj_ptr gen_tables f /\
  w_info (c_update_result cast gen_tables r w) f = proj_info cast gen_tables r f.
Proof. exact (fun V SV cast S => b_update_result_is_projection V SV cast gen_tables S c16_gen_tables_wired). Qed.
Print Assumptions c16_update_result_is_projection.

(** piqp_update_settings transfers every field, in both branches, and nothing else *)
Theorem c16_update_settings_transfers_every_field : forall (V SV : Type) (cast : string -> SV -> SV) (S : cxx_solver V SV)
    (cs : env SV) (s : xsolver SV (cx_DK S) (cx_SK S)) f,
  (In f (settings_names gen_tables) ->
     x_settings (c_update_settings cast gen_tables cs s) f = cast (conv_of (settings_wires gen_tables s) f) (cs f)) /\
  (~ In f (settings_names gen_tables) -> x_settings (c_update_settings cast gen_tables cs s) f = x_settings s f).
Proof. exact (fun V SV cast S => b_update_settings_transfers V SV cast gen_tables S c16_gen_tables_wired). Qed.
Print Assumptions c16_update_settings_transfers_every_field.

(** piqp_set_default_settings reproduces Settings<T>{} in every field, whatever the struct held before *)
Theorem c16_set_default_settings_reproduces_defaults : forall (V SV : Type) (cast : string -> SV -> SV) (S : cxx_solver V SV)
    (before : env SV) f,
  (In f (settings_names gen_tables) ->
     c_set_default_settings cast gen_tables (cx_default S) before f = cast (conv_of (c_settings_out gen_tables) f) (cx_default S f)) /\
  (~ In f (settings_names gen_tables) -> c_set_default_settings cast gen_tables (cx_default S) before f = before f).
Proof. exact (fun V SV cast S => b_set_default_settings V SV cast gen_tables S c16_gen_tables_wired). Qed.
Print Assumptions c16_set_default_settings_reproduces_defaults.

(* ------------------------------------------------------------------ T3: simulation *)
(** c_api_is_projection: a defined run of C calls from "no workspace" equals the run of the translated C++ calls
    (new, settings().f = v ..., setup/update/solve, result()) followed by the projection: same solver object,
    pointer f -> vector f, info = cast of the last result() read, return value of the last solve *)
Theorem c16_c_api_is_projection : forall (V : Type) (d : V) (SV : Type) (cast : string -> SV -> SV) (S : cxx_solver V SV)
    (calls : list (ccall V SV)) (w : Cwork S),
  C_run d cast gen_tables S None calls = Some (Some w) ->
  exists xcalls xr, translate d cast gen_tables None calls = Some xcalls /\ X_run S (X_run0 S) xcalls = Some xr /\
                    Projects cast gen_tables xr w.
Proof. exact (fun V d SV cast S => b_c_api_is_projection V d SV cast gen_tables S c16_gen_tables_wired). Qed.
Print Assumptions c16_c_api_is_projection.

(** the C run is inside the C contract exactly when the translation exists *)
Theorem c16_c_run_defined_iff : forall (V : Type) (d : V) (SV : Type) (cast : string -> SV -> SV) (S : cxx_solver V SV)
    (calls : list (ccall V SV)) (st : option (Cwork S)),
  (exists st', C_run d cast gen_tables S st calls = Some st') <->
  (exists xcalls, translate d cast gen_tables (sinfo_of st) calls = Some xcalls).
Proof. exact (fun V d SV cast S => b_c_run_defined_iff V d SV cast gen_tables S c16_gen_tables_wired). Qed.
Print Assumptions c16_c_run_defined_iff.

(** result pointers: after every call sequence each vector field points at the like-named C++ vector and reading
    through it gives the solver's current vector; no other pointer field is ever set *)
Theorem c16_pointers_current : forall (V : Type) (d : V) (SV : Type) (cast : string -> SV -> SV) (S : cxx_solver V SV)
    (calls : list (ccall V SV)) (w : Cwork S) f,
  C_run d cast gen_tables S None calls = Some (Some w) -> In f (result_vec_names gen_tables) ->
  w_ptr w f = Some f /\ C_read_vec S w f = Some (xr_vec (X_result S (w_solver w)) f).
Proof. exact (fun V d SV cast S => b_pointers_current V d SV cast gen_tables S c16_gen_tables_wired). Qed.
Print Assumptions c16_pointers_current.

Theorem c16_no_other_pointer : forall (V : Type) (d : V) (SV : Type) (cast : string -> SV -> SV) (S : cxx_solver V SV)
    (calls : list (ccall V SV)) (w : Cwork S) f,
  C_run d cast gen_tables S None calls = Some (Some w) -> ~ In f (result_vec_names gen_tables) -> w_ptr w f = None.
Proof. exact (fun V d SV cast S => b_no_other_pointer V d SV cast gen_tables S c16_gen_tables_wired). Qed.
Print Assumptions c16_no_other_pointer.

(** the info copy is current after setup and after every solve *)
Theorem c16_info_current_after_setup_and_solve : forall (V : Type) (d : V) (SV : Type) (cast : string -> SV -> SV)
    (S : cxx_solver V SV) (calls : list (ccall V SV)) c (w : Cwork S),
  C_run d cast gen_tables S None (calls ++ [c]) = Some (Some w) -> refreshing c = true ->
  forall f, w_info w f = proj_info cast gen_tables (X_result S (w_solver w)) f.
Proof. exact (fun V d SV cast S => b_info_current_after_refresh V d SV cast gen_tables S c16_gen_tables_wired). Qed.
Print Assumptions c16_info_current_after_setup_and_solve.

(** piqp_solve returns what solve() returned *)
Theorem c16_status_returned : forall (V : Type) (d : V) (SV : Type) (cast : string -> SV -> SV) (S : cxx_solver V SV)
    (calls : list (ccall V SV)) (w : Cwork S),
  C_run d cast gen_tables S None (calls ++ [CSolve V SV]) = Some (Some w) ->
  exists xcalls xr v, translate d cast gen_tables None (calls ++ [CSolve V SV]) = Some xcalls /\
    X_run S (X_run0 S) xcalls = Some xr /\ xret xr = Some v /\ w_ret w = Some v.
Proof. exact (fun V d SV cast S => b_status_returned V d SV cast gen_tables S c16_gen_tables_wired). Qed.
Print Assumptions c16_status_returned.

(** piqp_update_* do not refresh the info copy; if update() writes only timing fields of Info (hypothesis on the abstract
    solver, true of solver.hpp today and checked by the harness after every update), the non-timing info is current
    after EVERY call *)
Theorem c16_info_current_always : forall (V : Type) (d : V) (SV : Type) (cast : string -> SV -> SV) (S : cxx_solver V SV),
  update_frame S -> forall (calls : list (ccall V SV)) (w : Cwork S),
  C_run d cast gen_tables S None calls = Some (Some w) ->
  forall f, ~ In f timing_fields -> w_info w f = proj_info cast gen_tables (X_result S (w_solver w)) f.
Proof. exact (fun V d SV cast S => b_info_current_always V d SV cast gen_tables S c16_gen_tables_wired). Qed.
Print Assumptions c16_info_current_always.

(* ------------------------------------------------------------------ non-vacuity *)
(** a 2 x 3 row-major array; with rows and columns swapped the map denotes a different matrix *)
Example c16_rowmajor_nonsquare :
  rowmajor_to_cols 0 2 3 [1; 2; 3; 4; 5; 6] = [[1; 4]; [2; 5]; [3; 6]] /\
  rowmajor_to_cols 0 3 2 [1; 2; 3; 4; 5; 6] = [[1; 3; 5]; [2; 4; 6]] /\
  rowmajor_to_cols 0 0 3 ([] : list nat) = [[]; []; []] /\ rowmajor_to_cols 0 3 0 ([] : list nat) = [] /\
  cols_to_rowmajor 0 2 [[1; 4]; [2; 5]; [3; 6]] = [1; 2; 3; 4; 5; 6].
Proof. vm_compute. auto. Qed.

Example c16_csc_example :
  let M := mkCsc 3 2 3 [0; 2; 3] [0; 2; 1] [5; 7; 9] in
  csc_wf M /\ csc_to_cols 0 M = [[5; 0; 7]; [0; 9; 0]] /\
  csc_of_cols (Nat.eqb 0) 3 [[5; 0; 7]; [0; 9; 0]] = M /\
  csc_wfb (mkCsc 3 2 3 [0; 2; 3] [2; 0; 1] [5; 7; 9]) = false.
Proof. vm_compute. auto. Qed.

(** a toy instance of the abstract solver (CAPI.toy_solver: states count the calls), on which the hypotheses of every theorem above hold:
    a run setup(dense, settings) ; update ; solve is inside the contract, the frame property holds, and the projected
    values are the expected ones *)
Example c16_toy_frame : update_frame toy_solver.
Proof. split; intros st a f H; unfold toy_solver; cbv beta iota zeta delta [cx_dresult cx_dupdate cx_sresult cx_supdate xr_info]; (destruct (in_names f timing_fields) eqn:E; [apply in_names_iff in E; contradiction|reflexivity]). Qed.

Example c16_toy_run :
  let D := mkCData 2 1 3 (PTo [4; 1; 1; 3]) (PTo [1; 2]) (PTo [1; 1]) (PTo [1]) (PTo [1; 0; 0; 1; 1; 1]) (PTo [5; 5; 5]) PNull (PTo [9; 9]) in
  let calls := [CSetupDense D (PTo (fun f => if String.eqb f "max_iter" then 20 else 3));
                CUpdateDense nat PNull (PTo [0; 0]) PNull PNull PNull PNull PNull PNull; CSolve nat nat] in
  exists w, C_run 0 (fun _ v => v) gen_tables toy_solver None calls = Some (Some w) /\
            w_ptr w "z_lb" = Some "z_lb" /\ w_ptr w "info" = None /\ w_info w "iter" = Some 33 /\ w_info w "update_time" = Some 1 /\
            w_ret w = Some 1 /\ x_settings (w_solver w) "max_iter" = 20 /\ x_settings (w_solver w) "rho_init" = 3 /\
            C_read_vec toy_solver w "x" = Some [33; 1] /\ (w_n w, w_p w, w_m w) = (2, 1, 3).
Proof. eexists. split; [vm_compute; reflexivity|]. vm_compute. repeat split. Qed.

Example c16_toy_outside_contract :
  (* x_ub passed but shorter than n; a NULL mandatory pointer; update before setup; dense update of a sparse workspace *)
  C_run 0 (fun _ v => v) gen_tables toy_solver None
        [CSetupDense (mkCData 2 0 0 (PTo [4; 1; 1; 3]) (PTo [1; 2]) PNull PNull PNull PNull PNull (PTo [9])) PNull] = None /\
  C_run 0 (fun _ v => v) gen_tables toy_solver None
        [CSetupDense (mkCData 2 0 0 PNull (PTo [1; 2]) PNull PNull PNull PNull PNull PNull) PNull] = None /\
  C_run 0 (fun _ v => v) gen_tables toy_solver None [CSolve nat nat] = None /\
  C_run 0 (fun _ v => v) gen_tables toy_solver None
        [CSetupSparse (mkCData 1 0 0 (PTo (mkCsc 1 1 1 [0; 1] [0] [2])) (PTo [1]) PNull PNull PNull PNull PNull PNull) PNull;
         CUpdateDense nat PNull (PTo [0]) PNull PNull PNull PNull PNull PNull] = None.
Proof. vm_compute. auto. Qed.
