(* LDLSparseProofs.v -- C14 2c(ii): the index part of the sparse LDL^T (ldlt.hpp) is a function of the pattern only.
   General (all n): if the index-only run [numeric_i] succeeds, then for ALL values the full numeric phase succeeds
   (no Err Index / Fuel / DivZero / Shape), performs the same index updates, and stops exactly at the first zero pivot
   ([numeric_erase]).  Bounded: [numeric_i] succeeds and produces exactly the symbolic fill pattern for ALL upper
   patterns with full diagonal, n <= 5 ([ldl_index_check_n5]; exhaustive evaluation, complete for that bound). *)
From PIQP Require Import Base CSC LDLSparse C14LemmasProofs PatternsProofs.
Local Open Scope nat_scope.

Ltac binv H :=
  match type of H with
  | bind ?e _ = Ok _ => let E := fresh "E" in destruct e eqn:E; cbn [bind] in H; [|discriminate H]
  end.
Tactic Notation "bnv" hyp(H) "as" simple_intropattern(x) :=
  match type of H with
  | bind ?e _ = Ok _ => let E := fresh "E" in destruct e as [x|] eqn:E; cbn [bind] in H; [|discriminate H]
  end.

(* ---------- generic facts about successful loops ---------- *)
Lemma foldM_preserve {A S} (P : S -> Prop) (f : S -> A -> res S) l : forall s s',
  (forall a s s', In a l -> f s a = Ok s' -> P s -> P s') -> foldM f l s = Ok s' -> P s -> P s'.
Proof.
  induction l; intros s s' Hf H HP; simpl in H. inversion H; subst; auto.
  binv H. eapply IHl; eauto. intros; eapply Hf; eauto. now right. eapply Hf; eauto. now left.
Qed.

Lemma foldM_sim_ok {A S T} (R : S -> T -> Prop) (f : S -> A -> res S) (g : T -> A -> res T) l : forall s t s',
  (forall a s t s', In a l -> R s t -> f s a = Ok s' -> exists t', g t a = Ok t' /\ R s' t') ->
  R s t -> foldM f l s = Ok s' -> exists t', foldM g l t = Ok t' /\ R s' t'.
Proof.
  induction l; intros s t s' Hs HR H; simpl in H. inversion H; subst. exists t; auto.
  bnv H as s0. destruct (Hs a s t s0) as (t0 & Et & HR0); auto. now left.
  simpl. rewrite Et; cbn [bind]. eapply IHl; eauto. intros; eapply Hs; eauto. now right.
Qed.

Lemma qeqb_false (b : F) : b <> 0%Qc -> qeqb b 0%Qc = false.
Proof.
  intros H. unfold qeqb. destruct (Qeq_bool (this b) (this 0%Qc)) eqn:E; auto.
  apply Qeq_bool_iff in E. apply Qc_is_canon in E. contradiction.
Qed.
Lemma qeqb_true (b : F) : qeqb b 0%Qc = true -> b = 0%Qc.
Proof. unfold qeqb. intros E. apply Qeq_bool_iff in E. now apply Qc_is_canon in E. Qed.
Lemma qdiv_ok (a b : F) : b <> 0%Qc -> qdiv a b = Ok (a / b)%Qc.
Proof. intros H. unfold qdiv. now rewrite qeqb_false. Qed.

Section Erase.
Variable n : nat.
Variables Ap Ai : list nat.
Variable Ax : list F.
Variable etree : list (option nat).
Variable Lcols : list nat.
Hypothesis HAx : length Ax = length Ai.

Notation walk := (num_walk etree).

Lemma num_walk_len fuel : forall k i len flag pat len' flag' pat',
  walk fuel k i len flag pat = Ok (len', flag', pat') -> length flag' = length flag.
Proof.
  induction fuel; intros k i len flag pat len' flag' pat' H; simpl in H; [discriminate|].
  bnv H as fi. destruct (fi =? k). { inversion H; subst; auto. }
  bnv H as pat1. bnv H as fl1. bnv H as e. destruct e as [i'|]; [|discriminate].
  apply IHfuel in H. rewrite H. apply upd_ok_inv in E1. destruct E1 as [_ ->]. apply lset_length.
Qed.
Lemma num_walk_lt fuel k i len flag pat r : walk (S fuel) k i len flag pat = Ok r -> i < length flag.
Proof.
  simpl. intros H. bnv H as fi. unfold get_init in E. bnv E as v. apply get_ok_inv in E0. tauto.
Qed.

(* one entry of column k *)
Lemma num_entry_sim k p top flag pat top' flag' pat' (y : list F) :
  num_entry_i n Ai etree k p top flag pat = Ok (top', flag', pat') -> length flag = n -> length y = n ->
  exists y', num_entry n Ai Ax etree k p (top, flag, pat, y) = Ok (top', flag', pat', y') /\ length y' = n /\ length flag' = n.
Proof.
  intros H Hf Hy. unfold num_entry_i in H. unfold num_entry.
  bnv H as i. bnv H as w3. destruct w3 as [[len1 fl1] pat1]. bnv H as tp. destruct tp as [top1 pat2].
  inversion H; subst top1 fl1 pat2. clear H.
  try rewrite E. cbn [bind]. apply get_ok_inv in E. destruct E as [Hp _].
  rewrite (get_nth (A:=F) Ax p 0%Qc) by lia. cbn [bind].
  assert (Hi : i < n) by (rewrite <- Hf; eapply num_walk_lt; eauto).
  rewrite upd_lset by lia. cbn [bind]. try rewrite E0. cbn [bind]. try rewrite E1. cbn [bind].
  eexists; split; [reflexivity|]. split. now rewrite lset_length.
  erewrite num_walk_len; eauto.
Qed.

Definition VS (li : ldl_i) (lv : ldl_v) : Prop :=
  length (v_y lv) = n /\ length (v_D lv) = n /\ length (v_Lvals lv) = length (i_Lind li) /\ length (i_flag li) = n.
Definition DNZ (k : nat) (lv : ldl_v) : Prop := forall i, i < k -> nth i (v_D lv) 0%Qc <> 0%Qc.

Lemma check_loop_ok Lind c p2 : for_range c p2 (fun p (u : unit) => do r <- get Lind p ;; if r <? n then Ok tt else Err Index) tt = Ok tt ->
  forall p, c <= p < p2 -> p < length Lind /\ nth p Lind 0 < n.
Proof.
  unfold for_range. intros H p Hp.
  assert (Hin : In p (seq c (p2 - c))) by (apply in_seq; lia).
  revert H Hin. generalize (seq c (p2 - c)). intros l. induction l; intros H Hin; [destruct Hin|].
  simpl in H. bnv H as u. bnv E as r. destruct (Nat.ltb_spec r n); [|discriminate].
  destruct Hin as [->|Hin].
  - apply get_ok_inv in E0. destruct E0 as [H1 H2]. rewrite H2. auto.
  - destruct u. apply IHl; auto.
Qed.

Lemma num_elim_sim k t li li' lv : k < n ->
  num_elim_i n Lcols k t li = Ok li' -> VS li lv -> DNZ k lv ->
  exists lv', num_elim Lcols k t (li, lv) = Ok (li', lv') /\ VS li' lv' /\ DNZ k lv'.
Proof.
  intros Hk H (Hy & HD & HLv & Hfl) Hnz. unfold num_elim_i in H. unfold num_elim.
  bnv H as i. try rewrite E. cbn [bind].
  bnv H as c. bnv H as z. bnv H as u.
  destruct u. pose proof (check_loop_ok _ _ _ E2) as Hrows.
  destruct (Nat.ltb_spec i k) as [Hik|]; [|discriminate]. cbn [negb] in H.
  bnv H as lind'. bnv H as nz'. inversion H; subst li'. clear H.
  rewrite (get_nth (A:=F) (v_y lv) i 0%Qc) by lia. cbn [bind].
  rewrite upd_lset by lia. cbn [bind]. try rewrite E0. cbn [bind]. try rewrite E1. cbn [bind].
  (* the update of y along column i *)
  destruct (for_range_ind (fun p (y : list F) => length y = n) c (c + z)
     (fun p y => do r <- get (i_Lind li) p ;; do l <- get (v_Lvals lv) p ;; do yr <- get y r ;; upd y r (yr - l * nth i (v_y lv) 0)%Qc)
     (lset (v_y lv) i 0%Qc)) as (y' & Ey & Ly'); try lia.
  - now rewrite lset_length.
  - intros p y Hp Ly. destruct (Hrows p Hp) as [Hp1 Hp2].
    rewrite (get_nth (i_Lind li) p 0) by auto. cbn [bind].
    rewrite (get_nth (A:=F) (v_Lvals lv) p 0%Qc) by lia. cbn [bind].
    rewrite (get_nth (A:=F) y _ 0%Qc) by lia. cbn [bind]. rewrite upd_lset by lia.
    eexists; split; [reflexivity|]. now rewrite lset_length.
  - change Qc with F in *. rewrite Ey. cbn [bind].
    rewrite (get_nth (A:=F) (v_D lv) i 0%Qc) by lia. cbn [bind].
    rewrite qdiv_ok by (apply Hnz; auto). cbn [bind].
    rewrite (get_nth (A:=F) (v_D lv) k 0%Qc) by lia. cbn [bind].
    rewrite upd_lset by lia. cbn [bind]. try rewrite E3. cbn [bind].
    apply upd_ok_inv in E3. destruct E3 as [Hp2 ->].
    rewrite upd_lset by lia. cbn [bind]. try rewrite E4. cbn [bind].
    eexists; split; [reflexivity|]. split.
    + unfold VS; simpl. rewrite !lset_length. auto.
    + unfold DNZ; simpl. intros j Hj. rewrite nth_lset_other by lia. apply Hnz; auto.
Qed.

Lemma num_step_sim k li li' lv :
  num_step_i n Ap Ai etree Lcols k li = Ok li' -> VS li lv -> DNZ k lv ->
  exists lv' z, num_step n Ap Ai Ax etree Lcols k (li, lv) = Ok (li', lv', z) /\ VS li' lv' /\ DNZ k lv' /\
                k < n /\ z = qeqb (nth k (v_D lv') 0%Qc) 0%Qc.
Proof.
  intros H (Hy & HD & HLv & Hfl) Hnz. unfold num_step_i, num_pattern_i in H. unfold num_step.
  bnv H as tl. destruct tl as [top li1]. bnv E as l. bnv E as l0. bnv E as n0. bnv E as n1. bnv E as tfp.
  destruct tfp as [[top1 fl1] pat1]. inversion E; subst top li1. clear E.
  assert (Hk : k < n). { apply upd_ok_inv in E0. destruct E0; lia. }
  rewrite upd_lset by lia. cbn [bind]. try rewrite E0; try rewrite E1; try rewrite E2; try rewrite E3. cbn [bind].
  assert (Hfl0 : length l = n). { apply upd_ok_inv in E0. destruct E0 as [_ ->]. now rewrite lset_length. }
  (* pattern loop *)
  unfold for_range in E4.
  destruct (foldM_sim_ok (fun (s : nat * list (option nat) * list nat) (t : nat * list (option nat) * list nat * list F) =>
              let '(a, b, c) := s in let '(a', b', c', y) := t in a' = a /\ b' = b /\ c' = c /\ length y = n /\ length b = n)
            (fun s p => let '(top, fl, pat) := s in num_entry_i n Ai etree k p top fl pat)
            (fun t p => num_entry n Ai Ax etree k p t)
            (seq n0 (n1 - n0)) (n, l, i_pattern li) (n, l, i_pattern li, lset (v_y lv) k 0%Qc) (top1, fl1, pat1))
    as ([[[top2 fl2] pat2] y2] & Ey & (-> & -> & -> & Ly2 & Lfl2)).
  - intros p [[a b] c] [[[a' b'] c'] y] [[a2 b2] c2] _ (-> & -> & -> & Ly & Lb) Hs.
    destruct (num_entry_sim _ _ _ _ _ _ _ _ y Hs Lb Ly) as (y' & E' & Ly' & Lb').
    exists (a2, b2, c2, y'). repeat (split; auto).
  - rewrite lset_length. auto.
  - exact E4.
  - unfold for_range. change Qc with F in *. rewrite Ey. cbn [bind].
    rewrite (get_nth (A:=F) y2 k 0%Qc) by lia. cbn [bind].
    rewrite upd_lset by lia. cbn [bind]. rewrite upd_lset by lia. cbn [bind].
    (* elimination loop *)
    unfold for_range in H.
    destruct (foldM_sim_ok (fun (s : ldl_i) (t : ldl_i * ldl_v) => fst t = s /\ VS s (snd t) /\ DNZ k (snd t))
              (fun s t => num_elim_i n Lcols k t s) (fun st t => num_elim Lcols k t st)
              (seq top1 (n - top1))
              (mkldli (i_etree li) (i_Lcols li) l0 (i_Lind li) fl1 pat1)
              (mkldli (i_etree li) (i_Lcols li) l0 (i_Lind li) fl1 pat1,
               mkldlv (v_Lvals lv) (lset (v_D lv) k (nth k y2 0%Qc)) (v_Dinv lv) (lset y2 k 0%Qc)) li')
      as ([li2 lv2] & Ee & (E5 & HVS & HDNZ)).
    + intros t s [s2 v2] s' _ (Efst & HV & HZ) Hs. simpl in Efst. subst s2. simpl in HV, HZ.
      destruct (num_elim_sim k t s s' v2 Hk Hs HV HZ) as (lv' & E' & HV' & HZ').
      exists (s', lv'). auto.
    + simpl. split; auto. split.
      * unfold VS; simpl. rewrite !lset_length. auto.
      * unfold DNZ; simpl. intros j Hj. rewrite nth_lset_other by lia. apply Hnz; auto.
    + exact H.
    + simpl in E5. subst li2. rewrite Ee. cbn [bind].
      cbn [fst snd] in *. destruct HVS as (V1 & V2 & V3 & V4).
      rewrite (get_nth (A:=F) (v_D lv2) k 0%Qc) by lia. cbn [bind].
      eexists; eexists; split; [reflexivity|]. unfold VS. auto 10.
Qed.

(* the loop over the columns: no error for any values; stops at the first zero pivot *)
Lemma num_loop_sim len : forall k0 li li' lv, k0 + len = n ->
  num_loop_i n Ap Ai etree Lcols (seq k0 len) li = Ok li' -> VS li lv -> DNZ k0 lv ->
  exists r li2 lv2, num_loop n Ap Ai Ax etree Lcols (seq k0 len) (li, lv) = Ok (r, (li2, lv2)) /\ VS li2 lv2 /\
     k0 <= r <= n /\ DNZ r lv2 /\
     (r = n -> li2 = li') /\ (r < n -> nth r (v_D lv2) 0%Qc = 0%Qc).
Proof.
  induction len; intros k0 li li' lv Hlen H HV HZ; cbn [seq num_loop_i] in H; cbn [seq num_loop].
  - inversion H; subst. exists n, li', lv. replace k0 with n in * by lia. repeat (split; auto); try lia.
  - bnv H as l. destruct (num_step_sim k0 li l lv E HV HZ) as (lv' & z & Es & HV' & HZ' & Hk & Ez).
    rewrite Es. cbn [bind]. destruct z.
    + symmetry in Ez. apply qeqb_true in Ez.
      exists k0, l, lv'. repeat (split; auto); try lia.
    + symmetry in Ez.
      assert (HZ1 : DNZ (S k0) lv').
      { intros i Hi. destruct (Nat.eq_dec i k0); [subst|apply HZ'; lia].
        intros Heq. rewrite Heq in Ez. unfold qeqb in Ez. simpl in Ez. discriminate. }
      destruct (IHlen (S k0) l li' lv') as (r & li2 & lv2 & El & HV2 & Hr & HZ2 & H1 & H2); auto; try lia.
      exists r, li2, lv2. repeat (split; auto); try lia.
Qed.
End Erase.

Lemma mapM_qinv_ok (D : list F) : (forall i, i < length D -> nth i D 0%Qc <> 0%Qc) ->
  exists dinv, mapM qinv D = Ok dinv /\ length dinv = length D /\ forall i, i < length D -> (nth i D 0 * nth i dinv 0)%Qc = 1%Qc.
Proof.
  induction D as [|a D IH]; intros H; simpl.
  - exists []. repeat split; auto. intros; simpl in *; lia.
  - assert (Ha : a <> 0%Qc) by (apply (H 0); simpl; lia).
    unfold qinv at 1. rewrite qdiv_ok by auto. cbn [bind].
    destruct IH as (dinv & E & L & Hd). { intros i Hi. apply (H (S i)). simpl; lia. }
    rewrite E. cbn [bind]. eexists; split; [reflexivity|]. split. simpl; lia.
    intros [|i] Hi; simpl. field. exact Ha. apply Hd. simpl in Hi; lia.
Qed.

(* ---------- lengths after the symbolic phase ---------- *)
Lemma sym_walk_len fuel : forall k i s s', sym_walk fuel k i s = Ok s' -> length (s_flag s') = length (s_flag s).
Proof.
  induction fuel; intros k i s s' H; simpl in H; [discriminate|].
  bnv H as fi. destruct (fi =? k). { inversion H; subst; auto. }
  bnv H as e. bnv H as et. bnv H as nz. bnv H as fl. bnv H as e'. destruct e' as [i'|]; [|discriminate].
  apply IHfuel in H. simpl in H. rewrite H. apply upd_ok_inv in E3. destruct E3 as [_ ->]. apply lset_length.
Qed.

Lemma symbolic_i_flag n Ap Ai li : symbolic_i n Ap Ai = Ok li -> length (i_flag li) = n.
Proof.
  unfold symbolic_i. intros H. bnv H as s. bnv H as lc. bnv H as tot. inversion H; subst. simpl.
  unfold for_range in E.
  eapply (foldM_preserve (fun s => length (s_flag s) = n)) in E; eauto.
  - intros k s0 s1 _ Hs Hl. unfold sym_step in Hs. bnv Hs as et. bnv Hs as fl. bnv Hs as nz. bnv Hs as lo. bnv Hs as p2.
    unfold for_range in Hs.
    eapply (foldM_preserve (fun s => length (s_flag s) = n)) in Hs; eauto.
    + intros p s2 s3 _ Hw Hl2. bnv Hw as i. apply sym_walk_len in Hw. congruence.
    + simpl. apply upd_ok_inv in E3. destruct E3 as [_ ->]. now rewrite lset_length.
  - simpl. apply repeat_length.
Qed.

(* ---------- general: the numeric phase never fails once the index-only run succeeds ---------- *)
Theorem numeric_erase (A : csc F) (li li' : ldl_i) :
  let n := nrows A in
  length (vals A) = length (rowind A) ->
  symbolic_i n (colptr A) (rowind A) = Ok li ->
  numeric_i n (colptr A) (rowind A) li = Ok li' ->
  exists r li2 lv2,
    ldl_factor A = Ok (r, (li2, lv2)) /\ r <= n /\
    (forall i, i < r -> nth i (v_D lv2) 0%Qc <> 0%Qc) /\
    (r < n -> nth r (v_D lv2) 0%Qc = 0%Qc) /\                      (* a zero pivot is reported, not divided by *)
    (r = n -> li2 = li' /\ length (v_Dinv lv2) = n /\ length (v_D lv2) = n /\
              forall i, i < n -> (nth i (v_D lv2) 0 * nth i (v_Dinv lv2) 0)%Qc = 1%Qc).
Proof.
  intros n HAx Hsym Hnum. unfold ldl_factor, symbolic. fold n. rewrite Hsym. cbn [bind].
  unfold numeric_i in Hnum. unfold numeric. cbn [fst nrows]. fold n.
  set (lv0 := mkldlv (repeat 0%Qc (length (i_Lind li))) (repeat 0%Qc n) (repeat 0%Qc n) (repeat 0%Qc n)).
  destruct (num_loop_sim n (colptr A) (rowind A) (vals A) (i_etree li) (i_Lcols li) HAx n 0 li li' lv0)
    as (r & li2 & lv2 & El & (V1 & V2 & V3 & V4) & Hr & HZ & H1 & H2); auto.
  - unfold VS, lv0; simpl. rewrite !repeat_length. repeat split; auto. eapply symbolic_i_flag; eauto.
  - intros i Hi; lia.
  - change Qc with F in *. rewrite El. cbn [bind].
    destruct (Nat.eqb_spec r n) as [->|Hne].
    + destruct (mapM_qinv_ok (v_D lv2)) as (dinv & Ed & Ld & Hd). { intros i Hi. apply HZ. lia. }
      rewrite Ed. cbn [bind]. eexists; eexists; eexists; split; [reflexivity|]. simpl.
      split; auto. split; [exact HZ|]. split; [lia|]. intros _. split; auto. split; [lia|]. split; auto.
      intros i Hi. apply Hd. lia.
    + eexists; eexists; eexists; split; [reflexivity|]. split; [lia|]. split; [exact HZ|]. split.
      * intros Hlt. apply H2; auto.
      * intros; lia.
Qed.

(* ================= bounded: all patterns n <= 5 ================= *)
(* independent specification of the structure of L: the symbolic fill of the dense recurrence
   L(k,i) structurally nonzero  iff  A(i,k) stored  or  exists c < i with L(i,c) and L(k,c) nonzero *)
Definition has_entry (Ap Ai : list nat) (i k : nat) : bool :=
  existsb (fun p => nth p Ai 0 =? i) (seq (nth k Ap 0) (nth (S k) Ap 0 - nth k Ap 0)).
Definition fill_row (has : nat -> nat -> bool) (rows : list (list bool)) (k : nat) : list bool :=
  fold_left (fun cur i => cur ++ [has i k || existsb (fun c => nth c (nth i rows []) false && nth c cur false) (seq 0 i)]) (seq 0 k) [].
Definition fill (n : nat) (has : nat -> nat -> bool) : list (list bool) :=
  fold_left (fun rows k => rows ++ [fill_row has rows k]) (seq 0 n) [].
Definition fill_col (n : nat) (rows : list (list bool)) (i : nat) : list nat :=
  filter (fun k => nth i (nth k rows []) false) (seq (S i) (n - S i)).

Fixpoint list_eqb (a b : list nat) : bool :=
  match a, b with
  | [], [] => true
  | x :: a, y :: b => (x =? y) && list_eqb a b
  | _, _ => false
  end.
Definition oeq (a b : option nat) : bool :=
  match a, b with Some x, Some y => x =? y | None, None => true | _, _ => false end.

Definition ldl_index_check (n : nat) (Ap Ai : list nat) : bool :=
  match symbolic_i n Ap Ai with
  | Ok li =>
    match numeric_i n Ap Ai li with
    | Ok li' =>
      let rows := fill n (has_entry Ap Ai) in
      let cols := map (fill_col n rows) (seq 0 n) in
      list_eqb (i_Lnnz li) (map (@length nat) cols) &&
      list_eqb (i_Lcols li) (cumsum 0 (map (@length nat) cols)) &&
      forallb (fun i => oeq (nth i (i_etree li) None) (hd_error (nth i cols []))) (seq 0 n) &&
      list_eqb (i_Lnnz li') (i_Lnnz li) && list_eqb (i_Lcols li') (i_Lcols li) &&
      list_eqb (i_Lind li') (concat cols)
    | Err _ => false
    end
  | Err _ => false
  end.

Definition ldl_index_check_all (n : nat) : bool :=
  forallb (fun bs => let pat := pattern_of n (adj_of_bits n bs) in ldl_index_check n (fst pat) (snd pat))
          (all_bools (length (pairs n))).

Lemma ldl_index_check_all_5 : forallb ldl_index_check_all (seq 0 6) = true.
Proof. vm_compute. reflexivity. Qed.

Theorem ldl_index_check_n5 (n : nat) (adj : nat -> nat -> bool) : n <= 5 ->
  ldl_index_check n (fst (pattern_of n adj)) (snd (pattern_of n adj)) = true.
Proof.
  intros Hn. destruct (pattern_enumerated n adj) as (bs & Hbs & ->).
  pose proof ldl_index_check_all_5 as H. rewrite forallb_forall in H.
  specialize (H n ltac:(apply in_seq; lia)). unfold ldl_index_check_all in H. rewrite forallb_forall in H.
  apply (H bs Hbs).
Qed.

(* for every pattern n <= 5 and ALL values: the factorisation never fails, reports the first zero pivot, and the
   structure of L is the symbolic fill *)
Theorem ldl_factor_total_n5 (n : nat) (adj : nat -> nat -> bool) (vs : list F) : n <= 5 ->
  let Ap := fst (pattern_of n adj) in let Ai := snd (pattern_of n adj) in
  length vs = length Ai ->
  exists r li2 lv2,
    ldl_factor (mkcsc n n Ap Ai vs) = Ok (r, (li2, lv2)) /\ r <= n /\
    (forall i, i < r -> nth i (v_D lv2) 0%Qc <> 0%Qc) /\
    (r < n -> nth r (v_D lv2) 0%Qc = 0%Qc) /\
    (r = n -> i_Lind li2 = concat (map (fill_col n (fill n (has_entry Ap Ai))) (seq 0 n)) /\
              forall i, i < n -> (nth i (v_D lv2) 0 * nth i (v_Dinv lv2) 0)%Qc = 1%Qc).
Proof.
  intros Hn Ap Ai Hv.
  pose proof (ldl_index_check_n5 n adj Hn) as Hc. fold Ap Ai in Hc. unfold ldl_index_check in Hc.
  destruct (symbolic_i n Ap Ai) as [li|] eqn:Es; [|discriminate].
  destruct (numeric_i n Ap Ai li) as [li'|] eqn:En; [|discriminate].
  destruct (numeric_erase (mkcsc n n Ap Ai vs) li li') as (r & li2 & lv2 & E & Hr & Hnz & Hz & Hfull); auto.
  exists r, li2, lv2. split; auto. split; auto. split; auto. split; auto.
  intros Hrn. destruct (Hfull Hrn) as (-> & _ & _ & Hd). split; auto.
  rewrite !andb_true_iff in Hc. destruct Hc as [_ Hc].
  clear - Hc. revert Hc. generalize (concat (map (fill_col n (fill n (has_entry Ap Ai))) (seq 0 n))).
  generalize (i_Lind li'). induction l; intros [|b l2] H; simpl in H; try discriminate; auto.
  apply andb_true_iff in H. destruct H as [H1 H2]. apply Nat.eqb_eq in H1. subst. f_equal. auto.
Qed.
