(* Properties_C13.v -- C13 "Every KKT backend solves the same full Newton system exactly": dense back end
   (model KKTDense.v of include/piqp/dense/kkt.hpp), exact LLT oracle, iterative refinement, and the scalar identities
   relating the sparse back ends' recovery formulas to the dense ones.  Exact arithmetic (Qc), all sizes, all data.
   Statements only; proofs in LinAlg.v (finite sums, list denotations), LLTProofs.v, KKTProofs.v.
   Definitions used in the statements:
     wf_lower rows    row i of the lower-triangular row list has length i+1            (LLTProofs.v)
     ldl_eqs N A L D  D_i > 0 and A = L D L^T entrywise on the lower triangle (L unit lower, strict part stored)
     Afun/Lfun/Dfun   entry functions of a row list / of f_L / of f_D;  Asym rows i j = symmetric entry
     wf_data d        P n x n, AT n x p, GT n x m (column lists), n_lb <= |lb_scaling|, n_ub <= |ub_scaling|,
                      strict lower triangle of P_utri is zero (P_utri = P.triangularView<Upper>())   (KKTProofs.v)
                      (no condition on the bound index lists: they may even repeat)
     wf_scal d k      |s| = |z_inv| = m, the four box vectors have length >= n_lb resp. n_ub
     pos_scal d k     delta > 0, s_i, z_inv_i > 0 (i < m), s_lb_i, z_lb_inv_i > 0 (i < n_lb), same for ub (i < n_ub)
     wf_rhs           block lengths n, p, m, n_lb, n_ub, m, n_lb, n_ub
     L2sys, a_*       the system as functions nat -> Qc with finite sums: a_Kred = P + rho I + box diagonal
                      + G^T W G + (1/delta) A^T A,  a_rhs = folded right-hand side, a_row_* = rows of the full operator
                      applied to the recovered step (a_dy, a_dz, a_dzlb, a_dzub, a_ds, a_dslb, a_dsub)
     Kred_of d k      a_Kred instantiated with the lists of d and the scalings of k
     kkt_residual_norm k rhs x = norm_inf (rhs - lower_sym_mul (k_mat k) x)
   Hypothesis "1 <= iterative_refinement_min_improvement_rate" of T3 is what Settings::verify_settings enforces. *)
From PIQP Require Import Base Data KKTDense LinAlg LLTProofs KKTProofs.
From RecordUpdate Require Import RecordSet.
Import RecordSetNotations.
Local Open Scope Qc_scope.

(* ---------------------------------------------------------------- T_llt : the exact LLT oracle meets its contract *)
Theorem C13_llt_solve_correct : forall (rows : list Vec) (f : Fact) (b : Vec),
  wf_lower rows -> llt_compute rows = Ok (Some f) -> length b = length rows ->
  exists x, llt_solve f b = Ok x /\ length x = length rows /\ lower_sym_mul rows x = b.
Proof. exact llt_solve_correct. Qed.
Print Assumptions C13_llt_solve_correct.

Theorem C13_llt_compute_no_err : forall rows : list Vec,
  wf_lower rows -> exists o, llt_compute rows = Ok o.
Proof. exact llt_compute_no_err. Qed.
Print Assumptions C13_llt_compute_no_err.

Theorem C13_llt_compute_factorisation : forall (rows : list Vec) (f : Fact),
  wf_lower rows -> llt_compute rows = Ok (Some f) ->
  length (f_L f) = length rows /\ length (f_D f) = length rows /\ wf_L (f_L f) /\
  ldl_eqs (length rows) (Afun rows) (Lfun (f_L f)) (Dfun (f_D f)).
Proof. exact llt_compute_factorisation. Qed.
Print Assumptions C13_llt_compute_factorisation.

(* ---------------------------------------------------------------- T1a(i) : elimination algebra, functions nat -> Qc *)
Theorem C13_kkt_algebra_dense : forall (Y : L2sys) (dx : nat -> Qc),
  y_delta Y <> 0 ->
  (forall l, (l < y_m Y)%nat -> y_zinv Y l <> 0) ->
  (forall l, (l < y_m Y)%nat -> y_s Y l * y_zinv Y l + y_delta Y <> 0) ->
  (forall k, (k < y_nlb Y)%nat -> y_zli Y k <> 0) ->
  (forall k, (k < y_nlb Y)%nat -> y_slb Y k * y_zli Y k + y_delta Y <> 0) ->
  (forall k, (k < y_nub Y)%nat -> y_zui Y k <> 0) ->
  (forall k, (k < y_nub Y)%nat -> y_sub Y k * y_zui Y k + y_delta Y <> 0) ->
  (forall i, (i < y_n Y)%nat -> sum (y_n Y) (fun j => a_Kred Y i j * dx j) = a_rhs Y i) ->
  (forall i, (i < y_n Y)%nat -> a_row_x Y dx i = y_rx Y i) /\
  (forall l, (l < y_p Y)%nat -> a_row_y Y dx l = y_ry Y l) /\
  (forall l, (l < y_m Y)%nat -> a_row_z Y dx l = y_rz Y l) /\
  (forall k, (k < y_nlb Y)%nat -> a_row_zlb Y dx k = y_rzlb Y k) /\
  (forall k, (k < y_nub Y)%nat -> a_row_zub Y dx k = y_rzub Y k) /\
  (forall l, (l < y_m Y)%nat -> a_row_s Y dx l = y_rs Y l) /\
  (forall k, (k < y_nlb Y)%nat -> a_row_slb Y dx k = y_rslb Y k) /\
  (forall k, (k < y_nub Y)%nat -> a_row_sub Y dx k = y_rsub Y k).
Proof. exact kkt_algebra_dense. Qed.
Print Assumptions C13_kkt_algebra_dense.

(* ---------------------------------------------------------------- T1b/(ii) : update_kkt denotes K_red *)
Theorem C13_update_kkt_denotes_Kred : forall (d : Data) (k0 k : KKT),
  wf_data d -> wf_scal d k0 -> ((0 < d_p d)%nat -> k_ATA k0 = compute_ATA d) ->
  update_kkt d k0 = Ok k ->
  k = k0 <| k_mat := k_mat k |> /\ length (k_mat k) = d_n d /\ wf_lower (k_mat k) /\
  forall i j, (i < d_n d)%nat -> (j < d_n d)%nat -> Asym (k_mat k) i j = Kred_of d k0 i j.
Proof. exact update_kkt_denotes_Kred. Qed.
Print Assumptions C13_update_kkt_denotes_Kred.

(* ---------------------------------------------------------------- T1a : multiply (solve rhs) = rhs on the model *)
Theorem C13_kkt_solve_exact_dense : forall (S : Settings) (d : Data) (k0 k : KKT) (f : Fact)
    (rx ry rz rzlb rzub rs rslb rsub : Vec) (step : Step),
  wf_data d -> wf_scal d k0 -> pos_scal d k0 ->
  ((0 < d_p d)%nat -> k_ATA k0 = compute_ATA d) ->
  update_kkt d k0 = Ok k ->
  llt_compute (k_mat k) = Ok (Some f) ->
  wf_rhs d rx ry rz rzlb rzub rs rslb rsub ->
  kkt_solve S d (k <| k_fact := Some f |>) false rx ry rz rzlb rzub rs rslb rsub = Ok step ->
  kkt_multiply d (k <| k_fact := Some f |>) step
  = Ok {| st_x := rx; st_y := ry; st_z := rz; st_z_lb := rzlb; st_z_ub := rzub;
          st_s := rs; st_s_lb := rslb; st_s_ub := rsub |}.
Proof. exact kkt_solve_exact_dense. Qed.
Print Assumptions C13_kkt_solve_exact_dense.

Theorem C13_kkt_solve_exact_dense_factorized : forall (S : Settings) (d : Data) (k0 k k' : KKT)
    (rx ry rz rzlb rzub rs rslb rsub : Vec) (step : Step),
  wf_data d -> wf_scal d k0 -> pos_scal d k0 ->
  ((0 < d_p d)%nat -> k_ATA k0 = compute_ATA d) ->
  update_kkt d k0 = Ok k ->
  regularize_and_factorize S d k false false = Ok (k', true) ->
  wf_rhs d rx ry rz rzlb rzub rs rslb rsub ->
  kkt_solve S d k' false rx ry rz rzlb rzub rs rslb rsub = Ok step ->
  kkt_multiply d k' step
  = Ok {| st_x := rx; st_y := ry; st_z := rz; st_z_lb := rzlb; st_z_ub := rzub;
          st_s := rs; st_s_lb := rslb; st_s_ub := rsub |}.
Proof. exact kkt_solve_exact_dense_factorized. Qed.
Print Assumptions C13_kkt_solve_exact_dense_factorized.

(* total form: with bound indices in range the solve cannot fail either *)
Theorem C13_kkt_solve_exact_dense_total : forall (S : Settings) (d : Data) (k0 k : KKT) (f : Fact)
    (rx ry rz rzlb rzub rs rslb rsub : Vec),
  wf_data d -> wf_scal d k0 -> pos_scal d k0 ->
  ((0 < d_p d)%nat -> k_ATA k0 = compute_ATA d) ->
  (forall i, (i < d_nlb d)%nat -> (nth i (d_lb_idx d) O < d_n d)%nat) ->
  (forall i, (i < d_nub d)%nat -> (nth i (d_ub_idx d) O < d_n d)%nat) ->
  update_kkt d k0 = Ok k ->
  llt_compute (k_mat k) = Ok (Some f) ->
  wf_rhs d rx ry rz rzlb rzub rs rslb rsub ->
  exists step,
    kkt_solve S d (k <| k_fact := Some f |>) false rx ry rz rzlb rzub rs rslb rsub = Ok step /\
    kkt_multiply d (k <| k_fact := Some f |>) step
    = Ok {| st_x := rx; st_y := ry; st_z := rz; st_z_lb := rzlb; st_z_ub := rzub;
            st_s := rs; st_s_lb := rslb; st_s_ub := rsub |}.
Proof. exact kkt_solve_exact_dense_total. Qed.
Print Assumptions C13_kkt_solve_exact_dense_total.

(* general form: any state whose k_mat denotes K_red; only z_inv <> 0 (no sign condition) *)
Theorem C13_kkt_solve_exact_dense_gen : forall (S : Settings) (d : Data) (k : KKT) (f : Fact)
    (rx ry rz rzlb rzub rs rslb rsub : Vec) (step : Step),
  wf_data d -> wf_scal d k -> wf_rhs d rx ry rz rzlb rzub rs rslb rsub ->
  (forall l, (l < d_m d)%nat -> nth l (k_z_inv k) 0 <> 0) ->
  (forall i, (i < d_nlb d)%nat -> nth i (k_z_lb_inv k) 0 <> 0) ->
  (forall i, (i < d_nub d)%nat -> nth i (k_z_ub_inv k) 0 <> 0) ->
  length (k_mat k) = d_n d -> wf_lower (k_mat k) ->
  (forall i j, (i < d_n d)%nat -> (j < d_n d)%nat -> Asym (k_mat k) i j = Kred_of d k i j) ->
  llt_compute (k_mat k) = Ok (Some f) -> k_fact k = Some f ->
  kkt_solve S d k false rx ry rz rzlb rzub rs rslb rsub = Ok step ->
  kkt_multiply d k step
  = Ok {| st_x := rx; st_y := ry; st_z := rz; st_z_lb := rzlb; st_z_ub := rzub;
          st_s := rs; st_s_lb := rslb; st_s_ub := rsub |}.
Proof. exact kkt_solve_exact_dense_gen. Qed.
Print Assumptions C13_kkt_solve_exact_dense_gen.

(* ---------------------------------------------------------------- T2 (dense core) : refresh = fresh *)
Theorem C13_update_kkt_refresh_eq_fresh : forall (d : Data) (k1 k2 : KKT),
  k_rho k1 = k_rho k2 -> k_delta k1 = k_delta k2 -> k_s k1 = k_s k2 -> k_z_inv k1 = k_z_inv k2 ->
  k_s_lb k1 = k_s_lb k2 -> k_z_lb_inv k1 = k_z_lb_inv k2 -> k_s_ub k1 = k_s_ub k2 -> k_z_ub_inv k1 = k_z_ub_inv k2 ->
  k_ATA k1 = k_ATA k2 ->
  match update_kkt d k1, update_kkt d k2 with
  | Ok r1, Ok r2 => k_mat r1 = k_mat r2
  | Err e1, Err e2 => e1 = e2
  | _, _ => False
  end.
Proof. exact update_kkt_refresh_eq_fresh. Qed.
Print Assumptions C13_update_kkt_refresh_eq_fresh.

(* ---------------------------------------------------------------- T_sparse_formulas *)
Theorem C13_sparse_dz_lb_eq_dense : forall sc dx rz rs zinv s delta : Qc,
  0 < s -> 0 < zinv -> 0 <= delta ->
  ((- sc * dx - rz) / zinv + rs) / (s + delta / zinv) = (- sc * dx - rz + zinv * rs) / (s * zinv + delta).
Proof. exact sparse_dz_lb_eq_dense. Qed.
Print Assumptions C13_sparse_dz_lb_eq_dense.

Theorem C13_sparse_dz_ub_eq_dense : forall sc dx rz rs zinv s delta : Qc,
  0 < s -> 0 < zinv -> 0 <= delta ->
  ((sc * dx - rz) / zinv + rs) / (s + delta / zinv) = (sc * dx - rz + zinv * rs) / (s * zinv + delta).
Proof. exact sparse_dz_ub_eq_dense. Qed.
Print Assumptions C13_sparse_dz_ub_eq_dense.

Theorem C13_sparse_ds_eq_dense : forall s zinv rs dz : Qc,
  0 < s -> s * zinv * (rs / s - dz) = zinv * (rs - s * dz).
Proof. exact sparse_ds_eq_dense. Qed.
Print Assumptions C13_sparse_ds_eq_dense.

Theorem C13_sparse_dz_div_eq_dense : forall g s zinv delta : Qc,
  0 < s -> 0 < zinv -> 0 <= delta ->
  g / (s * zinv + delta) = g * (1 / (s * zinv + delta)).
Proof. exact sparse_dz_div_eq_dense. Qed.
Print Assumptions C13_sparse_dz_div_eq_dense.

(* ---------------------------------------------------------------- T3 : refinement never increases the residual *)
Theorem C13_refinement_monotone_loop : forall (S : Settings),
  1 <= iterative_refinement_min_improvement_rate S ->
  forall (fuel : nat) (k : KKT) (rhs : Vec) (rhs_norm : F) (sol err_corr : Vec) (error_norm : F) (r : Vec),
  error_norm = kkt_residual_norm k rhs sol ->
  refine_loop S fuel k rhs rhs_norm sol err_corr error_norm = Ok r ->
  kkt_residual_norm k rhs r <= error_norm.
Proof. exact refinement_monotone_loop. Qed.
Print Assumptions C13_refinement_monotone_loop.

Theorem C13_refinement_monotone : forall (S : Settings),
  1 <= iterative_refinement_min_improvement_rate S ->
  forall (k : KKT) (refine : bool) (rhs sol0 sol : Vec),
  (if refine && Z.ltb 0 (iterative_refinement_max_iter S) then
     let err := vsub rhs (lower_sym_mul (k_mat k) sol0) in
     refine_loop S (Z.to_nat (iterative_refinement_max_iter S)) k rhs (norm_inf rhs) sol0 err (norm_inf err)
   else Ok sol0) = Ok sol ->
  kkt_residual_norm k rhs sol <= kkt_residual_norm k rhs sol0.
Proof. exact refinement_monotone. Qed.
Print Assumptions C13_refinement_monotone.

(* ---------------------------------------------------------------- non-vacuity: n = 2, p = 1, m = 1, one lower bound *)
Example C13_ex_multiply_solve : forall S : Settings,
  exists k k' step,
    update_kkt ex_d ex_k0 = Ok k /\
    regularize_and_factorize S ex_d k false false = Ok (k', true) /\
    ex_solve S k' false = Ok step /\
    veqb (st_x step) [0; 0] = false /\
    kkt_multiply ex_d k' step = Ok ex_rhs.
Proof. exact ex_multiply_solve. Qed.
Print Assumptions C13_ex_multiply_solve.

Example C13_ex_hypotheses_satisfiable : forall S : Settings,
  wf_data ex_d /\ wf_scal ex_d ex_k0 /\ pos_scal ex_d ex_k0 /\
  ((0 < d_p ex_d)%nat -> k_ATA ex_k0 = compute_ATA ex_d) /\
  wf_rhs ex_d (st_x ex_rhs) (st_y ex_rhs) (st_z ex_rhs) (st_z_lb ex_rhs) (st_z_ub ex_rhs)
         (st_s ex_rhs) (st_s_lb ex_rhs) (st_s_ub ex_rhs) /\
  exists k f step,
    update_kkt ex_d ex_k0 = Ok k /\ llt_compute (k_mat k) = Ok (Some f) /\
    ex_solve S (k <| k_fact := Some f |>) false = Ok step /\
    kkt_multiply ex_d (k <| k_fact := Some f |>) step = Ok ex_rhs.
Proof. exact ex_hypotheses_satisfiable. Qed.
Print Assumptions C13_ex_hypotheses_satisfiable.

Example C13_ex_refinement :
  1 <= iterative_refinement_min_improvement_rate ex_S /\
  exists k k' r,
    update_kkt ex_d ex_k0 = Ok k /\
    regularize_and_factorize ex_S ex_d k false false = Ok (k', true) /\
    refine_loop ex_S 3 k' ex_rx (norm_inf ex_rx) [0; 0] (ex_err k') (norm_inf (ex_err k')) = Ok r /\
    qltb (kkt_residual_norm k' ex_rx r) (kkt_residual_norm k' ex_rx [0; 0]) = true.
Proof. exact ex_refinement. Qed.
Print Assumptions C13_ex_refinement.
