(* KKTSparseEqProofs.v -- C13 / T1b, T2 for the sparse KKT_EQ_ELIMINATED back end (model KKTSparseEq.v), identity ordering; the first
   part (pattern of the bordered matrix, the loops of create_kkt_matrix, the merge walk with two sources, the refresh passes) is
   generic in the roles of the blocks and is used again by KKTSparseIneqProofs.v. *)
From PIQP Require Import Base CSC C14LemmasProofs CSCProofs TransposeProofs LinAlg KKTProofs KKTSparseFull KKTSparseFullProofs
  KKTSparseFullPermProofs KKTSparseAll KKTSparseAllTrProofs KKTSparseAllProofs KKTSparseAllDataProofs KKTSparseEq KKTSparseIneq.
Local Open Scope nat_scope.

(* ================================================================ small list facts *)
Lemma inc_snoc l x : inc l -> (forall y, In y l -> y < x) -> inc (l ++ [x]).
Proof.
  intros Hl Hx a b Hab Hb. rewrite app_length in Hb. cbn [length] in Hb.
  destruct (Nat.lt_ge_cases b (length l)).
  - rewrite !app_nth1 by lia. apply Hl; lia.
  - replace b with (length l) by lia. rewrite (app_nth1 l [x] 0) by lia. rewrite app_nth2 by lia. rewrite Nat.sub_diag. cbn [nth].
    apply Hx. apply nth_In. lia.
Qed.

(* ================================================================ matrices with strictly increasing upper columns that end in the diagonal *)
Section DiagLast.
Variables (N : nat) (cols : nat -> list nat).
Hypothesis Hinc : forall j, j < N -> inc (cols j).
Hypothesis Hle : forall j r, j < N -> In r (cols j) -> r <= j.
Hypothesis Hdg : forall j, j < N -> In j (cols j).
Local Notation E0 := (csc_of_cols N cols (fun _ _ => 0%Qc)).

Lemma dl_row j r : j < N -> In r (cols j) -> r < N.
Proof. intros Hj H. apply Hle in H; auto. lia. Qed.
Lemma dl_pos j : j < N -> 0 < length (cols j).
Proof. intros Hj. pose proof (Hdg j Hj) as H. destruct (cols j); [inversion H|cbn; lia]. Qed.
Lemma dl_diag_iff j t : j < N -> t < length (cols j) -> (nth t (cols j) 0 = j <-> S t = length (cols j)).
Proof.
  intros Hj Ht.
  destruct (inc_last (cols j) j (Hinc j Hj) (Hdg j Hj) (fun y Hy => Hle j y Hj Hy)) as [El _].
  split.
  - intros E. assert (E' : nth t (cols j) 0 = nth (length (cols j) - 1) (cols j) 0) by congruence.
    apply inc_inj in E'; auto; lia.
  - intros E. replace t with (length (cols j) - 1) by lia. exact El.
Qed.

Definition dpE (col : nat) : nat := coff cols (S col) - 1.
Lemma dpE_eq col : col < N -> dpE col = coff cols col + (length (cols col) - 1).
Proof. intros Hc. unfold dpE. cbn [coff]. pose proof (dl_pos col Hc). lia. Qed.
Lemma dpE_lt col : col < N -> dpE col < coff cols N.
Proof. intros Hc. rewrite dpE_eq by auto. pose proof (dl_pos col Hc). apply (off_lt (coff cols) (fun j => length (cols j)) N); auto; lia. Qed.
Lemma dpE_inj c c' : c < N -> c' < N -> dpE c = dpE c' -> c = c'.
Proof.
  intros Hc Hc'. rewrite !dpE_eq by auto. intros E. pose proof (dl_pos c Hc). pose proof (dl_pos c' Hc').
  apply (off_unique (coff cols) (fun j => length (cols j)) N) in E; auto; try lia; tauto.
Qed.
Lemma dpos_E col : col < N -> dpos (seq 0 N) (colptr E0) col = Ok (dpE col).
Proof.
  intros Hc. unfold dpos. rewrite (get_nth (seq 0 N) col 0) by (rewrite seq_length; auto). rewrite seq_nth by auto. cbn [bind Nat.add].
  rewrite (get_nth _ (S col) 0) by (rewrite ofcols_cp_len; lia). cbn [bind].
  change (nth (S col) (colptr E0) 0) with (cp E0 (S col)).
  rewrite ofcols_cp by lia. apply pred_chk_pos. cbn [coff]. pose proof (dl_pos col Hc). lia.
Qed.
Lemma dpE_not j t col : j < N -> t < length (cols j) -> S t <> length (cols j) -> col < N -> dpE col <> coff cols j + t.
Proof.
  intros Hj Ht Nd Hc E. rewrite dpE_eq in E by auto. pose proof (dl_pos col Hc).
  apply (off_unique (coff cols) (fun j => length (cols j)) N) in E; auto; try lia. destruct E as [-> E]. lia.
Qed.
Lemma dpE_diag j t : j < N -> S t = length (cols j) -> coff cols j + t = dpE j.
Proof. intros Hj E. rewrite dpE_eq by auto. lia. Qed.

Section WithVals.
Variable kx : Vec.
Hypothesis Lkx : length kx = coff cols N.
Local Notation K := (csc_set_vals E0 kx).

Lemma dl_wf : wf_csc K = true.
Proof. apply (ocv_wf N cols); auto. exact dl_row. Qed.
Lemma dl_upper : upper_only K = true.
Proof.
  unfold upper_only. change (ncols K) with N.
  apply forallb_forall. intros j Hj. apply in_seq in Hj. apply forallb_forall. intros q Hq. apply in_seq in Hq.
  change (nth j (colptr K) 0) with (cp E0 j) in Hq. change (nth (S j) (colptr K) 0) with (cp E0 (S j)) in Hq.
  rewrite !ofcols_cp in Hq by lia. cbn [coff] in Hq. apply Nat.leb_le.
  change (rowind K) with (rowind E0).
  replace q with (coff cols j + (q - coff cols j)) by lia. rewrite ofcols_row by lia.
  apply (Hle j); [lia|]. apply nth_In. lia.
Qed.
Lemma dl_diag_last : diag_is_last K.
Proof.
  intros j Hj. change (ncols K) with N in Hj. change (cp K) with (cp E0). change (rowind K) with (rowind E0).
  rewrite !ofcols_cp by lia. cbn [coff]. pose proof (dl_pos j Hj). split; [lia|].
  replace (coff cols j + length (cols j) - 1) with (coff cols j + (length (cols j) - 1)) by lia. rewrite ofcols_row by lia.
  apply dl_diag_iff; auto; lia.
Qed.
Lemma dl_get_in j t : j < N -> t < length (cols j) -> csc_get K (nth t (cols j) 0) j = nth (coff cols j + t) kx 0%Qc.
Proof. intros. apply (ocv_get_in N cols); auto. Qed.
Lemma dl_get_out j r : j < N -> ~ In r (cols j) -> csc_get K r j = 0%Qc.
Proof. intros. apply (ocv_get_out N cols); auto. Qed.
End WithVals.
End DiagLast.

(* ================================================================ the pattern of the bordered matrix [[TL, RT], [., diag]] *)
Section Border.
Variables (n r : nat) (kcols : nat -> list nat) (RT : csc F).
Hypothesis Hinc : forall j, j < n -> inc (kcols j).
Hypothesis Hle : forall j i, j < n -> In i (kcols j) -> i <= j.
Hypothesis Hdg : forall j, j < n -> In j (kcols j).
Hypothesis HwR : wf_csc RT = true.
Hypothesis HnR : nrows RT = n.
Hypothesis HcR : ncols RT = r.
Hypothesis HsR : forall l u v, l < r -> cp RT l <= u -> u < v -> v < cp RT (S l) -> nth u (rowind RT) 0 < nth v (rowind RT) 0.

Definition ecols (c : nat) : list nat := if c <? n then kcols c else col_rows RT (c - n) ++ [c].
Local Notation off := (coff ecols).

Lemma ec_lo c : c < n -> ecols c = kcols c.
Proof. intros Hc. unfold ecols. destruct (Nat.ltb_spec c n); [reflexivity|lia]. Qed.
Lemma ec_hi l : ecols (n + l) = col_rows RT l ++ [n + l].
Proof. unfold ecols. destruct (Nat.ltb_spec (n + l) n); [lia|]. now replace (n + l - n) with l by lia. Qed.
Lemma ec_len_hi l : l < r -> length (ecols (n + l)) = S (clen RT l).
Proof. intros Hl. rewrite ec_hi, app_length, (col_rows_len RT HwR) by lia. cbn [length]. lia. Qed.
Lemma off_lo c : c <= n -> off c = coff kcols c.
Proof. induction c; intros Hc; [reflexivity|]. cbn [coff]. rewrite IHc by lia. now rewrite ec_lo by lia. Qed.
Lemma ec_nth_hi l t : l < r -> t < clen RT l -> nth t (ecols (n + l)) 0 = nth (cp RT l + t) (rowind RT) 0.
Proof. intros Hl Ht. rewrite ec_hi, app_nth1 by (rewrite (col_rows_len RT HwR); lia). now apply col_rows_nth. Qed.
Lemma ec_nth_last l : l < r -> nth (clen RT l) (ecols (n + l)) 0 = n + l.
Proof. intros Hl. rewrite ec_hi, app_nth2 by (rewrite (col_rows_len RT HwR); lia). rewrite (col_rows_len RT HwR) by lia. now rewrite Nat.sub_diag. Qed.
Lemma RT_row_lt l u : l < r -> cp RT l <= u < cp RT (S l) -> nth u (rowind RT) 0 < n.
Proof.
  intros Hl Hu. rewrite <- HnR. replace u with (cp RT l + (u - cp RT l)) by lia.
  apply (rows_lt_n (mksdata (nrows RT) 0 0 RT RT RT 0 0 [] [] [] []) RT l (u - cp RT l)); auto; try lia.
  unfold clen. lia.
Qed.

Lemma ec_inc c : c < n + r -> inc (ecols c).
Proof.
  intros Hc. destruct (Nat.lt_ge_cases c n) as [L|G]; [rewrite ec_lo by auto; auto|].
  replace c with (n + (c - n)) by lia. set (l := c - n). assert (Hl : l < r) by (unfold l; lia). rewrite ec_hi.
  assert (EcS : cp RT (S l) = cp RT l + clen RT l) by (apply cp_S; auto; lia).
  apply inc_snoc.
  - intros a b Hab Hb. rewrite (col_rows_len RT HwR) in Hb by lia. rewrite !(col_rows_nth RT) by lia. apply (HsR l); lia.
  - intros y Hy. apply (col_rows_In RT HwR l y ltac:(lia)) in Hy as (i & Hi & <-).
    pose proof (RT_row_lt l (cp RT l + i) Hl ltac:(lia)). lia.
Qed.
Lemma ec_le c i : c < n + r -> In i (ecols c) -> i <= c.
Proof.
  intros Hc. destruct (Nat.lt_ge_cases c n) as [L|G]; [rewrite ec_lo by auto; auto|].
  replace c with (n + (c - n)) by lia. set (l := c - n). assert (Hl : l < r) by (unfold l; lia). rewrite ec_hi.
  assert (EcS : cp RT (S l) = cp RT l + clen RT l) by (apply cp_S; auto; lia).
  intros H. apply in_app_or in H as [H|[<-|[]]]; [|lia].
  apply (col_rows_In RT HwR l i ltac:(lia)) in H as (t & Ht & <-). pose proof (RT_row_lt l (cp RT l + t) Hl ltac:(lia)). lia.
Qed.
Lemma ec_diag c : c < n + r -> In c (ecols c).
Proof.
  intros Hc. destruct (Nat.lt_ge_cases c n) as [L|G]; [rewrite ec_lo by auto; auto|].
  unfold ecols. destruct (Nat.ltb_spec c n); [lia|]. apply in_or_app. right. now left.
Qed.
(* membership in a border column *)
Lemma ec_in_hi l i : l < r -> i < n -> (In i (ecols (n + l)) <-> In i (col_rows RT l)).
Proof.
  intros Hl Hi. rewrite ec_hi. split; [|intros; apply in_or_app; now left].
  intros H. apply in_app_or in H as [H|[E|[]]]; [exact H|lia].
Qed.
End Border.

(* ================================================================ the loops of create_kkt_matrix *)
Section Loops.
Variables (n r : nat) (kcols : nat -> list nat) (kval : nat -> nat -> F) (RT : csc F) (dval : F).
Hypothesis HwR : wf_csc RT = true.
Hypothesis HnR : nrows RT = n.
Hypothesis HcR : ncols RT = r.
Local Notation N := (n + r).
Local Notation TL := (csc_of_cols n kcols kval).
Local Notation ec := (ecols n kcols RT).
Local Notation off := (coff (ecols n kcols RT)).

(* the value the copying pass leaves at position t of column c *)
Definition evals (c t : nat) : F :=
  if c <? n then kval (nth t (kcols c) 0) c
  else if t <? clen RT (c - n) then nth (cp RT (c - n) + t) (vals RT) 0%Qc else dval.

Let off_Sx c : off (S c) = off c + length (ec c). Proof. reflexivity. Qed.
Let ec_lo' c : c < n -> ec c = kcols c. Proof. intros; eapply ec_lo; eauto. Qed.
Let ec_len_hi' l : l < r -> length (ec (n + l)) = S (clen RT l). Proof. intros; eapply ec_len_hi; eauto. Qed.
Let ec_nth_hi' l t : l < r -> t < clen RT l -> nth t (ec (n + l)) 0 = nth (cp RT l + t) (rowind RT) 0. Proof. intros; eapply ec_nth_hi; eauto. Qed.
Let ec_nth_last' l : l < r -> nth (clen RT l) (ec (n + l)) 0 = n + l. Proof. intros; eapply ec_nth_last; eauto. Qed.
Let off_ltx c i c' : c < c' -> i < length (ec c) -> off c + i < off c'.
Proof. intros H1 H2. apply (off_lt off (fun c => length (ec c)) c'); auto. Qed.

Lemma count_tl_ok kp0 : length kp0 = S N -> nth 0 kp0 0 = 0 ->
  exists kp, count_tl TL (0, 0, kp0) = Ok (off n, n, kp) /\ length kp = S N /\ forall c, c <= n -> nth c kp 0 = off c.
Proof.
  intros L0 H0. unfold count_tl. change (ncols TL) with n.
  destruct (for_range_ind (fun j (st : nat * nat * list nat) =>
              fst (fst st) = off j /\ snd (fst st) = j /\ length (snd st) = S N /\
              forall c, c <= j -> nth c (snd st) 0 = off c)
      0 n (fun j '(nz, jk, kp) =>
        do lo <- get (colptr TL) j ;; do hi <- get (colptr TL) (S j) ;;
        let nz := nz + (hi - lo) in
        do kp <- upd kp (S jk) nz ;;
        Ok (nz, S jk, kp)) (0, 0, kp0)) as ([[nz jk] kp] & E & H1 & H2 & H3 & H4); try lia.
  - cbn [fst snd]. repeat split; auto. intros c Hc. replace c with 0 by lia. exact H0.
  - intros j [[nz jk] kp] [_ Hj] (H1 & H2 & H3 & H4). cbn [fst snd] in *. subst nz jk.
    rewrite (get_nth (colptr TL) j 0), (get_nth (colptr TL) (S j) 0) by (rewrite ofcols_cp_len; lia). cbn [bind]. cbv zeta.
    fold (cp TL j) (cp TL (S j)). rewrite !ofcols_cp by lia.
    rewrite upd_lset by lia. cbn [bind]. eexists; split; [reflexivity|]. cbn [fst snd].
    assert (Ek : off j + (coff kcols (S j) - coff kcols j) = off (S j)).
    { cbn [coff]. rewrite ec_lo' by lia. lia. }
    split; [exact Ek|]. split; [reflexivity|]. split; [now rewrite lset_length|].
    intros c Hc. rewrite nth_lset by lia. destruct (Nat.eqb_spec c (S j)) as [?Hy|?Hn]; [subst; exact Ek|]. apply H4. lia.
  - cbn [fst snd] in *. subst. exists kp. auto.
Qed.

Lemma count_rect_ok2 kp0 : length kp0 = S N -> (forall c, c <= n -> nth c kp0 0 = off c) ->
  exists kp, count_rect RT (off n, n, kp0) = Ok (off N, N, kp) /\ length kp = S N /\ forall c, c <= N -> nth c kp 0 = off c.
Proof.
  intros L0 H0. unfold count_rect. rewrite HcR.
  destruct (for_range_ind (fun j (st : nat * nat * list nat) =>
              fst (fst st) = off (n + j) /\ snd (fst st) = n + j /\ length (snd st) = S N /\
              forall c, c <= n + j -> nth c (snd st) 0 = off c)
      0 r (fun j '(nz, jk, kp) =>
        do lo <- get (colptr RT) j ;; do hi <- get (colptr RT) (S j) ;;
        let nz := S (nz + (hi - lo)) in
        do kp <- upd kp (S jk) nz ;;
        Ok (nz, S jk, kp)) (off n, n, kp0)) as ([[nz jk] kp] & E & H1 & H2 & H3 & H4); try lia.
  - cbn [fst snd]. rewrite Nat.add_0_r. repeat split; auto.
  - intros j [[nz jk] kp] [_ Hj] (H1 & H2 & H3 & H4). cbn [fst snd] in *. subst nz jk.
    rewrite (get_cp RT HwR j) by lia. rewrite (get_cp RT HwR (S j)) by lia. cbn [bind]. cbv zeta.
    rewrite upd_lset by lia. cbn [bind]. eexists; split; [reflexivity|]. cbn [fst snd].
    replace (n + S j) with (S (n + j)) by lia.
    assert (Ek : S (off (n + j) + (cp RT (S j) - cp RT j)) = off (S (n + j))).
    { rewrite off_Sx, ec_len_hi' by lia. unfold clen. lia. }
    split; [exact Ek|]. split; [reflexivity|]. split; [now rewrite lset_length|].
    intros c Hc. rewrite nth_lset by lia. destruct (Nat.eqb_spec c (S (n + j))) as [?Hy|?Hn]; [subst; exact Ek|]. apply H4. lia.
  - cbn [fst snd] in *. subst. exists kp. auto.
Qed.

Definition efilled (C : nat) (ki : list nat) (kx : Vec) : Prop :=
  forall c t, c < C -> t < length (ec c) -> nth (off c + t) ki 0 = nth t (ec c) 0 /\ nth (off c + t) kx 0%Qc = evals c t.

Lemma fill_tl_ok kp ki0 (kx0 : Vec) : length kp = S N -> (forall c, c <= N -> nth c kp 0 = off c) ->
  length ki0 = off N -> length kx0 = off N ->
  exists ki kx, fill_tl TL kp (0, ki0, kx0) = Ok (n, ki, kx) /\ length ki = off N /\ length kx = off N /\ efilled n ki kx.
Proof.
  intros Lkp Hkp Lki Lkx. unfold fill_tl. change (ncols TL) with n.
  destruct (for_range_ind (fun j (st : nat * list nat * Vec) =>
      let '(jk, ki, kx) := st in jk = j /\ length ki = off N /\ length kx = off N /\ efilled j ki kx)
    0 n (fun j '(jk, ki, kx) =>
      do k_kkt <- get kp jk ;;
      do lo <- get (colptr TL) j ;; do hi <- get (colptr TL) (S j) ;;
      let col_nnz := hi - lo in
      do ki <- copy_seg ki k_kkt (rowind TL) lo col_nnz ;;
      do kx <- copy_seg kx k_kkt (vals TL) lo col_nnz ;;
      Ok (S jk, ki, kx)) (0, ki0, kx0)) as ([[jk ki] kx] & E & H1 & H2 & H3 & H4); try lia.
  - split; [reflexivity|]. split; [assumption|]. split; [assumption|]. intros c t Hc; lia.
  - intros j [[jk ki] kx] [_ Hj] (H1 & H2 & H3 & H4). subst jk.
    assert (Elo : ec j = kcols j) by (apply ec_lo'; lia).
    assert (HkS : off j + length (kcols j) <= off N) by (rewrite <- Elo, <- off_Sx; apply coff_mono; lia).
    assert (HtS : coff kcols j + length (kcols j) <= coff kcols n) by (change (coff kcols (S j) <= coff kcols n); apply coff_mono; lia).
    destruct (ofcols_nnz n kcols kval) as [Lr Lv].
    rewrite (get_nth kp j 0) by lia. rewrite Hkp by lia. cbn [bind].
    rewrite (get_nth (colptr TL) j 0), (get_nth (colptr TL) (S j) 0) by (rewrite ofcols_cp_len; lia). cbn [bind]. cbv zeta.
    fold (cp TL j) (cp TL (S j)). rewrite !ofcols_cp by lia. cbn [coff].
    replace (coff kcols j + length (kcols j) - coff kcols j) with (length (kcols j)) by lia.
    destruct (copy_seg_ok 0 ki (off j) (rowind TL) (coff kcols j) (length (kcols j))) as (ki1 & Eki & Lki1 & Hki1 & Hki1'); [lia | lia |].
    rewrite Eki. cbn [bind].
    destruct (copy_seg_ok (0%Qc : F) kx (off j) (vals TL) (coff kcols j) (length (kcols j))) as (kx1 & Ekx & Lkx1 & Hkx1 & Hkx1'); [lia | lia |].
    rewrite Ekx. cbn [bind]. eexists; split; [reflexivity|].
    split; [reflexivity|]. split; [lia|]. split; [lia|].
    intros c t Hc Ht. destruct (Nat.eq_dec c j) as [->|Hne].
    + rewrite Elo in Ht. rewrite Hki1, Hkx1 by auto. rewrite ofcols_row, ofcols_val by (auto; lia).
      rewrite Elo. unfold evals. destruct (Nat.ltb_spec j n); [|lia]. split; reflexivity.
    + assert (off c + t < off j) by (apply off_ltx; auto; lia).
      rewrite Hki1', Hkx1' by lia. apply H4; auto; lia.
  - subst jk. exists ki, kx. auto.
Qed.

Lemma efilled_mono C C' ki kx : C' <= C -> efilled C ki kx -> efilled C' ki kx.
Proof. intros H Hf c t Hc Ht. apply Hf; auto; lia. Qed.

Lemma fill_rect_ok2 kp ki0 (kx0 : Vec) m2k0 : length kp = S N -> (forall c, c <= N -> nth c kp 0 = off c) ->
  length ki0 = off N -> length kx0 = off N -> efilled n ki0 kx0 -> length m2k0 = nnz RT ->
  exists ki kx m2k, fill_rect RT dval kp (n, ki0, kx0, m2k0) = Ok (N, ki, kx, m2k) /\
    length ki = off N /\ length kx = off N /\ efilled N ki kx /\
    length m2k = nnz RT /\ (forall l i, l < r -> i < clen RT l -> nth (cp RT l + i) m2k 0 = off (n + l) + i).
Proof.
  intros Lkp Hkp Lki Lkx Hf0 Lm. unfold fill_rect. rewrite HcR.
  destruct (for_range_ind (fun j (st : nat * list nat * Vec * list nat) =>
      let '(jk, ki, kx, m2k) := st in
      jk = n + j /\ length ki = off N /\ length kx = off N /\ efilled (n + j) ki kx /\
      length m2k = nnz RT /\ (forall l i, l < j -> i < clen RT l -> nth (cp RT l + i) m2k 0 = off (n + l) + i))
    0 r (fun j '(jk, ki, kx, m2k) =>
      do k_kkt <- get kp jk ;;
      do lo <- get (colptr RT) j ;; do hi <- get (colptr RT) (S j) ;;
      let col_nnz := hi - lo in
      do ki <- copy_seg ki k_kkt (rowind RT) lo col_nnz ;;
      do kx <- copy_seg kx k_kkt (vals RT) lo col_nnz ;;
      do ki <- upd ki (k_kkt + col_nnz) jk ;;
      do kx <- upd kx (k_kkt + col_nnz) dval ;;
      do m2k <- fill_map m2k lo hi k_kkt ;;
      Ok (S jk, ki, kx, m2k)) (n, ki0, kx0, m2k0))
    as ([[[jk ki] kx] m2k] & E & H1 & H2 & H3 & H4 & H6 & H7); try lia.
  - rewrite Nat.add_0_r. split; [reflexivity|]. split; [assumption|]. split; [assumption|]. split; [assumption|].
    split; [assumption|]. intros; lia.
  - intros j [[[jk ki] kx] m2k] [_ Hj] (H1 & H2 & H3 & H4 & H6 & H7). subst jk.
    assert (EcS : cp RT (S j) = cp RT j + clen RT j) by (apply cp_S; auto; lia).
    assert (Hnz : cp RT (S j) <= nnz RT) by (apply cp_le_nnz; auto; lia).
    assert (Ekl : length (ec (n + j)) = S (clen RT j)) by (apply ec_len_hi'; auto; lia).
    assert (HkS : off (n + j) + length (ec (n + j)) <= off N) by (rewrite <- off_Sx; apply coff_mono; lia).
    rewrite Ekl in HkS.
    rewrite (get_nth kp (n + j) 0) by lia. rewrite Hkp by lia. cbn [bind].
    rewrite (get_cp RT HwR j) by lia. rewrite (get_cp RT HwR (S j)) by lia. cbn [bind]. cbv zeta.
    fold (clen RT j).
    destruct (copy_seg_ok 0 ki (off (n + j)) (rowind RT) (cp RT j) (clen RT j)) as (ki1 & Eki & Lki1 & Hki1 & Hki1'); [unfold nnz in *; lia | lia |].
    rewrite Eki. cbn [bind].
    destruct (copy_seg_ok (0%Qc : F) kx (off (n + j)) (vals RT) (cp RT j) (clen RT j)) as (kx1 & Ekx & Lkx1 & Hkx1 & Hkx1'); [rewrite (vals_len RT HwR); lia | lia |].
    rewrite Ekx. cbn [bind].
    rewrite upd_lset by lia. cbn [bind]. rewrite upd_lset by lia. cbn [bind].
    destruct (fill_map_ok m2k (cp RT j) (cp RT (S j)) (off (n + j))) as (m2k1 & Ep & Lp1 & Hp1 & Hp1'); [lia | lia |].
    rewrite Ep. cbn [bind]. eexists; split; [reflexivity|].
    replace (n + S j) with (S (n + j)) by lia.
    split; [reflexivity|]. split; [rewrite lset_length; lia|]. split; [rewrite lset_length; lia|]. split.
    + intros c i Hc Hi. destruct (Nat.eq_dec c (n + j)) as [->|Hne].
      * rewrite Ekl in Hi. rewrite (nth_lset ki1) by lia. rewrite (nth_lset kx1) by lia. unfold evals.
        destruct (Nat.ltb_spec (n + j) n) as [?Hy|?Hn]; [lia|]. replace (n + j - n) with j by lia.
        destruct (Nat.eqb_spec (off (n + j) + i) (off (n + j) + clen RT j)) as [?Hy|?Hn0].
        -- destruct (Nat.ltb_spec i (clen RT j)) as [?Hy|?Hn1]; [lia|]. split; [|reflexivity].
           replace i with (clen RT j) by lia. now rewrite ec_nth_last' by lia.
        -- destruct (Nat.ltb_spec i (clen RT j)) as [?Hy|?Hn1]; [|lia].
           rewrite ec_nth_hi' by lia. split; [apply Hki1 | apply Hkx1]; auto.
      * assert (off c + i < off (n + j)) by (apply off_ltx; auto; lia).
        rewrite !nth_lset by lia. destruct (Nat.eqb_spec (off c + i) (off (n + j) + clen RT j)) as [?Hy|?Hn]; [lia|].
        rewrite Hki1', Hkx1' by lia. apply H4; auto; lia.
    + split; [lia|]. intros l i Hl Hi. destruct (Nat.eq_dec l j) as [->|Hne].
      * apply Hp1. lia.
      * rewrite Hp1'. apply H7; lia. left.
        apply (off_lt (cp RT) (clen RT) j); auto; try lia. intros; apply cp_S; auto; lia.
  - subst jk. exists ki, kx, m2k. split; [exact E|]. auto 10.
Qed.
End Loops.

(* ================================================================ the merge walk with two sources, on the first n columns of any K *)
Section Maps2.
Variables (n : nat) (kcols : nat -> list nat).
Hypothesis Hinc : forall j, j < n -> inc (kcols j).
Variable K : csc F.
Hypothesis LKp : S n <= length (colptr K).
Hypothesis HKp : forall j, j <= n -> nth j (colptr K) 0 = coff kcols j.
Hypothesis LKi : coff kcols n <= length (rowind K).
Hypothesis HKi : forall j t, j < n -> t < length (kcols j) -> nth (coff kcols j + t) (rowind K) 0 = nth t (kcols j) 0.
Variables P A : csc F.
Hypothesis HP : src_ok n kcols P.
Hypothesis HA : src_ok n kcols A.

Theorem compute_maps2_ok p0 a0 : length p0 = nnz P -> length a0 = nnz A ->
  exists p2k a2k, compute_maps2 n K P A (p0, a0) = Ok (p2k, a2k) /\ map_ok n kcols P p2k /\ map_ok n kcols A a2k.
Proof.
  intros Lp La. unfold compute_maps2.
  pose proof HP as (HwP & HcP & HsP & HuP). pose proof HA as (HwA & HcA & HsA & HuA).
  destruct (for_range_ind (fun j (st : list nat * list nat) =>
              let '(p2k, a2k) := st in part_ok kcols P j p2k /\ part_ok kcols A j a2k)
    0 n (fun j maps =>
      do pk <- get (colptr P) j ;; do xk <- get (colptr A) j ;;
      do pend <- get (colptr P) (S j) ;; do xend <- get (colptr A) (S j) ;;
      do klo <- get (colptr K) j ;; do kkk <- get (colptr K) (S j) ;;
      do '(_, _, maps) <- for_range klo kkk (fun kk '(pk, xk, (p2k, x2k)) =>
          do i <- get (rowind K) kk ;;
          do pk <- advance (S (pend - pk)) (rowind P) pk pend i ;;
          do xk <- advance (S (xend - xk)) (rowind A) xk xend i ;;
          do p2k <- mark (rowind P) pk pend i kk p2k ;;
          do x2k <- mark (rowind A) xk xend i kk x2k ;;
          Ok (pk, xk, (p2k, x2k))) (pk, xk, maps) ;;
      Ok maps) (p0, a0)) as ([p2k a2k] & E & H1 & H2); try lia.
  - repeat split; auto; intros; lia.
  - intros j [p1 a1] [_ Hj] (I1 & I2).
    rewrite (get_cp P HwP j), (get_cp A HwA j) by lia. cbn [bind].
    rewrite (get_cp P HwP (S j)), (get_cp A HwA (S j)) by lia. cbn [bind].
    rewrite (get_nth (colptr K) j 0), (get_nth (colptr K) (S j) 0) by lia. cbn [bind].
    rewrite !HKp by lia. cbn [coff].
    destruct (src_bounds n kcols P j HP Hj) as [BP1 BP2]. destruct (src_bounds n kcols A j HA Hj) as [BA1 BA2].
    pose proof I1 as [L1 _]. pose proof I2 as [L2 _].
    set (WP := winv (rowind P) (cp P j) (cp P (S j)) (kcols j) (coff kcols j) (nnz P) p1).
    set (WA := winv (rowind A) (cp A j) (cp A (S j)) (kcols j) (coff kcols j) (nnz A) a1).
    destruct (for_range_ind (fun kk (st : nat * nat * (list nat * list nat)) =>
                let '(pk, ak, (p2k, a2k)) := st in
                WP (kk - coff kcols j) pk p2k /\ WA (kk - coff kcols j) ak a2k)
      (coff kcols j) (coff kcols j + length (kcols j)) (fun kk '(pk, xk, (p2k, x2k)) =>
          do i <- get (rowind K) kk ;;
          do pk <- advance (S (cp P (S j) - pk)) (rowind P) pk (cp P (S j)) i ;;
          do xk <- advance (S (cp A (S j) - xk)) (rowind A) xk (cp A (S j)) i ;;
          do p2k <- mark (rowind P) pk (cp P (S j)) i kk p2k ;;
          do x2k <- mark (rowind A) xk (cp A (S j)) i kk x2k ;;
          Ok (pk, xk, (p2k, x2k))) (cp P j, cp A j, (p1, a1)))
      as ([[pk ak] [p2 a2]] & E' & W1 & W2); try lia.
    + rewrite Nat.sub_diag. unfold WP, WA. split; apply winv_init; auto; unfold nnz; lia.
    + intros kk [[pk ak] [p2 a2]] Hkk (W1 & W2).
      set (t := kk - coff kcols j) in *. assert (Ht : t < length (kcols j)) by (unfold t; lia).
      assert (Ekk : kk = coff kcols j + t) by (unfold t; lia).
      rewrite (get_nth (rowind K) kk 0).
      2:{ assert (H : coff kcols (S j) <= coff kcols n) by (apply coff_mono; lia). cbn [coff] in H. lia. }
      cbn [bind]. replace (nth kk (rowind K) 0) with (nth t (kcols j) 0) by (rewrite Ekk; symmetry; now apply HKi).
      destruct (walk_step (rowind P) (cp P j) (cp P (S j)) (kcols j) (coff kcols j) (nnz P) p1 BP1 BP2 ltac:(unfold nnz; lia) (Hinc j Hj)
                 (fun u v H1 H2 H3 => HsP j u v Hj H1 H2 H3) t pk p2 Ht W1) as (pk' & p2' & EP1 & EP2 & WP').
      destruct (walk_step (rowind A) (cp A j) (cp A (S j)) (kcols j) (coff kcols j) (nnz A) a1 BA1 BA2 ltac:(unfold nnz; lia) (Hinc j Hj)
                 (fun u v H1 H2 H3 => HsA j u v Hj H1 H2 H3) t ak a2 Ht W2) as (ak' & a2' & EA1 & EA2 & WA').
      rewrite EP1, EA1. cbn [bind]. rewrite <- Ekk in EP2, EA2. rewrite EP2, EA2. cbn [bind].
      eexists; split; [reflexivity|]. replace (S kk - coff kcols j) with (S t) by (unfold t; lia). auto.
    + rewrite E'. cbn [bind]. eexists; split; [reflexivity|].
      replace (coff kcols j + length (kcols j) - coff kcols j) with (length (kcols j)) in * by lia.
      destruct (winv_final _ _ _ _ _ _ _ (fun u H => HuP j u Hj H) _ _ W1) as (F1 & F2 & F3).
      destruct (winv_final _ _ _ _ _ _ _ (fun u H => HuA j u Hj H) _ _ W2) as (F4 & F5 & F6).
      split; eapply part_ok_next; eauto.
  - exists p2k, a2k. split; [exact E|]. split; [exact H1|exact H2].
Qed.
End Maps2.

(* ================================================================ create_kkt_matrix, both modes: [assemble] *)
Section Asm.
Variables (n r : nat) (kcols : nat -> list nat) (kval : nat -> nat -> F) (RT : csc F) (dval : F).
Hypothesis Hinc : forall j, j < n -> inc (kcols j).
Hypothesis HwR : wf_csc RT = true.
Hypothesis HnR : nrows RT = n.
Hypothesis HcR : ncols RT = r.
Variables P XX : csc F.
Hypothesis HP : src_ok n kcols P.
Hypothesis HX : src_ok n kcols XX.
Local Notation N := (n + r).
Local Notation TL := (csc_of_cols n kcols kval).
Local Notation ec := (ecols n kcols RT).
Local Notation off := (coff (ecols n kcols RT)).
Local Notation E0 := (csc_of_cols N (ecols n kcols RT) (fun _ _ => 0%Qc)).

Theorem assemble_ok :
  exists kx p2k x2k r2k,
    assemble n N P XX TL RT dval = Ok (mkcsc N N (colptr E0) (rowind E0) kx, p2k, x2k, r2k) /\
    length kx = off N /\
    (forall c t, c < N -> t < length (ec c) -> nth (off c + t) kx 0%Qc = evals n kcols kval RT dval c t) /\
    map_ok n kcols P p2k /\ map_ok n kcols XX x2k /\
    length r2k = nnz RT /\ (forall l i, l < r -> i < clen RT l -> nth (cp RT l + i) r2k 0 = off (n + l) + i).
Proof.
  unfold assemble.
  destruct (count_tl_ok n r kcols kval RT HwR HnR HcR (repeat 0 (S N))) as (kp1 & E1 & Lk1 & Hk1); [apply repeat_length | reflexivity |].
  rewrite E1. cbn [bind].
  destruct (count_rect_ok2 n r kcols RT HwR HnR HcR kp1 Lk1 Hk1) as (kp & E2 & Lkp & Hkp).
  rewrite E2. cbn [bind].
  destruct (fill_tl_ok n r kcols kval RT dval HnR HcR kp (repeat 0 (off N)) (repeat 0%Qc (off N)) Lkp Hkp (repeat_length _ _) (repeat_length _ _))
    as (ki1 & kx1 & E3 & Lki1 & Lkx1 & Hf1).
  unfold Vec, F in *. rewrite E3. cbn [bind].
  destruct (fill_rect_ok2 n r kcols kval RT dval HwR HnR HcR kp ki1 kx1 (repeat 0 (nnz RT)) Lkp Hkp Lki1 Lkx1 Hf1 (repeat_length _ _))
    as (ki & kx & r2k & E4 & Lki & Lkx & Hf & Lr & Hr).
  unfold Vec, F in *. rewrite E4. cbn [bind]. cbv zeta.
  assert (Olo : forall c, c <= n -> off c = coff kcols c) by (intros; eapply off_lo; eauto).
  assert (Elo : forall c, c < n -> ec c = kcols c) by (intros; eapply ec_lo; eauto).
  destruct (compute_maps2_ok n kcols Hinc (mkcsc N N kp ki kx)) with (P := P) (A := XX) (p0 := repeat 0 (nnz P)) (a0 := repeat 0 (nnz XX))
    as (p2k & x2k & E5 & MP & MX); auto; try apply repeat_length.
  - cbn [colptr]. lia.
  - intros j Hj. cbn [colptr]. rewrite Hkp by lia. apply Olo; auto.
  - cbn [rowind]. rewrite Lki, <- Olo by lia. apply coff_mono. lia.
  - intros j t Hj Ht. cbn [rowind]. rewrite <- Olo by lia. rewrite <- Elo in Ht by auto.
    destruct (Hf j t ltac:(lia) Ht) as [Hi _]. rewrite Hi. now rewrite Elo.
  - unfold Vec, F in *. rewrite E5. cbn [bind].
    assert (Ekp : kp = colptr E0).
    { apply (nth_ext _ _ 0 0); [now rewrite ofcols_cp_len|]. intros c Hc. rewrite Hkp by lia.
      change (nth c (colptr E0) 0) with (cp E0 c). rewrite ofcols_cp by lia. reflexivity. }
    assert (Eki : ki = rowind E0).
    { destruct (ofcols_nnz N ec (fun _ _ => 0%Qc)) as [Ln _].
      apply (nth_ext _ _ 0 0); [now rewrite Ln|]. intros q Hq. rewrite Lki in Hq.
      destruct (off_decomp off (fun c => length (ec c)) N (fun c _ => eq_refl) q ltac:(cbn [coff]; lia)) as (c & t & Hc & Ht & ->).
      destruct (Hf c t Hc Ht) as [Hi _]. rewrite Hi. symmetry. now apply ofcols_row. }
    exists kx, p2k, x2k, r2k. rewrite Ekp, Eki. split; [reflexivity|]. split; [exact Lkx|]. split.
    + intros c t Hc Ht. now apply Hf.
    + auto.
Qed.
End Asm.

(* ================================================================ strictly increasing columns from sorted_colsb *)
Lemma sorted_strict (M : csc F) : wf_csc M = true -> sorted_colsb M = true ->
  forall j u v, j < ncols M -> cp M j <= u -> u < v -> v < cp M (S j) -> nth u (rowind M) 0 < nth v (rowind M) 0.
Proof.
  intros Hw Hsorted j u v Hj Hu Huv Hv.
  assert (Hstep : forall k, cp M j <= k -> S k < cp M (S j) -> nth k (rowind M) 0 < nth (S k) (rowind M) 0).
  { intros k Hk1 Hk2. unfold sorted_colsb in Hsorted. rewrite forallb_forall in Hsorted. specialize (Hsorted j ltac:(apply in_seq; lia)).
    rewrite forallb_forall in Hsorted. specialize (Hsorted k ltac:(apply in_seq; unfold clen; lia)).
    apply orb_true_iff in Hsorted as [H|H]; [apply Nat.eqb_eq in H; lia|now apply Nat.ltb_lt in H]. }
  induction Huv as [|v' Huv IH]; [apply Hstep; lia|]. specialize (IH ltac:(lia)). specialize (Hstep v' ltac:(lia) Hv). lia.
Qed.

Lemma csc_get_sorted (M : csc F) l t : wf_csc M = true -> sorted_colsb M = true -> l < ncols M -> t < clen M l ->
  csc_get M (nth (cp M l + t) (rowind M) 0) l = nth (cp M l + t) (vals M) 0%Qc.
Proof.
  intros Hw Hs Hl Ht. apply (csc_get_at M _ l t); auto. intros i Hi Ne E.
  assert (EcS : cp M (S l) = cp M l + clen M l) by (apply cp_S; auto).
  destruct (Nat.lt_ge_cases i t).
  - pose proof (sorted_strict M Hw Hs l (cp M l + i) (cp M l + t) Hl ltac:(lia) ltac:(lia) ltac:(lia)). lia.
  - pose proof (sorted_strict M Hw Hs l (cp M l + t) (cp M l + i) Hl ltac:(lia) ltac:(lia) ltac:(lia)). lia.
Qed.

(* ================================================================ the two eliminated-one-block modes, generically:
   P (n x n upper), XT (n x rx, the eliminated block transposed: AT resp. GT), RT (n x r, the border: GT resp. AT) *)
Section Elim.
Variable d : sdata.
Hypothesis Hwf : wf_sdata d.
Local Notation n := (sd_n d).
Local Notation P := (sd_P d).
Hypothesis Hup : upper_only P = true.
Hypothesis Hsorted : sorted_colsb P = true.
Variables (XT RT : csc F) (rx r : nat).
Hypothesis HwX : wf_csc XT = true.
Hypothesis HnX : nrows XT = n.
Hypothesis HcX : ncols XT = rx.
Hypothesis HwR : wf_csc RT = true.
Hypothesis HnR : nrows RT = n.
Hypothesis HcR : ncols RT = r.
Hypothesis HsR : sorted_colsb RT = true.
Local Notation N := (n + r).

(* columns of the top left block for the cached transpose X *)
Definition kcE (X : csc F) : nat -> list nat := tl_col n P (prod_upper_pattern X XT).
Definition ecE (X : csc F) : nat -> list nat := ecols n (kcE X) RT.
Definition XXof (X : csc F) (cx : Vec) : csc F := csc_set_vals (prod_upper_pattern X XT) cx.
Lemma XXof_eq X cx : XXof X cx = csc_set_vals (csc_of_cols n (prod_col X XT) (fun _ _ => 0%Qc)) cx.
Proof. unfold XXof. now rewrite (pp_eq X XT n HnX). Qed.

Lemma pp_cols X j : j < n -> col_rows (prod_upper_pattern X XT) j = prod_col X XT j.
Proof.
  intros Hj. rewrite (pp_eq X XT n HnX).
  apply oc_col_rows; auto.
  intros j0 i Hj0 H. apply prod_col_le in H. lia.
Qed.
Lemma kcE_in X j i : j < n -> In i (kcE X j) <-> i < n /\ (In i (col_rows P j) \/ i = j \/ In i (prod_col X XT j)).
Proof.
  intros Hj. unfold kcE, tl_col. rewrite filter_In, in_seq, !orb_true_iff, !memb_In, Nat.eqb_eq, pp_cols by auto. intuition lia.
Qed.
Lemma kcE_inc X j : inc (kcE X j). Proof. apply inc_filter_seq. Qed.
Lemma kcE_diag X j : j < n -> In j (kcE X j). Proof. intros Hj. apply kcE_in; auto. Qed.
Lemma kcE_le X j i : j < n -> In i (kcE X j) -> i <= j.
Proof.
  intros Hj H. destruct Hwf as (HwP & _ & HcP & _). apply kcE_in in H as [_ [H|[H|H]]]; auto; try lia.
  - apply (col_rows_In P HwP j _ ltac:(lia)) in H as (i0 & Hi0 & <-).
    unfold upper_only in Hup. rewrite forallb_forall in Hup. specialize (Hup j ltac:(apply in_seq; lia)). rewrite forallb_forall in Hup.
    apply Nat.leb_le. apply Hup. apply in_seq. fold (cp P j) (cp P (S j)). unfold clen in Hi0. lia.
  - now apply prod_col_le in H.
Qed.
Lemma srcP_E X : src_ok n (kcE X) P.
Proof.
  pose proof Hwf as (HwP & HrP & HcP & _). split; auto. split; auto. split.
  - intros j u v Hj. apply (sorted_strict P HwP Hsorted j u v). lia.
  - intros j u Hj Hu. apply kcE_in; auto. split.
    + rewrite <- HrP. apply wf_rows; auto. pose proof (cp_le_nnz P HwP (S j) ltac:(lia)). unfold nnz in *. lia.
    + left. apply (col_rows_In P HwP j _ ltac:(lia)). exists (u - cp P j). split; [unfold clen; lia|]. f_equal. lia.
Qed.
Lemma srcX_E X cx : length cx = coff (prod_col X XT) n -> src_ok n (kcE X) (XXof X cx).
Proof.
  intros L. rewrite XXof_eq. apply ocv_src_ok; auto.
  - intros; apply prod_col_inc.
  - intros j i Hj H. apply prod_col_le in H. lia.
  - intros j i Hj H. apply kcE_in; auto. split; [apply prod_col_le in H; lia|tauto].
Qed.
Lemma RT_strict : forall l u v, l < r -> cp RT l <= u -> u < v -> v < cp RT (S l) -> nth u (rowind RT) 0 < nth v (rowind RT) 0.
Proof. intros l u v Hl. apply (sorted_strict RT HwR HsR l u v). lia. Qed.

Lemma ecE_inc X c : c < N -> inc (ecE X c).
Proof. intros. eapply ec_inc; eauto using RT_strict. intros; apply kcE_inc. Qed.
Lemma ecE_le X c i : c < N -> In i (ecE X c) -> i <= c.
Proof. intros Hc. eapply ec_le; eauto. intros; eapply kcE_le; eauto. Qed.
Lemma ecE_diag X c : c < N -> In c (ecE X c).
Proof. intros Hc. eapply ec_diag; eauto. intros; now apply kcE_diag. Qed.
Lemma offE_lo X c : c <= n -> coff (ecE X) c = coff (kcE X) c.
Proof. intros; eapply off_lo; eauto. Qed.
Lemma ecE_lo X c : c < n -> ecE X c = kcE X c.
Proof. intros; eapply ec_lo; eauto. Qed.

(* ---- the entry function of a bordered matrix and what a value array on the pattern denotes ---- *)
Definition Kgen (TLv : nat -> nat -> F) (Dv : nat -> F) (i j : nat) : F :=
  if j <? n then TLv i j else if i <? n then csc_get RT i (j - n) else if i =? j then Dv (j - n) else 0%Qc.

Lemma RT_get_out l i : l < r -> ~ In i (col_rows RT l) -> csc_get RT i l = 0%Qc.
Proof. intros Hl H. apply csc_get_zero. intros t Ht E. apply H. apply (col_rows_In RT HwR l i ltac:(lia)). eauto. Qed.

Theorem gen_denotes X TLv Dv (kx : Vec) : length kx = coff (ecE X) N ->
  (forall c t, c < N -> t < length (ecE X c) -> nth (coff (ecE X) c + t) kx 0%Qc = Kgen TLv Dv (nth t (ecE X c) 0) c) ->
  (forall i j, j < n -> i <= j -> ~ In i (kcE X j) -> TLv i j = 0%Qc) ->
  let K := mkcsc N N (colptr (csc_of_cols N (ecE X) (fun _ _ => 0%Qc))) (rowind (csc_of_cols N (ecE X) (fun _ _ => 0%Qc))) kx in
  wf_csc K = true /\ upper_only K = true /\ diag_is_last K /\
  forall i j, i <= j -> j < N -> csc_get K i j = Kgen TLv Dv i j.
Proof.
  intros Lkx Hv Hout K.
  change K with (csc_set_vals (csc_of_cols N (ecE X) (fun _ _ => 0%Qc)) kx).
  assert (Gin : forall j t, j < N -> t < length (ecE X j) ->
            csc_get (csc_set_vals (csc_of_cols N (ecE X) (fun _ _ => 0%Qc)) kx) (nth t (ecE X j) 0) j = nth (coff (ecE X) j + t) kx 0%Qc)
    by (intros; eapply dl_get_in; eauto using ecE_inc, ecE_le, ecE_diag).
  assert (Gout : forall j i, j < N -> ~ In i (ecE X j) -> csc_get (csc_set_vals (csc_of_cols N (ecE X) (fun _ _ => 0%Qc)) kx) i j = 0%Qc)
    by (intros; eapply dl_get_out; eauto using ecE_inc, ecE_le, ecE_diag).
  split; [eapply dl_wf; eauto using ecE_inc, ecE_le, ecE_diag|].
  split; [eapply dl_upper; eauto using ecE_inc, ecE_le, ecE_diag|].
  split; [eapply dl_diag_last; eauto using ecE_inc, ecE_le, ecE_diag|].
  intros i j Hij Hj.
  destruct (in_dec Nat.eq_dec i (ecE X j)) as [Hin|Hno].
  - destruct (In_pos _ j i Hin) as (t & Ht & <-). rewrite Gin by auto. now apply Hv.
  - rewrite Gout by auto. symmetry. unfold Kgen.
    assert (Hne : i <> j) by (intros ->; apply Hno; now apply ecE_diag).
    destruct (Nat.ltb_spec j n) as [Lj|Gj].
    + apply Hout; auto. rewrite <- ecE_lo by auto. exact Hno.
    + destruct (Nat.ltb_spec i n) as [Li|Gi].
      * apply RT_get_out; [lia|]. intros H. apply Hno. unfold ecE. replace j with (n + (j - n)) by lia.
        eapply ec_in_hi; eauto. lia.
      * destruct (Nat.eqb_spec i j); [contradiction|reflexivity].
Qed.

(* ---- init_workspace: transpose + unweighted product ---- *)
Lemma ws_core : exists X cx,
  csc_transpose XT = Ok X /\
  scatter_product X XT (prod_upper_pattern X XT) None (repeat 0%Qc (ncols X)) = Ok (csc_set_vals (prod_upper_pattern X XT) cx, repeat 0%Qc n) /\
  cache_ok n rx XT X /\ pvals n X XT rx None cx.
Proof.
  destruct (csc_transpose_ok XT n rx HwX HnX HcX) as (X & EX & CX). exists X.
  pose proof CX as (_ & HnA & _). rewrite HnA.
  destruct (scatter_cache_ok n rx XT X None (vals (prod_upper_pattern X XT)) HwX HnX HcX CX I) as (cx & E1 & V1).
  { apply (vals_len _ (pp_wf X XT n rx HnA (proj1 (proj2 (proj2 CX))) HcX HnX)). }
  change (csc_set_vals (prod_upper_pattern X XT) (vals (prod_upper_pattern X XT))) with (prod_upper_pattern X XT) in E1.
  exists cx. auto.
Qed.

(* ---- create_kkt_matrix: [assemble] on the sum pattern ---- *)
Definition tlval (XX : csc F) (rho : F) (c : option F) (i j : nat) : F :=
  (csc_get P i j + (if i =? j then rho else 0) + match c with None => csc_get XX i j | Some c => c * csc_get XX i j end)%Qc.

Theorem create_core X cx rho c dval : length cx = coff (prod_col X XT) n ->
  exists kx p2k x2k r2k,
    assemble n N P (XXof X cx) (tl_sum n P (XXof X cx) rho c) RT dval
      = Ok (mkcsc N N (colptr (csc_of_cols N (ecE X) (fun _ _ => 0%Qc))) (rowind (csc_of_cols N (ecE X) (fun _ _ => 0%Qc))) kx, p2k, x2k, r2k) /\
    length kx = coff (ecE X) N /\
    (forall cc t, cc < N -> t < length (ecE X cc) ->
       nth (coff (ecE X) cc + t) kx 0%Qc = Kgen (tlval (XXof X cx) rho c) (fun _ => dval) (nth t (ecE X cc) 0) cc) /\
    map_ok n (kcE X) P p2k /\ map_ok n (kcE X) (XXof X cx) x2k /\
    length r2k = nnz RT /\ (forall l i, l < r -> i < clen RT l -> nth (cp RT l + i) r2k 0 = coff (ecE X) (n + l) + i).
Proof.
  intros Lcx.
  change (tl_sum n P (XXof X cx) rho c) with (csc_of_cols n (kcE X) (tlval (XXof X cx) rho c)).
  destruct (assemble_ok n r (kcE X) (tlval (XXof X cx) rho c) RT dval (fun j _ => kcE_inc X j) HwR HnR HcR P (XXof X cx) (srcP_E X) (srcX_E X cx Lcx))
    as (kx & p2k & x2k & r2k & E & Lkx & Hv & MP & MX & Lr & Hr).
  exists kx, p2k, x2k, r2k. split; [exact E|]. split; [exact Lkx|]. split; [|auto].
  intros cc t Hc Ht. fold (ecE X) in *. rewrite Hv by auto. unfold evals, Kgen.
  destruct (Nat.ltb_spec cc n) as [Lc|Gc].
  - now rewrite ecE_lo by auto.
  - set (l := cc - n). assert (Hl : l < r) by (unfold l; lia). assert (Ecc : cc = n + l) by (unfold l; lia).
    assert (Ekl : length (ecE X cc) = S (clen RT l)) by (rewrite Ecc; eapply ec_len_hi; eauto).
    destruct (Nat.ltb_spec t (clen RT l)) as [Lt|Gt].
    + assert (Er : nth t (ecE X cc) 0 = nth (cp RT l + t) (rowind RT) 0) by (rewrite Ecc; eapply ec_nth_hi; eauto).
      rewrite Er. assert (Hrow : nth (cp RT l + t) (rowind RT) 0 < n).
      { eapply RT_row_lt; eauto. assert (cp RT (S l) = cp RT l + clen RT l) by (apply cp_S; auto; lia). lia. }
      destruct (Nat.ltb_spec (nth (cp RT l + t) (rowind RT) 0) n); [|lia].
      symmetry. apply csc_get_sorted; auto; lia.
    + assert (Et : t = clen RT l) by lia. assert (Er : nth t (ecE X cc) 0 = cc) by (rewrite Et, Ecc; eapply ec_nth_last; eauto).
      rewrite Er. destruct (Nat.ltb_spec cc n); [lia|]. now rewrite Nat.eqb_refl.
Qed.
Lemma tlval_out X cx rho c : length cx = coff (prod_col X XT) n ->
  forall i j, j < n -> i <= j -> ~ In i (kcE X j) -> tlval (XXof X cx) rho c i j = 0%Qc.
Proof.
  intros L i j Hj Hij Hno. pose proof Hwf as (HwP & _ & HcP & _).
  assert (Hne : i <> j) by (intros ->; apply Hno; now apply kcE_diag).
  assert (Z1 : csc_get P i j = 0%Qc).
  { apply csc_get_zero. intros i0 Hi0 E. apply Hno. apply kcE_in; auto. split; [lia|]. left. apply (col_rows_In P HwP j _ ltac:(lia)). eauto. }
  assert (Z2 : csc_get (XXof X cx) i j = 0%Qc).
  { rewrite XXof_eq. apply ocv_get_out; auto;
      first [ now (intros; apply prod_col_inc)
            | now (intros j0 i0 Hj0 H0; apply prod_col_le in H0; lia)
            | intros H; apply Hno; apply kcE_in; auto; split; [lia|tauto] ]. }
  unfold tlval. rewrite Z1, Z2. destruct (Nat.eqb_spec i j); [contradiction|]. destruct c; fring.
Qed.

Lemma XX_get X cx wt i j : cache_ok n rx XT X -> pvals n X XT rx wt cx -> i <= j -> j < n ->
  csc_get (XXof X cx) i j = sum_n rx (fun l => (wt_val wt l * csc_get XT i l * csc_get XT j l)%Qc).
Proof.
  intros CX V Hij Hj. pose proof CX as (HwA & HnA & HrA & _).
  rewrite XXof_eq, (pvals_get n rx X XT wt cx i j) by auto. now apply (prodval_cache n rx XT X wt i j CX).
Qed.

(* the cached product with every stored value multiplied by w *)
Lemma XX_get_scaled X cx (w : F) i j : cache_ok n rx XT X -> pvals n X XT rx None cx -> i <= j -> j < n ->
  csc_get (XXof X (map (fun v : Qc => (v * w)%Qc) cx)) i j = (sum_n rx (fun l => (csc_get XT i l * csc_get XT j l)%Qc) * w)%Qc.
Proof.
  intros CX VX Hij Hj. pose proof CX as (HwA & HnA & HrA & _).
  pose proof (pvals_len n X XT rx None cx HnX VX) as Lcx.
  assert (Lcx' : length (map (fun v : Qc => (v * w)%Qc) cx) = coff (prod_col X XT) n) by now rewrite map_length.
  assert (Hrow : forall j0 r0, j0 < n -> In r0 (prod_col X XT j0) -> r0 < n) by (intros j0 r0 Hj0 H0; apply prod_col_le in H0; lia).
  rewrite XXof_eq.
  destruct (in_dec Nat.eq_dec i (prod_col X XT j)) as [Hin|Hout].
  - destruct (In_pos _ j i Hin) as (t & Ht & <-).
    rewrite (ocv_get_in n (prod_col X XT) (fun j _ => prod_col_inc X XT j) _ Lcx' j t Hj Ht).
    rewrite (nth_indep _ 0%Qc ((fun v : Qc => (v * w)%Qc) 0%Qc)).
    2:{ rewrite Lcx'. apply (off_lt (coff (prod_col X XT)) (fun j => length (prod_col X XT j)) n); auto. }
    rewrite (map_nth (fun v : Qc => (v * w)%Qc)). cbv beta. f_equal.
    etransitivity; [symmetry; exact (ocv_get_in n (prod_col X XT) (fun j _ => prod_col_inc X XT j) cx Lcx j t Hj Ht)|].
    rewrite (pvals_get n rx X XT None cx _ j) by auto. rewrite (prodval_cache n rx XT X None _ j CX Hj).
    apply sum_n_ext. intros l Hl. cbn [wt_val]. fring.
  - rewrite (ocv_get_out n (prod_col X XT) _ Lcx' j i Hj Hout).
    assert (Z : prodval X XT rx None i j = 0%Qc) by (apply (prodval_out X XT n rx); auto).
    rewrite (prodval_cache n rx XT X None i j CX Hj) in Z.
    rewrite (sum_n_ext rx _ (fun l => (wt_val None l * csc_get XT i l * csc_get XT j l)%Qc)) by (intros; cbn [wt_val]; fring).
    rewrite Z. fring.
Qed.

(* index maps: in range and injective *)
Lemma map_range_inj X (S0 : csc F) mp : src_ok n (kcE X) S0 -> map_ok n (kcE X) S0 mp ->
  (forall k, k < nnz S0 -> nth k mp 0 < coff (kcE X) n) /\
  (forall k k', k < nnz S0 -> k' < nnz S0 -> nth k mp 0 = nth k' mp 0 -> k = k').
Proof.
  intros (Hw & Hc & Hs & _) [_ Hm]. split.
  - intros k Hk. destruct (pos_decomp S0 Hw k Hk) as (j & u & Hj & Hu & ->). rewrite Hc in Hj.
    destruct (Hm j (cp S0 j + u) Hj) as (t & Ht & _ & ->). { rewrite (cp_S S0 Hw j) by lia. lia. }
    apply (off_lt (coff (kcE X)) (fun j => length (kcE X j)) n); auto; lia.
  - intros k k' Hk Hk' E.
    destruct (pos_decomp S0 Hw k Hk) as (j & u & Hj & Hu & ->). destruct (pos_decomp S0 Hw k' Hk') as (j' & u' & Hj' & Hu' & ->).
    rewrite Hc in Hj, Hj'.
    assert (E1 : cp S0 (S j) = cp S0 j + clen S0 j) by (apply cp_S; auto; lia).
    assert (E2 : cp S0 (S j') = cp S0 j' + clen S0 j') by (apply cp_S; auto; lia).
    destruct (Hm j (cp S0 j + u) Hj ltac:(lia)) as (t & Ht & Er & Em). destruct (Hm j' (cp S0 j' + u') Hj' ltac:(lia)) as (t' & Ht' & Er' & Em').
    rewrite Em, Em' in E. apply (off_unique (coff (kcE X)) (fun j => length (kcE X j)) n) in E; auto. destruct E as [-> ->].
    f_equal. destruct (Nat.lt_trichotomy u u') as [L|[Eq|L]]; auto.
    + pose proof (Hs j' (cp S0 j' + u) (cp S0 j' + u') Hj' ltac:(lia) ltac:(lia) ltac:(lia)). rewrite <- Er, <- Er' in H. lia.
    + pose proof (Hs j' (cp S0 j' + u') (cp S0 j' + u) Hj' ltac:(lia) ltac:(lia) ltac:(lia)). rewrite <- Er, <- Er' in H. lia.
Qed.
Lemma rmap_range_inj X r2k : length r2k = nnz RT ->
  (forall l i, l < r -> i < clen RT l -> nth (cp RT l + i) r2k 0 = coff (ecE X) (n + l) + i) ->
  (forall k, k < nnz RT -> coff (kcE X) n <= nth k r2k 0 < coff (ecE X) N) /\
  (forall k k', k < nnz RT -> k' < nnz RT -> nth k r2k 0 = nth k' r2k 0 -> k = k').
Proof.
  intros _ Hr.
  assert (Hlen : forall l, l < r -> length (ecE X (n + l)) = S (clen RT l)) by (intros; eapply ec_len_hi; eauto).
  split.
  - intros k Hk. destruct (pos_decomp RT HwR k Hk) as (l & i & Hl & Hi & ->). rewrite HcR in Hl. rewrite Hr by auto.
    rewrite <- offE_lo by lia. split.
    + assert (coff (ecE X) n <= coff (ecE X) (n + l)) by (apply coff_mono; lia). lia.
    + apply (off_lt (coff (ecE X)) (fun j => length (ecE X j)) N); auto; try lia. rewrite Hlen by auto. lia.
  - intros k k' Hk Hk' E.
    destruct (pos_decomp RT HwR k Hk) as (l & i & Hl & Hi & ->). destruct (pos_decomp RT HwR k' Hk') as (l' & i' & Hl' & Hi' & ->).
    rewrite HcR in Hl, Hl'. rewrite !Hr in E by auto.
    apply (off_unique (coff (ecE X)) (fun j => length (ecE X j)) N) in E; auto; try lia; try (rewrite Hlen by auto; lia).
    destruct E as [E1 ->]. replace l' with l by lia. reflexivity.
Qed.
(* ---- the passes of update_kkt_*_scalings on the bordered pattern (identity ordering) ---- *)
Section Passes.
Variable X : csc F.
Local Notation kc := (kcE X).
Local Notation ec := (ecE X).
Local Notation off := (coff (ecE X)).
Local Notation L := (coff (ecE X) (n + r)).
Local Notation E0 := (csc_of_cols (n + r) (ecE X) (fun _ _ => 0%Qc)).
Local Notation dp := (dpE (ecE X)).

Let Hinc c : c < N -> inc (ec c). Proof. apply ecE_inc. Qed.
Let Hle c i : c < N -> In i (ec c) -> i <= c. Proof. apply ecE_le. Qed.
Let Hdg c : c < N -> In c (ec c). Proof. apply ecE_diag. Qed.
Let Olo c : c <= n -> off c = coff kc c. Proof. apply offE_lo. Qed.
Let Elo c : c < n -> ec c = kc c. Proof. apply ecE_lo. Qed.
Let Hlen l : l < r -> length (ec (n + l)) = S (clen RT l). Proof. intros; eapply ec_len_hi; eauto. Qed.
Let off_ltx c i c' : c < c' -> c' <= N -> i < length (ec c) -> off c + i < off c'.
Proof. intros H1 H2 H3. apply (off_lt off (fun c => length (ec c)) N); auto. Qed.

Lemma dposE col : col < N -> dpos (seq 0 N) (colptr E0) col = Ok (dp col).
Proof. intros; eapply dpos_E; eauto. Qed.
Lemma dpE_ltE col : col < N -> dp col < L.
Proof. intros; eapply dpE_lt; eauto. Qed.
Lemma dpE_injE c c' : c < N -> c' < N -> dp c = dp c' -> c = c'.
Proof. intros; eapply dpE_inj; eauto. Qed.
Lemma dpE_notE j t col : j < N -> t < length (ec j) -> S t <> length (ec j) -> col < N -> dp col <> off j + t.
Proof. intros; eapply dpE_not; eauto. Qed.
Lemma dpE_diagE j t : j < N -> S t = length (ec j) -> off j + t = dp j.
Proof. intros; eapply dpE_diag; eauto. Qed.
Lemma dpE_col j t col : j < N -> t < length (ec j) -> col < N -> dp col = off j + t -> col = j /\ S t = length (ec j).
Proof.
  intros Hj Ht Hc E. destruct (Nat.eq_dec (S t) (length (ec j))) as [Ed|Nd].
  - split; auto. rewrite (dpE_diagE j t Hj Ed) in E. now apply dpE_injE.
  - exfalso. now apply (dpE_notE j t col Hj Ht Nd Hc).
Qed.
Lemma ecE_diag_iff j t : j < N -> t < length (ec j) -> (nth t (ec j) 0 = j <-> S t = length (ec j)).
Proof. intros; eapply dl_diag_iff; eauto. Qed.

(* accumulation through a map of a source of the top left block *)
Lemma add_passE (S0 : csc F) mp (c : option F) (kx0 : Vec) : src_ok n kc S0 -> map_ok n kc S0 mp -> length kx0 = L ->
  exists kx, add_vals mp (seq 0 L) c (vals S0) (nnz S0) kx0 = Ok kx /\ length kx = L /\
    forall cc t, cc < N -> t < length (ec cc) ->
      nth (off cc + t) kx 0%Qc = (nth (off cc + t) kx0 0
         + (if cc <? n then match c with None => 1 | Some c => c end * csc_get S0 (nth t (ec cc) 0%nat) cc else 0))%Qc.
Proof.
  intros HS HM L0. pose proof HS as (Hw & _). pose proof HM as [Lm _].
  destruct (map_range_inj X S0 mp HS HM) as [Hlt _].
  assert (Hn : coff kc n <= L) by (rewrite <- Olo by lia; apply coff_mono; lia).
  destruct (add_vals_ok mp (seq 0 L) c (vals S0) (nnz S0) kx0 L (fun k => nth k mp 0)) as (kx & E & Lk & Hq); auto.
  - intros k Hk. pose proof (Hlt k Hk). rewrite seq_length. split; [lia|]. split; [lia|]. split; [rewrite seq_nth by lia; reflexivity|lia].
  - rewrite (vals_len S0 Hw). lia.
  - exists kx. split; auto. split; auto. intros cc t Hc Ht. rewrite Hq. f_equal.
    destruct (Nat.ltb_spec cc n) as [Lc|Gc].
    + rewrite Olo, Elo by lia. rewrite Elo in Ht by lia.
      rewrite <- (src_sum n kc S0 mp (fun j _ => kcE_inc X j) HS HM _ cc t Lc Ht).
      apply qsum_map_ext. intros k Hk. destruct (_ =? _); [|reflexivity]. destruct c; fring.
    + apply qsum_map_zero. intros k Hk. apply in_seq in Hk. pose proof (Hlt k ltac:(lia)).
      assert (off n <= off cc) by (apply coff_mono; lia). rewrite Olo in H0 by lia.
      destruct (Nat.eqb_spec (nth k mp 0) (off cc + t)); [lia|reflexivity].
Qed.

(* copying the border block through its map *)
Lemma border_passE r2k (kx0 : Vec) : length r2k = nnz RT ->
  (forall l i, l < r -> i < clen RT l -> nth (cp RT l + i) r2k 0 = off (n + l) + i) -> length kx0 = L ->
  exists kx, scatter_vals r2k (seq 0 L) (vals RT) (nnz RT) kx0 = Ok kx /\ length kx = L /\
    forall cc t, cc < N -> t < length (ec cc) ->
      nth (off cc + t) kx 0%Qc = if (n <=? cc) && (t <? clen RT (cc - n)) then nth (cp RT (cc - n) + t) (vals RT) 0%Qc else nth (off cc + t) kx0 0%Qc.
Proof.
  intros Lr Hr L0.
  destruct (rmap_range_inj X r2k Lr Hr) as [Hrg Hinj].
  destruct (scatter_vals_ok r2k (seq 0 L) L (fun k => nth k r2k 0) (nnz RT)) with (src := vals RT) (kx0 := kx0) as (kx & E & Lk & H1 & H2); auto.
  - intros k Hk. pose proof (Hrg k Hk). rewrite seq_length. split; [lia|]. split; [lia|]. rewrite seq_nth by lia. reflexivity.
  - intros k Hk. apply Hrg; auto.
  - rewrite (vals_len RT HwR). lia.
  - exists kx. split; auto. split; auto. intros cc t Hc Ht.
    destruct (Nat.leb_spec n cc) as [Gc|Lc]; cbn [andb].
    + set (l := cc - n). assert (Hl : l < r) by (unfold l; lia). assert (Ecc : cc = n + l) by (unfold l; lia).
      assert (EcS : cp RT (S l) = cp RT l + clen RT l) by (apply cp_S; auto; lia).
      assert (Hnz : cp RT (S l) <= nnz RT) by (apply cp_le_nnz; auto; lia).
      destruct (Nat.ltb_spec t (clen RT l)) as [Lt|Gt].
      * rewrite <- (H1 (cp RT l + t)) by lia. rewrite Hr by auto. now rewrite Ecc.
      * apply H2. intros k Hk E'. destruct (pos_decomp RT HwR k Hk) as (l' & i' & Hl' & Hi' & ->). rewrite HcR in Hl'.
        rewrite Hr in E' by auto. rewrite Ecc in E', Ht.
        apply (off_unique off (fun j => length (ec j)) N) in E'; auto; try lia; try (rewrite Hlen by auto; lia).
        destruct E' as [E1 E2]. assert (El : l' = l) by lia. rewrite El in Hi'. lia.
    + apply H2. intros k Hk E'. pose proof (Hrg k Hk) as [B1 _]. rewrite <- Olo in B1 by lia.
      assert (off cc + t < off n) by (apply off_ltx; auto; lia). lia.
Qed.

(* update_kkt_cost_scalings: zero, add P through its map, add rho on the first n diagonals *)
Lemma cost_passE (k : ekkt) c : ek_sc k = c -> ek_pinv k = seq 0 N -> ek_PKi k = seq 0 L -> ek_kp k = colptr E0 ->
  map_ok n kc P (ek_P2K k) -> length (ek_kx k) = L ->
  exists kx, e_cost_scalings d k = Ok kx /\ length kx = L /\
    forall cc t, cc < N -> t < length (ec cc) ->
      nth (off cc + t) kx 0%Qc = if cc <? n then (csc_get P (nth t (ec cc) 0%nat) cc + (if nth t (ec cc) 0%nat =? cc then sc_rho c else 0))%Qc else 0%Qc.
Proof.
  intros Ec Epinv Epki Ekp MP Lkx. pose proof Hwf as (HwP & HrP & HcP & _).
  unfold e_cost_scalings. rewrite Lkx, Epki, Epinv, Ekp, Ec.
  rewrite (for_cols_flat P _ HwP).
  change (for_range 0 (nnz P) (fun q kx => do q0 <- get (ek_P2K k) q ;; do qq <- get (seq 0 L) q0 ;; do v <- get (vals P) q ;; do old <- get kx qq ;; upd kx qq (old + v)%Qc) (repeat 0%Qc L))
    with (add_vals (ek_P2K k) (seq 0 L) None (vals P) (nnz P) (repeat 0%Qc L)).
  destruct (add_passE P (ek_P2K k) None (repeat 0%Qc L) (srcP_E X) MP (repeat_length _ _)) as (kx1 & E1 & Lk1 & H1).
  rewrite E1. cbn [bind].
  destruct (diag_add_ok (seq 0 N) (colptr E0) n L dp (sc_rho c) kx1) as (kx2 & E2 & Lk2 & H2 & H2'); auto.
  - intros col Hc. apply dposE. lia.
  - intros col Hc. apply dpE_ltE. lia.
  - intros c1 c2 H3 H4. apply dpE_injE; lia.
  - rewrite E2. exists kx2. split; auto. split; auto. intros cc t Hc Ht.
    destruct (Nat.eq_dec (S t) (length (ec cc))) as [Ed|Nd].
    + assert (Ei : nth t (ec cc) 0 = cc) by (apply ecE_diag_iff; auto).
      rewrite (dpE_diagE cc t Hc Ed). destruct (Nat.ltb_spec cc n) as [Lc|Gc].
      * rewrite H2 by auto. rewrite <- (dpE_diagE cc t Hc Ed). rewrite H1 by auto. rewrite nth_repeat, Ei, Nat.eqb_refl.
        destruct (Nat.ltb_spec cc n); [|lia]. fring.
      * rewrite H2'. 2:{ intros col Hcol E. apply dpE_injE in E; lia. }
        rewrite <- (dpE_diagE cc t Hc Ed). rewrite H1 by auto. rewrite nth_repeat. destruct (Nat.ltb_spec cc n); [lia|]. fring.
    + assert (Ni : nth t (ec cc) 0 <> cc) by (intros E; apply ecE_diag_iff in E; auto).
      rewrite H2'. 2:{ intros col Hcol. apply dpE_notE; auto; lia. }
      rewrite H1 by auto. rewrite nth_repeat. destruct (Nat.ltb_spec cc n) as [Lc|Gc]; [|fring].
      destruct (Nat.eqb_spec (nth t (ec cc) 0) cc); [contradiction|]. fring.
Qed.

(* update_kkt_box_scalings *)
Lemma box_passE (k : ekkt) c (kx0 : Vec) : ek_sc k = c -> ek_pinv k = seq 0 N -> ek_kp k = colptr E0 -> scal_ok d c -> length kx0 = L ->
  exists kx, e_box_scalings d k kx0 = Ok kx /\ length kx = L /\
    forall cc t, cc < N -> t < length (ec cc) ->
      nth (off cc + t) kx 0%Qc = (nth (off cc + t) kx0 0 + (if (cc <? n) && (nth t (ec cc) 0%nat =? cc) then a_bdiag (sys_sparse d c) cc else 0))%Qc.
Proof.
  intros Ec Epinv Ekp Hsc L0. destruct Hsc as (S1 & S2 & B1 & B2 & B3 & B4 & B5 & B6 & B7 & B8 & I1 & I2 & Z1 & Z2).
  unfold e_box_scalings. rewrite Epinv, Ekp, Ec.
  destruct (box_scalings_ok (seq 0 N) (colptr E0) N L dp dposE dpE_ltE dpE_injE
              n (sd_nlb d) (sd_lbidx d) (sd_lbs d) (sc_z_lb_inv c) (sc_s_lb c) (sc_delta c) kx0) as (kx5 & E6 & Lk5 & H5 & H5'); auto; try lia.
  unfold Vec, F in *. rewrite E6. cbn [bind].
  destruct (box_scalings_ok (seq 0 N) (colptr E0) N L dp dposE dpE_ltE dpE_injE
              n (sd_nub d) (sd_ubidx d) (sd_ubs d) (sc_z_ub_inv c) (sc_s_ub c) (sc_delta c) kx5) as (kx6 & E7 & Lk6 & H6 & H6'); auto; try lia.
  unfold Vec, F in *. rewrite E7. exists kx6. split; auto. split; auto. intros cc t Hc Ht.
  destruct (Nat.eq_dec (S t) (length (ec cc))) as [Ed|Nd].
  - assert (Ei : nth t (ec cc) 0 = cc) by (apply ecE_diag_iff; auto). rewrite Ei, Nat.eqb_refl.
    rewrite (dpE_diagE cc t Hc Ed). destruct (Nat.ltb_spec cc n) as [Lc|Gc]; cbn [andb].
    + rewrite H6, H5 by auto. rewrite <- (box_sum_a_bdiag d c cc). unfold box_sum. fring.
    + rewrite H6', H5'; [fring| |]; intros col Hcol E; apply dpE_injE in E; lia.
  - assert (Ni : nth t (ec cc) 0 <> cc) by (intros E; apply ecE_diag_iff in E; auto).
    rewrite H6', H5'; try (intros col Hcol; apply dpE_notE; auto; lia).
    destruct (Nat.eqb_spec (nth t (ec cc) 0) cc); [contradiction|]. rewrite andb_false_r. fring.
Qed.
(* ---- the static invariant and the canonical form, both modes ---- *)
Lemma ecE_len_hi l : l < r -> length (ec (n + l)) = S (clen RT l). Proof. intros; eapply ec_len_hi; eauto. Qed.
Lemma ecE_nth_hi l t : l < r -> t < clen RT l -> nth t (ec (n + l)) 0 = nth (cp RT l + t) (rowind RT) 0. Proof. intros; eapply ec_nth_hi; eauto. Qed.
Lemma ecE_nth_last l : l < r -> nth (clen RT l) (ec (n + l)) 0 = n + l. Proof. intros; eapply ec_nth_last; eauto. Qed.
Lemma RT_row_ltE l t : l < r -> t < clen RT l -> nth (cp RT l + t) (rowind RT) 0 < n.
Proof. intros Hl Ht. eapply RT_row_lt; eauto. assert (cp RT (S l) = cp RT l + clen RT l) by (apply cp_S; auto; lia). lia. Qed.

Lemma prod_out wt i j : cache_ok n rx XT X -> j < n -> i <= j -> ~ In i (prod_col X XT j) ->
  sum_n rx (fun l => (wt_val wt l * csc_get XT i l * csc_get XT j l)%Qc) = 0%Qc.
Proof.
  intros CX Hj Hij Hno. pose proof CX as (HwA & HnA & HrA & _).
  rewrite <- (prodval_cache n rx XT X wt i j CX Hj). apply (prodval_out X XT n rx); auto.
Qed.

(* position classes of the bordered pattern *)
Lemma pos_border cc t : n <= cc -> cc < N -> t < clen RT (cc - n) ->
  nth t (ec cc) 0 < n /\ S t <> length (ec cc) /\ csc_get RT (nth t (ec cc) 0) (cc - n) = nth (cp RT (cc - n) + t) (vals RT) 0%Qc.
Proof.
  intros Gc Hc Ht. set (l := cc - n) in *. assert (Hl : l < r) by (unfold l; lia). assert (Ecc : cc = n + l) by (unfold l; lia).
  rewrite Ecc, ecE_nth_hi, ecE_len_hi by auto. split; [now apply RT_row_ltE|]. split; [lia|].
  apply csc_get_sorted; auto; lia.
Qed.
Lemma pos_bdiag cc t : n <= cc -> cc < N -> t < length (ec cc) -> clen RT (cc - n) <= t -> nth t (ec cc) 0 = cc /\ S t = length (ec cc).
Proof.
  intros Gc Hc Ht Gt. set (l := cc - n) in *. assert (Hl : l < r) by (unfold l; lia). assert (Ecc : cc = n + l) by (unfold l; lia).
  rewrite Ecc in *. rewrite ecE_len_hi in * by auto. assert (Et : t = clen RT l) by lia. rewrite Et. split; [now apply ecE_nth_last|reflexivity].
Qed.

Definition e_static (exact : bool) (k : ekkt) : Prop :=
  exists cx,
    ek_X k = X /\ cache_ok n rx XT X /\ ek_XX k = XXof X cx /\ length cx = coff (prod_col X XT) n /\
    (exact = true -> pvals n X XT rx None cx) /\
    ek_pinv k = seq 0 N /\ ek_PKi k = seq 0 L /\ ek_kp k = colptr E0 /\ ek_ki k = rowind E0 /\
    map_ok n kc P (ek_P2K k) /\ map_ok n kc (XXof X cx) (ek_X2K k) /\
    length (ek_R2K k) = nnz RT /\ (forall l i, l < r -> i < clen RT l -> nth (cp RT l + i) (ek_R2K k) 0 = off (n + l) + i) /\
    ek_tmp k = repeat 0%Qc n /\ length (ek_kx k) = L.

Definition e_form (exact : bool) (TLv : nat -> nat -> F) (Dv : nat -> F) (c : scal) (k : ekkt) : Prop :=
  e_static exact k /\ ek_sc k = c /\
  forall cc t, cc < N -> t < length (ec cc) -> nth (off cc + t) (ek_kx k) 0%Qc = Kgen TLv Dv (nth t (ec cc) 0) cc.

Theorem e_form_denotes exact TLv Dv c k : e_form exact TLv Dv c k ->
  (forall i j, j < n -> i <= j -> ~ In i (kc j) -> TLv i j = 0%Qc) ->
  let K := mkcsc N N (ek_kp k) (ek_ki k) (ek_kx k) in
  wf_csc K = true /\ upper_only K = true /\ diag_is_last K /\
  forall i j, i <= j -> j < N -> csc_get K i j = Kgen TLv Dv i j.
Proof.
  intros ((cx & EX & CX & EXX & Lcx & Vx & Epinv & Epki & Ekp & Eki & MP & MX & Lr & Hr & Etmp & Lkx) & Ec & Hv) Hout. cbv zeta.
  rewrite Ekp, Eki. apply (gen_denotes X TLv Dv (ek_kx k) Lkx Hv Hout).
Qed.

(* the top left entry functions of the two modes (i <= j < n) and their vanishing off the pattern *)
Definition TLgen (c : scal) (coef : F) (wt : option (Vec * Vec * F)) (i j : nat) : F :=
  (csc_get P i j + (if i =? j then sc_rho c + a_bdiag (sys_sparse d c) i else 0)
   + coef * sum_n rx (fun l => (wt_val wt l * csc_get XT i l * csc_get XT j l)%Qc))%Qc.
Lemma TLgen_out c coef wt : cache_ok n rx XT X -> forall i j, j < n -> i <= j -> ~ In i (kc j) -> TLgen c coef wt i j = 0%Qc.
Proof.
  intros CX i j Hj Hij Hno. pose proof Hwf as (HwP & _ & HcP & _).
  assert (Hne : i <> j) by (intros ->; apply Hno; now apply kcE_diag).
  assert (Z1 : csc_get P i j = 0%Qc).
  { apply csc_get_zero. intros i0 Hi0 E. apply Hno. apply kcE_in; auto. split; [lia|]. left. apply (col_rows_In P HwP j _ ltac:(lia)). eauto. }
  unfold TLgen. rewrite Z1, (prod_out wt i j CX Hj Hij).
  - destruct (Nat.eqb_spec i j); [contradiction|]. fring.
  - intros H. apply Hno. apply kcE_in; auto. split; [lia|tauto].
Qed.

(* e_finish_init under the identity ordering: the box pass on the created matrix *)
Lemma finish_init_ok exact rho delta (em : emat) cx (kx0 : Vec) :
  em_K em = mkcsc N N (colptr E0) (rowind E0) kx0 -> length kx0 = L ->
  em_X em = X -> cache_ok n rx XT X -> em_XX em = XXof X cx -> length cx = coff (prod_col X XT) n -> (exact = true -> pvals n X XT rx None cx) ->
  map_ok n kc P (em_P2K em) -> map_ok n kc (XXof X cx) (em_X2K em) ->
  length (em_R2K em) = nnz RT -> (forall l i, l < r -> i < clen RT l -> nth (cp RT l + i) (em_R2K em) 0 = off (n + l) + i) ->
  em_tmp em = repeat 0%Qc n -> scal_ok d (unit_scal d rho delta) ->
  exists k, e_finish_init d N rho delta None em = Ok k /\ e_static exact k /\ ek_sc k = unit_scal d rho delta /\ ek_XX k = em_XX em /\
    forall cc t, cc < N -> t < length (ec cc) ->
      nth (off cc + t) (ek_kx k) 0%Qc = (nth (off cc + t) kx0 0 + (if (cc <? n) && (nth t (ec cc) 0%nat =? cc) then a_bdiag (sys_sparse d (unit_scal d rho delta)) cc else 0))%Qc.
Proof.
  intros EK Lk0 EX CX EXX Lcx Vx MP MX Lr Hr Etmp Hsc.
  destruct (ofcols_nnz N ec (fun _ _ => 0%Qc)) as [Ln _].
  unfold e_finish_init. cbn [bind]. rewrite EK.
  replace (nnz (mkcsc N N (colptr E0) (rowind E0) kx0)) with L by (unfold nnz; cbn [rowind]; now rewrite Ln).
  cbn [colptr rowind vals].
  set (k0 := mkekkt (unit_scal d rho delta) (seq 0 N) (colptr E0) (rowind E0) kx0 (seq 0 L) (em_P2K em) (em_X2K em) (em_R2K em) (em_X em) (em_XX em) (em_tmp em)).
  destruct (box_passE k0 (unit_scal d rho delta) kx0 eq_refl eq_refl eq_refl Hsc Lk0) as (kx & E & Lkx & Hv).
  change (ek_kx k0) with kx0. unfold Vec, F in *. rewrite E. cbn [bind].
  eexists. split; [reflexivity|]. split; [|split; [reflexivity|split; [reflexivity|exact Hv]]].
  exists cx. cbn [ek_set_kx k0 ek_X ek_XX ek_pinv ek_PKi ek_kp ek_ki ek_P2K ek_X2K ek_R2K ek_tmp ek_kx ek_sc]. auto 20.
Qed.
Lemma e_static_set_sc exact k c : e_static exact k -> e_static exact (ek_set_sc k c).
Proof. intros H. destruct k. exact H. Qed.
Lemma e_static_set_kx exact k kx : e_static exact k -> length kx = L -> e_static exact (ek_set_kx k kx).
Proof.
  intros (cx & H) Lk. exists cx. destruct k as [a1 a2 a3 a4 a5 a6 a7 a8 a9 a10 a11 a12]. cbn [ek_set_kx ek_X ek_XX ek_pinv ek_PKi ek_kp ek_ki ek_P2K ek_X2K ek_R2K ek_tmp ek_kx ek_sc] in *.
  intuition.
Qed.

(* ================= KKT_EQ_ELIMINATED: XT = AT, RT = GT ================= *)
Section EqCore.
Hypothesis EXT : sd_AT d = XT.
Hypothesis ERT : sd_GT d = RT.
Hypothesis Er : sd_m d = r.

Definition eq_scal_ok (c : scal) : Prop := scal_ok d c /\ sc_delta c <> 0%Qc.
Definition TLeq (c : scal) : nat -> nat -> F := TLgen c (1 / sc_delta c)%Qc None.
Definition Deq (c : scal) (l : nat) : F := (- nth l (sc_s c) 0 * nth l (sc_z_inv c) 0 - sc_delta c)%Qc.

Theorem eq_refresh_form k : e_static true k -> eq_scal_ok (ek_sc k) ->
  exists k', eq_refresh d k = Ok k' /\ e_form true (TLeq (ek_sc k)) (Deq (ek_sc k)) (ek_sc k) k'.
Proof.
  intros Hst [Hsc Hdnz]. pose proof Hst as (cx & EX & CX & EXX & Lcx & Vx & Epinv & Epki & Ekp & Eki & MP & MX & Lr & Hr & Etmp & Lkx).
  set (c := ek_sc k) in *. pose proof Hsc as (S1 & S2 & _).
  unfold eq_refresh.
  destruct (cost_passE k c eq_refl Epinv Epki Ekp MP Lkx) as (kx1 & E1 & Lk1 & H1). rewrite E1. cbn [bind].
  unfold eq_equality_scalings. fold c. rewrite qdiv_nz by auto. cbn [bind]. rewrite Epki, EXX.
  destruct (add_passE (XXof X cx) (ek_X2K k) (Some (1 / sc_delta c)%Qc) kx1 (srcX_E X cx Lcx) MX Lk1) as (kx2 & E2 & Lk2 & H2).
  change (vals (XXof X cx)) with cx in *. unfold Vec, F in *. rewrite E2. cbn [bind].
  unfold eq_inequality_scaling. fold c. rewrite ERT, Er, Epki, Epinv, Ekp.
  destruct (border_passE (ek_R2K k) kx2 Lr Hr Lk2) as (kx3 & E3 & Lk3 & H3). unfold Vec, F in *. rewrite E3. cbn [bind].
  destruct (inequality_scalings_ok (seq 0 N) (colptr E0) N L dp dposE dpE_ltE dpE_injE n 0 r (sc_s c) (sc_z_inv c) (sc_delta c) kx3)
    as (kx4 & E4 & Lk4 & H4 & H4'); try lia; try (rewrite <- Er; assumption); try assumption.
  unfold Vec, F in *. rewrite E4. cbn [bind].
  destruct (box_passE k c kx4 eq_refl Epinv Ekp Hsc Lk4) as (kx5 & E5 & Lk5 & H5). unfold Vec, F in *. rewrite E5. cbn [bind].
  eexists. split; [reflexivity|]. split; [apply e_static_set_kx; auto|]. split; [destruct k; reflexivity|].
  replace (ek_kx (ek_set_kx k kx5)) with kx5 by (destruct k; reflexivity).
  intros cc t Hc Ht. rewrite H5 by auto. unfold Kgen.
  destruct (Nat.ltb_spec cc n) as [Lc|Gc]; cbn [andb].
  - (* top left block *)
    rewrite H4'. 2:{ intros col Hcol E. apply dpE_col in E; auto; lia. }
    rewrite H3 by auto. destruct (Nat.leb_spec n cc); [lia|]. cbn [andb]. rewrite H2, H1 by auto.
    destruct (Nat.ltb_spec cc n); [|lia].
    assert (Hij : nth t (ec cc) 0 <= cc) by (apply Hle; auto; apply nth_In; auto).
    rewrite (XX_get X cx None _ cc CX (Vx eq_refl) Hij Lc). unfold TLeq, TLgen.
    destruct (Nat.eqb_spec (nth t (ec cc) 0) cc) as [Ei|Ni]; [rewrite Ei|]; fring.
  - destruct (Nat.ltb_spec t (clen RT (cc - n))) as [Lt|Gt].
    + (* border entry *)
      destruct (pos_border cc t Gc Hc Lt) as (Hr1 & Nd & Eg).
      rewrite H4'. 2:{ intros col Hcol E. apply dpE_col in E; auto; lia. }
      rewrite H3 by auto. destruct (Nat.leb_spec n cc); [|lia]. destruct (Nat.ltb_spec t (clen RT (cc - n))); [|lia]. cbn [andb].
      destruct (Nat.ltb_spec (nth t (ec cc) 0) n); [|lia]. rewrite Eg. fring.
    + (* border diagonal *)
      destruct (pos_bdiag cc t Gc Hc Ht Gt) as (Ei & Ed).
      rewrite (dpE_diagE cc t Hc Ed), H4 by lia. rewrite Ei.
      destruct (Nat.ltb_spec cc n); [lia|]. rewrite Nat.eqb_refl. unfold Deq. replace (cc - n - 0) with (cc - n) by lia. fring.
Qed.

Theorem eq_update_scalings_form k rho delta s s_lb s_ub z z_lb z_ub zi zlbi zubi :
  e_static true k ->
  sd_nlb d <= length s_lb -> sd_nlb d <= length z_lb -> sd_nub d <= length s_ub -> sd_nub d <= length z_ub ->
  vinv z = Ok zi -> vinv (head (sd_nlb d) z_lb) = Ok zlbi -> vinv (head (sd_nub d) z_ub) = Ok zubi ->
  let c' := new_scal d (ek_sc k) rho delta s s_lb s_ub zi zlbi zubi in
  eq_scal_ok c' ->
  exists k', eq_update_scalings d k rho delta s s_lb s_ub z z_lb z_ub = Ok k' /\ e_form true (TLeq c') (Deq c') c' k'.
Proof.
  intros Hst L1 L2 L3 L4 E1 E2 E3 c' Hsc. unfold eq_update_scalings, e_new_scal, chk_len.
  destruct (Nat.ltb_spec (length s_lb) (sd_nlb d)) as [?Hy|?Hn]; [lia|]. cbn [bind].
  destruct (Nat.ltb_spec (length z_lb) (sd_nlb d)) as [?Hy|?Hn]; [lia|]. cbn [bind].
  destruct (Nat.ltb_spec (length s_ub) (sd_nub d)) as [?Hy|?Hn]; [lia|]. cbn [bind].
  destruct (Nat.ltb_spec (length z_ub) (sd_nub d)) as [?Hy|?Hn]; [lia|]. cbn [bind].
  rewrite E1, E2, E3. cbn [bind]. fold (new_scal d (ek_sc k) rho delta s s_lb s_ub zi zlbi zubi). fold c'.
  assert (Fsc : ek_sc (ek_set_sc k c') = c') by (destruct k; reflexivity).
  destruct (eq_refresh_form (ek_set_sc k c')) as (k' & E & Hf).
  - now apply e_static_set_sc.
  - now rewrite Fsc.
  - exists k'. split; [exact E|]. now rewrite Fsc in Hf.
Qed.
End EqCore.
(* ================= KKT_INEQ_ELIMINATED: XT = GT, RT = AT ================= *)
Section IneqCore.
Hypothesis EXT : sd_GT d = XT.
Hypothesis ERT : sd_AT d = RT.
Hypothesis Erx : sd_m d = rx.
Hypothesis Er : sd_p d = r.

Definition ineq_scal_ok (c : scal) : Prop :=
  scal_ok d c /\ forall l, l < rx -> (nth l (sc_s c) 0 * nth l (sc_z_inv c) 0 + sc_delta c)%Qc <> 0%Qc.
Definition wtI (c : scal) : option (Vec * Vec * F) := Some (sc_s c, sc_z_inv c, sc_delta c).
Definition TLineq (c : scal) : nat -> nat -> F := TLgen c 1%Qc (wtI c).
Definition Dineq (c : scal) (l : nat) : F := (- sc_delta c)%Qc.

Lemma map_ok_XX cx cx' mp : map_ok n kc (XXof X cx) mp -> map_ok n kc (XXof X cx') mp.
Proof. intros H. exact H. Qed.

Theorem ineq_refresh_form k : e_static false k -> ineq_scal_ok (ek_sc k) ->
  exists k', ineq_refresh d k = Ok k' /\ e_form false (TLineq (ek_sc k)) (Dineq (ek_sc k)) (ek_sc k) k'.
Proof.
  intros Hst [Hsc Hwnz]. pose proof Hst as (cx & EX & CX & EXX & Lcx & Vx & Epinv & Epki & Ekp & Eki & MP & MX & Lr & Hr & Etmp & Lkx).
  set (c := ek_sc k) in *. pose proof Hsc as (S1 & S2 & _).
  unfold ineq_refresh.
  destruct (cost_passE k c eq_refl Epinv Epki Ekp MP Lkx) as (kx1 & E1 & Lk1 & H1). rewrite E1. cbn [bind].
  unfold ineq_equality_scalings. fold c. rewrite ERT, Er, Epki, Epinv, Ekp.
  destruct (border_passE (ek_R2K k) kx1 Lr Hr Lk1) as (kx2 & E2 & Lk2 & H2). unfold Vec, F in *. rewrite E2. cbn [bind].
  destruct (equality_scalings_ok (seq 0 N) (colptr E0) N L dp dposE dpE_ltE dpE_injE n r (sc_delta c) kx2)
    as (kx3 & E3 & Lk3 & H3 & H3'); try lia; try assumption.
  unfold Vec, F in *. rewrite E3. cbn [bind].
  unfold ineq_inequality_scaling. fold c. rewrite EX, EXT, EXX, Etmp, Epki.
  assert (Hwt : wt_ok rx (wtI c)) by (unfold wtI, wt_ok; unfold Vec, F in *; split; [lia|split; [lia|exact Hwnz]]).
  destruct (scatter_cache_ok n rx XT X (wtI c) cx HwX HnX HcX CX Hwt) as (cx' & E4 & V4).
  { transitivity (coff (prod_col X XT) n); [exact Lcx|]. symmetry. unfold nnz. rewrite (pp_eq X XT n HnX). apply (ofcols_nnz n (prod_col X XT) (fun _ _ => 0%Qc)). }
  fold (XXof X cx) in E4. fold (XXof X cx') in E4. unfold wtI in E4. unfold Vec, F in *. rewrite E4. cbn [bind].
  assert (Lcx' : length cx' = coff (prod_col X XT) n) by (apply (pvals_len n X XT rx _ cx' HnX V4)).
  destruct (add_passE (XXof X cx') (ek_X2K k) None kx3 (srcX_E X cx' Lcx') (map_ok_XX cx cx' _ MX) Lk3) as (kx4 & E5 & Lk4 & H4).
  change (vals (XXof X cx')) with cx' in *. unfold Vec, F in *. rewrite E5. cbn [bind].
  assert (Fs : forall k0 G0 t0, ek_sc (ek_set_XX k0 G0 t0) = ek_sc k0 /\ ek_pinv (ek_set_XX k0 G0 t0) = ek_pinv k0 /\ ek_kp (ek_set_XX k0 G0 t0) = ek_kp k0)
    by (intros [] ? ?; cbn; repeat split).
  destruct (Fs k (XXof X cx') (repeat 0%Qc n)) as (F1 & F2 & F3).
  assert (Ebox : e_box_scalings d k kx4 = e_box_scalings d (ek_set_XX k (XXof X cx') (repeat 0%Qc n)) kx4) by (destruct k; reflexivity).
  destruct (box_passE k c kx4 eq_refl Epinv Ekp Hsc Lk4) as (kx5 & E6 & Lk5 & H5). unfold Vec, F in *. rewrite E6. cbn [bind].
  eexists. split; [reflexivity|]. split; [|split; [destruct k; reflexivity|]].
  { exists cx'. destruct k as [a1 a2 a3 a4 a5 a6 a7 a8 a9 a10 a11 a12].
    cbn [ek_set_kx ek_set_XX ek_X ek_XX ek_pinv ek_PKi ek_kp ek_ki ek_P2K ek_X2K ek_R2K ek_tmp ek_kx ek_sc] in *.
    split; [exact EX|]. split; [exact CX|]. split; [reflexivity|]. split; [exact Lcx'|]. split; [discriminate|]. auto 20. }
  replace (ek_kx (ek_set_kx (ek_set_XX k (XXof X cx') (repeat 0%Qc n)) kx5)) with kx5 by (destruct k; reflexivity).
  intros cc t Hc Ht. rewrite H5, H4 by auto. unfold Kgen.
  destruct (Nat.ltb_spec cc n) as [Lc|Gc]; cbn [andb].
  - rewrite H3'. 2:{ intros col Hcol E. apply dpE_col in E; auto; lia. }
    rewrite H2 by auto. destruct (Nat.leb_spec n cc); [lia|]. cbn [andb]. rewrite H1 by auto.
    destruct (Nat.ltb_spec cc n); [|lia].
    assert (Hij : nth t (ec cc) 0 <= cc) by (apply Hle; auto; apply nth_In; auto).
    rewrite (XX_get X cx' (wtI c) _ cc CX V4 Hij Lc). unfold TLineq, TLgen.
    destruct (Nat.eqb_spec (nth t (ec cc) 0) cc) as [Ei|Ni]; [rewrite Ei|]; fring.
  - destruct (Nat.ltb_spec t (clen RT (cc - n))) as [Lt|Gt].
    + destruct (pos_border cc t Gc Hc Lt) as (Hr1 & Nd & Eg).
      rewrite H3'. 2:{ intros col Hcol E. apply dpE_col in E; auto; lia. }
      rewrite H2 by auto. destruct (Nat.leb_spec n cc); [|lia]. destruct (Nat.ltb_spec t (clen RT (cc - n))); [|lia]. cbn [andb].
      destruct (Nat.ltb_spec (nth t (ec cc) 0) n); [|lia]. rewrite Eg. fring.
    + destruct (pos_bdiag cc t Gc Hc Ht Gt) as (Ei & Ed).
      rewrite (dpE_diagE cc t Hc Ed), H3 by lia. rewrite Ei.
      destruct (Nat.ltb_spec cc n); [lia|]. rewrite Nat.eqb_refl. unfold Dineq. fring.
Qed.

Theorem ineq_update_scalings_form k rho delta s s_lb s_ub z z_lb z_ub zi zlbi zubi :
  e_static false k ->
  sd_nlb d <= length s_lb -> sd_nlb d <= length z_lb -> sd_nub d <= length s_ub -> sd_nub d <= length z_ub ->
  vinv z = Ok zi -> vinv (head (sd_nlb d) z_lb) = Ok zlbi -> vinv (head (sd_nub d) z_ub) = Ok zubi ->
  let c' := new_scal d (ek_sc k) rho delta s s_lb s_ub zi zlbi zubi in
  ineq_scal_ok c' ->
  exists k', ineq_update_scalings d k rho delta s s_lb s_ub z z_lb z_ub = Ok k' /\ e_form false (TLineq c') (Dineq c') c' k'.
Proof.
  intros Hst L1 L2 L3 L4 E1 E2 E3 c' Hsc. unfold ineq_update_scalings, e_new_scal, chk_len.
  destruct (Nat.ltb_spec (length s_lb) (sd_nlb d)) as [?Hy|?Hn]; [lia|]. cbn [bind].
  destruct (Nat.ltb_spec (length z_lb) (sd_nlb d)) as [?Hy|?Hn]; [lia|]. cbn [bind].
  destruct (Nat.ltb_spec (length s_ub) (sd_nub d)) as [?Hy|?Hn]; [lia|]. cbn [bind].
  destruct (Nat.ltb_spec (length z_ub) (sd_nub d)) as [?Hy|?Hn]; [lia|]. cbn [bind].
  rewrite E1, E2, E3. cbn [bind]. fold (new_scal d (ek_sc k) rho delta s s_lb s_ub zi zlbi zubi). fold c'.
  assert (Fsc : ek_sc (ek_set_sc k c') = c') by (destruct k; reflexivity).
  destruct (ineq_refresh_form (ek_set_sc k c')) as (k' & E & Hf).
  - now apply e_static_set_sc.
  - now rewrite Fsc.
  - exists k'. split; [exact E|]. now rewrite Fsc in Hf.
Qed.
End IneqCore.
End Passes.
(* ---- init_workspace + create_kkt_matrix + init (identity ordering), both modes ---- *)
Local Notation E0x X := (csc_of_cols (n + r) (ecE X) (fun _ _ => 0%Qc)).

Definition create_spec (Q : csc F -> Vec -> Prop) (TLv : csc F -> Vec -> nat -> nat -> F) (dval : F) (em : emat) : Prop :=
  exists X cx kx,
    em_K em = mkcsc N N (colptr (E0x X)) (rowind (E0x X)) kx /\ length kx = coff (ecE X) N /\
    (forall cc t, cc < N -> t < length (ecE X cc) ->
       nth (coff (ecE X) cc + t) kx 0%Qc = Kgen (TLv X cx) (fun _ => dval) (nth t (ecE X cc) 0) cc) /\
    em_X em = X /\ cache_ok n rx XT X /\ em_XX em = XXof X cx /\ length cx = coff (prod_col X XT) n /\
    Q X cx /\
    map_ok n (kcE X) P (em_P2K em) /\ map_ok n (kcE X) (XXof X cx) (em_X2K em) /\
    length (em_R2K em) = nnz RT /\ (forall l i, l < r -> i < clen RT l -> nth (cp RT l + i) (em_R2K em) 0 = coff (ecE X) (n + l) + i) /\
    em_tmp em = repeat 0%Qc n.

(* what a created matrix is: well formed, upper triangular, diagonal last, maps in range and injective, entries *)
Theorem create_spec_wf Q TLv dval em : create_spec Q TLv dval em ->
  (forall X cx i j, length cx = coff (prod_col X XT) n -> j < n -> i <= j -> ~ In i (kcE X j) -> TLv X cx i j = 0%Qc) ->
  let K := em_K em in
  nrows K = N /\ ncols K = N /\ wf_csc K = true /\ upper_only K = true /\ diag_is_last K /\
  length (em_P2K em) = nnz P /\ length (em_X2K em) = nnz (em_XX em) /\ length (em_R2K em) = nnz RT /\
  (forall k, k < nnz P -> nth k (em_P2K em) 0 < nnz K) /\
  (forall k k', k < nnz P -> k' < nnz P -> nth k (em_P2K em) 0 = nth k' (em_P2K em) 0 -> k = k') /\
  (forall k, k < nnz (em_XX em) -> nth k (em_X2K em) 0 < nnz K) /\
  (forall k k', k < nnz (em_XX em) -> k' < nnz (em_XX em) -> nth k (em_X2K em) 0 = nth k' (em_X2K em) 0 -> k = k') /\
  (forall k, k < nnz RT -> nth k (em_R2K em) 0 < nnz K) /\
  (forall k k', k < nnz RT -> k' < nnz RT -> nth k (em_R2K em) 0 = nth k' (em_R2K em) 0 -> k = k') /\
  exists X cx, em_X em = X /\ em_XX em = XXof X cx /\
    forall i j, i <= j -> j < N -> csc_get K i j = Kgen (TLv X cx) (fun _ => dval) i j.
Proof.
  intros (X & cx & kx & EK & Lkx & Hv & EX & CX & EXX & Lcx & Vx & MP & MX & Lr & Hr & Etmp) Hout. cbv zeta. rewrite EK.
  destruct (gen_denotes X (TLv X cx) (fun _ => dval) kx Lkx Hv (fun i j => Hout X cx i j Lcx)) as (G1 & G2 & G3 & G4).
  destruct (map_range_inj X P (em_P2K em) (srcP_E X) MP) as [R1 I1].
  destruct (map_range_inj X (XXof X cx) (em_X2K em) (srcX_E X cx Lcx) MX) as [R2 I2].
  destruct (rmap_range_inj X (em_R2K em) Lr Hr) as [R3 I3].
  assert (Hn : coff (kcE X) n <= coff (ecE X) N) by (rewrite <- offE_lo by lia; apply coff_mono; lia).
  assert (EnK : nnz (mkcsc N N (colptr (E0x X)) (rowind (E0x X)) kx) = coff (ecE X) N).
  { unfold nnz. cbn [rowind]. apply (ofcols_nnz N (ecE X) (fun _ _ => 0%Qc)). }
  rewrite EnK, EXX.
  split; [reflexivity|]. split; [reflexivity|]. split; [exact G1|]. split; [exact G2|]. split; [exact G3|].
  split; [apply MP|]. split; [apply MX|]. split; [exact Lr|].
  split; [intros k Hk; specialize (R1 k Hk); lia|]. split; [exact I1|].
  split; [intros k Hk; specialize (R2 k Hk); lia|]. split; [exact I2|].
  split; [intros k Hk; apply R3; auto|]. split; [exact I3|].
  exists X, cx. auto.
Qed.

(* init under the identity ordering from a created matrix: static invariant, unit scalings, values = created + box terms *)
Theorem init_from_create exact Q TLv dval em rho delta : create_spec Q TLv dval em -> scal_ok d (unit_scal d rho delta) ->
  (forall X cx, Q X cx -> exact = true -> pvals n X XT rx None cx) ->
  exists k X cx, e_finish_init d N rho delta None em = Ok k /\ e_static X exact k /\ ek_sc k = unit_scal d rho delta /\
    ek_XX k = XXof X cx /\ length cx = coff (prod_col X XT) n /\ Q X cx /\ cache_ok n rx XT X /\
    forall cc t, cc < N -> t < length (ecE X cc) ->
      nth (coff (ecE X) cc + t) (ek_kx k) 0%Qc
      = (Kgen (TLv X cx) (fun _ => dval) (nth t (ecE X cc) 0%nat) cc
         + (if (cc <? n) && (nth t (ecE X cc) 0%nat =? cc) then a_bdiag (sys_sparse d (unit_scal d rho delta)) cc else 0))%Qc.
Proof.
  intros (X & cx & kx & EK & Lkx & Hv & EX & CX & EXX & Lcx & Vx & MP & MX & Lr & Hr & Etmp) Hsc HQ.
  destruct (finish_init_ok X exact rho delta em cx kx EK Lkx EX CX EXX Lcx (HQ X cx Vx) MP MX Lr Hr Etmp Hsc) as (k & E & Hst & Ec & EXk & Hk).
  exists k, X, cx. split; [exact E|]. split; [exact Hst|]. split; [exact Ec|]. split; [now rewrite EXk|].
  split; [exact Lcx|]. split; [exact Vx|]. split; [exact CX|]. intros cc t Hc Ht. rewrite Hk by auto. now rewrite Hv.
Qed.

(* what init_workspace leaves: X is Eigen's transpose of XT and the cached product holds the exact sums *)
Definition Qeq0 (X : csc F) (cx : Vec) : Prop := csc_transpose XT = Ok X /\ pvals n X XT rx None cx.

Lemma unit_nth l k : l < k -> nth l (vconst k 1%Qc) 0%Qc = 1%Qc.
Proof. intros H. unfold vconst. rewrite (nth_indep _ 0%Qc 1%Qc) by (rewrite repeat_length; lia). apply nth_repeat. Qed.

Section EqCore2.
Hypothesis EXT : sd_AT d = XT.
Hypothesis ERT : sd_GT d = RT.
Hypothesis Er : sd_m d = r.

Definition TLeq0 (rho delta : F) (X : csc F) (cx : Vec) : nat -> nat -> F := tlval (XXof X cx) rho (Some (1 / delta)%Qc).

Theorem eq_create_ok rho delta : delta <> 0%Qc ->
  exists em, eq_create d rho delta = Ok em /\ create_spec Qeq0 (TLeq0 rho delta) (- (1) - delta)%Qc em.
Proof.
  intros Hd. unfold eq_create, eq_workspace. rewrite EXT.
  destruct ws_core as (X & cx & EXc & ES & CX & VX). rewrite EXc. cbn [bind]. cbv zeta. unfold Vec, F in *. rewrite ES. cbn [bind].
  unfold eq_kkt. rewrite qdiv_nz by auto. cbn [bind]. cbv zeta. rewrite ERT. unfold eq_N. rewrite Er.
  change (csc_set_vals (prod_upper_pattern X XT) cx) with (XXof X cx).
  assert (Lcx : length cx = coff (prod_col X XT) n) by (apply (pvals_len n X XT rx _ cx HnX VX)).
  destruct (create_core X cx rho (Some (1 / delta)%Qc) (- (1) - delta)%Qc Lcx) as (kx & p2k & x2k & r2k & E & Lkx & Hv & MP & MX & Lr & Hr).
  unfold Vec, F in *. rewrite E. cbn [bind]. eexists. split; [reflexivity|].
  exists X, cx, kx. cbn [em_K em_P2K em_X2K em_R2K em_X em_XX em_tmp]. unfold TLeq0, Qeq0. auto 20.
Qed.

(* the values init leaves: the canonical form for the unit scalings, box terms included *)
Theorem eq_init_form_core rho delta em : create_spec Qeq0 (TLeq0 rho delta) (- (1) - delta)%Qc em ->
  scal_ok d (unit_scal d rho delta) ->
  exists k X, e_finish_init d N rho delta None em = Ok k /\
    e_form X true (TLeq (unit_scal d rho delta)) (Deq (unit_scal d rho delta)) (unit_scal d rho delta) k /\ csc_transpose XT = Ok X.
Proof.
  intros Hs Hsc.
  destruct (init_from_create true _ _ _ em rho delta Hs Hsc (fun _ _ H _ => proj2 H)) as (k & X & cx & E2 & Hst & Ec & EXX & Lcx & (Ecan & Vx) & CX & Hv).
  exists k, X. split; [exact E2|]. split; [|exact Ecan]. split; [exact Hst|]. split; [exact Ec|].
  intros cc t Hc Ht. rewrite Hv by auto. unfold Kgen.
  assert (Hij : nth t (ecE X cc) 0 <= cc) by (apply (ecE_le X cc); auto; apply nth_In; auto).
  destruct (Nat.ltb_spec cc n) as [Lc|Gc]; cbn [andb].
  - unfold TLeq0, tlval, TLeq, TLgen. rewrite (XX_get X cx None _ cc CX Vx Hij Lc). cbn [unit_scal sc_rho sc_delta].
    destruct (Nat.eqb_spec (nth t (ecE X cc) 0) cc) as [Ei|Ni]; [rewrite Ei|]; fring.
  - destruct (Nat.ltb_spec (nth t (ecE X cc) 0) n); [fring|].
    destruct (Nat.eqb_spec (nth t (ecE X cc) 0) cc); [|fring].
    unfold Deq. cbn [unit_scal sc_s sc_z_inv sc_delta]. rewrite !unit_nth by lia. fring.
Qed.
End EqCore2.

Section IneqCore2.
Hypothesis EXT : sd_GT d = XT.
Hypothesis ERT : sd_AT d = RT.
Hypothesis Erx : sd_m d = rx.
Hypothesis Er : sd_p d = r.

Definition TLineq0 (rho : F) (X : csc F) (cx : Vec) : nat -> nat -> F := tlval (XXof X cx) rho None.
(* the cached product at init: the exact sums scaled by 1 / (1 + delta) *)
Definition Qineq0 (delta : F) (X : csc F) (cx' : Vec) : Prop :=
  csc_transpose XT = Ok X /\ exists cx, cx' = map (fun v : Qc => (v * (1 / (1 + delta)))%Qc) cx /\ pvals n X XT rx None cx.

Theorem ineq_create_ok rho delta : (1 + delta)%Qc <> 0%Qc ->
  exists em, ineq_create d rho delta = Ok em /\ create_spec (Qineq0 delta) (TLineq0 rho) (- delta)%Qc em.
Proof.
  intros Hd. unfold ineq_create, ineq_workspace. rewrite EXT.
  destruct ws_core as (X & cx & EXc & ES & CX & VX). rewrite EXc. cbn [bind]. cbv zeta. unfold Vec, F in *. rewrite ES. cbn [bind].
  rewrite qdiv_nz by auto. cbn [bind].
  unfold ineq_kkt. cbv zeta. rewrite ERT. unfold ineq_N. rewrite Er.
  set (cx' := map (fun v : Qc => (v * (1 / (1 + delta)))%Qc) cx).
  change (csc_set_vals (csc_set_vals (prod_upper_pattern X XT) cx) (map (fun v : Qc => (v * (1 / (1 + delta)))%Qc) (vals (csc_set_vals (prod_upper_pattern X XT) cx))))
    with (XXof X cx').
  assert (Lcx : length cx' = coff (prod_col X XT) n) by (unfold cx'; rewrite map_length; apply (pvals_len n X XT rx _ cx HnX VX)).
  destruct (create_core X cx' rho None (- delta)%Qc Lcx) as (kx & p2k & x2k & r2k & E & Lkx & Hv & MP & MX & Lr & Hr).
  unfold Vec, F in *. rewrite E. cbn [bind]. eexists. split; [reflexivity|].
  exists X, cx', kx. cbn [em_K em_P2K em_X2K em_R2K em_X em_XX em_tmp]. unfold TLineq0.
  split; [reflexivity|]. split; [exact Lkx|]. split; [exact Hv|]. split; [reflexivity|]. split; [exact CX|]. split; [reflexivity|].
  split; [exact Lcx|]. split; [split; [exact EXc|exists cx; split; [reflexivity|exact VX]]|]. auto 20.
Qed.

Theorem ineq_init_form_core rho delta em : create_spec (Qineq0 delta) (TLineq0 rho) (- delta)%Qc em ->
  scal_ok d (unit_scal d rho delta) ->
  exists k X, e_finish_init d N rho delta None em = Ok k /\
    e_form X false (TLineq (unit_scal d rho delta)) (Dineq (unit_scal d rho delta)) (unit_scal d rho delta) k /\ csc_transpose XT = Ok X.
Proof.
  intros Hs Hsc.
  destruct (init_from_create false _ _ _ em rho delta Hs Hsc (fun _ _ _ (H : false = true) => False_ind _ (Bool.diff_false_true H)))
    as (k & X & cx' & E2 & Hst & Ec & EXX & Lcx & (Ecan & cx & Ecx & Vx) & CX & Hv).
  exists k, X. split; [exact E2|]. split; [|exact Ecan]. split; [exact Hst|]. split; [exact Ec|].
  intros cc t Hc Ht. rewrite Hv by auto. unfold Kgen.
  assert (Hij : nth t (ecE X cc) 0 <= cc) by (apply (ecE_le X cc); auto; apply nth_In; auto).
  destruct (Nat.ltb_spec cc n) as [Lc|Gc]; cbn [andb].
  - unfold TLineq0, tlval, TLineq, TLgen, wtI. rewrite Ecx, (XX_get_scaled X cx _ _ cc CX Vx Hij Lc).
    cbn [unit_scal sc_rho sc_delta sc_s sc_z_inv].
    rewrite (sum_n_ext rx (fun l => (wt_val (Some (vconst (sd_m d) 1%Qc, vconst (sd_m d) 1%Qc, delta)) l * csc_get XT (nth t (ecE X cc) 0%nat) l * csc_get XT cc l)%Qc)
               (fun l => (csc_get XT (nth t (ecE X cc) 0%nat) l * csc_get XT cc l * (1 / (1 + delta)))%Qc)).
    2:{ intros l Hl. cbn [wt_val]. rewrite !unit_nth by lia. replace (1 * 1 + delta)%Qc with (1 + delta)%Qc by fring. fring. }
    rewrite sum_n_scale_r.
    destruct (Nat.eqb_spec (nth t (ecE X cc) 0) cc) as [Ei|Ni]; [rewrite Ei|]; fring.
  - destruct (Nat.ltb_spec (nth t (ecE X cc) 0) n); [fring|].
    destruct (Nat.eqb_spec (nth t (ecE X cc) 0) cc); [|fring]. unfold Dineq. cbn [unit_scal sc_delta]. fring.
Qed.
End IneqCore2.
End Elim.

(* ================================================================ top level *)
(* what create_kkt_matrix returns, stated without the internal vocabulary: [entry] is the entry function (upper triangle) *)
Definition created_ok (N : nat) (P RT : csc F) (em : emat) (entry : nat -> nat -> F) : Prop :=
  let K := em_K em in
  nrows K = N /\ ncols K = N /\ wf_csc K = true /\ upper_only K = true /\ diag_is_last K /\
  length (em_P2K em) = nnz P /\ length (em_X2K em) = nnz (em_XX em) /\ length (em_R2K em) = nnz RT /\
  (forall k, k < nnz P -> nth k (em_P2K em) 0 < nnz K) /\
  (forall k k', k < nnz P -> k' < nnz P -> nth k (em_P2K em) 0 = nth k' (em_P2K em) 0 -> k = k') /\
  (forall k, k < nnz (em_XX em) -> nth k (em_X2K em) 0 < nnz K) /\
  (forall k k', k < nnz (em_XX em) -> k' < nnz (em_XX em) -> nth k (em_X2K em) 0 = nth k' (em_X2K em) 0 -> k = k') /\
  (forall k, k < nnz RT -> nth k (em_R2K em) 0 < nnz K) /\
  (forall k k', k < nnz RT -> k' < nnz RT -> nth k (em_R2K em) 0 = nth k' (em_R2K em) 0 -> k = k') /\
  forall i j, i <= j -> j < N -> csc_get K i j = entry i j.

Definition elim_data_ok (d : sdata) (RT : csc F) : Prop :=
  wf_sdata d /\ upper_only (sd_P d) = true /\ sorted_colsb (sd_P d) = true /\ sorted_colsb RT = true.

(* the reduced operator of KKT_EQ_ELIMINATED over the L2 system of KKTProofs.v (upper triangle: i <= j) *)
Definition Keq (Y : L2sys) (i j : nat) : Qc :=
  (let n := y_n Y in
   if j <? n then y_Psym Y i j + (if i =? j then y_rho Y + a_bdiag Y i else 0) + a_dinv Y * a_SA Y i j
   else if i <? n then y_GT Y i (j - n)
   else if i =? j then - (y_s Y (j - n) * y_zinv Y (j - n) + y_delta Y) else 0)%Qc.

Definition eqS (d : sdata) (X : csc F) (k : ekkt) : Prop := e_static d (sd_AT d) (sd_GT d) (sd_p d) (sd_m d) X true k.
Definition eqF (d : sdata) (X : csc F) (c : scal) (k : ekkt) : Prop :=
  e_form d (sd_AT d) (sd_GT d) (sd_p d) (sd_m d) X true (TLeq d (sd_AT d) (sd_p d) c) (Deq c) c k.

Section EqTop.
Variable d : sdata.
Hypothesis Hok : elim_data_ok d (sd_GT d).
Local Notation n := (sd_n d). Local Notation p := (sd_p d). Local Notation m := (sd_m d).
Local Notation P := (sd_P d). Local Notation AT := (sd_AT d). Local Notation GT := (sd_GT d).
Let Hwf : wf_sdata d. Proof. apply Hok. Qed.
Let Hup : upper_only P = true. Proof. apply Hok. Qed.
Let Hsorted : sorted_colsb P = true. Proof. apply Hok. Qed.
Let HsG : sorted_colsb GT = true. Proof. apply Hok. Qed.
Let HwA : wf_csc AT = true. Proof. apply Hwf. Qed.
Let HnA : nrows AT = n. Proof. apply Hwf. Qed.
Let HcA : ncols AT = p. Proof. apply Hwf. Qed.
Let HwG : wf_csc GT = true. Proof. apply Hwf. Qed.
Let HnG : nrows GT = n. Proof. apply Hwf. Qed.
Let HcG : ncols GT = m. Proof. apply Hwf. Qed.

Lemma Kgen_Keq c i j : i <= j ->
  Kgen d GT (TLeq d AT p c) (Deq c) i j = Keq (sys_sparse d c) i j.
Proof.
  intros Hij. unfold Kgen, Keq, TLeq, TLgen, Deq, a_dinv. cbn [sys_sparse sys_sparse_gen y_n y_Psym y_rho y_delta y_GT y_s y_zinv]. unfold fv.
  destruct (Nat.ltb_spec j n).
  - destruct (Nat.leb_spec i j) as [?Hy|?Hn]; [|lia]. rewrite <- (SAd_aSA d c i j). unfold SAd.
    rewrite (sum_n_ext p (fun l => (wt_val None l * csc_get AT i l * csc_get AT j l)%Qc) (fun l => (csc_get AT i l * csc_get AT j l)%Qc))
      by (intros; cbn [wt_val]; fring).
    fring.
  - destruct (Nat.ltb_spec i n); [reflexivity|]. destruct (Nat.eqb_spec i j); [|reflexivity]. fring.
Qed.

(* init_workspace + create_kkt_matrix *)
Theorem eq_create_thm rho delta : delta <> 0%Qc ->
  exists em, eq_create d rho delta = Ok em /\
    created_ok (n + m) P GT em (fun i j =>
      if j <? n then (csc_get P i j + (if i =? j then rho else 0) + 1 / delta * SAd d i j)%Qc
      else if i <? n then csc_get GT i (j - n) else if i =? j then (- (1) - delta)%Qc else 0%Qc) /\
    em_tmp em = repeat 0%Qc n.
Proof.
  intros Hd.
  destruct (eq_create_ok d Hwf Hsorted AT GT p m HwA HnA HcA HwG HnG HcG HsG eq_refl eq_refl eq_refl rho delta Hd) as (em & E & Hs).
  exists em. split; [exact E|].
  pose proof Hs as (X0 & cx0 & kx0 & _ & _ & _ & EX0 & CX0 & EXX0 & Lcx0 & (_ & Vx0) & _ & _ & _ & _ & Etmp). subst X0.
  split; [|exact Etmp].
  destruct (create_spec_wf d Hwf Hup Hsorted AT GT p m HnA HcA HwG HnG HcG HsG _ _ _ em Hs) as (A1 & A2 & A3 & A4 & A5 & A6 & A7 & A8 & A9 & A10 & A11 & A12 & A13 & A14 & X & cx & EX & EXX & Hg).
  { intros X cx i j L Hj Hij Hno. unfold TLeq0. eapply tlval_out; eauto. }
  unfold created_ok. cbv zeta. repeat (split; [assumption|]).
  intros i j Hij Hj. rewrite Hg by auto. unfold Kgen.
  destruct (Nat.ltb_spec j n) as [Lj|Gj]; [|reflexivity].
  unfold TLeq0, tlval. f_equal. f_equal.
  subst X. assert (Ecx : XXof AT (em_X em) cx = XXof AT (em_X em) cx0) by congruence. rewrite Ecx.
  rewrite (XX_get d AT p HwA HnA HcA (em_X em) cx0 None i j CX0 Vx0 Hij Lj). unfold SAd.
  apply sum_n_ext. intros l Hl. cbn [wt_val]. fring.
Qed.

(* init (identity ordering) establishes the static invariant *)
Theorem eq_init_static rho delta : delta <> 0%Qc -> scal_ok d (unit_scal d rho delta) ->
  exists k X, eq_init d rho delta None = Ok k /\ eqS d X k /\ ek_sc k = unit_scal d rho delta.
Proof.
  intros Hd Hsc.
  destruct (eq_create_ok d Hwf Hsorted AT GT p m HwA HnA HcA HwG HnG HcG HsG eq_refl eq_refl eq_refl rho delta Hd) as (em & E & Hs).
  destruct (init_from_create d Hwf Hup AT GT p m HnA HcA HwG HnG HcG HsG true _ _ _ em rho delta Hs Hsc (fun _ _ H _ => proj2 H)) as (k & X & cx & E2 & Hst & Ec & _).
  exists k, X. unfold eq_init. rewrite E. cbn [bind]. unfold eq_N. split; [exact E2|]. split; [exact Hst|exact Ec].
Qed.

(* ... and leaves the canonical form for the unit scalings (box terms included) *)
Theorem eq_init_form rho delta : delta <> 0%Qc -> scal_ok d (unit_scal d rho delta) ->
  exists k X, eq_init d rho delta None = Ok k /\ eqF d X (unit_scal d rho delta) k /\ csc_transpose AT = Ok X.
Proof.
  intros Hd Hsc.
  destruct (eq_create_ok d Hwf Hsorted AT GT p m HwA HnA HcA HwG HnG HcG HsG eq_refl eq_refl eq_refl rho delta Hd) as (em & E & Hs).
  destruct (eq_init_form_core d Hwf Hup AT GT p m HwA HnA HcA HwG HnG HcG HsG eq_refl rho delta em Hs Hsc) as (k & X & E2 & Hf & Ecan).
  exists k, X. unfold eq_init. rewrite E. cbn [bind]. unfold eq_N. split; [exact E2|]. split; [exact Hf|exact Ecan].
Qed.

(* update_scalings from ANY state with the static invariant reaches the canonical form for the new scalings *)
Theorem eq_update_scalings_thm X k rho delta s s_lb s_ub z z_lb z_ub zi zlbi zubi :
  eqS d X k ->
  sd_nlb d <= length s_lb -> sd_nlb d <= length z_lb -> sd_nub d <= length s_ub -> sd_nub d <= length z_ub ->
  vinv z = Ok zi -> vinv (head (sd_nlb d) z_lb) = Ok zlbi -> vinv (head (sd_nub d) z_ub) = Ok zubi ->
  let c' := new_scal d (ek_sc k) rho delta s s_lb s_ub zi zlbi zubi in
  scal_ok d c' -> sc_delta c' <> 0%Qc ->
  exists k', eq_update_scalings d k rho delta s s_lb s_ub z z_lb z_ub = Ok k' /\ eqF d X c' k'.
Proof.
  intros Hst L1 L2 L3 L4 E1 E2 E3 c' Hsc Hdz.
  apply (eq_update_scalings_form d Hwf Hup Hsorted AT GT p m HwA HnA HcA HwG HnG HcG HsG X eq_refl eq_refl k rho delta s s_lb s_ub z z_lb z_ub zi zlbi zubi Hst L1 L2 L3 L4 E1 E2 E3).
  split; assumption.
Qed.

(* the four refresh calls from any state with the static invariant *)
Theorem eq_refresh_thm X k : eqS d X k -> scal_ok d (ek_sc k) -> sc_delta (ek_sc k) <> 0%Qc ->
  exists k', eq_refresh d k = Ok k' /\ eqF d X (ek_sc k) k'.
Proof.
  intros Hst Hsc Hdz.
  apply (eq_refresh_form d Hwf Hup Hsorted AT GT p m HwA HnA HcA HwG HnG HcG HsG X eq_refl eq_refl k Hst). split; assumption.
Qed.

(* the canonical form denotes the reduced operator *)
Theorem eq_form_denotes X c k : eqF d X c k ->
  let K := mkcsc (n + m) (n + m) (ek_kp k) (ek_ki k) (ek_kx k) in
  wf_csc K = true /\ upper_only K = true /\ diag_is_last K /\
  forall i j, i <= j -> j < n + m -> csc_get K i j = Keq (sys_sparse d c) i j.
Proof.
  intros Hf. pose proof Hf as ((cx & _ & CX & _) & _).
  destruct (e_form_denotes d Hwf Hup AT GT p m HnA HcA HwG HnG HcG HsG X true _ _ c k Hf) as (G1 & G2 & G3 & G4).
  { intros i j Hj Hij Hno. unfold TLeq. eapply TLgen_out; eauto. }
  cbv zeta. split; [exact G1|]. split; [exact G2|]. split; [exact G3|].
  intros i j Hij Hj. rewrite G4 by auto. now apply Kgen_Keq.
Qed.
End EqTop.

(* ================================================================ update_data on same-pattern new data *)
Lemma pp_pat (X X' XT XT' : csc F) : colptr X' = colptr X -> rowind X' = rowind X -> colptr XT' = colptr XT -> rowind XT' = rowind XT ->
  nrows XT' = nrows XT -> prod_upper_pattern X' XT' = prod_upper_pattern X XT.
Proof. intros E1 E2 E3 E4 E5. unfold prod_upper_pattern. rewrite E5. now apply pcm_eq. Qed.

(* the static invariant after the cached transpose (and possibly the cached product) has been recomputed on data with the pattern
   of XT: nothing else of the state depends on the values *)
Lemma e_static_recache d XT XT' RT rx r X X' exact k cx' :
  colptr X' = colptr X -> rowind X' = rowind X -> colptr XT' = colptr XT -> rowind XT' = rowind XT -> nrows XT' = nrows XT ->
  e_static d XT RT rx r X exact k -> cache_ok (sd_n d) rx XT' X' -> length cx' = coff (prod_col X XT) (sd_n d) ->
  (exact = true -> pvals (sd_n d) X' XT' rx None cx') ->
  e_static d XT' RT rx r X' exact (ek_set_XX (ek_set_X k X') (XXof XT' X' cx') (repeat 0%Qc (sd_n d))).
Proof.
  intros E1 E2 E3 E4 E5 (cx & EX & CX & EXX & Lcx & Vx & Epinv & Epki & Ekp & Eki & MP & MX & Lr & Hr & Etmp & Lkx) CX' Lcx' Vx'.
  pose proof (pp_pat X X' XT XT' E1 E2 E3 E4 E5) as Epp.
  assert (Ekc : kcE d XT' X' = kcE d XT X) by (unfold kcE; now rewrite Epp).
  assert (Eec : ecE d XT' RT X' = ecE d XT RT X) by (unfold ecE; now rewrite Ekc).
  assert (EXXo : XXof XT' X' cx' = XXof XT X cx') by (unfold XXof; now rewrite Epp).
  assert (Ecf : coff (prod_col X' XT') (sd_n d) = coff (prod_col X XT) (sd_n d)) by (apply coff_ext; intros j; now apply prod_col_pat).
  exists cx'. unfold e_static. rewrite Eec, Ekc, Ecf.
  destruct k as [a1 a2 a3 a4 a5 a6 a7 a8 a9 a10 a11 a12].
  cbn [ek_set_kx ek_set_XX ek_set_X ek_X ek_XX ek_pinv ek_PKi ek_kp ek_ki ek_P2K ek_X2K ek_R2K ek_tmp ek_kx ek_sc] in *.
  split; [reflexivity|]. split; [exact CX'|]. split; [reflexivity|]. split; [exact Lcx'|]. split; [exact Vx'|].
  split; [exact Epinv|]. split; [exact Epki|]. split; [exact Ekp|]. split; [exact Eki|]. split; [exact MP|].
  split; [rewrite EXXo; exact MX|]. split; [exact Lr|]. split; [exact Hr|]. split; [reflexivity|exact Lkx].
Qed.

(* the mask covers the changed blocks.  EQ: A changed => KKT_UPDATE_A; anything changed => mask <> 0 *)
Definition covers_eq (mask : nat) (d : sdata) (px ax gx lbs ubs : Vec) : Prop :=
  (Nat.testbit mask 1 = false -> ax = vals (sd_AT d)) /\
  (mask = 0 -> px = vals (sd_P d) /\ gx = vals (sd_GT d) /\ lbs = sd_lbs d /\ ubs = sd_ubs d).

Section EqDataA.
Variable d : sdata.
Hypothesis Hok : elim_data_ok d (sd_GT d).
Local Notation n := (sd_n d). Local Notation p := (sd_p d). Local Notation m := (sd_m d).
Local Notation P := (sd_P d). Local Notation AT := (sd_AT d). Local Notation GT := (sd_GT d).
Let Hwf : wf_sdata d. Proof. apply Hok. Qed.
Let Hup : upper_only P = true. Proof. apply Hok. Qed.
Let Hsorted : sorted_colsb P = true. Proof. apply Hok. Qed.
Let HsG : sorted_colsb GT = true. Proof. apply Hok. Qed.
Let HwA : wf_csc AT = true. Proof. apply Hwf. Qed.
Let HnA : nrows AT = n. Proof. apply Hwf. Qed.
Let HcA : ncols AT = p. Proof. apply Hwf. Qed.

(* the A branch of update_data: re-transposition of the cached A, update_AT_A *)
Lemma eq_data_A_static ax X k : eqS d X k -> length ax = nnz AT ->
  exists k1 X1,
    (do A <- transpose_no_alloc (sd_AT (with_AT d ax)) (ek_X k) ;;
     do '(ATA, tmp) <- scatter_product A (sd_AT (with_AT d ax)) (ek_XX k) None (ek_tmp k) ;;
     Ok (ek_set_XX (ek_set_X k A) ATA tmp)) = Ok k1 /\
    eqS (with_AT d ax) X1 k1 /\ ek_sc k1 = ek_sc k /\ rowind X1 = rowind X /\ colptr X1 = colptr X.
Proof.
  intros Hst Lax. pose proof Hst as (cx & EX & CX & EXX & Lcx & Vx & Epinv & Epki & Ekp & Eki & MP & MX & Lr & Hr & Etmp & Lkx).
  set (AT1 := set_vals AT ax). change (sd_AT (with_AT d ax)) with AT1.
  assert (HwAT1 : wf_csc AT1 = true) by (apply wf_set_vals; auto).
  destruct (retranspose_ok AT AT1 X n p CX (same_pat_set_vals _ ax HwA Lax) HwAT1 HnA HcA) as (A' & EA & CA' & Erow & Ecp).
  rewrite EX, EA. cbn [bind].
  pose proof (pp_pat X A' AT AT1 Ecp Erow eq_refl eq_refl eq_refl) as Epp.
  assert (Lcx0 : length cx = nnz (prod_upper_pattern A' AT1)).
  { rewrite Epp, Lcx. unfold nnz. rewrite (pp_eq X AT n HnA). symmetry. apply (ofcols_nnz n _ (fun _ _ => 0%Qc)). }
  destruct (scatter_cache_ok n p AT1 A' None cx HwAT1 HnA HcA CA' I Lcx0) as (cx' & ES & VS).
  assert (EC : ek_XX k = csc_set_vals (prod_upper_pattern A' AT1) cx) by (rewrite EXX, Epp; reflexivity).
  rewrite EC, Etmp. unfold Vec, F in *. rewrite ES. cbn [bind].
  eexists. exists A'. split; [reflexivity|].
  split; [|split; [destruct k; reflexivity|split; [exact Erow|exact Ecp]]].
  assert (Lcx' : length cx' = coff (prod_col X AT) n).
  { transitivity (coff (prod_col A' AT1) n); [exact (pvals_len n A' AT1 p None cx' HnA VS)|]. apply coff_ext. intros j. now apply prod_col_pat. }
  exact (e_static_recache d AT AT1 GT p m X A' true k cx' Ecp Erow eq_refl eq_refl eq_refl Hst CA' Lcx' (fun _ => VS)).
Qed.

End EqDataA.

Section EqData.
Variable d : sdata.
Hypothesis Hok : elim_data_ok d (sd_GT d).
Local Notation n := (sd_n d). Local Notation p := (sd_p d). Local Notation m := (sd_m d).
Local Notation P := (sd_P d). Local Notation AT := (sd_AT d). Local Notation GT := (sd_GT d).
Let Hwf : wf_sdata d. Proof. apply Hok. Qed.
Let Hup : upper_only P = true. Proof. apply Hok. Qed.
Let Hsorted : sorted_colsb P = true. Proof. apply Hok. Qed.
Let HsG : sorted_colsb GT = true. Proof. apply Hok. Qed.

(* update_data on new values (same pattern) keeps the static invariant FOR THE NEW DATA, keeps the pattern of the cached transpose,
   and with a non-zero covering mask reaches the canonical form of the new data *)
Theorem eq_update_data_form X k mask px ax gx lbs ubs :
  eqS d X k -> length px = nnz P -> length ax = nnz AT -> length gx = nnz GT ->
  covers_eq mask d px ax gx lbs ubs ->
  let d' := with_all d px ax gx lbs ubs in
  (mask <> 0 -> scal_ok d' (ek_sc k) /\ sc_delta (ek_sc k) <> 0%Qc) ->
  exists k' X', eq_update_data d' k mask = Ok k' /\ eqS d' X' k' /\ ek_sc k' = ek_sc k /\
    rowind X' = rowind X /\ colptr X' = colptr X /\
    (mask <> 0 -> eqF d' X' (ek_sc k) k') /\ (mask = 0 -> k' = k).
Proof.
  intros Hst Lp La Lg (C1 & C0) d' Hsc. unfold d', with_all in *.
  set (d0 := with_P d px lbs ubs). set (d1 := with_AT d0 ax). set (d2 := with_GT d1 gx).
  assert (Hok0 : elim_data_ok d0 (sd_GT d0)).
  { split; [apply wf_with_P; auto|]. split; [exact Hup|]. split; [exact Hsorted|exact HsG]. }
  assert (St0 : eqS d0 X k) by exact Hst.
  unfold eq_update_data.
  assert (S1 : exists k1 X1, (if Nat.testbit mask 1 then
             do A <- transpose_no_alloc (sd_AT d2) (ek_X k) ;;
             do '(ATA, tmp) <- scatter_product A (sd_AT d2) (ek_XX k) None (ek_tmp k) ;;
             Ok (ek_set_XX (ek_set_X k A) ATA tmp) else Ok k) = Ok k1 /\ eqS d1 X1 k1 /\ ek_sc k1 = ek_sc k /\
             rowind X1 = rowind X /\ colptr X1 = colptr X /\ (Nat.testbit mask 1 = false -> k1 = k)).
  { destruct (Nat.testbit mask 1) eqn:Eb.
    - change (sd_AT d2) with (sd_AT (with_AT d0 ax)).
      destruct (eq_data_A_static d0 Hok0 ax X k St0 La) as (k1 & X1 & E1 & St1 & Sc1 & R1 & R2).
      exists k1, X1. split; [exact E1|]. split; [exact St1|]. split; [exact Sc1|]. split; [exact R1|]. split; [exact R2|discriminate].
    - exists k, X. split; [reflexivity|]. split; [|split; [reflexivity|split; [reflexivity|split; [reflexivity|auto]]]].
      unfold d1. rewrite (C1 eq_refl). change (sd_AT d) with (sd_AT d0). rewrite with_AT_id. exact St0. }
  destruct S1 as (k1 & X1 & E1 & St1 & Sc1 & R1 & R2 & Id1). rewrite E1. cbn [bind].
  assert (St2 : eqS d2 X1 k1) by exact St1.
  destruct (Nat.eqb_spec mask 0) as [E0|N0].
  - exists k1, X1. split; [reflexivity|]. split; [exact St2|]. split; [exact Sc1|]. split; [exact R1|]. split; [exact R2|].
    split; [intros; contradiction|]. intros _. apply Id1. subst mask. reflexivity.
  - assert (Hok2 : elim_data_ok d2 (sd_GT d2)).
    { split; [unfold d2, d1, d0; apply wf_with_GT; [apply wf_with_AT; [apply wf_with_P|]|]; auto|].
      split; [exact Hup|]. split; [exact Hsorted|exact HsG]. }
    destruct (Hsc N0) as [Hs1 Hs2].
    destruct (eq_refresh_thm d2 Hok2 X1 k1 St2) as (k' & E & Hf); [rewrite Sc1; exact Hs1 | rewrite Sc1; exact Hs2 |].
    exists k', X1. split; [exact E|]. rewrite Sc1 in Hf. pose proof Hf as (St' & Sc' & _).
    split; [exact St'|]. split; [exact Sc'|]. split; [exact R1|]. split; [exact R2|]. split; [intros _; exact Hf|intros; contradiction].
Qed.
End EqData.

(* ================================================================ "= fresh": the stored matrix is determined by data, scalings and the pattern of the cache *)
Lemma e_form_matrix_eq d XT RT rx r X X' ex ex' TLv Dv TLv' Dv' c c' k k' :
  e_form d XT RT rx r X ex TLv Dv c k -> e_form d XT RT rx r X' ex' TLv' Dv' c' k' ->
  rowind X' = rowind X -> colptr X' = colptr X ->
  (forall i j, Kgen d RT TLv Dv i j = Kgen d RT TLv' Dv' i j) ->
  ek_kp k' = ek_kp k /\ ek_ki k' = ek_ki k /\ ek_kx k' = ek_kx k.
Proof.
  intros ((cx & _ & _ & _ & _ & _ & _ & _ & Ekp & Eki & _ & _ & _ & _ & _ & Lkx) & _ & Hv)
         ((cx' & _ & _ & _ & _ & _ & _ & _ & Ekp' & Eki' & _ & _ & _ & _ & _ & Lkx') & _ & Hv') R1 R2 HK.
  pose proof (pp_pat X X' XT XT R2 R1 eq_refl eq_refl eq_refl) as Epp.
  assert (Ekc : kcE d XT X' = kcE d XT X) by (unfold kcE; now rewrite Epp).
  assert (Eec : ecE d XT RT X' = ecE d XT RT X) by (unfold ecE; now rewrite Ekc).
  rewrite Eec in *. split; [congruence|]. split; [congruence|].
  apply (nth_ext _ _ (0%Qc : F) (0%Qc : F)); [congruence|]. intros q Hq. rewrite Lkx' in Hq.
  destruct (off_decomp (coff (ecE d XT RT X)) (fun j => length (ecE d XT RT X j)) (sd_n d + r) (fun c0 _ => eq_refl) q ltac:(cbn [coff]; lia))
    as (j & t & Hj & Ht & ->).
  rewrite Hv', Hv by auto. symmetry. apply HK.
Qed.

(* the box terms only read the first n_lb / n_ub entries of the box scalings: the state-dependent tails play no role *)
Lemma bdiag_new_scal d c0 c0' rho delta s s_lb s_ub zi zlbi zubi i :
  sd_nlb d <= length s_lb -> sd_nub d <= length s_ub -> length zlbi = sd_nlb d -> length zubi = sd_nub d ->
  a_bdiag (sys_sparse d (new_scal d c0 rho delta s s_lb s_ub zi zlbi zubi)) i =
  a_bdiag (sys_sparse d (new_scal d c0' rho delta s s_lb s_ub zi zlbi zubi)) i.
Proof.
  intros L1 L2 L3 L4.
  unfold a_bdiag, a_wlb, a_wub, sys_sparse, sys_sparse_gen, new_scal, fv, fidx.
  cbn [y_nlb y_nub y_lbidx y_ubidx y_lbs y_ubs y_slb y_sub y_zli y_zui y_delta sc_s_lb sc_s_ub sc_z_lb_inv sc_z_ub_inv sc_delta].
  f_equal; apply sum_ext; intros k Hk; destruct (_ =? i); try reflexivity.
  - rewrite !nth_set_head by (rewrite ?head_length; lia). reflexivity.
  - rewrite !nth_set_head by (rewrite ?head_length; lia). reflexivity.
Qed.

(* the cached transpose has the inner / outer indices Eigen's transposition of the current block would give *)
Definition canon_cache (XT X : csc F) : Prop :=
  exists Xc, csc_transpose XT = Ok Xc /\ rowind X = rowind Xc /\ colptr X = colptr Xc.

Theorem eq_update_data_scalings_eq_fresh d X k mask px ax gx lbs ubs rho0 delta0 rho delta s s_lb s_ub z z_lb z_ub zi zlbi zubi :
  elim_data_ok d (sd_GT d) -> eqS d X k -> canon_cache (sd_AT d) X ->
  length px = nnz (sd_P d) -> length ax = nnz (sd_AT d) -> length gx = nnz (sd_GT d) ->
  covers_eq mask d px ax gx lbs ubs ->
  let d' := with_all d px ax gx lbs ubs in
  (mask <> 0 -> scal_ok d' (ek_sc k) /\ sc_delta (ek_sc k) <> 0%Qc) ->
  delta0 <> 0%Qc -> scal_ok d' (unit_scal d' rho0 delta0) ->
  sd_nlb d <= length s_lb -> sd_nlb d <= length z_lb -> sd_nub d <= length s_ub -> sd_nub d <= length z_ub ->
  vinv z = Ok zi -> vinv (head (sd_nlb d) z_lb) = Ok zlbi -> vinv (head (sd_nub d) z_ub) = Ok zubi ->
  (forall c0, scal_ok d' (new_scal d' c0 rho delta s s_lb s_ub zi zlbi zubi)) -> delta <> 0%Qc ->
  exists k1 k2 k0 k3 X',
    eq_update_data d' k mask = Ok k1 /\ eq_update_scalings d' k1 rho delta s s_lb s_ub z z_lb z_ub = Ok k2 /\
    eq_init d' rho0 delta0 None = Ok k0 /\ eq_update_scalings d' k0 rho delta s s_lb s_ub z z_lb z_ub = Ok k3 /\
    eqF d' X' (new_scal d' (ek_sc k) rho delta s s_lb s_ub zi zlbi zubi) k2 /\ canon_cache (sd_AT d') X' /\
    ek_kp k2 = ek_kp k3 /\ ek_ki k2 = ek_ki k3 /\ ek_kx k2 = ek_kx k3.
Proof.
  intros Hok Hst (Xc & Ecan & Cr & Cc) Lp La Lg Hcov d' Hsc Hd0 Hu0 L1 L2 L3 L4 E1 E2 E3 Hsc2 Hd.
  pose proof Hok as (Hwf & Hup & Hs & HsG). pose proof Hwf as (_ & _ & _ & HwA & HnA & HcA & _).
  destruct (eq_update_data_form d Hok X k mask px ax gx lbs ubs Hst Lp La Lg Hcov Hsc) as (k1 & X1 & Eu & St1 & Sc1 & R1 & R2 & _ & _).
  fold d' in Eu, St1.
  assert (Hok' : elim_data_ok d' (sd_GT d')).
  { split; [unfold d', with_all; apply wf_with_GT; [apply wf_with_AT; [apply wf_with_P|]|]; auto|]. split; [exact Hup|]. split; [exact Hs|exact HsG]. }
  destruct (eq_update_scalings_thm d' Hok' X1 k1 rho delta s s_lb s_ub z z_lb z_ub zi zlbi zubi St1 L1 L2 L3 L4 E1 E2 E3 (Hsc2 _) Hd) as (k2 & Es2 & Hf2).
  destruct (eq_init_form d' Hok' rho0 delta0 Hd0 Hu0) as (k0 & X0 & E0 & Hf0 & Ecan0).
  pose proof Hf0 as (St0 & _).
  destruct (eq_update_scalings_thm d' Hok' X0 k0 rho delta s s_lb s_ub z z_lb z_ub zi zlbi zubi St0 L1 L2 L3 L4 E1 E2 E3 (Hsc2 _) Hd) as (k3 & Es3 & Hf3).
  destruct (csc_transpose_pat (sd_AT d) (sd_AT d') Xc (sd_n d) (sd_p d) HwA (wf_set_vals _ ax HwA La) (same_pat_set_vals _ ax HwA La) HnA HcA Ecan)
    as (X0' & E0' & B1 & B2).
  rewrite Ecan0 in E0'. injection E0' as <-.
  exists k1, k2, k0, k3, X1. split; [exact Eu|]. split; [exact Es2|]. split; [exact E0|]. split; [exact Es3|].
  rewrite Sc1 in Hf2. split; [exact Hf2|].
  split; [exists X0; split; [exact Ecan0|split; congruence]|].
  apply (e_form_matrix_eq d' (sd_AT d') (sd_GT d') (sd_p d') (sd_m d') X0 X1 true true _ _ _ _ _ _ k3 k2 Hf3 Hf2); try congruence.
  intros i j. destruct (vinv_ok _ _ E2) as [Lz2 _]. destruct (vinv_ok _ _ E3) as [Lz3 _].
  rewrite head_length in Lz2 by auto. rewrite head_length in Lz3 by auto.
  unfold Kgen, TLeq, TLgen, Deq.
  rewrite (bdiag_new_scal d' (ek_sc k0) (ek_sc k) rho delta s s_lb s_ub zi zlbi zubi i L1 L3 Lz2 Lz3). reflexivity.
Qed.
