(* KKTSparseSolveProofs.v -- proofs about KKTSparseSolve.v (the solve path of sparse/kkt.hpp, refinement off):
   from the denotation of the stored matrix (assembly theorems), the permutation identities and the correctness of the sparse
   LDL^T (C14) to the full un-eliminated Newton system, for the four KKT modes and every size. *)
From PIQP Require Import Base CSC LDLSparse C14LemmasProofs PatternsProofs CSCProofs PermuteProofs LDLSolveProofs LDLSparseProofs
  LDLSparseValuesProofs LDLSparseFinalProofs LDLValuesFinalProofs LinAlg KKTProofs
  KKTSparseFull KKTSparseFullProofs KKTSparseFullPerm KKTSparseFullPermProofs KKTSparseAll KKTSparseEq KKTSparseIneq KKTSparseSolve.
From Coq Require Import Lia.
Local Open Scope Qc_scope.

(* ================================================================ sums *)
Lemma fsum_sum n f : fsum n f = sum n f.
Proof. induction n; simpl; [reflexivity|]. now rewrite IHn. Qed.
Lemma sum_n_sum n f : sum_n n f = sum n f.
Proof. induction n; simpl; [reflexivity|]. now rewrite IHn. Qed.

Lemma sum_app a b f : sum (a + b) f = sum a f + sum b (fun j => f (a + j)%nat).
Proof.
  induction b.
  - rewrite Nat.add_0_r. simpl. ring.
  - rewrite Nat.add_succ_r. simpl. rewrite IHb. ring.
Qed.

Lemma sum_single n k f : (k < n)%nat -> (forall i, (i < n)%nat -> i <> k -> f i = 0) -> sum n f = f k.
Proof.
  intros Hk H0. rewrite (sum_ext n f (fun j => if Nat.eqb j k then f j else 0)).
  - now apply sum_delta.
  - intros i Hi. destruct (Nat.eqb_spec i k); [reflexivity|]. now apply H0.
Qed.

(* re-indexing a sum by a bijection of [0, N) given with its inverse *)
Lemma sum_reindex N (pv P : nat -> nat) g :
  (forall i, (i < N)%nat -> (pv i < N)%nat) -> (forall j, (j < N)%nat -> (P j < N)%nat) ->
  (forall i, (i < N)%nat -> P (pv i) = i) -> (forall j, (j < N)%nat -> pv (P j) = j) ->
  sum N g = sum N (fun j' => g (pv j')).
Proof.
  intros H1 H2 H3 H4.
  transitivity (sum N (fun j => sum N (fun j' => if Nat.eqb (pv j') j then g j else 0))).
  - apply sum_ext. intros j Hj. symmetry. rewrite (sum_single N (P j)); auto.
    + rewrite H4 by auto. now rewrite Nat.eqb_refl.
    + intros i Hi Hne. destruct (Nat.eqb_spec (pv i) j) as [E|]; [|reflexivity].
      exfalso. apply Hne. rewrite <- E. now rewrite H3.
  - rewrite sum_swap. apply sum_ext. intros j' Hj'.
    apply (sum_delta' N (pv j') g). auto.
Qed.

(* ================================================================ tab *)
Lemma mapM_seq_inv (f : nat -> res F) k : forall lo v, mapM f (seq lo k) = Ok v ->
  length v = k /\ forall i, (i < k)%nat -> f (lo + i)%nat = Ok (nth i v 0).
Proof.
  induction k; intros lo v H; cbn [seq mapM] in H.
  - inversion H. split; [reflexivity|]. intros; lia.
  - destruct (f lo) as [a|] eqn:Ea; cbn [bind] in H; [|discriminate].
    destruct (mapM f (seq (S lo) k)) as [w|] eqn:Ew; cbn [bind] in H; [|discriminate].
    inversion H; subst v. destruct (IHk (S lo) w Ew) as [L Hn]. split; [simpl; lia|].
    intros [|i] Hi; simpl.
    + now rewrite Nat.add_0_r.
    + rewrite <- (Hn i) by lia. f_equal. lia.
Qed.

Lemma mapM_seq_intro (f : nat -> res F) (g : nat -> F) k : forall lo,
  (forall i, (i < k)%nat -> f (lo + i)%nat = Ok (g (lo + i)%nat)) -> mapM f (seq lo k) = Ok (map g (seq lo k)).
Proof.
  induction k; intros lo H; cbn [seq mapM map]; [reflexivity|].
  rewrite <- (Nat.add_0_r lo) at 1. rewrite (H 0%nat) by lia. rewrite Nat.add_0_r. cbn [bind].
  rewrite IHk; [reflexivity|]. intros i Hi. replace (S lo + i)%nat with (lo + S i)%nat by lia. apply H. lia.
Qed.

Lemma tab_inv n f v : tab n f = Ok v -> length v = n /\ forall i, (i < n)%nat -> f i = Ok (nth i v 0).
Proof. intros H. apply (mapM_seq_inv f n 0%nat v H). Qed.

Lemma tab_intro n f (g : nat -> F) : (forall i, (i < n)%nat -> f i = Ok (g i)) -> tab n f = Ok (map g (seq 0 n)).
Proof. intros H. apply (mapM_seq_intro f g n 0%nat). exact H. Qed.

(* the list form: a vector of the right length whose entries are the values of f *)
Lemma tab_eq n f (v : Vec) : length v = n -> (forall i, (i < n)%nat -> f i = Ok (nth i v 0)) -> tab n f = Ok v.
Proof.
  intros L H. rewrite (tab_intro n f (fun i => nth i v 0) H). f_equal.
  apply (nth_ext _ _ 0 0).
  - rewrite map_length, seq_length. nlia.
  - intros i Hi. rewrite map_length, seq_length in Hi. now rewrite nth_map_seq.
Qed.

Lemma tabv_len n (g : nat -> F) : length (map g (seq 0 n)) = n.
Proof. now rewrite map_length, seq_length. Qed.
Lemma tabv_nth n (g : nat -> F) i : (i < n)%nat -> nth i (map g (seq 0 n)) 0 = g i.
Proof. intros. now apply nth_map_seq. Qed.

Lemma chk_eq_ok {A} n (v : list A) : length v = n -> chk_eq n v = Ok tt.
Proof. intros H. unfold chk_eq. rewrite H, Nat.eqb_refl. reflexivity. Qed.

(* ================================================================ Eigen products *)
Lemma spmv_len M v : length (spmv M v) = nrows M.
Proof. unfold spmv. apply tabv_len. Qed.
Lemma spmv_nth M v i : (i < nrows M)%nat -> nth i (spmv M v) 0 = sum (ncols M) (fun l => csc_get M i l * nth l v 0).
Proof. intros H. unfold spmv. rewrite tabv_nth by auto. apply fsum_sum. Qed.
Lemma spmtv_len M v : length (spmtv M v) = ncols M.
Proof. unfold spmtv. apply tabv_len. Qed.
Lemma spmtv_nth M v l : (l < ncols M)%nat -> nth l (spmtv M v) 0 = sum (nrows M) (fun i => csc_get M i l * nth i v 0).
Proof. intros H. unfold spmtv. rewrite tabv_nth by auto. apply fsum_sum. Qed.
Lemma putri_len P v : length (putri_mv P v) = nrows P.
Proof. unfold putri_mv. apply tabv_len. Qed.
Lemma putri_nth P v i : (i < nrows P)%nat ->
  nth i (putri_mv P v) 0 = sum (ncols P) (fun j => csc_get P i j * nth j v 0 + (if (j <? i)%nat then csc_get P j i * nth j v 0 else 0)).
Proof. intros H. unfold putri_mv. rewrite tabv_nth by auto. apply fsum_sum. Qed.

(* ================================================================ the linear core: perm, LDL^T solve, permt *)
Definition symK (Km : nat -> nat -> Qc) (i j : nat) : Qc := if (i <=? j)%nat then Km i j else Km j i.

(* the ordering object: P a permutation of [0, N), P_inv its inverse (what AMDOrdering::init leaves) *)
Definition ord_ok (N : nat) (o : ordering) : Prop :=
  perm_wf (oP o) /\ length (oP o) = N /\ length (oPinv o) = N /\
  (forall i, (i < N)%nat -> (nth i (oPinv o) 0 < N)%nat) /\
  (forall i, (i < N)%nat -> nth (nth i (oPinv o) 0%nat) (oP o) 0%nat = i).

(* the stored matrix K (upper triangle, N x N) denotes the symmetric operator Km in the ordering o *)
Definition denotes (N : nat) (o : ordering) (K : csc F) (Km : nat -> nat -> Qc) : Prop :=
  wf_csc K = true /\ nrows K = N /\ ncols K = N /\ upper_only K = true /\ nodup_cols K /\
  forall i j, (i <= j)%nat -> (j < N)%nat ->
    csc_get K (Nat.min (nth i (oPinv o) 0%nat) (nth j (oPinv o) 0%nat)) (Nat.max (nth i (oPinv o) 0%nat) (nth j (oPinv o) 0%nat)) = Km i j.

Lemma ord_ok_PI N o : ord_ok N o -> forall j, (j < N)%nat -> nth (nth j (oP o) 0%nat) (oPinv o) 0%nat = j.
Proof.
  intros (Hw & LP & LI & Hr & Hi) j Hj.
  assert (Hpj : (nth j (oP o) 0 < N)%nat) by (rewrite <- LP; apply perm_wf_range; auto; lia).
  apply (perm_wf_inj (oP o)); auto; try lia; try (rewrite LP; now apply Hr); try (now apply Hi).
Qed.

(* what the solve path needs from a factorisation state: solve_inplace returns the solution of (the symmetric matrix stored in) K *)
Definition ldl_solves (K : csc F) (st : ldl_i * ldl_v) : Prop :=
  forall b : list F, length b = nrows K ->
    exists x, ldl_solve st b = Ok x /\ length x = nrows K /\
      forall i, (i < nrows K)%nat -> sum_n (nrows K) (fun j => sym_get K i j * nth j x 0) = nth i b 0.

(* a fresh factorisation (symbolic + numeric phase) without zero pivot provides it: C14_ldl_sparse_correct *)
Lemma ldl_factor_solves N o K Km st : denotes N o K Km -> ldl_factor K = Ok (N, st) -> ldl_solves K st.
Proof.
  intros (Hwf & Hnr & Hnc & Hup & Hnd & _) Hf b Lb. destruct st as [li lv].
  assert (Hsq : ncols K = nrows K) by lia. rewrite <- Hnr in Hf.
  destruct (ldl_sparse_correct_full K b Hwf Hsq Hup Hnd Lb li lv Hf) as (_ & _ & _ & _ & _ & _ & x & Ex & Lx & Hx).
  exists x. auto.
Qed.

Theorem lin_core_s N o K Km st (rhs : Vec) :
  ord_ok N o -> denotes N o K Km -> ldl_solves K st -> length rhs = N ->
  exists rp xp sol, ord_perm o (repeat 0 N) rhs = Ok rp /\ ldl_solve st rp = Ok xp /\ ord_permt o rhs xp = Ok sol /\
    length sol = N /\ forall i, (i < N)%nat -> sum N (fun j => symK Km i j * nth j sol 0) = nth i rhs 0.
Proof.
  intros Ho (Hwf & Hnr & Hnc & Hup & Hnd & Hden) Hf Lr.
  pose proof (ord_ok_PI N o Ho) as HPI.
  destruct Ho as (Hw & LP & LI & Hrng & Hinv).
  destruct (ord_perm_spec (0 : F) o (repeat 0 N) rhs) as (rp & Erp & Lrp & Hrp).
  { intros i Hi. apply perm_wf_range; auto. } { rewrite repeat_length; auto. } { nlia. }
  assert (Lrp' : length rp = nrows K) by nlia.
  destruct (Hf rp Lrp') as (xp & Exp & Lxp & Hxp).
  destruct (ord_permt_spec (0 : F) o rhs xp Hw) as (sol & Esol & Lsol & Hsol); try nlia.
  exists rp, xp, sol. split; [exact Erp|]. split; [exact Exp|]. split; [exact Esol|]. split; [nlia|].
  intros i Hi.
  set (pv := fun a => nth a (oPinv o) 0%nat). set (P := fun a => nth a (oP o) 0%nat).
  assert (Hi' : (pv i < nrows K)%nat) by (rewrite Hnr; apply Hrng; auto).
  specialize (Hxp (pv i) Hi'). rewrite sum_n_sum in Hxp. rewrite Hnr in Hxp.
  rewrite (sum_reindex N pv P) in Hxp.
  - rewrite Hrp in Hxp by (rewrite LP; apply Hrng; auto). replace (nth (pv i) (oP o) 0%nat) with i in Hxp by (symmetry; apply Hinv; auto).
    rewrite <- Hxp. apply sum_ext. intros j Hj. f_equal.
    + (* the entry *)
      unfold symK, sym_get. fold (pv i) (pv j).
      destruct (Nat.leb_spec i j) as [Hij|Hij].
      * rewrite <- (Hden i j Hij Hj). fold (pv i) (pv j).
        destruct (Nat.leb_spec (pv i) (pv j)); [rewrite Nat.min_l, Nat.max_r by lia|rewrite Nat.min_r, Nat.max_l by lia]; reflexivity.
      * rewrite <- (Hden j i ltac:(lia) Hi). fold (pv i) (pv j).
        destruct (Nat.leb_spec (pv i) (pv j)); [rewrite Nat.min_r, Nat.max_l by lia|rewrite Nat.min_l, Nat.max_r by lia]; reflexivity.
    + rewrite <- (Hsol (pv j)) by (rewrite LP; apply Hrng; auto). unfold pv. now rewrite Hinv.
  - intros a Ha. apply Hrng; auto.
  - intros a Ha. unfold P. rewrite <- LP. apply perm_wf_range; auto. lia.
  - intros a Ha. apply Hinv; auto.
  - intros a Ha. apply HPI; auto.
Qed.

Theorem lin_core N o K Km st (rhs : Vec) :
  ord_ok N o -> denotes N o K Km -> ldl_factor K = Ok (N, st) -> length rhs = N ->
  exists rp xp sol, ord_perm o (repeat 0 N) rhs = Ok rp /\ ldl_solve st rp = Ok xp /\ ord_permt o rhs xp = Ok sol /\
    length sol = N /\ forall i, (i < N)%nat -> sum N (fun j => symK Km i j * nth j sol 0) = nth i rhs 0.
Proof. intros Ho Hden Hf. apply (lin_core_s N o K Km st rhs Ho Hden (ldl_factor_solves N o K Km st Hden Hf)). Qed.

(* ================================================================ accumulation loops over the box indices *)
Lemma box_loop (g : nat -> Vec -> res Vec) nb L (col : nat -> nat) (t : nat -> F) (neg : bool) (rhs : Vec) :
  length rhs = L -> (forall i, (i < nb)%nat -> (col i < L)%nat) ->
  (forall i v, (i < nb)%nat -> length v = L ->
     g i v = Ok (lset v (col i) (if neg then nth (col i) v 0 - t i else nth (col i) v 0 + t i))) ->
  exists r', for_range 0 nb g rhs = Ok r' /\ length r' = L /\
    forall j, (j < L)%nat -> nth j r' 0 = if neg then nth j rhs 0 - sum nb (fun k => if Nat.eqb (col k) j then t k else 0)
                                          else nth j rhs 0 + sum nb (fun k => if Nat.eqb (col k) j then t k else 0).
Proof.
  intros Lr Hc Hg.
  destruct (for_range_ind (fun k (v : Vec) => length v = L /\ forall j, (j < L)%nat ->
              nth j v 0 = if neg then nth j rhs 0 - sum k (fun k => if Nat.eqb (col k) j then t k else 0)
                          else nth j rhs 0 + sum k (fun k => if Nat.eqb (col k) j then t k else 0)) 0 nb g rhs) as (r' & E & L' & H'); try lia.
  - split; auto. intros j Hj. simpl. destruct neg; qring.
  - intros i v [_ Hi] [Lv Hv]. rewrite Hg by auto. eexists. split; [reflexivity|]. split; [now rewrite lset_length|].
    intros j Hj. rewrite nth_lset by (rewrite Lv; auto). simpl sum.
    destruct (Nat.eqb_spec j (col i)) as [->|Hne].
    + rewrite Nat.eqb_refl. rewrite Hv by auto. destruct neg; qring.
    + destruct (Nat.eqb_spec (col i) j); [congruence|]. rewrite Hv by auto. destruct neg; qring.
  - eauto.
Qed.

(* ================================================================ the L2 system of data, scalings and right-hand side *)
Definition sysr (d : sdata) (c : scal) (r : step8) : L2sys :=
  {| y_n := sd_n d; y_p := sd_p d; y_m := sd_m d; y_nlb := sd_nlb d; y_nub := sd_nub d;
     y_Psym := (fun i j => if (i <=? j)%nat then csc_get (sd_P d) i j else csc_get (sd_P d) j i);
     y_AT := csc_get (sd_AT d); y_GT := csc_get (sd_GT d);
     y_rho := sc_rho c; y_delta := sc_delta c; y_s := fv (sc_s c); y_zinv := fv (sc_z_inv c);
     y_lbidx := fidx (sd_lbidx d); y_ubidx := fidx (sd_ubidx d);
     y_lbs := fv (sd_lbs d); y_ubs := fv (sd_ubs d);
     y_slb := fv (sc_s_lb c); y_sub := fv (sc_s_ub c); y_zli := fv (sc_z_lb_inv c); y_zui := fv (sc_z_ub_inv c);
     y_rx := fv (t_x r); y_ry := fv (t_y r); y_rz := fv (t_z r); y_rzlb := fv (t_zlb r); y_rzub := fv (t_zub r);
     y_rs := fv (t_s r); y_rslb := fv (t_slb r); y_rsub := fv (t_sub r) |}.

Lemma sysr_Psym_sym d c r a b : y_Psym (sysr d c r) a b = y_Psym (sysr d c r) b a.
Proof.
  cbn [sysr y_Psym]. destruct (Nat.leb_spec a b), (Nat.leb_spec b a); try reflexivity; try lia.
  assert (a = b) by lia. subst. reflexivity.
Qed.

(* the operators do not look at the right-hand side *)
Lemma Kfull_sysr d c r i j : Kfull (sysr d c r) i j = Kfull (sys_sparse d c) i j.
Proof. reflexivity. Qed.
Lemma aKred_sysr d c r i j : a_Kred (sysr d c r) i j = a_Kred (sys_sparse d c) i j.
Proof. reflexivity. Qed.

(* the full un-eliminated regularised Newton system, on functions *)
Definition newton8_fun (Y : L2sys) (dx dy dz dzlb dzub ds dslb dsub : nat -> Qc) : Prop :=
  (forall i, (i < y_n Y)%nat ->
     sum (y_n Y) (fun j => y_Psym Y i j * dx j) + y_rho Y * dx i
     + (sum (y_p Y) (fun l => dy l * y_AT Y i l) + sum (y_m Y) (fun l => dz l * y_GT Y i l))
     - sum (y_nlb Y) (fun k => if Nat.eqb (y_lbidx Y k) i then y_lbs Y k * dzlb k else 0)
     + sum (y_nub Y) (fun k => if Nat.eqb (y_ubidx Y k) i then y_ubs Y k * dzub k else 0) = y_rx Y i) /\
  (forall l, (l < y_p Y)%nat -> sum (y_n Y) (fun j => y_AT Y j l * dx j) - y_delta Y * dy l = y_ry Y l) /\
  (forall l, (l < y_m Y)%nat -> sum (y_n Y) (fun j => y_GT Y j l * dx j) - y_delta Y * dz l + ds l = y_rz Y l) /\
  (forall k, (k < y_nlb Y)%nat -> - (y_lbs Y k * dx (y_lbidx Y k)) - y_delta Y * dzlb k + dslb k = y_rzlb Y k) /\
  (forall k, (k < y_nub Y)%nat -> y_ubs Y k * dx (y_ubidx Y k) - y_delta Y * dzub k + dsub k = y_rzub Y k) /\
  (forall l, (l < y_m Y)%nat -> y_s Y l * dz l + 1 / y_zinv Y l * ds l = y_rs Y l) /\
  (forall k, (k < y_nlb Y)%nat -> y_slb Y k * dzlb k + 1 / y_zli Y k * dslb k = y_rslb Y k) /\
  (forall k, (k < y_nub Y)%nat -> y_sub Y k * dzub k + 1 / y_zui Y k * dsub k = y_rsub Y k).

Definition newton8 (d : sdata) (c : scal) (v r : step8) : Prop :=
  newton8_fun (sysr d c r) (fv (t_x v)) (fv (t_y v)) (fv (t_z v)) (fv (t_zlb v)) (fv (t_zub v)) (fv (t_s v)) (fv (t_slb v)) (fv (t_sub v)).

(* ================================================================ block elimination algebra *)
(* the goal A = B follows from E : C = D by ring after adding C - D = 0 *)
Ltac lin_from E :=
  match type of E with ?C = ?D => match goal with |- ?A = ?B => transitivity (A - C + D); [rewrite E; ring | ring] end end.

Section Alg.
Variable Y : L2sys.
Variables dx dy dz dzlb dzub ds dslb dsub : nat -> Qc.
Local Notation n := (y_n Y). Local Notation p := (y_p Y). Local Notation m := (y_m Y).
Local Notation nlb := (y_nlb Y). Local Notation nub := (y_nub Y).
Hypothesis Hzinv : forall l, (l < m)%nat -> y_zinv Y l <> 0.
Hypothesis Hzli : forall k, (k < nlb)%nat -> y_zli Y k <> 0.
Hypothesis Hwlb : forall k, (k < nlb)%nat -> y_slb Y k * y_zli Y k + y_delta Y <> 0.
Hypothesis Hzui : forall k, (k < nub)%nat -> y_zui Y k <> 0.
Hypothesis Hwub : forall k, (k < nub)%nat -> y_sub Y k * y_zui Y k + y_delta Y <> 0.
Hypothesis Hdzlb : forall k, (k < nlb)%nat -> dzlb k = a_dzlb Y dx k.
Hypothesis Hdzub : forall k, (k < nub)%nat -> dzub k = a_dzub Y dx k.
Hypothesis Hds : forall l, (l < m)%nat -> ds l = y_zinv Y l * (y_rs Y l - y_s Y l * dz l).
Hypothesis Hdslb : forall k, (k < nlb)%nat -> dslb k = a_dslb Y dx k.
Hypothesis Hdsub : forall k, (k < nub)%nat -> dsub k = a_dsub Y dx k.

(* the three block rows of the KKT_FULL system with the bound rows folded in *)
Definition full_rows : Prop :=
  (forall i, (i < n)%nat ->
     sum n (fun j => y_Psym Y i j * dx j) + (y_rho Y + a_bdiag Y i) * dx i
     + sum p (fun l => dy l * y_AT Y i l) + sum m (fun l => dz l * y_GT Y i l)
     = y_rx Y i - sum nlb (fun k => if Nat.eqb (y_lbidx Y k) i then a_tlb Y k else 0)
               + sum nub (fun k => if Nat.eqb (y_ubidx Y k) i then a_tub Y k else 0)) /\
  (forall l, (l < p)%nat -> sum n (fun j => y_AT Y j l * dx j) - y_delta Y * dy l = y_ry Y l) /\
  (forall l, (l < m)%nat -> sum n (fun j => y_GT Y j l * dx j) - (y_s Y l * y_zinv Y l + y_delta Y) * dz l
                           = y_rz Y l - y_zinv Y l * y_rs Y l).

Theorem alg_full : full_rows -> newton8_fun Y dx dy dz dzlb dzub ds dslb dsub.
Proof.
  intros (HX & HY & HZ). unfold newton8_fun. repeat split.
  - intros i Hi.
    rewrite (sum_ext nlb (fun k => if Nat.eqb (y_lbidx Y k) i then y_lbs Y k * dzlb k else 0)
                         (fun k => if Nat.eqb (y_lbidx Y k) i then y_lbs Y k * a_dzlb Y dx k else 0))
      by (intros k Hk; rewrite Hdzlb by auto; reflexivity).
    rewrite (sum_ext nub (fun k => if Nat.eqb (y_ubidx Y k) i then y_ubs Y k * dzub k else 0)
                         (fun k => if Nat.eqb (y_ubidx Y k) i then y_ubs Y k * a_dzub Y dx k else 0))
      by (intros k Hk; rewrite Hdzub by auto; reflexivity).
    rewrite alg_fold_lb, alg_fold_ub. pose proof (HX i Hi) as E. unfold a_bdiag in E.
    set (X1 := sum n (fun j => y_Psym Y i j * dx j)) in *.
    set (X2 := sum p (fun l => dy l * y_AT Y i l)) in *.
    set (X3 := sum m (fun l => dz l * y_GT Y i l)) in *.
    set (X6 := sum nlb (fun k => if Nat.eqb (y_lbidx Y k) i then a_tlb Y k else 0)) in *.
    set (X7 := sum nub (fun k => if Nat.eqb (y_ubidx Y k) i then a_tub Y k else 0)) in *.
    set (X8 := sum nlb (fun k => if Nat.eqb (y_lbidx Y k) i then y_lbs Y k * y_lbs Y k * a_wlb Y k else 0)) in *.
    set (X9 := sum nub (fun k => if Nat.eqb (y_ubidx Y k) i then y_ubs Y k * y_ubs Y k * a_wub Y k else 0)) in *.
    assert (E' : y_rx Y i = X1 + (y_rho Y + (X8 + X9)) * dx i + X2 + X3 + X6 - X7) by (rewrite E; ring).
    rewrite E'. ring.
  - exact HY.
  - intros l Hl. rewrite Hds by auto. pose proof (HZ l Hl) as E.
    assert (E' : sum n (fun j => y_GT Y j l * dx j) = y_rz Y l - y_zinv Y l * y_rs Y l + (y_s Y l * y_zinv Y l + y_delta Y) * dz l)
      by (rewrite <- E; ring).
    rewrite E'. ring.
  - intros k Hk. rewrite Hdzlb, Hdslb by auto. apply (alg_row_zlb Y dx Hwlb k Hk).
  - intros k Hk. rewrite Hdzub, Hdsub by auto. apply (alg_row_zub Y dx Hwub k Hk).
  - intros l Hl. rewrite Hds by auto. field. auto.
  - intros k Hk. rewrite Hdzlb, Hdslb by auto. apply (alg_row_slb Y dx Hzli k Hk).
  - intros k Hk. rewrite Hdzub, Hdsub by auto. apply (alg_row_sub Y dx Hzui k Hk).
Qed.

(* KKT_EQ_ELIMINATED: the y block is recovered by dy = (A dx - ry) / delta *)
Definition eq_rows : Prop :=
  (forall i, (i < n)%nat ->
     sum n (fun j => y_Psym Y i j * dx j) + (y_rho Y + a_bdiag Y i) * dx i + a_dinv Y * sum n (fun j => a_SA Y i j * dx j)
     + sum m (fun l => dz l * y_GT Y i l)
     = y_rx Y i + a_dinv Y * sum p (fun l => y_ry Y l * y_AT Y i l)
       - sum nlb (fun k => if Nat.eqb (y_lbidx Y k) i then a_tlb Y k else 0)
       + sum nub (fun k => if Nat.eqb (y_ubidx Y k) i then a_tub Y k else 0)) /\
  (forall l, (l < m)%nat -> sum n (fun j => y_GT Y j l * dx j) - (y_s Y l * y_zinv Y l + y_delta Y) * dz l
                           = y_rz Y l - y_zinv Y l * y_rs Y l).

Lemma alg_eq : y_delta Y <> 0 -> (forall l, (l < p)%nat -> dy l = a_dy Y dx l) -> eq_rows -> full_rows.
Proof.
  intros Hd Hdy (HX & HZ). split; [|split]; [| |exact HZ].
  - intros i Hi.
    rewrite (sum_ext p (fun l => dy l * y_AT Y i l) (fun l => a_dy Y dx l * y_AT Y i l)) by (intros l Hl; now rewrite Hdy).
    rewrite alg_fold_A. pose proof (HX i Hi) as E. lin_from E.
  - intros l Hl. rewrite Hdy by auto. apply (alg_row_y Y dx Hd l).
Qed.

(* KKT_INEQ_ELIMINATED: the z block is recovered by dz = W G dx - W (rz - Z^-1 rs) *)
Definition ineq_rows : Prop :=
  (forall i, (i < n)%nat ->
     sum n (fun j => y_Psym Y i j * dx j) + (y_rho Y + a_bdiag Y i) * dx i + sum n (fun j => a_SG Y i j * dx j)
     + sum p (fun l => dy l * y_AT Y i l)
     = y_rx Y i + sum m (fun l => a_rzbar Y l * y_GT Y i l)
       - sum nlb (fun k => if Nat.eqb (y_lbidx Y k) i then a_tlb Y k else 0)
       + sum nub (fun k => if Nat.eqb (y_ubidx Y k) i then a_tub Y k else 0)) /\
  (forall l, (l < p)%nat -> sum n (fun j => y_AT Y j l * dx j) - y_delta Y * dy l = y_ry Y l).

Lemma alg_ineq : (forall l, (l < m)%nat -> y_s Y l * y_zinv Y l + y_delta Y <> 0) ->
  (forall l, (l < m)%nat -> dz l = a_dz Y dx l) -> ineq_rows -> full_rows.
Proof.
  intros Hw Hdz (HX & HY). split; [|split]; [|exact HY|].
  - intros i Hi.
    rewrite (sum_ext m (fun l => dz l * y_GT Y i l) (fun l => a_dz Y dx l * y_GT Y i l)) by (intros l Hl; now rewrite Hdz).
    rewrite alg_fold_G. pose proof (HX i Hi) as E. lin_from E.
  - intros l Hl. rewrite Hdz by auto. unfold a_dz, a_GTdx, a_rzbar, a_w. field. auto.
Qed.

(* KKT_ALL_ELIMINATED *)
Definition all_rows : Prop :=
  forall i, (i < n)%nat -> sum n (fun j => a_Kred Y i j * dx j) = a_rhs Y i.

Lemma alg_all : y_delta Y <> 0 -> (forall l, (l < m)%nat -> y_s Y l * y_zinv Y l + y_delta Y <> 0) ->
  (forall l, (l < p)%nat -> dy l = a_dy Y dx l) -> (forall l, (l < m)%nat -> dz l = a_dz Y dx l) -> all_rows -> full_rows.
Proof.
  intros Hd Hw Hdy Hdz HX. split; [|split].
  - intros i Hi. pose proof (HX i Hi) as E. rewrite alg_Kred_mul in E by auto. unfold a_rhs in E.
    rewrite (sum_ext p (fun l => dy l * y_AT Y i l) (fun l => a_dy Y dx l * y_AT Y i l)) by (intros l Hl; now rewrite Hdy).
    rewrite (sum_ext m (fun l => dz l * y_GT Y i l) (fun l => a_dz Y dx l * y_GT Y i l)) by (intros l Hl; now rewrite Hdz).
    rewrite alg_fold_A, alg_fold_G.
    set (X1 := sum n (fun j => y_Psym Y i j * dx j)) in *.
    set (X2 := sum n (fun j => a_SG Y i j * dx j)) in *.
    set (X3 := sum n (fun j => a_SA Y i j * dx j)) in *.
    set (X4 := sum m (fun l => a_rzbar Y l * y_GT Y i l)) in *.
    set (X5 := sum p (fun l => y_ry Y l * y_AT Y i l)) in *.
    set (X6 := sum nlb (fun k => if Nat.eqb (y_lbidx Y k) i then a_tlb Y k else 0)) in *.
    set (X7 := sum nub (fun k => if Nat.eqb (y_ubidx Y k) i then a_tub Y k else 0)) in *.
    assert (E' : y_rx Y i = X1 + (y_rho Y + a_bdiag Y i) * dx i + X2 + a_dinv Y * X3 - X4 - a_dinv Y * X5 + X6 - X7) by (rewrite E; ring).
    rewrite E'. ring.
  - intros l Hl. rewrite Hdy by auto. apply (alg_row_y Y dx Hd l).
  - intros l Hl. rewrite Hdz by auto. unfold a_dz, a_GTdx, a_rzbar, a_w. field. auto.
Qed.
End Alg.

(* ================================================================ the elementwise pieces of solve / multiply *)
Lemma den_shift s zi delta : zi <> 0 -> s * zi + delta <> 0 -> s + delta / zi <> 0.
Proof. intros Hz Hw E. apply Hw. replace (s * zi + delta) with ((s + delta / zi) * zi) by (field; auto). rewrite E. ring. Qed.

Ltac getn := repeat (rewrite (get_nth _ _ (0 : F)) by nlia; cbn [bind]).

Lemma fold_box_spec nb idx (sc rz rs zinv s : Vec) delta neg (rhs : Vec) L :
  length rhs = L -> (nb <= length idx)%nat -> (nb <= length sc)%nat -> (nb <= length rz)%nat -> (nb <= length rs)%nat ->
  (nb <= length zinv)%nat -> (nb <= length s)%nat ->
  (forall k, (k < nb)%nat -> (fidx idx k < L)%nat) -> (forall k, (k < nb)%nat -> fv s k * fv zinv k + delta <> 0) ->
  exists r', fold_box nb idx sc rz rs zinv s delta neg rhs = Ok r' /\ length r' = L /\
    forall j, (j < L)%nat ->
      nth j r' 0 = if neg then nth j rhs 0 - sum nb (fun k => if Nat.eqb (fidx idx k) j
                                   then fv sc k * (fv rz k - fv zinv k * fv rs k) * (1 / (fv s k * fv zinv k + delta)) else 0)
                   else nth j rhs 0 + sum nb (fun k => if Nat.eqb (fidx idx k) j
                                   then fv sc k * (fv rz k - fv zinv k * fv rs k) * (1 / (fv s k * fv zinv k + delta)) else 0).
Proof.
  intros Lr L1 L2 L3 L4 L5 L6 Hidx Hw. unfold fold_box.
  apply (box_loop _ nb L (fidx idx) (fun k => fv sc k * (fv rz k - fv zinv k * fv rs k) * (1 / (fv s k * fv zinv k + delta))) neg rhs Lr Hidx).
  intros i v Hi Lv.
  rewrite (get_nth idx i 0%nat) by lia. cbn [bind]. getn.
  rewrite qdiv_nz by (apply (Hw i Hi)). cbn [bind].
  unfold fidx in *. pose proof (Hidx i Hi) as Hc. rewrite (get_nth _ (nth i idx 0%nat) (0 : F)) by nlia. cbn [bind].
  rewrite upd_lset by nlia. f_equal. f_equal. unfold fv. destruct neg; unfold Qcdiv; qring.
Qed.

Lemma rec_box_spec nb idx (sc rz rs zinv s : Vec) delta neg (dx : Vec) :
  (nb <= length idx)%nat -> (nb <= length sc)%nat -> (nb <= length rz)%nat -> (nb <= length rs)%nat ->
  (nb <= length zinv)%nat -> (nb <= length s)%nat ->
  (forall k, (k < nb)%nat -> (fidx idx k < length dx)%nat) ->
  (forall k, (k < nb)%nat -> fv zinv k <> 0 /\ fv s k * fv zinv k + delta <> 0) ->
  exists v, rec_box nb idx sc rz rs zinv s delta neg dx = Ok v /\ length v = nb /\
    forall k, (k < nb)%nat ->
      nth k v 0 = ((if neg then - (fv sc k * fv dx (fidx idx k)) else fv sc k * fv dx (fidx idx k)) - fv rz k + fv zinv k * fv rs k)
                  * (1 / (fv s k * fv zinv k + delta)).
Proof.
  intros L1 L2 L3 L4 L5 L6 Hidx Hnz. unfold rec_box.
  set (g := fun k => ((if neg then - (fv sc k * fv dx (fidx idx k)) else fv sc k * fv dx (fidx idx k)) - fv rz k + fv zinv k * fv rs k)
                  * (1 / (fv s k * fv zinv k + delta))).
  exists (map g (seq 0 nb)). split; [|split; [apply tabv_len|intros; now apply tabv_nth]].
  apply tab_intro. intros i Hi. destruct (Hnz i Hi) as [Hz Hw].
  rewrite (get_nth idx i 0%nat) by lia. cbn [bind]. getn.
  unfold fidx in *. pose proof (Hidx i Hi) as Hc. rewrite (get_nth _ (nth i idx 0%nat) (0 : F)) by nlia. cbn [bind].
  rewrite qdiv_nz by exact Hz. cbn [bind]. rewrite qdiv_nz by exact Hz. cbn [bind].
  rewrite qdiv_nz by (apply den_shift; auto). f_equal. unfold g, fv.
  destruct neg.
  - rewrite sparse_dz_lb_eq_dense_nz by auto. unfold Qcdiv. qring.
  - rewrite sparse_dz_ub_eq_dense_nz by auto. unfold Qcdiv. qring.
Qed.

Lemma rec_slack_spec k (s zinv rs dz : Vec) :
  (k <= length s)%nat -> (k <= length zinv)%nat -> (k <= length rs)%nat -> (k <= length dz)%nat ->
  (forall i, (i < k)%nat -> fv s i <> 0) ->
  exists v, rec_slack k s zinv rs dz = Ok v /\ length v = k /\
    forall i, (i < k)%nat -> nth i v 0 = fv zinv i * (fv rs i - fv s i * fv dz i).
Proof.
  intros L1 L2 L3 L4 Hs. unfold rec_slack.
  exists (map (fun i => fv zinv i * (fv rs i - fv s i * fv dz i)) (seq 0 k)).
  split; [|split; [apply tabv_len|intros; now apply tabv_nth]].
  apply tab_intro. intros i Hi. getn. rewrite qdiv_nz by (apply (Hs i Hi)). cbn [bind]. f_equal.
  unfold fv. apply sparse_ds_eq_dense_nz. apply (Hs i Hi).
Qed.

Lemma div_w_spec m (s zinv : Vec) delta (x : Vec) :
  (m <= length s)%nat -> (m <= length zinv)%nat -> (m <= length x)%nat ->
  (forall l, (l < m)%nat -> fv s l * fv zinv l + delta <> 0) ->
  exists v, div_w m s zinv delta x = Ok v /\ length v = m /\
    forall l, (l < m)%nat -> nth l v 0 = fv x l * (1 / (fv s l * fv zinv l + delta)).
Proof.
  intros L1 L2 L3 Hw. unfold div_w.
  exists (map (fun l => fv x l * (1 / (fv s l * fv zinv l + delta))) (seq 0 m)).
  split; [|split; [apply tabv_len|intros; now apply tabv_nth]].
  apply tab_intro. intros i Hi. getn. rewrite qdiv_nz by (apply (Hw i Hi)). f_equal. unfold fv, Qcdiv. qring.
Qed.

(* ================================================================ hypotheses on scalings and right-hand side *)
Definition solve_ok (d : sdata) (c : scal) : Prop :=
  length (sc_s c) = sd_m d /\ length (sc_z_inv c) = sd_m d /\
  (sd_nlb d <= length (sd_lbidx d))%nat /\ (sd_nlb d <= length (sd_lbs d))%nat /\
  (sd_nlb d <= length (sc_s_lb c))%nat /\ (sd_nlb d <= length (sc_z_lb_inv c))%nat /\
  (sd_nub d <= length (sd_ubidx d))%nat /\ (sd_nub d <= length (sd_ubs d))%nat /\
  (sd_nub d <= length (sc_s_ub c))%nat /\ (sd_nub d <= length (sc_z_ub_inv c))%nat /\
  (forall k, (k < sd_nlb d)%nat -> (fidx (sd_lbidx d) k < sd_n d)%nat) /\
  (forall k, (k < sd_nub d)%nat -> (fidx (sd_ubidx d) k < sd_n d)%nat) /\
  (forall l, (l < sd_m d)%nat -> fv (sc_s c) l <> 0 /\ fv (sc_z_inv c) l <> 0 /\ fv (sc_s c) l * fv (sc_z_inv c) l + sc_delta c <> 0) /\
  (forall k, (k < sd_nlb d)%nat -> fv (sc_s_lb c) k <> 0 /\ fv (sc_z_lb_inv c) k <> 0 /\ fv (sc_s_lb c) k * fv (sc_z_lb_inv c) k + sc_delta c <> 0) /\
  (forall k, (k < sd_nub d)%nat -> fv (sc_s_ub c) k <> 0 /\ fv (sc_z_ub_inv c) k <> 0 /\ fv (sc_s_ub c) k * fv (sc_z_ub_inv c) k + sc_delta c <> 0).

(* block sizes of a right-hand side / of a step handed to multiply: the bound blocks may be longer than n_lb / n_ub *)
Definition rhs_ok (d : sdata) (r : step8) : Prop :=
  length (t_x r) = sd_n d /\ length (t_y r) = sd_p d /\ length (t_z r) = sd_m d /\ length (t_s r) = sd_m d /\
  (sd_nlb d <= length (t_zlb r))%nat /\ (sd_nlb d <= length (t_slb r))%nat /\
  (sd_nub d <= length (t_zub r))%nat /\ (sd_nub d <= length (t_sub r))%nat.
(* block sizes of a returned step *)
Definition step_ok (d : sdata) (v : step8) : Prop :=
  length (t_x v) = sd_n d /\ length (t_y v) = sd_p d /\ length (t_z v) = sd_m d /\ length (t_s v) = sd_m d /\
  length (t_zlb v) = sd_nlb d /\ length (t_slb v) = sd_nlb d /\ length (t_zub v) = sd_nub d /\ length (t_sub v) = sd_nub d.

Section Pieces.
Variable d : sdata. Variable c : scal. Variable r : step8.
Hypothesis Hso : solve_ok d c.
Hypothesis Hro : rhs_ok d r.
Local Notation Y := (sysr d c r).
Local Notation n := (sd_n d). Local Notation p := (sd_p d). Local Notation m := (sd_m d).

(* the two box loops of the condensation *)
Lemma cond_box (rhs0 : Vec) N : length rhs0 = N -> (n <= N)%nat ->
  exists rhs1 rhs2,
    fold_box (sd_nlb d) (sd_lbidx d) (sd_lbs d) (t_zlb r) (t_slb r) (sc_z_lb_inv c) (sc_s_lb c) (sc_delta c) true rhs0 = Ok rhs1 /\
    fold_box (sd_nub d) (sd_ubidx d) (sd_ubs d) (t_zub r) (t_sub r) (sc_z_ub_inv c) (sc_s_ub c) (sc_delta c) false rhs1 = Ok rhs2 /\
    length rhs2 = N /\
    (forall j, (j < n)%nat -> nth j rhs2 0 = nth j rhs0 0 - sum (sd_nlb d) (fun k => if Nat.eqb (y_lbidx Y k) j then a_tlb Y k else 0)
                                             + sum (sd_nub d) (fun k => if Nat.eqb (y_ubidx Y k) j then a_tub Y k else 0)) /\
    (forall j, (n <= j < N)%nat -> nth j rhs2 0 = nth j rhs0 0).
Proof.
  intros L0 HnN.
  destruct Hso as (S1 & S2 & S3 & S4 & S5 & S6 & S7 & S8 & S9 & S10 & I1 & I2 & Hm & Hlb & Hub).
  destruct Hro as (R1 & R2 & R3 & R4 & R5 & R6 & R7 & R8).
  destruct (fold_box_spec (sd_nlb d) (sd_lbidx d) (sd_lbs d) (t_zlb r) (t_slb r) (sc_z_lb_inv c) (sc_s_lb c) (sc_delta c) true rhs0 N)
    as (rhs1 & E1 & L1 & H1); auto.
  { intros k Hk. specialize (I1 k Hk). lia. } { intros k Hk. apply (Hlb k Hk). }
  destruct (fold_box_spec (sd_nub d) (sd_ubidx d) (sd_ubs d) (t_zub r) (t_sub r) (sc_z_ub_inv c) (sc_s_ub c) (sc_delta c) false rhs1 N)
    as (rhs2 & E2 & L2 & H2); auto.
  { intros k Hk. specialize (I2 k Hk). lia. } { intros k Hk. apply (Hub k Hk). }
  exists rhs1, rhs2. split; [exact E1|]. split; [exact E2|]. split; [exact L2|]. split.
  - intros j Hj. rewrite H2, H1 by lia. reflexivity.
  - intros j Hj. rewrite H2, H1 by lia.
    rewrite !sum_zero_ext; [qring| |].
    + intros k Hk. destruct (Nat.eqb_spec (fidx (sd_ubidx d) k) j); [|reflexivity]. specialize (I2 k Hk). lia.
    + intros k Hk. destruct (Nat.eqb_spec (fidx (sd_lbidx d) k) j); [|reflexivity]. specialize (I1 k Hk). lia.
Qed.

(* recovery of the bound and slack blocks from delta_x and delta_z *)
Lemma recover (dx dz : Vec) : length dx = n -> length dz = m ->
  exists dzlb dzub ds dslb dsub,
    rec_box (sd_nlb d) (sd_lbidx d) (sd_lbs d) (t_zlb r) (t_slb r) (sc_z_lb_inv c) (sc_s_lb c) (sc_delta c) true dx = Ok dzlb /\
    rec_box (sd_nub d) (sd_ubidx d) (sd_ubs d) (t_zub r) (t_sub r) (sc_z_ub_inv c) (sc_s_ub c) (sc_delta c) false dx = Ok dzub /\
    rec_slack m (sc_s c) (sc_z_inv c) (t_s r) dz = Ok ds /\
    rec_slack (sd_nlb d) (sc_s_lb c) (sc_z_lb_inv c) (t_slb r) dzlb = Ok dslb /\
    rec_slack (sd_nub d) (sc_s_ub c) (sc_z_ub_inv c) (t_sub r) dzub = Ok dsub /\
    length dzlb = sd_nlb d /\ length dzub = sd_nub d /\ length ds = m /\ length dslb = sd_nlb d /\ length dsub = sd_nub d /\
    (forall k, (k < sd_nlb d)%nat -> fv dzlb k = a_dzlb Y (fv dx) k) /\
    (forall k, (k < sd_nub d)%nat -> fv dzub k = a_dzub Y (fv dx) k) /\
    (forall l, (l < m)%nat -> fv ds l = y_zinv Y l * (y_rs Y l - y_s Y l * fv dz l)) /\
    (forall k, (k < sd_nlb d)%nat -> fv dslb k = y_zli Y k * (y_rslb Y k - y_slb Y k * fv dzlb k)) /\
    (forall k, (k < sd_nub d)%nat -> fv dsub k = y_zui Y k * (y_rsub Y k - y_sub Y k * fv dzub k)).
Proof.
  intros Lx Lz.
  destruct Hso as (S1 & S2 & S3 & S4 & S5 & S6 & S7 & S8 & S9 & S10 & I1 & I2 & Hm & Hlb & Hub).
  destruct Hro as (R1 & R2 & R3 & R4 & R5 & R6 & R7 & R8).
  destruct (rec_box_spec (sd_nlb d) (sd_lbidx d) (sd_lbs d) (t_zlb r) (t_slb r) (sc_z_lb_inv c) (sc_s_lb c) (sc_delta c) true dx)
    as (dzlb & E1 & L1 & H1); auto.
  { intros k Hk. rewrite Lx. auto. } { intros k Hk. destruct (Hlb k Hk) as (? & ? & ?). auto. }
  destruct (rec_box_spec (sd_nub d) (sd_ubidx d) (sd_ubs d) (t_zub r) (t_sub r) (sc_z_ub_inv c) (sc_s_ub c) (sc_delta c) false dx)
    as (dzub & E2 & L2 & H2); auto.
  { intros k Hk. rewrite Lx. auto. } { intros k Hk. destruct (Hub k Hk) as (? & ? & ?). auto. }
  destruct (rec_slack_spec m (sc_s c) (sc_z_inv c) (t_s r) dz) as (ds & E3 & L3 & H3); try nlia.
  { intros l Hl. apply (Hm l Hl). }
  destruct (rec_slack_spec (sd_nlb d) (sc_s_lb c) (sc_z_lb_inv c) (t_slb r) dzlb) as (dslb & E4 & L4 & H4); try nlia.
  { intros k Hk. apply (Hlb k Hk). }
  destruct (rec_slack_spec (sd_nub d) (sc_s_ub c) (sc_z_ub_inv c) (t_sub r) dzub) as (dsub & E5 & L5 & H5); try nlia.
  { intros k Hk. apply (Hub k Hk). }
  exists dzlb, dzub, ds, dslb, dsub. repeat (split; [assumption|]).
  assumption.
Qed.
End Pieces.

(* ================================================================ KKT_FULL: the blocks of the operator *)
Lemma symK_sym Km i j : (forall a b, Km a b = Km b a) -> symK Km i j = Km i j.
Proof. intros H. unfold symK. destruct (i <=? j)%nat; auto. Qed.

Ltac kblk :=
  cbv zeta;
  repeat match goal with
  | |- context [(?a <? ?b)%nat] => destruct (Nat.ltb_spec a b); try lia
  | |- context [(?a =? ?b)%nat] => destruct (Nat.eqb_spec a b); try lia
  | |- context [(?a <=? ?b)%nat] => destruct (Nat.leb_spec a b); try lia
  end.

Section FullBlocks.
Variable Y : L2sys.
Local Notation n := (y_n Y). Local Notation p := (y_p Y).
Lemma Kfull_xx i j : (i < n)%nat -> (j < n)%nat -> Kfull Y i j = y_Psym Y i j + (if Nat.eqb i j then y_rho Y + a_bdiag Y i else 0).
Proof. intros. unfold Kfull. kblk; reflexivity. Qed.
Lemma Kfull_xy i l : (i < n)%nat -> (l < p)%nat -> Kfull Y i (n + l) = y_AT Y i l.
Proof. intros. unfold Kfull. kblk. replace (n + l - n)%nat with l by lia. reflexivity. Qed.
Lemma Kfull_xz i l : (i < n)%nat -> Kfull Y i (n + p + l) = y_GT Y i l.
Proof. intros. unfold Kfull. kblk. replace (n + p + l - n - p)%nat with l by lia. reflexivity. Qed.
Lemma Kfull_yx l j : (l < p)%nat -> (j < n)%nat -> Kfull Y (n + l) j = y_AT Y j l.
Proof. intros. unfold Kfull. kblk. replace (n + l - n)%nat with l by lia. reflexivity. Qed.
Lemma Kfull_yy l l' : (l < p)%nat -> (l' < p)%nat -> Kfull Y (n + l) (n + l') = if Nat.eqb l l' then - y_delta Y else 0.
Proof. intros. unfold Kfull. kblk; reflexivity. Qed.
Lemma Kfull_yz l l' : (l < p)%nat -> Kfull Y (n + l) (n + p + l') = 0.
Proof. intros. unfold Kfull. kblk; reflexivity. Qed.
Lemma Kfull_zx l j : (j < n)%nat -> Kfull Y (n + p + l) j = y_GT Y j l.
Proof. intros. unfold Kfull. kblk. replace (n + p + l - n - p)%nat with l by lia. reflexivity. Qed.
Lemma Kfull_zy l l' : (l' < p)%nat -> Kfull Y (n + p + l) (n + l') = 0.
Proof. intros. unfold Kfull. kblk; reflexivity. Qed.
Lemma Kfull_zz l l' : Kfull Y (n + p + l) (n + p + l') = if Nat.eqb l l' then - (y_s Y l * y_zinv Y l + y_delta Y) else 0.
Proof. intros. unfold Kfull. kblk; try reflexivity. replace (n + p + l - n - p)%nat with l by lia. reflexivity. Qed.
End FullBlocks.

Lemma sum_diag n l cst f : (l < n)%nat -> sum n (fun l' => (if Nat.eqb l l' then cst else 0) * f l') = cst * f l.
Proof.
  intros Hl. rewrite (sum_ext n _ (fun l' => if Nat.eqb l l' then cst * f l' else 0)).
  - now apply (sum_delta' n l (fun l' => cst * f l')).
  - intros i Hi. destruct (Nat.eqb l i); ring.
Qed.

Lemma sum_xx n (Ps : nat -> nat -> Qc) (dg : Qc) i (f : nat -> Qc) : (i < n)%nat ->
  sum n (fun j => (Ps i j + (if Nat.eqb i j then dg else 0)) * f j) = sum n (fun j => Ps i j * f j) + dg * f i.
Proof.
  intros Hi. rewrite (sum_ext n _ (fun j => Ps i j * f j + (if Nat.eqb i j then dg else 0) * f j)) by (intros; ring).
  rewrite sum_add, sum_diag by auto. reflexivity.
Qed.

Lemma nth_app3_1 (a b cc : Vec) j : (j < length a)%nat -> nth j (a ++ b ++ cc) 0 = nth j a 0.
Proof. intros. now rewrite app_nth1. Qed.
Lemma nth_app3_2 (a b cc : Vec) l : (l < length b)%nat -> nth (length a + l) (a ++ b ++ cc) 0 = nth l b 0.
Proof. intros. rewrite app_nth2 by lia. replace (length a + l - length a)%nat with l by lia. now rewrite app_nth1. Qed.
Lemma nth_app3_3 (a b cc : Vec) l : nth (length a + length b + l) (a ++ b ++ cc) 0 = nth l cc 0.
Proof. rewrite app_nth2 by lia. rewrite app_nth2 by lia. f_equal. lia. Qed.
Lemma nth_app2_2 (a b : Vec) l : nth (length a + l) (a ++ b) 0 = nth l b 0.
Proof. rewrite app_nth2 by lia. f_equal. lia. Qed.

Lemma nth_skipn_add (v : Vec) : forall s l, nth l (skipn s v) 0 = nth (s + l) v 0.
Proof. induction v; intros [|s] l; simpl; auto. destruct l; reflexivity. Qed.
Lemma nth_segment (v : Vec) s k l : (l < k)%nat -> nth l (segment s k v) 0 = nth (s + l) v 0.
Proof. intros. unfold segment. rewrite (nth_head k _ l 0) by auto. apply nth_skipn_add. Qed.
Lemma nth_tail_from (v : Vec) s l : nth l (tail_from s v) 0 = nth (s + l) v 0.
Proof. unfold tail_from. apply nth_skipn_add. Qed.
Lemma len_segment (v : Vec) s k : (s + k <= length v)%nat -> length (segment s k v) = k.
Proof. intros. unfold segment. rewrite firstn_length, skipn_length. lia. Qed.
Lemma len_tail_from (v : Vec) s : length (tail_from s v) = (length v - s)%nat.
Proof. unfold tail_from. apply skipn_length. Qed.

(* from  K_full * sol = condensed rhs  to the three block rows *)
Lemma full_rows_of_R (Y : L2sys) (sol rhs : Vec) :
  (forall a b, y_Psym Y a b = y_Psym Y b a) ->
  (forall i, (i < y_n Y + y_p Y + y_m Y)%nat ->
     sum (y_n Y + y_p Y + y_m Y) (fun j => symK (Kfull Y) i j * nth j sol 0) = nth i rhs 0) ->
  (forall i, (i < y_n Y)%nat -> nth i rhs 0 = y_rx Y i - sum (y_nlb Y) (fun k => if Nat.eqb (y_lbidx Y k) i then a_tlb Y k else 0)
                                                    + sum (y_nub Y) (fun k => if Nat.eqb (y_ubidx Y k) i then a_tub Y k else 0)) ->
  (forall l, (l < y_p Y)%nat -> nth (y_n Y + l) rhs 0 = y_ry Y l) ->
  (forall l, (l < y_m Y)%nat -> nth (y_n Y + y_p Y + l) rhs 0 = y_rz Y l - y_zinv Y l * y_rs Y l) ->
  full_rows Y (fun j => nth j sol 0) (fun l => nth (y_n Y + l) sol 0) (fun l => nth (y_n Y + y_p Y + l) sol 0).
Proof.
  intros HP HR Hrx Hry Hrz.
  assert (HK : forall i j, symK (Kfull Y) i j = Kfull Y i j) by (intros; apply symK_sym; intros; apply Kfull_sym; auto).
  set (n := y_n Y) in *. set (p := y_p Y) in *. set (m := y_m Y) in *.
  split; [|split].
  - intros i Hi. rewrite <- (Hrx i Hi). rewrite <- (HR i) by lia. rewrite !sum_app.
    rewrite (sum_ext n (fun j => symK (Kfull Y) i j * nth j sol 0)
                       (fun j => (y_Psym Y i j + (if Nat.eqb i j then y_rho Y + a_bdiag Y i else 0)) * nth j sol 0))
      by (intros j Hj; rewrite HK, Kfull_xx by auto; reflexivity).
    rewrite sum_xx by auto.
    rewrite (sum_ext p (fun j => symK (Kfull Y) i (n + j) * nth (n + j) sol 0) (fun l => nth (n + l) sol 0 * y_AT Y i l))
      by (intros l Hl; rewrite HK; unfold n; rewrite Kfull_xy by auto; qring).
    rewrite (sum_ext m (fun j => symK (Kfull Y) i (n + p + j) * nth (n + p + j) sol 0) (fun l => nth (n + p + l) sol 0 * y_GT Y i l))
      by (intros l Hl; rewrite HK; unfold n, p; rewrite Kfull_xz by auto; qring).
    subst n p m; qring.
  - intros l Hl. rewrite <- (Hry l Hl). rewrite <- (HR (n + l)%nat) by lia. rewrite !sum_app.
    rewrite (sum_ext n (fun j => symK (Kfull Y) (n + l) j * nth j sol 0) (fun j => y_AT Y j l * nth j sol 0))
      by (intros j Hj; rewrite HK; unfold n; rewrite Kfull_yx by auto; reflexivity).
    rewrite (sum_ext p (fun j => symK (Kfull Y) (n + l) (n + j) * nth (n + j) sol 0)
                       (fun l' => (if Nat.eqb l l' then - y_delta Y else 0) * nth (n + l') sol 0))
      by (intros j Hj; rewrite HK; unfold n; rewrite Kfull_yy by auto; reflexivity).
    rewrite (sum_diag p l (- y_delta Y) (fun l' => nth (n + l') sol 0)) by auto.
    rewrite (sum_zero_ext m (fun j => symK (Kfull Y) (n + l) (n + p + j) * nth (n + p + j) sol 0))
      by (intros j Hj; rewrite HK; unfold n, p; rewrite Kfull_yz by auto; qring).
    subst n p m; qring.
  - intros l Hl. rewrite <- (Hrz l Hl). rewrite <- (HR (n + p + l)%nat) by lia. rewrite !sum_app.
    rewrite (sum_ext n (fun j => symK (Kfull Y) (n + p + l) j * nth j sol 0) (fun j => y_GT Y j l * nth j sol 0))
      by (intros j Hj; rewrite HK; unfold n, p; rewrite Kfull_zx by auto; reflexivity).
    rewrite (sum_zero_ext p (fun j => symK (Kfull Y) (n + p + l) (n + j) * nth (n + j) sol 0))
      by (intros j Hj; rewrite HK; unfold n, p; rewrite Kfull_zy by auto; qring).
    rewrite (sum_ext m (fun j => symK (Kfull Y) (n + p + l) (n + p + j) * nth (n + p + j) sol 0)
                       (fun l' => (if Nat.eqb l l' then - (y_s Y l * y_zinv Y l + y_delta Y) else 0) * nth (n + p + l') sol 0))
      by (intros j Hj; rewrite HK; unfold n, p; rewrite Kfull_zz; reflexivity).
    rewrite (sum_diag m l (- (y_s Y l * y_zinv Y l + y_delta Y)) (fun l' => nth (n + p + l') sol 0)) by auto.
    subst n p m; qring.
Qed.

(* full_rows depends on dx, dy, dz only through their values in range *)
Lemma full_rows_ext (Y : L2sys) (dx dy dz dx' dy' dz' : nat -> Qc) :
  (forall j, (j < y_n Y)%nat -> dx' j = dx j) -> (forall l, (l < y_p Y)%nat -> dy' l = dy l) -> (forall l, (l < y_m Y)%nat -> dz' l = dz l) ->
  full_rows Y dx dy dz -> full_rows Y dx' dy' dz'.
Proof.
  intros Ex Ey Ez (HX & HY & HZ). split; [|split].
  - intros i Hi. rewrite <- (HX i Hi). rewrite (Ex i Hi). f_equal; [f_equal; [f_equal|]|]; apply sum_ext; intros j Hj.
    + now rewrite Ex. + now rewrite Ey. + now rewrite Ez.
  - intros l Hl. rewrite <- (HY l Hl). rewrite (Ey l Hl). f_equal. apply sum_ext; intros j Hj. now rewrite Ex.
  - intros l Hl. rewrite <- (HZ l Hl). rewrite (Ez l Hl). f_equal. apply sum_ext; intros j Hj. now rewrite Ex.
Qed.

(* ================================================================ KKT_FULL: solve is exact *)
Lemma solve_ok_alg d c r : solve_ok d c ->
  let Y := sysr d c r in
  (forall l, (l < y_m Y)%nat -> y_zinv Y l <> 0) /\
  (forall k, (k < y_nlb Y)%nat -> y_zli Y k <> 0) /\
  (forall k, (k < y_nlb Y)%nat -> y_slb Y k * y_zli Y k + y_delta Y <> 0) /\
  (forall k, (k < y_nub Y)%nat -> y_zui Y k <> 0) /\
  (forall k, (k < y_nub Y)%nat -> y_sub Y k * y_zui Y k + y_delta Y <> 0) /\
  (forall l, (l < y_m Y)%nat -> y_s Y l * y_zinv Y l + y_delta Y <> 0).
Proof.
  intros (_ & _ & _ & _ & _ & _ & _ & _ & _ & _ & _ & _ & Hm & Hlb & Hub). cbn.
  repeat split; intros k Hk; try apply (Hm k Hk); try apply (Hlb k Hk); try apply (Hub k Hk).
Qed.

Theorem full_solve_exact_s d c o K st r :
  solve_ok d c -> rhs_ok d r ->
  ord_ok (mode_N MFull d) o -> denotes (mode_N MFull d) o K (Kfull (sys_sparse d c)) ->
  ldl_solves K st ->
  exists v, kkt_solve MFull d c o st r = Ok v /\ step_ok d v /\ newton8 d c v r.
Proof.
  intros Hso Hro Ho Hden Hf.
  pose proof Hso as (S1 & S2 & _).
  pose proof Hro as (R1 & R2 & R3 & R4 & _).
  destruct (solve_ok_alg d c r Hso) as (A1 & A2 & A3 & A4 & A5 & A6).
  unfold kkt_solve. rewrite !chk_eq_ok by assumption. cbn [bind].
  set (Y := sysr d c r) in *.
  set (zb := fun l => fv (t_z r) l - fv (sc_z_inv c) l * fv (t_s r) l).
  rewrite (tab_intro (sd_m d) _ zb) by (intros i Hi; getn; reflexivity). cbn [bind]. cbv beta iota zeta.
  match goal with |- context [t_y r ++ ?Z] => set (zbar := Z) end.
  assert (Lzb : length zbar = sd_m d) by apply tabv_len.
  match goal with |- context [fold_box _ _ _ _ _ _ _ _ true ?R] => set (rhs0 := R) end.
  assert (L0 : length rhs0 = mode_N MFull d) by (unfold rhs0; rewrite !app_length; cbn [mode_N]; nlia).
  destruct (cond_box d c r Hso Hro rhs0 (mode_N MFull d) L0 ltac:(cbn [mode_N]; lia)) as (rhs1 & rhs2 & E1 & E2 & L2 & Hx & Hrest).
  rewrite E1. cbn [bind]. rewrite E2. cbn [bind].
  destruct (lin_core_s _ o K _ st rhs2 Ho Hden Hf L2) as (rp & xp & sol & Ep & Ex & Es & Ls & HR).
  rewrite Ep. cbn [bind]. rewrite Ex. cbn [bind]. rewrite Es. cbn [bind]. cbv beta iota zeta.
  cbn [mode_N] in Ls, HR, Hrest.
  set (dx := head (sd_n d) sol). set (dy := segment (sd_n d) (sd_p d) sol). set (dz := tail_from (sd_n d + sd_p d) sol).
  assert (Ldx : length dx = sd_n d) by (apply head_length; nlia).
  assert (Ldy : length dy = sd_p d) by (apply len_segment; nlia).
  assert (Ldz : length dz = sd_m d) by (unfold dz; rewrite len_tail_from; nlia).
  destruct (recover d c r Hso Hro dx dz Ldx Ldz)
    as (dzlb & dzub & ds & dslb & dsub & F1 & F2 & F3 & F4 & F5 & G1 & G2 & G3 & G4 & G5 & H1 & H2 & H3 & H4 & H5).
  rewrite F1. cbn [bind]. rewrite F2. cbn [bind]. rewrite F3. cbn [bind]. rewrite F4. cbn [bind]. rewrite F5. cbn [bind].
  eexists. split; [reflexivity|]. split.
  { unfold step_ok. cbn [t_x t_y t_z t_s t_zlb t_slb t_zub t_sub]. repeat split; assumption. }
  unfold newton8. cbn [t_x t_y t_z t_s t_zlb t_slb t_zub t_sub]. fold Y.
  assert (Edx : forall j, (j < sd_n d)%nat -> fv dx j = nth j sol 0) by (intros j Hj; unfold fv, dx; now apply nth_head).
  assert (Edy : forall l, (l < sd_p d)%nat -> fv dy l = nth (sd_n d + l) sol 0) by (intros l Hl; unfold fv, dy; now apply nth_segment).
  assert (Edz : forall l, fv dz l = nth (sd_n d + sd_p d + l) sol 0) by (intros l; unfold fv, dz; apply nth_tail_from).
  apply (alg_full Y _ _ _ _ _ _ _ _ A1 A2 A3 A4 A5 H1 H2 H3).
  { intros k Hk. rewrite (H4 k Hk). unfold a_dslb. now rewrite (H1 k Hk). }
  { intros k Hk. rewrite (H5 k Hk). unfold a_dsub. now rewrite (H2 k Hk). }
  apply (full_rows_ext Y (fun j => nth j sol 0) (fun l => nth (y_n Y + l)%nat sol 0) (fun l => nth (y_n Y + y_p Y + l)%nat sol 0)); auto.
  apply (full_rows_of_R Y sol rhs2).
  - apply sysr_Psym_sym.
  - exact HR.
  - intros i Hi. change (y_n Y) with (sd_n d) in Hi. rewrite (Hx i Hi). unfold rhs0. rewrite nth_app3_1 by nlia. reflexivity.
  - intros l Hl. change (y_p Y) with (sd_p d) in Hl. change (y_n Y) with (sd_n d).
    rewrite Hrest by lia. unfold rhs0.
    replace (sd_n d) with (length (t_x r)) by exact R1. rewrite nth_app3_2 by nlia. reflexivity.
  - intros l Hl. change (y_m Y) with (sd_m d) in Hl. change (y_n Y) with (sd_n d). change (y_p Y) with (sd_p d).
    rewrite Hrest by lia. unfold rhs0.
    replace (sd_n d) with (length (t_x r)) by exact R1. replace (sd_p d) with (length (t_y r)) by exact R2.
    rewrite nth_app3_3. unfold zbar. rewrite tabv_nth by exact Hl. reflexivity.
Qed.

Theorem full_solve_exact d c o K st r :
  solve_ok d c -> rhs_ok d r ->
  ord_ok (mode_N MFull d) o -> denotes (mode_N MFull d) o K (Kfull (sys_sparse d c)) ->
  ldl_factor K = Ok (mode_N MFull d, st) ->
  exists v, kkt_solve MFull d c o st r = Ok v /\ step_ok d v /\ newton8 d c v r.
Proof. intros Hso Hro Ho Hden Hf. apply (full_solve_exact_s d c o K st r Hso Hro Ho Hden (ldl_factor_solves _ o K _ st Hden Hf)). Qed.

(* ================================================================ factorisation success *)
(* the first regularize_and_factorize(false) after init (the LDL object as factorize_symbolic_upper_triangular left it) *)
Lemma factor_first K st0 st : kkt_symbolic K = Ok st0 -> kkt_factorize K st0 = Ok (true, st) -> ncols K = nrows K ->
  ldl_factor K = Ok (nrows K, st).
Proof.
  unfold kkt_symbolic, kkt_factorize, ldl_factor. intros E0 E1 Hsq. rewrite E0. cbn [bind].
  destruct (numeric K st0) as [[r0 st']|] eqn:En; cbn [bind] in E1; [|discriminate].
  inversion E1 as [[Hr Hst]]. apply Nat.eqb_eq in Hr. subst. now rewrite <- Hsq.
Qed.

(* ================================================================ from the assembly predicates to [denotes] *)
Definition id_ord (N : nat) : ordering := mkord (seq 0 N) (seq 0 N).

Lemma id_ord_ok N : ord_ok N (id_ord N).
Proof.
  unfold ord_ok, id_ord. cbn [oP oPinv]. rewrite seq_length. split; [|split; [reflexivity|split; [reflexivity|split]]].
  - split; [apply seq_NoDup|]. intros x Hx. apply in_seq in Hx. rewrite seq_length. lia.
  - intros i Hi. rewrite seq_nth by auto. lia.
  - intros i Hi. rewrite !seq_nth; auto. rewrite seq_nth by auto. lia.
Qed.

Lemma denotes_id N K Km : wf_csc K = true -> nrows K = N -> ncols K = N -> upper_only K = true -> nodup_cols K ->
  (forall i j, (i <= j)%nat -> (j < N)%nat -> csc_get K i j = Km i j) -> denotes N (id_ord N) K Km.
Proof.
  intros H1 H2 H3 H4 H5 H6. unfold denotes. repeat (split; [assumption|]). intros i j Hij Hj.
  unfold id_ord. cbn [oPinv]. rewrite !seq_nth by lia. cbn [Nat.add]. rewrite Nat.min_l, Nat.max_r by lia. auto.
Qed.

Theorem fresh_form_denotes_solve d c k : wf_sdata d -> upper_only (sd_P d) = true -> fresh_form d c k -> nodup_cols (fk_PKPt d k) ->
  denotes (mode_N MFull d) (id_ord (mode_N MFull d)) (fk_PKPt d k) (Kfull (sys_sparse d c)) /\ fk_pinv k = oPinv (id_ord (mode_N MFull d)).
Proof.
  intros Hwf Hup Hf Hnd. destruct (fresh_form_denotes d Hwf c k Hf) as (W & _ & U & G). split.
  - apply denotes_id; auto.
  - destruct Hf as ((E & _) & _). exact E.
Qed.

Theorem perm_img_denotes_solve d c perm kid kp o :
  wf_sdata d -> upper_only (sd_P d) = true -> fresh_form d c kid -> perm_img d perm kid kp ->
  oPinv o = fk_pinv kp -> upper_only (fk_PKPt d kp) = true -> nodup_cols (fk_PKPt d kp) ->
  denotes (mode_N MFull d) o (fk_PKPt d kp) (Kfull (sys_sparse d c)).
Proof.
  intros Hwf Hup Hf Hp Eo Hu Hnd. destruct (perm_img_denotes_partial d c perm kid kp Hwf Hup Hf Hp) as (W & _ & _ & _ & G).
  unfold denotes. rewrite Eo. repeat (split; [auto|]). exact G.
Qed.

(* ================================================================ multiply: the full operator applied to a step *)
Lemma csc_get_lower (P : csc F) i j : wf_csc P = true -> upper_only P = true -> (j < ncols P)%nat -> (j < i)%nat -> csc_get P i j = 0.
Proof.
  intros Hw Hu Hj Hij. apply csc_get_zero. intros t Ht E.
  assert (H := PermuteGenProofs.upper_only_le P j (cp P j + t) Hu Hj). unfold clen, cp in *. specialize (H ltac:(lia)). lia.
Qed.

Lemma mul_box_x_spec nb idx (sc dzb : Vec) neg (rx : Vec) L :
  length rx = L -> (nb <= length idx)%nat -> (nb <= length sc)%nat -> (nb <= length dzb)%nat ->
  (forall k, (k < nb)%nat -> (fidx idx k < L)%nat) ->
  exists r', mul_box_x nb idx sc dzb neg rx = Ok r' /\ length r' = L /\
    forall j, (j < L)%nat ->
      nth j r' 0 = if neg then nth j rx 0 - sum nb (fun k => if Nat.eqb (fidx idx k) j then fv sc k * fv dzb k else 0)
                   else nth j rx 0 + sum nb (fun k => if Nat.eqb (fidx idx k) j then fv sc k * fv dzb k else 0).
Proof.
  intros Lr L1 L2 L3 Hidx. unfold mul_box_x.
  apply (box_loop _ nb L (fidx idx) (fun k => fv sc k * fv dzb k) neg rx Lr Hidx).
  intros i v Hi Lv. rewrite (get_nth idx i 0%nat) by lia. cbn [bind]. getn.
  unfold fidx in *. pose proof (Hidx i Hi) as Hc. rewrite (get_nth _ (nth i idx 0%nat) (0 : F)) by nlia. cbn [bind].
  rewrite upd_lset by nlia. reflexivity.
Qed.

Theorem multiply_of_newton8 d c v r :
  wf_sdata d -> upper_only (sd_P d) = true -> solve_ok d c -> rhs_ok d v -> rhs_ok d r -> newton8 d c v r ->
  kkt_multiply d c v = Ok (mkstep8 (t_x r) (t_y r) (t_z r) (head (sd_nlb d) (t_zlb r)) (head (sd_nub d) (t_zub r))
                                   (t_s r) (head (sd_nlb d) (t_slb r)) (head (sd_nub d) (t_sub r))).
Proof.
  intros Hwf Hup Hso Hv Hr (N1 & N2 & N3 & N4 & N5 & N6 & N7 & N8).
  destruct Hwf as (WP & PR & PC & WA & AR & AC & WG & GR & GC).
  pose proof Hso as (S1 & S2 & S3 & S4 & S5 & S6 & S7 & S8 & S9 & S10 & I1 & I2 & Hm & Hlb & Hub).
  destruct Hv as (V1 & V2 & V3 & V4 & V5 & V6 & V7 & V8).
  destruct Hr as (R1 & R2 & R3 & R4 & R5 & R6 & R7 & R8).
  cbn [sysr y_n y_p y_m y_nlb y_nub y_Psym y_AT y_GT y_rho y_delta y_s y_zinv y_lbidx y_ubidx y_lbs y_ubs y_slb y_sub y_zli y_zui
       y_rx y_ry y_rz y_rzlb y_rzub y_rs y_rslb y_rsub] in *.
  unfold kkt_multiply. rewrite !chk_eq_ok by assumption. cbn [bind].
  (* the x block before the bound terms *)
  set (g0 := fun i => sum (sd_n d) (fun j => (if (i <=? j)%nat then csc_get (sd_P d) i j else csc_get (sd_P d) j i) * fv (t_x v) j)
                      + sc_rho c * fv (t_x v) i
                      + (sum (sd_p d) (fun l => fv (t_y v) l * csc_get (sd_AT d) i l) + sum (sd_m d) (fun l => fv (t_z v) l * csc_get (sd_GT d) i l))).
  rewrite (tab_intro (sd_n d) _ g0).
  2:{ intros i Hi. rewrite (get_nth _ i (0 : F)) by (rewrite putri_len; lia). cbn [bind]. getn.
      rewrite (get_nth _ i (0 : F)) by (rewrite spmv_len; lia). cbn [bind].
      rewrite (get_nth _ i (0 : F)) by (rewrite spmv_len; lia). cbn [bind]. f_equal.
      rewrite putri_nth, !spmv_nth by lia. rewrite PC, AC, GC. unfold g0, fv. f_equal; [f_equal|f_equal].
      - apply sum_ext. intros j Hj. destruct (Nat.leb_spec i j); destruct (Nat.ltb_spec j i); try lia.
        + qring.
        + rewrite (csc_get_lower (sd_P d) i j) by (auto; lia). qring.
      - apply sum_ext. intros; qring.
      - apply sum_ext. intros; qring. }
  cbn [bind].
  match goal with |- context [mul_box_x _ _ _ _ true ?R] => set (rx0 := R) end.
  assert (L0 : length rx0 = sd_n d) by apply tabv_len.
  assert (H0 : forall i, (i < sd_n d)%nat -> nth i rx0 0 = g0 i) by (intros; apply tabv_nth; auto).
  destruct (mul_box_x_spec (sd_nlb d) (sd_lbidx d) (sd_lbs d) (t_zlb v) true rx0 (sd_n d))
    as (rx1 & E1 & L1 & H1); auto.
  rewrite E1. cbn [bind].
  destruct (mul_box_x_spec (sd_nub d) (sd_ubidx d) (sd_ubs d) (t_zub v) false rx1 (sd_n d)) as (rx2 & E2 & L2 & H2); auto.
  rewrite E2. cbn [bind].
  assert (Ex : rx2 = t_x r).
  { apply (nth_ext _ _ 0 0); [nlia|]. intros i Hi0. assert (Hi : (i < sd_n d)%nat) by nlia. rewrite H2, H1 by auto. rewrite H0 by auto.
    etransitivity; [|apply (N1 i Hi)]. unfold g0, fv, fidx. qring. }
  rewrite Ex.
  rewrite (tab_eq (sd_p d) _ (t_y r)); auto.
  2:{ intros l Hl. rewrite (get_nth _ l (0 : F)) by (rewrite spmtv_len; lia). cbn [bind]. getn. f_equal.
      rewrite spmtv_nth by lia. rewrite AR. apply (N2 l Hl). }
  cbn [bind].
  rewrite (tab_eq (sd_m d) _ (t_z r)); auto.
  2:{ intros l Hl. rewrite (get_nth _ l (0 : F)) by (rewrite spmtv_len; lia). cbn [bind]. getn. f_equal.
      rewrite spmtv_nth by lia. rewrite GR. apply (N3 l Hl). }
  cbn [bind].
  unfold mul_box_z.
  rewrite (tab_eq (sd_nlb d) _ (head (sd_nlb d) (t_zlb r))); [|apply head_length; auto|].
  2:{ intros k Hk. pose proof (I1 k Hk) as Hc. unfold fidx in Hc. rewrite (get_nth _ k 0%nat) by lia. cbn [bind]. getn.
      try (rewrite (get_nth _ (nth k (sd_lbidx d) 0%nat) (0 : F)) by nlia; cbn [bind]). getn. f_equal.
      rewrite nth_head by auto. etransitivity; [|apply (N4 k Hk)]. unfold fv, fidx. qring. }
  cbn [bind].
  rewrite (tab_eq (sd_nub d) _ (head (sd_nub d) (t_zub r))); [|apply head_length; auto|].
  2:{ intros k Hk. pose proof (I2 k Hk) as Hc. unfold fidx in Hc. rewrite (get_nth _ k 0%nat) by lia. cbn [bind]. getn.
      try (rewrite (get_nth _ (nth k (sd_ubidx d) 0%nat) (0 : F)) by nlia; cbn [bind]). getn. f_equal.
      rewrite nth_head by auto. etransitivity; [|apply (N5 k Hk)]. unfold fv, fidx. qring. }
  cbn [bind].
  unfold mul_slack.
  rewrite (tab_eq (sd_m d) _ (t_s r)); auto.
  2:{ intros l Hl. getn. rewrite qdiv_nz by (apply (Hm l Hl)). cbn [bind]. f_equal. apply (N6 l Hl). }
  cbn [bind].
  rewrite (tab_eq (sd_nlb d) _ (head (sd_nlb d) (t_slb r))); [|apply head_length; auto|].
  2:{ intros k Hk. getn. rewrite qdiv_nz by (apply (Hlb k Hk)). cbn [bind]. f_equal. rewrite nth_head by auto. apply (N7 k Hk). }
  cbn [bind].
  rewrite (tab_eq (sd_nub d) _ (head (sd_nub d) (t_sub r))); [|apply head_length; auto|].
  2:{ intros k Hk. getn. rewrite qdiv_nz by (apply (Hub k Hk)). cbn [bind]. f_equal. rewrite nth_head by auto. apply (N8 k Hk). }
  reflexivity.
Qed.
