(* PermuteProofs.v -- C14 2b: permute_sparse_symmetric_matrix.
   (1) general (all n): the kernel is natural in the value type -- it only moves values -- so its result on any values
       is determined by its result on the matrix whose value at position k is k itself ([permute_sym_natural]);
   (2) bounded: for ALL upper patterns with full diagonal n <= 4 and ALL permutations, by evaluation on positions
       ([vm_compute] lifted through [forallb_forall] with the completeness lemmas of PatternsProofs.v): C = upper(A(p,p))
       entry by entry and the returned map sends every stored entry to its new position.
   The bound is in the theorem name: permute_sym_spec_n4. *)
From PIQP Require Import Base CSC C14LemmasProofs CSCProofs PatternsProofs.
Local Open Scope nat_scope.

(* ---------- relating two runs ---------- *)
Inductive rres {S T} (R : S -> T -> Prop) : res S -> res T -> Prop :=
| rres_ok s t : R s t -> rres R (Ok s) (Ok t)
| rres_err e : rres R (Err e) (Err e).

Lemma foldM_rres {A S T} (R : S -> T -> Prop) (f : S -> A -> res S) (g : T -> A -> res T) l : forall s t,
  R s t -> (forall a s t, R s t -> rres R (f s a) (g t a)) -> rres R (foldM f l s) (foldM g l t).
Proof.
  induction l; intros s t H Hs; simpl. now constructor.
  destruct (Hs a s t H); simpl. apply IHl; auto. constructor.
Qed.

Definition rmap {A B} (f : A -> B) (r : res A) : res B := match r with Ok a => Ok (f a) | Err e => Err e end.
Lemma get_map {A B} (f : A -> B) l k : get (map f l) k = rmap f (get l k).
Proof. unfold get. rewrite nth_error_map. destruct (nth_error l k); reflexivity. Qed.
Lemma upd_map {A B} (f : A -> B) l q v : upd (map f l) q (f v) = rmap (map f) (upd l q v).
Proof.
  revert q; induction l; intros q; simpl. destruct q; reflexivity.
  destruct q; simpl; auto. rewrite IHl. destruct (upd l q v); reflexivity.
Qed.

Lemma map_repeat' {A B} (f : A -> B) x n : map f (repeat x n) = repeat (f x) n.
Proof. induction n; simpl; congruence. Qed.

Definition mapv {V W} (f : V -> W) (A : csc V) : csc W := mkcsc (nrows A) (ncols A) (colptr A) (rowind A) (map f (vals A)).

Section Natural.
Context {V W : Type}.
Variable f : V -> W.
Variable d : V.

Definition R4 (s : list nat * list nat * list V * list nat) (t : list nat * list nat * list W * list nat) : Prop :=
  let '(w, ci, cx, m) := s in let '(w', ci', cx', m') := t in w' = w /\ ci' = ci /\ cx' = map f cx /\ m' = m.

Ltac same_bind :=
  match goal with
  | |- rres _ (bind ?x _) (bind ?x _) => destruct x; cbn [bind]; [|constructor]
  | |- rres _ (if ?c then _ else _) (if ?c then _ else _) => destruct c
  end.

Theorem permute_sym_natural (A : csc V) (pinv : list nat) :
  permute_sym (f d) (mapv f A) pinv = rmap (fun Cm => (mapv f (fst Cm), snd Cm)) (permute_sym d A pinv).
Proof.
  unfold permute_sym. cbn [mapv nrows ncols colptr rowind vals].
  (* loops 1 and 2 only touch indices *)
  destruct (for_range 0 (nrows A) _ (repeat 0 (nrows A))) as [w|e]; cbn [bind rmap]; auto.
  destruct (for_range 0 (nrows A) _ (0, repeat 0 (S (nrows A)), w)) as [[[sum ctp] w2]|e]; cbn [bind rmap]; auto.
  destruct (upd ctp (nrows A) sum) as [ctp2|e]; cbn [bind rmap]; auto.
  (* loop 3 moves values *)
  match goal with |- bind ?X _ = rmap _ (bind ?Y _) => assert (H3 : rres R4 Y X) end.
  { unfold for_range. apply foldM_rres.
    - unfold R4. rewrite map_repeat'. auto.
    - intros j s t HR. repeat same_bind. apply foldM_rres; auto.
      intros k [[[w0 ci0] cx0] m0] [[[w1 ci1] cx1] m1] (-> & -> & -> & ->).
      repeat same_bind; try (constructor; unfold R4; auto).
      rewrite get_map. destruct (get (vals A) k) as [v|]; cbn [bind rmap]; [|constructor].
      rewrite upd_map. destruct (upd cx0 _ v); cbn [bind rmap]; [|constructor].
      same_bind. constructor. unfold R4; auto. }
  inversion H3 as [[[[w3 cti] ctx] ct2a] [[[w3' cti'] ctx'] ct2a'] (-> & -> & -> & ->) E1 E2|e E1 E2]; cbn [bind rmap]; auto.
  (* loops 4 and 5 only touch indices *)
  destruct (for_range 0 (nrows A) _ (repeat 0 (S (nrows A)))) as [cp|e]; cbn [bind rmap]; auto.
  destruct (for_range 0 (nrows A) _ (0, cp, w3)) as [[[sum2 cp2] w4]|e]; cbn [bind rmap]; auto.
  destruct (upd cp2 (nrows A) sum2) as [cp3|e]; cbn [bind rmap]; auto.
  (* loop 6 moves values *)
  match goal with |- bind ?X _ = rmap _ (bind ?Y _) => assert (H6 : rres R4 Y X) end.
  { unfold for_range. apply foldM_rres.
    - unfold R4. rewrite map_repeat'. auto.
    - intros j s t HR. repeat same_bind. apply foldM_rres; auto.
      intros k [[[w0 ci0] cx0] m0] [[[w1 ci1] cx1] m1] (-> & -> & -> & ->).
      repeat same_bind; try (constructor; unfold R4; auto).
      rewrite get_map. destruct (get ctx k) as [v|]; cbn [bind rmap]; [|constructor].
      rewrite upd_map. destruct (upd cx0 _ v); cbn [bind rmap]; [|constructor].
      repeat same_bind. constructor. unfold R4; auto. }
  inversion H6 as [[[[w5 ci] cx] a2c] [[[w5' ci'] cx'] a2c'] (-> & -> & -> & ->) E3 E4|e E3 E4]; cbn [bind rmap]; auto.
Qed.
End Natural.

(* ---------- the specification, on stored entries ---------- *)
(* [src q] = position in A of the value stored at position q of C *)
Definition col_of (cp : list nat) (ncols q : nat) : nat :=
  length (filter (fun j => nth (S j) cp 0 <=? q) (seq 0 ncols)).

Definition sorted_cols (cp ci : list nat) (n : nat) : bool :=
  forallb (fun j => forallb (fun q => (q =? nth j cp 0) || (nth (q - 1) ci 0 <? nth q ci 0))
                            (seq (nth j cp 0) (nth (S j) cp 0 - nth j cp 0))) (seq 0 n).

Definition permute_spec_ok (n : nat) (Ap Ai pinv : list nat) (C : csc nat) (a2c : list nat) : bool :=
  let src := vals C in
  (nrows C =? n) && (ncols C =? n) && wf_csc C && upper_only C && sorted_cols (colptr C) (rowind C) n &&
  (length (rowind C) =? length Ai) && (length a2c =? length Ai) &&
  forallb (fun j => forallb (fun k =>
      let i := nth k Ai 0 in
      let i2 := nth i pinv 0 in let j2 := nth j pinv 0 in
      let q := nth k a2c 0 in
      (q <? length (rowind C)) && (nth q (rowind C) 0 =? Nat.min i2 j2) && (col_of (colptr C) n q =? Nat.max i2 j2) &&
      (nth q src 0 =? k))
    (seq (nth j Ap 0) (nth (S j) Ap 0 - nth j Ap 0))) (seq 0 n).

(* run on positions *)
Definition permute_check (n : nat) (Ap Ai P : list nat) : bool :=
  match ordering_init P with
  | Ok o =>
    match permute_sym (length Ai) (mkcsc n n Ap Ai (seq 0 (length Ai))) (oPinv o) with
    | Ok (C, a2c) => permute_spec_ok n Ap Ai (oPinv o) C a2c
    | Err _ => false
    end
  | Err _ => false
  end.

Definition permute_check_all (n : nat) : bool :=
  forallb (fun bs => let pat := pattern_of n (adj_of_bits n bs) in
                     forallb (fun P => permute_check n (fst pat) (snd pat) P) (all_perms n))
          (all_bools (length (pairs n))).

Lemma permute_check_all_4 : forallb permute_check_all (seq 0 5) = true.
Proof. vm_compute. reflexivity. Qed.

Lemma is_perm_of_wf P : perm_wf P -> is_perm P = true.
Proof.
  intros HP. unfold is_perm. apply forallb_forall. intros i Hi. apply in_seq in Hi.
  destruct (perm_wf_surj P i HP) as (k & Hk & E); [lia|]. apply existsb_exists. exists i. split.
  - subst i. now apply nth_In.
  - apply Nat.eqb_refl.
Qed.

Lemma seq_map_nth {V} (l : list V) d : map (fun k => nth k l d) (seq 0 (length l)) = l.
Proof.
  apply (nth_ext _ _ d d). now rewrite map_length, seq_length.
  intros i Hi. rewrite map_length, seq_length in Hi.
  rewrite (nth_indep _ d (nth (length l) l d)) by (rewrite map_length, seq_length; auto).
  rewrite (map_nth (fun k => nth k l d)). now rewrite seq_nth.
Qed.

Section Bounded.
Context {V : Type}.
Variable d : V.

(* for every upper pattern with full diagonal (n <= 4), every permutation P and ALL values *)
Theorem permute_sym_spec_n4 (n : nat) (adj : nat -> nat -> bool) (P : list nat) (vs : list V) :
  n <= 4 -> perm_wf P -> length P = n ->
  let Ap := fst (pattern_of n adj) in let Ai := snd (pattern_of n adj) in
  length vs = length Ai ->
  exists o C a2c,
    ordering_init P = Ok o /\
    permute_sym d (mkcsc n n Ap Ai vs) (oPinv o) = Ok (mapv (fun k => nth k vs d) C, a2c) /\
    permute_spec_ok n Ap Ai (oPinv o) C a2c = true.
Proof.
  intros Hn HP HL Ap Ai Hv.
  destruct (pattern_enumerated n adj) as (bs & Hbs & Epat).
  assert (Hall : permute_check_all n = true).
  { pose proof permute_check_all_4 as H. rewrite forallb_forall in H. apply H. apply in_seq. lia. }
  unfold permute_check_all in Hall. rewrite forallb_forall in Hall. specialize (Hall bs Hbs).
  cbv zeta in Hall. rewrite <- Epat in Hall. fold Ap Ai in Hall.
  rewrite forallb_forall in Hall. specialize (Hall P).
  assert (HinP : In P (all_perms n)).
  { unfold all_perms. apply filter_In. split.
    - apply all_lists_complete; auto. intros x Hx. destruct HP as [_ Hr]. rewrite <- HL. now apply Hr.
    - now apply is_perm_of_wf. }
  specialize (Hall HinP). unfold permute_check in Hall.
  destruct (ordering_init P) as [o|]; [|discriminate].
  destruct (permute_sym (length Ai) _ (oPinv o)) as [[C a2c]|] eqn:E; [|discriminate].
  exists o, C, a2c. split; auto. split; auto.
  pose proof (permute_sym_natural (fun k => nth k vs d) (length Ai) (mkcsc n n Ap Ai (seq 0 (length Ai))) (oPinv o)) as N.
  rewrite E in N. cbn [rmap fst snd] in N.
  unfold mapv at 1 in N. cbn [nrows ncols colptr rowind vals] in N.
  rewrite <- Hv in N at 2. rewrite seq_map_nth in N.
  rewrite <- Hv in N. rewrite nth_overflow in N by lia.
  (* the filler of the run on values is arbitrary: all slots are overwritten, but we keep the statement simple *)
  exact N.
Qed.
End Bounded.
