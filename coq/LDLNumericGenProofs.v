(* LDLNumericGenProofs.v -- C14 T1 for ALL sizes, part 2: the index part of the numeric phase of sparse/ldlt.hpp
   (model LDLSparse.numeric_i) never leaves its arrays and fills L_ind with exactly the pattern predicted by the
   symbolic phase: column i of L holds the rows {k | i < k < n, lp k i} in increasing order, L_nnz ends with the
   symbolic counts.  With LDLSparseProofs.numeric_erase this makes the whole factorisation total for all values.
   Hypotheses: square upper-triangular pattern (columns may be unsorted / contain repeated rows; no diagonal needed). *)
From PIQP Require Import Base CSC LDLSparse C14LemmasProofs PatternsProofs LDLSparseProofs LDLSymbolicGenProofs.
Require Import ZifyBool Permutation.
Local Open Scope nat_scope.

(* ---------- list facts ---------- *)
Lemma firstn_lset_ge {A} (l : list A) i x : forall k, k <= i -> firstn k (lset l i x) = firstn k l.
Proof.
  revert i; induction l; intros i k H; simpl. now destruct i.
  destruct i; simpl. replace k with 0 by lia. reflexivity.
  destruct k; simpl; auto. f_equal. apply IHl. lia.
Qed.
Lemma skipn_lset_lt {A} (l : list A) i x : forall k, i < k -> skipn k (lset l i x) = skipn k l.
Proof.
  revert i; induction l; intros i k H; simpl. now destruct i.
  destruct i; simpl. destruct k; [lia|reflexivity].
  destruct k; [lia|]. simpl. apply IHl. lia.
Qed.
Lemma skipn_lset_eq {A} (l : list A) i x : i < length l -> skipn i (lset l i x) = x :: skipn (S i) l.
Proof.
  revert i; induction l; intros i H; simpl in H; [lia|].
  destruct i; simpl; auto. apply IHl. lia.
Qed.
Lemma firstn_S_lset {A} (l : list A) k x : k < length l -> firstn (S k) (lset l k x) = firstn k l ++ [x].
Proof.
  revert k; induction l; intros k H; simpl in H; [lia|].
  destruct k; simpl; auto. f_equal. apply IHl. lia.
Qed.
Lemma firstn_S_nth' {A} (l : list A) k d : k < length l -> firstn (S k) l = firstn k l ++ [nth k l d].
Proof.
  revert k; induction l; intros k H; simpl in H; [lia|].
  destruct k; simpl; auto. f_equal. apply IHl. lia.
Qed.
Lemma nth_skipn' {A} (l : list A) k t d : nth t (skipn k l) d = nth (k + t) l d.
Proof. revert l; induction k; intros l; simpl; auto. destruct l; simpl; auto. now destruct t. Qed.
Lemma In_skipn_iff {A} (l : list A) k x d : In x (skipn k l) <-> exists t, k <= t < length l /\ nth t l d = x.
Proof.
  split.
  - intros H. destruct (In_nth _ _ d H) as (t & Ht & E). rewrite skipn_length in Ht. rewrite nth_skipn' in E.
    exists (k + t). split; auto. lia.
  - intros (t & Ht & E). subst x. replace t with (k + (t - k)) by lia. rewrite <- nth_skipn'.
    apply nth_In. rewrite skipn_length. lia.
Qed.
Lemma NoDup_bound_length (l : list nat) K : NoDup l -> (forall x, In x l -> x < K) -> length l <= K.
Proof.
  intros Hn Hb. rewrite <- (seq_length K 0). apply NoDup_incl_length; auto.
  intros x Hx. apply in_seq. specialize (Hb x Hx). lia.
Qed.

Lemma nth_firstn_lt {A} (l : list A) k t d : t < k -> nth t (firstn k l) d = nth t l d.
Proof.
  revert k t; induction l; intros k t H; simpl. destruct k, t; reflexivity.
  destruct k; [lia|]. destruct t; simpl; auto. apply IHl. lia.
Qed.
Lemma NoDup_app_disj {A} (l1 l2 : list A) x : NoDup (l1 ++ l2) -> In x l1 -> In x l2 -> False.
Proof.
  induction l1; intros Hn H1 H2; [destruct H1|]. simpl in Hn. inversion Hn; subst.
  destruct H1 as [->|H1]. apply H3. apply in_or_app. now right. apply IHl1; auto.
Qed.

Lemma classic_proc top t (pat : list nat) i :
  (exists t', top <= t' < t /\ nth t' pat 0 = i) \/ ~ (exists t', top <= t' < t /\ nth t' pat 0 = i).
Proof.
  induction t.
  - right. intros (t' & Ht' & _). lia.
  - destruct IHt as [(t' & Ht' & E)|Hn].
    + left. exists t'. split; auto. lia.
    + destruct (Nat.eq_dec (nth t pat 0) i) as [E|Ne].
      * destruct (Nat.le_gt_cases top t).
        -- left. exists t. split; auto.
        -- right. intros (t' & Ht' & _). lia.
      * right. intros (t' & Ht' & E'). destruct (Nat.eq_dec t' t); [subst; contradiction|].
        apply Hn. exists t'. split; auto. lia.
Qed.

Lemma num_walk_S etree fuel k i len flag pattern : num_walk etree (S fuel) k i len flag pattern =
  (do fi <- get_init flag i ;;
   if (fi =? k)%nat then Ok (len, flag, pattern) else
   do pattern <- upd pattern len i ;;
   do flag <- upd flag i (Some k) ;;
   do e <- get etree i ;;
   match e with
   | None => Err Index
   | Some i' => num_walk etree fuel k i' (S len) flag pattern
   end).
Proof. reflexivity. Qed.

(* while (len > 0) pattern[--top] = pattern[--len]: the path is pushed in front of the stack, order preserved *)
Lemma num_push_ok len : forall top pat, len <= top -> top <= length pat ->
  exists pat', num_push len top pat = Ok (top - len, pat') /\ length pat' = length pat /\
    skipn (top - len) pat' = firstn len pat ++ skipn top pat.
Proof.
  induction len; intros top pat Hl Ht.
  - exists pat. simpl. rewrite Nat.sub_0_r. auto.
  - destruct top as [|top']; [lia|]. cbn [num_push].
    rewrite (get_nth pat len 0) by lia. cbn [bind]. rewrite upd_lset by lia. cbn [bind].
    destruct (IHlen top' (lset pat top' (nth len pat 0))) as (pat' & E & L & Hs); try lia.
    { rewrite lset_length. lia. }
    exists pat'. replace (S top' - S len) with (top' - len) by lia. split; auto. split.
    { rewrite L, lset_length. auto. }
    rewrite Hs. rewrite firstn_lset_ge by lia. rewrite skipn_lset_eq by lia.
    rewrite (firstn_S_nth' pat len 0) by lia. rewrite <- app_assoc. reflexivity.
Qed.

Section Numeric.
Set Default Proof Using "All".
Variable n : nat.
Variables Ap Ai : list nat.
Hypothesis HApl : length Ap = S n.
Hypothesis HApm : forall j, j < n -> nth j Ap 0 <= nth (S j) Ap 0.
Hypothesis HApN : forall j, j < n -> nth (S j) Ap 0 <= length Ai.
Hypothesis HAup : forall j p, j < n -> nth j Ap 0 <= p < nth (S j) Ap 0 -> nth p Ai 0 <= j.

Variable lp : nat -> nat -> bool.
Hypothesis lp_eq : forall k i, i < k -> k < n ->
  lp k i = has_entry Ap Ai i k || existsb (fun c => lp i c && lp k c) (seq 0 i).

Notation colK := (colK lp).
Notation parK := (parK lp).
Notation cntL := (cntL lp).

(* the result of the symbolic phase *)
Variable etree : list (option nat).
Variable Lcols : list nat.
Hypothesis Hetl : length etree = n.
Hypothesis Het : forall i, i < n -> nth i etree None = parK n i.
Hypothesis HLcl : length Lcols = S n.
Hypothesis HLcS : forall i, i < n -> nth (S i) Lcols 0 = nth i Lcols 0 + cntL n i.

Notation tot := (nth n Lcols 0).

Lemma Lcols_le i j : i <= j -> j <= n -> nth i Lcols 0 <= nth j Lcols 0.
Proof. intros Hij Hj. induction Hij; auto. specialize (IHHij ltac:(lia)). rewrite HLcS by lia. lia. Qed.

(* ================= one walk ================= *)
Definition NW (K cur top len : nat) (fl : list (option nat)) (pat : list nat) : Prop :=
  length fl = n /\ length pat = n /\ top <= n /\
  nth K fl None = Some K /\
  (forall j, j < K -> exists f, nth j fl None = Some f /\ f <= K) /\
  (forall j, j < K -> mkd fl K j = true -> lp K j = true) /\
  (forall j, j < K -> mkd fl K j = true -> forall p, parK (S K) j = Some p -> p = K \/ p = cur \/ mkd fl K p = true) /\
  NoDup (firstn len pat ++ skipn top pat) /\ len <= top /\
  (forall j, In j (firstn len pat ++ skipn top pat) <-> j < K /\ mkd fl K j = true).

Lemma NW_weaken K cur top len fl pat : NW K K top len fl pat -> NW K cur top len fl pat.
Proof.
  intros (H1 & H2 & H3 & H4 & H5 & H6 & H7 & H8 & H9 & H10). unfold NW.
  do 6 (split; [assumption|]). split; [|split; [assumption|split; assumption]].
  intros j Hj Hm p Hp. destruct (H7 j Hj Hm p Hp) as [H|[H|H]]; auto.
Qed.

Lemma num_walk_ok K (HK : K < n) fuel : forall i len fl pat top,
  NW K i top len fl pat -> i <= K -> (i < K -> lp K i = true) -> K - i < fuel ->
  exists len' fl' pat', num_walk etree fuel K i len fl pat = Ok (len', fl', pat') /\ NW K K top len' fl' pat' /\
     (i < K -> mkd fl' K i = true) /\ (forall j, j < K -> mkd fl K j = true -> mkd fl' K j = true).
Proof.
  induction fuel; intros i len fl pat top HW Hi Hrow Hfuel; [lia|].
  destruct HW as (Lf & Lp & Htop & FK & Hinit & Hsound & Hcl & Hnd & Hlt & Hin).
  rewrite num_walk_S.
  destruct (Nat.eq_dec i K) as [->|HiK].
  { rewrite (get_init_ok _ _ K) by (auto; lia). cbn [bind]. rewrite Nat.eqb_refl.
    exists len, fl, pat. split; auto. split. { unfold NW. auto 15. } split; [lia|auto]. }
  assert (HiK' : i < K) by lia. specialize (Hrow HiK').
  destruct (Hinit i HiK') as (f & Ef & Hf).
  rewrite (get_init_ok _ _ f) by (auto; lia). cbn [bind].
  destruct (Nat.eqb_spec f K) as [->|HfK].
  { assert (Hm : mkd fl K i = true) by (unfold mkd; rewrite Ef; simpl; apply Nat.eqb_refl).
    exists len, fl, pat. split; auto. split; [|split; auto].
    unfold NW. repeat (split; auto); try apply Hin. intros j Hj Hmj p Hp.
    destruct (Hcl j Hj Hmj p Hp) as [H|[H|H]]; auto. subst p. auto. }
  assert (Hm : mkd fl K i = false).
  { unfold mkd. rewrite Ef. simpl. now apply Nat.eqb_neq. }
  (* i is new: the marked nodes, all below K and distinct, do not fill the pattern array *)
  assert (Hnotin : ~ In i (firstn len pat ++ skipn top pat)).
  { intros H. apply Hin in H. destruct H as [_ H]. congruence. }
  assert (Hsize : S (length (firstn len pat ++ skipn top pat)) <= K).
  { apply (NoDup_bound_length (i :: firstn len pat ++ skipn top pat)).
    - constructor; auto.
    - intros x [<-|Hx]; auto. apply Hin in Hx. tauto. }
  rewrite app_length, firstn_length, skipn_length in Hsize.
  assert (Hlen : len < top) by lia.
  destruct (par_in_row n Ap Ai HApl HApm HApN HAup lp lp_eq K i HiK' HK Hrow) as (p & Ep & Hp & Hprow).
  rewrite upd_lset by lia. cbn [bind]. rewrite upd_lset by lia. cbn [bind].
  rewrite (get_nth etree i None) by lia. cbn [bind]. rewrite Het by lia.
  rewrite (parK_mono lp (S K) n i p) by (auto; lia).
  set (fl1 := lset fl i (Some K)). set (pat1 := lset pat len i).
  assert (Hmk1 : forall j, mkd fl1 K j = if j =? i then true else mkd fl K j).
  { intros j. unfold mkd, fl1. rewrite nth_lset by lia. destruct (j =? i); auto. simpl. apply Nat.eqb_refl. }
  assert (Elist : firstn (S len) pat1 ++ skipn top pat1 = firstn len pat ++ i :: skipn top pat).
  { unfold pat1. rewrite firstn_S_lset by lia. rewrite skipn_lset_lt by lia. now rewrite <- app_assoc. }
  assert (HAdd : Add i (firstn len pat ++ skipn top pat) (firstn len pat ++ i :: skipn top pat)) by apply Add_app.
  assert (HW1 : NW K p top (S len) fl1 pat1).
  { unfold NW. unfold fl1 at 1, pat1 at 1. rewrite !lset_length. split; auto. split; auto. split; auto.
    split. { unfold fl1. rewrite nth_lset_other by lia. auto. }
    split. { intros j Hj. unfold fl1. rewrite nth_lset by lia. destruct (Nat.eqb_spec j i). exists K; auto. apply Hinit; auto. }
    split. { intros j Hj. rewrite Hmk1. destruct (Nat.eqb_spec j i); [subst; auto|apply Hsound; auto]. }
    split. { intros j Hj Hmj q Hq. rewrite Hmk1 in Hmj. rewrite Hmk1.
             destruct (Nat.eqb_spec j i) as [->|Hne].
             - rewrite Ep in Hq. inversion Hq; subst q. auto.
             - destruct (Hcl j Hj Hmj q Hq) as [H|[H|H]]; auto.
               + subst q. rewrite Nat.eqb_refl. auto.
               + destruct (q =? i); auto. }
    rewrite Elist. split. { apply (NoDup_Add HAdd). split; auto. }
    split; [lia|].
    intros j. rewrite (Add_in HAdd). rewrite Hmk1. simpl. rewrite Hin.
    destruct (Nat.eqb_spec j i) as [->|Hne]; intuition (try lia; try congruence). }
  destruct (IHfuel p (S len) fl1 pat1 top HW1) as (len' & fl' & pat' & Es & HW' & Hp' & Hmono); try lia; auto.
  exists len', fl', pat'. split; auto. split; auto. split.
  - intros _. apply Hmono; auto. rewrite Hmk1, Nat.eqb_refl. auto.
  - intros j Hj Hmj. apply Hmono; auto. rewrite Hmk1. destruct (j =? i); auto.
Qed.

(* ================= completeness of the marks ================= *)
Lemma nmarks_up K fl : K < n ->
  (forall j, j < K -> mkd fl K j = true -> lp K j = true) ->
  (forall j, j < K -> mkd fl K j = true -> forall p, parK (S K) j = Some p -> p = K \/ p = K \/ mkd fl K p = true) ->
  forall d c j, j - c <= d -> c < j -> j < K -> mkd fl K c = true -> lp j c = true -> mkd fl K j = true.
Proof.
  intros HK Hsound Hcl.
  induction d; intros c j Hd Hc Hj Hm Hl; [lia|].
  assert (HlK : lp K c = true) by (apply Hsound; auto; lia).
  destruct (parK (S K) c) as [p|] eqn:Ep.
  2:{ pose proof (parK_none lp _ _ Ep j ltac:(lia)). congruence. }
  pose proof (parK_some lp _ _ _ Ep) as (P1 & P2 & P3).
  assert (Hpj : p <= j). { destruct (Nat.le_gt_cases p j); auto. rewrite P3 in Hl by lia. discriminate. }
  destruct (Hcl c ltac:(lia) Hm p Ep) as [H|[H|H]]; try lia.
  destruct (Nat.eq_dec p j) as [->|Hne]; auto.
  apply (IHd p j); auto; try lia. apply (lp_fill n Ap Ai HApl HApm HApN HAup lp lp_eq j p c); auto; lia.
Qed.

Lemma nmarks_complete K fl : K < n ->
  (forall j, j < K -> mkd fl K j = true -> lp K j = true) ->
  (forall j, j < K -> mkd fl K j = true -> forall p, parK (S K) j = Some p -> p = K \/ p = K \/ mkd fl K p = true) ->
  (forall q, nth K Ap 0 <= q < nth (S K) Ap 0 -> nth q Ai 0 < K -> mkd fl K (nth q Ai 0) = true) ->
  forall j, j < K -> lp K j = true -> mkd fl K j = true.
Proof.
  intros HK Hsound Hcl Hent j. induction j as [j IH] using lt_wf_ind. intros Hj Hl.
  rewrite lp_eq in Hl by lia. apply orb_true_iff in Hl. destruct Hl as [Hl|Hl].
  - unfold has_entry in Hl. apply existsb_exists in Hl. destruct Hl as (q & Hq & Eq). apply in_seq in Hq.
    apply Nat.eqb_eq in Eq. subst j. apply Hent; auto. lia.
  - apply existsb_exists in Hl. destruct Hl as (c & Hc & Hcc). apply in_seq in Hc. apply andb_true_iff in Hcc.
    destruct Hcc as [H1 H2]. apply (nmarks_up K fl HK Hsound Hcl (j - c) c j); auto; try lia. apply IH; auto; lia.
Qed.

(* ================= the pattern of row K ================= *)
(* the stack order is topological: a node comes before every node of the stack whose row of L contains it *)
Definition Topo (top : nat) (pat : list nat) : Prop :=
  forall t1 t2, top <= t1 < n -> top <= t2 < n -> lp (nth t2 pat 0) (nth t1 pat 0) = true -> nth t1 pat 0 < nth t2 pat 0 -> t1 < t2.

(* the nodes written by one walk: strictly increasing, the stack region and the earlier path are untouched *)
Lemma num_walk_path K top fuel : forall i len fl pat len' fl' pat',
  num_walk etree fuel K i len fl pat = Ok (len', fl', pat') -> len' <= top ->
  length pat' = length pat /\ len <= len' /\ skipn top pat' = skipn top pat /\
  (forall t, t < len -> nth t pat' 0 = nth t pat 0) /\
  (forall t, len <= t < len' -> i <= nth t pat' 0) /\
  (forall t t', len <= t -> t < t' -> t' < len' -> nth t pat' 0 < nth t' pat' 0).
Proof.
  induction fuel; intros i len fl pat len' fl' pat' H Htop; [discriminate|].
  rewrite num_walk_S in H. bnv H as fi. destruct (fi =? K).
  { inversion H; subst. repeat (split; auto); intros; lia. }
  bnv H as pat1. bnv H as fl1. bnv H as e. destruct e as [p|]; [|discriminate].
  apply upd_ok_inv in E0. destruct E0 as [Hlen ->]. apply get_ok_inv in E2. destruct E2 as [Hi Ee].
  specialize (Ee None). rewrite Het in Ee by lia. apply (parK_some lp) in Ee. destruct Ee as (Hip & _).
  destruct (IHfuel p (S len) fl1 (lset pat len i) len' fl' pat' H Htop) as (I1 & I2 & I3 & I4 & I5 & I6).
  rewrite lset_length in I1.
  assert (Hlen_i : nth len pat' 0 = i). { rewrite I4 by lia. apply nth_lset_same. lia. }
  split; auto. split; [lia|]. split. { rewrite I3. apply skipn_lset_lt. lia. }
  split. { intros t Ht. rewrite I4 by lia. apply nth_lset_other; lia. }
  split.
  - intros t Ht. destruct (Nat.eq_dec t len) as [->|Hne]. lia. specialize (I5 t ltac:(lia)). lia.
  - intros t t' H1 H2 H3. destruct (Nat.eq_dec t len) as [->|Hne].
    + rewrite Hlen_i. specialize (I5 t' ltac:(lia)). lia.
    + apply I6; lia.
Qed.

(* position form of the finished stack *)
Definition StackOK (K top : nat) (pat : list nat) : Prop :=
  top <= n /\ length pat = n /\
  (forall t, top <= t < n -> nth t pat 0 < K /\ lp K (nth t pat 0) = true) /\
  (forall t1 t2, top <= t1 < n -> top <= t2 < n -> nth t1 pat 0 = nth t2 pat 0 -> t1 = t2) /\
  (forall j, j < K -> lp K j = true -> exists t, top <= t < n /\ nth t pat 0 = j) /\
  Topo top pat.

Definition NumInv (K : nat) (li : ldl_i) : Prop :=
  length (i_Lnnz li) = n /\ length (i_flag li) = n /\ length (i_pattern li) = n /\ length (i_Lind li) = tot /\
  (forall i, i < K -> exists f, nth i (i_flag li) None = Some f /\ f < K) /\
  (forall i, i < K -> nth i (i_Lnnz li) 0 = cntL K i) /\
  (forall i u, i < K -> u < cntL K i -> nth (nth i Lcols 0 + u) (i_Lind li) 0 = nth u (colK K i) 0).

Lemma num_pattern_ok K li : K < n -> NumInv K li ->
  exists top fl pat, num_pattern_i n Ap Ai etree K li = Ok (top, mkldli (i_etree li) (i_Lcols li) (lset (i_Lnnz li) K 0) (i_Lind li) fl pat) /\
    StackOK K top pat /\ length fl = n /\ (forall i, i < S K -> exists f, nth i fl None = Some f /\ f < S K).
Proof.
  intros HK (Lz & Lf & Lp & Li & Hfl & Hnz & Hind). unfold num_pattern_i.
  rewrite upd_lset by lia. cbn [bind]. rewrite upd_lset by lia. cbn [bind].
  rewrite (get_nth Ap K 0) by lia. cbn [bind]. rewrite (get_nth Ap (S K) 0) by lia. cbn [bind].
  set (fl0 := lset (i_flag li) K (Some K)).
  assert (Hm0 : forall j, j < K -> mkd fl0 K j = false).
  { intros j Hj. unfold mkd, fl0. rewrite nth_lset_other by lia. destruct (Hfl j Hj) as (f & -> & Hf). simpl. apply Nat.eqb_neq. lia. }
  assert (HW0 : NW K K n 0 fl0 (i_pattern li)).
  { unfold NW. unfold fl0 at 1 2. rewrite lset_length. rewrite nth_lset_same by lia.
    split; auto. split; auto. split; auto. split; auto.
    split. { intros j Hj. unfold fl0. rewrite nth_lset_other by lia. destruct (Hfl j Hj) as (f & E & Hf). exists f. split; auto. lia. }
    split. { intros j Hj Hm. rewrite Hm0 in Hm by auto. discriminate. }
    split. { intros j Hj Hm. rewrite Hm0 in Hm by auto. discriminate. }
    rewrite skipn_all2 by lia. simpl. split. constructor. split; [lia|].
    intros j. split; [intros []|]. intros [Hj Hm]. rewrite Hm0 in Hm by auto. discriminate. }
  pose proof (HApm K HK) as Hle. pose proof (HApN K HK) as HhiN.
  destruct (for_range_ind (fun q (st : nat * list (option nat) * list nat) => let '(top, fl, pat) := st in
               NW K K top 0 fl pat /\
               (forall q', nth K Ap 0 <= q' < q -> nth q' Ai 0 < K -> mkd fl K (nth q' Ai 0) = true) /\ Topo top pat)
             (nth K Ap 0) (nth (S K) Ap 0) (fun p '(top, fl, pat) => num_entry_i n Ai etree K p top fl pat) (n, fl0, i_pattern li))
    as ([[top fl] pat] & E & HW' & Hent & Htopo); auto.
  - split; auto. split. intros; lia. intros t1 t2 Ht1; lia.
  - intros q [[top1 fl1] pat1] Hq (HW1 & Hent1 & Htopo1). cbv beta iota. unfold num_entry_i.
    rewrite (get_nth Ai q 0) by lia. cbn [bind].
    pose proof (HAup K q HK Hq) as HiK.
    destruct (num_walk_ok K HK (S n) (nth q Ai 0) 0 fl1 pat1 top1 (NW_weaken K _ _ _ _ _ HW1) HiK)
      as (len2 & fl2 & pat2 & E2 & HW2 & Hmi & Hmono); try lia.
    { intros Hlt. rewrite lp_eq by lia. apply orb_true_iff. left. unfold has_entry. apply existsb_exists.
      exists q. split. apply in_seq; lia. apply Nat.eqb_refl. }
    rewrite E2. cbn [bind]. cbv beta iota.
    destruct HW2 as (Lf2 & Lp2 & Htop2 & FK2 & Hinit2 & Hsound2 & Hcl2 & Hnd2 & Hlt2 & Hin2).
    destruct (num_push_ok len2 top1 pat2) as (pat3 & E3 & L3 & Hs3); try lia.
    rewrite E3. cbn [bind]. cbv beta iota. eexists; split; [reflexivity|]. cbv beta iota. split.
    + unfold NW. rewrite L3. split; auto. split; auto. split; [lia|]. split; auto. split; auto. split; auto. split; auto.
      simpl firstn. simpl app. rewrite Hs3. split; auto. split; [lia|]. exact Hin2.
    + split. { intros q' Hq' Hlt. destruct (Nat.eq_dec q' q) as [->|Hne]; auto. apply Hmono; auto. apply Hent1; auto; lia. }
      (* topological order of the new stack = path ++ old stack *)
      destruct (num_walk_path K top1 (S n) _ _ _ _ _ _ _ E2 Hlt2) as (W1 & _ & W3 & _ & _ & W6).
      destruct HW1 as (_ & Lp1 & Htop1 & _ & _ & Hsound1 & Hcl1 & _ & _ & Hin1). simpl in Hin1.
      assert (PD : forall t, top1 - len2 <= t < n ->
                 nth t pat3 0 = if t <? top1 then nth (t - (top1 - len2)) pat2 0 else nth t pat1 0).
      { intros t Ht. replace t with ((top1 - len2) + (t - (top1 - len2))) at 1 by lia. rewrite <- nth_skipn', Hs3.
        destruct (Nat.ltb_spec t top1).
        - rewrite app_nth1 by (rewrite firstn_length; lia). apply nth_firstn_lt. lia.
        - rewrite app_nth2 by (rewrite firstn_length; lia). rewrite firstn_length, W3, nth_skipn'.
          f_equal. lia. }
      assert (Hunm : forall t, t < len2 -> nth t pat2 0 < K /\ mkd fl1 K (nth t pat2 0) = false).
      { intros t Ht. assert (Hinp : In (nth t pat2 0) (firstn len2 pat2)).
        { rewrite <- (nth_firstn_lt pat2 len2 t 0) by lia. apply nth_In. rewrite firstn_length. lia. }
        assert (HK2 : nth t pat2 0 < K) by (apply Hin2; apply in_or_app; now left). split; auto.
        destruct (mkd fl1 K (nth t pat2 0)) eqn:Em; auto. exfalso.
        apply (NoDup_app_disj _ _ _ Hnd2 Hinp). rewrite W3. apply Hin1. auto. }
      intros t1 t2 Ht1 Ht2. rewrite !PD by lia.
      destruct (Nat.ltb_spec t1 top1), (Nat.ltb_spec t2 top1); intros Hl Hv; try lia.
      * destruct (Nat.lt_trichotomy t1 t2) as [Hc|[Hc|Hc]]; auto.
        -- subst. lia.
        -- pose proof (W6 (t2 - (top1 - len2)) (t1 - (top1 - len2)) ltac:(lia) ltac:(lia) ltac:(lia)). lia.
      * exfalso. destruct (Hunm (t2 - (top1 - len2)) ltac:(lia)) as [HjK Hjm].
        assert (Hc : In (nth t1 pat1 0) (skipn top1 pat1)) by (apply (In_skipn_iff pat1 top1 _ 0); exists t1; split; auto; lia).
        apply Hin1 in Hc. destruct Hc as [HcK Hcm].
        pose proof (nmarks_up K fl1 HK Hsound1 Hcl1 _ _ _ (le_n _) Hv HjK Hcm Hl). congruence.
      * apply Htopo1; auto; lia.
  - change Qc with F in *. rewrite E. cbn [bind]. cbv beta iota.
    exists top, fl, pat. split; auto.
    destruct HW' as (Lf' & Lp' & Htop' & FK' & Hinit' & Hsound' & Hcl' & Hnd' & _ & Hin'). simpl in Hnd', Hin'.
    pose proof (nmarks_complete K fl HK Hsound' Hcl' Hent) as Hcomp.
    split; [|split; auto].
    + unfold StackOK. split; auto. split; auto. split; [|split; [|split; [|exact Htopo]]].
      * intros t Ht. assert (Hi : In (nth t pat 0) (skipn top pat)) by (apply (In_skipn_iff pat top _ 0); exists t; split; auto; lia).
        apply Hin' in Hi. destruct Hi as [H1 H2]. split; auto.
      * intros t1 t2 Ht1 Ht2 Eq.
        assert (top + (t1 - top) = top + (t2 - top)); [|lia]. f_equal.
        apply (NoDup_nth (skipn top pat) 0); auto; try (rewrite skipn_length; lia).
        rewrite !nth_skipn'. replace (top + (t1 - top)) with t1 by lia. replace (top + (t2 - top)) with t2 by lia. auto.
      * intros j Hj Hl. assert (Hi : In j (skipn top pat)) by (apply Hin'; split; auto).
        apply (In_skipn_iff pat top j 0) in Hi. destruct Hi as (t & Ht & Et). exists t. split; auto. lia.
    + intros i Hi. destruct (Nat.eq_dec i K) as [->|Hne]. exists K; split; auto.
      destruct (Hinit' i ltac:(lia)) as (f & Ef & Hf). exists f. split; auto. lia.
Qed.

(* ================= the elimination loop (index part) ================= *)
Definition EInv (K top : nat) (li0 : ldl_i) (t : nat) (li1 : ldl_i) : Prop :=
  let pat := i_pattern li0 in
  i_etree li1 = i_etree li0 /\ i_Lcols li1 = i_Lcols li0 /\ i_flag li1 = i_flag li0 /\ i_pattern li1 = pat /\
  length (i_Lnnz li1) = n /\ length (i_Lind li1) = tot /\ nth K (i_Lnnz li1) 0 = nth K (i_Lnnz li0) 0 /\
  (forall i, i < K -> (exists t', top <= t' < t /\ nth t' pat 0 = i) -> nth i (i_Lnnz li1) 0 = S (cntL K i)) /\
  (forall i, i < K -> ~ (exists t', top <= t' < t /\ nth t' pat 0 = i) -> nth i (i_Lnnz li1) 0 = cntL K i) /\
  (forall i u, i < K -> u < nth i (i_Lnnz li1) 0 -> nth (nth i Lcols 0 + u) (i_Lind li1) 0 = nth u (colK (S K) i) 0).

Lemma num_elim_step_ok K top li0 t li1 : K < n -> StackOK K top (i_pattern li0) -> top <= t < n -> EInv K top li0 t li1 ->
  let i := nth t (i_pattern li0) 0 in
  let li2 := mkldli (i_etree li1) (i_Lcols li1) (lset (i_Lnnz li1) i (S (cntL K i)))
                    (lset (i_Lind li1) (nth i Lcols 0 + cntL K i) K) (i_flag li1) (i_pattern li1) in
  num_elim_i n Lcols K t li1 = Ok li2 /\ EInv K top li0 (S t) li2 /\
  i < K /\ lp K i = true /\ nth i (i_Lnnz li1) 0 = cntL K i /\ nth i Lcols 0 + cntL K i < tot /\
  ~ (exists t', top <= t' < t /\ nth t' (i_pattern li0) 0 = i).
Proof.
  intros HK (Htop & Lp & SP1 & SP2 & SP3 & SP4) Ht (H1 & H2 & H3 & H4 & H5 & H6 & H7 & H8 & H9 & H10).
  set (pat := i_pattern li0) in *. cbv zeta.
    destruct (SP1 t Ht) as [Hi Hl]. set (i := nth t pat 0) in *.
    assert (Hnp : ~ (exists t', top <= t' < t /\ nth t' pat 0 = i)).
    { intros (t' & Ht' & Et'). assert (t' = t) by (apply SP2; auto; lia). lia. }
    pose proof (H9 i Hi Hnp) as Hz.
    assert (Hcnt : cntL K i < cntL n i).
    { pose proof (cntL_le lp (S K) n i ltac:(lia)). rewrite (cntL_S lp) in H by auto. rewrite Hl in H. lia. }
    assert (Hseg : nth i Lcols 0 + cntL n i <= tot). { rewrite <- HLcS by lia. apply Lcols_le; lia. }
    unfold num_elim_i. rewrite H4. rewrite (get_nth pat t 0) by lia. cbn [bind]. fold i.
    rewrite (get_nth Lcols i 0) by lia. cbn [bind]. rewrite (get_nth (i_Lnnz li1) i 0) by lia. cbn [bind]. rewrite Hz.
    (* the rows already stored in column i are valid *)
    destruct (for_range_ind (fun (p : nat) (u : unit) => True) (nth i Lcols 0) (nth i Lcols 0 + cntL K i)
               (fun p (u : unit) => do r <- get (i_Lind li1) p ;; if r <? n then Ok tt else Err Index) tt) as (u & Eu & _); auto; try lia.
    { intros p [] Hp _. rewrite (get_nth (i_Lind li1) p 0) by lia. cbn [bind].
      replace p with (nth i Lcols 0 + (p - nth i Lcols 0)) by lia. rewrite H10 by (auto; lia).
      assert (Hb : p - nth i Lcols 0 < cntL (S K) i) by (rewrite (cntL_S lp) by auto; lia).
      pose proof (nth_colK_bound lp (S K) i _ Hb). destruct (Nat.ltb_spec (nth (p - nth i Lcols 0) (colK (S K) i) 0) n); [|lia].
      exists tt. auto. }
    destruct u. rewrite Eu. cbn [bind].
    destruct (Nat.ltb_spec i K); [|lia]. cbn [negb].
    rewrite upd_lset by lia. cbn [bind]. rewrite upd_lset by lia. cbn [bind].
    split; [reflexivity|]. split; [|repeat (split; auto); lia]. unfold EInv. fold pat. simpl. rewrite !lset_length.
    split; auto. split; auto. split; auto. split; auto. split; auto. split; auto.
    split. { rewrite nth_lset_other by lia. auto. }
    split; [|split].
    + intros i' Hi' (t' & Ht' & Et'). rewrite nth_lset by lia. destruct (Nat.eqb_spec i' i) as [->|Hne]; auto.
      apply H8; auto. exists t'. split; auto. destruct (Nat.eq_dec t' t); [subst; contradiction|lia].
    + intros i' Hi' Hn'. rewrite nth_lset by lia. destruct (Nat.eqb_spec i' i) as [->|Hne].
      * exfalso. apply Hn'. exists t. split; auto. lia.
      * apply H9; auto. intros (t' & Ht' & Et'). apply Hn'. exists t'. split; auto. lia.
    + intros i' u Hi' Hu. rewrite nth_lset in Hu by lia.
      destruct (Nat.eqb_spec i' i) as [->|Hne].
      * rewrite nth_lset by lia. destruct (Nat.eqb_spec (nth i Lcols 0 + u) (nth i Lcols 0 + cntL K i)) as [Eu'|Nu].
        -- assert (u = cntL K i) by lia. subst u. rewrite (colK_S lp) by auto. rewrite Hl.
           rewrite app_nth2 by (unfold LDLSymbolicGenProofs.cntL; lia).
           unfold LDLSymbolicGenProofs.cntL. rewrite Nat.sub_diag. reflexivity.
        -- apply H10; auto. lia.
      * (* another column: its segment does not contain the written slot *)
        assert (Hu' : u < cntL n i').
        { assert (nth i' (i_Lnnz li1) 0 <= cntL (S K) i').
          { destruct (classic_proc top t pat i') as [Hp|Hp].
            - rewrite H8 by auto. destruct Hp as (t' & Ht' & Et'). destruct (SP1 t' ltac:(lia)) as [_ Hl'].
              rewrite Et' in Hl'. rewrite (cntL_S lp) by auto. rewrite Hl'. lia.
            - rewrite H9 by auto. apply cntL_le. lia. }
          pose proof (cntL_le lp (S K) n i' ltac:(lia)). lia. }
        rewrite nth_lset_other; [apply H10; auto|lia|].
        destruct (Nat.lt_ge_cases i' i).
        -- assert (HS : nth (S i') Lcols 0 <= nth i Lcols 0) by (apply Lcols_le; lia). rewrite HLcS in HS by lia. lia.
        -- assert (HS : nth (S i) Lcols 0 <= nth i' Lcols 0) by (apply Lcols_le; lia). rewrite HLcS in HS by lia. lia.
Qed.

Lemma num_elim_loop_ok K top li0 : K < n -> StackOK K top (i_pattern li0) ->
  length (i_Lnnz li0) = n -> length (i_Lind li0) = tot ->
  (forall i, i < K -> nth i (i_Lnnz li0) 0 = cntL K i) ->
  (forall i u, i < K -> u < cntL K i -> nth (nth i Lcols 0 + u) (i_Lind li0) 0 = nth u (colK K i) 0) ->
  EInv K top li0 top li0 /\
  exists li1, for_range top n (num_elim_i n Lcols K) li0 = Ok li1 /\
    i_etree li1 = i_etree li0 /\ i_Lcols li1 = i_Lcols li0 /\ i_flag li1 = i_flag li0 /\ i_pattern li1 = i_pattern li0 /\
    length (i_Lnnz li1) = n /\ length (i_Lind li1) = tot /\
    nth K (i_Lnnz li1) 0 = nth K (i_Lnnz li0) 0 /\
    (forall i, i < K -> nth i (i_Lnnz li1) 0 = cntL (S K) i) /\
    (forall i u, i < K -> u < cntL (S K) i -> nth (nth i Lcols 0 + u) (i_Lind li1) 0 = nth u (colK (S K) i) 0).
Proof.
  intros HK HS Lz Li Hnz Hind.
  assert (HE0 : EInv K top li0 top li0).
  { unfold EInv. repeat (split; auto).
    + intros i Hi (t' & Ht' & _). lia.
    + intros i u Hi Hu. rewrite Hnz in Hu by auto. rewrite Hind by auto. symmetry. apply (nth_colK_ext lp); auto. }
  split; auto.
  pose proof HS as (Htop & Lp & SP1 & SP2 & SP3 & SP4).
  destruct (for_range_ind (EInv K top li0) top n (num_elim_i n Lcols K) li0) as (li1 & E & HE1); auto.
  - intros t li1 Ht HE. destruct (num_elim_step_ok K top li0 t li1 HK HS Ht HE) as (E2 & HE2 & _). eauto.
  - destruct HE1 as (H1 & H2 & H3 & H4 & H5 & H6 & H7 & H8 & H9 & H10). set (pat := i_pattern li0) in *.
    exists li1. split; auto. split; auto. split; auto. split; auto. split; auto. split; auto. split; auto. split; auto.
    assert (Hall : forall i, i < K -> nth i (i_Lnnz li1) 0 = cntL (S K) i).
    { intros i Hi. rewrite (cntL_S lp) by auto. destruct (lp K i) eqn:El.
      - destruct (SP3 i Hi El) as (t & Ht & Et). rewrite H8; [lia|auto|exists t; auto].
      - rewrite H9; [lia|auto|]. intros (t & Ht & Et). destruct (SP1 t ltac:(lia)) as [_ Hl]. rewrite Et in Hl. congruence. }
    split; auto. intros i u Hi Hu. apply H10; auto. rewrite Hall; auto.
Qed.

Lemma EInv_final K top li0 li1 : K < n -> StackOK K top (i_pattern li0) -> EInv K top li0 n li1 ->
  (forall i, i < K -> nth i (i_Lnnz li1) 0 = cntL (S K) i) /\
  (forall i u, i < K -> u < cntL (S K) i -> nth (nth i Lcols 0 + u) (i_Lind li1) 0 = nth u (colK (S K) i) 0).
Proof.
  intros HK (Htop & Lp & SP1 & SP2 & SP3 & SP4) (H1 & H2 & H3 & H4 & H5 & H6 & H7 & H8 & H9 & H10).
  set (pat := i_pattern li0) in *.
  assert (Hall : forall i, i < K -> nth i (i_Lnnz li1) 0 = cntL (S K) i).
  { intros i Hi. rewrite (cntL_S lp) by auto. destruct (lp K i) eqn:El.
    - destruct (SP3 i Hi El) as (t & Ht & Et). rewrite H8; [lia|auto|exists t; auto].
    - rewrite H9; [lia|auto|]. intros (t & Ht & Et). destruct (SP1 t ltac:(lia)) as [_ Hl]. rewrite Et in Hl. congruence. }
  split; auto. intros i u Hi Hu. apply H10; auto. rewrite Hall; auto.
Qed.

(* ================= one step and the loop ================= *)
Lemma num_step_ok K li : K < n -> NumInv K li ->
  exists li', num_step_i n Ap Ai etree Lcols K li = Ok li' /\ NumInv (S K) li' /\ i_etree li' = i_etree li /\ i_Lcols li' = i_Lcols li.
Proof.
  intros HK HI. unfold num_step_i.
  destruct (num_pattern_ok K li HK HI) as (top & fl & pat & E & HS & Lfl & Hfl').
  rewrite E. cbn [bind]. cbv beta iota.
  destruct HI as (Lz & Lf & Lp & Li & Hfl & Hnz & Hind).
  set (li0 := mkldli (i_etree li) (i_Lcols li) (lset (i_Lnnz li) K 0) (i_Lind li) fl pat).
  destruct (num_elim_loop_ok K top li0 HK) as (_ & li1 & E1 & R1 & R2 & R3 & R4 & R5 & R6 & R7 & R8 & R9); auto.
  - simpl. now rewrite lset_length.
  - intros i Hi. simpl. rewrite nth_lset_other by lia. auto.
  - exists li1. split; auto. split; auto. unfold NumInv. rewrite R3, R4. simpl.
    destruct HS as (_ & Lpat & _). split; auto. split; auto. split; auto. split; auto. split; auto. split.
    + intros i Hi. destruct (Nat.eq_dec i K) as [->|Hne].
      * rewrite R7. simpl. rewrite nth_lset_same by lia. unfold LDLSymbolicGenProofs.cntL. now rewrite colK_nil by lia.
      * apply R8. lia.
    + intros i u Hi Hu. destruct (Nat.eq_dec i K) as [->|Hne].
      * unfold LDLSymbolicGenProofs.cntL in Hu. rewrite colK_nil in Hu by lia. simpl in Hu. lia.
      * apply R9; auto. lia.
Qed.

Lemma num_loop_ok len : forall k0 li, k0 + len = n -> NumInv k0 li ->
  exists li', num_loop_i n Ap Ai etree Lcols (seq k0 len) li = Ok li' /\ NumInv n li' /\ i_etree li' = i_etree li /\ i_Lcols li' = i_Lcols li.
Proof.
  induction len; intros k0 li Hlen HI; cbn [seq num_loop_i].
  - exists li. replace k0 with n in HI by lia. auto.
  - destruct (num_step_ok k0 li ltac:(lia) HI) as (li1 & E1 & HI1 & R1 & R2). rewrite E1. cbn [bind].
    destruct (IHlen (S k0) li1 ltac:(lia) HI1) as (li' & E' & HI' & R1' & R2'). exists li'. split; auto. split; auto.
    split; congruence.
Qed.

End Numeric.
