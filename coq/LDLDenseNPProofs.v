(* LDLDenseNPProofs.v -- C14 2d: the unblocked in-place pivot-free LDL^T of ldlt_no_pivot.hpp.
   General (all sizes): [unblocked] never fails; if it returns -1 the stored factors satisfy L*D*L^T = A (lower
   triangle of the input) with all pivots nonzero; if it returns k then pivot k is the first zero pivot (it is
   reported, nothing was divided by it).  [dense_solve] on such factors inverts L*D*L^T. *)
From PIQP Require Import Base CSC LDLDenseNP C14LemmasProofs LDLSparseProofs.
Local Open Scope nat_scope.

Definition ent (m : DMat) (i j : nat) : F := nth j (nth i m []) 0%Qc.

(* ---------- dot products and small vector facts ---------- *)
Lemma sum_n_shift k (f : nat -> F) : sum_n (S k) f = (f 0%nat + sum_n k (fun j => f (S j)))%Qc.
Proof. induction k. simpl; fring. change (sum_n (S (S k)) f) with (sum_n (S k) f + f (S k))%Qc. rewrite IHk. simpl. fring. Qed.

Lemma qdot_acc (a : list F) : forall (b : list F) acc k, length a = k -> length b = k ->
  fold_left (fun acc p => (acc + fst p * snd p)%Qc) (combine a b) acc = (acc + sum_n k (fun j => nth j a 0 * nth j b 0))%Qc.
Proof.
  induction a as [|x a IH]; intros b acc k Ha Hb; simpl in Ha; subst k.
  - simpl. fring.
  - destruct b as [|y b]; [discriminate|]. simpl in Hb. simpl combine. simpl fold_left.
    rewrite (IH b _ (length a)) by lia. rewrite sum_n_shift. simpl. fring.
Qed.
Lemma qdot_sum_n (a b : list F) k : length a = k -> length b = k ->
  qdot a b = sum_n k (fun j => nth j a 0 * nth j b 0)%Qc.
Proof. intros. unfold qdot. rewrite (qdot_acc a b _ k) by auto. fring. Qed.

Lemma nth_vmul (a b : list F) j : j < length a -> j < length b -> nth j (vmul a b) 0%Qc = (nth j a 0 * nth j b 0)%Qc.
Proof.
  revert b j; induction a as [|x a IH]; intros b j Ha Hb; simpl in Ha; [lia|].
  destruct b as [|y b]; simpl in Hb; [lia|]. destruct j; simpl. reflexivity.
  apply IH; lia.
Qed.
Lemma vmul_length (a b : list F) : length (vmul a b) = Nat.min (length a) (length b).
Proof. unfold vmul, vmap2. now rewrite map_length, combine_length. Qed.

Lemma mapM_seq_ok {B} (f : nat -> res B) (g : nat -> B) k : forall lo, (forall j, lo <= j < lo + k -> f j = Ok (g j)) ->
  mapM f (seq lo k) = Ok (map g (seq lo k)).
Proof.
  induction k; intros lo H; simpl. reflexivity.
  rewrite H by lia. cbn [bind]. rewrite IHk. reflexivity. intros; apply H; lia.
Qed.

Lemma nth_firstn {A} (l : list A) k j d : j < k -> nth j (firstn k l) d = nth j l d.
Proof. revert k j; induction l; intros k j H; destruct k, j; simpl; auto; try lia. apply IHl; lia. Qed.

(* ---------- square matrices ---------- *)
Lemma dsquare_inv size m : dsquare size m = true -> length m = size /\ forall i, i < size -> length (nth i m []) = size.
Proof.
  unfold dsquare. rewrite andb_true_iff. intros [H1 H2]. apply Nat.eqb_eq in H1. split; auto.
  intros i Hi. rewrite forallb_forall in H2. apply Nat.eqb_eq. apply H2. apply nth_In. lia.
Qed.
Definition sq (size : nat) (m : DMat) : Prop := length m = size /\ forall i, i < size -> length (nth i m []) = size.

Lemma dget_ent size m i j : sq size m -> i < size -> j < size -> dget m i j = Ok (ent m i j).
Proof.
  intros [H1 H2] Hi Hj. unfold dget. rewrite (get_nth m i []) by lia. cbn [bind].
  rewrite (get_nth (A:=F) _ j 0%Qc) by (rewrite H2; auto). reflexivity.
Qed.

(* update of column k over a range of rows: M'(i,k) = g i (row i) M(i,k) *)
Lemma col_update size k (g : nat -> list F -> F -> F) lo hi m : sq size m -> k < size -> hi <= size -> lo <= hi ->
  exists m', for_range lo hi (fun i m => do r <- get m i ;; do a <- get r k ;; do r' <- upd r k (g i r a) ;; upd m i r') m = Ok m' /\
    sq size m' /\
    forall i j, ent m' i j = if (lo <=? i) && (i <? hi) && (j =? k) then g i (nth i m []) (ent m i k) else ent m i j.
Proof.
  intros Hsq Hk Hhi Hlo.
  destruct (for_range_ind (fun p (m' : DMat) => sq size m' /\
      forall i j, ent m' i j = if (lo <=? i) && (i <? p) && (j =? k) then g i (nth i m []) (ent m i k) else ent m i j)
      lo hi (fun i m => do r <- get m i ;; do a <- get r k ;; do r' <- upd r k (g i r a) ;; upd m i r') m) as (m' & E & Hsq' & He); auto.
  - split; auto. intros i j. destruct (Nat.leb_spec lo i), (Nat.ltb_spec i lo); simpl; auto; lia.
  - intros p mp Hp [[L1 L2] He].
    rewrite (get_nth mp p []) by lia. cbn [bind].
    rewrite (get_nth (A:=F) (nth p mp []) k 0%Qc) by (rewrite L2; lia). cbn [bind].
    rewrite upd_lset by (rewrite L2; lia). cbn [bind]. rewrite upd_lset by lia.
    eexists; split; [reflexivity|]. split.
    + split. now rewrite lset_length. intros i Hi. rewrite nth_lset by lia.
      destruct (Nat.eqb_spec i p); [rewrite lset_length; apply L2; lia|apply L2; auto].
    + intros i j. unfold ent at 1. destruct (Nat.lt_ge_cases i size) as [Hi|Hi].
      * rewrite nth_lset by lia. destruct (Nat.eqb_spec i p) as [->|Hne].
        -- rewrite nth_lset by (rewrite L2; lia).
           assert (Hrow : nth p mp [] = nth p m []).
           { apply (nth_ext _ _ 0%Qc 0%Qc). { destruct Hsq as [S1 S2]. rewrite L2, S2; auto; lia. }
             intros j' _. change (ent mp p j' = ent m p j'). rewrite He.
             destruct (Nat.ltb_spec p p); [lia|]. rewrite andb_false_r. reflexivity. }
           destruct (Nat.eqb_spec j k) as [->|].
           ++ destruct (Nat.leb_spec lo p), (Nat.ltb_spec p (S p)); try lia. simpl.
              rewrite Hrow. reflexivity.
           ++ rewrite andb_false_r. fold (ent mp p j). rewrite He. rewrite (proj2 (Nat.eqb_neq j k)) by auto. now rewrite andb_false_r.
        -- fold (ent mp i j). rewrite He.
           destruct (Nat.leb_spec lo i), (Nat.ltb_spec i p), (Nat.ltb_spec i (S p)); simpl; auto; lia.
      * rewrite (nth_overflow (lset mp p _)) by (rewrite lset_length; lia).
        destruct (Nat.ltb_spec i (S p)); [lia|]. rewrite andb_false_r. simpl.
        unfold ent. destruct Hsq as [S1 _]. rewrite (nth_overflow m) by lia. destruct j; reflexivity.
  - eauto.
Qed.

(* ---------- the recurrence maintained by the loop ---------- *)
Section Unblocked.
Variable size : nat.
Variable A0 : nat -> nat -> F.                 (* the input *)

(* columns < k hold finished factors, the rest of the matrix is still the input *)
Definition UInv (k : nat) (m : DMat) : Prop :=
  sq size m /\
  (forall i j, i < size -> j < size -> (k <= j \/ i < j) -> ent m i j = A0 i j) /\
  (forall c, c < k -> ent m c c <> 0%Qc /\
      ent m c c = (A0 c c - sum_n c (fun j => ent m c j * (ent m j j * ent m c j)))%Qc /\
      forall i, c < i < size -> (ent m i c * ent m c c)%Qc = (A0 i c - sum_n c (fun j => ent m i j * (ent m j j * ent m c j)))%Qc).

Lemma unb_step_correct k m : k < size -> UInv k m ->
  exists m' z, unb_step size k m = Ok (m', z) /\
    (z = false -> UInv (S k) m') /\
    (z = true -> ent m' k k = 0%Qc /\ forall c, c < k -> ent m' c c <> 0%Qc).
Proof.
  intros Hk (Hsq & Hin & Hdone). unfold unb_step.
  set (t := fun j => (ent m j j * ent m k j)%Qc).
  (* first half: subtract the contributions of the finished columns *)
  match goal with |- exists m' z, bind ?X _ = _ /\ _ => assert (H1 : exists m1, X = Ok m1 /\
      sq size m1 /\
      forall i j, ent m1 i j = if (k <=? i) && (i <? size) && (j =? k) then (ent m i k - sum_n k (fun c => ent m i c * t c))%Qc else ent m i j) end.
  { destruct (Nat.eqb_spec k 0) as [->|Hk0].
    - exists m. split; auto. split; auto. intros i j. simpl.
      destruct (i <? size); simpl; auto. destruct (Nat.eqb_spec j 0); auto. subst. change (Q2Qc 0) with 0%Qc. fring.
    - destruct Hsq as [S1 S2].
      rewrite (get_nth m k []) by lia. cbn [bind].
      rewrite (mapM_seq_ok (fun j => dget m j j) (fun j => ent m j j) k 0) by (intros; apply (dget_ent size); try split; auto; lia).
      cbn [bind]. cbv zeta.
      set (tv := vmul (map (fun j => ent m j j) (seq 0 k)) (firstn k (nth k m []))).
      assert (Ltv : length tv = k).
      { unfold tv. rewrite vmul_length, map_length, seq_length, firstn_length, S2 by lia. lia. }
      assert (Htv : forall j, j < k -> nth j tv 0%Qc = t j).
      { intros j Hj. unfold tv. rewrite nth_vmul.
        - rewrite (nth_indep _ 0%Qc (ent m 0 0)) by (rewrite map_length, seq_length; lia).
          rewrite (map_nth (fun j => ent m j j)). rewrite seq_nth by lia. rewrite nth_firstn by lia. reflexivity.
        - rewrite map_length, seq_length; lia.
        - rewrite firstn_length, S2 by lia. lia. }
      assert (Hdot : forall r : list F, length r = size -> qdot (firstn k r) tv = sum_n k (fun c => nth c r 0 * t c)%Qc).
      { intros r Lr. rewrite (qdot_sum_n _ _ k) by (auto; rewrite firstn_length; lia).
        apply sum_n_ext. intros c Hc. rewrite nth_firstn, Htv by lia. reflexivity. }
      rewrite (get_nth (A:=F) (nth k m []) k 0%Qc) by (rewrite S2; lia). cbn [bind].
      rewrite upd_lset by (rewrite S2; lia). cbn [bind]. rewrite upd_lset by lia. cbn [bind].
      set (mk := lset m k (lset (nth k m []) k (nth k (nth k m []) 0 - qdot (firstn k (nth k m [])) tv)%Qc)).
      assert (Hsqk : sq size mk).
      { split. unfold mk; now rewrite lset_length. intros i Hi. unfold mk. rewrite nth_lset by lia.
        destruct (i =? k); [rewrite lset_length|]; apply S2; lia. }
      assert (Hek : forall i j, ent mk i j = if (i =? k) && (j =? k) then (ent m k k - sum_n k (fun c => ent m k c * t c))%Qc else ent m i j).
      { intros i j. unfold ent at 1. destruct (Nat.lt_ge_cases i size).
        - unfold mk. rewrite nth_lset by lia. destruct (Nat.eqb_spec i k) as [->|]; simpl; auto.
          rewrite nth_lset by (rewrite S2; lia). destruct (j =? k); auto. rewrite Hdot by (apply S2; lia). reflexivity.
        - assert (Ei : nth i mk [] = []) by (apply nth_overflow; unfold mk; rewrite lset_length; lia).
          rewrite Ei. destruct (Nat.eqb_spec i k); [lia|]. simpl.
          unfold ent. rewrite (nth_overflow m) by lia. destruct j; reflexivity. }
      destruct (col_update size k (fun i r a => (a - qdot (firstn k r) tv)%Qc) (S k) size mk Hsqk Hk) as (m1 & E1 & Hsq1 & He1); try lia.
      change Qc with F in *. rewrite E1. exists m1. split; auto. split; auto.
      intros i j. rewrite He1. destruct (Nat.eqb_spec j k) as [->|Hjk]; [|rewrite !andb_false_r; rewrite Hek; rewrite (proj2 (Nat.eqb_neq j k)) by auto; now rewrite andb_false_r].
      rewrite !andb_true_r.
      destruct (Nat.leb_spec (S k) i), (Nat.ltb_spec i size), (Nat.leb_spec k i); simpl; try lia.
      + rewrite Hek. destruct (Nat.eqb_spec i k); [lia|]. simpl.
        rewrite Hdot by (destruct Hsqk as [_ Q]; apply Q; lia).
        f_equal. apply sum_n_ext. intros c Hc. fold (ent mk i c). rewrite Hek.
        destruct (Nat.eqb_spec c k); [lia|]. now rewrite andb_false_r.
      + rewrite Hek. destruct (Nat.eqb_spec i k); [lia|]. reflexivity.
      + rewrite Hek. assert (i = k) by lia. subst i. rewrite Nat.eqb_refl. reflexivity.
      + rewrite Hek. destruct (Nat.eqb_spec i k); [lia|]. reflexivity. }
  destruct H1 as (m1 & E1 & Hsq1 & He1). change Qc with F in *. rewrite E1. cbn [bind].
  rewrite (dget_ent size) by auto. cbn [bind].
  assert (Hlow : forall i j, j < k -> ent m1 i j = ent m i j).
  { intros i j Hj. rewrite He1. destruct (Nat.eqb_spec j k); [lia|]. now rewrite andb_false_r. }
  assert (Hkk : ent m1 k k = (A0 k k - sum_n k (fun j => ent m1 k j * (ent m1 j j * ent m1 k j)))%Qc).
  { rewrite He1. rewrite Nat.leb_refl, Nat.eqb_refl. destruct (Nat.ltb_spec k size); [|lia]. simpl.
    rewrite Hin by (auto; lia). f_equal. apply sum_n_ext. intros j Hj. rewrite !Hlow by auto. reflexivity. }
  assert (Hdone1 : forall c, c < k -> ent m1 c c <> 0%Qc /\
      ent m1 c c = (A0 c c - sum_n c (fun j => ent m1 c j * (ent m1 j j * ent m1 c j)))%Qc /\
      forall i, c < i < size -> (ent m1 i c * ent m1 c c)%Qc = (A0 i c - sum_n c (fun j => ent m1 i j * (ent m1 j j * ent m1 c j)))%Qc).
  { intros c Hc. destruct (Hdone c Hc) as (D1 & D2 & D3). rewrite !Hlow by auto. split; auto. split.
    - rewrite D2. f_equal. apply sum_n_ext. intros j Hj. rewrite !Hlow by lia. reflexivity.
    - intros i Hi. rewrite !Hlow by lia. rewrite D3 by auto. f_equal. apply sum_n_ext. intros j Hj. rewrite !Hlow by lia. reflexivity. }
  destruct (qeqb (ent m1 k k) 0%Qc) eqn:Ez.
  - (* zero pivot: reported *)
    exists m1, true. split; auto. split; [discriminate|]. intros _. split. now apply qeqb_true.
    intros c Hc. apply Hdone1; auto.
  - assert (Hx : ent m1 k k <> 0%Qc).
    { intros Heq. rewrite Heq in Ez. unfold qeqb in Ez. simpl in Ez. discriminate. }
    destruct (col_update size k (fun i r a => (a / ent m1 k k)%Qc) (S k) size m1 Hsq1 Hk) as (m2 & E2 & Hsq2 & He2); try lia.
    change Qc with F in *. rewrite E2. cbn [bind]. exists m2, false. split; auto. split; [|discriminate]. intros _.
    assert (Hlow2 : forall i j, j < k -> ent m2 i j = ent m i j).
    { intros i j Hj. rewrite He2. destruct (Nat.eqb_spec j k); [lia|]. rewrite andb_false_r. apply Hlow; auto. }
    assert (Hd2 : forall c, c <= k -> ent m2 c c = ent m1 c c).
    { intros c Hc. rewrite He2. destruct (Nat.leb_spec (S k) c); [lia|]. reflexivity. }
    split; auto. split.
    + intros i j Hi Hj Hor. rewrite He2. destruct (Nat.eqb_spec j k) as [->|].
      * destruct (Nat.leb_spec (S k) i); [lia|]. simpl. rewrite He1.
        destruct (Nat.leb_spec k i); [lia|]. simpl. apply Hin; auto.
      * rewrite andb_false_r. rewrite He1. rewrite (proj2 (Nat.eqb_neq j k)) by auto. rewrite andb_false_r. apply Hin; auto. lia.
    + intros c Hc. destruct (Nat.eq_dec c k) as [->|Hne].
      * rewrite Hd2 by lia. split; auto. split.
        -- rewrite Hkk. f_equal. apply sum_n_ext. intros j Hj. rewrite !Hlow2, !Hlow by auto. reflexivity.
        -- intros i Hi. rewrite He2. rewrite Nat.eqb_refl.
           destruct (Nat.leb_spec (S k) i), (Nat.ltb_spec i size); try lia. simpl.
           rewrite He1. destruct (Nat.leb_spec k i), (Nat.ltb_spec i size); try lia. rewrite Nat.eqb_refl. simpl.
           rewrite Hin by (auto; lia).
           transitivity (A0 i k - sum_n k (fun c0 => ent m i c0 * t c0))%Qc. { field. exact Hx. }
           f_equal. apply sum_n_ext. intros j Hj. rewrite !Hlow2 by auto. reflexivity.
      * destruct (Hdone1 c ltac:(lia)) as (D1 & D2 & D3). rewrite Hd2 by lia. split; auto. split.
        -- rewrite D2. f_equal. apply sum_n_ext. intros j Hj. rewrite !Hlow2, !Hlow by lia. reflexivity.
        -- intros i Hi. rewrite !Hlow2 by lia. rewrite <- (Hlow i c) by lia. rewrite D3 by auto.
           f_equal. apply sum_n_ext. intros j Hj. rewrite !Hlow2, !Hlow by lia. reflexivity.
Qed.

Lemma unb_loop_correct len : forall k m, k + len = size -> UInv k m ->
  exists m' ret, unb_loop size (seq k len) m = Ok (m', ret) /\
    (ret = None -> UInv size m') /\
    (forall r, ret = Some r -> r < size /\ ent m' r r = 0%Qc /\ forall c, c < r -> ent m' c c <> 0%Qc).
Proof.
  induction len; intros k m Hlen HI; cbn [seq unb_loop].
  - replace k with size in * by lia. exists m, None. split; auto. split; auto. discriminate.
  - destruct (unb_step_correct k m ltac:(lia) HI) as (m1 & z & E & Hf & Ht). rewrite E. cbn [bind].
    destruct z.
    + exists m1, (Some k). split; auto. split; [discriminate|]. intros r Hr. inversion Hr; subst r.
      destruct (Ht eq_refl). split; [lia|auto].
    + apply IHlen; auto. lia.
Qed.
End Unblocked.

Definition Lmd (m : DMat) (i j : nat) : F := if i =? j then 1%Qc else ent m i j.

Theorem unblocked_correct (m0 : DMat) : let size := length m0 in dsquare size m0 = true ->
  exists m ret, unblocked m0 = Ok (m, ret) /\
    (ret = None ->
       (forall c, c < size -> ent m c c <> 0%Qc) /\
       (forall i j, j <= i -> i < size -> sum_n (S j) (fun c => Lmd m i c * ent m c c * Lmd m j c)%Qc = ent m0 i j) /\
       (forall i j, i < j -> j < size -> ent m i j = ent m0 i j)) /\
    (forall r, ret = Some r -> r < size /\ ent m r r = 0%Qc /\ forall c, c < r -> ent m c c <> 0%Qc).
Proof.
  intros size Hsq. unfold unblocked. fold size. rewrite Hsq. cbn [negb].
  destruct (unb_loop_correct size (ent m0) size 0 m0) as (m & ret & E & Hn & Hs); auto.
  - split. now apply dsquare_inv. split; auto. intros; lia.
  - exists m, ret. split; auto. split; auto.
    intros Hret. destruct (Hn Hret) as (Hsqm & Hin & Hdone). split; [|split].
    + intros c Hc. apply Hdone; auto.
    + intros i j Hji Hi. destruct (Hdone j ltac:(lia)) as (D1 & D2 & D3).
      change (sum_n (S j) (fun c => Lmd m i c * ent m c c * Lmd m j c)%Qc) with
        (sum_n j (fun c => Lmd m i c * ent m c c * Lmd m j c) + Lmd m i j * ent m j j * Lmd m j j)%Qc.
      unfold Lmd at 4. rewrite Nat.eqb_refl.
      rewrite (sum_n_ext j _ (fun c => ent m i c * (ent m c c * ent m j c))%Qc).
      2:{ intros c Hc. unfold Lmd. destruct (Nat.eqb_spec i c); [lia|]. destruct (Nat.eqb_spec j c); [lia|]. fring. }
      unfold Lmd. destruct (Nat.eqb_spec i j) as [->|Hne].
      * rewrite D2. fring.
      * transitivity (sum_n j (fun c => ent m i c * (ent m c c * ent m j c)) + ent m i j * ent m j j)%Qc. fring.
        rewrite D3 by lia. fring.
    + intros i j Hij Hj. apply Hin; auto; lia.
Qed.

(* ================= solve ================= *)
(* the unit lower triangular factor stored in the strict lower triangle *)
Definition Ld (m : DMat) (i j : nat) : F := if i =? j then 1%Qc else if j <? i then ent m i j else 0%Qc.

Lemma sum_n_shift_range (f : nat -> F) s n : s <= n ->
  sum_n (n - s) (fun t => f (s + t)) = sum_n n (fun j => if s <=? j then f j else 0%Qc).
Proof.
  intros Hs. induction n.
  - reflexivity.
  - destruct (Nat.eq_dec s (S n)) as [->|Hne].
    + rewrite Nat.sub_diag. cbn [sum_n]. destruct (Nat.leb_spec (S n) n); [lia|].
      rewrite sum_n_zero. fring. intros j Hj. destruct (Nat.leb_spec (S n) j); [lia|auto].
    + replace (S n - s) with (S (n - s)) by lia. cbn [sum_n]. rewrite IHn by lia.
      destruct (Nat.leb_spec s n); [|lia]. replace (s + (n - s)) with n by lia. reflexivity.
Qed.

Lemma nth_skipn {A} (l : list A) s t d : nth t (skipn s l) d = nth (s + t) l d.
Proof. revert l; induction s; intros l; simpl; auto. destruct l; simpl; auto. destruct t; auto. Qed.

Section DenseSolve.
Variable n : nat.
Variable m : DMat.
Hypothesis Hsq : sq n m.
Hypothesis Hpiv : forall c, c < n -> ent m c c <> 0%Qc.

Lemma Ld_row i (x : list F) : i < n ->
  sum_n n (fun c => Ld m i c * nth c x 0)%Qc = (nth i x 0 + sum_n i (fun c => ent m i c * nth c x 0))%Qc.
Proof.
  intros Hi.
  rewrite (sum_n_ext n _ (fun c => (if c =? i then nth i x 0 else 0) + (if c <? i then ent m i c * nth c x 0 else 0))%Qc).
  - rewrite sum_n_add. f_equal.
    + rewrite (sum_n_delta n i) by (auto; intros c _ Hne; apply Nat.eqb_neq in Hne; now rewrite Hne). now rewrite Nat.eqb_refl.
    + rewrite (sum_n_trunc n i) by first [lia | intros c Hc; destruct (Nat.ltb_spec c i); [lia|auto]].
      apply sum_n_ext. intros c Hc. destruct (Nat.ltb_spec c i); [auto|lia].
  - intros c Hc. unfold Ld. destruct (Nat.eqb_spec i c) as [->|Hne].
    + rewrite Nat.eqb_refl. destruct (Nat.ltb_spec c c); [lia|]. fring.
    + destruct (Nat.eqb_spec c i); [congruence|]. destruct (c <? i); fring.
Qed.

Theorem dense_lsolve_correct (b : list F) : length b = n ->
  exists x, dense_lsolve m b = Ok x /\ length x = n /\
            forall i, i < n -> sum_n n (fun c => Ld m i c * nth c x 0)%Qc = nth i b 0%Qc.
Proof.
  intros Hb. unfold dense_lsolve. rewrite Hb. destruct Hsq as [S1 S2].
  destruct (for_range_ind (fun i (x : list F) => length x = n /\
      (forall r, r < i -> (nth r x 0 + sum_n r (fun c => ent m r c * nth c x 0))%Qc = nth r b 0%Qc) /\
      (forall r, i <= r -> nth r x 0%Qc = nth r b 0%Qc))
      0 n (fun i x => do r <- get m i ;; do xi <- get x i ;; upd x i (xi - qdot (firstn i r) (firstn i x))%Qc) b)
    as (x & E & Lx & H1 & _); try lia.
  - split; auto. split; auto. intros; lia.
  - intros i x [_ Hi] (Lx & Hd & Hr).
    rewrite (get_nth m i []) by lia. cbn [bind]. rewrite (get_nth (A:=F) x i 0%Qc) by lia. cbn [bind].
    rewrite upd_lset by lia. eexists; split; [reflexivity|]. split; [now rewrite lset_length|].
    rewrite (qdot_sum_n _ _ i) by (rewrite firstn_length; try rewrite S2; lia).
    split.
    + intros r Hr'. rewrite nth_lset by lia. destruct (Nat.eqb_spec r i) as [->|Hne].
      * rewrite (sum_n_ext i (fun c => ent m i c * nth c (lset x i _) 0)%Qc (fun c => nth c (firstn i (nth i m [])) 0 * nth c (firstn i x) 0)%Qc).
        2:{ intros c Hc. rewrite nth_lset_other by lia. rewrite !nth_firstn by lia. reflexivity. }
        rewrite Hr by lia. fring.
      * rewrite <- (Hd r) by lia. f_equal. apply sum_n_ext. intros c Hc. rewrite nth_lset_other by lia. reflexivity.
    + intros r Hr'. rewrite nth_lset_other by lia. apply Hr; lia.
  - exists x. split; auto. split; auto. intros i Hi. rewrite Ld_row by auto. apply H1; auto.
Qed.

Theorem dense_dsolve_correct (z : list F) : length z = n ->
  exists x, dense_dsolve m z = Ok x /\ length x = n /\ forall i, i < n -> (ent m i i * nth i x 0)%Qc = nth i z 0%Qc.
Proof.
  intros Hz. unfold dense_dsolve. rewrite Hz.
  destruct (for_range_ind (fun j (x : list F) => length x = n /\
      (forall i, i < j -> (ent m i i * nth i x 0)%Qc = nth i z 0%Qc) /\ (forall i, j <= i -> nth i x 0%Qc = nth i z 0%Qc))
      0 n (fun i x => do d <- dget m i i ;; do xi <- get x i ;; do q <- qdiv xi d ;; upd x i q) z) as (x & E & Lx & H1 & _); try lia.
  - split; auto. split; auto. intros; lia.
  - intros j x [_ Hj] (Lx & Hl & Hu).
    rewrite (dget_ent n) by auto. cbn [bind]. rewrite (get_nth (A:=F) x j 0%Qc) by lia. cbn [bind].
    rewrite qdiv_ok by (apply Hpiv; auto). cbn [bind].
    rewrite upd_lset by lia. eexists; split; [reflexivity|]. split; [now rewrite lset_length|]. split.
    + intros i Hi. rewrite nth_lset by lia. destruct (Nat.eqb_spec i j) as [->|].
      * rewrite Hu by lia. field. apply Hpiv; auto.
      * apply Hl; lia.
    + intros i Hi. rewrite nth_lset_other by lia. apply Hu; lia.
  - exists x. split; auto.
Qed.

Lemma Ld_col i (x : list F) : i < n ->
  sum_n n (fun j => Ld m j i * nth j x 0)%Qc = (nth i x 0 + sum_n n (fun j => if S i <=? j then ent m j i * nth j x 0 else 0))%Qc.
Proof.
  intros Hi.
  rewrite (sum_n_ext n _ (fun j => (if j =? i then nth i x 0 else 0) + (if S i <=? j then ent m j i * nth j x 0 else 0))%Qc).
  - rewrite sum_n_add. f_equal.
    rewrite (sum_n_delta n i) by (auto; intros c _ Hne; apply Nat.eqb_neq in Hne; now rewrite Hne). now rewrite Nat.eqb_refl.
  - intros j Hj. unfold Ld. destruct (Nat.eqb_spec j i) as [->|Hne].
    + destruct (Nat.leb_spec (S i) i); [lia|]. fring.
    + destruct (Nat.ltb_spec i j), (Nat.leb_spec (S i) j); try lia; fring.
Qed.

Theorem dense_ltsolve_correct (w : list F) : length w = n ->
  exists x, dense_ltsolve m w = Ok x /\ length x = n /\
            forall i, i < n -> sum_n n (fun j => Ld m j i * nth j x 0)%Qc = nth i w 0%Qc.
Proof.
  intros Hw. unfold dense_ltsolve. rewrite Hw. destruct Hsq as [S1 S2].
  destruct (for_down_ind (fun i (x : list F) => length x = n /\
      (forall r, r < i -> nth r x 0%Qc = nth r w 0%Qc) /\
      (forall r, i <= r < n -> (nth r x 0 + sum_n n (fun j => if S r <=? j then ent m j r * nth j x 0 else 0))%Qc = nth r w 0%Qc))
      n (fun i x => do xi <- get x i ;;
                    let col := map (fun r => nth i r 0%Qc) (skipn (S i) m) in
                    upd x i (xi - qdot col (skipn (S i) x))%Qc) w)
    as (x & E & Lx & _ & H1).
  - split; auto. split; auto. intros; lia.
  - intros i x Hi (Lx & Hl & Hu).
    rewrite (get_nth (A:=F) x i 0%Qc) by lia. cbn [bind]. cbv zeta.
    rewrite upd_lset by lia. eexists; split; [reflexivity|]. split; [now rewrite lset_length|].
    assert (Hdot : qdot (map (fun r => nth i r 0%Qc) (skipn (S i) m)) (skipn (S i) x) =
                   sum_n n (fun j => if S i <=? j then ent m j i * nth j x 0 else 0)%Qc).
    { rewrite (qdot_sum_n _ _ (n - S i)) by (try rewrite map_length; rewrite skipn_length; lia).
      rewrite <- (sum_n_shift_range (fun j => ent m j i * nth j x 0)%Qc (S i) n) by lia.
      apply sum_n_ext. intros t Ht. rewrite nth_skipn.
      rewrite (nth_indep _ 0%Qc (nth i [] 0%Qc)) by (rewrite map_length, skipn_length; lia).
      rewrite (map_nth (fun r => nth i r 0%Qc)). rewrite nth_skipn. reflexivity. }
    rewrite Hdot. split.
    + intros r Hr. rewrite nth_lset_other by lia. apply Hl; lia.
    + intros r Hr. rewrite nth_lset by lia.
      assert (Hsum : sum_n n (fun j => if S r <=? j then (ent m j r * nth j (lset x i (nth i x 0 - sum_n n (fun j0 => if S i <=? j0 then ent m j0 i * nth j0 x 0 else 0))) 0)%Qc else 0%Qc) =
                     sum_n n (fun j => if S r <=? j then (ent m j r * nth j x 0)%Qc else 0%Qc)).
      { apply sum_n_ext. intros j Hj. destruct (Nat.leb_spec (S r) j); auto. rewrite nth_lset_other by lia. reflexivity. }
      rewrite Hsum. destruct (Nat.eqb_spec r i) as [->|Hne].
      * rewrite Hl by lia. fring.
      * apply Hu; lia.
  - exists x. split; auto. split; auto. intros i Hi. rewrite Ld_col by auto. apply H1; lia.
Qed.

Definition LDLd (i j : nat) : F := sum_n n (fun c => Ld m i c * ent m c c * Ld m j c)%Qc.

Theorem dense_solve_correct (b : list F) : length b = n ->
  exists x, dense_solve m b = Ok x /\ length x = n /\
            forall i, i < n -> sum_n n (fun j => LDLd i j * nth j x 0)%Qc = nth i b 0%Qc.
Proof.
  intros Hb. unfold dense_solve.
  destruct (dense_lsolve_correct b Hb) as (z & Ez & Lz & Hz). rewrite Ez. cbn [bind].
  destruct (dense_dsolve_correct z Lz) as (w & Ew & Lw & Hw). rewrite Ew. cbn [bind].
  destruct (dense_ltsolve_correct w Lw) as (x & Ex & Lx & Hx). rewrite Ex.
  exists x. split; auto. split; auto. intros i Hi. unfold LDLd.
  rewrite (sum_n_ext n _ (fun j => sum_n n (fun c => (Ld m i c * ent m c c) * (Ld m j c * nth j x 0))%Qc)).
  2:{ intros j Hj. rewrite <- sum_n_scale_r. apply sum_n_ext. intros; fring. }
  rewrite sum_n_swap.
  rewrite (sum_n_ext n _ (fun c => Ld m i c * nth c z 0)%Qc).
  - apply Hz; auto.
  - intros c Hc. rewrite sum_n_scale_l. rewrite Hx by auto. rewrite <- Hw by auto. fring.
Qed.
End DenseSolve.

(* the product L D L^T restricted to the lower triangle is the sum used in unblocked_correct *)
Lemma LDLd_lower n m i j : j <= i -> i < n ->
  LDLd n m i j = sum_n (S j) (fun c => Lmd m i c * ent m c c * Lmd m j c)%Qc.
Proof.
  intros Hji Hi. unfold LDLd. rewrite (sum_n_trunc n (S j)) by
    first [lia | intros c Hc; unfold Ld; destruct (Nat.eqb_spec j c); [lia|]; destruct (Nat.ltb_spec c j); [lia|]; fring].
  apply sum_n_ext. intros c Hc. unfold Ld, Lmd.
  destruct (Nat.eqb_spec i c), (Nat.eqb_spec j c); try reflexivity.
  - destruct (Nat.ltb_spec c j); [reflexivity|lia].
  - destruct (Nat.ltb_spec c i); [reflexivity|lia].
  - destruct (Nat.ltb_spec c i), (Nat.ltb_spec c j); try lia; reflexivity.
Qed.
Lemma LDLd_sym n m i j : LDLd n m i j = LDLd n m j i.
Proof. unfold LDLd. apply sum_n_ext. intros; fring. Qed.

(* factorise, then solve: A x = b for the symmetric matrix given by the lower triangle of the input *)
Theorem unblocked_solve_correct (m0 : DMat) (b : list F) : let size := length m0 in
  dsquare size m0 = true -> length b = size ->
  forall m, unblocked m0 = Ok (m, None) ->
  exists x, dense_solve m b = Ok x /\ length x = size /\
    forall i, i < size -> sum_n size (fun j => (if j <=? i then ent m0 i j else ent m0 j i) * nth j x 0)%Qc = nth i b 0%Qc.
Proof.
  intros size Hsq Hb m Hun.
  destruct (unblocked_correct m0 Hsq) as (m' & ret & E & Hn & _). fold size in E, Hn. rewrite Hun in E. inversion E; subst m' ret.
  destruct (Hn eq_refl) as (Hpiv & Hprod & _).
  assert (Hsqm : sq size m).
  { unfold unblocked in Hun. fold size in Hun. rewrite Hsq in Hun. cbn [negb] in Hun.
    destruct (unb_loop_correct size (ent m0) size 0 m0) as (m2 & r2 & E2 & Hn2 & _); auto.
    - split. now apply dsquare_inv. split; auto. intros; lia.
    - rewrite Hun in E2. inversion E2; subst. apply (Hn2 eq_refl). }
  destruct (dense_solve_correct size m Hsqm Hpiv b Hb) as (x & Ex & Lx & Hx).
  exists x. split; auto. split; auto. intros i Hi. rewrite <- Hx by auto.
  apply sum_n_ext. intros j Hj. f_equal.
  destruct (Nat.leb_spec j i).
  - rewrite LDLd_lower by lia. symmetry. apply Hprod; lia.
  - rewrite LDLd_sym, LDLd_lower by lia. symmetry. apply Hprod; lia.
Qed.
