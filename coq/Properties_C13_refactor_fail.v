(* Properties_C13_refactor_fail.v -- C13: the retry protocol of the sparse back end.  A regularize_and_factorize(false) that reports
   a zero pivot (sparse/ldlt.hpp: "if (D[k] == 0.0) return k") leaves the LDL object REUSABLE (KKTSparseRefactorProofs.reusable:
   etree / L_cols of the symbolic phase, work arrays of the right sizes, y cleared): in the code the test comes after the elimination
   loop of step k, which has cleared every entry of y it used; so no weakening of [reusable] is needed and the real code DOES leave
   the work vector clean on the early return (no finding).  Hence a later factorisation on the same object -- after the
   regularisation was increased / the scalings changed, same pattern -- is covered by C13_sparse_refactor (Properties_C13_solve.v):
   C13_sparse_retry_after_failure.  Model LDLSparse.v / KKTSparseSolve.v; all sizes, patterns, values. *)
From PIQP Require Import Base CSC LDLSparse LDLValuesFinalProofs KKTSparseSolve KKTSparseSolveProofs KKTSparseRefactorProofs KKTSparseRefactorFailProofs.
Local Open Scope nat_scope.

Theorem C13_sparse_refactor_after_failure : forall (K : csc F) (st0 st : ldl_i * ldl_v),
  wf_csc K = true -> ncols K = nrows K -> upper_only K = true -> nodup_cols K ->
  reusable K st0 -> kkt_factorize K st0 = Ok (false, st) -> reusable K st.
Proof. exact factorize_fail_reusable. Qed.
Print Assumptions C13_sparse_refactor_after_failure.

(* failure, then success on a matrix K' of the same pattern (more regularisation / new scalings) with the same LDL object *)
Theorem C13_sparse_retry_after_failure : forall (K K' : csc F) (st0 st1 st2 : ldl_i * ldl_v),
  wf_csc K = true -> ncols K = nrows K -> upper_only K = true -> nodup_cols K ->
  wf_csc K' = true -> nrows K' = nrows K -> ncols K' = ncols K -> colptr K' = colptr K -> rowind K' = rowind K ->
  reusable K st0 -> kkt_factorize K st0 = Ok (false, st1) -> kkt_factorize K' st1 = Ok (true, st2) ->
  ldl_solves K' st2 /\ reusable K' st2.
Proof.
  intros K K' st0 st1 st2 W Hsq U Hnd W' ER EC EP EI Hre E1 E2.
  pose proof (factorize_fail_reusable K st0 st1 W Hsq U Hnd Hre E1) as Hre1.
  pose proof (reusable_pattern K K' st1 ER EP EI Hre1) as Hre1'.
  assert (Hsq' : ncols K' = nrows K') by congruence.
  assert (U' : upper_only K' = true) by (unfold upper_only in *; rewrite EC, EP, EI; exact U).
  assert (Hnd' : nodup_cols K') by (unfold nodup_cols in *; rewrite EC, EP, EI; exact Hnd).
  apply (refactor_solves K' st1 st2 W' Hsq' U' Hnd' Hre1').
  unfold kkt_factorize in E2. destruct (numeric K' st1) as [[r0 st']|]; cbn [bind] in E2; [|discriminate].
  inversion E2 as [[Hr Hst]]. apply Nat.eqb_eq in Hr. subst. now rewrite Hsq'.
Qed.
Print Assumptions C13_sparse_retry_after_failure.

(* non-vacuity (the stage's sc_singular scenario in small): K = [[1, 1], [., 1]] has the pivots 1, 0: the factorisation reports
   failure; K' = [[1, 1], [., 3]] (same pattern, regularised) is then factorised on the SAME object and solve_inplace solves
   K' x = (1, 2):  x = (1/2, 1/2) *)
Local Open Scope Qc_scope.
Definition exf_K : csc F := mkcsc 2 2 [0; 1; 3]%nat [0; 0; 1]%nat [qofZ 1; qofZ 1; qofZ 1].
Definition exf_K' : csc F := mkcsc 2 2 [0; 1; 3]%nat [0; 0; 1]%nat [qofZ 1; qofZ 1; qofZ 3].
Example exf_hyps : wf_csc exf_K = true /\ upper_only exf_K = true /\ nodup_cols exf_K /\ wf_csc exf_K' = true.
Proof. split; [reflexivity|]. split; [reflexivity|]. split; [apply nodup_colsb_ok; reflexivity|reflexivity]. Qed.
Example exf_run :
  match kkt_symbolic exf_K with
  | Ok st0 => match kkt_factorize exf_K st0 with
    | Ok (false, st1) => match kkt_factorize exf_K' st1 with
      | Ok (true, st2) => match ldl_solve st2 [qofZ 1; qofZ 2] with
                          | Ok x => qeqb (nth 0 x 0) (qmk 1 2) && qeqb (nth 1 x 0) (qmk 1 2) && (length x =? 2)%nat
                          | Err _ => false end
      | _ => false end
    | _ => false end
  | Err _ => false
  end = true.
Proof. vm_compute. reflexivity. Qed.
